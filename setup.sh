#!/bin/sh
# Builds the framework from files on disk only (offline): the Lean library (model, lemmas, theorems),
# the model driver and the Go harness.
set -e
cd "$(dirname "$0")"
export GOFLAGS=-mod=mod GOPROXY=off GOSUMDB=off GOTOOLCHAIN=local
mkdir -p .work evidence replays
(cd lean && lake build TssVerif tssdrv)
cp /repo/go.sum harness/go.sum
(cd harness && go build -tags verif -o ../.work/vh .)
echo setup done
