#!/bin/sh
# Builds the framework from files on disk only (offline): the Go harness, the facts regenerated from /repo,
# the Lean library (model, lemmas, theorems) and the model driver.
set -e
cd "$(dirname "$0")"
export GOFLAGS=-mod=mod GOPROXY=off GOSUMDB=off GOTOOLCHAIN=local
mkdir -p .work evidence replays
cp /repo/go.sum harness/go.sum
(cd harness && go build -tags verif -o ../.work/vh .)
./.work/vh facts -gen lean/TssVerif/Gen
(cd lean && lake build TssVerif tssdrv)
echo setup done
