import TssVerif.Core.Ops
/-! `tssdrv`: line protocol over the executable model. One op per input line, one result per line. -/
open TssVerif

partial def loop (h : IO.FS.Stream) (out : IO.FS.Stream) : IO Unit := do
  let line ← h.getLine
  if line.isEmpty then return ()
  let l := line.trimAscii.toString
  if l.isEmpty || l.startsWith "#" then
    loop h out
  else
    out.putStrLn (Ops.run l)
    out.flush
    loop h out

def main : IO Unit := do
  let out ← IO.getStdout
  loop (← IO.getStdin) out
  out.flush
