import TssVerif.Core.Wire
import TssVerif.Core.Vss
import TssVerif.Core.Paillier
/-! Line-protocol ops for curves, VSS and Paillier. -/
namespace TssVerif.OpsCrypto
open TssVerif Wire

def rPoint (a : ECPoint) : String := rNat a.1 ++ ":" ++ rNat a.2
def rPoints (l : List ECPoint) : String := rList rPoint l

def pPoint (s : String) : Option ECPoint :=
  match s.splitOn ":" with
  | [x, y] => match pNat x, pNat y with
    | some x, some y => some (x, y)
    | _, _ => none
  | _ => none

/-- the model of the tree as it is now -/
def curVss : Vss.VerifyCfg := { rejectZero := true }
def curPaiProof : Paillier.ProofCfg := { boundedXs := true }

def pShare (s : String) : Option Vss.Share :=
  match s.splitOn ":" with
  | [t, id, sh] => match pDec t, pNat id, pNat sh with
    | some t, some id, some sh => some ⟨t, id, sh⟩
    | _, _, _ => none
  | _ => none

def rShare (s : Vss.Share) : String := toString s.threshold ++ ":" ++ rNat s.id ++ ":" ++ rNat s.share

def curveOps {P : Type} (C : Curve P) (op : String) (args : List String) : Option String :=
  match op, args with
  | "ec_new", [x, y] =>
    match pInt x, pInt y with
    | some x, some y =>
      some (if x < 0 ∨ y < 0 then "err" else match C.ecNew x.toNat y.toNat with
        | some _ => "ok"
        | none => "err")
    | _, _ => none
  | "ec_add", [a, b] =>
    match pPoint a, pPoint b with
    | some a, some b => some ((C.ecAdd a b).render rPoint)
    | _, _ => none
  | "ec_smul", [a, k] =>
    match pPoint a, pInt k with
    | some a, some k => some ((C.ecScalarMult a k).render rPoint)
    | _, _ => none
  | "ec_unflatten", [xs] =>
    match pList pNat xs with
    | some xs => some (match C.unflatten xs with
      | some ps => "ok " ++ rPoints ps
      | none => "err")
    | none => none
  | "ec_base", [k] =>
    match pInt k with
    | some k => some ((C.ecBaseMult k).render rPoint)
    | none => none
  | "vss_create", [t, secret, ids, coeffs] =>
    match pDec t, pNat secret, pList pNat ids, pList pNat coeffs with
    | some t, some secret, some ids, some coeffs =>
      some ((Vss.create C t secret ids coeffs).render fun (vs, shares) => rPoints vs ++ " " ++ rList rShare shares)
    | _, _, _, _ => none
  | "vss_verify", [t, sh, vs] =>
    match pDec t, pShare sh, pList pPoint vs with
    | some t, some sh, some vs => some (verdict (Vss.verify C curVss t sh vs))
    | _, _, _ => none
  | "vss_reconstruct", [shares] =>
    match pList pShare shares with
    | some shares => some ((Vss.reconstruct C.q shares).render rNat)
    | none => none
  | _, _ => none

def run (op : String) (args : List String) : Option String :=
  match op, args with
  | "pai_encrypt", [n, m, x] =>
    match pNat n, pInt m, pNat x with
    | some n, some m, some x => some ((Paillier.encryptWith n m x).render rNat)
    | _, _, _ => none
  | "pai_homomult", [n, m, c] =>
    match pNat n, pInt m, pInt c with
    | some n, some m, some c => some ((Paillier.homoMult n m c).render rNat)
    | _, _, _ => none
  | "pai_homoadd", [n, c1, c2] =>
    match pNat n, pInt c1, pInt c2 with
    | some n, some c1, some c2 => some ((Paillier.homoAdd n c1 c2).render rNat)
    | _, _, _ => none
  | "pai_decrypt", [n, lam, phi, c] =>
    match pNat n, pNat lam, pNat phi, pInt c with
    | some n, some lam, some phi, some c =>
      some ((Paillier.decrypt ⟨n, lam, phi, 0, 0⟩ c).render rNat)
    | _, _, _, _ => none
  | "pai_proof", [n, phi, k, pub] =>
    match pNat n, pNat phi, pInt k, pPoint pub with
    | some n, some phi, some k, some pub =>
      some ((Paillier.proof Sha512.sha512_256 ⟨n, 0, phi, 0, 0⟩ k pub).render (rList rNat))
    | _, _, _, _ => none
  | "pai_proof_verify", [pf, n, k, pub] =>
    match pList pInt pf, pInt n, pInt k, pPoint pub with
    | some pf, some n, some k, some pub =>
      -- Go reports a short `xs` as (false, error) and a small factor as (false, nil), whichever of its two
      -- goroutines answers first: both are "not accepted"
      some (match Paillier.proofVerify curPaiProof Sha512.sha512_256 pf n k pub with
        | .err _ => "reject"
        | o => verdict o)
    | _, _, _, _ => none
  | "ec_8inv8", [a] =>
    match pPoint a with
    | some a =>
      some ((Ed25519.eightInvEight a).render rPoint)
    | none => none
  | _, c :: rest =>
    if c == "s256" then curveOps Secp256k1.curve op rest
    else if c == "ed" then curveOps Ed25519.curve op rest
    else none
  | _, _ => none

end TssVerif.OpsCrypto
