import TssVerif.Core.Paillier
import TssVerif.Core.Commit
/-! The zero-knowledge proof systems of `crypto/{schnorr,dlnproof,modproof,facproof,mta}`:
provers with explicit coins, verifiers in the `Outcome` monad with every crash site explicit,
and the wire (de)serialisation. `H` is the hash used for challenges. -/
namespace TssVerif
namespace Zk

/-- guard configuration: `true` everywhere = the tree as it is now; a `false` reproduces the tree
before the corresponding `fix:` commit (used for witnesses) -/
structure Cfg where
  schnorrGuards : Bool   -- K1: T, U ≢ 0 (mod q), c ≠ 0, Add error checked
  rangeUnitC : Bool      -- K3: Alice's ciphertext must be a unit mod N²
  bobWCGuards : Bool     -- K5: s1 ≢ 0 (mod q), e ≠ 0
  modParityFirst : Bool  -- K7: N odd and positive before Jacobi
  facNCapPositive : Bool -- NCap > 0
  modCanonicalRoot : Bool -- of the fourth roots `x`, `N − x` only the smaller is sent and accepted

def cur : Cfg := ⟨true, true, true, true, true, true⟩
def old : Cfg := ⟨false, false, false, false, false, false⟩

/-- use of a nil `*big.Int` as an operand: crash -/
def nilPanic {α} (tag : String) : Option α → Outcome α := Outcome.ofOption tag

/-- `modN.Exp(x, y)` with possibly negative `y`; nil result used as operand = panic -/
def expP (x : Int) (y : Int) (m : Nat) : Outcome Nat := nilPanic "nil-exp" (goExp x y m)

/-! ## Schnorr (`ZKProof`) and Schnorr-V (`ZKVProof`) -/
section Schnorr
variable {P : Type} (C : Curve P) (H : HashFn)

def baseXY : ECPoint := (C.toAffine C.base).getD (0, 0)

def schnorrChallenge (sess : Bytes) (X alpha : ECPoint) : Nat :=
  let g := baseXY C
  rejectionSample C.q ((sha512_256iTaggedWith H sess [X.1, X.2, g.1, g.2, alpha.1, alpha.2]).getD 0)

/-- `NewZKProof(Session, x, X, rand)` with coin `a` -/
def schnorrProve (sess : Bytes) (x : Int) (X : ECPoint) (a : Nat) : Outcome (ECPoint × Nat) := do
  if !C.ecIsOnCurve X then .err "invalid" else
  let alpha ← C.ecBaseMult a
  let c := schnorrChallenge C H sess X alpha
  .ok (alpha, ((a : Int) + (c : Int) * x) % (C.q : Int) |>.toNat)

/-- `(*ZKProof).Verify(Session, X)`; `alpha` and `X` are points that entered through a checked door -/
def schnorrVerify (cfg : Cfg) (sess : Bytes) (X : ECPoint) (alpha : ECPoint) (t : Nat) : Outcome Bool := do
  let c := schnorrChallenge C H sess X alpha
  if cfg.schnorrGuards && (t % C.q == 0 || c == 0) then .ok false else
  let tG ← C.ecBaseMult t
  let xc ← C.ecScalarMult X c
  match C.ecAdd alpha xc with
  | .ok axc => .ok (ecEquals axc tG)
  | .err _ => .ok false
  | .panic e => .panic e

def schnorrVChallenge (sess : Bytes) (V R alpha : ECPoint) : Nat :=
  let g := baseXY C
  rejectionSample C.q ((sha512_256iTaggedWith H sess [V.1, V.2, R.1, R.2, g.1, g.2, alpha.1, alpha.2]).getD 0)

/-- `NewZKVProof(Session, V, R, s, l, rand)` with coins `a, b` -/
def schnorrVProve (sess : Bytes) (V R : ECPoint) (s l : Int) (a b : Nat) : Outcome (ECPoint × Nat × Nat) := do
  if !C.ecIsOnCurve V || !C.ecIsOnCurve R then .err "invalid" else
  let aR ← C.ecScalarMult R a
  let bG ← C.ecBaseMult b
  match C.ecAdd aR bG with
  | .ok alpha =>
    let c := schnorrVChallenge C H sess V R alpha
    .ok (alpha, (((a : Int) + (c : Int) * s) % (C.q : Int)).toNat, (((b : Int) + (c : Int) * l) % (C.q : Int)).toNat)
  | .err _ => .panic "nil-alpha"     -- `alpha, _ := aR.Add(bG)` then `alpha.X()`
  | .panic e => .panic e

/-- `(*ZKVProof).Verify(Session, V, R)` -/
def schnorrVVerify (cfg : Cfg) (sess : Bytes) (V R : ECPoint) (alpha : ECPoint) (t u : Nat) : Outcome Bool := do
  if !C.ecIsOnCurve alpha then .ok false else   -- ValidateBasic
  let c := schnorrVChallenge C H sess V R alpha
  if cfg.schnorrGuards && (t % C.q == 0 || u % C.q == 0 || c == 0) then .ok false else
  let tR ← C.ecScalarMult R t
  let uG ← C.ecBaseMult u
  match C.ecAdd tR uG with
  | .err _ => if cfg.schnorrGuards then .ok false else .panic "nil-tRuG"
  | .panic e => .panic e
  | .ok tRuG =>
    let vc ← C.ecScalarMult V c
    match C.ecAdd alpha vc with
    | .ok avc => .ok (ecEquals tRuG avc)
    | .err _ => .ok false
    | .panic e => .panic e

end Schnorr

/-! ## discrete-log proof over a safe-prime product (`dlnproof`) -/
def dlnIterations : Nat := 128

def dlnChallenge (H : HashFn) (h1 h2 n : Int) (alpha : List Int) : Nat :=
  (sha512_256iWith H (h1 :: h2 :: n :: alpha)).getD 0

/-- `NewDLNProof(h1, h2, x, p, q, N, rand)` with coins `a_i < pq` -/
def dlnProve (H : HashFn) (h1 h2 : Nat) (x p q n : Nat) (as : List Nat) : Outcome (List Nat × List Nat) := do
  let alpha ← as.mapM fun (a : Nat) => expP h1 a n
  let c := dlnChallenge H h1 h2 n (alpha.map Int.ofNat)
  let t := (List.range as.length).map fun i =>
    (as.getD i 0 + (if c.testBit i then 1 else 0) * x % (p * q)) % (p * q)
  .ok (alpha, t)

/-- `(*Proof).Verify(h1, h2, N)`; the proof arrays have exactly `Iterations` entries -/
def dlnVerify (H : HashFn) (alpha t : List Int) (h1 h2 n : Int) : Outcome Bool :=
  if n ≤ 0 then .ok false else
  let nn := n.toNat
  let inRange (v : Int) : Bool := let a := v % n; decide (1 < a) && decide (a < n)
  if !inRange h1 then .ok false else
  if !inRange h2 then .ok false else
  if h1 % n == h2 % n then .ok false else
  if !(t.all inRange) then .ok false else
  if !(alpha.all inRange) then .ok false else
  let c := dlnChallenge H h1 h2 n alpha
  (List.range dlnIterations).foldlM (fun acc i =>
    if !acc then pure false else do
      let ci : Int := if c.testBit i then 1 else 0
      let l ← expP h1 (t.getD i 0) nn
      let r ← expP h2 ci nn
      pure (l == (((alpha.getD i 0) * (r : Int)) % n).toNat)) true

/-- `dlnproof.Proof.Serialize` ∘ `UnmarshalDLNProof` on the level of integer lists -/
def dlnSerialize (alpha t : List Int) : Outcome (List Int) := builderSecrets [alpha, t]

def dlnUnmarshal (pcfg : ParseCfg) (xs : List Int) : Outcome (List Int × List Int) :=
  match parseSecretsCfg pcfg xs with
  | .ok [a, t] => if a.length = dlnIterations ∧ t.length = dlnIterations then .ok (a, t) else .err "wrong-length"
  | .ok _ => .err "wrong-parts"
  | .err e => .err e
  | .panic e => .panic e

/-! ## Paillier-Blum modulus proof (`modproof`) -/
def modIterations : Nat := 80

/-- the challenge chain `Y_i = H_tagged(session; W, N, Y_0..Y_{i-1}) mod N` -/
def modYs (H : HashFn) (sess : Bytes) (w n : Int) : Nat → List Nat → Outcome (List Nat)
  | 0, acc => .ok acc
  | k + 1, acc =>
    if n = 0 then .panic "mod-by-zero" else
    let e := (sha512_256iTaggedWith H sess (w :: n :: acc.map Int.ofNat)).getD 0
    modYs H sess w n k (acc ++ [(((e : Int) % n).toNat)])

/-- the representative of `{x, N − x}` that the prover sends: the smaller one -/
def modCanonRoot (n x : Nat) : Nat := if n - x < x then n - x else x

/-- `NewProof(Session, N, P, Q, rand)` with the sampled non-residue `W` given, before the choice of the
representative of `±x` (the whole prover of the tree before that repair) -/
def modProveRaw (H : HashFn) (sess : Bytes) (n p q w : Nat) : Outcome (Nat × List Nat × Nat × Nat × List Nat) := do
  let phi := (p - 1) * (q - 1)
  let ys ← modYs H sess w n modIterations []
  let invN ← nilPanic "nil-inv" (modInverse n phi)
  let expo := ((phi + 4) / 8) * ((phi + 4) / 8) % phi
  let rec pickJ (y : Nat) : List Nat → Outcome (Nat × Nat × Nat)
    | [] => .panic "nil-x"       -- no candidate was a residue: X[i] stays nil and `Bytes()`/verify crash later
    | j :: js =>
      let a := j % 2
      let b := j / 2 % 2
      let y1 := if a > 0 then ((-1 : Int) * y % n).toNat else y
      let y2 := if b > 0 then w * y1 % n else y1
      match goJacobi y2 p, goJacobi y2 q with
      | .ok 1, .ok 1 => .ok (modPow y2 expo n, a, b)
      | .panic e, _ => .panic e
      | _, .panic e => .panic e
      | _, _ => pickJ y js
  let xs ← ys.mapM fun y => pickJ y [0, 1, 2, 3]
  let zs := ys.map fun y => modPow y invN n
  let aBits := (List.range modIterations).foldl (fun acc i => acc + (xs.getD i (0, 0, 0)).2.1 * 2 ^ i) (2 ^ modIterations)
  let bBits := (List.range modIterations).foldl (fun acc i => acc + (xs.getD i (0, 0, 0)).2.2 * 2 ^ i) (2 ^ modIterations)
  .ok (w, xs.map (·.1), aBits, bBits, zs)

/-- `NewProof(Session, N, P, Q, rand)`: every root is replaced by the smaller of `x`, `N − x` -/
def modProveCfg (cfg : Cfg) (H : HashFn) (sess : Bytes) (n p q w : Nat) :
    Outcome (Nat × List Nat × Nat × Nat × List Nat) := do
  let pf ← modProveRaw H sess n p q w
  .ok (pf.1, if cfg.modCanonicalRoot then pf.2.1.map (modCanonRoot n) else pf.2.1, pf.2.2)

def modProve (H : HashFn) (sess : Bytes) (n p q w : Nat) : Outcome (Nat × List Nat × Nat × Nat × List Nat) :=
  modProveCfg cur H sess n p q w

/-- deterministic Miller–Rabin for `ProbablyPrime` (bases 2..37 plus trial division) -/
def millerRabinWitness (n d r a : Nat) : Bool :=
  let x := modPow a d n
  if x = 1 ∨ x = n - 1 then false else
  let rec loop : Nat → Nat → Bool
    | 0, _ => true
    | k + 1, x =>
      let x' := x * x % n
      if x' = n - 1 then false else loop k x'
  loop (r - 1) x

def isProbablyPrime (n : Nat) : Bool :=
  if n < 2 then false else
  let small := [2, 3, 5, 7, 11, 13, 17, 19, 23, 29, 31, 37]
  if small.contains n then true else
  if small.any (fun p => n % p = 0) then false else
  let rec split : Nat → Nat → Nat → Nat × Nat
    | 0, d, r => (d, r)
    | f + 1, d, r => if d % 2 = 0 then split f (d / 2) (r + 1) else (d, r)
  let (d, r) := split (n.log2 + 1) (n - 1) 0
  small.all fun a => !millerRabinWitness n d r a

/-- `(*ProofMod).Verify(Session, N)`; `xs`, `zs` have exactly `Iterations` entries -/
def modVerify (cfg : Cfg) (H : HashFn) (sess : Bytes) (w : Int) (xs : List Int) (a b : Int) (zs : List Int) (n : Int) :
    Outcome Bool := do
  if cfg.modParityFirst && (n ≤ 0 || n % 2 == 0) then .ok false else
  if n < 0 then .ok false else   -- (wire values are non-negative; kept for totality)
  let j ← goJacobi w n.toNat
  if j == 1 then .ok false else
  if !(0 < w && w < n) then .ok false else
  if Nat.gcd w.toNat n.toNat != 1 then .ok false else
  if !(zs.all fun z => 0 < z && z < n) then .ok false else
  if !(xs.all fun x => 0 < x && x < n) then .ok false else
  if cfg.modCanonicalRoot && !(xs.all fun x => 2 * x ≤ n) then .ok false else
  if bitLen a.natAbs != modIterations + 1 then .ok false else
  if bitLen b.natAbs != modIterations + 1 then .ok false else
  let ys ← modYs H sess w n modIterations []
  if n % 2 == 0 || isProbablyPrime n.toNat then .ok false else
  let nn := n.toNat
  .ok ((List.range modIterations).all fun i =>
    let y := ys.getD i 0
    let okZ := modPow (zs.getD i 0).toNat nn nn == y
    let ai := a.natAbs.testBit i
    let bi := b.natAbs.testBit i
    let r1 : Nat := if ai then ((-1 : Int) * y % n).toNat else y
    let r2 : Nat := if bi then (w.toNat * r1) % nn else r1
    okZ && modPow (xs.getD i 0).toNat 4 nn == r2)

/-! ## no-small-factor proof (`facproof`) -/
structure FacProof where
  P : Int
  Q : Int
  A : Int
  B : Int
  T : Int
  sigma : Int
  z1 : Int
  z2 : Int
  w1 : Int
  w2 : Int
  v : Int
deriving Repr, DecidableEq

def facChallenge (H : HashFn) (q : Nat) (sess : Bytes) (n0 ncap s t : Int) (pf : FacProof) : Nat :=
  rejectionSample q ((sha512_256iTaggedWith H sess [n0, ncap, s, t, pf.P, pf.Q, pf.A, pf.B, pf.T, pf.sigma]).getD 0)

structure FacCoins where
  alpha : Nat
  beta : Nat
  mu : Nat
  nu : Nat
  sigma : Nat
  r : Nat
  x : Nat
  y : Nat

/-- `facproof.NewProof` with explicit coins -/
def facProve (H : HashFn) (q : Nat) (sess : Bytes) (n0 ncap s t n0p n0q : Nat) (k : FacCoins) : Outcome FacProof := do
  let e1 (b : Nat) (x : Nat) := modPow b x ncap
  let P := e1 s n0p * e1 t k.mu % ncap
  let Q := e1 s n0q * e1 t k.nu % ncap
  let A := e1 s k.alpha * e1 t k.x % ncap
  let B := e1 s k.beta * e1 t k.y % ncap
  let T := e1 Q k.alpha * e1 t k.r % ncap
  let pf0 : FacProof := ⟨P, Q, A, B, T, k.sigma, 0, 0, 0, 0, 0⟩
  let e := facChallenge H q sess n0 ncap s t pf0
  .ok { pf0 with
    z1 := e * n0p + k.alpha, z2 := e * n0q + k.beta, w1 := e * k.mu + k.x, w2 := e * k.nu + k.y,
    v := (e : Int) * ((k.sigma : Int) - (k.nu : Int) * n0p) + k.r }

/-- `(*ProofFac).Verify(Session, ec, N0, NCap, s, t)` -/
def facVerify (cfg : Cfg) (H : HashFn) (q : Nat) (sess : Bytes) (n0 ncap s t : Int) (pf : FacProof) : Outcome Bool := do
  if n0 ≤ 0 then .ok false else
  if cfg.facNCapPositive && ncap ≤ 0 then .ok false else
  let bound : Int := (q * q * q * isqrt n0.toNat : Nat)
  if !isInInterval pf.z1 bound then .ok false else
  if !isInInterval pf.z2 bound then .ok false else
  if ncap = 0 then .err "hang-or-mod-by-zero" else
  let e : Int := facChallenge H q sess n0 ncap s t pf
  let m := ncap.natAbs
  let mul (a b : Nat) : Nat := a * b % m
  let mulI (a : Int) (b : Nat) : Nat := ((a * (b : Int)) % (m : Int)).toNat
  let l1 := mul (← expP s pf.z1 m) (← expP t pf.w1 m)
  let r1 := mulI pf.A (← expP pf.P e m)
  if l1 != r1 then .ok false else
  let l2 := mul (← expP s pf.z2 m) (← expP t pf.w2 m)
  let r2 := mulI pf.B (← expP pf.Q e m)
  if l2 != r2 then .ok false else
  let R := mul (← expP s n0 m) (← expP t pf.sigma m)
  let l3 := mul (← expP pf.Q pf.z1 m) (← expP t pf.v m)
  let r3 := mulI pf.T (← expP R e m)
  .ok (l3 == r3)

/-! ## Alice's range proof (`mta.RangeProofAlice`) -/
structure RangeProof where
  z : Int
  u : Int
  w : Int
  s : Int
  s1 : Int
  s2 : Int
deriving Repr, DecidableEq

def rangeChallenge (H : HashFn) (q : Nat) (n : Int) (c : Int) (z u w : Int) : Nat :=
  rejectionSample q ((sha512_256iWith H [n, n + 1, c, z, u, w]).getD 0)

/-- `ProveRangeAlice` with coins `alpha, beta, gamma, rho` -/
def rangeProve (H : HashFn) (q : Nat) (n : Nat) (c : Nat) (ntilde h1 h2 : Nat) (m r : Nat)
    (alpha beta gamma rho : Nat) : Outcome RangeProof := do
  let n2 := n * n
  let z := modPow h1 m ntilde * modPow h2 rho ntilde % ntilde
  let u := modPow (n + 1) alpha n2 * modPow beta n n2 % n2
  let w := modPow h1 alpha ntilde * modPow h2 gamma ntilde % ntilde
  let e := rangeChallenge H q n c z u w
  let s := modPow r e n * beta % n
  .ok ⟨z, u, w, s, e * m + alpha, e * rho + gamma⟩

/-- `(*RangeProofAlice).Verify(ec, pk, NTilde, h1, h2, c)` -/
def rangeVerify (cfg : Cfg) (H : HashFn) (q : Nat) (n : Int) (ntilde h1 h2 c : Int) (pf : RangeProof) : Outcome Bool := do
  let n2 := n * n
  let q3 : Int := (q * q * q : Nat)
  if !isInInterval pf.z ntilde then .ok false else
  if !isInInterval pf.u n2 then .ok false else
  if !isInInterval pf.w ntilde then .ok false else
  if !isInInterval pf.s n then .ok false else
  if Int.gcd pf.z ntilde != 1 then .ok false else
  if Int.gcd pf.u n2 != 1 then .ok false else
  if Int.gcd pf.w ntilde != 1 then .ok false else
  if pf.s1 < q then .ok false else
  if pf.s2 < q then .ok false else
  if pf.s == 1 then .ok false else
  if pf.z == 1 then .ok false else
  if pf.s1 == pf.s2 then .ok false else
  if pf.s1 > q3 then .ok false else
  if cfg.rangeUnitC && Int.gcd c n2 != 1 then .ok false else
  let e : Int := rangeChallenge H q n c pf.z pf.u pf.w
  let m2 := n2.natAbs
  let cE ← expP c (-e) m2
  let sN ← expP pf.s n m2
  let gS1 ← expP (n + 1) pf.s1 m2
  let prod := gS1 * sN % m2 * cE % m2
  if pf.u != (prod : Int) then .ok false else
  let mt := ntilde.natAbs
  let a1 ← expP h1 pf.s1 mt
  let a2 ← expP h2 pf.s2 mt
  let zE ← expP pf.z (-e) mt
  let prod2 := a1 * a2 % mt * zE % mt
  .ok (pf.w == (prod2 : Int))

/-! ## Bob's proofs (`mta.ProofBob`, `mta.ProofBobWC`) -/
structure BobProof where
  z : Int
  zPrm : Int
  t : Int
  v : Int
  w : Int
  s : Int
  s1 : Int
  s2 : Int
  t1 : Int
  t2 : Int
deriving Repr, DecidableEq

structure BobCoins where
  alpha : Nat
  rho : Nat
  sigma : Nat
  tau : Nat
  rhoPrm : Nat
  beta : Nat
  gamma : Nat

section Bob
variable {P : Type} (C : Curve P) (H : HashFn)

def bobChallenge (sess : Bytes) (n : Int) (c1 c2 : Int) (xu : Option (ECPoint × ECPoint)) (pf : BobProof) : Nat :=
  let pre : List Int := match xu with
    | none => [n, n + 1, c1, c2, pf.z, pf.zPrm, pf.t, pf.v, pf.w]
    | some (X, U) => [n, n + 1, X.1, X.2, c1, c2, U.1, U.2, pf.z, pf.zPrm, pf.t, pf.v, pf.w]
  rejectionSample C.q ((sha512_256iTaggedWith H sess pre).getD 0)

/-- `ProveBobWC` (`X = none` gives `ProveBob`) with explicit coins; returns the proof and `U` -/
def bobProve (sess : Bytes) (n ntilde h1 h2 c1 c2 : Nat) (x y r : Nat) (X : Option ECPoint) (k : BobCoins) :
    Outcome (BobProof × Option ECPoint) := do
  let n2 := n * n
  let u ← match X with
    | none => pure none
    | some _ => (C.ecBaseMult k.alpha).bind fun p => pure (some p)
  let z := modPow h1 x ntilde * modPow h2 k.rho ntilde % ntilde
  let zPrm := modPow h1 k.alpha ntilde * modPow h2 k.rhoPrm ntilde % ntilde
  let t := modPow h1 y ntilde * modPow h2 k.sigma ntilde % ntilde
  let v := modPow c1 k.alpha n2 * modPow (n + 1) k.gamma n2 % n2 * modPow k.beta n n2 % n2
  let w := modPow h1 k.gamma ntilde * modPow h2 k.tau ntilde % ntilde
  let pf0 : BobProof := ⟨z, zPrm, t, v, w, 0, 0, 0, 0, 0⟩
  let xu := match X, u with
    | some X, some U => some (X, U)
    | _, _ => none
  let e := bobChallenge C H sess n c1 c2 xu pf0
  let s := modPow r e n * k.beta % n
  .ok ({ pf0 with s := s, s1 := e * x + k.alpha, s2 := e * k.rho + k.rhoPrm, t1 := e * y + k.gamma, t2 := e * k.sigma + k.tau }, u)

/-- `(*ProofBobWC).Verify` (`xu = none` gives `(*ProofBob).Verify`) -/
def bobVerify (cfg : Cfg) (sess : Bytes) (n ntilde h1 h2 c1 c2 : Int) (pf : BobProof) (xu : Option (ECPoint × ECPoint)) :
    Outcome Bool := do
  let n2 := n * n
  let q : Int := C.q
  let q3 : Int := q * q * q
  let q7 : Int := q3 * q3 * q
  if !isInInterval pf.z ntilde then .ok false else
  if !isInInterval pf.zPrm ntilde then .ok false else
  if !isInInterval pf.t ntilde then .ok false else
  if !isInInterval pf.v n2 then .ok false else
  if !isInInterval pf.w ntilde then .ok false else
  if !isInInterval pf.s n then .ok false else
  if Int.gcd pf.z ntilde != 1 then .ok false else
  if Int.gcd pf.zPrm ntilde != 1 then .ok false else
  if Int.gcd pf.t ntilde != 1 then .ok false else
  if Int.gcd pf.v n2 != 1 then .ok false else
  if Int.gcd pf.w ntilde != 1 then .ok false else
  if pf.s == 0 then .ok false else
  if Int.gcd pf.s n != 1 then .ok false else
  if pf.v == 0 then .ok false else
  if Int.gcd pf.v n != 1 then .ok false else
  if pf.s1 < q then .ok false else
  if pf.s2 < q then .ok false else
  if pf.t1 < q then .ok false else
  if pf.t2 < q then .ok false else
  if pf.s1 > q3 then .ok false else
  if pf.t1 > q7 then .ok false else
  let e := bobChallenge C H sess n c1 c2 xu pf
  let pointOk : Outcome Bool ← match xu with
    | none => pure (Outcome.ok true)
    | some (X, U) =>
      let s1q := (pf.s1 % q).toNat
      if cfg.bobWCGuards && (s1q == 0 || e == 0) then pure (Outcome.ok false) else do
        let gS1 ← C.ecBaseMult s1q
        let xe ← C.ecScalarMult X e
        match C.ecAdd xe U with
        | .ok xeu => pure (Outcome.ok (ecEquals gS1 xeu))
        | .err _ => pure (Outcome.ok false)
        | .panic t => .panic t
  match pointOk with
  | .ok false => .ok false
  | .err t => .err t
  | .panic t => .panic t
  | .ok true =>
    let mt := ntilde.natAbs
    let m2 := n2.natAbs
    let l5 := (← expP h1 pf.s1 mt) * (← expP h2 pf.s2 mt) % mt
    let r5 := (((← expP pf.z e mt) : Int) * pf.zPrm % (mt : Int)).toNat
    if l5 != r5 then .ok false else
    let l6 := (← expP h1 pf.t1 mt) * (← expP h2 pf.t2 mt) % mt
    let r6 := (((← expP pf.t e mt) : Int) * pf.w % (mt : Int)).toNat
    if l6 != r6 then .ok false else
    let l7 := (← expP c1 pf.s1 m2) * (← expP pf.s n m2) % m2 * (← expP (n + 1) pf.t1 m2) % m2
    let r7 := (((← expP c2 e m2) : Int) * pf.v % (m2 : Int)).toNat
    .ok (l7 == r7)

end Bob

/-! ## wire arity rule shared by the `…FromBytes` constructors -/

/-- `common.NonEmptyMultiBytes(bzs, expect)` -/
def nonEmptyMultiBytes (bzs : List Bytes) (expect : Nat) : Bool :=
  !bzs.isEmpty && bzs.length == expect && bzs.all fun b => !b.isEmpty

/-- `X.Bytes()` of every component then `XFromBytes`: succeeds iff no component is zero; the sign is lost -/
def wireRoundTrip (parts : List Int) (expect : Nat) : Option (List Nat) :=
  let bzs := parts.map intToBytesBE
  if nonEmptyMultiBytes bzs expect then some (bzs.map bytesToNat) else none

end Zk
end TssVerif
