import TssVerif.Core.Wire
import TssVerif.Core.OpsCrypto
import TssVerif.Core.Sign
import TssVerif.Core.EngineTables
import TssVerif.Core.Engine2
import TssVerif.Core.Ckd
import TssVerif.Core.Primes
import TssVerif.Core.Blame
import TssVerif.Core.BlameEc
import TssVerif.Core.BlameEc5
import TssVerif.Core.BlameEc4
import TssVerif.Core.BlameRs
import TssVerif.Core.BlameSg
import TssVerif.Core.BlameSg9
/-! Line-protocol ops for signing arithmetic. -/
namespace TssVerif.OpsSign
open TssVerif Wire OpsCrypto Sign

def run (op : String) (args : List String) : Option String :=
  match op, args with
  | "prepare_weight", [c, ks, i, xi] =>
    match pList pNat ks, pDec i, pNat xi with
    | some ks, some i, some xi =>
      let q := if c == "ed" then Ed25519.l else Secp256k1.n
      some (if !prepareGuard ks then "panic equal-ids" else match weight q ks i xi with
        | some w => "ok " ++ rNat w
        | none => "panic nil-mod-inverse")
    | _, _, _ => none
  | "prepare_bigws", [ks, xs] =>
    match pList pNat ks, pList pPoint xs with
    | some ks, some xs =>
      some (if !prepareGuard ks then "panic equal-ids" else (bigWs Secp256k1.curve ks xs).render fun ws => rList rPoint ws)
    | _, _ => none
  | "ecdsa_verify", [pub, m, r, s] =>
    match pPoint pub, pNat m, pNat r, pNat s with
    | some pub, some m, some r, some s => some (rBool (ecdsaVerify Secp256k1.curve pub m r s))
    | _, _, _, _ => none
  | "ecdsa_recover", [m, r, s, recid] =>
    match pNat m, pNat r, pNat s, pDec recid with
    | some m, some r, some s, some recid => some (match recoverSecp m r s recid with
      | some p => "ok " ++ rPoint p
      | none => "err")
    | _, _, _, _ => none
  | "ecdsa_finalize", [pub, rx, ry, sumS, m, fullLen] =>
    match pPoint pub, pNat rx, pNat ry, pNat sumS, pNat m, pDec fullLen with
    | some pub, some rx, some ry, some sumS, some m, some fullLen =>
      some ((ecdsaFinalize Secp256k1.curve pub rx ry sumS m fullLen).render fun d =>
        rBytes d.r ++ " " ++ rBytes d.s ++ " " ++ rBytes d.signature ++ " " ++ toString d.recid ++ " " ++ rBytes d.m)
    | _, _, _, _, _, _ => none
  | "ecdsa_from_transcript", [pub, thetas, gammas, ss, m, fullLen] =>
    match pPoint pub, pList pNat thetas, pList pPoint gammas, pList pNat ss, pNat m, pDec fullLen with
    | some pub, some thetas, some gammas, some ss, some m, some fullLen =>
      some ((ecdsaFromTranscript Secp256k1.curve pub thetas gammas ss m fullLen).render fun d =>
        rBytes d.r ++ " " ++ rBytes d.s ++ " " ++ rBytes d.signature ++ " " ++ toString d.recid ++ " " ++ rBytes d.m)
    | _, _, _, _, _, _ => none
  | "engine_trace", [proto, n, self, evs] =>
    match Engine.findProto proto, pDec n, pDec self with
    | some p, some n, some self =>
      some (match Engine.runTrace p n self (evs.splitOn ";") with
        | some l => ";".intercalate l
        | none => "bad-trace")
    | _, _, _ => none
  | "ckd_derive", [pub, depth, cc, path] =>
    match pPoint pub, pDec depth, pBytes cc, pList pDec path with
    | some pub, some depth, some cc, some path =>
      let k : Ckd.ExtKey := ⟨pub, depth, 0, cc, [0, 0, 0, 0], [0x04, 0x88, 0xad, 0xe4]⟩
      some ((Ckd.derivePath Secp256k1.curve Secp256k1.n path k 0).render fun (il, c) =>
        rNat il ++ " " ++ rPoint c.pub ++ " " ++ toString c.depth ++ " " ++ toString c.childIndex ++ " " ++
          rBytes c.chainCode ++ " " ++ rBytes c.parentFP ++ " " ++ Ckd.serialize c)
    | _, _, _, _ => none
  | "sample_positive", [bound, cands] =>
    match pNat bound, pList pNat cands with
    | some b, some cs => some (match Primes.getRandomPositiveInt b cs with
      | some v => "ok " ++ rNat v
      | none => "exhausted")
    | _, _ => none
  | "sample_relprime", [n, cands] =>
    match pNat n, pList pNat cands with
    | some n, some cs => some (match Primes.getRandomRelPrime n cs with
      | some v => "ok " ++ rNat v
      | none => "exhausted")
    | _, _ => none
  | "sample_qnr", [n, cands] =>
    match pNat n, pList pNat cands with
    | some n, some cs => some (match Primes.getRandomQNR n cs with
      | .ok (some v) => "ok " ++ rNat v
      | .ok none => "exhausted"
      | .err e => "err " ++ e
      | .panic e => "panic " ++ e)
    | _, _ => none
  | "kg_round3", [t, ownId, ownShare, ssid, peers] =>
    -- peers: `idx/commitment/d1,d2,…/ax/ay/t/share` separated by `;`
    let pPeer (s : String) : Option Blame.KgPeer :=
      match s.splitOn "/" with
      | [idx, c, d, ax, ay, tt, sh] =>
        match pDec idx, pNat c, pList pNat d, pNat ax, pNat ay, pNat tt, pNat sh with
        | some idx, some c, some d, some ax, some ay, some tt, some sh => some ⟨idx, c, d, (ax, ay), tt, sh⟩
        | _, _, _, _, _, _, _ => none
      | _ => none
    match pDec t, pNat ownId, pNat ownShare, pBytes ssid, (peers.splitOn ";").mapM pPeer with
    | some t, some ownId, some ownShare, some ssid, some peers =>
      some ((Blame.kgRound3 Ed25519.curve Sha512.sha512_256 Zk.cur ⟨true⟩ true 8 Ed25519.eightInv t ownId ownShare ssid peers).render fun res =>
        "culprits=" ++ rList toString res.culprits ++ " xi=" ++ rNat res.xi)
    | _, _, _, _, _ => none
  | "sg_round3", [ssid, peers] =>
    let pPeer (s : String) : Option Blame.SgPeer :=
      match s.splitOn "/" with
      | [idx, c, d, ax, ay, tt] =>
        match pDec idx, pNat c, pList pNat d, pNat ax, pNat ay, pNat tt with
        | some idx, some c, some d, some ax, some ay, some tt => some ⟨idx, c, d, (ax, ay), tt⟩
        | _, _, _, _, _, _ => none
      | _ => none
    match pBytes ssid, (peers.splitOn ";").mapM pPeer with
    | some ssid, some peers =>
      some ((Blame.sgRound3 Ed25519.curve Sha512.sha512_256 Zk.cur true true 8 Ed25519.eightInv ssid peers).render fun
        | some (idx, blamed) => "error culprits=" ++ (if blamed then toString idx else "_")
        | none => "pass")
    | _, _ => none
  | "ec_kg_round2", [own, msgs] =>
    -- msgs: `idx/N/Ntilde/h1/h2/dln1 parts/dln2 parts` separated by `;` (parts: hex byte strings)
    let pMsg (s : String) : Option BlameEc.R1Msg :=
      match s.splitOn "/" with
      | [idx, n, nt, h1, h2, d1, d2] =>
        match pDec idx, pNat n, pNat nt, pNat h1, pNat h2, pList pBytes d1, pList pBytes d2 with
        | some idx, some n, some nt, some h1, some h2, some d1, some d2 => some ⟨idx, n, nt, h1, h2, d1, d2⟩
        | _, _, _, _, _, _, _ => none
      | _ => none
    match pDec own, (msgs.splitOn ";").mapM pMsg with
    | some own, some msgs =>
      some ((BlameEc.round2 Sha512.sha512_256 Ops16.curParse own msgs).render fun
        | .pass => "pass"
        | .fail why cs => "fail culprits=" ++ rList toString cs ++ " " ++ why.replace " " "-")
    | _, _ => none
  | "ec_rs_round4_params", [own, ssid, noMod, msgs] =>
    -- msgs: `idx/N/Ntilde/h1/h2/dln1 parts/dln2 parts/mod proof parts` separated by `;`
    let pMsg (s : String) : Option BlameEc.RsR2Msg :=
      match s.splitOn "/" with
      | [idx, n, nt, h1, h2, d1, d2, mp] =>
        match pDec idx, pNat n, pNat nt, pNat h1, pNat h2, pList pBytes d1, pList pBytes d2, pList pBytes mp with
        | some idx, some n, some nt, some h1, some h2, some d1, some d2, some mp => some ⟨idx, n, nt, h1, h2, d1, d2, mp⟩
        | _, _, _, _, _, _, _, _ => none
      | _ => none
    match pDec own, pBytes ssid, (msgs.splitOn ";").mapM pMsg with
    | some own, some ssid, some msgs =>
      some ((BlameEc.rsRound4Params Sha512.sha512_256 Zk.cur Ops16.curParse (noMod == "1") own ssid msgs).render fun
        | .pass => "pass"
        | .fail why cs => "fail culprits=" ++ rList toString cs ++ " " ++ why.replace " " "-")
    | _, _, _ => none
  | "ec_kg_round3", [t, ownId, ssid, ownNt, ownH1, ownH2, noMod, noFac, peers] =>
    -- peers: `idx/commitment/N/decommitment/mod proof parts/share/fac proof parts` separated by `;`
    let pPeer (s : String) : Option BlameEc.R2Peer :=
      match s.splitOn "/" with
      | [idx, c, n, d, mp, sh, fp] =>
        match pDec idx, pNat c, pNat n, pList pNat d, pList pBytes mp, pNat sh, pList pBytes fp with
        | some idx, some c, some n, some d, some mp, some sh, some fp => some ⟨idx, c, n, d, mp, sh, fp⟩
        | _, _, _, _, _, _, _ => none
      | _ => none
    match pDec t, pNat ownId, pBytes ssid, pNat ownNt, pNat ownH1, pNat ownH2, (peers.splitOn ";").mapM pPeer with
    | some t, some ownId, some ssid, some ownNt, some ownH1, some ownH2, some peers =>
      some ((BlameEc.round3 Secp256k1.curve Sha512.sha512_256 Zk.cur ⟨true⟩ (noMod == "1") (noFac == "1") t ownId ssid
        ownNt ownH1 ownH2 peers).render fun cs => "culprits=" ++ rList toString cs)
    | _, _, _, _, _, _, _ => none
  | "rs_new_member", [every, t, ownId, ownIdx, msgs] =>
    -- msgs: `idx/pubX/pubY/commitment/de-commitment/share` per old member, separated by `;`
    let pMsg (s : String) : Option BlameRs.OldMsg :=
      match s.splitOn "/" with
      | [idx, px, py, c, d, sh] =>
        match pDec idx, pNat px, pNat py, pNat c, pList pNat d, pNat sh with
        | some idx, some px, some py, some c, some d, some sh => some ⟨idx, (px, py), c, d, sh⟩
        | _, _, _, _, _, _ => none
      | _ => none
    match pDec t, pNat ownId, pDec ownIdx, (msgs.splitOn ";").mapM pMsg with
    | some t, some ownId, some ownIdx, some msgs =>
      some ((BlameRs.newMember Ed25519.curve Sha512.sha512_256 (every == "1") ⟨true⟩ 8 Ed25519.eightInv t ownId ownIdx msgs).render fun
        | .pass ack => "pass xi=" ++ rNat ack.xi
        | .fail why cs => "fail culprits=" ++ rList toString cs ++ " " ++ why.replace " " "-")
    | _, _, _, _ => none
  | "rs_new_member_ec", [every, t, ownId, ownIdx, msgs] =>
    -- the ECDSA new member: the same checks on secp256k1 (no cofactor: clearing multiplies by 1)
    let pMsg (s : String) : Option BlameRs.OldMsg :=
      match s.splitOn "/" with
      | [idx, px, py, c, d, sh] =>
        match pDec idx, pNat px, pNat py, pNat c, pList pNat d, pNat sh with
        | some idx, some px, some py, some c, some d, some sh => some ⟨idx, (px, py), c, d, sh⟩
        | _, _, _, _, _, _ => none
      | _ => none
    match pDec t, pNat ownId, pDec ownIdx, (msgs.splitOn ";").mapM pMsg with
    | some t, some ownId, some ownIdx, some msgs =>
      some ((BlameRs.newMember Secp256k1.curve Sha512.sha512_256 (every == "1") ⟨true⟩ 1 1 t ownId ownIdx msgs).render fun
        | .pass ack => "pass xi=" ++ rNat ack.xi
        | .fail why cs => "fail culprits=" ++ rList toString cs ++ " " ++ why.replace " " "-")
    | _, _, _, _ => none
  | "ec_sg_round2", [ownNt, ownH1, ownH2, peers] =>
    -- peers: `idx/N/cA/range proof parts` separated by `;`
    let pPeer (s : String) : Option BlameSg.R1Peer :=
      match s.splitOn "/" with
      | [idx, n, c, pf] =>
        match pDec idx, pNat n, pNat c, pList pBytes pf with
        | some idx, some n, some c, some pf => some ⟨idx, n, c, pf⟩
        | _, _, _, _ => none
      | _ => none
    match pNat ownNt, pNat ownH1, pNat ownH2, (peers.splitOn ";").mapM pPeer with
    | some nt, some h1, some h2, some peers =>
      some ((BlameSg.round2 Secp256k1.curve Sha512.sha512_256 Zk.cur ⟨nt, h1, h2⟩ peers).render fun cs => "culprits=" ++ rList toString cs)
    | _, _, _, _ => none
  | "ec_sg_round3", [ssid, n, lam, phi, ownNt, ownH1, ownH2, peers] =>
    -- peers: `idx/own cA for that peer/c1/Bob proof parts/c2/Bob proof with check parts/bigW` separated by `;`
    let pPeer (s : String) : Option BlameSg.R2Peer :=
      match s.splitOn "/" with
      | [idx, ca, c1, pb, c2, pbw, w] =>
        match pDec idx, pNat ca, pNat c1, pList pBytes pb, pNat c2, pList pBytes pbw, pPoint w with
        | some idx, some ca, some c1, some pb, some c2, some pbw, some w => some ⟨idx, ca, c1, pb, c2, pbw, w⟩
        | _, _, _, _, _, _, _ => none
      | _ => none
    match pBytes ssid, pNat n, pNat lam, pNat phi, pNat ownNt, pNat ownH1, pNat ownH2, (peers.splitOn ";").mapM pPeer with
    | some ssid, some n, some lam, some phi, some nt, some h1, some h2, some peers =>
      some ((BlameSg.round3 Secp256k1.curve Sha512.sha512_256 Zk.cur ssid ⟨n, lam, phi, 0, 0⟩ ⟨nt, h1, h2⟩ peers).render fun r =>
        "culprits=" ++ rList toString r.culprits ++ " shares=" ++ rList (fun (a, u) => rNat a ++ ":" ++ rNat u) r.shares)
    | _, _, _, _, _, _, _, _ => none
  | "ec_sg_round5", [ssid, ownGamma, peers] =>
    -- peers: `idx/commitment/de-commitment/alpha/t` separated by `;`
    let pPeer (s : String) : Option BlameSg.R4Peer :=
      match s.splitOn "/" with
      | [idx, c, d, al, t] =>
        match pDec idx, pNat c, pList pNat d, pPoint al, pNat t with
        | some idx, some c, some d, some al, some t => some ⟨idx, c, d, al, t⟩
        | _, _, _, _, _ => none
      | _ => none
    match pBytes ssid, pPoint ownGamma, (peers.splitOn ";").mapM pPeer with
    | some ssid, some g, some peers =>
      some ((BlameSg.round5 Secp256k1.curve Sha512.sha512_256 Zk.cur ssid g peers).render fun
        | .pass r => "pass sum=" ++ rPoint r
        | .fail why c => "fail culprits=" ++ toString c ++ " " ++ why.replace " " "-")
    | _, _, _ => none
  | "ec_sg_round7", [ssid, bigR, peers] =>
    -- peers: `idx/commitment/de-commitment/alphaA/tA/alphaV/tV/uV` separated by `;`
    let pPeer (s : String) : Option BlameSg.R6Peer :=
      match s.splitOn "/" with
      | [idx, c, d, aa, ta, av, tv, uv] =>
        match pDec idx, pNat c, pList pNat d, pPoint aa, pNat ta, pPoint av, pNat tv, pNat uv with
        | some idx, some c, some d, some aa, some ta, some av, some tv, some uv => some ⟨idx, c, d, aa, ta, av, tv, uv⟩
        | _, _, _, _, _, _, _, _ => none
      | _ => none
    match pBytes ssid, pPoint bigR, (peers.splitOn ";").mapM pPeer with
    | some ssid, some bigR, some peers =>
      some ((BlameSg.round7 Secp256k1.curve Sha512.sha512_256 Zk.cur ssid bigR peers).render fun
        | .pass l => "pass points=" ++ rList (fun (v, a) => rPoint v ++ "+" ++ rPoint a) l
        | .fail why c => "fail culprits=" ++ toString c ++ " " ++ why.replace " " "-")
    | _, _, _ => none
  | "ec_sg_round9", [checkPoints, ownIdx, ownU, ownT, peers] =>
    -- peers: `idx/commitment/de-commitment` separated by `;`
    let pPeer (s : String) : Option BlameSg.R8Peer :=
      match s.splitOn "/" with
      | [idx, c, d] =>
        match pDec idx, pNat c, pList pNat d with
        | some idx, some c, some d => some ⟨idx, c, d⟩
        | _, _, _ => none
      | _ => none
    match pDec ownIdx, pPoint ownU, pPoint ownT, (peers.splitOn ";").mapM pPeer with
    | some ownIdx, some u, some t, some peers =>
      some ((BlameSg.round9 Secp256k1.curve Sha512.sha512_256 (checkPoints == "1") ownIdx u t peers).render fun
        | .pass _ => "pass"
        | .fail why c => "fail culprits=" ++ toString c ++ " " ++ why.replace " " "-")
    | _, _, _, _ => none
  | "ec_rs_round5_fac", [noFac, ownIdx, ssid, ownNt, ownH1, ownH2, peers] =>
    -- peers: `idx/N/fac proof parts` separated by `;`
    let pPeer (s : String) : Option BlameEc.RsR4Peer :=
      match s.splitOn "/" with
      | [idx, n, fp] =>
        match pDec idx, pNat n, pList pBytes fp with
        | some idx, some n, some fp => some ⟨idx, n, fp⟩
        | _, _, _ => none
      | _ => none
    match pDec ownIdx, pBytes ssid, pNat ownNt, pNat ownH1, pNat ownH2, (peers.splitOn ";").mapM pPeer with
    | some ownIdx, some ssid, some nt, some h1, some h2, some peers =>
      some ((BlameEc.rsRound5Fac Secp256k1.curve Sha512.sha512_256 Zk.cur (noFac == "1") ownIdx ssid nt h1 h2 peers).render fun
        | none => "pass"
        | some (c, why) => "fail culprits=" ++ toString c ++ " " ++ why.replace " " "-")
    | _, _, _, _, _, _ => none
  | "ec_kg_round4", [pub, peers] =>
    -- peers: `idx/N/party key/proof numbers` separated by `;`
    let pPeer (s : String) : Option BlameEc.R3Peer :=
      match s.splitOn "/" with
      | [idx, n, k, pf] =>
        match pDec idx, pNat n, pNat k, pList pNat pf with
        | some idx, some n, some k, some pf => some ⟨idx, n, k, pf⟩
        | _, _, _, _ => none
      | _ => none
    match pPoint pub, (peers.splitOn ";").mapM pPeer with
    | some pub, some peers =>
      some ((BlameEc.kgRound4 Sha512.sha512_256 curPaiProof pub peers).render fun cs => "culprits=" ++ rList toString cs)
    | _, _ => none
  | "engine2_trace", [proto, role, nOld, nNew, self, evs] =>
    match Engine2.findProto proto, pDec nOld, pDec nNew, pDec self with
    | some p, some nOld, some nNew, some self =>
      some (match Engine2.runTrace p (role == "new") nOld nNew self (evs.splitOn ";") with
        | some l => ";".intercalate l
        | none => "bad-trace")
    | _, _, _, _ => none
  | "ed25519_verify", [pub, msg, sig] =>
    match pBytes pub, pBytes msg, pBytes sig with
    | some pub, some msg, some sig => some (rBool (Ed.verify pub msg sig))
    | _, _, _ => none
  | "ed_encode_point", [a] =>
    match pPoint a with
    | some a => some (rBytes (Ed.encodePoint a))
    | none => none
  | "ed_decode_point", [b] =>
    match pBytes b with
    | some b => some (match Ed.decodePoint b with
      | some p => "ok " ++ rPoint p
      | none => "err")
    | none => none
  | "ed_bigint_to_encoded", [a] =>
    match pNat a with
    | some a => some (rBytes (Ed.bigIntToEncodedBytes a))
    | none => none
  | _, _ => none

end TssVerif.OpsSign
