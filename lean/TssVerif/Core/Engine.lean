/-! Generic round engine: a model of `tss/party.go` (`BaseStart`, `BaseUpdate`) over a table of rounds.
Payload validity is not part of this level: a stored message is identified by (type, sender, flag).
Core Lean only. -/
namespace TssVerif.Engine

structure Slot where
  flag : Bool
  payload : Nat
deriving DecidableEq, Repr

structure RoundSpec where
  /-- (message type, required broadcast flag): required from every sender -/
  needs : List (Nat × Bool)
  /-- `Start` sets `ok[self]` -/
  selfOk : Bool
  /-- own messages `Start` puts into the own slot -/
  selfStore : List (Nat × Bool)
  /-- `Update` returns at the first sender with a missing message (instead of `continue`) -/
  early : Bool
  /-- what `Start` emits, in order: (type, one copy per peer?) -/
  emits : List (Nat × Bool)
  /-- `Start` signals the result on the end channel -/
  final : Bool
  /-- the final round marks everybody ok, so that the party advances to "No more rounds" -/
  finalOk : Bool
deriving Repr

structure Party where
  n : Nat
  self : Nat
  /-- rounds started so far; 0 = not started -/
  rnd : Nat
  /-- Go: `p.rnd == nil` after the last round -/
  done : Bool
  ok : Nat → Bool
  store : Nat → Nat → Option Slot
  out : List Nat
  ended : Nat

structure Msg where
  ty : Nat
  frm : Nat
  slot : Slot

def sat (r : RoundSpec) (store : Nat → Nat → Option Slot) (j : Nat) : Bool :=
  r.needs.all fun tf => match store tf.1 j with
    | some s => s.flag == tf.2
    | none => false

/-- result of the `Update()` scan of round `r` (the `Update` of a final round does nothing) -/
def scanOk (r : RoundSpec) (p : Party) (j : Nat) : Bool :=
  p.ok j || (!r.final && decide (j < p.n) && sat r p.store j &&
    (!r.early || (List.range j).all fun j' => p.ok j' || sat r p.store j'))

def scan (r : RoundSpec) (p : Party) : Party := { p with ok := scanOk r p }

def canProceed (p : Party) : Bool := (List.range p.n).all p.ok

def putSelf (self : Nat) (k : Nat) (ss : List (Nat × Bool)) (store : Nat → Nat → Option Slot) :
    Nat → Nat → Option Slot :=
  fun t j => if j = self ∧ ss.any (fun tf => tf.1 == t) then
      (ss.find? (fun tf => tf.1 == t)).map fun tf => ⟨tf.2, 1000 * k + t⟩
    else store t j

/-- emission log entries of one `Start`: a per-peer type appears once per other party -/
def emitList (n : Nat) (es : List (Nat × Bool)) : List Nat :=
  es.flatMap fun e => if e.2 then List.replicate (n - 1) e.1 else [e.1]

/-- advance to round index `k` (0-based) and run its `Start` -/
def startRound (r : RoundSpec) (k : Nat) (p : Party) : Party :=
  { p with
    rnd := k + 1
    ok := if r.final && r.finalOk then fun _ => true else fun j => r.selfOk && j == p.self
    store := putSelf p.self k r.selfStore p.store
    out := p.out ++ emitList p.n r.emits
    ended := p.ended + (if r.final then 1 else 0) }

def storeMsg (m : Msg) (p : Party) : Party :=
  { p with store := fun t j => if t = m.ty ∧ j = m.frm then some m.slot else p.store t j }

/-- one productive step of the BaseUpdate loop: scan, and advance if possible -/
def step (tbl : List RoundSpec) (p : Party) : Option Party :=
  if p.rnd = 0 ∨ p.done then none else
  match tbl[p.rnd - 1]? with
  | none => none
  | some r =>
    let p1 := scan r p
    if canProceed p1 then
      match tbl[p.rnd]? with
      | some r' => some (startRound r' p.rnd p1)
      | none => some { p1 with done := true }
    else none

/-- the scan that remains when no step is possible -/
def rest (tbl : List RoundSpec) (p : Party) : Party :=
  if p.rnd = 0 ∨ p.done then p else
  match tbl[p.rnd - 1]? with
  | none => p
  | some r => scan r p

def settle (tbl : List RoundSpec) : Nat → Party → Party
  | 0, p => rest tbl p
  | fuel + 1, p => match step tbl p with
    | some p' => settle tbl fuel p'
    | none => rest tbl p

/-- `BaseUpdate`: store (whatever the current round), then run to the fixpoint of the store -/
def deliver (tbl : List RoundSpec) (m : Msg) (p : Party) : Party :=
  settle tbl (tbl.length + 1) (storeMsg m p)

/-- `BaseStart` before the E1 repair: `Start` of the first round, no look at the store -/
def startOld (tbl : List RoundSpec) (p : Party) : Party :=
  match tbl[0]? with
  | some r => if p.rnd = 0 then startRound r 0 p else p
  | none => p

/-- `BaseStart` as it is now: `Start` of the first round, then the same update/advance loop -/
def start (tbl : List RoundSpec) (p : Party) : Party :=
  if p.rnd = 0 then settle tbl (tbl.length + 1) (startOld tbl p) else p

def fresh (n self : Nat) : Party :=
  { n := n, self := self, rnd := 0, done := false, ok := fun _ => false, store := fun _ _ => none, out := [], ended := 0 }

/-- `WaitingFor()`: the peers whose `ok` flag is unset (all-to-all protocols) -/
def waitingFor (p : Party) : List Nat :=
  if p.rnd = 0 ∨ p.done then [] else (List.range p.n).filter fun j => !p.ok j

/-- the exact set: peers from whom a message required by the current round is not stored with the right flag -/
def awaited (tbl : List RoundSpec) (p : Party) : List Nat :=
  if p.rnd = 0 ∨ p.done then [] else
  match tbl[p.rnd - 1]? with
  | none => []
  | some r => if r.final then (List.range p.n).filter fun j => !p.ok j
    else (List.range p.n).filter fun j => !(p.ok j || sat r p.store j)

end TssVerif.Engine
