import TssVerif.Core.BlameEc
/-! `ecdsa/resharing/round_5_new_step_3.go`, new-committee side: after every new member has acknowledged, each new
member checks the other new members' no-small-factor proofs (`DGRound4Message1`), sequentially in index order, and
only then emits its key data. The first peer whose proof does not decode (unless the party tolerates missing
factorisation proofs) or does not verify is named. -/
namespace TssVerif
namespace BlameEc
open Zk

variable {P : Type} (C : Curve P) (H : HashFn)

/-- what new member `idx` sent this party: its Paillier modulus (`DGRound2Message1`, saved in round 5) and its
no-small-factor proof for this party's ring-Pedersen parameters (`DGRound4Message1`) -/
structure RsR4Peer where
  idx : Nat
  paillierN : Nat
  facProof : List Bytes
deriving Repr, DecidableEq

/-- one peer: `none` = accepted, `some why` = this peer is named -/
def rsFacPeer (zcfg : Zk.Cfg) (noFac : Bool) (ownIdx : Nat) (ssid : Bytes) (ownNTilde ownH1 ownH2 : Nat) (p : RsR4Peer) :
    Outcome (Option String) := do
  match facFromBytes p.facProof with
  | none => .ok (if noFac then none else some "facProof does not decode")
  | some pf =>
    -- the proof was made for THIS party: the context carries the verifier's own index
    if !(← facVerify zcfg H C.q (Blame.contextJ ssid ownIdx) p.paillierN ownNTilde ownH1 ownH2 pf) then .ok (some "facProof verify failed")
    else .ok none

/-- round 5 up to "emit the key data" (`none`) or the first named peer -/
def rsRound5Fac (zcfg : Zk.Cfg) (noFac : Bool) (ownIdx : Nat) (ssid : Bytes) (ownNTilde ownH1 ownH2 : Nat) :
    List RsR4Peer → Outcome (Option (Nat × String))
  | [] => .ok none
  | p :: rest => do
    match ← rsFacPeer C H zcfg noFac ownIdx ssid ownNTilde ownH1 ownH2 p with
    | some why => .ok (some (p.idx, why))
    | none => rsRound5Fac zcfg noFac ownIdx ssid ownNTilde ownH1 ownH2 rest

end BlameEc
end TssVerif
