import TssVerif.Core.GoInt
import TssVerif.Core.Zk
/-! `common/safe_prime.go`, `common/random.go`, `ecdsa/keygen/prepare.go`: candidate shaping, the final
checks of the safe-prime generator, the samplers (explicit candidate lists instead of an `io.Reader`) and
the algebra of the pre-parameters. Core Lean only. -/
namespace TssVerif
namespace Primes

/-- the byte masking of `runGenPrimeRoutine`: `bytes` has `(qBitLen+7)/8` entries, most significant first;
the result is the candidate `q` (exactly `pBitLen − 1` bits, two top bits set, odd) -/
def shapeCandidate (pBitLen : Nat) (bytes : List UInt8) : Nat :=
  let qBitLen := pBitLen - 1
  let b := if qBitLen % 8 = 0 then 8 else qBitLen % 8
  match bytes with
  | [] => 0
  | b0 :: rest =>
    let m0 := b0.toNat % 2 ^ b
    let (h0, rest1) :=
      if b ≥ 2 then (m0 ||| (3 * 2 ^ (b - 2)), rest)
      else (m0 ||| 1, match rest with
        | [] => []
        | b1 :: r => UInt8.ofNat (b1.toNat ||| 0x80) :: r)
    let all := UInt8.ofNat h0 :: rest1
    let lastOdd := match all.reverse with
      | [] => []
      | l :: r => (UInt8.ofNat (l.toNat ||| 1) :: r).reverse
    bytesToNat lastOdd

def safePrimeOf (q : Nat) : Nat := 2 * q + 1

/-- `isPocklingtonCriterionSatisfied(p)`: `2^(p−1) ≡ 1 (mod p)` -/
def pocklington (p : Nat) : Bool := modPow 2 (p - 1) p == 1

/-- the conjunction an emitted pair has passed: `q.ProbablyPrime`, Pocklington for `p`, exact bit length, `Validate()` -/
def emittedPairOk (prime : Nat → Bool) (qBitLen : Nat) (q p : Nat) : Bool :=
  prime q && pocklington p && (bitLen q == qBitLen) && (p == safePrimeOf q) && prime p

/-- `MustGetRandomInt(rand, bits)`: `crypto/rand.Int(rand, 2^bits − 1)` on the raw value read (masked to `bits`);
`none` = the value is rejected and the reader is asked again -/
def mustGetRandomInt (bits : Nat) (raw : Nat) : Option Nat :=
  let v := raw % 2 ^ bits
  if v < 2 ^ bits - 1 then some v else none

/-- `GetRandomPositiveInt(rand, bound)`: the first accepted candidate below the bound -/
def getRandomPositiveInt (bound : Nat) (cands : List Nat) : Option Nat :=
  if bound = 0 then none else
  (cands.filterMap (mustGetRandomInt (bitLen bound))).find? (· < bound)

/-- `GetRandomPositiveRelativelyPrimeInt(rand, n)` -/
def getRandomRelPrime (n : Nat) (cands : List Nat) : Option Nat :=
  if n = 0 then none else
  (cands.filterMap (mustGetRandomInt (bitLen n))).find? fun v => Paillier.isNumberInMultiplicativeGroup n v

/-- `GetRandomQuadraticNonResidue(rand, n)` for odd `n` -/
def getRandomQNR (n : Nat) (cands : List Nat) : Outcome (Option Nat) :=
  if n = 0 then .ok none else
  if n % 2 = 0 then .panic "jacobi-even" else
  .ok ((cands.filterMap (mustGetRandomInt (bitLen n))).find? fun w => w < n && goJacobi w n == .ok (-1))

structure PreParams where
  ntilde : Nat
  h1 : Nat
  h2 : Nat
  alpha : Nat
  beta : Option Nat
  p : Nat
  q : Nat
deriving Repr

/-- the tail of `GeneratePreParams`: from the two safe primes `P = 2p+1`, `Q = 2q+1` and the sampled `f1`, `alpha` -/
def preParams (p q f1 alpha : Nat) : PreParams :=
  let nt := safePrimeOf p * safePrimeOf q
  let h1 := f1 * f1 % nt
  { ntilde := nt, h1 := h1, h2 := modPow h1 alpha nt, alpha := alpha, beta := modInverse alpha (p * q), p := p, q := q }

end Primes
end TssVerif
