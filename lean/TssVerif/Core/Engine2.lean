import TssVerif.Core.Engine
/-! The round engine for the two-committee (resharing) protocols: the same `BaseStart` / `BaseUpdate`
loop as `Core/Engine.lean`, with an `ok` array per committee, per-role round tables, and requirements
"from every old member" / "from every new member". Core Lean only. -/
namespace TssVerif.Engine2
open TssVerif.Engine (Slot)

inductive Cnt where
  | once          -- one message (broadcast-flagged)
  | perNew        -- one copy to each new member
  | perNewOther   -- one copy to each other new member
deriving Repr, DecidableEq

structure RSpec where
  needsOld : List (Nat × Bool)
  needsNew : List (Nat × Bool)
  presetOld : Bool            -- `allOldOK()` in `Start`
  presetNew : Bool            -- `allNewOK()` in `Start`
  selfOkNew : Bool            -- `newOK[i] = true` in `Start`
  selfStore : List (Nat × Bool)
  emits : List (Nat × Cnt)
  final : Bool
deriving Repr

structure Party where
  nOld : Nat
  nNew : Nat
  isNew : Bool
  self : Nat                  -- index within the own committee
  rnd : Nat
  done : Bool
  okOld : Nat → Bool
  okNew : Nat → Bool
  store : Nat → Nat → Option Slot
  out : List Nat
  ended : Nat

structure Msg where
  ty : Nat
  frm : Nat
  slot : Slot

def sat (needs : List (Nat × Bool)) (store : Nat → Nat → Option Slot) (j : Nat) : Bool :=
  needs.all fun tf => match store tf.1 j with
    | some s => s.flag == tf.2
    | none => false

def scan (r : RSpec) (p : Party) : Party :=
  if r.final then p else
  { p with
    okOld := fun j => p.okOld j || (decide (j < p.nOld) && !r.needsOld.isEmpty && sat r.needsOld p.store j)
    okNew := fun j => p.okNew j || (decide (j < p.nNew) && !r.needsNew.isEmpty && sat r.needsNew p.store j) }

def canProceed (p : Party) : Bool := (List.range p.nOld).all p.okOld && (List.range p.nNew).all p.okNew

def putSelf (self k : Nat) (ss : List (Nat × Bool)) (store : Nat → Nat → Option Slot) : Nat → Nat → Option Slot :=
  fun t j => if j = self ∧ ss.any (fun tf => tf.1 == t) then
      (ss.find? (fun tf => tf.1 == t)).map fun tf => ⟨tf.2, 1000 * k + t⟩
    else store t j

def emitList (nNew : Nat) (es : List (Nat × Cnt)) : List Nat :=
  es.flatMap fun e => match e.2 with
    | .once => [e.1]
    | .perNew => List.replicate nNew e.1
    | .perNewOther => List.replicate (nNew - 1) e.1

def startRound (r : RSpec) (k : Nat) (p : Party) : Party :=
  { p with
    rnd := k + 1
    okOld := fun _ => r.presetOld || r.final
    okNew := fun j => r.presetNew || r.final || (r.selfOkNew && j == p.self)
    store := putSelf p.self k r.selfStore p.store
    out := p.out ++ emitList p.nNew r.emits
    ended := p.ended + (if r.final then 1 else 0) }

def storeMsg (m : Msg) (p : Party) : Party :=
  { p with store := fun t j => if t = m.ty ∧ j = m.frm then some m.slot else p.store t j }

def step (tbl : List RSpec) (p : Party) : Option Party :=
  if p.rnd = 0 ∨ p.done then none else
  match tbl[p.rnd - 1]? with
  | none => none
  | some r =>
    let p1 := scan r p
    if canProceed p1 then
      match tbl[p.rnd]? with
      | some r' => some (startRound r' p.rnd p1)
      | none => some { p1 with done := true }
    else none

def rest (tbl : List RSpec) (p : Party) : Party :=
  if p.rnd = 0 ∨ p.done then p else
  match tbl[p.rnd - 1]? with
  | none => p
  | some r => scan r p

def settle (tbl : List RSpec) : Nat → Party → Party
  | 0, p => rest tbl p
  | fuel + 1, p => match step tbl p with
    | some p' => settle tbl fuel p'
    | none => rest tbl p

def deliver (tbl : List RSpec) (m : Msg) (p : Party) : Party :=
  settle tbl (tbl.length + 1) (storeMsg m p)

/-- `BaseStart`: `Start` of round 1, one `Update` scan, and the advance loop only if a message was stored
before `Start` (`pre`) -/
def start (tbl : List RSpec) (pre : Bool) (p : Party) : Party :=
  if p.rnd ≠ 0 then p else
  match tbl[0]? with
  | none => p
  | some r =>
    let p1 := startRound r 0 p
    if pre then settle tbl (tbl.length + 1) p1 else rest tbl p1

def fresh (nOld nNew : Nat) (isNew : Bool) (self : Nat) : Party :=
  { nOld, nNew, isNew, self, rnd := 0, done := false, okOld := fun _ => false, okNew := fun _ => false,
    store := fun _ _ => none, out := [], ended := 0 }

/-- `WaitingFor()`: the members of either committee whose flag is unset, as `o<j>` / `n<j>` -/
def waitingFor (p : Party) : List String :=
  if p.rnd = 0 ∨ p.done then [] else
  ((List.range p.nOld).filter fun j => !p.okOld j).map (fun j => "o" ++ toString j) ++
  ((List.range p.nNew).filter fun j => !p.okNew j).map (fun j => "n" ++ toString j)

structure Proto where
  name : String
  types : List String
  old : List RSpec
  new : List RSpec

private def rs (needsOld needsNew : List (Nat × Bool)) (presetOld presetNew selfOkNew : Bool)
    (selfStore : List (Nat × Bool)) (emits : List (Nat × Cnt)) : RSpec :=
  { needsOld, needsNew, presetOld, presetNew, selfOkNew, selfStore, emits, final := false }

private def fin : RSpec :=
  { needsOld := [], needsNew := [], presetOld := true, presetNew := true, selfOkNew := false, selfStore := [], emits := [], final := true }

def eddsaResharing : Proto :=
  { name := "eddsa-resharing"
    types := ["DGRound1Message", "DGRound2Message", "DGRound3Message1", "DGRound3Message2", "DGRound4Message"]
    old := [ rs [] [] true true false [(1, true)] [(1, .once)],
             rs [] [(2, true)] true false false [] [],
             rs [] [] true true false [(3, false), (4, true)] [(3, .perNew), (4, .once)],
             rs [] [(5, true)] true false false [] [],
             fin ]
    new := [ rs [(1, true)] [] false true false [] [],
             rs [] [] true true false [(2, true)] [(2, .once)],
             rs [(3, false), (4, true)] [] false true false [] [],
             rs [] [(5, true)] true false false [(5, true)] [(5, .once)],
             fin ] }

def ecdsaResharing : Proto :=
  { name := "ecdsa-resharing"
    types := ["DGRound1Message", "DGRound2Message1", "DGRound2Message2", "DGRound3Message1", "DGRound3Message2",
              "DGRound4Message1", "DGRound4Message2"]
    old := [ rs [] [] true true false [(1, true)] [(1, .once)],
             rs [] [(3, true)] true false false [] [],
             rs [] [] true true false [(4, false), (5, true)] [(4, .perNew), (5, .once)],
             rs [] [(7, true)] true false false [] [],
             fin ]
    new := [ rs [(1, true)] [] false true false [] [],
             rs [] [(2, true)] true false false [(3, true), (2, true)] [(3, .once), (2, .once)],
             rs [(4, false), (5, true)] [] false true false [] [],
             rs [] [(7, true), (6, false)] true false true [(7, true)] [(6, .perNewOther), (7, .once)],
             fin ] }

def protos : List Proto := [eddsaResharing, ecdsaResharing]
def findProto (name : String) : Option Proto := protos.find? fun p => p.name == name

def typeId (p : Proto) (name : String) : Nat :=
  match p.types.findIdx? (· == name) with
  | some i => i + 1
  | none => 0

def typeName (p : Proto) (id : Nat) : String := p.types.getD (id - 1) ("type" ++ toString id)

def render (p : Proto) (before after : Party) : String :=
  let rnd := if after.done || after.rnd == 0 then "done" else toString after.rnd
  let w := ",".intercalate (waitingFor after)
  let e := ",".intercalate ((after.out.drop before.out.length).map (typeName p))
  s!"{rnd}/{w}/{e}/{after.ended}"

/-- events `S` or `D:<type>:<from index in its committee>:<b|p>` -/
def runTrace (p : Proto) (isNew : Bool) (nOld nNew self : Nat) (events : List String) : Option (List String) :=
  let tbl := if isNew then p.new else p.old
  let rec go (st : Party) (pre : Bool) : List String → List String → Option (List String)
    | [], acc => some acc.reverse
    | ev :: rest, acc =>
      if ev == "S" then
        let st' := start tbl pre st
        go st' pre rest (render p st st' :: acc)
      else match ev.splitOn ":" with
        | ["D", ty, frm, fl] =>
          match frm.toNat? with
          | some f =>
            let m : Msg := ⟨typeId p ty, f, ⟨fl == "b", 0⟩⟩
            let st' := if m.ty = 0 then st else deliver tbl m st
            go st' (pre || st.rnd == 0) rest (render p st st' :: acc)
          | none => none
        | _ => none
  go (fresh nOld nNew isNew self) false events []

end TssVerif.Engine2
