import TssVerif.Core.Blame
import TssVerif.Core.Paillier
/-! Round-level models of ECDSA key generation rounds 2 and 3 (`ecdsa/keygen/round_2.go`, `round_3.go`) up to
the decision "continue, or report this error with these culprits". Payloads are the message fields as received
(big-endian byte strings for the multi-part proofs, numbers for single values). Not modelled: the additions
of the commitment points after all peers passed (an error there needs the sum of independent committed points
to be the identity) and everything the round then sends. -/
namespace TssVerif
namespace BlameEc

open Zk

variable {P : Type} (C : Curve P) (H : HashFn)

def paillierBitsLen : Nat := 2048
def modProofParts : Nat := 2 * modIterations + 3
def facProofParts : Nat := 11

/-- `KGRound1Message` of party `idx` as stored by the receiving party (its own message included) -/
structure R1Msg where
  idx : Nat
  paillierN : Nat
  nTilde : Nat
  h1 : Nat
  h2 : Nat
  dln1 : List Bytes
  dln2 : List Bytes
deriving Repr, DecidableEq

inductive Verdict where
  | pass
  | fail (why : String) (culprits : List Nat)
deriving Repr, DecidableEq

/-- `round.duplicateCulprits(j, k)`: only a clash with the reporting party's own value can be attributed -/
def duplicateCulprits (own j k : Nat) : List Nat :=
  if j = own ∧ k ≠ own then [k] else if k = own ∧ j ≠ own then [j] else []

/-- the checks made on one stored round-1 message before its proofs are handed to the verifier pool;
`seen` maps the values of `h1`, `h2` met so far to the index of the message that carried them -/
def structural (own : Nat) (seen : List (Nat × Nat)) (m : R1Msg) : Option (String × List Nat) :=
  if bitLen m.paillierN != paillierBitsLen then some ("got paillier modulus with insufficient bits for this party", [m.idx]) else
  if m.h1 == m.h2 then some ("h1j and h2j were equal for this party", [m.idx]) else
  if bitLen m.nTilde != paillierBitsLen then some ("got NTildej with insufficient bits for this party", [m.idx]) else
  match seen.lookup m.h1 with
  | some k => some ("this h1j was already used by another party", duplicateCulprits own m.idx k)
  | none =>
    match seen.lookup m.h2 with
    | some k => some ("this h2j was already used by another party", duplicateCulprits own m.idx k)
    | none => none

/-- the loop of round 2: returns the messages whose proofs were handed to the pool and the structural failure, if any -/
def scan (own : Nat) : List (Nat × Nat) → List R1Msg → List R1Msg × Option (String × List Nat)
  | _, [] => ([], none)
  | seen, m :: rest =>
    match structural own seen m with
    | some f => ([], some f)
    | none =>
      let (sp, f) := scan own ((m.h1, m.idx) :: (m.h2, m.idx) :: seen) rest
      (m :: sp, f)

/-- one job of the verifier pool: decode, verify; a proof that does not decode counts as invalid -/
def dlnCheck (pcfg : ParseCfg) (parts : List Bytes) (h1 h2 n : Nat) : Outcome Bool :=
  match dlnUnmarshal pcfg (parts.map fun b => (bytesToNat b : Int)) with
  | .ok (a, t) => dlnVerify H a t h1 h2 n
  | .err _ => .ok false
  | .panic e => .panic e

/-- ECDSA key generation round 2 up to the culprit decision -/
def round2 (pcfg : ParseCfg) (own : Nat) (msgs : List R1Msg) : Outcome Verdict := do
  let (spawned, failure) := scan own [] msgs
  -- the jobs already handed to the pool run whatever the loop decides afterwards
  let v1 ← spawned.mapM fun m => dlnCheck H pcfg m.dln1 m.h1 m.h2 m.nTilde
  let v2 ← spawned.mapM fun m => dlnCheck H pcfg m.dln2 m.h2 m.h1 m.nTilde
  match failure with
  | some (why, cs) => .ok (.fail why cs)
  | none =>
    let bad := ((spawned.zip v1).filter (fun p => !p.2) ++ (spawned.zip v2).filter (fun p => !p.2)).map (·.1.idx)
    match bad with
    | [] => .ok .pass
    | j :: _ => .ok (.fail "dln proof verification failed" [j])

/-- what the party holds about peer `idx` when round 3 starts -/
structure R2Peer where
  idx : Nat
  commitment : Nat        -- KGRound1Message, saved in round 2
  paillierN : Nat         -- KGRound1Message, saved in round 2
  decommitment : List Nat -- KGRound2Message2
  modProof : List Bytes   -- KGRound2Message2
  share : Nat             -- KGRound2Message1
  facProof : List Bytes   -- KGRound2Message1
deriving Repr, DecidableEq

/-- `modproof.NewProofFromBytes` -/
def modFromBytes (bzs : List Bytes) : Option (Nat × List Nat × Nat × Nat × List Nat) :=
  if !nonEmptyMultiBytes bzs modProofParts then none else
  let v := bzs.map bytesToNat
  some (v.getD 0 0, (v.drop 1).take modIterations, v.getD (modIterations + 1) 0, v.getD (modIterations + 2) 0,
    v.drop (modIterations + 3))

/-- `facproof.NewProofFromBytes` -/
def facFromBytes (bzs : List Bytes) : Option FacProof :=
  if !nonEmptyMultiBytes bzs facProofParts then none else
  let g (i : Nat) : Int := (bytesToNat (bzs.getD i []) : Int)
  some ⟨g 0, g 1, g 2, g 3, g 4, g 5, g 6, g 7, g 8, g 9, g 10⟩

/-- the per-peer goroutine of round 3: `none` = passed, `some why` = this peer is a culprit.
`noMod` / `noFac`: the party was configured to tolerate a missing (undecodable) proof of that kind. -/
def checkPeer (zcfg : Zk.Cfg) (vcfg : Vss.VerifyCfg) (noMod noFac : Bool) (threshold ownId : Nat) (ssid : Bytes)
    (ownNTilde ownH1 ownH2 : Nat) (p : R2Peer) : Outcome (Option String) := do
  let ctx := Blame.contextJ ssid p.idx
  match decommitWith H p.commitment (p.decommitment.map Int.ofNat) with
  | .panic e => .panic e
  | .err e => .err e
  | .ok none => .ok (some "de-commitment verify failed")
  | .ok (some flat) =>
    match C.unflatten (flat.map Int.toNat) with
    | none => .ok (some "unflatten")
    | some vs =>
      let modOk : Outcome Bool :=
        match modFromBytes p.modProof with
        | none => .ok noMod
        | some (w, xs, a, b, zs) => modVerify zcfg H ctx w (xs.map Int.ofNat) a b (zs.map Int.ofNat) p.paillierN
      if !(← modOk) then .ok (some "modProof verify failed") else
      if !(← Vss.verify C vcfg threshold ⟨threshold, ownId, p.share⟩ vs) then .ok (some "vss verify failed") else
      let facOk : Outcome Bool :=
        match facFromBytes p.facProof with
        | none => .ok noFac
        | some pf => facVerify zcfg H C.q ctx p.paillierN ownNTilde ownH1 ownH2 pf
      if !(← facOk) then .ok (some "facProof verify failed") else .ok none

/-- round 3 up to the first culprit decision: every peer whose check failed is named, in index order -/
def round3 (zcfg : Zk.Cfg) (vcfg : Vss.VerifyCfg) (noMod noFac : Bool) (threshold ownId : Nat) (ssid : Bytes)
    (ownNTilde ownH1 ownH2 : Nat) (peers : List R2Peer) : Outcome (List Nat) := do
  let verdicts ← peers.mapM (checkPeer C H zcfg vcfg noMod noFac threshold ownId ssid ownNTilde ownH1 ownH2)
  .ok ((peers.zip verdicts).filterMap fun (p, v) => v.map fun _ => p.idx)

/-! ### ECDSA resharing round 4, first part (`ecdsa/resharing/round_4_new_step_2.go`): what a new member checks about
the Paillier / ring-Pedersen parameters the other new members announced in `DGRound2Message1`. Unlike key generation
there is no size check; the Paillier-Blum modulus proof is verified here. -/

/-- `DGRound2Message1` of new member `idx` as stored by the receiving new member (its own message included) -/
structure RsR2Msg where
  idx : Nat
  paillierN : Nat
  nTilde : Nat
  h1 : Nat
  h2 : Nat
  dln1 : List Bytes
  dln2 : List Bytes
  modProof : List Bytes
deriving Repr, DecidableEq

def structuralRs (own : Nat) (seen : List (Nat × Nat)) (m : RsR2Msg) : Option (String × List Nat) :=
  if m.h1 == m.h2 then some ("h1j and h2j were equal for this party", [m.idx]) else
  match seen.lookup m.h1 with
  | some k => some ("this h1j was already used by another party", duplicateCulprits own m.idx k)
  | none =>
    match seen.lookup m.h2 with
    | some k => some ("this h2j was already used by another party", duplicateCulprits own m.idx k)
    | none => none

def scanRs (own : Nat) : List (Nat × Nat) → List RsR2Msg → List RsR2Msg × Option (String × List Nat)
  | _, [] => ([], none)
  | seen, m :: rest =>
    match structuralRs own seen m with
    | some f => ([], some f)
    | none =>
      let (sp, f) := scanRs own ((m.h1, m.idx) :: (m.h2, m.idx) :: seen) rest
      (m :: sp, f)

/-- the modulus-proof job: `true` = no culprit. A proof that does not decode is tolerated only with `noMod`. -/
def modJob (zcfg : Zk.Cfg) (noMod : Bool) (ssid : Bytes) (m : RsR2Msg) : Outcome Bool :=
  match modFromBytes m.modProof with
  | none => .ok noMod
  | some (w, xs, a, b, zs) =>
    modVerify zcfg H (Blame.contextJ ssid m.idx) w (xs.map Int.ofNat) a b (zs.map Int.ofNat) m.paillierN

/-- the parameter checks of resharing round 4 up to the culprit decision: structural failure first; otherwise the
first failing modulus proof, else the first failing first DLN proof, else the first failing second DLN proof -/
def rsRound4Params (zcfg : Zk.Cfg) (pcfg : ParseCfg) (noMod : Bool) (own : Nat) (ssid : Bytes) (msgs : List RsR2Msg) :
    Outcome Verdict := do
  let (spawned, failure) := scanRs own [] msgs
  let vm ← spawned.mapM fun m => modJob H zcfg noMod ssid m
  let v1 ← spawned.mapM fun m => dlnCheck H pcfg m.dln1 m.h1 m.h2 m.nTilde
  let v2 ← spawned.mapM fun m => dlnCheck H pcfg m.dln2 m.h2 m.h1 m.nTilde
  match failure with
  | some (why, cs) => .ok (.fail why cs)
  | none =>
    let bad := ((spawned.zip vm).filter (fun p => !p.2) ++ (spawned.zip v1).filter (fun p => !p.2) ++
      (spawned.zip v2).filter (fun p => !p.2)).map (·.1.idx)
    match bad with
    | [] => .ok .pass
    | j :: _ => .ok (.fail "dln proof verification failed" [j])

end BlameEc
end TssVerif
