import TssVerif.Core.Hashes2
import TssVerif.Core.Curve
import TssVerif.Core.Outcome
/-! BIP32 public child-key derivation (CKDpub) written from the BIP, secp256k1; `crypto/ckd`. -/
namespace TssVerif
namespace Ckd

structure ExtKey where
  pub : ECPoint
  depth : Nat
  childIndex : Nat
  chainCode : Bytes
  parentFP : Bytes
  version : Bytes
deriving Repr, DecidableEq

def hardenedKeyStart : Nat := 2 ^ 31
def maxDepth : Nat := 255

/-- SEC1 compressed encoding `ser_P` -/
def serP (a : ECPoint) : Bytes := (if a.2 % 2 = 1 then 3 else 2) :: padLeft 32 (natToBytesBE a.1)

def ser32 (i : Nat) : Bytes := (List.range 4).map fun k => UInt8.ofNat ((i / 256 ^ (3 - k)) % 256)

def hash160 (b : Bytes) : Bytes := Ripemd160.ripemd160 (Sha256.sha256 b)

section
variable {P : Type} (C : Curve P)

/-- `DeriveChildKey(index, pk, curve)`: returns the offset `IL` and the child key -/
def deriveChild (index : Nat) (k : ExtKey) : Outcome (Nat × ExtKey) :=
  if index ≥ hardenedKeyStart then .err "hardened" else
  if k.depth = maxDepth then .err "max-depth" else
  match C.lift k.pub with
  | none => .err "invalid-parent"
  | some parent =>
    let i := hmacSha512 k.chainCode (serP k.pub ++ ser32 index)
    let il := bytesToNat (i.take 32)
    if il ≥ C.q ∨ il = 0 then .err "invalid-derived-key" else
    match C.toAffine (C.smul il C.base) with
    | none => .panic "scalar-base-mult-identity"
    | some dg =>
      if dg.1 = 0 ∨ dg.2 = 0 then .err "invalid-child" else
      match C.toAffine (C.add parent (C.smul il C.base)) with
      | none => .err "child-at-infinity"
      | some child =>
        .ok (il, { pub := child, depth := k.depth + 1, childIndex := index, chainCode := i.drop 32,
                   parentFP := (hash160 (serP k.pub)).take 4, version := k.version })

/-- `DeriveChildKeyFromHierarchy(path, pk, mod, curve)`: the offset accumulates modulo `mod` -/
def derivePath (mod : Nat) : List Nat → ExtKey → Nat → Outcome (Nat × ExtKey)
  | [], k, acc => .ok (acc, k)
  | i :: rest, k, acc =>
    match deriveChild C i k with
    | .ok (il, child) => derivePath mod rest child ((il + acc) % mod)
    | .err e => .err e
    | .panic e => .panic e

end

/-- `(*ExtendedKey).String()`: base58check of the 78-byte serialisation -/
def serialize (k : ExtKey) : String :=
  let body := k.version ++ [UInt8.ofNat (k.depth % 256)] ++ k.parentFP ++ ser32 k.childIndex ++ k.chainCode ++ serP k.pub
  let chk := (Sha256.sha256 (Sha256.sha256 body)).take 4
  Base58.encode (body ++ chk)

end Ckd
end TssVerif
