import TssVerif.Core.Blame
import TssVerif.Core.Mta
/-! What an honest signer of threshold ECDSA checks about its peers, up to "continue or report this error with these
culprits": `ecdsa/signing/round_2.go` (as Bob: the peers' range proofs), `round_3.go` (as Alice: the peers' responses and
Bob proofs, with and without the public-point check), `round_5.go` (de-commitment of Γ_j and its Schnorr proof) and
`round_7.go` (de-commitment of V_j, A_j, Schnorr proof for A_j, Schnorr-V proof for V_j). Payloads are the message
fields as received; byte lists are the wire parts of a proof. -/
namespace TssVerif
namespace BlameSg
open Zk

variable {P : Type} (C : Curve P) (H : HashFn)

def rangeParts : Nat := 6
def bobParts : Nat := 10
def bobWCParts : Nat := 12

/-- `mta.RangeProofAliceFromBytes` -/
def rangeFromBytes (bzs : List Bytes) : Option RangeProof :=
  if !nonEmptyMultiBytes bzs rangeParts then none else
  let g (i : Nat) : Int := (bytesToNat (bzs.getD i []) : Int)
  some ⟨g 0, g 1, g 2, g 3, g 4, g 5⟩

/-- `mta.ProofBobFromBytes`: takes 10 parts, or 12 (the two extra ones are ignored) -/
def bobFromBytes (bzs : List Bytes) : Option BobProof :=
  if !nonEmptyMultiBytes bzs bobParts && !nonEmptyMultiBytes bzs bobWCParts then none else
  let g (i : Nat) : Int := (bytesToNat (bzs.getD i []) : Int)
  some ⟨g 0, g 1, g 2, g 3, g 4, g 5, g 6, g 7, g 8, g 9⟩

/-- `mta.ProofBobWCFromBytes`: the ten numbers, then the point `U` from parts 10 and 11. With ten parts the Go code
indexes past the end (a crash; `SignRound2Message.ValidateBasic` only lets twelve-part lists through). -/
def bobWCFromBytes (bzs : List Bytes) : Outcome (Option (BobProof × ECPoint)) :=
  match bobFromBytes bzs with
  | none => .ok none
  | some pf =>
    if bzs.length < bobWCParts then .panic "index-out-of-range" else
    match C.ecNew (bytesToNat (bzs.getD 10 [])) (bytesToNat (bzs.getD 11 [])) with
    | none => .ok none
    | some u => .ok (some (pf, u))

/-! ## round 2: the party is Bob for every peer -/

/-- what peer `idx` (as Alice) sent in `SignRound1Message1`, and its Paillier modulus from the saved key data -/
structure R1Peer where
  idx : Nat
  nA : Nat
  cA : Nat
  proof : List Bytes
deriving Repr, DecidableEq

/-- `true` = `BobMid` and `BobMidWC` both return without error for this peer. Both verify the same range proof under
the party's own ring-Pedersen parameters and then apply `HomoMult` to the received ciphertext (its domain guard is
the only further thing that can fail: the multiplier and the fresh mask are the party's own, in range). -/
def r2Peer (cfg : Cfg) (own : Mta.RP) (p : R1Peer) : Outcome Bool := do
  match rangeFromBytes p.proof with
  | none => .ok false
  | some pf =>
    let ok ← rangeVerify cfg H C.q p.nA own.ntilde own.h1 own.h2 p.cA pf
    if !ok then .ok false else
    match Paillier.homoMult p.nA 0 p.cA with
    | .ok _ => .ok true
    | .err _ => .ok false
    | .panic e => .panic e

/-- round 2 up to the culprit decision: every peer whose Bob steps failed, in index order (the Go error lists such
a peer once per failed step, in the order the goroutines finished) -/
def round2 (cfg : Cfg) (own : Mta.RP) (peers : List R1Peer) : Outcome (List Nat) := do
  let verdicts ← peers.mapM (r2Peer C H cfg own)
  .ok ((peers.zip verdicts).filterMap fun (p, ok) => if ok then none else some p.idx)

/-! ## round 3: the party is Alice for every peer -/

/-- what peer `idx` (as Bob) sent in `SignRound2Message`, with what the party holds for it: the ciphertext it sent
to that peer in round 1 (`cis[j]`) and the peer's public weighted point `bigWs[j]` -/
structure R2Peer where
  idx : Nat
  ownCA : Nat
  c1 : Nat
  proofBob : List Bytes
  c2 : Nat
  proofBobWC : List Bytes
  bigW : ECPoint
deriving Repr, DecidableEq

/-- one `AliceEnd` / `AliceEndWC` step: `some share` or `none` (an error naming the peer) -/
def aliceStep (cfg : Cfg) (sess : Bytes) (sk : Paillier.PrivateKey) (own : Mta.RP) (cA cB : Nat) (pf : BobProof)
    (xu : Option (ECPoint × ECPoint)) : Outcome (Option Nat) :=
  match Mta.aliceEnd C H cfg sess sk pf own cA cB xu with
  | .ok a => .ok (some a)
  | .err _ => .ok none
  | .panic e => .panic e

/-- both steps for one peer: `some (α_ij, μ_ij)` or `none` = this peer is a culprit -/
def r3Peer (cfg : Cfg) (ssid : Bytes) (sk : Paillier.PrivateKey) (own : Mta.RP) (p : R2Peer) : Outcome (Option (Nat × Nat)) := do
  let ctx := Blame.contextJ ssid p.idx
  let a ← match bobFromBytes p.proofBob with
    | none => (.ok none : Outcome (Option Nat))
    | some pf => aliceStep C H cfg ctx sk own p.ownCA p.c1 pf none
  let u ← match ← bobWCFromBytes C p.proofBobWC with
    | none => (.ok none : Outcome (Option Nat))
    | some (pf, uPt) => aliceStep C H cfg ctx sk own p.ownCA p.c2 pf (some (p.bigW, uPt))
  match a, u with
  | some a, some u => .ok (some (a, u))
  | _, _ => .ok none

structure R3Result where
  culprits : List Nat
  shares : List (Nat × Nat)   -- (α_ij, μ_ij) per peer when nobody is blamed
deriving Repr, DecidableEq

def round3 (cfg : Cfg) (ssid : Bytes) (sk : Paillier.PrivateKey) (own : Mta.RP) (peers : List R2Peer) : Outcome R3Result := do
  let verdicts ← peers.mapM (r3Peer C H cfg ssid sk own)
  let culprits := (peers.zip verdicts).filterMap fun (p, v) => match v with
    | none => some p.idx
    | some _ => none
  .ok ⟨culprits, if culprits.isEmpty then verdicts.filterMap id else []⟩

/-! ## rounds 5 and 7: sequential, the first failing peer (in index order) is named -/

inductive Res (α : Type) where
  | pass (a : α)
  | fail (why : String) (culprit : Nat)
deriving Repr, DecidableEq

/-- peer `idx`'s commitment (`SignRound1Message2`), its opening and Schnorr proof (`SignRound4Message`) -/
structure R4Peer where
  idx : Nat
  commitment : Nat
  decommitment : List Nat
  alpha : Nat × Nat
  t : Nat
deriving Repr, DecidableEq

def r5Peer (cfg : Cfg) (ssid : Bytes) (p : R4Peer) : Outcome (Res ECPoint) := do
  match decommitWith H p.commitment (p.decommitment.map Int.ofNat) with
  | .panic e => .panic e
  | .err e => .err e
  | .ok none => .ok (.fail "commitment verify failed" p.idx)
  | .ok (some coords) =>
    if coords.length != 2 then .ok (.fail "commitment verify failed" p.idx) else
    match C.ecNew (coords.getD 0 0).toNat (coords.getD 1 0).toNat with
    | none => .ok (.fail "NewECPoint(bigGammaJ)" p.idx)
    | some g =>
      match C.ecNew p.alpha.1 p.alpha.2 with
      | none => .ok (.fail "failed to unmarshal bigGamma proof" p.idx)
      | some al =>
        if !(← schnorrVerify C H cfg (Blame.contextJ ssid p.idx) g al p.t) then .ok (.fail "failed to prove bigGamma" p.idx)
        else .ok (.pass g)

/-- round 5 up to `R = Γ_i + Σ Γ_j` (before the multiplication by θ⁻¹, which is the party's own) -/
def round5 (cfg : Cfg) (ssid : Bytes) (ownGamma : ECPoint) : List R4Peer → Outcome (Res ECPoint)
  | [] => .ok (.pass ownGamma)
  | p :: rest => do
    match ← r5Peer C H cfg ssid p with
    | .fail why c => .ok (.fail why c)
    | .pass g =>
      match C.ecAdd ownGamma g with
      | .ok r => round5 cfg ssid r rest
      | .err _ => .ok (.fail "R.Add(bigGammaJ)" p.idx)
      | .panic e => .panic e

/-- peer `idx`'s commitment (`SignRound5Message`), its opening and the two proofs (`SignRound6Message`) -/
structure R6Peer where
  idx : Nat
  commitment : Nat
  decommitment : List Nat
  alphaA : Nat × Nat
  tA : Nat
  alphaV : Nat × Nat
  tV : Nat
  uV : Nat
deriving Repr, DecidableEq

def r7Peer (cfg : Cfg) (ssid : Bytes) (bigR : ECPoint) (p : R6Peer) : Outcome (Res (ECPoint × ECPoint)) := do
  match decommitWith H p.commitment (p.decommitment.map Int.ofNat) with
  | .panic e => .panic e
  | .err e => .err e
  | .ok none => .ok (.fail "de-commitment for bigVj and bigAj failed" p.idx)
  | .ok (some v) =>
    if v.length != 4 then .ok (.fail "de-commitment for bigVj and bigAj failed" p.idx) else
    match C.ecNew (v.getD 0 0).toNat (v.getD 1 0).toNat with
    | none => .ok (.fail "NewECPoint(bigVj)" p.idx)
    | some bigV =>
      match C.ecNew (v.getD 2 0).toNat (v.getD 3 0).toNat with
      | none => .ok (.fail "NewECPoint(bigAj)" p.idx)
      | some bigA =>
        let ctx := Blame.contextJ ssid p.idx
        let okA ← match C.ecNew p.alphaA.1 p.alphaA.2 with
          | none => (.ok false : Outcome Bool)
          | some al => schnorrVerify C H cfg ctx bigA al p.tA
        if !okA then .ok (.fail "schnorr verify for Aj failed" p.idx) else
        let okV ← match C.ecNew p.alphaV.1 p.alphaV.2 with
          | none => (.ok false : Outcome Bool)
          | some al => schnorrVVerify C H cfg ctx bigV bigR al p.tV p.uV
        if !okV then .ok (.fail "vverify for Vj failed" p.idx) else .ok (.pass (bigV, bigA))

/-- round 7 up to the list of the peers' `(V_j, A_j)` -/
def round7 (cfg : Cfg) (ssid : Bytes) (bigR : ECPoint) : List R6Peer → Outcome (Res (List (ECPoint × ECPoint)))
  | [] => .ok (.pass [])
  | p :: rest => do
    match ← r7Peer C H cfg ssid bigR p with
    | .fail why c => .ok (.fail why c)
    | .pass va =>
      match ← round7 cfg ssid bigR rest with
      | .fail why c => .ok (.fail why c)
      | .pass l => .ok (.pass (va :: l))

end BlameSg
end TssVerif
