import TssVerif.Core.Zk
import TssVerif.Core.Vss
import TssVerif.Core.Commit
/-! Round-level models of the checks an honest party runs on its peers' messages, with the culprit lists
it reports (`eddsa/keygen/round_3.go`, `eddsa/signing/round_3.go`). Payloads are the decoded message fields. -/
namespace TssVerif
namespace Blame

variable {P : Type} (C : Curve P) (H : HashFn)

/-- `ContextJ = ssid ‖ bytes(j)` -/
def contextJ (ssid : Bytes) (j : Nat) : Bytes := ssid ++ natToBytesBE j

/-- cofactor clearing as the rounds apply it (`EightInvEight`): ×`cof`, then ×`cofInv` -/
def clear (cof cofInv : Nat) (a : ECPoint) : Outcome ECPoint := do
  let e ← C.ecScalarMult a cof
  C.ecScalarMult e cofInv

/-- what one peer sent to the party, decoded -/
structure KgPeer where
  idx : Nat
  commitment : Nat        -- KGRound1Message
  decommitment : List Nat -- KGRound2Message2
  alpha : Nat × Nat       -- Schnorr proof (coordinates as sent)
  t : Nat
  share : Nat             -- KGRound2Message1

inductive PeerVerdict where
  | ok (vs : List ECPoint)
  | bad (why : String)
deriving Repr, DecidableEq

/-- the per-peer goroutine of key generation round 3. `vcfg` / `zcfg` select the repaired or the original tree;
`lenGuard` is the K8 repair (a de-commitment that opens to the wrong number of points is an error). -/
def kgCheckPeer (zcfg : Zk.Cfg) (vcfg : Vss.VerifyCfg) (lenGuard : Bool) (cof cofInv : Nat) (threshold : Nat) (ownId : Nat) (ssid : Bytes)
    (p : KgPeer) : Outcome PeerVerdict := do
  match decommitWith H p.commitment (p.decommitment.map Int.ofNat) with
  | .panic e => .panic e
  | .err e => .err e
  | .ok none => .ok (.bad "de-commitment verify failed")
  | .ok (some flat) =>
    match C.unflatten (flat.map Int.toNat) with
    | none => .ok (.bad "unflatten")
    | some pts =>
      let vs ← pts.mapM (clear C cof cofInv)
      if lenGuard && vs.length != threshold + 1 then .ok (.bad "wrong number of commitment points") else
      match vs with
      | [] => .panic "index-out-of-range"      -- PjVs[0] on an empty de-commitment (before the K8 repair)
      | v0 :: _ =>
        match C.ecNew p.alpha.1 p.alpha.2 with
        | none => .ok (.bad "failed to unmarshal schnorr proof")
        | some al =>
          let okS ← Zk.schnorrVerify C H zcfg (contextJ ssid p.idx) v0 al p.t
          if !okS then .ok (.bad "failed to prove schnorr proof") else
          let okV ← Vss.verify C vcfg threshold ⟨threshold, ownId, p.share⟩ vs
          if !okV then .ok (.bad "vss verify failed") else .ok (.ok vs)

structure KgResult where
  culprits : List Nat
  xi : Nat
deriving Repr, DecidableEq

/-- key generation round 3 up to the culprit decision and the own share `x_i = Σ shares mod q` -/
def kgRound3 (zcfg : Zk.Cfg) (vcfg : Vss.VerifyCfg) (lenGuard : Bool) (cof cofInv : Nat) (threshold : Nat) (ownId : Nat) (ownShare : Nat)
    (ssid : Bytes) (peers : List KgPeer) : Outcome KgResult := do
  let verdicts ← peers.mapM (kgCheckPeer C H zcfg vcfg lenGuard cof cofInv threshold ownId ssid)
  let culprits := (peers.zip verdicts).filterMap fun (p, v) => match v with
    | .bad _ => some p.idx
    | .ok _ => none
  .ok ⟨culprits, (peers.foldl (fun acc p => acc + p.share) ownShare) % C.q⟩

/-- one peer's input to EdDSA signing round 3 -/
structure SgPeer where
  idx : Nat
  commitment : Nat        -- SignRound1Message
  decommitment : List Nat -- SignRound2Message
  alpha : Nat × Nat
  t : Nat

inductive SgVerdict where
  | ok (r : ECPoint)
  | bad (why : String) (blamed : Bool)
deriving Repr, DecidableEq

/-- the loop body of EdDSA signing round 3; `blameDecommit` is the D1 repair, `errFirst` the K9 repair -/
def sgCheckPeer (zcfg : Zk.Cfg) (blameDecommit errFirst : Bool) (cof cofInv : Nat) (ssid : Bytes) (p : SgPeer) : Outcome SgVerdict := do
  match decommitWith H p.commitment (p.decommitment.map Int.ofNat) with
  | .panic e => .panic e
  | .err e => .err e
  | .ok none => .ok (.bad "de-commitment verify failed" blameDecommit)
  | .ok (some coords) =>
    if coords.length != 2 then .ok (.bad "length of de-commitment should be 2" blameDecommit) else
    match C.ecNew (coords.getD 0 0).toNat (coords.getD 1 0).toNat with
    | none => if errFirst then .ok (.bad "NewECPoint(Rj)" true) else .panic "nil-Rj"
    | some rj0 =>
      let rj ← clear C cof cofInv rj0
      match C.ecNew p.alpha.1 p.alpha.2 with
      | none => .ok (.bad "failed to unmarshal Rj proof" true)
      | some al =>
        let okS ← Zk.schnorrVerify C H zcfg (contextJ ssid p.idx) rj al p.t
        if !okS then .ok (.bad "failed to prove Rj" true) else .ok (.ok rj)

/-- signing round 3 stops at the first peer (in index order) that fails: `some (idx, blamed)` or `none` -/
def sgRound3 (zcfg : Zk.Cfg) (blameDecommit errFirst : Bool) (cof cofInv : Nat) (ssid : Bytes) :
    List SgPeer → Outcome (Option (Nat × Bool))
  | [] => .ok none
  | p :: rest => do
    match ← sgCheckPeer C H zcfg blameDecommit errFirst cof cofInv ssid p with
    | .bad _ blamed => .ok (some (p.idx, blamed))
    | .ok _ => sgRound3 zcfg blameDecommit errFirst cof cofInv ssid rest

end Blame
end TssVerif
