import TssVerif.Core.Curve
/-! `crypto/vss/feldman_vss.go`: Feldman verifiable secret sharing, generic in the curve. -/
namespace TssVerif
namespace Vss
variable {P : Type} (C : Curve P)

/-- `CheckIndexes`: no id ≡ 0 and no two ids congruent modulo the group order -/
def checkIndexes (q : Nat) (ids : List Nat) : Bool :=
  ids.all (fun v => v % q != 0) && (ids.map (· % q)).Nodup

/-- `evaluatePolynomial(threshold, v, id)`: `v[0]` enters unreduced, every step reduces mod q -/
def evalPolyLoop (q id : Nat) : List Nat → Nat → Nat → Nat
  | [], _, result => result
  | a :: as, x, result =>
    let x' := x * id % q
    evalPolyLoop q id as x' ((result + a * x') % q)

def evalPoly (q : Nat) (coeffs : List Nat) (id : Nat) : Nat :=
  match coeffs with
  | [] => 0
  | a0 :: rest => evalPolyLoop q id rest 1 a0

structure Share where
  threshold : Nat
  id : Nat
  share : Nat
deriving Repr, DecidableEq

/-- `vss.Create` with the sampled coefficients `a_1 … a_t` given (`coeffs.length = threshold`) -/
def create (threshold : Nat) (secret : Nat) (ids : List Nat) (coeffs : List Nat) :
    Outcome (List ECPoint × List Share) :=
  if threshold < 1 then .err "threshold<1" else
  if !checkIndexes C.q ids then .err "bad-indexes" else
  if ids.length < threshold then .err "not-enough-shares" else
  let poly := secret :: coeffs
  match poly.mapM (fun (a : Nat) => C.ecBaseMult (a : Int)) with
  | .ok vs => .ok (vs, ids.map fun id => ⟨threshold, id, evalPoly C.q poly id⟩)
  | .err t => .err t
  | .panic t => .panic t

/-- the accumulation loop of `Share.Verify`: `v = v_0 + Σ_j (id^j mod q)·v_j` -/
def verifyLoop (id : Nat) : List ECPoint → Nat → ECPoint → Outcome (Option ECPoint)
  | [], _, v => .ok (some v)
  | vj :: rest, t, v =>
    let t' := t * id % C.q
    match C.ecScalarMult vj t' with
    | .ok vjt =>
      match C.ecAdd v vjt with
      | .ok v' => verifyLoop id rest t' v'
      | .err _ => .ok none
      | .panic e => .panic e
    | .err e => .err e
    | .panic e => .panic e

/-- when `false` the model reproduces the tree before the K2 repair -/
structure VerifyCfg where
  rejectZero : Bool

/-- `Share.Verify(ec, threshold, vs)` -/
def verify (cfg : VerifyCfg) (threshold : Nat) (sh : Share) (vs : List ECPoint) : Outcome Bool :=
  if sh.threshold != threshold || vs.length != threshold + 1 then .ok false else
  if cfg.rejectZero && (sh.share % C.q == 0 || sh.id % C.q == 0) then .ok false else
  match vs with
  | [] => .ok false
  | v0 :: rest =>
    match verifyLoop C sh.id rest 1 v0 with
    | .ok (some v) =>
      match C.ecBaseMult sh.share with
      | .ok sg => .ok (ecEquals sg v)
      | .err e => .err e
      | .panic e => .panic e
    | .ok none => .ok false
    | .err e => .err e
    | .panic e => .panic e

/-- Lagrange coefficient product `∏_{j≠i} x_j / (x_j − x_i)` as `ReConstruct` computes it -/
def times (q : Nat) (xs : List Nat) (i : Nat) : Outcome Nat :=
  (List.range xs.length).foldlM (fun acc j =>
    if j = i then pure acc else
      match modInverse (((xs.getD j 0 : Int) - (xs.getD i 0 : Int)) % (q : Int)) q with
      | some inv => pure (acc * (xs.getD j 0 * inv % q) % q)
      | none => .panic "nil-mod-inverse") 1

/-- `Shares.ReConstruct` -/
def reconstruct (q : Nat) (shares : List Share) : Outcome Nat :=
  match shares with
  | [] => .panic "index-out-of-range"
  | s0 :: _ =>
    if s0.threshold > shares.length then .err "not-enough-shares" else
    let xs := shares.map (·.id)
    (List.range shares.length).foldlM (fun secret i => do
      let t ← times q xs i
      pure ((secret + (shares.getD i ⟨0, 0, 0⟩).share * t % q) % q)) 0

end Vss
end TssVerif
