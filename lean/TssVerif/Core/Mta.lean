import TssVerif.Core.Zk
/-! `crypto/mta/share_protocol.go`: the multiplicative-to-additive exchange, with explicit coins. -/
namespace TssVerif
namespace Mta
open Zk

variable {P : Type} (C : Curve P) (H : HashFn)

/-- the public parameters one party publishes: ring-Pedersen modulus and bases -/
structure RP where
  ntilde : Nat
  h1 : Nat
  h2 : Nat

/-- `AliceInit(ec, pkA, a, NTildeB, h1B, h2B)`: coins `x` (encryption) and the four range-proof coins -/
def aliceInit (nA : Nat) (a : Nat) (rpB : RP) (x alpha beta gamma rho : Nat) : Outcome (Nat × RangeProof) := do
  let cA ← Paillier.encryptWith nA a x
  let pf ← rangeProve H C.q nA cA rpB.ntilde rpB.h1 rpB.h2 a x alpha beta gamma rho
  .ok (cA, pf)

structure BobOut where
  beta : Nat
  cB : Nat
  betaPrm : Nat
  pf : BobProof
  u : Option ECPoint

/-- `BobMid` / `BobMidWC` (`B = some _`): coins `betaPrm < q^5`, `xB` (encryption) and Bob's proof coins -/
def bobMid (cfg : Cfg) (sess : Bytes) (nA : Nat) (rpf : RangeProof) (b : Nat) (cA : Nat) (rpA rpB : RP)
    (B : Option ECPoint) (betaPrm xB : Nat) (k : BobCoins) : Outcome BobOut := do
  let okR ← rangeVerify cfg H C.q nA rpB.ntilde rpB.h1 rpB.h2 cA rpf
  if !okR then .err "range-proof-rejected" else
  let cBetaPrm ← Paillier.encryptWith nA betaPrm xB
  let cB0 ← Paillier.homoMult nA b cA
  let cB ← Paillier.homoAdd nA cB0 cBetaPrm
  let beta := ((0 : Int) - (betaPrm : Int)) % (C.q : Int)
  let (pf, u) ← bobProve C H sess nA rpA.ntilde rpA.h1 rpA.h2 cA cB b betaPrm xB B k
  .ok ⟨beta.toNat, cB, betaPrm, pf, u⟩

/-- `AliceEnd` / `AliceEndWC` (`xu = some (B, U)`) -/
def aliceEnd (cfg : Cfg) (sess : Bytes) (sk : Paillier.PrivateKey) (pf : BobProof) (rpA : RP) (cA cB : Nat)
    (xu : Option (ECPoint × ECPoint)) : Outcome Nat := do
  let ok ← bobVerify C H cfg sess sk.n rpA.ntilde rpA.h1 rpA.h2 cA cB pf xu
  if !ok then .err "bob-proof-rejected" else
  let alphaPrm ← Paillier.decrypt sk cB
  .ok (alphaPrm % C.q)

end Mta
end TssVerif
