import TssVerif.Core.Wire
import TssVerif.Core.Hash
import TssVerif.Core.Commit
import TssVerif.Core.OpsCrypto
import TssVerif.Core.OpsZk
import TssVerif.Core.OpsSign
/-! Dispatch of the line protocol: `op arg…` ↦ canonical result string. Unknown or malformed
lines give `bad-op` (never a default value). -/
namespace TssVerif.Ops
open TssVerif Wire

/-- the model of the tree as it is now -/
def curParse : ParseCfg := Ops16.curParse

def run (line : String) : String :=
  match line.splitOn " " with
  | ["sha512_256", xs] =>
    match pList pBytes xs with
    | some l => match sha512_256 l with
      | some d => rBytes d
      | none => "nil"
    | none => "bad-op"
  | ["sha512_256i", xs] =>
    match pList pInt xs with
    | some l => rOptNat (sha512_256i l)
    | none => "bad-op"
  | ["sha512_256i_tagged", tag, xs] =>
    match pBytes tag, pList pInt xs with
    | some t, some l => rOptNat (sha512_256iTagged t l)
    | _, _ => "bad-op"
  | ["sha512_256i_one", x] =>
    match pInt x with
    | some n => rNat (sha512_256iOne n)
    | none => "bad-op"
  | ["commit", r, xs] =>
    match pInt r, pList pInt xs with
    | some r, some l =>
      let (c, d) := commitWith Sha512.sha512_256 r l
      rNat c ++ " " ++ rList rInt d
    | _, _ => "bad-op"
  | ["commit_verify", c, ds] =>
    match pNat c, pList pInt ds with
    | some c, some d => verdict (commitVerifyWith Sha512.sha512_256 c d)
    | _, _ => "bad-op"
  | ["decommit", c, ds] =>
    match pNat c, pList pInt ds with
    | some c, some d =>
      (decommitWith Sha512.sha512_256 c d).render fun
        | some l => "true " ++ rList rInt l
        | none => "false"
    | _, _ => "bad-op"
  | ["builder_secrets", ps] =>
    match pListList pInt ps with
    | some parts => (builderSecrets parts).render (rList rInt)
    | none => "bad-op"
  | ["parse_secrets", xs] =>
    match pList pInt xs with
    | some l => (parseSecretsCfg curParse l).render (rListList rInt)
    | none => "bad-op"
  | op :: args => (((OpsCrypto.run op args).orElse fun _ => OpsZk.run op args).orElse fun _ => OpsSign.run op args).getD "bad-op"
  | _ => "bad-op"

end TssVerif.Ops
