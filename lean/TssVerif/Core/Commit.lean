import TssVerif.Core.Hash
import TssVerif.Core.Outcome
/-! `crypto/commitments`: hash commitments and the multi-part builder / parser. -/
namespace TssVerif

def partsCap : Nat := 3
def maxPartSize : Nat := 1024 * 1024

/-- `NewHashCommitmentWithRandomness`: `(C, D)` with `D = r :: secrets` -/
def commitWith (H : HashFn) (r : Int) (secrets : List Int) : Nat × List Int :=
  let d := r :: secrets
  ((sha512_256iWith H d).getD 0, d)

/-- `HashCommitDecommit.Verify` (C and D non-nil). An empty `D` makes `SHA512_256i` return nil and
`hash.Cmp` dereference it. -/
def commitVerifyWith (H : HashFn) (c : Nat) (d : List Int) : Outcome Bool :=
  match sha512_256iWith H d with
  | none => .panic "nil-hash-cmp"
  | some h => .ok (h == c)

/-- `DeCommit`: on success the list without its first element -/
def decommitWith (H : HashFn) (c : Nat) (d : List Int) : Outcome (Option (List Int)) :=
  match commitVerifyWith H c d with
  | .ok true => .ok (some (d.drop 1))
  | .ok false => .ok none
  | .err t => .err t
  | .panic t => .panic t

/-- `builder.Secrets()` -/
def builderSecrets (parts : List (List Int)) : Outcome (List Int) :=
  if partsCap < parts.length then .err "too-many-parts" else
  match parts.find? (fun p => maxPartSize < p.length) with
  | some _ => .err "part-too-large"
  | none => .ok (parts.flatMap fun p => (p.length : Int) :: p)

/-- Go `(*big.Int).Int64()`: low 64 bits of the magnitude, sign applied, wrapped to int64 -/
def goInt64 (z : Int) : Int :=
  let low : Int := ((z.natAbs % 2 ^ 64 : Nat) : Int)
  let v := if z < 0 then -low else low
  -- wrap into [-2^63, 2^63)
  let w := v % (2 ^ 64 : Int)
  if w ≥ 2 ^ 63 then w - 2 ^ 64 else w

/-- when `true` the model reproduces the tree *before* the K4/B2 repairs (used for witnesses) -/
structure ParseCfg where
  rejectNegative : Bool   -- K4 repair: a length outside int64 or negative is an error, not a slice panic
  keepTrailing : Bool     -- B2 repair: a trailing length element is consumed (0 ↦ empty part, else error)

/-- `ParseSecrets`, a loop on `el`, with explicit fuel = number of elements + 1 -/
def parseLoop (cfg : ParseCfg) (secrets : List Int) : Nat → Nat → Bool → Int → List (List Int) →
    Outcome (List (List Int))
  | 0, _, _, _, parts => .ok parts.reverse
  | fuel + 1, el, isLenEl, nextLen, parts =>
    if el < secrets.length then
      if isLenEl then
        let v := secrets.getD el 0
        let nl := goInt64 v
        if cfg.rejectNegative && (v < -(2 ^ 63 : Int) || v ≥ (2 ^ 63 : Int) || nl < 0) then .err "invalid-length"
        else if (maxPartSize : Int) < nl then .err "part-too-large"
        else parseLoop cfg secrets fuel (el + 1) false nl parts
      else
        if partsCap ≤ parts.length then .err "too-many-parts"
        else if (secrets.length : Int) < (el : Int) + nextLen then .err "not-enough-data"
        else if nextLen < 0 then .panic "slice-bounds"
        else
          let n := nextLen.toNat
          -- a zero-length part does not advance `el`; Go's loop continues all the same
          parseLoop cfg secrets fuel (el + n) true nextLen (((secrets.drop el).take n) :: parts)
    else
      if cfg.keepTrailing && !isLenEl then
        if nextLen = 0 then
          if partsCap ≤ parts.length then .err "too-many-parts" else .ok (([] : List Int) :: parts).reverse
        else .err "not-enough-data"
      else .ok parts.reverse

def parseSecretsCfg (cfg : ParseCfg) (secrets : List Int) : Outcome (List (List Int)) :=
  if secrets.length < 2 then .err "too-small" else
  parseLoop cfg secrets (2 * secrets.length + 2) 0 true 0 []

namespace Ops16
/-- the parser configuration of the tree as it is now -/
def curParse : ParseCfg := { rejectNegative := true, keepTrailing := true }
end Ops16

end TssVerif
