import TssVerif.Core.Curve
import TssVerif.Core.Sha512
import TssVerif.Core.Outcome
/-! Signing arithmetic shared by the transcript checks: Lagrange weights (`PrepareForSigning`),
ECDSA verification / public-key recovery / `finalize`, and an RFC 8032 Ed25519 verifier written from
the RFC together with the little-endian helpers of `eddsa/signing/utils.go`. -/
namespace TssVerif
namespace Sign

/-- `modQ.Mul(ks[j], modQ.ModInverse(ks[j] - ks[i]))`; `none` = nil dereference in Go -/
def coef (q : Nat) (ki kj : Nat) : Option Nat :=
  (modInverse ((kj : Int) - (ki : Int)) q).map fun inv => kj * inv % q

/-- `w_i` of `PrepareForSigning`: fold over the positions `j ≠ i`, starting from `x_i` (unreduced) -/
def weight (q : Nat) (ks : List Nat) (i : Nat) (xi : Nat) : Option Nat :=
  (List.range ks.length).foldlM (fun w j =>
    if j = i then some w else
      (coef q (ks.getD i 0) (ks.getD j 0)).map fun c => w * c % q) xi

/-- Go panics when two ids are equal (`index of two parties are equal`) -/
def prepareGuard (ks : List Nat) : Bool := ks.Nodup

section Ecdsa
variable {P : Type} (C : Curve P)

/-- textbook ECDSA verification of `(r, s)` on digest value `m` (already an integer `< 2^256`) -/
def ecdsaVerify (pub : ECPoint) (m r s : Nat) : Bool :=
  if r = 0 ∨ s = 0 ∨ r ≥ C.q ∨ s ≥ C.q then false else
  match modInverse s C.q, C.lift pub with
  | some w, some pk =>
    let u1 := m % C.q * w % C.q
    let u2 := r * w % C.q
    match C.toAffine (C.add (C.smul u1 C.base) (C.smul u2 pk)) with
    | some (x, _) => x % C.q == r
    | none => false
  | _, _ => false

/-- Go `hashToInt` of `crypto/ecdsa`: the leftmost `ceil(bitlen q / 8)` bytes, shifted right if needed -/
def hashToInt (q : Nat) (h : Bytes) : Nat :=
  let orderBytes := (bitLen q + 7) / 8
  let h' := h.take orderBytes
  let v := bytesToNat h'
  let excess := h'.length * 8 - bitLen q
  v / 2 ^ excess

/-- square root modulo p ≡ 3 (mod 4) -/
def sqrtP3 (p a : Nat) : Option Nat :=
  let r := modPow a ((p + 1) / 4) p
  if r * r % p == a % p then some r else none

/-- public-key recovery (secp256k1 style: y² = x³ + 7) from `(r, s, recid)` -/
def recoverSecp (m r s recid : Nat) : Option ECPoint :=
  let q := Secp256k1.n
  let p := Secp256k1.p
  let x := if recid / 2 % 2 = 1 then r + q else r
  if x ≥ p then none else
  match sqrtP3 p ((x * x % p * x + 7) % p) with
  | none => none
  | some y0 =>
    let y := if y0 % 2 = recid % 2 then y0 else p - y0
    match modInverse r q with
    | none => none
    | some rinv =>
      let C := Secp256k1.curve
      let R : Secp256k1.Pt := some (x, y)
      let u1 := (q - m % q * rinv % q) % q
      let u2 := s * rinv % q
      C.toAffine (C.add (C.smul u1 C.base) (C.smul u2 R))

structure SigData where
  r : Bytes
  s : Bytes
  signature : Bytes
  recid : Nat
  m : Bytes
deriving Repr, DecidableEq

/-- `finalization.Start` of ECDSA signing after the shares are summed (`sumS` already reduced mod q).
`fullLen = 0` means "not requested". -/
def ecdsaFinalize (pub : ECPoint) (rx ry sumS m : Nat) (fullLen : Nat) : Outcome SigData :=
  let q := C.q
  let recid0 := (if rx > q then 2 else 0) ||| (if ry % 2 = 1 then 1 else 0)
  let (s', recid) := if sumS > q / 2 then (q - sumS, recid0 ^^^ 1) else (sumS, recid0)
  let rb := padLeft 32 (natToBytesBE rx)
  let sb := padLeft 32 (natToBytesBE s')
  let mBytes : Outcome Bytes :=
    if fullLen = 0 then .ok (natToBytesBE m)
    else if (natToBytesBE m).length > fullLen then .panic "fill-bytes" else .ok (padLeft fullLen (natToBytesBE m))
  match mBytes with
  | .ok mb =>
    if ecdsaVerify C pub (hashToInt q mb) rx s' then .ok ⟨rb, sb, rb ++ sb, recid, mb⟩
    else .err "signature verification failed"
  | .err e => .err e
  | .panic e => .panic e

/-- what every honest signer computes from the broadcast transcript: `R = (Σθ_j)⁻¹ · ΣΓ_j`,
`s = Σ s_j`, then `finalize`. `none` inverse = nil dereference (Σθ ≡ 0). -/
def ecdsaFromTranscript (pub : ECPoint) (thetas : List Nat) (gammas : List ECPoint) (ss : List Nat)
    (m : Nat) (fullLen : Nat) : Outcome SigData :=
  let q := C.q
  match modInverse ((thetas.foldl (· + ·) 0 % q : Nat) : Int) q with
  | none => .panic "nil-theta-inverse"
  | some ti =>
    match gammas with
    | [] => .err "no-gammas"
    | g0 :: gs =>
      match gs.foldlM (fun acc g => C.ecAdd acc g) g0 with
      | .ok sumG =>
        match C.ecScalarMult sumG ti with
        | .ok R => ecdsaFinalize C pub R.1 R.2 (ss.foldl (· + ·) 0 % q) m fullLen
        | .err e => .err e
        | .panic e => .panic e
      | .err e => .err e
      | .panic e => .panic e

/-- `bigWs[j]` of `PrepareForSigning`: `X_j` multiplied, one factor after the other, by the Lagrange factors
`k_c / (k_c − k_j)` of the other signers (each product goes through `ECPoint.ScalarMult`) -/
def bigW (ks : List Nat) (j : Nat) (xj : ECPoint) : Outcome ECPoint :=
  (List.range ks.length).foldlM (fun w c =>
    if c = j then .ok w else
      match coef C.q (ks.getD j 0) (ks.getD c 0) with
      | some io => C.ecScalarMult w io
      | none => .panic "nil-mod-inverse") xj

/-- all the public weighted points -/
def bigWs (ks : List Nat) (xs : List ECPoint) : Outcome (List ECPoint) :=
  (List.range ks.length).mapM fun j =>
    match xs[j]? with
    | some x => bigW C ks j x
    | none => .panic "len(ks) != len(bigXs)"

end Ecdsa

/-! ### Ed25519 (RFC 8032) -/
namespace Ed

def p := Ed25519.p
def l := Ed25519.l

def leToNat (b : Bytes) : Nat := bytesToNat b.reverse

/-- 32-byte little-endian encoding -/
def natToLE32 (n : Nat) : Bytes :=
  let be := padLeft 32 (natToBytesBE (n % 2 ^ 256))
  be.reverse

/-- `bigIntToEncodedBytes`: big-endian bytes left-padded to 32, the FIRST 32 bytes kept, reversed -/
def bigIntToEncodedBytes (a : Nat) : Bytes := ((padLeft 32 (natToBytesBE a)).take 32).reverse

/-- `encodedBytesToBigInt` -/
def encodedBytesToBigInt (s : Bytes) : Nat := bytesToNat s.reverse

/-- point compression: y little-endian with the sign of x in the top bit -/
def encodePoint (a : ECPoint) : Bytes :=
  let yb := natToLE32 a.2
  match yb.reverse with
  | [] => []
  | top :: rest => (UInt8.ofNat (top.toNat % 128 + (if a.1 % 2 = 1 then 128 else 0)) :: rest).reverse

def sqrtM1 : Nat := modPow 2 ((p - 1) / 4) p

/-- RFC 8032 §5.1.3 decoding -/
def decodePoint (b : Bytes) : Option ECPoint :=
  if b.length ≠ 32 then none else
  let v := leToNat b
  let sign := v / 2 ^ 255
  let y := v % 2 ^ 255
  if y ≥ p then none else
  let y2 := y * y % p
  let u := (y2 + p - 1) % p
  let vv := (Ed25519.d * y2 + 1) % p
  match modInverse vv p with
  | none => none
  | some vinv =>
    let x2 := u * vinv % p
    if x2 = 0 then (if sign = 1 then none else some (0, y)) else
    let x0 := modPow x2 ((p + 3) / 8) p
    let x1 := if x0 * x0 % p = x2 then some x0
      else if x0 * x0 % p = (p - x2) % p then some (x0 * sqrtM1 % p) else none
    match x1 with
    | none => none
    | some x => some ((if x % 2 = sign then x else p - x), y)

/-- RFC 8032 §5.1.7 verification (cofactorless form used by the Go standard library) -/
def verify (pub : Bytes) (msg : Bytes) (sig : Bytes) : Bool :=
  if sig.length ≠ 64 ∨ pub.length ≠ 32 then false else
  let rb := sig.take 32
  let s := leToNat (sig.drop 32)
  if s ≥ l then false else
  match decodePoint pub with
  | none => false
  | some A =>
    let h := leToNat (Sha512.sha512 (rb ++ pub ++ msg)) % l
    let C := Ed25519.curve
    -- R' = s·B − h·A ; accept iff enc(R') = rb
    let sB := C.smul s C.base
    let hA := C.smul h A
    let R' := C.add sB (C.neg hA)
    encodePoint R' == rb

end Ed
end Sign
end TssVerif
