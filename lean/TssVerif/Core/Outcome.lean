/-! Outcomes of modelled Go calls: a value, a reported error, or a panic (crash). Core Lean only. -/
namespace TssVerif

inductive Outcome (α : Type) where
  | ok (a : α)
  | err (tag : String)
  | panic (tag : String)
deriving Repr, DecidableEq

namespace Outcome
def bind {α β} (x : Outcome α) (f : α → Outcome β) : Outcome β :=
  match x with
  | ok a => f a
  | err t => err t
  | panic t => panic t

instance : Monad Outcome where
  pure := ok
  bind := bind

def isPanic {α} : Outcome α → Bool
  | panic _ => true
  | _ => false

def isOk {α} : Outcome α → Bool
  | ok _ => true
  | _ => false

/-- Go `nil` used as an operand: a crash -/
def ofOption {α} (tag : String) : Option α → Outcome α
  | some a => ok a
  | none => panic tag

def render {α} (f : α → String) : Outcome α → String
  | ok a => "ok " ++ f a
  | err t => "err " ++ t
  | panic t => "panic " ++ t
end Outcome

/-- verdict of a boolean verifier -/
def verdict : Outcome Bool → String
  | .ok true => "accept"
  | .ok false => "reject"
  | .err t => "err " ++ t
  | .panic t => "panic " ++ t

end TssVerif
