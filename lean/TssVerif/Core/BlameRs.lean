import TssVerif.Core.Blame
/-! What a NEW committee member of EdDSA resharing checks before it acknowledges
(`eddsa/resharing/round_1_old_step_1.go` `Update`, `round_4_new_step_2.go` `Start`), up to "acknowledge with this
share and these public points, or report this error with these culprits". Payloads are the message fields as
received from each old member. -/
namespace TssVerif
namespace BlameRs

variable {P : Type} (C : Curve P) (H : HashFn)

/-- what old member `idx` sent to this new member -/
structure OldMsg where
  idx : Nat
  pub : Nat × Nat          -- DGRound1Message: the group key it announces (coordinates as sent)
  commitment : Nat         -- DGRound1Message: commitment to its polynomial's points
  decommitment : List Nat  -- DGRound3Message2
  share : Nat              -- DGRound3Message1
deriving Repr, DecidableEq

inductive Verdict (α : Type) where
  | pass (a : α)
  | fail (why : String) (culprits : List Nat)
deriving Repr, DecidableEq

/-- round 1 on the new side: the group key the member will check the shares against. `everyMember = false` is the
tree before the repair (the key is always read from the first old member's message, whoever is being processed;
a mismatch can therefore never be seen); `true` compares every old member's own announcement and reports a
mismatch without a culprit. Messages are processed in index order. -/
def round1Key (everyMember : Bool) (msgs : List OldMsg) : Verdict ECPoint :=
  let first := msgs.head?
  let rec go (saved : Option ECPoint) : List OldMsg → Verdict ECPoint
    | [] => match saved with
      | some k => .pass k
      | none => .fail "no old member" []
    | m :: rest =>
      let src := if everyMember then some m else first
      match src with
      | none => .fail "no old member" []
      | some s =>
        match C.ecNew s.pub.1 s.pub.2 with
        | none => .fail "unable to unmarshal the eddsa pub key" [m.idx]
        | some cand =>
          match saved with
          | some k =>
            if cand != k then .fail "eddsa pub key did not match what we received previously" (if everyMember then [] else [m.idx])
            else go (some cand) rest
          | none => go (some cand) rest
  go none msgs

/-- the per-old-member part of round 4: de-commitment of the right length, points on the curve, cofactor cleared,
share verified against them under this member's id -/
def checkOld (vcfg : Vss.VerifyCfg) (cof cofInv newThreshold ownId : Nat) (m : OldMsg) : Outcome (Verdict (List ECPoint)) := do
  match decommitWith H m.commitment (m.decommitment.map Int.ofNat) with
  | .panic e => .panic e
  | .err e => .err e
  | .ok none => .ok (.fail "de-commitment of v_j0..v_jt failed" [m.idx])
  | .ok (some flat) =>
    if flat.length != (newThreshold + 1) * 2 then .ok (.fail "de-commitment of v_j0..v_jt failed" [m.idx]) else
    match C.unflatten (flat.map Int.toNat) with
    | none => .ok (.fail "unflatten" [m.idx])
    | some pts =>
      let vs ← pts.mapM (Blame.clear C cof cofInv)
      if !(← Vss.verify C vcfg newThreshold ⟨newThreshold, ownId, m.share⟩ vs) then
        .ok (.fail "share from old committee did not pass Verify()" [m.idx])
      else .ok (.pass vs)

/-- column sums `V_c = Σ_j v_{j,c}`; `none` when a sum is not representable -/
def sumColumns : List (List ECPoint) → Option (List ECPoint)
  | [] => none
  | vs :: rest => rest.foldlM (fun acc row =>
      if acc.length != row.length then none else (acc.zip row).mapM fun (a, b) =>
        match C.ecAdd a b with
        | .ok p => some p
        | _ => none) vs

structure Ack where
  xi : Nat               -- the new share: the sum of the received shares (not reduced, as in the code)
  vc : List ECPoint      -- the summed commitment points
deriving Repr, DecidableEq

/-- round 4 on the new side, up to the acknowledgement: stops at the first old member (in index order) whose
material fails, then checks `V_0 = y` against the key fixed in round 1 (the reporter names itself there) -/
def round4 (vcfg : Vss.VerifyCfg) (cof cofInv newThreshold ownId ownIdx : Nat) (key : ECPoint) (msgs : List OldMsg) :
    Outcome (Verdict Ack) := do
  let rec go (acc : List (List ECPoint)) (xi : Nat) : List OldMsg → Outcome (Verdict (List (List ECPoint) × Nat))
    | [] => .ok (.pass (acc.reverse, xi))
    | m :: rest => do
      match ← checkOld C H vcfg cof cofInv newThreshold ownId m with
      | .fail why cs => .ok (.fail why cs)
      | .pass vs => go (vs :: acc) (xi + m.share) rest
  match ← go [] 0 msgs with
  | .fail why cs => .ok (.fail why cs)
  | .pass (rows, xi) =>
    match sumColumns C rows with
    | none => .ok (.fail "Vc[c].Add(vjc[j][c])" [])
    | some vc =>
      match vc.head? with
      | none => .ok (.fail "Vc[c].Add(vjc[j][c])" [])
      | some v0 => if v0 != key then .ok (.fail "assertion failed: V_0 != y" [ownIdx]) else .ok (.pass ⟨xi, vc⟩)

/-- the two rounds together, as the new member runs them -/
def newMember (everyMember : Bool) (vcfg : Vss.VerifyCfg) (cof cofInv newThreshold ownId ownIdx : Nat) (msgs : List OldMsg) :
    Outcome (Verdict Ack) :=
  match round1Key C everyMember msgs with
  | .fail why cs => .ok (.fail why cs)
  | .pass key => round4 C H vcfg cof cofInv newThreshold ownId ownIdx key msgs

end BlameRs
end TssVerif
