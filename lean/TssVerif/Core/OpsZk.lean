import TssVerif.Core.Wire
import TssVerif.Core.OpsCrypto
import TssVerif.Core.Zk
import TssVerif.Core.Mta
/-! Line-protocol ops for the proof systems. -/
namespace TssVerif.OpsZk
open TssVerif Wire Zk OpsCrypto

def H := Sha512.sha512_256

def rPair (p : List Nat × List Nat) : String := rList rNat p.1 ++ " " ++ rList rNat p.2

def facOfList : List Int → Option FacProof
  | [P, Q, A, B, T, sg, z1, z2, w1, w2, v] => some ⟨P, Q, A, B, T, sg, z1, z2, w1, w2, v⟩
  | _ => none
def facToList (f : FacProof) : List Int := [f.P, f.Q, f.A, f.B, f.T, f.sigma, f.z1, f.z2, f.w1, f.w2, f.v]

def rangeOfList : List Int → Option RangeProof
  | [z, u, w, s, s1, s2] => some ⟨z, u, w, s, s1, s2⟩
  | _ => none
def rangeToList (f : RangeProof) : List Int := [f.z, f.u, f.w, f.s, f.s1, f.s2]

def bobOfList : List Int → Option BobProof
  | [z, zp, t, v, w, s, s1, s2, t1, t2] => some ⟨z, zp, t, v, w, s, s1, s2, t1, t2⟩
  | _ => none
def bobToList (f : BobProof) : List Int := [f.z, f.zPrm, f.t, f.v, f.w, f.s, f.s1, f.s2, f.t1, f.t2]

def curveOps {P : Type} (C : Curve P) (op : String) (args : List String) : Option String :=
  match op, args with
  | "schnorr_prove", [sess, x, X, a] =>
    match pBytes sess, pInt x, pPoint X, pNat a with
    | some sess, some x, some X, some a =>
      some ((schnorrProve C H sess x X a).render fun (al, t) => rPoint al ++ " " ++ rNat t)
    | _, _, _, _ => none
  | "schnorr_verify", [sess, X, al, t] =>
    match pBytes sess, pPoint X, pPoint al, pNat t with
    | some sess, some X, some al, some t => some (verdict (schnorrVerify C H cur sess X al t))
    | _, _, _, _ => none
  | "schnorrv_prove", [sess, V, R, s, l, a, b] =>
    match pBytes sess, pPoint V, pPoint R, pInt s, pInt l, pNat a, pNat b with
    | some sess, some V, some R, some s, some l, some a, some b =>
      some ((schnorrVProve C H sess V R s l a b).render fun (al, t, u) => rPoint al ++ " " ++ rNat t ++ " " ++ rNat u)
    | _, _, _, _, _, _, _ => none
  | "schnorrv_verify", [sess, V, R, al, t, u] =>
    match pBytes sess, pPoint V, pPoint R, pPoint al, pNat t, pNat u with
    | some sess, some V, some R, some al, some t, some u => some (verdict (schnorrVVerify C H cur sess V R al t u))
    | _, _, _, _, _, _ => none
  | "fac_prove", [sess, n0, ncap, s, t, n0p, n0q, coins] =>
    match pBytes sess, pNat n0, pNat ncap, pNat s, pNat t, pNat n0p, pNat n0q, pList pNat coins with
    | some sess, some n0, some ncap, some s, some t, some n0p, some n0q, some [al, be, mu, nu, sg, r, x, y] =>
      some ((facProve H C.q sess n0 ncap s t n0p n0q ⟨al, be, mu, nu, sg, r, x, y⟩).render fun f => rList rInt (facToList f))
    | _, _, _, _, _, _, _, _ => none
  | "fac_verify", [sess, n0, ncap, s, t, pf] =>
    match pBytes sess, pInt n0, pInt ncap, pInt s, pInt t, (pList pInt pf).bind facOfList with
    | some sess, some n0, some ncap, some s, some t, some pf => some (verdict (facVerify cur H C.q sess n0 ncap s t pf))
    | _, _, _, _, _, _ => none
  | "range_prove", [n, c, nt, h1, h2, m, r, coins] =>
    match pNat n, pNat c, pNat nt, pNat h1, pNat h2, pNat m, pNat r, pList pNat coins with
    | some n, some c, some nt, some h1, some h2, some m, some r, some [al, be, ga, rho] =>
      some ((rangeProve H C.q n c nt h1 h2 m r al be ga rho).render fun f => rList rInt (rangeToList f))
    | _, _, _, _, _, _, _, _ => none
  | "range_verify", [n, nt, h1, h2, c, pf] =>
    match pInt n, pInt nt, pInt h1, pInt h2, pInt c, (pList pInt pf).bind rangeOfList with
    | some n, some nt, some h1, some h2, some c, some pf => some (verdict (rangeVerify cur H C.q n nt h1 h2 c pf))
    | _, _, _, _, _, _ => none
  | "bob_prove", [sess, n, nt, h1, h2, c1, c2, x, y, r, X, coins] =>
    match pBytes sess, pNat n, pNat nt, pNat h1, pNat h2, pNat c1, pNat c2, pNat x, pNat y, pNat r, pList pNat coins with
    | some sess, some n, some nt, some h1, some h2, some c1, some c2, some x, some y, some r, some [al, rho, sg, tau, rhop, be, ga] =>
      let Xo := if X == "nil" then some none else (pPoint X).map some
      match Xo with
      | some Xo =>
        some ((bobProve C H sess n nt h1 h2 c1 c2 x y r Xo ⟨al, rho, sg, tau, rhop, be, ga⟩).render fun (f, u) =>
          rList rInt (bobToList f) ++ " " ++ (match u with | some u => rPoint u | none => "nil"))
      | none => none
    | _, _, _, _, _, _, _, _, _, _, _ => none
  | "bob_verify", [sess, n, nt, h1, h2, c1, c2, pf, X, U] =>
    match pBytes sess, pInt n, pInt nt, pInt h1, pInt h2, pInt c1, pInt c2, (pList pInt pf).bind bobOfList with
    | some sess, some n, some nt, some h1, some h2, some c1, some c2, some pf =>
      let xu : Option (Option (ECPoint × ECPoint)) :=
        if X == "nil" then some none else
        match pPoint X, pPoint U with
        | some X, some U => some (some (X, U))
        | _, _ => none
      match xu with
      | some xu => some (verdict (bobVerify C H cur sess n nt h1 h2 c1 c2 pf xu))
      | none => none
    | _, _, _, _, _, _, _, _ => none
  | "mta_alice_end", [sess, n, lam, phi, pf, nt, h1, h2, cA, cB, X, U] =>
    match pBytes sess, pNat n, pNat lam, pNat phi, (pList pInt pf).bind bobOfList, pNat nt, pNat h1, pNat h2, pNat cA, pNat cB with
    | some sess, some n, some lam, some phi, some pf, some nt, some h1, some h2, some cA, some cB =>
      let xu : Option (Option (ECPoint × ECPoint)) :=
        if X == "nil" then some none else
        match pPoint X, pPoint U with
        | some X, some U => some (some (X, U))
        | _, _ => none
      match xu with
      | some xu => some ((Mta.aliceEnd C H cur sess ⟨n, lam, phi, 0, 0⟩ pf ⟨nt, h1, h2⟩ cA cB xu).render rNat)
      | none => none
    | _, _, _, _, _, _, _, _, _, _ => none
  | _, _ => none

def run (op : String) (args : List String) : Option String :=
  match op, args with
  | "dln_prove", [h1, h2, x, p, q, n, as] =>
    match pNat h1, pNat h2, pNat x, pNat p, pNat q, pNat n, pList pNat as with
    | some h1, some h2, some x, some p, some q, some n, some as => some ((dlnProve H h1 h2 x p q n as).render rPair)
    | _, _, _, _, _, _, _ => none
  | "dln_verify", [al, t, h1, h2, n] =>
    match pList pInt al, pList pInt t, pInt h1, pInt h2, pInt n with
    | some al, some t, some h1, some h2, some n =>
      if al.length = dlnIterations ∧ t.length = dlnIterations then some (verdict (dlnVerify H al t h1 h2 n)) else none
    | _, _, _, _, _ => none
  | "dln_unmarshal", [xs] =>
    match pList pInt xs with
    | some xs => some ((dlnUnmarshal Ops16.curParse xs).render fun (a, t) => rList rInt a ++ " " ++ rList rInt t)
    | none => none
  | "mod_prove", [sess, n, p, q, w] =>
    match pBytes sess, pNat n, pNat p, pNat q, pNat w with
    | some sess, some n, some p, some q, some w =>
      some ((modProve H sess n p q w).render fun (w, xs, a, b, zs) =>
        rNat w ++ " " ++ rList rNat xs ++ " " ++ rNat a ++ " " ++ rNat b ++ " " ++ rList rNat zs)
    | _, _, _, _, _ => none
  | "mod_verify", [sess, w, xs, a, b, zs, n] =>
    match pBytes sess, pInt w, pList pInt xs, pInt a, pInt b, pList pInt zs, pInt n with
    | some sess, some w, some xs, some a, some b, some zs, some n =>
      if xs.length = modIterations ∧ zs.length = modIterations then some (verdict (modVerify cur H sess w xs a b zs n)) else none
    | _, _, _, _, _, _, _ => none
  | "wire_roundtrip", [parts, expect, tag] =>
    -- Bob's proof with check: the last two components are the coordinates of U, rebuilt with `NewECPoint`
    match pList pInt parts, pDec expect with
    | some parts, some expect => some (match wireRoundTrip parts expect with
      | some l =>
        let onCurve := match l.reverse with
          | y :: x :: _ => if tag == "ed" then (Ed25519.curve.ecNew x y).isSome else (Secp256k1.curve.ecNew x y).isSome
          | _ => false
        if onCurve then "ok " ++ rList rNat l else "err"
      | none => "err")
    | _, _ => none
  | "wire_roundtrip", [parts, expect] =>
    match pList pInt parts, pDec expect with
    | some parts, some expect => some (match wireRoundTrip parts expect with
      | some l => "ok " ++ rList rNat l
      | none => "err")
    | _, _ => none
  | _, c :: rest =>
    if c == "s256" then curveOps Secp256k1.curve op rest
    else if c == "ed" then curveOps Ed25519.curve op rest
    else none
  | _, _ => none

end TssVerif.OpsZk
