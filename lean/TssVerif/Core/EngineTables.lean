import TssVerif.Core.Engine
/-! The round tables of the all-to-all protocols as read from the code (DESIGN.md Appendix B).
Message types are numbered in order of first emission; names are kept for the line protocol. -/
namespace TssVerif.Engine

structure Proto where
  name : String
  types : List String        -- type id = 1 + index
  table : List RoundSpec

private def rs (needs : List (Nat × Bool)) (selfOk : Bool) (selfStore : List (Nat × Bool)) (early : Bool)
    (emits : List (Nat × Bool)) : RoundSpec :=
  { needs, selfOk, selfStore, early, emits, final := false, finalOk := false }

private def fin (finalOk : Bool) : RoundSpec :=
  { needs := [], selfOk := false, selfStore := [], early := false, emits := [], final := true, finalOk }

def eddsaKeygen : Proto :=
  { name := "eddsa-keygen"
    types := ["KGRound1Message", "KGRound2Message1", "KGRound2Message2"]
    table := [ rs [(1, true)] false [(1, true)] false [(1, false)],
               rs [(2, false), (3, true)] false [(2, false), (3, true)] false [(2, true), (3, false)],
               fin false ] }

def eddsaSigning : Proto :=
  { name := "eddsa-signing"
    types := ["SignRound1Message", "SignRound2Message", "SignRound3Message"]
    table := [ rs [(1, true)] true [(1, true)] false [(1, false)],
               rs [(2, true)] false [(2, true)] false [(2, false)],
               rs [(3, true)] false [(3, true)] false [(3, false)],
               fin true ] }

def ecdsaKeygen : Proto :=
  { name := "ecdsa-keygen"
    types := ["KGRound1Message", "KGRound2Message1", "KGRound2Message2", "KGRound3Message"]
    table := [ rs [(1, true)] false [(1, true)] false [(1, false)],
               rs [(2, false), (3, true)] false [(2, false), (3, true)] false [(2, true), (3, false)],
               rs [(4, true)] false [(4, true)] false [(4, false)],
               fin true ] }

def ecdsaSigning : Proto :=
  { name := "ecdsa-signing"
    types := ["SignRound1Message1", "SignRound1Message2", "SignRound2Message", "SignRound3Message", "SignRound4Message",
              "SignRound5Message", "SignRound6Message", "SignRound7Message", "SignRound8Message", "SignRound9Message"]
    table := [ rs [(1, false), (2, true)] true [(2, true)] false [(1, true), (2, false)],
               rs [(3, false)] true [] false [(3, true)],
               rs [(4, true)] false [(4, true)] false [(4, false)],
               rs [(5, true)] false [(5, true)] false [(5, false)],
               rs [(6, true)] false [(6, true)] false [(6, false)],
               rs [(7, true)] false [(7, true)] false [(7, false)],
               rs [(8, true)] false [(8, true)] false [(8, false)],
               rs [(9, true)] false [(9, true)] false [(9, false)],
               rs [(10, true)] false [(10, true)] false [(10, false)],
               fin true ] }

def protos : List Proto := [eddsaKeygen, eddsaSigning, ecdsaKeygen, ecdsaSigning]

def findProto (name : String) : Option Proto := protos.find? fun p => p.name == name

def typeId (p : Proto) (name : String) : Nat :=
  match p.types.findIdx? (· == name) with
  | some i => i + 1
  | none => 0

def typeName (p : Proto) (id : Nat) : String := p.types.getD (id - 1) ("type" ++ toString id)

/-- textual state after an event: `round/waiting/emitted-since/ends/exactly-awaited` -/
def render (p : Proto) (before after : Party) : String :=
  -- Go prints "No more rounds" both before Start and after the last round (`p.rnd == nil`)
  let rnd := if after.done || after.rnd == 0 then "done" else toString after.rnd
  let w := ",".intercalate ((waitingFor after).map toString)
  let newOut := after.out.drop before.out.length
  let e := ",".intercalate (newOut.map (typeName p))
  let a := ",".intercalate ((awaited p.table after).map toString)
  s!"{rnd}/{w}/{e}/{after.ended}/{a}"

/-- run a trace: events `S` (Start) or `D:<type>:<from>:<b|p>` -/
def runTrace (p : Proto) (n self : Nat) (events : List String) : Option (List String) :=
  let rec go (st : Party) : List String → List String → Option (List String)
    | [], acc => some acc.reverse
    | ev :: rest, acc =>
      if ev == "S" then
        let st' := start p.table st
        go st' rest (render p st st' :: acc)
      else match ev.splitOn ":" with
        | ["D", ty, frm, fl] =>
          match frm.toNat? with
          | some f =>
            let m : Msg := ⟨typeId p ty, f, ⟨fl == "b", 0⟩⟩
            -- an unknown type is ignored by StoreMessage
            let st' := if m.ty = 0 then st else deliver p.table m st
            go st' rest (render p st st' :: acc)
          | none => none
        | _ => none
  go (fresh n self) events []

end TssVerif.Engine
