import TssVerif.Core.GoInt
/-! Elliptic curves as the library sees them (`crypto/ecpoint.go` over btcec's secp256k1 and
dcrd's edwards25519). A `Curve P` record carries the group operations on an internal point type `P`
and the affine view; the Go-level `ECPoint` API (`ecNew`, `ecAdd`, `ecScalarMult`, …) is defined
once, generically. Theorems quantify over every record satisfying `Curve.Lawful` (in Lemmas);
the driver instantiates `secp256k1` and `ed25519`, which are independent implementations of the
curve arithmetic written from the textbook formulas. Core Lean only. -/
namespace TssVerif

structure Curve (P : Type) where
  name : String
  /-- field prime -/
  p : Nat
  /-- order of the base point (`Params().N`) -/
  q : Nat
  zero : P
  add : P → P → P
  neg : P → P
  base : P
  /-- affine coordinates; `none` when the point has none (the identity of a Weierstrass curve) -/
  toAffine : P → Option (Nat × Nat)
  /-- the point with these affine coordinates, if they are canonical (`< p`) and satisfy the curve equation -/
  ofAffine : Nat → Nat → Option P
  beq : P → P → Bool

namespace Curve
variable {P : Type} (C : Curve P)

/-- scalar multiplication by double-and-add over the bits of `k`, most significant first -/
def smulBits : List Bool → P → P → P
  | [], _, acc => acc
  | b :: bs, pt, acc =>
    let d := C.add acc acc
    smulBits bs pt (if b then C.add d pt else d)

def smul (k : Nat) (pt : P) : P := if k = 0 then C.zero else C.smulBits (bitsMSB k) pt C.zero

end Curve

/-! ### Go-level API: an `ECPoint` holds two big integers -/

abbrev ECPoint := Nat × Nat

namespace Curve
variable {P : Type} (C : Curve P)

/-- `crypto.NewECPoint`: `none` = error (not on the curve) -/
def ecNew (x y : Nat) : Option ECPoint := (C.ofAffine x y).map fun _ => (x, y)

def ecIsOnCurve (a : ECPoint) : Bool := (C.ofAffine a.1 a.2).isSome

/-- internal point of coordinates assumed on the curve (callers guard) -/
def lift (a : ECPoint) : Option P := C.ofAffine a.1 a.2

/-- `(*ECPoint).Add`: error when the sum has no affine form on the curve (the identity of secp256k1);
`err` also when an operand is not on the curve (the real code computes garbage and then fails the check
with overwhelming probability; the harness never relies on that case) -/
def ecAdd (a b : ECPoint) : Outcome ECPoint :=
  match C.lift a, C.lift b with
  | some pa, some pb =>
    match C.toAffine (C.add pa pb) with
    | some r => .ok r
    | none => .err "not-on-curve"
  | _, _ => .err "operand-not-on-curve"

/-- `(*ECPoint).ScalarMult`: panics when the product is not an affine point of the curve -/
def ecScalarMult (a : ECPoint) (k : Int) : Outcome ECPoint :=
  match C.lift a with
  | some pa =>
    match C.toAffine (C.smul k.natAbs pa) with
    | some r => .ok r
    | none => .panic "scalar-mult-identity"
  | none => .err "operand-not-on-curve"

/-- `crypto.ScalarBaseMult(ec, k)` (Go passes `k.Bytes()`: the sign is dropped) -/
def ecBaseMult (k : Int) : Outcome ECPoint :=
  match C.toAffine (C.smul k.natAbs C.base) with
  | some r => .ok r
  | none => .panic "scalar-base-mult-identity"

/-- `crypto.UnFlattenECPoints` (with the curve check): `none` = error -/
def unflatten : List Nat → Option (List ECPoint)
  | [] => some []
  | [_] => none
  | x :: y :: rest =>
    match C.ecNew x y, unflatten rest with
    | some p, some ps => some (p :: ps)
    | _, _ => none

end Curve

/-- `crypto.FlattenECPoints` -/
def flatten (ps : List ECPoint) : List Nat := ps.flatMap fun p => [p.1, p.2]

/-- `(*ECPoint).Equals` on non-nil points: coordinate comparison -/
def ecEquals (a b : ECPoint) : Bool := a.1 == b.1 && a.2 == b.2

/-! ### secp256k1 (y² = x³ + 7 over F_p), affine, `none` = point at infinity -/
namespace Secp256k1

def p : Nat := 0xfffffffffffffffffffffffffffffffffffffffffffffffffffffffefffffc2f
def n : Nat := 0xfffffffffffffffffffffffffffffffebaaedce6af48a03bbfd25e8cd0364141
def gx : Nat := 0x79be667ef9dcbbac55a06295ce870b07029bfcdb2dce28d959f2815b16f81798
def gy : Nat := 0x483ada7726a3c4655da4fbfc0e1108a8fd17b448a68554199c47d08ffb10d4b8

abbrev Pt := Option (Nat × Nat)

def inv (a : Nat) : Nat := (modInverse a p).getD 0

def onCurve (x y : Nat) : Bool := x < p && y < p && (y * y % p == (x * x % p * x + 7) % p)

def double (a : Pt) : Pt :=
  match a with
  | none => none
  | some (x, y) =>
    if y = 0 then none else
    let l := 3 * x * x % p * inv (2 * y % p) % p
    let x3 := (l * l + 2 * (p - x)) % p
    let y3 := (l * (x + p - x3) + (p - y)) % p
    some (x3, y3)

def add (a b : Pt) : Pt :=
  match a, b with
  | none, _ => b
  | _, none => a
  | some (x1, y1), some (x2, y2) =>
    if x1 = x2 then
      if y1 = y2 then double a else none
    else
      let l := (y2 + p - y1) % p * inv ((x2 + p - x1) % p) % p
      let x3 := (l * l + (p - x1) + (p - x2)) % p
      let y3 := (l * (x1 + p - x3) + (p - y1)) % p
      some (x3, y3)

def neg (a : Pt) : Pt := a.map fun (x, y) => (x, (p - y) % p)

def curve : Curve Pt where
  name := "secp256k1"
  p := p
  q := n
  zero := none
  add := add
  neg := neg
  base := some (gx, gy)
  toAffine := id
  ofAffine := fun x y => if onCurve x y then some (some (x, y)) else none
  beq := fun a b => a == b

end Secp256k1

/-! ### edwards25519 (−x² + y² = 1 + d x² y²), affine; the identity is `(0, 1)` -/
namespace Ed25519

def p : Nat := 2 ^ 255 - 19
def l : Nat := 2 ^ 252 + 27742317777372353535851937790883648493
def d : Nat := 37095705934669439343138083508754565189542113879843219016388785533085940283555
def gx : Nat := 15112221349535400772501151409588531511454012693041857206046113283949847762202
def gy : Nat := 46316835694926478169428394003475163141307993866256225615783033603165251855960

abbrev Pt := Nat × Nat

def inv (a : Nat) : Nat := (modInverse a p).getD 0

def onCurve (x y : Nat) : Bool :=
  x < p && y < p && ((y * y + (p - x * x % p)) % p == (1 + d * (x * x % p) % p * (y * y % p)) % p)

def add (a b : Pt) : Pt :=
  let (x1, y1) := a
  let (x2, y2) := b
  let t := d * (x1 * x2 % p) % p * (y1 * y2 % p) % p
  let x3 := (x1 * y2 + x2 * y1) % p * inv ((1 + t) % p) % p
  let y3 := (y1 * y2 + x1 * x2) % p * inv ((1 + p - t) % p) % p
  (x3, y3)

def neg (a : Pt) : Pt := ((p - a.1) % p, a.2)

def curve : Curve Pt where
  name := "ed25519"
  p := p
  q := l
  zero := (0, 1)
  add := add
  neg := neg
  base := (gx, gy)
  toAffine := some
  ofAffine := fun x y => if onCurve x y then some (x, y) else none
  beq := fun a b => a == b

/-- `8⁻¹ mod l` as `crypto.eightInv` -/
def eightInv : Nat := (modInverse 8 l).getD 0

/-- `(*ECPoint).EightInvEight`: multiply by 8, then by `8⁻¹ mod l` -/
def eightInvEight (a : ECPoint) : Outcome ECPoint := do
  let e ← curve.ecScalarMult a 8
  curve.ecScalarMult e eightInv

end Ed25519

end TssVerif
