import TssVerif.Core.Outcome
/-! Go `math/big` partial operations as the library uses them (`common/int.go`): modular
exponentiation with negative exponents, modular inverse (`nil` ↦ `none`), Jacobi symbol,
integer square root. Core Lean only. -/
namespace TssVerif

/-- `x^e mod m` by binary exponentiation (structural on the bit list of `e`) -/
def modPowBits (x m : Nat) : List Bool → Nat → Nat
  | [], acc => acc
  | b :: bs, acc =>
    let sq := acc * acc % m
    modPowBits x m bs (if b then sq * x % m else sq)

/-- most significant bit first -/
def bitsMSB (e : Nat) : List Bool := (List.range e.log2.succ).reverse.map fun i => e.testBit i

def modPow (x e m : Nat) : Nat :=
  if m = 0 then x ^ e else if e = 0 then 1 % m else modPowBits (x % m) m (bitsMSB e) (1 % m)

/-- extended Euclid on `Int`, structural on fuel; returns `(g, s)` with `s * a ≡ g (mod n)` when called
as `xgcdAux fuel n a 0 1` -/
def xgcdAux : Nat → Int → Int → Int → Int → Int × Int
  | 0, r0, _, s0, _ => (r0, s0)
  | fuel + 1, r0, r1, s0, s1 =>
    if r1 = 0 then (r0, s0) else
      let qt := r0 / r1
      xgcdAux fuel r1 (r0 - qt * r1) s1 (s0 - qt * s1)

/-- Go `new(big.Int).ModInverse(a, n)`; `none` = Go returns nil (not invertible, or `n = 0`).
`a` may be any integer (Go reduces it first). The fuel `2·log2 n + 4` covers Euclid's step count. -/
def modInverse (a : Int) (n : Nat) : Option Nat :=
  if n = 0 then none else
  let a' := a % (n : Int)
  let (g, x) := xgcdAux (2 * n.log2 + 4) (n : Int) a' 0 1
  if g = 1 then some (x % (n : Int)).toNat else (if n = 1 then some 0 else none)

/-- Go `new(big.Int).Exp(x, y, m)` for `m > 0`; negative exponent goes through `ModInverse`,
`none` = nil result -/
def goExp (x : Int) (y : Int) (m : Nat) : Option Nat :=
  if m = 0 then none else
  let xr := (x % (m : Int)).toNat
  if y ≥ 0 then some (modPow xr y.toNat m)
  else match modInverse x m with
    | none => none
    | some inv => some (modPow inv (-y).toNat m)

/-- Go `x.Mod(x, m)` (Euclidean); `m = 0` panics in Go -/
def goMod (x : Int) (m : Nat) : Outcome Nat :=
  if m = 0 then .panic "mod-by-zero" else .ok (x % (m : Int)).toNat

/-- `common.IsInInterval(b, bound)`: `0 ≤ b < bound` -/
def isInInterval (b : Int) (bound : Int) : Bool := decide (b < bound) && decide (0 ≤ b)

def natGcd (a b : Nat) : Nat := Nat.gcd a b

/-- Jacobi symbol `(a/n)` for odd positive `n`; Go's `big.Jacobi` panics on even `n` -/
def jacobiAux : Nat → Nat → Nat → Int → Int
  | 0, _, _, _ => 0
  | fuel + 1, a, n, acc =>
    if a = 0 then (if n = 1 then acc else 0) else
    if a % 2 = 0 then
      let acc' := if n % 8 = 3 ∨ n % 8 = 5 then -acc else acc
      jacobiAux fuel (a / 2) n acc'
    else
      let acc' := if a % 4 = 3 ∧ n % 4 = 3 then -acc else acc
      jacobiAux fuel (n % a) a acc'

def goJacobi (a : Int) (n : Nat) : Outcome Int :=
  if n % 2 = 0 then .panic "jacobi-even" else
  .ok (jacobiAux (4 * n.log2 + 8) ((a % (n : Int)).toNat) n 1)

/-- bit length as `(*big.Int).BitLen()` -/
def bitLen (n : Nat) : Nat := if n = 0 then 0 else n.log2 + 1

/-- floor square root (Newton), `big.Int.Sqrt` -/
def isqrtAux : Nat → Nat → Nat → Nat
  | 0, _, x => x
  | fuel + 1, n, x =>
    let y := (x + n / x) / 2
    if y < x then isqrtAux fuel n y else x

def isqrt (n : Nat) : Nat := if n = 0 then 0 else isqrtAux (n.log2 + 2) n (2 ^ (n.log2 / 2 + 1))

end TssVerif
