import TssVerif.Core.Bytes
import TssVerif.Core.Outcome
/-! Text encoding of op arguments and results shared with the Go harness. -/
namespace TssVerif.Wire

/-- bytes: hex, `-` for empty -/
def pBytes (s : String) : Option Bytes := ofHex s

/-- non-negative integer: hex of the minimal big-endian bytes (leading zero bytes allowed) -/
def pNat (s : String) : Option Nat := (ofHex s).map bytesToNat

/-- signed integer: optional leading `n` -/
def pInt (s : String) : Option Int :=
  if s.startsWith "n" then (pNat (s.drop 1).toString).map fun n => -(n : Int)
  else (pNat s).map fun n => (n : Int)

def pList {α} (p : String → Option α) (s : String) : Option (List α) :=
  if s == "_" then some [] else (s.splitOn ",").mapM p

def pListList {α} (p : String → Option α) (s : String) : Option (List (List α)) :=
  if s == "!" then some [] else (s.splitOn "|").mapM (pList p)

def pDec (s : String) : Option Nat := s.toNat?

def rNat (n : Nat) : String := hexOrDash (natToBytesBE n)
def rInt (z : Int) : String := (if z < 0 then "n" else "") ++ rNat z.natAbs
def rBytes (b : Bytes) : String := hexOrDash b
def rList {α} (r : α → String) (l : List α) : String :=
  if l.isEmpty then "_" else ",".intercalate (l.map r)
def rListList {α} (r : α → String) (l : List (List α)) : String :=
  if l.isEmpty then "!" else "|".intercalate (l.map (rList r))
def rBool (b : Bool) : String := if b then "true" else "false"
def rOptNat : Option Nat → String
  | some n => rNat n
  | none => "nil"

end TssVerif.Wire
