import TssVerif.Core.Bytes
import TssVerif.Core.Sha512
/-! SHA-256 (FIPS 180-4), RIPEMD-160 (Dobbertin–Bosselaers–Preneel), HMAC-SHA512 (RFC 2104) and base58,
written from the specifications for the BIP32 model; core Lean only. -/
namespace TssVerif

namespace Sha256
def K : Array UInt32 := #[
  0x428a2f98, 0x71374491, 0xb5c0fbcf, 0xe9b5dba5, 0x3956c25b, 0x59f111f1, 0x923f82a4, 0xab1c5ed5,
  0xd807aa98, 0x12835b01, 0x243185be, 0x550c7dc3, 0x72be5d74, 0x80deb1fe, 0x9bdc06a7, 0xc19bf174,
  0xe49b69c1, 0xefbe4786, 0x0fc19dc6, 0x240ca1cc, 0x2de92c6f, 0x4a7484aa, 0x5cb0a9dc, 0x76f988da,
  0x983e5152, 0xa831c66d, 0xb00327c8, 0xbf597fc7, 0xc6e00bf3, 0xd5a79147, 0x06ca6351, 0x14292967,
  0x27b70a85, 0x2e1b2138, 0x4d2c6dfc, 0x53380d13, 0x650a7354, 0x766a0abb, 0x81c2c92e, 0x92722c85,
  0xa2bfe8a1, 0xa81a664b, 0xc24b8b70, 0xc76c51a3, 0xd192e819, 0xd6990624, 0xf40e3585, 0x106aa070,
  0x19a4c116, 0x1e376c08, 0x2748774c, 0x34b0bcb5, 0x391c0cb3, 0x4ed8aa4a, 0x5b9cca4f, 0x682e6ff3,
  0x748f82ee, 0x78a5636f, 0x84c87814, 0x8cc70208, 0x90befffa, 0xa4506ceb, 0xbef9a3f7, 0xc67178f2]
def iv : Array UInt32 := #[0x6a09e667, 0xbb67ae85, 0x3c6ef372, 0xa54ff53a, 0x510e527f, 0x9b05688c, 0x1f83d9ab, 0x5be0cd19]
@[inline] def rotr (x : UInt32) (n : UInt32) : UInt32 := (x >>> n) ||| (x <<< (32 - n))
def pad (msg : Bytes) : Bytes :=
  let l := msg.length
  let k := (64 - ((l + 9) % 64)) % 64
  msg ++ [0x80] ++ List.replicate k 0 ++ (List.range 8).map fun i => UInt8.ofNat ((l * 8 / 256 ^ (7 - i)) % 256)
def word (b : Array UInt8) (off : Nat) : UInt32 :=
  (List.range 4).foldl (fun acc i => (acc <<< 8) ||| (b.getD (off + i) 0).toUInt32) 0
def compress (h : Array UInt32) (b : Array UInt8) (off : Nat) : Array UInt32 := Id.run do
  let mut w : Array UInt32 := Array.mkEmpty 64
  for t in [0:16] do
    w := w.push (word b (off + 4 * t))
  for t in [16:64] do
    let w15 := w.getD (t - 15) 0
    let w2 := w.getD (t - 2) 0
    let s0 := rotr w15 7 ^^^ rotr w15 18 ^^^ (w15 >>> 3)
    let s1 := rotr w2 17 ^^^ rotr w2 19 ^^^ (w2 >>> 10)
    w := w.push (w.getD (t - 16) 0 + s0 + w.getD (t - 7) 0 + s1)
  let mut a := h.getD 0 0
  let mut bb := h.getD 1 0
  let mut c := h.getD 2 0
  let mut d := h.getD 3 0
  let mut e := h.getD 4 0
  let mut f := h.getD 5 0
  let mut g := h.getD 6 0
  let mut hh := h.getD 7 0
  for t in [0:64] do
    let S1 := rotr e 6 ^^^ rotr e 11 ^^^ rotr e 25
    let ch := (e &&& f) ^^^ ((~~~ e) &&& g)
    let t1 := hh + S1 + ch + K.getD t 0 + w.getD t 0
    let S0 := rotr a 2 ^^^ rotr a 13 ^^^ rotr a 22
    let maj := (a &&& bb) ^^^ (a &&& c) ^^^ (bb &&& c)
    let t2 := S0 + maj
    hh := g; g := f; f := e; e := d + t1
    d := c; c := bb; bb := a; a := t1 + t2
  return #[h.getD 0 0 + a, h.getD 1 0 + bb, h.getD 2 0 + c, h.getD 3 0 + d,
           h.getD 4 0 + e, h.getD 5 0 + f, h.getD 6 0 + g, h.getD 7 0 + hh]
def sha256 (msg : Bytes) : Bytes :=
  let p := (pad msg).toArray
  let h := (List.range (p.size / 64)).foldl (fun h i => compress h p (64 * i)) iv
  h.toList.flatMap fun w => (List.range 4).map fun i => (w >>> (UInt32.ofNat (8 * (3 - i)))).toUInt8
end Sha256

namespace Ripemd160
def rL : Array Nat := #[0,1,2,3,4,5,6,7,8,9,10,11,12,13,14,15, 7,4,13,1,10,6,15,3,12,0,9,5,2,14,11,8,
  3,10,14,4,9,15,8,1,2,7,0,6,13,11,5,12, 1,9,11,10,0,8,12,4,13,3,7,15,14,5,6,2, 4,0,5,9,7,12,2,10,14,1,3,8,11,6,15,13]
def rR : Array Nat := #[5,14,7,0,9,2,11,4,13,6,15,8,1,10,3,12, 6,11,3,7,0,13,5,10,14,15,8,12,4,9,1,2,
  15,5,1,3,7,14,6,9,11,8,12,2,10,0,4,13, 8,6,4,1,3,11,15,0,5,12,2,13,9,7,10,14, 12,15,10,4,1,5,8,7,6,2,13,14,0,3,9,11]
def sL : Array Nat := #[11,14,15,12,5,8,7,9,11,13,14,15,6,7,9,8, 7,6,8,13,11,9,7,15,7,12,15,9,11,7,13,12,
  11,13,6,7,14,9,13,15,14,8,13,6,5,12,7,5, 11,12,14,15,14,15,9,8,9,14,5,6,8,6,5,12, 9,15,5,11,6,8,13,12,5,12,13,14,11,8,5,6]
def sR : Array Nat := #[8,9,9,11,13,15,15,5,7,7,8,11,14,14,12,6, 9,13,15,7,12,8,9,11,7,7,12,7,6,15,13,11,
  9,7,15,11,8,6,6,14,12,13,5,14,13,13,7,5, 15,5,8,11,14,14,6,14,6,9,12,9,12,5,15,8, 8,5,12,9,12,5,14,6,8,13,6,5,15,13,11,11]
def kL : Array UInt32 := #[0x00000000, 0x5A827999, 0x6ED9EBA1, 0x8F1BBCDC, 0xA953FD4E]
def kR : Array UInt32 := #[0x50A28BE6, 0x5C4DD124, 0x6D703EF3, 0x7A6D76E9, 0x00000000]
def iv : Array UInt32 := #[0x67452301, 0xEFCDAB89, 0x98BADCFE, 0x10325476, 0xC3D2E1F0]
@[inline] def rol (x : UInt32) (n : Nat) : UInt32 := (x <<< UInt32.ofNat n) ||| (x >>> UInt32.ofNat (32 - n))
def f (j : Nat) (x y z : UInt32) : UInt32 :=
  if j < 16 then x ^^^ y ^^^ z
  else if j < 32 then (x &&& y) ||| ((~~~ x) &&& z)
  else if j < 48 then (x ||| (~~~ y)) ^^^ z
  else if j < 64 then (x &&& z) ||| (y &&& (~~~ z))
  else x ^^^ (y ||| (~~~ z))
def pad (msg : Bytes) : Bytes :=
  let l := msg.length
  let k := (64 - ((l + 9) % 64)) % 64
  msg ++ [0x80] ++ List.replicate k 0 ++ (List.range 8).map fun i => UInt8.ofNat ((l * 8 / 256 ^ i) % 256)
def wordLE (b : Array UInt8) (off : Nat) : UInt32 :=
  (List.range 4).foldl (fun acc i => acc ||| ((b.getD (off + i) 0).toUInt32 <<< UInt32.ofNat (8 * i))) 0
def compress (h : Array UInt32) (b : Array UInt8) (off : Nat) : Array UInt32 := Id.run do
  let x : Array UInt32 := ((List.range 16).map fun i => wordLE b (off + 4 * i)).toArray
  let mut al := h.getD 0 0
  let mut bl := h.getD 1 0
  let mut cl := h.getD 2 0
  let mut dl := h.getD 3 0
  let mut el := h.getD 4 0
  let mut ar := al
  let mut br := bl
  let mut cr := cl
  let mut dr := dl
  let mut er := el
  for j in [0:80] do
    let t := rol (al + f j bl cl dl + x.getD (rL.getD j 0) 0 + kL.getD (j / 16) 0) (sL.getD j 0) + el
    al := el; el := dl; dl := rol cl 10; cl := bl; bl := t
    let t2 := rol (ar + f (79 - j) br cr dr + x.getD (rR.getD j 0) 0 + kR.getD (j / 16) 0) (sR.getD j 0) + er
    ar := er; er := dr; dr := rol cr 10; cr := br; br := t2
  let t := h.getD 1 0 + cl + dr
  return #[t, h.getD 2 0 + dl + er, h.getD 3 0 + el + ar, h.getD 4 0 + al + br, h.getD 0 0 + bl + cr]
    |>.toList |> fun l => (match l with
      | [t0, h1, h2, h3, h4] => #[t0, h1, h2, h3, h4]
      | _ => #[])
def ripemd160 (msg : Bytes) : Bytes :=
  let p := (pad msg).toArray
  let h := (List.range (p.size / 64)).foldl (fun h i =>
    let r := compress h p (64 * i)
    -- compress returns [T, h1', h2', h3', h4'] with h0' = T per the specification's final rotation
    #[r.getD 0 0, r.getD 1 0, r.getD 2 0, r.getD 3 0, r.getD 4 0]) iv
  h.toList.flatMap fun w => (List.range 4).map fun i => (w >>> (UInt32.ofNat (8 * i))).toUInt8
end Ripemd160

/-- HMAC with SHA-512 (block size 128) -/
def hmacSha512 (key msg : Bytes) : Bytes :=
  let k0 := if key.length > 128 then Sha512.sha512 key else key
  let k := k0 ++ List.replicate (128 - k0.length) 0
  let ipad := k.map (· ^^^ 0x36)
  let opad := k.map (· ^^^ 0x5c)
  Sha512.sha512 (opad ++ Sha512.sha512 (ipad ++ msg))

namespace Base58
def alphabet : Array Char := "123456789ABCDEFGHJKLMNPQRSTUVWXYZabcdefghijkmnopqrstuvwxyz".toList.toArray
def digits : Nat → Nat → List Char → List Char
  | 0, _, acc => acc
  | fuel + 1, n, acc => if n = 0 then acc else digits fuel (n / 58) (alphabet.getD (n % 58) '?' :: acc)
def encode (b : Bytes) : String :=
  let zeros := (b.takeWhile (· == 0)).length
  let n := bytesToNat b
  String.ofList (List.replicate zeros '1' ++ digits (b.length * 2 + 2) n [])
end Base58

end TssVerif
