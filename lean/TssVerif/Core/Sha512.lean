import TssVerif.Core.Bytes
/-! SHA-512 and SHA-512/256 (FIPS 180-4), written from the standard; core Lean only. -/
namespace TssVerif.Sha512

def K : Array UInt64 := #[
  0x428a2f98d728ae22, 0x7137449123ef65cd, 0xb5c0fbcfec4d3b2f, 0xe9b5dba58189dbbc,
  0x3956c25bf348b538, 0x59f111f1b605d019, 0x923f82a4af194f9b, 0xab1c5ed5da6d8118,
  0xd807aa98a3030242, 0x12835b0145706fbe, 0x243185be4ee4b28c, 0x550c7dc3d5ffb4e2,
  0x72be5d74f27b896f, 0x80deb1fe3b1696b1, 0x9bdc06a725c71235, 0xc19bf174cf692694,
  0xe49b69c19ef14ad2, 0xefbe4786384f25e3, 0x0fc19dc68b8cd5b5, 0x240ca1cc77ac9c65,
  0x2de92c6f592b0275, 0x4a7484aa6ea6e483, 0x5cb0a9dcbd41fbd4, 0x76f988da831153b5,
  0x983e5152ee66dfab, 0xa831c66d2db43210, 0xb00327c898fb213f, 0xbf597fc7beef0ee4,
  0xc6e00bf33da88fc2, 0xd5a79147930aa725, 0x06ca6351e003826f, 0x142929670a0e6e70,
  0x27b70a8546d22ffc, 0x2e1b21385c26c926, 0x4d2c6dfc5ac42aed, 0x53380d139d95b3df,
  0x650a73548baf63de, 0x766a0abb3c77b2a8, 0x81c2c92e47edaee6, 0x92722c851482353b,
  0xa2bfe8a14cf10364, 0xa81a664bbc423001, 0xc24b8b70d0f89791, 0xc76c51a30654be30,
  0xd192e819d6ef5218, 0xd69906245565a910, 0xf40e35855771202a, 0x106aa07032bbd1b8,
  0x19a4c116b8d2d0c8, 0x1e376c085141ab53, 0x2748774cdf8eeb99, 0x34b0bcb5e19b48a8,
  0x391c0cb3c5c95a63, 0x4ed8aa4ae3418acb, 0x5b9cca4f7763e373, 0x682e6ff3d6b2b8a3,
  0x748f82ee5defb2fc, 0x78a5636f43172f60, 0x84c87814a1f0ab72, 0x8cc702081a6439ec,
  0x90befffa23631e28, 0xa4506cebde82bde9, 0xbef9a3f7b2c67915, 0xc67178f2e372532b,
  0xca273eceea26619c, 0xd186b8c721c0c207, 0xeada7dd6cde0eb1e, 0xf57d4f7fee6ed178,
  0x06f067aa72176fba, 0x0a637dc5a2c898a6, 0x113f9804bef90dae, 0x1b710b35131c471b,
  0x28db77f523047d84, 0x32caab7b40c72493, 0x3c9ebe0a15c9bebc, 0x431d67c49c100d4c,
  0x4cc5d4becb3e42b6, 0x597f299cfc657e2a, 0x5fcb6fab3ad6faec, 0x6c44198c4a475817]

def iv512 : Array UInt64 := #[
  0x6a09e667f3bcc908, 0xbb67ae8584caa73b, 0x3c6ef372fe94f82b, 0xa54ff53a5f1d36f1,
  0x510e527fade682d1, 0x9b05688c2b3e6c1f, 0x1f83d9abfb41bd6b, 0x5be0cd19137e2179]

def iv512_256 : Array UInt64 := #[
  0x22312194FC2BF72C, 0x9F555FA3C84C64C2, 0x2393B86B6F53B151, 0x963877195940EABD,
  0x96283EE2A88EFFE3, 0xBE5E1E2553863992, 0x2B0199FC2C85B8AA, 0x0EB72DDC81C52CA2]

@[inline] def rotr (x : UInt64) (n : UInt64) : UInt64 := (x >>> n) ||| (x <<< (64 - n))

def pad (msg : Bytes) : Bytes :=
  let l := msg.length
  let k := (128 - ((l + 17) % 128)) % 128
  let lenBits := l * 8
  msg ++ [0x80] ++ List.replicate k 0 ++
    (List.range 16).map fun i => UInt8.ofNat ((lenBits / 256 ^ (15 - i)) % 256)

def word (b : Array UInt8) (off : Nat) : UInt64 :=
  (List.range 8).foldl (fun acc i => (acc <<< 8) ||| (b.getD (off + i) 0).toUInt64) 0

def schedule (b : Array UInt8) (off : Nat) : Array UInt64 := Id.run do
  let mut w : Array UInt64 := Array.mkEmpty 80
  for t in [0:16] do
    w := w.push (word b (off + 8 * t))
  for t in [16:80] do
    let w15 := w.getD (t - 15) 0
    let w2 := w.getD (t - 2) 0
    let s0 := rotr w15 1 ^^^ rotr w15 8 ^^^ (w15 >>> 7)
    let s1 := rotr w2 19 ^^^ rotr w2 61 ^^^ (w2 >>> 6)
    w := w.push (w.getD (t - 16) 0 + s0 + w.getD (t - 7) 0 + s1)
  return w

def compress (h : Array UInt64) (b : Array UInt8) (off : Nat) : Array UInt64 := Id.run do
  let w := schedule b off
  let mut a := h.getD 0 0
  let mut bb := h.getD 1 0
  let mut c := h.getD 2 0
  let mut d := h.getD 3 0
  let mut e := h.getD 4 0
  let mut f := h.getD 5 0
  let mut g := h.getD 6 0
  let mut hh := h.getD 7 0
  for t in [0:80] do
    let S1 := rotr e 14 ^^^ rotr e 18 ^^^ rotr e 41
    let ch := (e &&& f) ^^^ ((~~~ e) &&& g)
    let t1 := hh + S1 + ch + K.getD t 0 + w.getD t 0
    let S0 := rotr a 28 ^^^ rotr a 34 ^^^ rotr a 39
    let maj := (a &&& bb) ^^^ (a &&& c) ^^^ (bb &&& c)
    let t2 := S0 + maj
    hh := g; g := f; f := e; e := d + t1
    d := c; c := bb; bb := a; a := t1 + t2
  return #[h.getD 0 0 + a, h.getD 1 0 + bb, h.getD 2 0 + c, h.getD 3 0 + d,
           h.getD 4 0 + e, h.getD 5 0 + f, h.getD 6 0 + g, h.getD 7 0 + hh]

def wordBytes (w : UInt64) : Bytes :=
  (List.range 8).map fun i => (w >>> (UInt64.ofNat (8 * (7 - i)))).toUInt8

def digest (iv : Array UInt64) (outWords : Nat) (msg : Bytes) : Bytes :=
  let p := (pad msg).toArray
  let nblocks := p.size / 128
  let h := (List.range nblocks).foldl (fun h i => compress h p (128 * i)) iv
  (h.toList.take outWords).flatMap wordBytes

def sha512 (msg : Bytes) : Bytes := digest iv512 8 msg
def sha512_256 (msg : Bytes) : Bytes := digest iv512_256 4 msg

end TssVerif.Sha512
