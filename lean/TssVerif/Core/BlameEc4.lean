import TssVerif.Core.BlameEc
/-! `ecdsa/keygen/round_4.go`: the last round of ECDSA key generation. Every peer's Paillier key-correctness proof
(`KGRound3Message`) is verified against the modulus saved for that peer in round 2, the peer's party key and the
group public key; every peer whose proof is not accepted (a verifier error counts as not accepted) is named, in index
order; with no culprit the party emits its key data. -/
namespace TssVerif
namespace BlameEc

variable (H : HashFn)

/-- what peer `idx` contributed: the Paillier modulus saved for it in round 2, its party key (`PartyID.Key` as a
number), and the 13 numbers of its proof -/
structure R3Peer where
  idx : Nat
  paillierN : Nat
  partyKey : Nat
  proof : List Nat
deriving Repr, DecidableEq

/-- one peer's goroutine: `true` = accepted -/
def kg4Peer (pcfg : Paillier.ProofCfg) (ecdsaPub : ECPoint) (p : R3Peer) : Outcome Bool :=
  match Paillier.proofVerify pcfg H (p.proof.map Int.ofNat) p.paillierN p.partyKey ecdsaPub with
  | .ok b => .ok b
  | .err _ => .ok false
  | .panic e => .panic e

/-- round 4 up to the culprit decision (`[]` = the key data is emitted) -/
def kgRound4 (pcfg : Paillier.ProofCfg) (ecdsaPub : ECPoint) (peers : List R3Peer) : Outcome (List Nat) := do
  let verdicts ← peers.mapM (kg4Peer H pcfg ecdsaPub)
  .ok ((peers.zip verdicts).filterMap fun (p, ok) => if ok then none else some p.idx)

end BlameEc
end TssVerif
