import TssVerif.Core.BlameSg
/-! `ecdsa/signing/round_9.go`: the last check before a signer reveals its share `s_i`. Every peer's commitment
(`SignRound7Message`) is opened (`SignRound8Message`) to the coordinates of `U_j` and `T_j`; the sums
`U = U_i + Σ U_j` and `T = T_i + Σ T_j` must be equal. `checkPoints = true` is the tree after the repair
(`U_j`, `T_j` must be points of the curve, else the sender is named); `false` is the tree before it, where the
coordinates went into the curve's raw addition unchecked: what that computes for coordinates off the curve is not
specified, the outcome is then an unequal pair except with negligible probability, and the party names itself —
that case is modelled as exactly this self-blame. -/
namespace TssVerif
namespace BlameSg

variable {P : Type} (C : Curve P) (H : HashFn)

/-- peer `idx`'s commitment (`SignRound7Message`) and its opening (`SignRound8Message`) -/
structure R8Peer where
  idx : Nat
  commitment : Nat
  decommitment : List Nat
deriving Repr, DecidableEq

/-- the loop of round 9 over the peers in index order, on the running sums (internal points) -/
def round9Go (checkPoints : Bool) (ownIdx : Nat) (u t : P) : List R8Peer → Outcome (Res Unit)
  | [] => if C.toAffine u == C.toAffine t then .ok (.pass ()) else .ok (.fail "U doesn't equal T" ownIdx)
  | p :: rest =>
    match decommitWith H p.commitment (p.decommitment.map Int.ofNat) with
    | .panic e => .panic e
    | .err e => .err e
    | .ok none => .ok (.fail "de-commitment for bigVj and bigAj failed" p.idx)
    | .ok (some v) =>
      -- `!ok && len(values) != 4` lets an opening of another length through; fewer than four values crash at
      -- `values[3]` (`SignRound8Message.ValidateBasic` only lets five-part openings, i.e. four values, through)
      if v.length < 4 then .panic "index-out-of-range" else
      match C.ofAffine (v.getD 0 0).toNat (v.getD 1 0).toNat with
      | none => if checkPoints then .ok (.fail "NewECPoint(Uj)" p.idx) else .ok (.fail "U doesn't equal T" ownIdx)
      | some uj =>
        match C.ofAffine (v.getD 2 0).toNat (v.getD 3 0).toNat with
        | none => if checkPoints then .ok (.fail "NewECPoint(Tj)" p.idx) else .ok (.fail "U doesn't equal T" ownIdx)
        | some tj => round9Go checkPoints ownIdx (C.add u uj) (C.add t tj) rest

/-- round 9 up to the decision to reveal `s_i` (`pass`) or to report an error -/
def round9 (checkPoints : Bool) (ownIdx : Nat) (ownU ownT : ECPoint) (peers : List R8Peer) : Outcome (Res Unit) :=
  match C.lift ownU, C.lift ownT with
  | some u, some t => round9Go C H checkPoints ownIdx u t peers
  | _, _ => .err "own-point-not-on-curve"

end BlameSg
end TssVerif
