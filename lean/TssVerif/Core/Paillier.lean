import TssVerif.Core.GoInt
import TssVerif.Core.Hash
import TssVerif.Core.Curve
/-! `crypto/paillier/paillier.go`. Definitions are shaped like the Go code: `%`, truncated
subtraction and integer division in `L`, `ModInverse` as `Option`. -/
namespace TssVerif
namespace Paillier

structure PrivateKey where
  n : Nat
  lambdaN : Nat
  phiN : Nat
  p : Nat
  q : Nat
deriving Repr

def nSquare (n : Nat) : Nat := n * n
def gamma (n : Nat) : Nat := n + 1

/-- `EncryptAndReturnRandomness` with the sampled `x` given -/
def encryptWith (n : Nat) (m : Int) (x : Nat) : Outcome Nat :=
  if m < 0 ∨ m ≥ (n : Int) then .err "message-too-long" else
  let n2 := nSquare n
  let gm := modPow (gamma n) m.toNat n2
  let xn := modPow x n n2
  .ok (gm * xn % n2)

def homoMult (n : Nat) (m : Int) (c1 : Int) : Outcome Nat :=
  if m < 0 ∨ m ≥ (n : Int) then .err "message-too-long" else
  let n2 := nSquare n
  if c1 < 0 ∨ c1 ≥ (n2 : Int) then .err "message-too-long" else
  .ok (modPow c1.toNat m.toNat n2)

def homoAdd (n : Nat) (c1 c2 : Int) : Outcome Nat :=
  let n2 := nSquare n
  if c1 < 0 ∨ c1 ≥ (n2 : Int) then .err "message-too-long" else
  if c2 < 0 ∨ c2 ≥ (n2 : Int) then .err "message-too-long" else
  .ok (c1.toNat * c2.toNat % n2)

/-- `L(u, N) = (u − 1) / N` (Go `Div` is Euclidean; `u ≥ 1` in every use, so truncated subtraction agrees
except for `u = 0`, where Go gives `−1 / N = −1`; modelled as an explicit case) -/
def L (u n : Nat) : Int := if u = 0 then -1 else (((u - 1) / n : Nat) : Int)

/-- `(*PrivateKey).Decrypt` -/
def decrypt (sk : PrivateKey) (c : Int) : Outcome Nat :=
  let n2 := nSquare sk.n
  if c < 0 ∨ c ≥ (n2 : Int) then .err "message-too-long" else
  if Nat.gcd c.toNat n2 > 1 then .err "message-malformed" else
  let lc := L (modPow c.toNat sk.lambdaN n2) sk.n
  let lg := L (modPow (gamma sk.n) sk.lambdaN n2) sk.n
  match modInverse lg sk.n with
  | none => .panic "nil-mod-inverse"
  | some inv => .ok ((lc * (inv : Int)) % (sk.n : Int)).toNat

/-- decimal digits as `strconv.Itoa` -/
def itoa (n : Nat) : Bytes := (toString n).toUTF8.toList

def isNumberInMultiplicativeGroup (n : Int) (v : Nat) : Bool :=
  decide (0 < n) && decide ((v : Int) < n) && decide (1 ≤ v) && (Nat.gcd v n.toNat == 1)

/-- one candidate `x` of `GenerateXs` for counters `(i, n)` -/
def xsCandidate (H : HashFn) (i cnt : Nat) (kb sxb syb nb : Bytes) (blocks : Nat) : Nat :=
  bytesToNat ((List.range blocks).flatMap fun j => H (frame [itoa i, itoa j, itoa cnt, kb, sxb, syb, nb]))

def maxXsRejections : Nat := 1000

/-- `GenerateXs(m, k, N, pub)`. `none` = the Go function returns nil after more than
`maxXsRejections` rejected candidates (before the K10 repair: the loop never terminated). -/
def generateXsLoop (H : HashFn) (m : Nat) (kb sxb syb nb : Bytes) (nInt : Int) (blocks : Nat) :
    Nat → Nat → Nat → List Nat → Option (List Nat)
  | 0, _, _, _ => none
  | fuel + 1, i, cnt, acc =>
    if i ≥ m then some acc.reverse else
    let x := xsCandidate H i cnt kb sxb syb nb blocks
    if isNumberInMultiplicativeGroup nInt x then generateXsLoop H m kb sxb syb nb nInt blocks fuel (i + 1) cnt (x :: acc)
    else if cnt + 1 > maxXsRejections then none
    else generateXsLoop H m kb sxb syb nb nInt blocks fuel i (cnt + 1) acc

def generateXs (H : HashFn) (m : Nat) (k : Int) (n : Int) (pub : ECPoint) : Option (List Nat) :=
  let bits := bitLen n.natAbs
  let blocks := (bits + 255) / 256
  generateXsLoop H m (intToBytesBE k) (natToBytesBE pub.1) (natToBytesBE pub.2) (intToBytesBE n) n blocks
    (m + maxXsRejections + 2) 0 0 []

def proofIters : Nat := 13

/-- `(*PrivateKey).Proof`; `none` = nil from `ModInverse(N, φ)` used by `Exp` (panic) -/
def proof (H : HashFn) (sk : PrivateKey) (k : Int) (pub : ECPoint) : Outcome (List Nat) :=
  match generateXs H proofIters k sk.n pub with
  | none => .panic "index-out-of-range"
  | some xs =>
    match modInverse sk.n sk.phiN with
    | none => .panic "nil-mod-inverse"
    | some mInv => .ok (xs.map fun x => modPow x mInv sk.n)

def smallPrimes : List Nat :=
  (List.range 1000).filter fun n => n ≥ 2 && (List.range n).all fun d => d < 2 || n % d != 0

structure ProofCfg where
  boundedXs : Bool   -- K10 repair: `GenerateXs` gives up instead of looping forever

/-- `Proof.Verify(pkN, k, pub)`. `err "hang"` stands for the non-terminating `GenerateXs` loop. -/
def proofVerify (cfg : ProofCfg) (H : HashFn) (pf : List Int) (pkN : Int) (k : Int) (pub : ECPoint) : Outcome Bool :=
  if smallPrimes.any (fun prm => pkN % (prm : Int) == 0) then .ok false else
  match generateXs H proofIters k pkN pub with
  | none => if cfg.boundedXs then .err "xs" else .err "hang"
  | some xs =>
    if pf.length != proofIters then .panic "index" else
    .ok ((List.range proofIters).all fun i =>
      let xi := ((xs.getD i 0 : Int) % pkN)
      match goExp (pf.getD i 0) pkN pkN.natAbs with
      | some y => xi == (y : Int)
      | none => false)

end Paillier
end TssVerif
