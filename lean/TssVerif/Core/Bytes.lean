/-! Byte strings and Go `big.Int` byte conventions (core Lean only). -/
namespace TssVerif

abbrev Bytes := List UInt8

/-- little-endian base-256 digits, least significant first; `0 ↦ []` -/
def natToBytesLE (n : Nat) : Bytes :=
  if h : n = 0 then [] else (UInt8.ofNat (n % 256)) :: natToBytesLE (n / 256)
termination_by n
decreasing_by omega

/-- Go `(*big.Int).Bytes()` of a non-negative value: minimal big-endian, `0 ↦ []` -/
def natToBytesBE (n : Nat) : Bytes := (natToBytesLE n).reverse

/-- Go `(*big.Int).Bytes()`: the sign is dropped -/
def intToBytesBE (z : Int) : Bytes := natToBytesBE z.natAbs

/-- Go `new(big.Int).SetBytes(b)` -/
def bytesToNat (b : Bytes) : Nat := b.foldl (fun acc x => acc * 256 + x.toNat) 0

/-- `binary.LittleEndian.PutUint64` of `n mod 2^64` -/
def le64 (n : Nat) : Bytes := (List.range 8).map fun i => UInt8.ofNat ((n / 256 ^ i) % 256)

/-- decode 8 little-endian bytes -/
def le64Decode (b : Bytes) : Nat := (b.take 8).foldr (fun x acc => x.toNat + 256 * acc) 0

/-- left-pad with zero bytes to `len` (no truncation) -/
def padLeft (len : Nat) (b : Bytes) : Bytes := List.replicate (len - b.length) 0 ++ b

def hexDigit (n : Nat) : Char :=
  if n < 10 then Char.ofNat (48 + n) else Char.ofNat (87 + n)

def toHex (b : Bytes) : String :=
  String.ofList (b.flatMap fun x => [hexDigit (x.toNat / 16), hexDigit (x.toNat % 16)])

def hexVal (c : Char) : Option Nat :=
  if '0' ≤ c ∧ c ≤ '9' then some (c.toNat - 48)
  else if 'a' ≤ c ∧ c ≤ 'f' then some (c.toNat - 87)
  else if 'A' ≤ c ∧ c ≤ 'F' then some (c.toNat - 55)
  else none

def ofHexAux : List Char → Bytes → Option Bytes
  | [], acc => some acc.reverse
  | [_], _ => none
  | a :: b :: rest, acc =>
    match hexVal a, hexVal b with
    | some x, some y => ofHexAux rest (UInt8.ofNat (16 * x + y) :: acc)
    | _, _ => none

/-- parse a hex string; `"-"` denotes the empty string -/
def ofHex (s : String) : Option Bytes :=
  if s == "-" then some [] else ofHexAux s.toList []

def hexOrDash (b : Bytes) : String := if b.isEmpty then "-" else toHex b

end TssVerif
