import TssVerif.Core.Bytes
import TssVerif.Core.Sha512
/-! `common/hash.go`: length-framed multi-input hashing. The digest function is a parameter
(`H`) so that theorems quantify over every hash; the driver instantiates SHA-512/256. -/
namespace TssVerif

/-- one framed element: bytes, delimiter `$`, 8-byte little-endian length -/
def frameElem (b : Bytes) : Bytes := b ++ [0x24] ++ le64 b.length

/-- the byte string `SHA512_256` / `SHA512_256i` feed to the hash: count prefix then framed elements -/
def frame (xs : List Bytes) : Bytes := le64 xs.length ++ (xs.map frameElem).flatten

abbrev HashFn := Bytes → Bytes

/-- `common.SHA512_256(in...)`; `none` = Go returns nil (no inputs) -/
def sha512_256With (H : HashFn) (xs : List Bytes) : Option Bytes :=
  if xs.isEmpty then none else some (H (frame xs))

/-- `common.SHA512_256i(in...)` on integers (sign dropped by `Bytes()`) -/
def sha512_256iWith (H : HashFn) (ns : List Int) : Option Nat :=
  if ns.isEmpty then none else some (bytesToNat (H (frame (ns.map intToBytesBE))))

/-- the byte string `SHA512_256i_TAGGED` feeds to the hash: the tag digest twice, then the framed inputs -/
def taggedPreimage (H : HashFn) (tag : Bytes) (ns : List Int) : Bytes :=
  H (frame [tag]) ++ H (frame [tag]) ++ frame (ns.map intToBytesBE)

/-- `common.SHA512_256i_TAGGED(tag, in...)` -/
def sha512_256iTaggedWith (H : HashFn) (tag : Bytes) (ns : List Int) : Option Nat :=
  if ns.isEmpty then none else some (bytesToNat (H (taggedPreimage H tag ns)))

/-- `common.SHA512_256iOne` -/
def sha512_256iOneWith (H : HashFn) (n : Int) : Nat := bytesToNat (H (intToBytesBE n))

/-- `common.RejectionSample`: just a reduction -/
def rejectionSample (q : Nat) (h : Nat) : Nat := h % q

def sha512_256 := sha512_256With Sha512.sha512_256
def sha512_256i := sha512_256iWith Sha512.sha512_256
def sha512_256iTagged := sha512_256iTaggedWith Sha512.sha512_256
def sha512_256iOne := sha512_256iOneWith Sha512.sha512_256

end TssVerif
