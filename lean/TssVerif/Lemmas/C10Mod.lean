import TssVerif.Lemmas.C10Num
import TssVerif.Lemmas.Paillier
import Mathlib.Data.ZMod.Basic
import Mathlib.FieldTheory.Finite.Basic
import Mathlib.NumberTheory.LegendreSymbol.JacobiSymbol
/-! Completeness of the Paillier-Blum modulus proof (`crypto/modproof`).

* `mod_complete_partial`: completeness with the quadratic-residuosity number theory isolated in the single
  hypothesis `FourthRootFact` (no assumption `p ≡ q ≡ 3 (mod 4)`).
* `goJacobi_eq_jacobiSym`: the model's binary Jacobi algorithm computes Mathlib's `jacobiSym` for every odd modulus.
* `fourthRootFact_of_blum`: `FourthRootFact` is a theorem for Blum integers and `w` with Jacobi symbol `-1`.
* `mod_complete`: completeness without any number-theoretic assumption.
* `modCanonRoot_pos/_lt/_two_le`, `modPow_canonRoot`: the representative `min(x, N − x)` the prover sends is in
  `(0, N/2]` and has the same fourth power (`sub_pow_four_mod`), so the canonical-root check of the verifier passes.
* `mod_complete_77`, `mod_complete_77'`: the hypotheses are satisfiable (`n = 7·11`). -/
set_option autoImplicit false
namespace TssVerif.C10L
open TssVerif Zk
open scoped NumberTheorySymbols

/-! ### the bit vectors `A`, `B` -/

/-- the low part `Σ_{i<m} f i · 2^i` -/
theorem bits_foldl_shift (f : Nat → Nat) (m c : Nat) :
    (List.range m).foldl (fun acc i => acc + f i * 2 ^ i) c =
      c + (List.range m).foldl (fun acc i => acc + f i * 2 ^ i) 0 := by
  induction m with
  | zero => simp
  | succ m ih =>
    rw [List.range_succ, List.foldl_append, List.foldl_append, ih]
    simp only [List.foldl_cons, List.foldl_nil]
    omega

theorem bits_low (f : Nat → Nat) (m : Nat) (hf : ∀ i, i < m → f i ≤ 1) :
    (List.range m).foldl (fun acc i => acc + f i * 2 ^ i) 0 < 2 ^ m ∧
    ∀ i, i < m → ((List.range m).foldl (fun acc i => acc + f i * 2 ^ i) 0).testBit i = decide (f i = 1) := by
  induction m with
  | zero => simp
  | succ m ih =>
    obtain ⟨h1, h2⟩ := ih (fun i hi => hf i (by omega))
    rw [List.range_succ, List.foldl_append]
    simp only [List.foldl_cons, List.foldl_nil]
    set S := (List.range m).foldl (fun acc i => acc + f i * 2 ^ i) 0 with hS
    have hm := hf m (by omega)
    constructor
    · have : f m * 2 ^ m ≤ 1 * 2 ^ m := Nat.mul_le_mul_right _ hm
      rw [pow_succ]; omega
    · intro i hi
      have e : S + f m * 2 ^ m = 2 ^ m * f m + S := by rw [Nat.mul_comm, Nat.add_comm]
      rw [e, Nat.testBit_two_pow_mul_add _ h1]
      by_cases him : i < m
      · rw [if_pos him]; exact h2 i him
      · have : i = m := by omega
        subst this
        rw [if_neg him, Nat.sub_self]
        have : f i = 0 ∨ f i = 1 := by omega
        rcases this with h | h <;> rw [h] <;> rfl

/-- `2^m + Σ_{i<m} f i · 2^i` with `f i ∈ {0,1}` has `m+1` bits and bit `i` is `f i` -/
theorem bits_spec (f : Nat → Nat) (m : Nat) (hf : ∀ i, i < m → f i ≤ 1) :
    bitLen ((List.range m).foldl (fun acc i => acc + f i * 2 ^ i) (2 ^ m)) = m + 1 ∧
    ∀ i, i < m → ((List.range m).foldl (fun acc i => acc + f i * 2 ^ i) (2 ^ m)).testBit i = decide (f i = 1) := by
  obtain ⟨h1, h2⟩ := bits_low f m hf
  rw [bits_foldl_shift]
  constructor
  · apply PaillierL.bitLen_eq_of_bounds (by omega)
    · simp
    · rw [pow_succ]; omega
  · intro i hi
    rw [Nat.testBit_two_pow_add_gt hi]
    exact h2 i hi

/-! ### the `n`-th root `z = y^(n⁻¹ mod φ)` -/

theorem nth_root_spec {n phi invN y : Nat} (hphi : 1 < phi) (htot : Nat.totient n = phi)
    (hinv : n * invN % phi = 1 % phi) (hy : Nat.Coprime y n) (hyn : y < n) :
    modPow (modPow y invN n) n n = y := by
  rw [modPow_spec, modPow_spec, ← Nat.pow_mod, ← pow_mul]
  rw [Nat.mod_eq_of_lt hphi] at hinv
  have e : invN * n = phi * (n * invN / phi) + 1 := by
    have := Nat.div_add_mod (n * invN) phi
    rw [Nat.mul_comm invN n]; omega
  have h1 : y ^ phi ≡ 1 [MOD n] := htot ▸ Nat.ModEq.pow_totient hy
  have h2 : y ^ (invN * n) ≡ y [MOD n] := by
    rw [e, pow_succ, pow_mul]
    simpa using (h1.pow _).mul_right y
  have := h2
  rw [Nat.ModEq, Nat.mod_eq_of_lt hyn] at this
  exact this

/-! ### the prover's candidate search -/

/-- the candidate the prover tries for index `j ∈ {0,1,2,3}`: `y`, `-y`, `w·y`, `-w·y` (mod `n`), exactly as
`pickJ` computes it (`a = j & 1` selects the sign, `b = (j >> 1) & 1` the factor `w`) -/
def modCand (n w y j : Nat) : Nat :=
  let y1 := if j % 2 > 0 then ((-1 : Int) * (y : Int) % (n : Int)).toNat else y
  if j / 2 % 2 > 0 then w * y1 % n else y1

/-- the fourth-root exponent `((φ+4)/8)² mod φ` -/
def modExpo (p q : Nat) : Nat := ((p - 1) * (q - 1) + 4) / 8 * (((p - 1) * (q - 1) + 4) / 8) % ((p - 1) * (q - 1))

theorem pickJ_cons (n p q w expo y j : Nat) (js : List Nat) (v1 v2 : Int)
    (h1 : goJacobi (modCand n w y j : Nat) p = .ok v1) (h2 : goJacobi (modCand n w y j : Nat) q = .ok v2) :
    modProveRaw.pickJ n p q w expo y (j :: js) =
      if v1 = 1 ∧ v2 = 1 then .ok (modPow (modCand n w y j) expo n, j % 2, j / 2 % 2)
      else modProveRaw.pickJ n p q w expo y js := by
  rw [modProveRaw.pickJ]
  unfold modCand at h1 h2 ⊢
  simp only at h1 h2 ⊢
  rw [h1, h2]
  split
  · rename_i e1 e2
    cases e1; cases e2
    simp only [and_self, if_true]
  · rename_i e1; cases e1
  · rename_i e2 _; cases e2
  · rename_i hne
    rw [if_neg]
    rintro ⟨rfl, rfl⟩
    exact hne rfl rfl

theorem goJacobi_odd (a : Int) {m : Nat} (hm : m % 2 = 1) :
    goJacobi a m = .ok (jacobiAux (4 * m.log2 + 8) ((a % (m : Int)).toNat) m 1) := by
  unfold goJacobi
  rw [if_neg (by omega)]

/-- Jacobi symbol of `0` is not `1` (modulus `≠ 1`) -/
theorem goJacobi_zero_ne_one {m : Nat} (hm1 : m ≠ 1) : goJacobi ((0 : Nat) : Int) m ≠ .ok 1 := by
  unfold goJacobi
  split
  · intro h; cases h
  · have : 4 * m.log2 + 8 = (4 * m.log2 + 7) + 1 := rfl
    rw [this, jacobiAux]
    simp [hm1]

/-- `pickJ` returns the first candidate whose Jacobi symbols modulo `p` and `q` are both `1` -/
theorem pickJ_spec (n p q w expo y : Nat) (hp : p % 2 = 1) (hq : q % 2 = 1) (js : List Nat)
    (h : ∃ j ∈ js, goJacobi (modCand n w y j : Nat) p = .ok 1 ∧ goJacobi (modCand n w y j : Nat) q = .ok 1) :
    ∃ j ∈ js, goJacobi (modCand n w y j : Nat) p = .ok 1 ∧ goJacobi (modCand n w y j : Nat) q = .ok 1 ∧
      modProveRaw.pickJ n p q w expo y js = .ok (modPow (modCand n w y j) expo n, j % 2, j / 2 % 2) := by
  induction js with
  | nil => obtain ⟨j, hj, _⟩ := h; cases hj
  | cons j js ih =>
    have h1 := goJacobi_odd (modCand n w y j : Nat) hp
    have h2 := goJacobi_odd (modCand n w y j : Nat) hq
    rw [pickJ_cons n p q w expo y j js _ _ h1 h2]
    split
    · rename_i hv
      refine ⟨j, List.mem_cons_self .., ?_, ?_, rfl⟩
      · rw [h1, hv.1]
      · rw [h2, hv.2]
    · rename_i hv
      obtain ⟨j0, hj0, ha, hb⟩ := h
      rcases List.mem_cons.1 hj0 with rfl | hmem
      · exfalso; apply hv
        rw [h1] at ha; rw [h2] at hb
        exact ⟨by injection ha, by injection hb⟩
      · obtain ⟨j1, hj1, r⟩ := ih ⟨j0, hmem, ha, hb⟩
        exact ⟨j1, List.mem_cons_of_mem _ hj1, r⟩

/-- the prover's choice `(x, a, b)` for the challenge `y` (default where the Go code leaves `X[i]` nil) -/
def modPick (n p q w y : Nat) : Nat × Nat × Nat :=
  match modProveRaw.pickJ n p q w (modExpo p q) y [0, 1, 2, 3] with
  | .ok r => r
  | _ => (0, 0, 0)

/-! ### the statement -/

/-- THE number-theoretic fact about Blum integers that is assumed, stated for the model's `goJacobi`:
for every unit `y < n`, (i) at least one of the four candidates has Jacobi symbol `1` modulo both `p` and `q`
(as computed by `goJacobi`), and (ii) every candidate that has, satisfies `(c ^ expo) ^ 4 ≡ c (mod n)` with
`expo = ((φ+4)/8)² mod φ`, `φ = (p-1)(q-1)`. -/
def FourthRootFact (n p q w : Nat) : Prop :=
  ∀ y, y < n → Nat.Coprime y n →
    (∃ j, j < 4 ∧ goJacobi (modCand n w y j : Nat) p = .ok 1 ∧ goJacobi (modCand n w y j : Nat) q = .ok 1) ∧
    (∀ j, j < 4 → goJacobi (modCand n w y j : Nat) p = .ok 1 → goJacobi (modCand n w y j : Nat) q = .ok 1 →
      (modCand n w y j ^ modExpo p q) ^ 4 ≡ modCand n w y j [MOD n])

/-- `FourthRootFact` is a finite statement, hence decidable (used for the concrete example below) -/
instance (n p q w : Nat) : Decidable (FourthRootFact n p q w) := by
  unfold FourthRootFact
  refine @Nat.decidableBallLT n _ (fun y _ => ?_)
  infer_instance

/-- side condition on the hash outputs: the challenge chain is computed (always, for `n ≠ 0`) and all 80
challenges `Y_i` are units modulo `n`. (A zero challenge makes `z_i = 0` fail the verifier's `0 < z` check and a
non-unit challenge has no candidate with Jacobi symbol `1` modulo both primes, so the prover crashes.) -/
def ModGood (H : HashFn) (sess : Bytes) (n w : Nat) : Prop :=
  match modYs H sess (w : Int) (n : Int) modIterations [] with
  | .ok ys => ∀ y ∈ ys, Nat.Coprime y n
  | _ => False

instance (H : HashFn) (sess : Bytes) (n w : Nat) : Decidable (ModGood H sess n w) := by
  unfold ModGood; split <;> infer_instance

/-! ### the challenge chain -/

theorem modYs_ok (H : HashFn) (sess : Bytes) (w : Int) {n : Nat} (hn : n ≠ 0) : ∀ (k : Nat) (acc : List Nat),
    ∃ ys, modYs H sess w (n : Int) k acc = .ok ys ∧ ys.length = acc.length + k ∧ ∀ y ∈ ys, y ∈ acc ∨ y < n := by
  intro k
  induction k with
  | zero => intro acc; exact ⟨acc, rfl, rfl, fun y hy => Or.inl hy⟩
  | succ k ih =>
    intro acc
    have hn' : (n : Int) ≠ 0 := by exact_mod_cast hn
    rw [modYs, if_neg hn']
    obtain ⟨ys, h1, h2, h3⟩ := ih (acc ++ [((((sha512_256iTaggedWith H sess (w :: (n : Int) :: acc.map Int.ofNat)).getD 0 : Nat) : Int) % (n : Int)).toNat])
    refine ⟨ys, h1, ?_, ?_⟩
    · rw [h2, List.length_append, List.length_singleton]; omega
    · intro y hy
      rcases h3 y hy with h | h
      · rcases List.mem_append.1 h with h | h
        · exact Or.inl h
        · right
          rw [List.mem_singleton] at h
          rw [h, emod_natCast_toNat]
          exact Nat.mod_lt _ (Nat.pos_of_ne_zero hn)
      · exact Or.inr h

/-! ### the verifier on natural-number inputs -/

theorem getD_map_ofNat_toNat (l : List Nat) (i : Nat) : ((l.map Int.ofNat).getD i 0).toNat = l.getD i 0 := by
  rw [List.getD_eq_getElem?_getD, List.getD_eq_getElem?_getD, List.getElem?_map]
  cases l[i]? <;> rfl

theorem modVerify_nat (H : HashFn) (sess : Bytes) (n w a b : Nat) (xs zs ys : List Nat)
    (hn2 : n % 2 = 1)
    (hj : ∃ j, goJacobi (w : Int) n = .ok j ∧ j ≠ 1)
    (hw0 : 0 < w) (hwn : w < n) (hwc : Nat.Coprime w n)
    (hzs : ∀ z ∈ zs, 0 < z ∧ z < n) (hxs : ∀ x ∈ xs, 0 < x ∧ x < n)
    (hcanon : ∀ x ∈ xs, 2 * x ≤ n)
    (ha : bitLen a = modIterations + 1) (hb : bitLen b = modIterations + 1)
    (hys : modYs H sess (w : Int) (n : Int) modIterations [] = .ok ys)
    (hcomp : isProbablyPrime n = false)
    (hrel : ∀ i, i < modIterations →
      modPow (zs.getD i 0) n n = ys.getD i 0 ∧
      modPow (xs.getD i 0) 4 n =
        (if b.testBit i then w * (if a.testBit i then ((-1 : Int) * (ys.getD i 0 : Nat) % (n : Int)).toNat else ys.getD i 0) % n
         else (if a.testBit i then ((-1 : Int) * (ys.getD i 0 : Nat) % (n : Int)).toNat else ys.getD i 0))) :
    modVerify cur H sess (w : Int) (xs.map Int.ofNat) (a : Int) (b : Int) (zs.map Int.ofNat) (n : Int) = .ok true := by
  obtain ⟨j, hj1, hj2⟩ := hj
  have hnpos : 0 < n := by omega
  have g1 : (cur.modParityFirst && (decide ((n : Int) ≤ 0) || (n : Int) % 2 == 0)) = false := by
    have : ¬ ((n : Int) ≤ 0) := by omega
    have h2 : ((n : Int) % 2 == 0) = false := by
      rw [beq_eq_false_iff_ne]; omega
    rw [decide_eq_false this, h2]; rfl
  have g2 : ¬ ((n : Int) < 0) := by omega
  have g3 : (j == 1) = false := by rw [beq_eq_false_iff_ne]; exact hj2
  have g4 : (!(decide (0 < (w : Int)) && decide ((w : Int) < (n : Int)))) = false := by
    have h1 : (0 : Int) < w := by exact_mod_cast hw0
    have h2 : (w : Int) < n := by exact_mod_cast hwn
    rw [decide_eq_true h1, decide_eq_true h2]; rfl
  have g5 : (Nat.gcd w n != 1) = false := by
    rw [show Nat.gcd w n = 1 from hwc]; rfl
  have g6 : (!((zs.map Int.ofNat).all fun z => decide (0 < z) && decide (z < (n : Int)))) = false := by
    rw [Bool.not_eq_false', List.all_eq_true]
    intro z hz
    obtain ⟨z', hz', rfl⟩ := List.mem_map.1 hz
    obtain ⟨h1, h2⟩ := hzs z' hz'
    have h1' : (0 : Int) < Int.ofNat z' := by show (0 : Int) < (z' : Int); exact_mod_cast h1
    have h2' : Int.ofNat z' < (n : Int) := by show (z' : Int) < (n : Int); exact_mod_cast h2
    rw [decide_eq_true h1', decide_eq_true h2']; rfl
  have g7 : (!((xs.map Int.ofNat).all fun z => decide (0 < z) && decide (z < (n : Int)))) = false := by
    rw [Bool.not_eq_false', List.all_eq_true]
    intro z hz
    obtain ⟨z', hz', rfl⟩ := List.mem_map.1 hz
    obtain ⟨h1, h2⟩ := hxs z' hz'
    have h1' : (0 : Int) < Int.ofNat z' := by show (0 : Int) < (z' : Int); exact_mod_cast h1
    have h2' : Int.ofNat z' < (n : Int) := by show (z' : Int) < (n : Int); exact_mod_cast h2
    rw [decide_eq_true h1', decide_eq_true h2']; rfl
  have g7' : (cur.modCanonicalRoot && !((xs.map Int.ofNat).all fun x => decide (2 * x ≤ (n : Int)))) = false := by
    rw [Bool.and_eq_false_iff]; right
    rw [Bool.not_eq_false', List.all_eq_true]
    intro z hz
    obtain ⟨z', hz', rfl⟩ := List.mem_map.1 hz
    have h1 := hcanon z' hz'
    have h1' : 2 * Int.ofNat z' ≤ (n : Int) := by show 2 * (z' : Int) ≤ (n : Int); exact_mod_cast h1
    rw [decide_eq_true h1']
  have g8 : (bitLen a != modIterations + 1) = false := by rw [ha]; exact bne_self_eq_false _
  have g9 : (bitLen b != modIterations + 1) = false := by rw [hb]; exact bne_self_eq_false _
  have g10 : ((n : Int) % 2 == 0 || isProbablyPrime n) = false := by
    have h2 : ((n : Int) % 2 == 0) = false := by
      rw [beq_eq_false_iff_ne]; omega
    rw [h2, hcomp]; rfl
  unfold modVerify
  simp only [g1, Bool.false_eq_true, if_false, g2, Int.toNat_natCast, hj1, Outcome.ok_bind, g3, g4, g5, g6, g7, g7',
    Int.natAbs_natCast, g8, g9, hys, g10]
  congr 1
  rw [List.all_eq_true]
  intro i hi
  obtain ⟨r1, r2⟩ := hrel i (List.mem_range.1 hi)
  simp only [getD_map_ofNat_toNat, r1, r2, beq_self_eq_true, Bool.and_self]

/-! ### the canonical representative of `±x` -/

theorem modCanonRoot_pos {n x : Nat} (hx0 : 0 < x) (hxn : x < n) : 0 < modCanonRoot n x := by
  unfold modCanonRoot; split <;> omega

theorem modCanonRoot_lt {n x : Nat} (hxn : x < n) : modCanonRoot n x < n := by
  unfold modCanonRoot; split <;> omega

theorem modCanonRoot_two_le {n x : Nat} (hxn : x < n) : 2 * modCanonRoot n x ≤ n := by
  unfold modCanonRoot; split <;> omega

/-- `(n − x)^4 ≡ x^4 (mod n)` -/
theorem sub_pow_four_mod {n x : Nat} (hxn : x ≤ n) : (n - x) ^ 4 % n = x ^ 4 % n := by
  show (n - x) ^ 4 ≡ x ^ 4 [MOD n]
  rw [← ZMod.natCast_eq_natCast_iff]
  push_cast [Nat.cast_sub hxn]
  rw [ZMod.natCast_self, zero_sub, Even.neg_pow (by decide)]

theorem modPow_canonRoot {n x : Nat} (hxn : x ≤ n) : modPow (modCanonRoot n x) 4 n = modPow x 4 n := by
  unfold modCanonRoot
  split
  · rw [modPow_spec, modPow_spec, sub_pow_four_mod hxn]
  · rfl

/-! ### facts about the candidates -/

theorem modCand_lt {n w y : Nat} (j : Nat) (hy : y < n) : modCand n w y j < n := by
  have hn : 0 < n := by omega
  have hn' : (0 : Int) < n := by exact_mod_cast hn
  have h1 : ((-1 : Int) * (y : Int) % (n : Int)).toNat < n := by
    have h0 : 0 ≤ (-1 : Int) * (y : Int) % (n : Int) := Int.emod_nonneg _ (ne_of_gt hn')
    have h1 : (-1 : Int) * (y : Int) % (n : Int) < n := Int.emod_lt_of_pos _ hn'
    omega
  unfold modCand
  simp only
  split
  · exact Nat.mod_lt _ hn
  · split
    · exact h1
    · exact hy

/-- the verifier's recomputation of the candidate from the bits `a = (j%2 = 1)`, `b = (j/2%2 = 1)` -/
theorem modCand_bits (n w y j : Nat) :
    modCand n w y j =
      if decide (j / 2 % 2 = 1) then
        w * (if decide (j % 2 = 1) then ((-1 : Int) * (y : Int) % (n : Int)).toNat else y) % n
      else (if decide (j % 2 = 1) then ((-1 : Int) * (y : Int) % (n : Int)).toNat else y) := by
  have e1 : (j % 2 > 0) = (j % 2 = 1) := by apply propext; omega
  have e2 : (j / 2 % 2 > 0) = (j / 2 % 2 = 1) := by apply propext; omega
  unfold modCand
  simp only [e1, e2, decide_eq_true_eq]

/-- under `FourthRootFact` the candidate search succeeds and returns a non-zero fourth root -/
theorem modPick_spec {n p q w y : Nat} (hp2 : p % 2 = 1) (hq2 : q % 2 = 1) (hp1 : p ≠ 1)
    (hroot : FourthRootFact n p q w) (hy : y < n) (hyc : Nat.Coprime y n) :
    ∃ j, j < 4 ∧ modProveRaw.pickJ n p q w (modExpo p q) y [0, 1, 2, 3] = .ok (modPick n p q w y) ∧
      (modPick n p q w y).2 = (j % 2, j / 2 % 2) ∧
      modPow (modPick n p q w y).1 4 n = modCand n w y j ∧
      0 < (modPick n p q w y).1 ∧ (modPick n p q w y).1 < n := by
  obtain ⟨⟨j0, hj0, ha0, hb0⟩, hii⟩ := hroot y hy hyc
  have hmem : j0 ∈ [0, 1, 2, 3] := by
    simp only [List.mem_cons, List.not_mem_nil, or_false]; omega
  obtain ⟨j, hj, ha, hb, hpick⟩ := pickJ_spec n p q w (modExpo p q) y hp2 hq2 [0, 1, 2, 3] ⟨j0, hmem, ha0, hb0⟩
  have hj4 : j < 4 := by
    simp only [List.mem_cons, List.not_mem_nil, or_false] at hj; omega
  have hn : 0 < n := by omega
  have hval : modPick n p q w y = (modPow (modCand n w y j) (modExpo p q) n, j % 2, j / 2 % 2) := by
    unfold modPick; rw [hpick]
  have h4 : modPow (modPow (modCand n w y j) (modExpo p q) n) 4 n = modCand n w y j := by
    rw [modPow_spec, modPow_spec, ← Nat.pow_mod]
    have := hii j hj4 ha hb
    rw [Nat.ModEq, Nat.mod_eq_of_lt (modCand_lt j hy)] at this
    exact this
  refine ⟨j, hj4, by rw [hpick, hval], by rw [hval], by rw [hval]; exact h4, ?_, ?_⟩
  · rw [hval]
    apply Nat.pos_of_ne_zero
    intro h0
    show False
    have h0' : modPow (modCand n w y j) (modExpo p q) n = 0 := h0
    rw [h0', modPow_spec] at h4
    have hc : modCand n w y j = 0 := by
      rw [← h4]; simp [Nat.zero_mod]
    rw [hc] at ha
    exact goJacobi_zero_ne_one hp1 ha
  · rw [hval]
    exact modPow_lt _ _ (by omega)

/-! ### oddness of the primes -/

theorem odd_of_coprime_phi {p q : Nat} (hp : p.Prime) (hq : q.Prime) (hpq : p ≠ q)
    (hcop : Nat.Coprime (p * q) ((p - 1) * (q - 1))) : p % 2 = 1 := by
  rcases hp.eq_two_or_odd with rfl | h
  · rcases hq.eq_two_or_odd with rfl | h'
    · exact absurd rfl hpq
    · exfalso
      have h2 : 2 ∣ Nat.gcd (2 * q) ((2 - 1) * (q - 1)) :=
        Nat.dvd_gcd ⟨q, rfl⟩ (by rw [Nat.dvd_iff_mod_eq_zero]; simp only [Nat.add_one_sub_one, Nat.one_mul]; omega)
      rw [hcop] at h2
      omega
  · exact h

theorem mod_getD_of_lt {α : Type} (l : List α) (d : α) {i : Nat} (h : i < l.length) : l.getD i d = l[i] := by
  rw [List.getD_eq_getElem?_getD, List.getElem?_eq_getElem h]; rfl

/-! ### completeness -/

/-- Completeness of the Paillier-Blum modulus proof, modulo `FourthRootFact`.

Differences to the planned statement: `p ≠ 2`, `q ≠ 2` and `0 < w` are dropped, they follow
(`gcd(pq, (p-1)(q-1)) = 1` with `p ≠ q` forces both primes odd; `gcd(w, n) = 1` with `n > 1` forces `w ≠ 0`).
That `p ≡ q ≡ 3 (mod 4)` is not a hypothesis: it is only needed for `FourthRootFact`. -/
theorem mod_complete_partial (H : HashFn) (sess : Bytes) (n p q w : Nat)
    (hn : n = p * q) (hp : p.Prime) (hq : q.Prime) (hpq : p ≠ q)
    (hcop : Nat.Coprime n ((p - 1) * (q - 1)))
    (hwn : w < n) (hwc : Nat.Coprime w n)
    (hj : ∃ j, goJacobi (w : Int) n = .ok j ∧ j ≠ 1)
    (hcomp : isProbablyPrime n = false)
    (hroot : FourthRootFact n p q w)
    (hg : ModGood H sess n w) :
    (modProve H sess n p q w >>= fun pf =>
      modVerify cur H sess (pf.1 : Int) (pf.2.1.map Int.ofNat) (pf.2.2.1 : Int) (pf.2.2.2.1 : Int)
        (pf.2.2.2.2.map Int.ofNat) (n : Int)) = .ok true := by
  -- arithmetic side facts
  have hp2 : p % 2 = 1 := odd_of_coprime_phi hp hq hpq (hn ▸ hcop)
  have hq2 : q % 2 = 1 :=
    odd_of_coprime_phi hq hp (Ne.symm hpq) (by rw [Nat.mul_comm q p, Nat.mul_comm (q - 1)]; exact hn ▸ hcop)
  have hp3 : 2 ≤ p - 1 := by have := hp.two_le; omega
  have hq3 : 2 ≤ q - 1 := by have := hq.two_le; omega
  have hphi : 1 < (p - 1) * (q - 1) := by
    have := Nat.mul_le_mul hp3 hq3; omega
  have hn2 : n % 2 = 1 := by rw [hn, Nat.mul_mod, hp2, hq2]
  have hn1 : 1 < n := hn ▸ PaillierL.one_lt_mul_primes hp hq
  have hn0 : n ≠ 0 := by omega
  have htot : Nat.totient n = (p - 1) * (q - 1) := hn ▸ PaillierL.totient_mul_primes hp hq hpq
  have hw0 : 0 < w := by
    apply Nat.pos_of_ne_zero
    rintro rfl
    rw [Nat.coprime_zero_left] at hwc
    omega
  -- the challenges
  obtain ⟨ys, hys, hlen, hlt⟩ := modYs_ok H sess (w : Int) hn0 modIterations []
  have hylt : ∀ y ∈ ys, y < n := fun y hy => (hlt y hy).resolve_left (by simp)
  have hyc : ∀ y ∈ ys, Nat.Coprime y n := by
    unfold ModGood at hg
    rw [hys] at hg
    exact hg
  have hlen' : ys.length = modIterations := by simpa using hlen
  -- the inverse of `n` modulo `φ`
  obtain ⟨invN, hinv, -⟩ := modInverse_exists (a := (n : Int)) (n := (p - 1) * (q - 1)) (by omega)
    (by rw [Int.gcd_natCast_natCast]; exact hcop)
  have hinvspec := (modInverse_spec_nat hinv).1
  -- the candidate search
  have hmapM : ys.mapM (fun y => modProveRaw.pickJ n p q w (modExpo p q) y [0, 1, 2, 3]) =
      .ok (ys.map (modPick n p q w)) :=
    mapM_ok_of _ _ ys fun y hy =>
      (modPick_spec hp2 hq2 hp.one_lt.ne' hroot (hylt y hy) (hyc y hy)).choose_spec.2.1
  unfold modExpo at hmapM
  -- run the prover
  have hprove : modProve H sess n p q w = .ok (w, ((ys.map (modPick n p q w)).map (·.1)).map (modCanonRoot n),
      (List.range modIterations).foldl
        (fun acc i => acc + ((ys.map (modPick n p q w)).getD i (0, 0, 0)).2.1 * 2 ^ i) (2 ^ modIterations),
      (List.range modIterations).foldl
        (fun acc i => acc + ((ys.map (modPick n p q w)).getD i (0, 0, 0)).2.2 * 2 ^ i) (2 ^ modIterations),
      ys.map fun y => modPow y invN n) := by
    unfold modProve modProveCfg modProveRaw
    simp only [hys, Outcome.ok_bind, hinv, nilPanic, Outcome.ofOption, hmapM, cur, if_true]
  rw [hprove, Outcome.ok_bind]
  -- per-index facts
  have hidx : ∀ i, i < modIterations → ∃ (hi : i < ys.length) (j : Nat), j < 4 ∧
      ys.getD i 0 = ys[i] ∧
      (ys.map (modPick n p q w)).getD i (0, 0, 0) = modPick n p q w ys[i] ∧
      (modPick n p q w ys[i]).2 = (j % 2, j / 2 % 2) ∧
      modPow (modPick n p q w ys[i]).1 4 n = modCand n w ys[i] j := by
    intro i hi
    have hi' : i < ys.length := by omega
    have hmem : ys[i] ∈ ys := List.getElem_mem hi'
    obtain ⟨j, hj4, -, h2, h3, -, -⟩ := modPick_spec hp2 hq2 hp.one_lt.ne' hroot (hylt _ hmem) (hyc _ hmem)
    refine ⟨hi', j, hj4, ?_, ?_, h2, h3⟩
    · rw [mod_getD_of_lt _ _ hi']
    · rw [mod_getD_of_lt _ _ (by rw [List.length_map]; exact hi'), List.getElem_map]
  have hA := bits_spec (fun i => ((ys.map (modPick n p q w)).getD i (0, 0, 0)).2.1) modIterations (by
    intro i hi
    obtain ⟨_, j, _, _, e, e2, _⟩ := hidx i hi
    show ((ys.map (modPick n p q w)).getD i (0, 0, 0)).2.1 ≤ 1
    rw [e, e2]; show j % 2 ≤ 1; omega)
  have hB := bits_spec (fun i => ((ys.map (modPick n p q w)).getD i (0, 0, 0)).2.2) modIterations (by
    intro i hi
    obtain ⟨_, j, _, _, e, e2, _⟩ := hidx i hi
    show ((ys.map (modPick n p q w)).getD i (0, 0, 0)).2.2 ≤ 1
    rw [e, e2]; show j / 2 % 2 ≤ 1; omega)
  have hxlt : ∀ x ∈ (ys.map (modPick n p q w)).map (·.1), 0 < x ∧ x < n := by
    intro x hx
    obtain ⟨t, ht, rfl⟩ := List.mem_map.1 hx
    obtain ⟨y, hy, rfl⟩ := List.mem_map.1 ht
    obtain ⟨j, -, -, -, -, h5, h6⟩ := modPick_spec hp2 hq2 hp.one_lt.ne' hroot (hylt y hy) (hyc y hy)
    exact ⟨h5, h6⟩
  refine modVerify_nat H sess n w _ _ _ _ ys hn2 hj hw0 hwn hwc ?_ ?_ ?_ hA.1 hB.1 hys hcomp ?_
  · -- `0 < z < n`
    intro z hz
    obtain ⟨y, hy, rfl⟩ := List.mem_map.1 hz
    refine ⟨Nat.pos_of_ne_zero fun h0 => ?_, modPow_lt _ _ hn0⟩
    have := nth_root_spec hphi htot hinvspec (hyc y hy) (hylt y hy)
    rw [h0, modPow_spec, Nat.zero_pow (by omega), Nat.zero_mod] at this
    have hc := hyc y hy
    rw [← this, Nat.coprime_zero_left] at hc
    omega
  · -- `0 < x < n`
    intro x hx
    obtain ⟨x0, hx0, rfl⟩ := List.mem_map.1 hx
    obtain ⟨h5, h6⟩ := hxlt x0 hx0
    exact ⟨modCanonRoot_pos h5 h6, modCanonRoot_lt h6⟩
  · -- `2·x ≤ n`
    intro x hx
    obtain ⟨x0, hx0, rfl⟩ := List.mem_map.1 hx
    exact modCanonRoot_two_le (hxlt x0 hx0).2
  · intro i hi
    obtain ⟨hi', j, hj4, e0, e1, e2, e3⟩ := hidx i hi
    have hmem : ys[i] ∈ ys := List.getElem_mem hi'
    constructor
    · rw [e0, mod_getD_of_lt _ _ (by rw [List.length_map]; exact hi'), List.getElem_map]
      exact nth_root_spec hphi htot hinvspec (hyc _ hmem) (hylt _ hmem)
    · rw [hA.2 i hi, hB.2 i hi, e0]
      rw [mod_getD_of_lt _ _ (by rw [List.length_map, List.length_map, List.length_map]; exact hi'),
        List.getElem_map, modPow_canonRoot (le_of_lt (hxlt _ (List.getElem_mem _)).2), List.getElem_map,
        List.getElem_map]
      simp only [e1, e2]
      rw [e3]
      exact modCand_bits n w ys[i] j

/-! ### bonus: `FourthRootFact` from Euler's criterion (`JacobiEuler`) -/

/-- the fourth-root exponent works in any monoid: if `c^a = 1`, `a ∣ φ` and `4e² = a·r + 1` then
`(c^(e² mod φ))^4 = c` -/
theorem pow_four_expo {M : Type} [Monoid M] (c : M) {a phi e m r : Nat} (hc : c ^ a = 1) (hphi : phi = a * m)
    (he : 4 * (e * e) = a * r + 1) : (c ^ (e * e % phi)) ^ 4 = c := by
  have hphi1 : c ^ phi = 1 := by rw [hphi, pow_mul, hc, one_pow]
  have key : c ^ (4 * (e * e)) = c := by rw [he, pow_succ, pow_mul, hc, one_pow, one_mul]
  have hdm : phi * (e * e / phi) + e * e % phi = e * e := Nat.div_add_mod _ _
  calc (c ^ (e * e % phi)) ^ 4 = c ^ (4 * (e * e % phi)) := by rw [← pow_mul, mul_comm]
    _ = (c ^ phi) ^ (4 * (e * e / phi)) * c ^ (4 * (e * e % phi)) := by rw [hphi1, one_pow, one_mul]
    _ = c ^ (4 * (e * e)) := by
      rw [← pow_mul, ← pow_add]; congr 1
      generalize e * e / phi = k at hdm
      generalize e * e % phi = r' at hdm
      rw [← hdm]; ring
    _ = c := key

/-- arithmetic of the exponent for `p = 2a+1`, `q = 2b+1` with `a`, `b` odd -/
theorem expo_arith {a b : Nat} (ha : a % 2 = 1) (hb : b % 2 = 1) :
    4 * (((2 * a * (2 * b) + 4) / 8) * ((2 * a * (2 * b) + 4) / 8)) = a * (b * (a * b + 2)) + 1 := by
  have ht : (a * b) % 2 = 1 := by rw [Nat.mul_mod, ha, hb]
  have e1 : 2 * a * (2 * b) = 4 * (a * b) := by ring
  rw [e1]
  have h2e : 2 * ((4 * (a * b) + 4) / 8) = a * b + 1 := by omega
  generalize (4 * (a * b) + 4) / 8 = e at h2e
  have : 4 * (e * e) = (2 * e) * (2 * e) := by ring
  rw [this, h2e]; ring

/-- the model's Jacobi computation agrees with Euler's criterion modulo the prime `p` (on reduced arguments):
this is a statement about the algorithm `jacobiAux` only -/
def JacobiEuler (p : Nat) : Prop :=
  ∀ c, c < p → (goJacobi (c : Int) p = .ok 1 ↔ c ^ ((p - 1) / 2) ≡ 1 [MOD p])

instance (p : Nat) : Decidable (JacobiEuler p) := by
  unfold JacobiEuler
  refine @Nat.decidableBallLT p _ (fun c _ => ?_)
  infer_instance

theorem goJacobi_mod (c p : Nat) : goJacobi ((c % p : Nat) : Int) p = goJacobi (c : Int) p := by
  unfold goJacobi
  rw [Int.natCast_mod, Int.emod_emod_of_dvd _ (dvd_refl _)]

theorem jacobi_iff_zmod {p : Nat} [Fact p.Prime] (hp2 : p % 2 = 1) (hJ : JacobiEuler p) (c : Nat) :
    goJacobi (c : Int) p = .ok 1 ↔ (c : ZMod p) ^ (p / 2) = 1 := by
  have hp := (Fact.out : p.Prime)
  rw [← goJacobi_mod, hJ (c % p) (Nat.mod_lt _ hp.pos), ← ZMod.natCast_eq_natCast_iff]
  push_cast
  rw [ZMod.natCast_mod, show (p - 1) / 2 = p / 2 by omega]

theorem zmod_pow_half {p : Nat} [Fact p.Prime] (hp2 : p % 2 = 1) {u : ZMod p} (hu : u ≠ 0) :
    u ^ (p / 2) = 1 ∨ u ^ (p / 2) = -1 := by
  have h := ZMod.pow_card_sub_one_eq_one hu
  have e : p - 1 = p / 2 + p / 2 := by omega
  rw [e, pow_add] at h
  exact mul_self_eq_one_iff.1 h

theorem cast_neg_cand {n p y : Nat} (hn : 0 < n) (hpn : p ∣ n) :
    ((((-1 : Int) * (y : Int) % (n : Int)).toNat : Nat) : ZMod p) = -(y : ZMod p) := by
  have h0 : 0 ≤ (-1 : Int) * (y : Int) % (n : Int) := Int.emod_nonneg _ (by omega)
  have e : ((((-1 : Int) * (y : Int) % (n : Int)).toNat : Nat) : ZMod p) =
      ((((-1 : Int) * (y : Int) % (n : Int)).toNat : Int) : ZMod p) := (Int.cast_natCast _).symm
  rw [e, Int.toNat_of_nonneg h0]
  have : (-1 : Int) * (y : Int) % (n : Int) ≡ -1 * (y : Int) [ZMOD (p : Int)] :=
    (Int.mod_modEq _ _).of_dvd (Int.natCast_dvd_natCast.2 hpn)
  rw [(ZMod.intCast_eq_intCast_iff _ _ _).2 this]
  push_cast; ring

theorem cast_mul_mod {n p : Nat} (a b : Nat) (hpn : p ∣ n) : ((a * b % n : Nat) : ZMod p) = (a : ZMod p) * b := by
  have : a * b % n ≡ a * b [MOD p] := (Nat.mod_modEq _ _).of_dvd hpn
  rw [(ZMod.natCast_eq_natCast_iff _ _ _).2 this]; push_cast; rfl

theorem modCand_cast {n p : Nat} (w y j : Nat) (hn : 0 < n) (hpn : p ∣ n) :
    ((modCand n w y j : Nat) : ZMod p) =
      (if j / 2 % 2 > 0 then (w : ZMod p) else 1) * ((if j % 2 > 0 then -1 else 1) * (y : ZMod p)) := by
  unfold modCand
  simp only
  by_cases h1 : j / 2 % 2 > 0 <;> by_cases h2 : j % 2 > 0 <;>
    simp only [h1, h2, if_true, if_false, cast_mul_mod _ _ hpn, cast_neg_cand hn hpn] <;> ring

theorem cand_chi {n p : Nat} (w y j : Nat) (hn : 0 < n) (hpn : p ∣ n) (hp4 : p % 4 = 3) :
    ((modCand n w y j : Nat) : ZMod p) ^ (p / 2) =
      (if j / 2 % 2 > 0 then (w : ZMod p) ^ (p / 2) else 1) *
        ((if j % 2 > 0 then -1 else 1) * (y : ZMod p) ^ (p / 2)) := by
  have hodd : Odd (p / 2) := Nat.odd_iff.2 (by omega)
  rw [modCand_cast w y j hn hpn, mul_pow, mul_pow]
  by_cases h1 : j / 2 % 2 > 0 <;> by_cases h2 : j % 2 > 0 <;>
    simp only [h1, h2, if_true, if_false, one_pow, hodd.neg_one_pow]

/-- one of `y, -y, w·y, -w·y` has character `(1, 1)` when `-1` has `(-1,-1)` and `w` has `(1,-1)` or `(-1,1)` -/
theorem pick_exists {R S : Type} [CommRing R] [CommRing S] {W Y : R} {W' Y' : S}
    (hW : (W = 1 ∧ W' = -1) ∨ (W = -1 ∧ W' = 1)) (hY : Y = 1 ∨ Y = -1) (hY' : Y' = 1 ∨ Y' = -1) :
    ∃ j, j < 4 ∧ (if j / 2 % 2 > 0 then W else 1) * ((if j % 2 > 0 then -1 else 1) * Y) = 1 ∧
      (if j / 2 % 2 > 0 then W' else 1) * ((if j % 2 > 0 then -1 else 1) * Y') = 1 := by
  rcases hW with ⟨rfl, rfl⟩ | ⟨rfl, rfl⟩ <;> rcases hY with rfl | rfl <;> rcases hY' with rfl | rfl
  · exact ⟨0, by norm_num, by norm_num, by norm_num⟩
  · exact ⟨2, by norm_num, by norm_num, by norm_num⟩
  · exact ⟨3, by norm_num, by norm_num, by norm_num⟩
  · exact ⟨1, by norm_num, by norm_num, by norm_num⟩
  · exact ⟨0, by norm_num, by norm_num, by norm_num⟩
  · exact ⟨3, by norm_num, by norm_num, by norm_num⟩
  · exact ⟨2, by norm_num, by norm_num, by norm_num⟩
  · exact ⟨1, by norm_num, by norm_num, by norm_num⟩

theorem modExpo_comm (p q : Nat) : modExpo p q = modExpo q p := by
  unfold modExpo; rw [Nat.mul_comm (p - 1) (q - 1)]

theorem fourth_root_zmod {p q : Nat} (hp4 : p % 4 = 3) (hq4 : q % 4 = 3) (c : ZMod p) (hc : c ^ (p / 2) = 1) :
    (c ^ modExpo p q) ^ 4 = c := by
  unfold modExpo
  have hp1 : p - 1 = 2 * (p / 2) := by omega
  have hq1 : q - 1 = 2 * (q / 2) := by omega
  rw [hp1, hq1]
  exact pow_four_expo c hc (m := 2 * (2 * (q / 2))) (r := (q / 2) * (p / 2 * (q / 2) + 2)) (by ring)
    (expo_arith (by omega) (by omega))

theorem natCast_ne_zero_of_coprime {n p y : Nat} (hp : p.Prime) (hpn : p ∣ n) (hy : Nat.Coprime y n) :
    (y : ZMod p) ≠ 0 := by
  rw [Ne, ZMod.natCast_eq_zero_iff]
  intro h
  have := Nat.dvd_gcd h hpn
  rw [hy] at this
  exact hp.one_lt.ne' (Nat.dvd_one.1 this)

/-- **`FourthRootFact` holds for Blum integers**, provided the model's `goJacobi` agrees with Euler's criterion
modulo `p` and modulo `q`, and `w` is a residue modulo exactly one of the two primes. -/
theorem fourthRootFact_of_jacobiEuler {n p q w : Nat} (hn : n = p * q) (hp : p.Prime) (hq : q.Prime) (hpq : p ≠ q)
    (hp4 : p % 4 = 3) (hq4 : q % 4 = 3) (hwc : Nat.Coprime w n)
    (hJp : JacobiEuler p) (hJq : JacobiEuler q)
    (hw : (goJacobi (w : Int) p = .ok 1 ∧ goJacobi (w : Int) q ≠ .ok 1) ∨
          (goJacobi (w : Int) p ≠ .ok 1 ∧ goJacobi (w : Int) q = .ok 1)) :
    FourthRootFact n p q w := by
  have := Fact.mk hp
  have := Fact.mk hq
  have hp2 : p % 2 = 1 := by omega
  have hq2 : q % 2 = 1 := by omega
  have hpn : p ∣ n := ⟨q, hn⟩
  have hqn : q ∣ n := ⟨p, by rw [hn, Nat.mul_comm]⟩
  have hn0 : 0 < n := hn ▸ Nat.mul_pos hp.pos hq.pos
  -- the character of `w`
  have hW : ((w : ZMod p) ^ (p / 2) = 1 ∧ (w : ZMod q) ^ (q / 2) = -1) ∨
      ((w : ZMod p) ^ (p / 2) = -1 ∧ (w : ZMod q) ^ (q / 2) = 1) := by
    simp only [ne_eq, jacobi_iff_zmod hp2 hJp, jacobi_iff_zmod hq2 hJq] at hw
    rcases hw with ⟨h1, h2⟩ | ⟨h1, h2⟩
    · exact Or.inl ⟨h1, (zmod_pow_half hq2 (natCast_ne_zero_of_coprime hq hqn hwc)).resolve_left h2⟩
    · exact Or.inr ⟨(zmod_pow_half hp2 (natCast_ne_zero_of_coprime hp hpn hwc)).resolve_left h1, h2⟩
  intro y hy hyc
  constructor
  · obtain ⟨j, hj, h1, h2⟩ := pick_exists hW (zmod_pow_half hp2 (natCast_ne_zero_of_coprime hp hpn hyc))
      (zmod_pow_half hq2 (natCast_ne_zero_of_coprime hq hqn hyc))
    refine ⟨j, hj, ?_, ?_⟩
    · rw [jacobi_iff_zmod hp2 hJp, cand_chi w y j hn0 hpn hp4]; exact h1
    · rw [jacobi_iff_zmod hq2 hJq, cand_chi w y j hn0 hqn hq4]; exact h2
  · intro j _ h1 h2
    rw [jacobi_iff_zmod hp2 hJp] at h1
    rw [jacobi_iff_zmod hq2 hJq] at h2
    have e1 := fourth_root_zmod hp4 hq4 _ h1
    have e2 := fourth_root_zmod hq4 hp4 _ h2
    rw [← modExpo_comm] at e2
    rw [hn, ← Nat.modEq_and_modEq_iff_modEq_mul ((Nat.coprime_primes hp hq).2 hpq)]
    constructor
    · rw [← ZMod.natCast_eq_natCast_iff]; push_cast; rw [← hn]; exact e1
    · rw [← ZMod.natCast_eq_natCast_iff]; push_cast; rw [← hn]; exact e2

/-! ### the model's `goJacobi` computes the Jacobi symbol -/

theorem jacobiAux_spec : ∀ (fuel a n : Nat) (acc : Int), n % 2 = 1 → a < n → a * n < 2 ^ fuel →
    jacobiAux (fuel + 1) a n acc = acc * J((a : Int) | n) := by
  intro fuel
  induction fuel with
  | zero =>
    intro a n acc hn han h
    have ha : a = 0 := by
      rcases Nat.eq_zero_or_pos a with h0 | h0
      · exact h0
      · have := Nat.mul_pos h0 (by omega : 0 < n); omega
    subst ha
    rw [jacobiAux, if_pos rfl]
    by_cases h1 : n = 1
    · subst h1; simp [jacobiSym.one_right]
    · rw [if_neg h1, Nat.cast_zero, jacobiSym.zero_left (by omega), mul_zero]
  | succ k ih =>
    intro a n acc hn han h
    rw [jacobiAux]
    by_cases ha : a = 0
    · subst ha
      rw [if_pos rfl]
      by_cases h1 : n = 1
      · subst h1; simp [jacobiSym.one_right]
      · rw [if_neg h1, Nat.cast_zero, jacobiSym.zero_left (by omega), mul_zero]
    · rw [if_neg ha]
      by_cases he : a % 2 = 0
      · rw [if_pos he]
        simp only
        have hb : a / 2 * n < 2 ^ k := by
          have e : a * n = 2 * (a / 2 * n) := by
            have : a = 2 * (a / 2) := by omega
            calc a * n = 2 * (a / 2) * n := by rw [← this]
              _ = 2 * (a / 2 * n) := by ring
          rw [pow_succ] at h; omega
        rw [ih (a / 2) n _ hn (by omega) hb]
        have key := jacobiSym.even_odd (a := (a : Int)) (b := n) (by omega) hn
        rw [← key, Int.natCast_div]
        split_ifs <;> simp
      · rw [if_neg he]
        simp only
        have ha2 : a % 2 = 1 := by omega
        have hapos : 0 < a := Nat.pos_of_ne_zero ha
        have hlt : n % a < a := Nat.mod_lt _ hapos
        have h2 : 2 * (n % a) < n := by
          have h1 := Nat.div_add_mod n a
          have h3 : 1 ≤ n / a := Nat.div_pos (le_of_lt han) hapos
          have h4 : a ≤ a * (n / a) := Nat.le_mul_of_pos_right _ h3
          omega
        have hb : n % a * a < 2 ^ k := by
          have h5 : 2 * (n % a) * a < n * a := Nat.mul_lt_mul_of_pos_right h2 hapos
          have e1 : 2 * (n % a) * a = 2 * (n % a * a) := by ring
          have e2 : n * a = a * n := Nat.mul_comm _ _
          rw [pow_succ] at h; omega
        rw [ih (n % a) a _ ha2 hlt hb]
        have key := jacobiSym.quadratic_reciprocity_if (a := a) (b := n) ha2 hn
        rw [← key, jacobiSym.mod_left (n : Int) a, Int.natCast_mod]
        split_ifs <;> simp

theorem goJacobi_eq_jacobiSym (a : Int) {n : Nat} (hn : n % 2 = 1) : goJacobi a n = .ok J(a | n) := by
  rw [goJacobi_odd a hn]
  have hn0 : (0 : Int) < n := by omega
  have h0 : 0 ≤ a % (n : Int) := Int.emod_nonneg _ (ne_of_gt hn0)
  have h1 : a % (n : Int) < n := Int.emod_lt_of_pos _ hn0
  have hlt : (a % (n : Int)).toNat < n := by omega
  have hbound : (a % (n : Int)).toNat * n < 2 ^ (4 * n.log2 + 7) := by
    have hl : n < 2 ^ (n.log2 + 1) := Nat.lt_log2_self
    have h3 : (a % (n : Int)).toNat * n < 2 ^ (n.log2 + 1) * 2 ^ (n.log2 + 1) :=
      Nat.mul_lt_mul'' (by omega) hl
    rw [← pow_add] at h3
    exact lt_of_lt_of_le h3 (Nat.pow_le_pow_right (by omega) (by omega))
  rw [show 4 * n.log2 + 8 = (4 * n.log2 + 7) + 1 from rfl, jacobiAux_spec _ _ _ _ hn hlt hbound,
    Int.toNat_of_nonneg h0, ← jacobiSym.mod_left, one_mul]

theorem jacobiEuler_of_prime {p : Nat} (hp : p.Prime) (hp2 : p % 2 = 1) : JacobiEuler p := by
  intro c _
  have := Fact.mk hp
  have h2p : Fact (2 < p) := ⟨by have := hp.two_le; omega⟩
  rw [goJacobi_eq_jacobiSym _ hp2, Outcome.ok.injEq, ← jacobiSym.legendreSym.to_jacobiSym,
    ← ZMod.natCast_eq_natCast_iff]
  push_cast
  rw [show (p - 1) / 2 = p / 2 by omega]
  have e := legendreSym.eq_pow p (c : Int)
  rw [Int.cast_natCast] at e
  constructor
  · intro h
    rw [h] at e
    rw [← e]; simp
  · intro h
    rw [h] at e
    rcases jacobiSym.trichotomy (c : Int) p with h0 | h1 | h1
    · rw [← jacobiSym.legendreSym.to_jacobiSym] at h0
      rw [h0] at e
      simp at e
    · rw [← jacobiSym.legendreSym.to_jacobiSym] at h1; exact h1
    · rw [← jacobiSym.legendreSym.to_jacobiSym] at h1
      rw [h1] at e
      exfalso
      apply ZMod.neg_one_ne_one (n := p)
      simpa using e

/-- **`FourthRootFact` is a theorem for Blum integers** `n = p·q`, `p ≡ q ≡ 3 (mod 4)`, and `w` with Jacobi symbol
`-1` modulo `n` (as computed by the model's `goJacobi`, which is what `GetRandomQuadraticNonResidue` tests) -/
theorem fourthRootFact_of_blum {n p q w : Nat} (hn : n = p * q) (hp : p.Prime) (hq : q.Prime) (hpq : p ≠ q)
    (hp4 : p % 4 = 3) (hq4 : q % 4 = 3) (hj : goJacobi (w : Int) n = .ok (-1)) :
    FourthRootFact n p q w ∧ Nat.Coprime w n := by
  have hp2 : p % 2 = 1 := by omega
  have hq2 : q % 2 = 1 := by omega
  have hn2 : n % 2 = 1 := by rw [hn, Nat.mul_mod, hp2, hq2]
  rw [goJacobi_eq_jacobiSym _ hn2, Outcome.ok.injEq] at hj
  have hmul : J((w : Int) | n) = J((w : Int) | p) * J((w : Int) | q) := by
    rw [hn]; exact jacobiSym.mul_right' _ hp.ne_zero hq.ne_zero
  have hwc : Nat.Coprime w n := by
    have : NeZero n := ⟨by omega⟩
    by_contra hc
    have h0 : J((w : Int) | n) = 0 := jacobiSym.eq_zero_iff_not_coprime.2 (by
      rw [Int.gcd_natCast_natCast]; exact hc)
    rw [h0] at hj; exact absurd hj (by decide)
  refine ⟨fourthRootFact_of_jacobiEuler hn hp hq hpq hp4 hq4 hwc (jacobiEuler_of_prime hp hp2)
    (jacobiEuler_of_prime hq hq2) ?_, hwc⟩
  rw [goJacobi_eq_jacobiSym _ hp2, goJacobi_eq_jacobiSym _ hq2]
  simp only [ne_eq, Outcome.ok.injEq]
  rw [hmul] at hj
  rcases jacobiSym.trichotomy (w : Int) p with h | h | h <;>
    rcases jacobiSym.trichotomy (w : Int) q with h' | h' | h' <;>
    rw [h, h'] at hj <;> simp only [h, h'] <;> revert hj <;> decide

/-- **Completeness of the Paillier-Blum modulus proof** with the number theory proved: `n = p·q` a Blum integer
with `gcd(n, φ(n)) = 1`, `0 ≤ w < n` with Jacobi symbol `-1`, `n` recognised as composite by the model's
Miller–Rabin, and unit challenges. -/
theorem mod_complete (H : HashFn) (sess : Bytes) (n p q w : Nat)
    (hn : n = p * q) (hp : p.Prime) (hq : q.Prime) (hpq : p ≠ q) (hp4 : p % 4 = 3) (hq4 : q % 4 = 3)
    (hcop : Nat.Coprime n ((p - 1) * (q - 1)))
    (hwn : w < n)
    (hj : goJacobi (w : Int) n = .ok (-1))
    (hcomp : isProbablyPrime n = false)
    (hg : ModGood H sess n w) :
    (modProve H sess n p q w >>= fun pf =>
      modVerify cur H sess (pf.1 : Int) (pf.2.1.map Int.ofNat) (pf.2.2.1 : Int) (pf.2.2.2.1 : Int)
        (pf.2.2.2.2.map Int.ofNat) (n : Int)) = .ok true := by
  obtain ⟨hroot, hwc⟩ := fourthRootFact_of_blum hn hp hq hpq hp4 hq4 hj
  exact mod_complete_partial H sess n p q w hn hp hq hpq hcop hwn hwc ⟨-1, hj, by decide⟩ hcomp hroot hg

/-! ### the hypotheses are satisfiable: `n = 7 · 11`, `w = 2`, constant hash (all `Y_i = 3`) -/

theorem fourthRootFact_77 : FourthRootFact 77 7 11 2 := by decide +kernel

theorem modGood_77 : ModGood (fun _ => [3]) [] 77 2 := by decide +kernel

/-- all hypotheses of `mod_complete_partial` hold for the toy instance -/
theorem mod_complete_77 :
    (modProve (fun _ => [3]) [] 77 7 11 2 >>= fun pf =>
      modVerify cur (fun _ => [3]) [] (pf.1 : Int) (pf.2.1.map Int.ofNat) (pf.2.2.1 : Int) (pf.2.2.2.1 : Int)
        (pf.2.2.2.2.map Int.ofNat) ((77 : Nat) : Int)) = .ok true :=
  mod_complete_partial (fun _ => [3]) [] 77 7 11 2 (by decide) (by decide) (by decide) (by decide) (by decide)
    (by decide) (by decide) ⟨-1, by decide +kernel, by decide⟩ (by decide +kernel) fourthRootFact_77 modGood_77

/-- all hypotheses of `mod_complete` hold for the toy instance -/
theorem mod_complete_77' :
    (modProve (fun _ => [3]) [] 77 7 11 2 >>= fun pf =>
      modVerify cur (fun _ => [3]) [] (pf.1 : Int) (pf.2.1.map Int.ofNat) (pf.2.2.1 : Int) (pf.2.2.2.1 : Int)
        (pf.2.2.2.2.map Int.ofNat) ((77 : Nat) : Int)) = .ok true :=
  mod_complete (fun _ => [3]) [] 77 7 11 2 (by decide) (by decide) (by decide) (by decide) (by decide) (by decide)
    (by decide) (by decide) (by decide +kernel) (by decide +kernel) modGood_77

/-- the same run evaluated directly (80 iterations) -/
example :
    (modProve (fun _ => [3]) [] 77 7 11 2 >>= fun pf =>
      modVerify cur (fun _ => [3]) [] (pf.1 : Int) (pf.2.1.map Int.ofNat) (pf.2.2.1 : Int) (pf.2.2.2.1 : Int)
        (pf.2.2.2.2.map Int.ofNat) ((77 : Nat) : Int)) = .ok true := by decide +kernel

end TssVerif.C10L
