import TssVerif.Core.Engine
/-! Helper lemmas about the round engine `TssVerif/Core/Engine.lean` (core Lean only).
Used by `Props/C07.lean`, `Props/C08.lean`, `Props/C09.lean`. -/
set_option autoImplicit false
namespace TssVerif.EngineL
open TssVerif.Engine

/-! ## 0. small facts about `getElem?` -/

theorem lt_of_getElem?_some {α : Type} {l : List α} {k : Nat} {a : α} (h : l[k]? = some a) : k < l.length := by
  rcases Nat.lt_or_ge k l.length with h' | h'
  · exact h'
  · simp [List.getElem?_eq_none_iff.mpr h'] at h

/-! ## 1. canonical emissions -/

/-- canonical emission log of the first `k` rounds of a party in a committee of `n` -/
def emitsUpTo (tbl : List RoundSpec) (n k : Nat) : List Nat :=
  ((tbl.take k).map fun r => emitList n r.emits).flatten

/-- canonical `end` count of the first `k` rounds -/
def endsUpTo (tbl : List RoundSpec) (k : Nat) : Nat := ((tbl.take k).map fun r => if r.final then 1 else 0).sum

/-- invariant: what has been emitted is exactly the canonical prefix for the rounds started -/
def Canon (tbl : List RoundSpec) (p : Party) : Prop :=
  p.rnd ≤ tbl.length ∧ p.out = emitsUpTo tbl p.n p.rnd ∧ p.ended = endsUpTo tbl p.rnd

theorem emitsUpTo_zero (tbl : List RoundSpec) (n : Nat) : emitsUpTo tbl n 0 = [] := by
  simp [emitsUpTo]

theorem endsUpTo_zero (tbl : List RoundSpec) : endsUpTo tbl 0 = 0 := by
  simp [endsUpTo]

theorem emitsUpTo_succ (tbl : List RoundSpec) (n k : Nat) (r : RoundSpec) (h : tbl[k]? = some r) :
    emitsUpTo tbl n (k + 1) = emitsUpTo tbl n k ++ emitList n r.emits := by
  unfold emitsUpTo
  have hk : k < tbl.length := lt_of_getElem?_some h
  rw [List.take_succ_eq_append_getElem hk]
  have : tbl[k] = r := by
    rw [List.getElem?_eq_getElem hk] at h; exact Option.some.inj h
  simp [this]

theorem endsUpTo_succ (tbl : List RoundSpec) (k : Nat) (r : RoundSpec) (h : tbl[k]? = some r) :
    endsUpTo tbl (k + 1) = endsUpTo tbl k + (if r.final then 1 else 0) := by
  unfold endsUpTo
  have hk : k < tbl.length := lt_of_getElem?_some h
  rw [List.take_succ_eq_append_getElem hk]
  have : tbl[k] = r := by
    rw [List.getElem?_eq_getElem hk] at h; exact Option.some.inj h
  simp [this]

theorem canon_fresh (tbl : List RoundSpec) (n self : Nat) : Canon tbl (fresh n self) := by
  simp [Canon, fresh, emitsUpTo, endsUpTo]

theorem canon_storeMsg {tbl : List RoundSpec} {p : Party} (m : Msg) (h : Canon tbl p) : Canon tbl (storeMsg m p) := h

/-- the shape of a productive step -/
theorem step_cases {tbl : List RoundSpec} {p p' : Party} (hs : step tbl p = some p') :
    p.rnd ≠ 0 ∧ p.done = false ∧ ∃ r, tbl[p.rnd - 1]? = some r ∧ canProceed (scan r p) = true ∧
      ((∃ r', tbl[p.rnd]? = some r' ∧ p' = startRound r' p.rnd (scan r p)) ∨
       (tbl[p.rnd]? = none ∧ p' = { scan r p with done := true })) := by
  unfold step at hs
  split at hs
  · simp at hs
  · rename_i hnd
    have hd : p.done = false := by
      cases hpd : p.done
      · rfl
      · exact absurd (Or.inr hpd) hnd
    have hr0 : p.rnd ≠ 0 := fun h => hnd (Or.inl h)
    refine ⟨hr0, hd, ?_⟩
    split at hs
    · simp at hs
    · rename_i r hr
      refine ⟨r, hr, ?_⟩
      simp only at hs
      split at hs
      · rename_i hcp
        refine ⟨hcp, ?_⟩
        split at hs
        · rename_i r' hr'
          injection hs with hs
          exact Or.inl ⟨r', hr', hs.symm⟩
        · rename_i hr'
          injection hs with hs
          exact Or.inr ⟨hr', hs.symm⟩
      · simp at hs

theorem step_none_of_not_started {tbl : List RoundSpec} {p : Party} (h : p.rnd = 0 ∨ p.done = true) :
    step tbl p = none := by
  unfold step; rw [if_pos h]

theorem rest_of_not_started {tbl : List RoundSpec} {p : Party} (h : p.rnd = 0 ∨ p.done = true) :
    rest tbl p = p := by
  unfold rest; rw [if_pos h]

theorem canon_step {tbl : List RoundSpec} {p p' : Party} (h : Canon tbl p) (hs : step tbl p = some p') :
    Canon tbl p' := by
  obtain ⟨_, _, r, _, _, hc⟩ := step_cases hs
  obtain ⟨h1, h2, h3⟩ := h
  rcases hc with ⟨r', hr', rfl⟩ | ⟨_, rfl⟩
  · have hk : p.rnd < tbl.length := lt_of_getElem?_some hr'
    refine ⟨hk, ?_, ?_⟩
    · simp only [startRound, scan]; rw [emitsUpTo_succ tbl _ _ r' hr', ← h2]
    · simp only [startRound, scan]; rw [endsUpTo_succ tbl _ r' hr', ← h3]
  · exact ⟨h1, h2, h3⟩

theorem canon_rest {tbl : List RoundSpec} {p : Party} (h : Canon tbl p) : Canon tbl (rest tbl p) := by
  unfold rest
  split
  · exact h
  · split
    · exact h
    · exact h

theorem canon_settle {tbl : List RoundSpec} (fuel : Nat) {p : Party} (h : Canon tbl p) :
    Canon tbl (settle tbl fuel p) := by
  induction fuel generalizing p with
  | zero => exact canon_rest h
  | succ k ih =>
    unfold settle
    split
    · rename_i p' hs; exact ih (canon_step h hs)
    · exact canon_rest h

theorem canon_deliver {tbl : List RoundSpec} (m : Msg) {p : Party} (h : Canon tbl p) :
    Canon tbl (deliver tbl m p) := canon_settle _ (canon_storeMsg m h)

theorem canon_startOld {tbl : List RoundSpec} {p : Party} (h : Canon tbl p) : Canon tbl (startOld tbl p) := by
  unfold startOld
  split
  · rename_i r hr
    split
    · rename_i h0
      obtain ⟨h1, h2, h3⟩ := h
      refine ⟨?_, ?_, ?_⟩
      · simp only [startRound]; exact lt_of_getElem?_some hr
      · simp only [startRound]; rw [emitsUpTo_succ tbl _ 0 r hr, h2, h0]
      · simp only [startRound]; rw [endsUpTo_succ tbl 0 r hr, h3, h0]
    · exact h
  · exact h

theorem canon_start {tbl : List RoundSpec} {p : Party} (h : Canon tbl p) : Canon tbl (start tbl p) := by
  unfold start
  split
  · exact canon_settle _ (canon_startOld h)
  · exact h

/-! ## 2. events and runs -/

/-- what can happen to one party: the local `Start` call, or a delivery (any message whatsoever) -/
inductive Ev where
  | start : Ev
  | deliver : Msg → Ev

def applyEv (tbl : List RoundSpec) (p : Party) : Ev → Party
  | .start => start tbl p
  | .deliver m => deliver tbl m p

def run (tbl : List RoundSpec) (evs : List Ev) (p : Party) : Party := evs.foldl (applyEv tbl) p

def delivers (tbl : List RoundSpec) (ms : List Msg) (p : Party) : Party := ms.foldl (fun p m => deliver tbl m p) p

theorem run_nil (tbl : List RoundSpec) (p : Party) : run tbl [] p = p := rfl
theorem run_cons (tbl : List RoundSpec) (e : Ev) (evs : List Ev) (p : Party) :
    run tbl (e :: evs) p = run tbl evs (applyEv tbl p e) := rfl
theorem run_append (tbl : List RoundSpec) (es es' : List Ev) (p : Party) :
    run tbl (es ++ es') p = run tbl es' (run tbl es p) := by
  simp [run, List.foldl_append]

theorem delivers_nil (tbl : List RoundSpec) (p : Party) : delivers tbl [] p = p := rfl
theorem delivers_cons (tbl : List RoundSpec) (m : Msg) (ms : List Msg) (p : Party) :
    delivers tbl (m :: ms) p = delivers tbl ms (deliver tbl m p) := rfl
theorem delivers_append (tbl : List RoundSpec) (ms ms' : List Msg) (p : Party) :
    delivers tbl (ms ++ ms') p = delivers tbl ms' (delivers tbl ms p) := by
  simp [delivers, List.foldl_append]

theorem delivers_eq_run (tbl : List RoundSpec) (ms : List Msg) (p : Party) :
    delivers tbl ms p = run tbl (ms.map Ev.deliver) p := by
  induction ms generalizing p with
  | nil => rfl
  | cons m ms ih => simp only [List.map_cons, run_cons, delivers_cons, applyEv]; exact ih _

theorem canon_applyEv {tbl : List RoundSpec} {p : Party} (e : Ev) (h : Canon tbl p) : Canon tbl (applyEv tbl p e) := by
  cases e with
  | start => exact canon_start h
  | deliver m => exact canon_deliver m h

theorem canon_run {tbl : List RoundSpec} (evs : List Ev) {p : Party} (h : Canon tbl p) : Canon tbl (run tbl evs p) := by
  induction evs generalizing p with
  | nil => exact h
  | cons e evs ih => exact ih (canon_applyEv e h)

theorem canon_delivers {tbl : List RoundSpec} (ms : List Msg) {p : Party} (h : Canon tbl p) :
    Canon tbl (delivers tbl ms p) := by
  rw [delivers_eq_run]; exact canon_run _ h

/-! ## 3. fields the engine never changes -/

theorem step_self {tbl : List RoundSpec} {p p' : Party} (hs : step tbl p = some p') : p'.self = p.self := by
  obtain ⟨_, _, r, _, _, hc⟩ := step_cases hs
  rcases hc with ⟨r', _, rfl⟩ | ⟨_, rfl⟩ <;> rfl

theorem step_n {tbl : List RoundSpec} {p p' : Party} (hs : step tbl p = some p') : p'.n = p.n := by
  obtain ⟨_, _, r, _, _, hc⟩ := step_cases hs
  rcases hc with ⟨r', _, rfl⟩ | ⟨_, rfl⟩ <;> rfl

theorem rest_self (tbl : List RoundSpec) (p : Party) : (rest tbl p).self = p.self := by
  unfold rest; split
  · rfl
  · split <;> rfl

theorem rest_n (tbl : List RoundSpec) (p : Party) : (rest tbl p).n = p.n := by
  unfold rest; split
  · rfl
  · split <;> rfl

theorem rest_rnd (tbl : List RoundSpec) (p : Party) : (rest tbl p).rnd = p.rnd := by
  unfold rest; split
  · rfl
  · split <;> rfl

theorem rest_done (tbl : List RoundSpec) (p : Party) : (rest tbl p).done = p.done := by
  unfold rest; split
  · rfl
  · split <;> rfl

theorem rest_store (tbl : List RoundSpec) (p : Party) : (rest tbl p).store = p.store := by
  unfold rest; split
  · rfl
  · split <;> rfl

theorem rest_out (tbl : List RoundSpec) (p : Party) : (rest tbl p).out = p.out := by
  unfold rest; split
  · rfl
  · split <;> rfl

theorem rest_ended (tbl : List RoundSpec) (p : Party) : (rest tbl p).ended = p.ended := by
  unfold rest; split
  · rfl
  · split <;> rfl

theorem settle_self (tbl : List RoundSpec) (fuel : Nat) (p : Party) : (settle tbl fuel p).self = p.self := by
  induction fuel generalizing p with
  | zero => exact rest_self tbl p
  | succ k ih =>
    unfold settle
    split
    · rename_i p' hs; rw [ih p', step_self hs]
    · exact rest_self tbl p

theorem settle_n (tbl : List RoundSpec) (fuel : Nat) (p : Party) : (settle tbl fuel p).n = p.n := by
  induction fuel generalizing p with
  | zero => exact rest_n tbl p
  | succ k ih =>
    unfold settle
    split
    · rename_i p' hs; rw [ih p', step_n hs]
    · exact rest_n tbl p

theorem deliver_self (tbl : List RoundSpec) (m : Msg) (p : Party) : (deliver tbl m p).self = p.self :=
  settle_self tbl _ _

theorem deliver_n (tbl : List RoundSpec) (m : Msg) (p : Party) : (deliver tbl m p).n = p.n :=
  settle_n tbl _ _

theorem startOld_self (tbl : List RoundSpec) (p : Party) : (startOld tbl p).self = p.self := by
  unfold startOld; split
  · split <;> rfl
  · rfl

theorem startOld_n (tbl : List RoundSpec) (p : Party) : (startOld tbl p).n = p.n := by
  unfold startOld; split
  · split <;> rfl
  · rfl

theorem start_self (tbl : List RoundSpec) (p : Party) : (start tbl p).self = p.self := by
  unfold start; split
  · rw [settle_self, startOld_self]
  · rfl

theorem start_n (tbl : List RoundSpec) (p : Party) : (start tbl p).n = p.n := by
  unfold start; split
  · rw [settle_n, startOld_n]
  · rfl

theorem applyEv_self (tbl : List RoundSpec) (e : Ev) (p : Party) : (applyEv tbl p e).self = p.self := by
  cases e with
  | start => exact start_self tbl p
  | deliver m => exact deliver_self tbl m p

theorem applyEv_n (tbl : List RoundSpec) (e : Ev) (p : Party) : (applyEv tbl p e).n = p.n := by
  cases e with
  | start => exact start_n tbl p
  | deliver m => exact deliver_n tbl m p

theorem run_self (tbl : List RoundSpec) (evs : List Ev) (p : Party) : (run tbl evs p).self = p.self := by
  induction evs generalizing p with
  | nil => rfl
  | cons e evs ih => rw [run_cons, ih, applyEv_self]

theorem run_n (tbl : List RoundSpec) (evs : List Ev) (p : Party) : (run tbl evs p).n = p.n := by
  induction evs generalizing p with
  | nil => rfl
  | cons e evs ih => rw [run_cons, ih, applyEv_n]

theorem delivers_self (tbl : List RoundSpec) (ms : List Msg) (p : Party) : (delivers tbl ms p).self = p.self := by
  rw [delivers_eq_run, run_self]

theorem delivers_n (tbl : List RoundSpec) (ms : List Msg) (p : Party) : (delivers tbl ms p).n = p.n := by
  rw [delivers_eq_run, run_n]

/-! ## 4. measure and fuel -/

/-- measure: rounds still to go -/
def togo (tbl : List RoundSpec) (p : Party) : Nat := if p.done then 0 else tbl.length + 1 - p.rnd

theorem step_togo {tbl : List RoundSpec} {p p' : Party} (hs : step tbl p = some p') :
    togo tbl p' < togo tbl p := by
  obtain ⟨hr0, hd, r, hr, _, hc⟩ := step_cases hs
  have hk : p.rnd - 1 < tbl.length := lt_of_getElem?_some hr
  rcases hc with ⟨r', hr', rfl⟩ | ⟨_, rfl⟩
  · have hk' : p.rnd < tbl.length := lt_of_getElem?_some hr'
    simp only [togo, startRound, scan, hd]
    simp
    omega
  · simp only [togo, hd]
    simp
    omega

theorem togo_le (tbl : List RoundSpec) (p : Party) : togo tbl p ≤ tbl.length + 1 := by
  unfold togo; split <;> omega

theorem togo_storeMsg (tbl : List RoundSpec) (m : Msg) (p : Party) :
    togo tbl (storeMsg m p) = togo tbl p := rfl

theorem step_none_of_togo_zero {tbl : List RoundSpec} {p : Party} (h : togo tbl p = 0) : step tbl p = none := by
  cases hs : step tbl p with
  | none => rfl
  | some p' => have := step_togo hs; omega

theorem rest_of_togo_zero {tbl : List RoundSpec} {p : Party} (h : togo tbl p = 0) : rest tbl p = p := by
  unfold rest
  unfold togo at h
  split at h
  · rename_i hd; simp [hd]
  · split
    · rfl
    · have : p.rnd - 1 ≥ tbl.length := by omega
      simp [List.getElem?_eq_none_iff.mpr this]

theorem settle_succ_some {tbl : List RoundSpec} {fuel : Nat} {p p' : Party} (h : step tbl p = some p') :
    settle tbl (fuel + 1) p = settle tbl fuel p' := by
  simp only [settle, h]

theorem settle_succ_none {tbl : List RoundSpec} {fuel : Nat} {p : Party} (h : step tbl p = none) :
    settle tbl (fuel + 1) p = rest tbl p := by
  simp only [settle, h]

theorem settle_of_step_none {tbl : List RoundSpec} (fuel : Nat) {p : Party} (h : step tbl p = none) :
    settle tbl fuel p = rest tbl p := by
  cases fuel with
  | zero => rfl
  | succ k => exact settle_succ_none h

/-- fuel irrelevance -/
theorem settle_fuel (tbl : List RoundSpec) : ∀ (f1 f2 : Nat) (p : Party),
    togo tbl p ≤ f1 → togo tbl p ≤ f2 → settle tbl f1 p = settle tbl f2 p := by
  intro f1
  induction f1 with
  | zero =>
    intro f2 p h1 _
    have hs : step tbl p = none := step_none_of_togo_zero (by omega)
    rw [settle_of_step_none _ hs, settle_of_step_none _ hs]
  | succ k ih =>
    intro f2 p h1 h2
    cases hs : step tbl p with
    | none => rw [settle_of_step_none _ hs, settle_of_step_none _ hs]
    | some p' =>
      have hlt := step_togo hs
      cases f2 with
      | zero => omega
      | succ f2 =>
        rw [settle_succ_some hs, settle_succ_some hs]
        exact ih f2 p' (by omega) (by omega)

/-- the full settle, with the fuel `deliver` and `start` use -/
def settleF (tbl : List RoundSpec) (p : Party) : Party := settle tbl (tbl.length + 1) p

theorem settleF_of_step_some {tbl : List RoundSpec} {p p' : Party} (hs : step tbl p = some p') :
    settleF tbl p = settleF tbl p' := by
  unfold settleF
  rw [settle_succ_some hs]
  have := step_togo hs
  exact settle_fuel tbl _ _ p' (by have := togo_le tbl p; omega) (togo_le tbl p')

theorem settleF_of_step_none {tbl : List RoundSpec} {p : Party} (hs : step tbl p = none) :
    settleF tbl p = rest tbl p := settle_succ_none hs

theorem deliver_eq (tbl : List RoundSpec) (m : Msg) (p : Party) : deliver tbl m p = settleF tbl (storeMsg m p) := rfl

/-- induction principle for the full settle: follow productive steps until none is possible -/
theorem settleF_induction {tbl : List RoundSpec} (P : Party → Party → Prop)
    (hnone : ∀ p, step tbl p = none → P p (rest tbl p))
    (hsome : ∀ p p', step tbl p = some p' → P p' (settleF tbl p') → P p (settleF tbl p'))
    (p : Party) : P p (settleF tbl p) := by
  suffices h : ∀ k p, togo tbl p ≤ k → P p (settleF tbl p) from h _ p (Nat.le_refl _)
  intro k
  induction k with
  | zero =>
    intro p hk
    have hs : step tbl p = none := step_none_of_togo_zero (by omega)
    rw [settleF_of_step_none hs]; exact hnone p hs
  | succ k ih =>
    intro p hk
    cases hs : step tbl p with
    | none => rw [settleF_of_step_none hs]; exact hnone p hs
    | some p' =>
      rw [settleF_of_step_some hs]
      exact hsome p p' hs (ih p' (by have := step_togo hs; omega))

/-! ## 5. the scan -/

theorem scanOk_iff (r : RoundSpec) (p : Party) (j : Nat) :
    scanOk r p j = true ↔ p.ok j = true ∨ (r.final = false ∧ j < p.n ∧ sat r p.store j = true ∧
      (r.early = false ∨ ∀ j', j' < j → p.ok j' = true ∨ sat r p.store j' = true)) := by
  unfold scanOk
  simp only [Bool.or_eq_true, Bool.and_eq_true, decide_eq_true_eq, Bool.not_eq_true',
    List.all_eq_true, List.mem_range]
  constructor
  · rintro (h | ⟨⟨⟨h1, h2⟩, h3⟩, h4⟩)
    · exact Or.inl h
    · exact Or.inr ⟨h1, h2, h3, h4⟩
  · rintro (h | ⟨h1, h2, h3, h4⟩)
    · exact Or.inl h
    · exact Or.inr ⟨⟨⟨h1, h2⟩, h3⟩, h4⟩

theorem scanOk_of_ok {r : RoundSpec} {p : Party} {j : Nat} (h : p.ok j = true) : scanOk r p j = true :=
  (scanOk_iff r p j).mpr (Or.inl h)

/-- whoever the scan marks has `ok` already or has everything stored -/
theorem ok_or_sat_of_scanOk {r : RoundSpec} {p : Party} {j : Nat} (h : scanOk r p j = true) :
    p.ok j = true ∨ (r.final = false ∧ j < p.n ∧ sat r p.store j = true) := by
  rcases (scanOk_iff r p j).mp h with h | ⟨h1, h2, h3, _⟩
  · exact Or.inl h
  · exact Or.inr ⟨h1, h2, h3⟩

theorem scanOk_mono {r : RoundSpec} {p q : Party} (hn : p.n = q.n)
    (hok : ∀ j, p.ok j = true → q.ok j = true)
    (hsat : ∀ j, sat r p.store j = true → sat r q.store j = true) (j : Nat)
    (h : scanOk r p j = true) : scanOk r q j = true := by
  rw [scanOk_iff] at *
  rcases h with h | ⟨hf, hj, hs, hp⟩
  · exact Or.inl (hok j h)
  · refine Or.inr ⟨hf, hn ▸ hj, hsat j hs, ?_⟩
    rcases hp with hp | hp
    · exact Or.inl hp
    · refine Or.inr fun j' hj' => ?_
      rcases hp j' hj' with h1 | h1
      · exact Or.inl (hok j' h1)
      · exact Or.inr (hsat j' h1)

/-- scanning twice is scanning once -/
theorem scanOk_scan (r : RoundSpec) (p : Party) : scanOk r (scan r p) = scanOk r p := by
  funext j
  apply Bool.eq_iff_iff.mpr
  constructor
  · intro h
    rcases (scanOk_iff r (scan r p) j).mp h with h | ⟨hf, hj, hs, hp⟩
    · exact h
    · refine (scanOk_iff r p j).mpr (Or.inr ⟨hf, hj, hs, ?_⟩)
      rcases hp with hp | hp
      · exact Or.inl hp
      · refine Or.inr fun j' hj' => ?_
        rcases hp j' hj' with h1 | h1
        · rcases ok_or_sat_of_scanOk (r := r) (p := p) h1 with h2 | ⟨_, _, h2⟩
          · exact Or.inl h2
          · exact Or.inr h2
        · exact Or.inr h1
  · intro h
    exact scanOk_of_ok (p := scan r p) h

theorem scan_scan (r : RoundSpec) (p : Party) : scan r (scan r p) = scan r p := by
  show { scan r p with ok := scanOk r (scan r p) } = scan r p
  rw [scanOk_scan]; rfl

theorem canProceed_iff (p : Party) : canProceed p = true ↔ ∀ j, j < p.n → p.ok j = true := by
  unfold canProceed
  simp only [List.all_eq_true, List.mem_range]

theorem canProceed_mono {p q : Party} (hn : p.n = q.n) (hok : ∀ j, p.ok j = true → q.ok j = true)
    (h : canProceed p = true) : canProceed q = true := by
  rw [canProceed_iff] at *
  intro j hj
  exact hok j (h j (hn ▸ hj))

/-! ## 6. fixpoint -/

/-- nothing more to do: no productive step, and the scan of the current round has been recorded -/
def Settled (tbl : List RoundSpec) (p : Party) : Prop := step tbl p = none ∧ rest tbl p = p

theorem rest_rest (tbl : List RoundSpec) (p : Party) : rest tbl (rest tbl p) = rest tbl p := by
  by_cases hnd : p.rnd = 0 ∨ p.done = true
  · rw [rest_of_not_started hnd, rest_of_not_started hnd]
  · cases hr : tbl[p.rnd - 1]? with
    | none =>
      have : rest tbl p = p := by unfold rest; rw [if_neg hnd, hr]
      rw [this, this]
    | some r =>
      have h1 : rest tbl p = scan r p := by unfold rest; rw [if_neg hnd, hr]
      rw [h1]
      have hnd' : ¬ ((scan r p).rnd = 0 ∨ (scan r p).done = true) := hnd
      have hr' : tbl[(scan r p).rnd - 1]? = some r := hr
      unfold rest
      rw [if_neg hnd', hr']
      exact scan_scan r p

theorem step_rest_none {tbl : List RoundSpec} {p : Party} (hs : step tbl p = none) : step tbl (rest tbl p) = none := by
  by_cases hnd : p.rnd = 0 ∨ p.done = true
  · rw [rest_of_not_started hnd]; exact hs
  · cases hr : tbl[p.rnd - 1]? with
    | none =>
      have : rest tbl p = p := by unfold rest; rw [if_neg hnd, hr]
      rw [this]; exact hs
    | some r =>
      have h1 : rest tbl p = scan r p := by unfold rest; rw [if_neg hnd, hr]
      rw [h1]
      have hnd' : ¬ ((scan r p).rnd = 0 ∨ (scan r p).done = true) := hnd
      have hr' : tbl[(scan r p).rnd - 1]? = some r := hr
      unfold step at hs ⊢
      rw [if_neg hnd', hr']
      rw [if_neg hnd, hr] at hs
      simp only at hs ⊢
      rw [scan_scan]
      split at hs
      · split at hs <;> simp at hs
      · rename_i hcp
        rw [if_neg hcp]

theorem settled_rest {tbl : List RoundSpec} {p : Party} (hs : step tbl p = none) : Settled tbl (rest tbl p) :=
  ⟨step_rest_none hs, rest_rest tbl p⟩

/-- **fixpoint**: the full settle ends in a state from which nothing more can be done -/
theorem settled_settleF (tbl : List RoundSpec) (p : Party) : Settled tbl (settleF tbl p) :=
  settleF_induction (fun _ q => Settled tbl q) (fun _ hs => settled_rest hs) (fun _ _ _ h => h) p

theorem settleF_of_settled {tbl : List RoundSpec} {p : Party} (h : Settled tbl p) : settleF tbl p = p := by
  rw [settleF_of_step_none h.1, h.2]

theorem settled_deliver (tbl : List RoundSpec) (m : Msg) (p : Party) : Settled tbl (deliver tbl m p) :=
  settled_settleF tbl _

theorem settled_of_not_started {tbl : List RoundSpec} {p : Party} (h : p.rnd = 0 ∨ p.done = true) : Settled tbl p :=
  ⟨step_none_of_not_started h, rest_of_not_started h⟩

theorem start_eq_of_rnd_zero {tbl : List RoundSpec} {p : Party} (h : p.rnd = 0) :
    start tbl p = settleF tbl (startOld tbl p) := by
  unfold start; rw [if_pos h]; rfl

theorem start_eq_of_started {tbl : List RoundSpec} {p : Party} (h : p.rnd ≠ 0) : start tbl p = p := by
  unfold start; rw [if_neg h]

theorem settled_start {tbl : List RoundSpec} {p : Party} (h : Settled tbl p) : Settled tbl (start tbl p) := by
  by_cases h0 : p.rnd = 0
  · rw [start_eq_of_rnd_zero h0]; exact settled_settleF tbl _
  · rw [start_eq_of_started h0]; exact h

theorem settled_fresh (tbl : List RoundSpec) (n self : Nat) : Settled tbl (fresh n self) :=
  settled_of_not_started (Or.inl rfl)

theorem settled_applyEv {tbl : List RoundSpec} {p : Party} (e : Ev) (h : Settled tbl p) : Settled tbl (applyEv tbl p e) := by
  cases e with
  | start => exact settled_start h
  | deliver m => exact settled_deliver tbl m p

theorem settled_run {tbl : List RoundSpec} (evs : List Ev) {p : Party} (h : Settled tbl p) : Settled tbl (run tbl evs p) := by
  induction evs generalizing p with
  | nil => exact h
  | cons e evs ih => exact ih (settled_applyEv e h)

/-- before `Start` a delivery only stores -/
theorem deliver_of_not_started {tbl : List RoundSpec} {p : Party} (m : Msg) (h : p.rnd = 0 ∨ p.done = true) :
    deliver tbl m p = storeMsg m p := by
  rw [deliver_eq]
  exact settleF_of_settled (settled_of_not_started (p := storeMsg m p) h)

end TssVerif.EngineL
