import TssVerif.Lemmas.C11
import TssVerif.Lemmas.C10Mod
/-! Helper lemmas for the `modproof` non-malleability theorems of `TssVerif/Props/C12.lean`:

* `modVerify_accept_canonical`: the current verifier accepts only roots `x` with `2·x ≤ N`;
* `modVerify_negated_root`: hence replacing an accepted root `x` by `N − x` is rejected;
* `fourth_root_diff`: two different roots in `(0, N/2]` with the same fourth power modulo an odd `N` give a
  multiple `(x + x')·|x − x'|·(x² + x'²)` of `N` in which neither `x + x'` nor `|x − x'|` is one;
* `blum_gcd_proper`: for `N = p·q`, `p ≡ q ≡ 3 (mod 4)` and units `x`, `x'`, the factor `x² + x'²` is coprime
  to `N`, so `gcd(|x − x'|, N)` is a proper factor of `N`. -/
set_option autoImplicit false
namespace TssVerif.C12L
open TssVerif Zk

/-! ## the verifier -/

theorem modVerify_accept_canonical (H : HashFn) (sess : Bytes) (w : Int) (xs : List Int) (a b : Int)
    (zs : List Int) (n : Int) (h : modVerify cur H sess w xs a b zs n = .ok true) :
    ∀ x ∈ xs, 2 * x ≤ n := by
  unfold modVerify at h
  obtain ⟨-, h⟩ := C11L.ite_reject.1 h
  obtain ⟨-, h⟩ := C11L.ite_reject.1 h
  obtain ⟨j, -, h⟩ := C11L.bind_ok.1 h
  obtain ⟨-, h⟩ := C11L.ite_reject.1 h
  obtain ⟨-, h⟩ := C11L.ite_reject.1 h
  obtain ⟨-, h⟩ := C11L.ite_reject.1 h
  obtain ⟨-, h⟩ := C11L.ite_reject.1 h
  obtain ⟨-, h⟩ := C11L.ite_reject.1 h
  obtain ⟨hc, -⟩ := C11L.ite_reject.1 h
  intro x hx
  have hc' : (xs.all fun x => decide (2 * x ≤ n)) = true := by
    simpa [cur] using hc
  exact of_decide_eq_true (List.all_eq_true.1 hc' x hx)

theorem modVerify_negated_root (H : HashFn) (sess : Bytes) (w : Int) (xs : List Int) (a b : Int)
    (zs : List Int) (n x : Int) (i : Nat) (hi : xs[i]? = some x) (hlt : 2 * x < n) :
    modVerify cur H sess w (xs.set i (n - x)) a b zs n ≠ .ok true := by
  intro h
  have hlen : i < xs.length := by
    rcases Nat.lt_or_ge i xs.length with h' | h'
    · exact h'
    · rw [List.getElem?_eq_none h'] at hi; cases hi
  have hmem : n - x ∈ xs.set i (n - x) := List.mem_set hlen _
  have := modVerify_accept_canonical H sess w _ a b zs n h (n - x) hmem
  omega

/-! ## two fourth roots in the canonical range -/

theorem fourth_pow_sub {x d : Nat} : (x + d) ^ 4 - x ^ 4 = (x + (x + d)) * d * (x ^ 2 + (x + d) ^ 2) := by
  apply Nat.sub_eq_of_eq_add
  ring

theorem fourth_root_diff_lt {n x x' : Nat} (hn : n % 2 = 1) (hx : 0 < x) (hx2 : 2 * x ≤ n) (hx2' : 2 * x' ≤ n)
    (hlt : x < x') (h4 : x ^ 4 % n = x' ^ 4 % n) :
    n ∣ (x + x') * (x' - x) * (x ^ 2 + x' ^ 2) ∧ ¬ n ∣ x + x' ∧ ¬ n ∣ x' - x := by
  refine ⟨?_, ?_, ?_⟩
  · obtain ⟨d, rfl⟩ : ∃ d, x' = x + d := ⟨x' - x, by omega⟩
    have h := (Nat.modEq_iff_dvd' (Nat.pow_le_pow_left (Nat.le_add_right x d) 4)).1 h4
    rw [fourth_pow_sub] at h
    rw [Nat.add_sub_cancel_left]
    exact h
  · intro h
    have := Nat.eq_zero_of_dvd_of_lt h (by omega)
    omega
  · intro h
    have := Nat.eq_zero_of_dvd_of_lt h (by omega)
    omega

theorem fourth_root_diff {n x x' : Nat} (hn : n % 2 = 1) (hx : 0 < x) (hx' : 0 < x') (hx2 : 2 * x ≤ n)
    (hx2' : 2 * x' ≤ n) (hne : x ≠ x') (h4 : x ^ 4 % n = x' ^ 4 % n) :
    n ∣ (x + x') * (max x x' - min x x') * (x ^ 2 + x' ^ 2) ∧ ¬ n ∣ x + x' ∧ ¬ n ∣ max x x' - min x x' := by
  rcases Nat.lt_or_gt_of_ne hne with hlt | hlt
  · rw [Nat.max_eq_right (le_of_lt hlt), Nat.min_eq_left (le_of_lt hlt)]
    exact fourth_root_diff_lt hn hx hx2 hx2' hlt h4
  · rw [Nat.max_eq_left (le_of_lt hlt), Nat.min_eq_right (le_of_lt hlt), Nat.add_comm x x', Nat.add_comm (x ^ 2)]
    exact fourth_root_diff_lt hn hx' hx2' hx2 hlt h4.symm

/-- `−1` is not a square modulo a prime `p ≡ 3 (mod 4)`: `p ∤ x² + x'²` unless `p ∣ x` -/
theorem blum_not_dvd_sq_add_sq {p x x' : Nat} (hp : p.Prime) (hp4 : p % 4 = 3) (hx : ¬ p ∣ x) :
    ¬ p ∣ x ^ 2 + x' ^ 2 := by
  intro h
  have := Fact.mk hp
  have hx0 : (x : ZMod p) ≠ 0 := by rwa [Ne, ZMod.natCast_eq_zero_iff]
  have e : ((x ^ 2 + x' ^ 2 : Nat) : ZMod p) = 0 := (ZMod.natCast_eq_zero_iff _ _).2 h
  push_cast at e
  exact ZMod.mod_four_ne_three_of_sq_eq_neg_sq hx0 (eq_neg_of_add_eq_zero_left e) hp4

theorem blum_coprime_sq_add_sq {n p q x x' : Nat} (hn : n = p * q) (hp : p.Prime) (hq : q.Prime)
    (hp4 : p % 4 = 3) (hq4 : q % 4 = 3) (hxc : Nat.Coprime x n) : Nat.Coprime n (x ^ 2 + x' ^ 2) := by
  have hpx : ¬ p ∣ x := fun h => by
    have := Nat.dvd_gcd h (⟨q, hn⟩ : p ∣ n)
    rw [hxc] at this
    exact hp.one_lt.ne' (Nat.dvd_one.1 this)
  have hqx : ¬ q ∣ x := fun h => by
    have := Nat.dvd_gcd h (⟨p, by rw [hn, Nat.mul_comm]⟩ : q ∣ n)
    rw [hxc] at this
    exact hq.one_lt.ne' (Nat.dvd_one.1 this)
  rw [hn]
  exact Nat.Coprime.mul_left ((Nat.Prime.coprime_iff_not_dvd hp).2 (blum_not_dvd_sq_add_sq hp hp4 hpx))
    ((Nat.Prime.coprime_iff_not_dvd hq).2 (blum_not_dvd_sq_add_sq hq hq4 hqx))

/-- a second fourth root in the canonical range yields a proper factor of a Blum integer -/
theorem blum_gcd_proper {n p q x x' : Nat} (hn : n = p * q) (hp : p.Prime) (hq : q.Prime)
    (hp4 : p % 4 = 3) (hq4 : q % 4 = 3) (hx : 0 < x) (hx' : 0 < x') (hx2 : 2 * x ≤ n) (hx2' : 2 * x' ≤ n)
    (hne : x ≠ x') (hxc : Nat.Coprime x n) (h4 : x ^ 4 % n = x' ^ 4 % n) :
    1 < Nat.gcd (max x x' - min x x') n ∧ Nat.gcd (max x x' - min x x') n < n := by
  have hn2 : n % 2 = 1 := by
    have hp2 : p % 2 = 1 := by omega
    have hq2 : q % 2 = 1 := by omega
    rw [hn, Nat.mul_mod, hp2, hq2]
  have hn0 : 0 < n := by omega
  obtain ⟨hdvd, hs, hd⟩ := fourth_root_diff hn2 hx hx' hx2 hx2' hne h4
  generalize max x x' - min x x' = d at hdvd hd ⊢
  constructor
  · have h0 : Nat.gcd d n ≠ 0 := fun h => by
      have := Nat.eq_zero_of_gcd_eq_zero_right h; omega
    have h1 : Nat.gcd d n ≠ 1 := fun h => by
      have hcop : Nat.Coprime n d := Nat.Coprime.symm h
      have e : (x + x') * d * (x ^ 2 + x' ^ 2) = d * ((x + x') * (x ^ 2 + x' ^ 2)) := by ring
      rw [e] at hdvd
      have h2 := hcop.dvd_of_dvd_mul_left hdvd
      exact hs ((blum_coprime_sq_add_sq (x' := x') hn hp hq hp4 hq4 hxc).dvd_of_dvd_mul_right h2)
    omega
  · have hle : Nat.gcd d n ≤ n := Nat.le_of_dvd hn0 (Nat.gcd_dvd_right d n)
    have hne' : Nat.gcd d n ≠ n := fun h => hd (h ▸ Nat.gcd_dvd_left d n)
    omega

end TssVerif.C12L
