import TssVerif.Core.Vss
import TssVerif.Lemmas.CurveLaw
import Mathlib.Data.ZMod.Basic
import Mathlib.Algebra.Field.ZMod
import Mathlib.Algebra.Polynomial.Roots
import Mathlib.Algebra.Polynomial.BigOperators
import Mathlib.Tactic.Ring
import Mathlib.Tactic.Linarith
/-! The dealer polynomial: a plain `Nat` evaluation `polyNat` (no reduction), its Mathlib counterpart
`polyZ q as : (ZMod q)[X]`, and the specification of `Vss.evalPoly`. -/
set_option autoImplicit false
namespace TssVerif
namespace Vss
open Polynomial

/-- `a_0 + a_1 x + … + a_n x^n` in `Nat` (Horner form, nothing reduced) -/
def polyNat : List Nat → Nat → Nat
  | [], _ => 0
  | a :: as, x => a + x * polyNat as x

theorem polyNat_eq_sum (as : List Nat) (x : Nat) :
    polyNat as x = ∑ i ∈ Finset.range as.length, as.getD i 0 * x ^ i := by
  induction as with
  | nil => simp [polyNat]
  | cons a as ih =>
    rw [polyNat, ih, List.length_cons, Finset.sum_range_succ', Finset.mul_sum]
    simp only [List.getD_cons_succ, List.getD_cons_zero, pow_zero, mul_one]
    rw [add_comm]
    congr 1
    apply Finset.sum_congr rfl
    intro i _
    ring

theorem polyNat_zero (a : Nat) (as : List Nat) : polyNat (a :: as) 0 = a := by
  simp [polyNat]

/-- the dealer polynomial over the field `ZMod q` -/
noncomputable def polyZ (q : Nat) : List Nat → (ZMod q)[X]
  | [] => 0
  | a :: as => C (a : ZMod q) + X * polyZ q as

variable {q : Nat}

theorem polyZ_eval_natCast (as : List Nat) (x : Nat) :
    (polyZ q as).eval (x : ZMod q) = ((polyNat as x : Nat) : ZMod q) := by
  induction as with
  | nil => simp [polyZ, polyNat]
  | cons a as ih =>
    simp only [polyZ, polyNat, eval_add, eval_C, eval_mul, eval_X, ih]
    push_cast
    ring

theorem polyZ_coeff (as : List Nat) (i : Nat) : (polyZ q as).coeff i = ((as.getD i 0 : Nat) : ZMod q) := by
  induction as generalizing i with
  | nil => simp [polyZ]
  | cons a as ih =>
    cases i with
    | zero => simp [polyZ]
    | succ i => simp [polyZ, ih]

theorem polyZ_degree_lt (as : List Nat) : (polyZ q as).degree < (as.length : ℕ) := by
  rw [degree_lt_iff_coeff_zero]
  intro m hm
  rw [polyZ_coeff]
  simp [List.getD_eq_getElem?_getD, List.getElem?_eq_none hm]

theorem polyZ_eval_zero (a : Nat) (as : List Nat) : (polyZ q (a :: as)).eval 0 = (a : ZMod q) := by
  simp [polyZ]

theorem polyZ_natDegree_le (as : List Nat) : (polyZ q as).natDegree ≤ as.length - 1 := by
  cases as with
  | nil => simp [polyZ]
  | cons a as =>
    have := polyZ_degree_lt (q := q) (a :: as)
    by_cases h0 : polyZ q (a :: as) = 0
    · rw [h0]; simp
    · rw [degree_eq_natDegree h0] at this
      have : (polyZ q (a :: as)).natDegree < (a :: as).length := by exact_mod_cast this
      omega

/-! ### `evalPoly` -/

theorem evalPolyLoop_cast (id : Nat) (as : List Nat) (x r : Nat) :
    ((evalPolyLoop q id as x r : Nat) : ZMod q) = (r : ZMod q) + x * id * (polyNat as id : Nat) := by
  induction as generalizing x r with
  | nil => simp [evalPolyLoop, polyNat]
  | cons a as ih =>
    rw [evalPolyLoop, ih, polyNat]
    push_cast [ZMod.natCast_mod]
    ring

theorem evalPolyLoop_lt (hq : 0 < q) (id : Nat) (as : List Nat) (x r : Nat) (hr : r < q) :
    evalPolyLoop q id as x r < q := by
  induction as generalizing x r with
  | nil => exact hr
  | cons a as ih =>
    rw [evalPolyLoop]
    exact ih _ _ (Nat.mod_lt _ hq)

theorem evalPoly_cast (a0 : Nat) (as : List Nat) (id : Nat) :
    ((evalPoly q (a0 :: as) id : Nat) : ZMod q) = ((polyNat (a0 :: as) id : Nat) : ZMod q) := by
  rw [evalPoly, evalPolyLoop_cast, polyNat]
  push_cast
  ring

theorem evalPoly_modEq (a0 : Nat) (as : List Nat) (id : Nat) :
    evalPoly q (a0 :: as) id ≡ polyNat (a0 :: as) id [MOD q] :=
  (ZMod.natCast_eq_natCast_iff' _ _ _).1 (evalPoly_cast a0 as id)

theorem evalPoly_lt (hq : 0 < q) (a0 a1 : Nat) (as : List Nat) (id : Nat) :
    evalPoly q (a0 :: a1 :: as) id < q := by
  rw [evalPoly, evalPolyLoop]
  exact evalPolyLoop_lt hq _ _ _ _ (Nat.mod_lt _ hq)

theorem evalPoly_eq_mod (hq : 0 < q) (a0 : Nat) (as : List Nat) (has : as ≠ []) (id : Nat) :
    evalPoly q (a0 :: as) id = polyNat (a0 :: as) id % q := by
  cases as with
  | nil => exact absurd rfl has
  | cons a1 as =>
    have h1 := evalPoly_modEq (q := q) a0 (a1 :: as) id
    have h2 := evalPoly_lt hq a0 a1 as id
    rw [← h1, Nat.mod_eq_of_lt h2]

theorem evalPoly_singleton (a0 id : Nat) : evalPoly q [a0] id = a0 := rfl

theorem evalPoly_eval (a0 : Nat) (as : List Nat) (id : Nat) :
    ((evalPoly q (a0 :: as) id : Nat) : ZMod q) = (polyZ q (a0 :: as)).eval (id : ZMod q) := by
  rw [evalPoly_cast, polyZ_eval_natCast]

end Vss
end TssVerif
