import Mathlib.GroupTheory.OrderOfElement
import Mathlib.Data.Nat.ModEq
import Mathlib.Algebra.BigOperators.Group.Finset.Basic
import Mathlib.Algebra.BigOperators.Ring.Finset
import Mathlib.Tactic.Ring
/-! Scalars acting on a point of known order in an abstract commutative group, and the EdDSA share
algebra `Σ(r_i + h·w_i)·B = R + h·A`. -/
set_option autoImplicit false
namespace TssVerif.AlgL

variable {G : Type*} [AddCommGroup G]

/-- scalars congruent modulo `l` act alike on a point killed by `l` -/
theorem nsmul_congr_of_modEq {B : G} {l a b : ℕ} (hl : l • B = 0) (h : a ≡ b [MOD l]) :
    a • B = b • B := by
  have hd : addOrderOf B ∣ l := addOrderOf_dvd_of_nsmul_eq_zero hl
  exact (nsmul_eq_nsmul_iff_modEq (x := B)).2 (h.of_dvd hd)

theorem nsmul_mod_of_order {B : G} {l : ℕ} (hl : l • B = 0) (a : ℕ) : (a % l) • B = a • B :=
  nsmul_congr_of_modEq hl (Nat.mod_modEq a l)

theorem sum_modEq {ι : Type*} (s : Finset ι) (f g : ι → ℕ) (l : ℕ)
    (h : ∀ i ∈ s, f i ≡ g i [MOD l]) : ∑ i ∈ s, f i ≡ ∑ i ∈ s, g i [MOD l] := by
  classical
  induction s using Finset.induction_on with
  | empty => rfl
  | insert a s ha ih =>
    rw [Finset.sum_insert ha, Finset.sum_insert ha]
    exact (h a (Finset.mem_insert_self a s)).add
      (ih fun i hi => h i (Finset.mem_insert_of_mem hi))

/-- **the EdDSA share algebra**: `A = x·B`, `R = (Σr_i)·B`, `s_i ≡ r_i + h·w_i`, `Σw_i ≡ x (mod l)`,
`l·B = 0` ⟹ `(Σs_i mod l)·B = R + h·A` -/
theorem eddsa_sign_algebra {ι : Type*} (s : Finset ι) (B A R : G) (l x h : ℕ) (r w sh : ι → ℕ)
    (hl : l • B = 0) (hA : A = x • B) (hR : R = (∑ i ∈ s, r i) • B)
    (hs : ∀ i ∈ s, sh i ≡ r i + h * w i [MOD l]) (hw : ∑ i ∈ s, w i ≡ x [MOD l]) :
    ((∑ i ∈ s, sh i) % l) • B = R + h • A := by
  rw [nsmul_mod_of_order hl, hR, hA, ← mul_nsmul', ← add_nsmul]
  apply nsmul_congr_of_modEq hl
  have h1 := sum_modEq s sh (fun i => r i + h * w i) l hs
  rw [Finset.sum_add_distrib, ← Finset.mul_sum] at h1
  exact h1.trans (Nat.ModEq.add_left _ (hw.mul_left h))

end TssVerif.AlgL
