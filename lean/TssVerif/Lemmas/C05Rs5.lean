import TssVerif.Core.BlameEc5
import TssVerif.Lemmas.C05Ec
/-! Helper lemmas for `TssVerif/Props/C05f.lean`: the new-committee side of ECDSA resharing round 5
(`Core/BlameEc5.lean`): `rsFacPeer` (one peer's no-small-factor proof, judged under the verifier's own context and
ring-Pedersen parameters) and `rsRound5Fac` ("first failing peer is named") by recursion on the peer list. -/
set_option autoImplicit false
set_option linter.unusedSectionVars false
set_option linter.unusedVariables false
namespace TssVerif.C05Rs5L
open TssVerif BlameEc Zk C05L C06L C05EcL

variable {P : Type} (C : Curve P) (H : HashFn) (zcfg : Zk.Cfg) (noFac : Bool) (ownIdx : Nat) (ssid : Bytes)
  (nt h1 h2 : Nat)

/-! ## one peer -/

/-- the verdict as a function of the verifier's answer -/
def verdict : Bool → Option String
  | true => none
  | false => some "facProof verify failed"

/-- a proof that does not decode: tolerated or named, by configuration -/
theorem rsFacPeer_undecodable (p : RsR4Peer) (hd : facFromBytes p.facProof = none) :
    rsFacPeer C H zcfg noFac ownIdx ssid nt h1 h2 p =
      .ok (if noFac then none else some "facProof does not decode") := by
  unfold rsFacPeer; rw [hd]

/-- a proof that decodes: the verdict is the verifier's, under the context `ssid ‖ ownIdx` -/
theorem rsFacPeer_decodable (p : RsR4Peer) (pf : FacProof) (hd : facFromBytes p.facProof = some pf) :
    rsFacPeer C H zcfg noFac ownIdx ssid nt h1 h2 p =
      (facVerify zcfg H C.q (Blame.contextJ ssid ownIdx) p.paillierN nt h1 h2 pf >>= fun ok => .ok (verdict ok)) := by
  unfold rsFacPeer; rw [hd]
  dsimp only
  cases facVerify zcfg H C.q (Blame.contextJ ssid ownIdx) p.paillierN nt h1 h2 pf with
  | err e => rfl
  | panic e => rfl
  | ok b => cases b <;> rfl

theorem rsFacPeer_decodable_ok (p : RsR4Peer) (pf : FacProof) (hd : facFromBytes p.facProof = some pf) (b : Bool)
    (hv : facVerify zcfg H C.q (Blame.contextJ ssid ownIdx) p.paillierN nt h1 h2 pf = .ok b) :
    rsFacPeer C H zcfg noFac ownIdx ssid nt h1 h2 p = .ok (verdict b) := by
  rw [rsFacPeer_decodable C H zcfg noFac ownIdx ssid nt h1 h2 p pf hd, hv]; rfl

theorem rsFacPeer_ok_iff (p : RsR4Peer) (v : Option String) :
    rsFacPeer C H zcfg noFac ownIdx ssid nt h1 h2 p = .ok v ↔
      (∃ pf b, facFromBytes p.facProof = some pf ∧
        facVerify zcfg H C.q (Blame.contextJ ssid ownIdx) p.paillierN nt h1 h2 pf = .ok b ∧ v = verdict b) ∨
      (facFromBytes p.facProof = none ∧ v = if noFac then none else some "facProof does not decode") := by
  cases hd : facFromBytes p.facProof with
  | none =>
    rw [rsFacPeer_undecodable C H zcfg noFac ownIdx ssid nt h1 h2 p hd]
    constructor
    · intro h; injection h with h; exact Or.inr ⟨rfl, h.symm⟩
    · rintro (⟨pf, b, h, _⟩ | ⟨_, h⟩)
      · cases h
      · rw [h]
  | some pf =>
    rw [rsFacPeer_decodable C H zcfg noFac ownIdx ssid nt h1 h2 p pf hd]
    cases hv : facVerify zcfg H C.q (Blame.contextJ ssid ownIdx) p.paillierN nt h1 h2 pf with
    | err e =>
      constructor
      · intro h; cases h
      · rintro (⟨pf', b, h, h2, _⟩ | ⟨h, _⟩)
        · injection h with h; subst h; rw [hv] at h2; cases h2
        · cases h
    | panic e =>
      constructor
      · intro h; cases h
      · rintro (⟨pf', b, h, h2, _⟩ | ⟨h, _⟩)
        · injection h with h; subst h; rw [hv] at h2; cases h2
        · cases h
    | ok b =>
      constructor
      · intro h; injection h with h; exact Or.inl ⟨pf, b, rfl, hv, h.symm⟩
      · rintro (⟨pf', b', h, h2, h3⟩ | ⟨h, _⟩)
        · injection h with h; subst h; rw [hv] at h2; injection h2 with h2; subst h2; rw [h3]; rfl
        · cases h

/-- exact acceptance condition -/
theorem rsFacPeer_none_iff (p : RsR4Peer) :
    rsFacPeer C H zcfg noFac ownIdx ssid nt h1 h2 p = .ok none ↔
      (∃ pf, facFromBytes p.facProof = some pf ∧
        facVerify zcfg H C.q (Blame.contextJ ssid ownIdx) p.paillierN nt h1 h2 pf = .ok true) ∨
      (facFromBytes p.facProof = none ∧ noFac = true) := by
  rw [rsFacPeer_ok_iff]
  constructor
  · rintro (⟨pf, b, hd, hv, hb⟩ | ⟨hd, hb⟩)
    · cases b with
      | false => cases hb
      | true => exact Or.inl ⟨pf, hd, hv⟩
    · cases noFac with
      | false => cases hb
      | true => exact Or.inr ⟨hd, rfl⟩
  · rintro (⟨pf, hd, hv⟩ | ⟨hd, hb⟩)
    · exact Or.inl ⟨pf, true, hd, hv, rfl⟩
    · exact Or.inr ⟨hd, by rw [hb]; rfl⟩

/-- exact rejection condition, with the reason -/
theorem rsFacPeer_some_iff (p : RsR4Peer) (why : String) :
    rsFacPeer C H zcfg noFac ownIdx ssid nt h1 h2 p = .ok (some why) ↔
      (∃ pf, facFromBytes p.facProof = some pf ∧
        facVerify zcfg H C.q (Blame.contextJ ssid ownIdx) p.paillierN nt h1 h2 pf = .ok false ∧
        why = "facProof verify failed") ∨
      (facFromBytes p.facProof = none ∧ noFac = false ∧ why = "facProof does not decode") := by
  rw [rsFacPeer_ok_iff]
  constructor
  · rintro (⟨pf, b, hd, hv, hb⟩ | ⟨hd, hb⟩)
    · cases b with
      | true => cases hb
      | false => injection hb with hb; exact Or.inl ⟨pf, hd, hv, hb⟩
    · cases noFac with
      | true => cases hb
      | false => injection hb with hb; exact Or.inr ⟨hd, rfl, hb⟩
  · rintro (⟨pf, hd, hv, hw⟩ | ⟨hd, hb, hw⟩)
    · exact Or.inl ⟨pf, false, hd, hv, by rw [hw]; rfl⟩
    · exact Or.inr ⟨hd, by rw [hb, hw]; rfl⟩

/-! ## the round: first failing peer -/

theorem rsRound5Fac_nil : rsRound5Fac C H zcfg noFac ownIdx ssid nt h1 h2 [] = .ok none := by
  unfold rsRound5Fac; rfl

theorem rsRound5Fac_cons_some (p : RsR4Peer) (rest : List RsR4Peer) (why : String)
    (h : rsFacPeer C H zcfg noFac ownIdx ssid nt h1 h2 p = .ok (some why)) :
    rsRound5Fac C H zcfg noFac ownIdx ssid nt h1 h2 (p :: rest) = .ok (some (p.idx, why)) := by
  rw [rsRound5Fac, h]; rfl

theorem rsRound5Fac_cons_none (p : RsR4Peer) (rest : List RsR4Peer)
    (h : rsFacPeer C H zcfg noFac ownIdx ssid nt h1 h2 p = .ok none) :
    rsRound5Fac C H zcfg noFac ownIdx ssid nt h1 h2 (p :: rest) =
      rsRound5Fac C H zcfg noFac ownIdx ssid nt h1 h2 rest := by
  rw [rsRound5Fac, h]; rfl

theorem rsRound5Fac_cons_err (p : RsR4Peer) (rest : List RsR4Peer) (e : String)
    (h : rsFacPeer C H zcfg noFac ownIdx ssid nt h1 h2 p = .err e) :
    rsRound5Fac C H zcfg noFac ownIdx ssid nt h1 h2 (p :: rest) = .err e := by
  rw [rsRound5Fac, h]; rfl

theorem rsRound5Fac_cons_panic (p : RsR4Peer) (rest : List RsR4Peer) (e : String)
    (h : rsFacPeer C H zcfg noFac ownIdx ssid nt h1 h2 p = .panic e) :
    rsRound5Fac C H zcfg noFac ownIdx ssid nt h1 h2 (p :: rest) = .panic e := by
  rw [rsRound5Fac, h]; rfl

/-- inversion of one step of the loop -/
theorem rsRound5Fac_cons_inv (p : RsR4Peer) (rest : List RsR4Peer) (r : Option (Nat × String))
    (h : rsRound5Fac C H zcfg noFac ownIdx ssid nt h1 h2 (p :: rest) = .ok r) :
    (∃ why, rsFacPeer C H zcfg noFac ownIdx ssid nt h1 h2 p = .ok (some why) ∧ r = some (p.idx, why)) ∨
    (rsFacPeer C H zcfg noFac ownIdx ssid nt h1 h2 p = .ok none ∧
      rsRound5Fac C H zcfg noFac ownIdx ssid nt h1 h2 rest = .ok r) := by
  cases hp : rsFacPeer C H zcfg noFac ownIdx ssid nt h1 h2 p with
  | err e => rw [rsRound5Fac_cons_err C H zcfg noFac ownIdx ssid nt h1 h2 p rest e hp] at h; cases h
  | panic e => rw [rsRound5Fac_cons_panic C H zcfg noFac ownIdx ssid nt h1 h2 p rest e hp] at h; cases h
  | ok v =>
    cases v with
    | some why =>
      rw [rsRound5Fac_cons_some C H zcfg noFac ownIdx ssid nt h1 h2 p rest why hp] at h
      injection h with h
      exact Or.inl ⟨why, rfl, h.symm⟩
    | none =>
      rw [rsRound5Fac_cons_none C H zcfg noFac ownIdx ssid nt h1 h2 p rest hp] at h
      exact Or.inr ⟨rfl, h⟩

/-- **first failing peer**: exact characterisation of a named peer -/
theorem rsRound5Fac_some_iff (peers : List RsR4Peer) (c : Nat) (why : String) :
    rsRound5Fac C H zcfg noFac ownIdx ssid nt h1 h2 peers = .ok (some (c, why)) ↔
      ∃ pre p post, peers = pre ++ p :: post ∧
        (∀ q ∈ pre, rsFacPeer C H zcfg noFac ownIdx ssid nt h1 h2 q = .ok none) ∧
        rsFacPeer C H zcfg noFac ownIdx ssid nt h1 h2 p = .ok (some why) ∧ p.idx = c := by
  induction peers with
  | nil =>
    rw [rsRound5Fac_nil]
    constructor
    · intro h; cases h
    · rintro ⟨pre, p, post, h, _⟩
      cases pre <;> cases h
  | cons p rest ih =>
    constructor
    · intro h
      rcases rsRound5Fac_cons_inv C H zcfg noFac ownIdx ssid nt h1 h2 p rest _ h with ⟨w, hp, hr⟩ | ⟨hp, hr⟩
      · injection hr with hr
        injection hr with hc hw
        subst hw
        exact ⟨[], p, rest, rfl, fun q hq => (by cases hq), hp, hc.symm⟩
      · obtain ⟨pre, q, post, hsplit, hpre, hq, hidx⟩ := ih.1 hr
        refine ⟨p :: pre, q, post, by rw [hsplit]; rfl, ?_, hq, hidx⟩
        intro q' hq'
        rcases List.mem_cons.1 hq' with rfl | hq'
        · exact hp
        · exact hpre q' hq'
    · rintro ⟨pre, q, post, hsplit, hpre, hq, hidx⟩
      cases pre with
      | nil =>
        injection hsplit with e1 e2
        subst e1
        rw [rsRound5Fac_cons_some C H zcfg noFac ownIdx ssid nt h1 h2 p rest why hq, hidx]
      | cons p' pre' =>
        injection hsplit with e1 e2
        subst e1
        rw [rsRound5Fac_cons_none C H zcfg noFac ownIdx ssid nt h1 h2 p rest (hpre p (List.mem_cons_self ..))]
        exact ih.2 ⟨pre', q, post, e2, fun q' hq' => hpre q' (List.mem_cons_of_mem _ hq'), hq, hidx⟩

/-- the party emits its key data iff every peer's proof is accepted -/
theorem rsRound5Fac_none_iff (peers : List RsR4Peer) :
    rsRound5Fac C H zcfg noFac ownIdx ssid nt h1 h2 peers = .ok none ↔
      ∀ p ∈ peers, rsFacPeer C H zcfg noFac ownIdx ssid nt h1 h2 p = .ok none := by
  induction peers with
  | nil =>
    rw [rsRound5Fac_nil]
    exact ⟨fun _ p hp => (by cases hp), fun _ => rfl⟩
  | cons p rest ih =>
    constructor
    · intro h
      rcases rsRound5Fac_cons_inv C H zcfg noFac ownIdx ssid nt h1 h2 p rest _ h with ⟨w, hp, hr⟩ | ⟨hp, hr⟩
      · cases hr
      · intro q hq
        rcases List.mem_cons.1 hq with rfl | hq
        · exact hp
        · exact ih.1 hr q hq
    · intro hall
      rw [rsRound5Fac_cons_none C H zcfg noFac ownIdx ssid nt h1 h2 p rest (hall p (List.mem_cons_self ..))]
      exact ih.2 fun q hq => hall q (List.mem_cons_of_mem _ hq)

theorem rsRound5Fac_culprit_mem (peers : List RsR4Peer) (c : Nat) (why : String)
    (h : rsRound5Fac C H zcfg noFac ownIdx ssid nt h1 h2 peers = .ok (some (c, why))) :
    ∃ p ∈ peers, p.idx = c ∧ rsFacPeer C H zcfg noFac ownIdx ssid nt h1 h2 p = .ok (some why) := by
  obtain ⟨pre, p, post, rfl, _, hp, hidx⟩ := (rsRound5Fac_some_iff C H zcfg noFac ownIdx ssid nt h1 h2 peers c why).1 h
  exact ⟨p, by simp, hidx, hp⟩

/-- everybody but `dev` passes: a failure names `dev` -/
theorem rsRound5Fac_single_deviator (peers : List RsR4Peer) (dev : Nat)
    (hothers : ∀ p ∈ peers, p.idx ≠ dev → rsFacPeer C H zcfg noFac ownIdx ssid nt h1 h2 p = .ok none)
    (c : Nat) (why : String)
    (h : rsRound5Fac C H zcfg noFac ownIdx ssid nt h1 h2 peers = .ok (some (c, why))) : c = dev := by
  obtain ⟨p, hp, hidx, hbad⟩ := rsRound5Fac_culprit_mem C H zcfg noFac ownIdx ssid nt h1 h2 peers c why h
  by_contra hne
  rw [hothers p hp (by rw [hidx]; exact hne)] at hbad
  cases hbad

/-- … and when `dev`'s proof is rejected, exactly `dev` is named, with the reason of its check -/
theorem rsRound5Fac_deviator_blamed (peers : List RsR4Peer) (d : RsR4Peer)
    (hnd : (peers.map (·.idx)).Nodup) (hd : d ∈ peers)
    (hothers : ∀ p ∈ peers, p.idx ≠ d.idx → rsFacPeer C H zcfg noFac ownIdx ssid nt h1 h2 p = .ok none)
    (why : String) (hbad : rsFacPeer C H zcfg noFac ownIdx ssid nt h1 h2 d = .ok (some why)) :
    rsRound5Fac C H zcfg noFac ownIdx ssid nt h1 h2 peers = .ok (some (d.idx, why)) := by
  obtain ⟨pre, post, rfl⟩ := List.append_of_mem hd
  refine (rsRound5Fac_some_iff C H zcfg noFac ownIdx ssid nt h1 h2 _ d.idx why).2 ⟨pre, d, post, rfl, ?_, hbad, rfl⟩
  intro p hp
  refine hothers p (by simp [hp]) ?_
  intro he
  rw [List.map_append, List.map_cons] at hnd
  exact (List.nodup_append.1 hnd).2.2 p.idx (List.mem_map.2 ⟨p, hp, rfl⟩) d.idx (List.mem_cons_self ..) he

/-! ## the call returns on the current tree -/

theorem facVerify_cur_noErr (q : Nat) (sess : Bytes) (n0 ncap s t : Int) (pf : FacProof) :
    NoErr (facVerify cur H q sess n0 ncap s t pf) := by
  unfold facVerify
  refine NoErr.ite (fun _ => NoErr.ok _) (fun _ => ?_)
  refine NoErr.ite (fun _ => NoErr.ok _) (fun gcap => ?_)
  dsimp only
  refine NoErr.ite (fun _ => NoErr.ok _) (fun _ => ?_)
  refine NoErr.ite (fun _ => NoErr.ok _) (fun _ => ?_)
  have gcap' : 0 < ncap := by simpa [cur] using gcap
  rw [if_neg (by omega)]
  refine NoErr.bind (expP_noErr _ _ _) (fun _ _ => ?_)
  refine NoErr.bind (expP_noErr _ _ _) (fun _ _ => ?_)
  refine NoErr.bind (expP_noErr _ _ _) (fun _ _ => ?_)
  refine NoErr.ite (fun _ => NoErr.ok _) (fun _ => ?_)
  refine NoErr.bind (expP_noErr _ _ _) (fun _ _ => ?_)
  refine NoErr.bind (expP_noErr _ _ _) (fun _ _ => ?_)
  refine NoErr.bind (expP_noErr _ _ _) (fun _ _ => ?_)
  refine NoErr.ite (fun _ => NoErr.ok _) (fun _ => ?_)
  refine NoErr.bind (expP_noErr _ _ _) (fun _ _ => ?_)
  refine NoErr.bind (expP_noErr _ _ _) (fun _ _ => ?_)
  refine NoErr.bind (expP_noErr _ _ _) (fun _ _ => ?_)
  refine NoErr.bind (expP_noErr _ _ _) (fun _ _ => ?_)
  refine NoErr.bind (expP_noErr _ _ _) (fun _ _ => ?_)
  exact NoErr.ok _

theorem ok_of_noPanic_noErr {α : Type} {o : Outcome α} (hp : NoPanic o) (he : NoErr o) : ∃ a, o = .ok a := by
  cases o with
  | ok a => exact ⟨a, rfl⟩
  | err e => exact absurd rfl (he e)
  | panic t => exact absurd rfl (hp t)

/-- a decoded proof is verified to a verdict: no crash (its fields are non-negative), no reported error -/
theorem facVerify_decoded_returns (p : RsR4Peer) (pf : FacProof) (hd : facFromBytes p.facProof = some pf)
    (sess : Bytes) (n0 ncap s t : Int) : ∃ b, facVerify cur H C.q sess n0 ncap s t pf = .ok b :=
  ok_of_noPanic_noErr (facVerify_noPanic H C.q sess n0 ncap s t pf (Or.inl (facFromBytes_nonneg _ _ hd)))
    (facVerify_cur_noErr H C.q sess n0 ncap s t pf)

/-- **the per-peer check always returns a verdict** on the current tree, whatever the peer sent and whatever the
party's own parameters are -/
theorem rsFacPeer_total (p : RsR4Peer) : ∃ v, rsFacPeer C H Zk.cur noFac ownIdx ssid nt h1 h2 p = .ok v := by
  cases hd : facFromBytes p.facProof with
  | none => exact ⟨_, rsFacPeer_undecodable C H _ noFac ownIdx ssid nt h1 h2 p hd⟩
  | some pf =>
    obtain ⟨b, hb⟩ := facVerify_decoded_returns C H p pf hd (Blame.contextJ ssid ownIdx) p.paillierN nt h1 h2
    exact ⟨_, rsFacPeer_decodable_ok C H _ noFac ownIdx ssid nt h1 h2 p pf hd b hb⟩

theorem rsRound5Fac_total (peers : List RsR4Peer) :
    ∃ r, rsRound5Fac C H Zk.cur noFac ownIdx ssid nt h1 h2 peers = .ok r := by
  induction peers with
  | nil => exact ⟨none, rsRound5Fac_nil C H _ noFac ownIdx ssid nt h1 h2⟩
  | cons p rest ih =>
    obtain ⟨v, hv⟩ := rsFacPeer_total C H noFac ownIdx ssid nt h1 h2 p
    cases v with
    | some why => exact ⟨_, rsRound5Fac_cons_some C H _ noFac ownIdx ssid nt h1 h2 p rest why hv⟩
    | none =>
      obtain ⟨r, hr⟩ := ih
      exact ⟨r, by rw [rsRound5Fac_cons_none C H _ noFac ownIdx ssid nt h1 h2 p rest hv]; exact hr⟩

end TssVerif.C05Rs5L
