import TssVerif.Core.BlameEc
import TssVerif.Lemmas.C05
import TssVerif.Lemmas.C06
/-! Helper lemmas for `TssVerif/Props/C05b.lean`: the loop of ECDSA key generation round 2 (`BlameEc.scan`)
as "first message whose structural check fails", the verdict lists of the verifier pool as filters, the
per-peer check of round 3 stage by stage, and the no-panic facts of both rounds. -/
set_option autoImplicit false
set_option linter.unusedSectionVars false
set_option linter.unusedVariables false
namespace TssVerif.C05EcL
open TssVerif BlameEc Zk C05L C06L

/-! ### association lists -/
section lookup
variable {β : Type}

theorem lookup_some_mem : ∀ (l : List (Nat × β)) (a : Nat) (b : β), l.lookup a = some b → (a, b) ∈ l := by
  intro l
  induction l with
  | nil => intro a b h; cases h
  | cons p l ih =>
    intro a b h
    obtain ⟨x, y⟩ := p
    rw [List.lookup_cons] at h
    by_cases hx : a = x
    · subst hx
      simp only [beq_self_eq_true] at h
      injection h with h
      subst h
      exact List.mem_cons_self ..
    · have : (a == x) = false := by simpa using hx
      rw [this] at h
      exact List.mem_cons_of_mem _ (ih a b h)

theorem lookup_none_iff : ∀ (l : List (Nat × β)) (a : Nat), l.lookup a = none ↔ ∀ p ∈ l, p.1 ≠ a := by
  intro l
  induction l with
  | nil => intro a; simp
  | cons p l ih =>
    intro a
    obtain ⟨x, y⟩ := p
    rw [List.lookup_cons]
    by_cases hx : a = x
    · subst hx
      simp
    · have : (a == x) = false := by simpa using hx
      rw [this]
      simp only [ih, List.mem_cons, forall_eq_or_imp, ne_eq]
      constructor
      · intro h; exact ⟨fun e => hx e.symm, h⟩
      · intro h; exact h.2

theorem lookup_isSome_of_mem (l : List (Nat × β)) (a : Nat) (b : β) (h : (a, b) ∈ l) :
    ∃ k, l.lookup a = some k := by
  cases hl : l.lookup a with
  | some k => exact ⟨k, rfl⟩
  | none => exact absurd rfl ((lookup_none_iff l a).1 hl _ h)

end lookup

/-! ### `duplicateCulprits` -/

theorem dup_own_left {own k : Nat} (hk : k ≠ own) : duplicateCulprits own own k = [k] := by
  unfold duplicateCulprits; rw [if_pos ⟨rfl, hk⟩]

theorem dup_own_right {own j : Nat} (hj : j ≠ own) : duplicateCulprits own j own = [j] := by
  unfold duplicateCulprits; rw [if_neg (fun h => hj h.1), if_pos ⟨rfl, hj⟩]

theorem dup_neither {own j k : Nat} (hj : j ≠ own) (hk : k ≠ own) : duplicateCulprits own j k = [] := by
  unfold duplicateCulprits; rw [if_neg (fun h => hj h.1), if_neg (fun h => hk h.1)]

theorem dup_both {own : Nat} : duplicateCulprits own own own = [] := by
  unfold duplicateCulprits; simp

theorem dup_subset (own j k : Nat) : ∀ c ∈ duplicateCulprits own j k, c = j ∨ c = k := by
  intro c hc
  unfold duplicateCulprits at hc
  split at hc
  · simp at hc; exact Or.inr hc
  · split at hc
    · simp at hc; exact Or.inl hc
    · cases hc

theorem dup_not_own (own j k : Nat) : own ∉ duplicateCulprits own j k := by
  intro hc
  unfold duplicateCulprits at hc
  split at hc
  · rename_i h; simp at hc; exact h.2 hc.symm
  · split at hc
    · rename_i h; simp at hc; exact h.2 hc.symm
    · cases hc

/-! ### the structural checks on one message -/

/-- the three size/shape checks pass -/
def SizesOk (m : R1Msg) : Prop := bitLen m.paillierN = 2048 ∧ m.h1 ≠ m.h2 ∧ bitLen m.nTilde = 2048

def msgPaillier : String := "got paillier modulus with insufficient bits for this party"
def msgEqual : String := "h1j and h2j were equal for this party"
def msgNTilde : String := "got NTildej with insufficient bits for this party"
def msgDupH1 : String := "this h1j was already used by another party"
def msgDupH2 : String := "this h2j was already used by another party"

theorem structural_of_sizesOk (own : Nat) (seen : List (Nat × Nat)) (m : R1Msg) (hs : SizesOk m) :
    structural own seen m =
      match seen.lookup m.h1 with
      | some k => some (msgDupH1, duplicateCulprits own m.idx k)
      | none =>
        match seen.lookup m.h2 with
        | some k => some (msgDupH2, duplicateCulprits own m.idx k)
        | none => none := by
  obtain ⟨h1, h2, h3⟩ := hs
  unfold structural paillierBitsLen
  rw [if_neg (by simp [h1]), if_neg (by simp [h2]), if_neg (by simp [h3])]
  rfl

theorem structural_of_not_sizesOk (own : Nat) (seen : List (Nat × Nat)) (m : R1Msg) (hs : ¬ SizesOk m) :
    ∃ why, structural own seen m = some (why, [m.idx]) ∧
      (why = msgPaillier ∨ why = msgEqual ∨ why = msgNTilde) := by
  unfold structural paillierBitsLen
  by_cases h1 : bitLen m.paillierN = 2048
  · rw [if_neg (by simp [h1])]
    by_cases h2 : m.h1 = m.h2
    · rw [if_pos (by simp [h2])]
      exact ⟨_, rfl, Or.inr (Or.inl rfl)⟩
    · rw [if_neg (by simp [h2])]
      have h3 : bitLen m.nTilde ≠ 2048 := fun h3 => hs ⟨h1, h2, h3⟩
      rw [if_pos (by simp [h3])]
      exact ⟨_, rfl, Or.inr (Or.inr rfl)⟩
  · rw [if_pos (by simp [h1])]
    exact ⟨_, rfl, Or.inl rfl⟩

theorem structural_none_iff (own : Nat) (seen : List (Nat × Nat)) (m : R1Msg) :
    structural own seen m = none ↔
      SizesOk m ∧ (∀ p ∈ seen, p.1 ≠ m.h1) ∧ (∀ p ∈ seen, p.1 ≠ m.h2) := by
  by_cases hs : SizesOk m
  · rw [structural_of_sizesOk own seen m hs, ← lookup_none_iff, ← lookup_none_iff]
    cases h1 : seen.lookup m.h1 with
    | some k => simp
    | none =>
      cases h2 : seen.lookup m.h2 with
      | some k => simp
      | none => simp [hs]
  · obtain ⟨why, hw, _⟩ := structural_of_not_sizesOk own seen m hs
    rw [hw]
    simp [hs]

/-- the two ways the structural check fails: a size/shape failure names the sender; a clash names
`duplicateCulprits` of the sender and the index `k` recorded with the clashing value -/
theorem structural_some_cases (own : Nat) (seen : List (Nat × Nat)) (m : R1Msg) (why : String)
    (cs : List Nat) (h : structural own seen m = some (why, cs)) :
    (¬ SizesOk m ∧ cs = [m.idx] ∧ (why = msgPaillier ∨ why = msgEqual ∨ why = msgNTilde)) ∨
    (SizesOk m ∧ (why = msgDupH1 ∨ why = msgDupH2) ∧
      ∃ k, ((m.h1, k) ∈ seen ∨ (m.h2, k) ∈ seen) ∧ cs = duplicateCulprits own m.idx k) := by
  by_cases hs : SizesOk m
  · right
    rw [structural_of_sizesOk own seen m hs] at h
    cases h1 : seen.lookup m.h1 with
    | some k =>
      rw [h1] at h
      injection h with h
      injection h with ha hb
      exact ⟨hs, Or.inl ha.symm, k, Or.inl (lookup_some_mem _ _ _ h1), hb.symm⟩
    | none =>
      rw [h1] at h
      cases h2 : seen.lookup m.h2 with
      | some k =>
        rw [h2] at h
        injection h with h
        injection h with ha hb
        exact ⟨hs, Or.inr ha.symm, k, Or.inr (lookup_some_mem _ _ _ h2), hb.symm⟩
      | none => rw [h2] at h; cases h
  · left
    obtain ⟨why', hw, hc⟩ := structural_of_not_sizesOk own seen m hs
    rw [hw] at h
    injection h with h
    injection h with ha hb
    subst ha hb
    exact ⟨hs, rfl, hc⟩

/-! ### the loop: first message whose structural check fails -/

/-- the table `seen` after the messages `pre` were recorded -/
def seenAfter (seen : List (Nat × Nat)) (pre : List R1Msg) : List (Nat × Nat) :=
  pre.foldl (fun s m => (m.h1, m.idx) :: (m.h2, m.idx) :: s) seen

theorem seenAfter_nil (seen : List (Nat × Nat)) : seenAfter seen [] = seen := rfl

theorem seenAfter_cons (seen : List (Nat × Nat)) (m : R1Msg) (pre : List R1Msg) :
    seenAfter seen (m :: pre) = seenAfter ((m.h1, m.idx) :: (m.h2, m.idx) :: seen) pre := rfl

theorem mem_seenAfter (p : Nat × Nat) : ∀ (pre : List R1Msg) (seen : List (Nat × Nat)),
    p ∈ seenAfter seen pre ↔ p ∈ seen ∨ ∃ m ∈ pre, p = (m.h1, m.idx) ∨ p = (m.h2, m.idx) := by
  intro pre
  induction pre with
  | nil => intro seen; simp [seenAfter_nil]
  | cons m pre ih =>
    intro seen
    rw [seenAfter_cons, ih]
    simp only [List.mem_cons, exists_eq_or_imp]
    constructor
    · rintro ((h | h | h) | h)
      · exact Or.inr (Or.inl (Or.inl h))
      · exact Or.inr (Or.inl (Or.inr h))
      · exact Or.inl h
      · exact Or.inr (Or.inr h)
    · rintro (h | (h | h) | h)
      · exact Or.inl (Or.inr (Or.inr h))
      · exact Or.inl (Or.inl h)
      · exact Or.inl (Or.inr (Or.inl h))
      · exact Or.inr h

theorem scan_nil (own : Nat) (seen : List (Nat × Nat)) : scan own seen [] = ([], none) := rfl

theorem scan_cons_some (own : Nat) (seen : List (Nat × Nat)) (m : R1Msg) (rest : List R1Msg)
    (f : String × List Nat) (h : structural own seen m = some f) :
    scan own seen (m :: rest) = ([], some f) := by
  rw [scan, h]

theorem scan_cons_none (own : Nat) (seen : List (Nat × Nat)) (m : R1Msg) (rest : List R1Msg)
    (h : structural own seen m = none) :
    scan own seen (m :: rest) =
      (m :: (scan own ((m.h1, m.idx) :: (m.h2, m.idx) :: seen) rest).1,
        (scan own ((m.h1, m.idx) :: (m.h2, m.idx) :: seen) rest).2) := by
  rw [scan, h]

/-- **what the loop returns**: either every message passes its structural check (each against the table
built from the messages before it) and all are spawned; or the messages split as `pre ++ m :: post` where
`m` is the first one whose check fails: exactly `pre` is spawned and the failure is that of `m` -/
theorem scan_cases (own : Nat) : ∀ (msgs : List R1Msg) (seen : List (Nat × Nat)),
    (scan own seen msgs = (msgs, none) ∧
      ∀ pre m post, msgs = pre ++ m :: post → structural own (seenAfter seen pre) m = none) ∨
    (∃ pre m post f, msgs = pre ++ m :: post ∧ scan own seen msgs = (pre, some f) ∧
      structural own (seenAfter seen pre) m = some f ∧
      ∀ pre' m' post', pre = pre' ++ m' :: post' → structural own (seenAfter seen pre') m' = none) := by
  intro msgs
  induction msgs with
  | nil =>
    intro seen
    left
    refine ⟨rfl, ?_⟩
    intro pre m post h
    cases pre <;> cases h
  | cons a rest ih =>
    intro seen
    cases hs : structural own seen a with
    | some f =>
      right
      refine ⟨[], a, rest, f, rfl, scan_cons_some own seen a rest f hs, hs, ?_⟩
      intro pre' m' post' h
      cases pre' <;> cases h
    | none =>
      rw [scan_cons_none own seen a rest hs]
      rcases ih ((a.h1, a.idx) :: (a.h2, a.idx) :: seen) with ⟨h1, h2⟩ | ⟨pre, m, post, f, h1, h2, h3, h4⟩
      · left
        refine ⟨by rw [h1], ?_⟩
        intro pre m post h
        cases pre with
        | nil =>
          injection h with ha hb
          subst ha
          exact hs
        | cons b pre =>
          injection h with ha hb
          subst ha
          rw [seenAfter_cons]
          exact h2 pre m post hb
      · right
        refine ⟨a :: pre, m, post, f, by rw [h1]; rfl, by rw [h2], by rw [seenAfter_cons]; exact h3, ?_⟩
        intro pre' m' post' h
        cases pre' with
        | nil =>
          injection h with ha hb
          subst ha
          exact hs
        | cons b pre' =>
          injection h with ha hb
          subst ha
          rw [seenAfter_cons]
          exact h4 pre' m' post' hb

/-- the spawned messages are a prefix of the stored ones -/
theorem scan_spawned_prefix (own : Nat) (msgs : List R1Msg) (seen : List (Nat × Nat)) :
    ∃ post, msgs = (scan own seen msgs).1 ++ post := by
  rcases scan_cases own msgs seen with ⟨h1, _⟩ | ⟨pre, m, post, f, h1, h2, _, _⟩
  · exact ⟨[], by rw [h1]; simp⟩
  · exact ⟨m :: post, by rw [h2]; exact h1⟩

theorem scan_spawned_subset (own : Nat) (msgs : List R1Msg) (seen : List (Nat × Nat)) :
    ∀ m ∈ (scan own seen msgs).1, m ∈ msgs := by
  obtain ⟨post, h⟩ := scan_spawned_prefix own msgs seen
  intro m hm
  rw [h]
  exact List.mem_append_left _ hm

/-! ### round 2 as a function of the loop result and the pool verdicts -/
section round2
variable (H : HashFn) (pcfg : ParseCfg)

def chk1 (m : R1Msg) : Outcome Bool := dlnCheck H pcfg m.dln1 m.h1 m.h2 m.nTilde
def chk2 (m : R1Msg) : Outcome Bool := dlnCheck H pcfg m.dln2 m.h2 m.h1 m.nTilde

def msgDln : String := "dln proof verification failed"

def decide2 (failure : Option (String × List Nat)) (spawned : List R1Msg) (v1 v2 : List Bool) : Verdict :=
  match failure with
  | some (why, cs) => .fail why cs
  | none =>
    match ((spawned.zip v1).filter (fun p => !p.2) ++ (spawned.zip v2).filter (fun p => !p.2)).map (·.1.idx) with
    | [] => .pass
    | j :: _ => .fail msgDln [j]

theorem round2_eq (own : Nat) (msgs : List R1Msg) :
    round2 H pcfg own msgs =
      (scan own [] msgs).1.mapM (chk1 H pcfg) >>= fun v1 =>
      (scan own [] msgs).1.mapM (chk2 H pcfg) >>= fun v2 =>
      .ok (decide2 (scan own [] msgs).2 (scan own [] msgs).1 v1 v2) := by
  unfold round2
  obtain ⟨sp, f⟩ := scan own [] msgs
  show (sp.mapM (chk1 H pcfg) >>= fun v1 => sp.mapM (chk2 H pcfg) >>= fun v2 => _) = _
  cases (sp.mapM (chk1 H pcfg)) with
  | err e => rfl
  | panic e => rfl
  | ok v1 =>
    simp only [Outcome.ok_bind]
    cases (sp.mapM (chk2 H pcfg)) with
    | err e => rfl
    | panic e => rfl
    | ok v2 =>
      simp only [Outcome.ok_bind]
      cases f with
      | some f => rfl
      | none =>
        simp only [decide2]
        generalize List.map (fun (x : R1Msg × Bool) => x.1.idx) _ = bad
        cases bad <;> rfl

/-- the verdict is "invalid" -/
def isFalse : Outcome Bool → Bool
  | .ok false => true
  | _ => false

theorem isFalse_iff (o : Outcome Bool) : isFalse o = true ↔ o = .ok false := by
  cases o with
  | ok b => cases b <;> simp [isFalse]
  | err e => simp [isFalse]
  | panic e => simp [isFalse]

theorem forall₂_left_exists {α β : Type} {R : α → β → Prop} {l : List α} {vs : List β}
    (h : List.Forall₂ R l vs) : ∀ a ∈ l, ∃ v, R a v := by
  induction h with
  | nil => intro a ha; cases ha
  | cons h1 _ ih =>
    intro a ha
    rcases List.mem_cons.1 ha with rfl | ha
    · exact ⟨_, h1⟩
    · exact ih a ha

theorem zip_filter_false (chk : R1Msg → Outcome Bool) (l : List R1Msg) (vs : List Bool)
    (h : List.Forall₂ (fun m v => chk m = .ok v) l vs) :
    ((l.zip vs).filter (fun p => !p.2)).map (·.1) = l.filter (fun m => isFalse (chk m)) := by
  induction h with
  | nil => rfl
  | @cons m v l vs h1 _ ih =>
    rw [List.zip_cons_cons, List.filter_cons, List.filter_cons, h1]
    cases v with
    | false =>
      have hb : isFalse (Outcome.ok false) = true := rfl
      rw [hb]
      simp only [Bool.not_false, if_true, List.map_cons]
      rw [ih]
    | true =>
      have hb : isFalse (Outcome.ok true) = false := rfl
      rw [hb]
      simp only [Bool.not_true, Bool.false_eq_true, if_false]
      exact ih

/-- indices of the spawned messages with an invalid first proof, then of those with an invalid second proof -/
def badIdx (sp : List R1Msg) : List Nat :=
  (sp.filter (fun m => isFalse (chk1 H pcfg m)) ++ sp.filter (fun m => isFalse (chk2 H pcfg m))).map (·.idx)

def dlnVerdict : List Nat → Verdict
  | [] => .pass
  | j :: _ => .fail msgDln [j]

def verdictOf (failure : Option (String × List Nat)) (bad : List Nat) : Verdict :=
  match failure with
  | some (why, cs) => .fail why cs
  | none => dlnVerdict bad

theorem decide2_eq (failure : Option (String × List Nat)) (sp : List R1Msg) (v1 v2 : List Bool)
    (h1 : List.Forall₂ (fun m v => chk1 H pcfg m = .ok v) sp v1)
    (h2 : List.Forall₂ (fun m v => chk2 H pcfg m = .ok v) sp v2) :
    decide2 failure sp v1 v2 = verdictOf failure (badIdx H pcfg sp) := by
  unfold decide2 verdictOf
  cases failure with
  | some f => rfl
  | none =>
    have e : (fun (x : R1Msg × Bool) => x.1.idx) = (fun m : R1Msg => m.idx) ∘ (fun x : R1Msg × Bool => x.1) := rfl
    have hb : ((sp.zip v1).filter (fun p => !p.2) ++ (sp.zip v2).filter (fun p => !p.2)).map (·.1.idx) =
        badIdx H pcfg sp := by
      unfold badIdx
      rw [e, ← List.map_map, List.map_append, zip_filter_false _ _ _ h1, zip_filter_false _ _ _ h2]
    simp only [hb]
    cases badIdx H pcfg sp <;> rfl

/-- **the result of round 2 when every pool job returns a verdict** -/
theorem round2_of_checks_ok (own : Nat) (msgs : List R1Msg)
    (h1 : ∀ m ∈ (scan own [] msgs).1, ∃ b, chk1 H pcfg m = .ok b)
    (h2 : ∀ m ∈ (scan own [] msgs).1, ∃ b, chk2 H pcfg m = .ok b) :
    round2 H pcfg own msgs =
      .ok (verdictOf (scan own [] msgs).2 (badIdx H pcfg (scan own [] msgs).1)) := by
  obtain ⟨v1, hv1⟩ := mapM_total _ _ h1
  obtain ⟨v2, hv2⟩ := mapM_total _ _ h2
  rw [round2_eq, hv1, hv2]
  simp only [Outcome.ok_bind]
  rw [decide2_eq H pcfg _ _ _ _ ((mapM_ok_iff _ _ _).1 hv1) ((mapM_ok_iff _ _ _).1 hv2)]

/-- … and a result means every pool job did return a verdict -/
theorem round2_ok_inv (own : Nat) (msgs : List R1Msg) (v : Verdict) (h : round2 H pcfg own msgs = .ok v) :
    (∀ m ∈ (scan own [] msgs).1, ∃ b, chk1 H pcfg m = .ok b) ∧
    (∀ m ∈ (scan own [] msgs).1, ∃ b, chk2 H pcfg m = .ok b) := by
  rw [round2_eq] at h
  cases hv1 : (scan own [] msgs).1.mapM (chk1 H pcfg) with
  | err e => rw [hv1] at h; cases h
  | panic e => rw [hv1] at h; cases h
  | ok v1 =>
    rw [hv1] at h
    simp only [Outcome.ok_bind] at h
    cases hv2 : (scan own [] msgs).1.mapM (chk2 H pcfg) with
    | err e => rw [hv2] at h; cases h
    | panic e => rw [hv2] at h; cases h
    | ok v2 =>
      exact ⟨forall₂_left_exists ((mapM_ok_iff _ _ _).1 hv1), forall₂_left_exists ((mapM_ok_iff _ _ _).1 hv2)⟩

theorem round2_noPanic_of (own : Nat) (msgs : List R1Msg)
    (h1 : ∀ m ∈ msgs, NoPanic (chk1 H pcfg m)) (h2 : ∀ m ∈ msgs, NoPanic (chk2 H pcfg m)) :
    NoPanic (round2 H pcfg own msgs) := by
  rw [round2_eq]
  have hs := scan_spawned_subset own msgs []
  refine NoPanic.bind (fun t => mapM_no_panic _ _ (fun m hm => h1 m (hs m hm)) t) (fun _ _ => ?_)
  refine NoPanic.bind (fun t => mapM_no_panic _ _ (fun m hm => h2 m (hs m hm)) t) (fun _ _ => ?_)
  exact NoPanic.ok _

theorem mem_badIdx (sp : List R1Msg) (j : Nat) :
    j ∈ badIdx H pcfg sp ↔ ∃ m ∈ sp, m.idx = j ∧ (chk1 H pcfg m = .ok false ∨ chk2 H pcfg m = .ok false) := by
  unfold badIdx
  simp only [List.mem_map, List.mem_append, List.mem_filter, isFalse_iff]
  constructor
  · rintro ⟨m, (⟨hm, h⟩ | ⟨hm, h⟩), rfl⟩
    · exact ⟨m, hm, rfl, Or.inl h⟩
    · exact ⟨m, hm, rfl, Or.inr h⟩
  · rintro ⟨m, hm, rfl, (h | h)⟩
    · exact ⟨m, Or.inl ⟨hm, h⟩, rfl⟩
    · exact ⟨m, Or.inr ⟨hm, h⟩, rfl⟩

theorem badIdx_eq_nil_iff (sp : List R1Msg) :
    badIdx H pcfg sp = [] ↔ ∀ m ∈ sp, chk1 H pcfg m ≠ .ok false ∧ chk2 H pcfg m ≠ .ok false := by
  rw [List.eq_nil_iff_forall_not_mem]
  constructor
  · intro h m hm
    exact ⟨fun h1 => h m.idx ((mem_badIdx H pcfg sp _).2 ⟨m, hm, rfl, Or.inl h1⟩),
      fun h2 => h m.idx ((mem_badIdx H pcfg sp _).2 ⟨m, hm, rfl, Or.inr h2⟩)⟩
  · intro h j hj
    obtain ⟨m, hm, _, h1 | h2⟩ := (mem_badIdx H pcfg sp j).1 hj
    · exact (h m hm).1 h1
    · exact (h m hm).2 h2

end round2

/-! ### the pool jobs do not crash -/

theorem parseLoop_mem (cfg : ParseCfg) (s : List Int) : ∀ (fuel el : Nat) (isLenEl : Bool) (nextLen : Int)
    (parts res : List (List Int)), parseLoop cfg s fuel el isLenEl nextLen parts = .ok res →
    (∀ p ∈ parts, ∀ v ∈ p, v ∈ s) → ∀ p ∈ res, ∀ v ∈ p, v ∈ s := by
  intro fuel
  induction fuel with
  | zero =>
    intro el isLenEl nextLen parts res h hq
    simp only [parseLoop] at h
    injection h with h
    subst h
    intro p hp
    exact hq p (List.mem_reverse.1 hp)
  | succ fuel ih =>
    intro el isLenEl nextLen parts res h hq
    unfold parseLoop at h
    split at h
    · split at h
      · dsimp only at h
        split at h
        · cases h
        · split at h
          · cases h
          · exact ih _ _ _ _ _ h hq
      · split at h
        · cases h
        · split at h
          · cases h
          · split at h
            · cases h
            · dsimp only at h
              refine ih _ _ _ _ _ h ?_
              intro p hp v hv
              rcases List.mem_cons.1 hp with rfl | hp
              · exact List.mem_of_mem_drop (List.mem_of_mem_take hv)
              · exact hq p hp v hv
    · split at h
      · split at h
        · split at h
          · cases h
          · injection h with h
            subst h
            intro p hp v hv
            rcases List.mem_cons.1 (List.mem_reverse.1 hp) with rfl | hp
            · cases hv
            · exact hq p hp v hv
        · cases h
      · injection h with h
        subst h
        intro p hp
        exact hq p (List.mem_reverse.1 hp)

theorem parseSecrets_mem (cfg : ParseCfg) (s : List Int) (res : List (List Int))
    (h : parseSecretsCfg cfg s = .ok res) : ∀ p ∈ res, ∀ v ∈ p, v ∈ s := by
  unfold parseSecretsCfg at h
  split at h
  · cases h
  · exact parseLoop_mem cfg s _ _ _ _ _ _ h (by intro p hp; cases hp)

theorem dlnUnmarshal_mem (cfg : ParseCfg) (s : List Int) (a t : List Int)
    (h : dlnUnmarshal cfg s = .ok (a, t)) : (∀ v ∈ a, v ∈ s) ∧ ∀ v ∈ t, v ∈ s := by
  unfold dlnUnmarshal at h
  split at h
  · rename_i a' t' hp
    split at h
    · injection h with h
      injection h with ha ht
      subst ha ht
      have := parseSecrets_mem cfg s _ hp
      exact ⟨this a' (by simp), this t' (by simp)⟩
    · cases h
  · cases h
  · cases h
  · cases h

/-- **a pool job never crashes** on the current tree: the proof parts are decoded from byte strings, so every
decoded number is non-negative, which is what `dlnVerify` needs -/
theorem dlnCheck_noPanic (H : HashFn) (parts : List Bytes) (h1 h2 n : Nat) :
    NoPanic (dlnCheck H Ops16.curParse parts h1 h2 n) := by
  unfold dlnCheck
  cases hu : dlnUnmarshal Ops16.curParse (parts.map fun b => (bytesToNat b : Int)) with
  | err e => exact NoPanic.ok _
  | panic e => exact absurd hu (dlnUnmarshal_noPanic _ e)
  | ok at' =>
    obtain ⟨a, t⟩ := at'
    refine dlnVerify_noPanic H a t h1 h2 n (Or.inl ?_)
    intro v hv
    obtain ⟨b, _, rfl⟩ := List.mem_map.1 ((dlnUnmarshal_mem _ _ a t hu).2 v hv)
    exact Int.natCast_nonneg _



/-! ### one deviator in round 2 -/

/-- one of the values `h1`, `h2` of `a` equals one of the values `h1`, `h2` of `b` -/
def Clash (a b : R1Msg) : Prop := a.h1 = b.h1 ∨ a.h1 = b.h2 ∨ a.h2 = b.h1 ∨ a.h2 = b.h2

theorem Clash.symm {a b : R1Msg} (h : Clash a b) : Clash b a := by
  rcases h with h | h | h | h
  · exact Or.inl h.symm
  · exact Or.inr (Or.inr (Or.inl h.symm))
  · exact Or.inr (Or.inl h.symm)
  · exact Or.inr (Or.inr (Or.inr h.symm))

/-- the stored messages of a run in which every party except `dev` is honest, as far as the structural
checks see them: distinct indices, honest messages of the right sizes, no two honest messages sharing a
value -/
structure OneDev (own dev : Nat) (msgs : List R1Msg) : Prop where
  ne : dev ≠ own
  nodup : (msgs.map (·.idx)).Nodup
  sizes : ∀ m ∈ msgs, m.idx ≠ dev → SizesOk m
  noClash : ∀ m ∈ msgs, ∀ m' ∈ msgs, m.idx ≠ dev → m'.idx ≠ dev → m.idx ≠ m'.idx → ¬ Clash m m'

theorem eq_of_idx_eq {msgs : List R1Msg} (hnd : (msgs.map (·.idx)).Nodup) {a b : R1Msg}
    (ha : a ∈ msgs) (hb : b ∈ msgs) (h : a.idx = b.idx) : a = b := by
  induction msgs with
  | nil => cases ha
  | cons x l ih =>
    rw [List.map_cons, List.nodup_cons] at hnd
    rcases List.mem_cons.1 ha with ha' | ha' <;> rcases List.mem_cons.1 hb with hb' | hb'
    · rw [ha', hb']
    · exact absurd (List.mem_map.2 ⟨b, hb', by rw [← h, ha']⟩) hnd.1
    · exact absurd (List.mem_map.2 ⟨a, ha', by rw [h, hb']⟩) hnd.1
    · exact ih hnd.2 ha' hb'

theorem idx_ne_of_split {pre post : List R1Msg} {m : R1Msg}
    (hnd : ((pre ++ m :: post).map (·.idx)).Nodup) : ∀ m' ∈ pre, m'.idx ≠ m.idx := by
  intro m' hm' he
  rw [List.map_append, List.map_cons] at hnd
  exact (List.nodup_append.1 hnd).2.2 m'.idx (List.mem_map.2 ⟨m', hm', rfl⟩) m.idx (List.mem_cons_self ..) he

theorem mem_seenAfter_nil {h k : Nat} {pre : List R1Msg} (hm : (h, k) ∈ seenAfter [] pre) :
    ∃ m' ∈ pre, m'.idx = k ∧ (m'.h1 = h ∨ m'.h2 = h) := by
  rcases (mem_seenAfter (h, k) pre []).1 hm with hm | ⟨m', hm', he | he⟩
  · cases hm
  · injection he with h1 h2; exact ⟨m', hm', h2.symm, Or.inl h1.symm⟩
  · injection he with h1 h2; exact ⟨m', hm', h2.symm, Or.inr h1.symm⟩

/-- a clash found by the structural check is a clash with an earlier message -/
theorem structural_clash {own : Nat} {pre : List R1Msg} {m : R1Msg} {why : String} {cs : List Nat}
    (h : structural own (seenAfter [] pre) m = some (why, cs)) (hs : SizesOk m) :
    (why = msgDupH1 ∨ why = msgDupH2) ∧
      ∃ m' ∈ pre, Clash m m' ∧ cs = duplicateCulprits own m.idx m'.idx := by
  rcases structural_some_cases own _ m why cs h with ⟨hn, _⟩ | ⟨_, hw, k, hk, hcs⟩
  · exact absurd hs hn
  · refine ⟨hw, ?_⟩
    rcases hk with hk | hk
    · obtain ⟨m', hm', rfl, he | he⟩ := mem_seenAfter_nil hk
      · exact ⟨m', hm', Or.inl he.symm, hcs⟩
      · exact ⟨m', hm', Or.inr (Or.inl he.symm), hcs⟩
    · obtain ⟨m', hm', rfl, he | he⟩ := mem_seenAfter_nil hk
      · exact ⟨m', hm', Or.inr (Or.inr (Or.inl he.symm)), hcs⟩
      · exact ⟨m', hm', Or.inr (Or.inr (Or.inr he.symm)), hcs⟩

/-- a message that passes the structural check clashes with no earlier message -/
theorem structural_none_no_clash {own : Nat} {pre : List R1Msg} {m : R1Msg}
    (h : structural own (seenAfter [] pre) m = none) : SizesOk m ∧ ∀ m' ∈ pre, ¬ Clash m m' := by
  obtain ⟨hs, h1, h2⟩ := (structural_none_iff own _ m).1 h
  refine ⟨hs, ?_⟩
  intro m' hm' hc
  have ha : (m'.h1, m'.idx) ∈ seenAfter [] pre := (mem_seenAfter _ pre []).2 (Or.inr ⟨m', hm', Or.inl rfl⟩)
  have hb : (m'.h2, m'.idx) ∈ seenAfter [] pre := (mem_seenAfter _ pre []).2 (Or.inr ⟨m', hm', Or.inr rfl⟩)
  rcases hc with hc | hc | hc | hc
  · exact h1 _ ha hc.symm
  · exact h1 _ hb hc.symm
  · exact h2 _ ha hc.symm
  · exact h2 _ hb hc.symm

theorem dup_dev_left {own dev : Nat} (hne : dev ≠ own) (k : Nat) :
    ∀ c ∈ duplicateCulprits own dev k, c = dev := by
  intro c hc
  by_cases hk : k = own
  · subst hk; rw [dup_own_right hne] at hc; simpa using hc
  · rw [dup_neither hne hk] at hc; cases hc

theorem dup_dev_right {own dev : Nat} (hne : dev ≠ own) (j : Nat) :
    ∀ c ∈ duplicateCulprits own j dev, c = dev := by
  intro c hc
  by_cases hj : j = own
  · subst hj; rw [dup_own_left hne] at hc; simpa using hc
  · rw [dup_neither hj hne] at hc; cases hc

/-- **the first structural failure of a one-deviator run**: a size failure of the deviator's message, or a
clash in which the deviator's message is one of the two -/
theorem OneDev.failure {own dev : Nat} {pre post : List R1Msg} {m : R1Msg} {why : String} {cs : List Nat}
    (hd : OneDev own dev (pre ++ m :: post))
    (h : structural own (seenAfter [] pre) m = some (why, cs)) :
    (m.idx = dev ∧ ¬ SizesOk m ∧ cs = [dev] ∧ (why = msgPaillier ∨ why = msgEqual ∨ why = msgNTilde)) ∨
    (SizesOk m ∧ (why = msgDupH1 ∨ why = msgDupH2) ∧ ∃ m' ∈ pre, Clash m m' ∧
      cs = duplicateCulprits own m.idx m'.idx ∧ (m.idx = dev ∨ m'.idx = dev)) := by
  have hm : m ∈ pre ++ m :: post := by simp
  by_cases hs : SizesOk m
  · right
    obtain ⟨hw, m', hm', hc, hcs⟩ := structural_clash h hs
    refine ⟨hs, hw, m', hm', hc, hcs, ?_⟩
    by_contra hcon
    rw [not_or] at hcon
    exact hd.noClash m hm m' (List.mem_append_left _ hm') hcon.1 hcon.2
      (fun e => idx_ne_of_split hd.nodup m' hm' e.symm) hc
  · left
    rcases structural_some_cases own _ m why cs h with ⟨_, hcs, hw⟩ | ⟨hs', _⟩
    · have hdev : m.idx = dev := by
        by_contra hne
        exact hs (hd.sizes m hm hne)
      exact ⟨hdev, hs, by rw [hcs, hdev], hw⟩
    · exact absurd hs' hs

/-- … so whoever it names is the deviator -/
theorem OneDev.failure_names_dev {own dev : Nat} {pre post : List R1Msg} {m : R1Msg} {why : String}
    {cs : List Nat} (hd : OneDev own dev (pre ++ m :: post))
    (h : structural own (seenAfter [] pre) m = some (why, cs)) : ∀ c ∈ cs, c = dev := by
  rcases hd.failure h with ⟨_, _, hcs, _⟩ | ⟨_, _, m', _, _, hcs, hdev | hdev⟩
  · intro c hc; rw [hcs] at hc; simpa using hc
  · rw [hcs, hdev]; exact dup_dev_left hd.ne _
  · rw [hcs, hdev]; exact dup_dev_right hd.ne _

/-- two clashing messages, one of them the deviator's: the loop stops with a duplicate failure -/
theorem OneDev.clash_fails {own dev : Nat} {msgs : List R1Msg} (hd : OneDev own dev msgs)
    {md mx : R1Msg} (hmd : md ∈ msgs) (hmx : mx ∈ msgs) (hne : mx.idx ≠ md.idx) (hc : Clash md mx) :
    ∃ pre m post why cs, msgs = pre ++ m :: post ∧ scan own [] msgs = (pre, some (why, cs)) ∧
      structural own (seenAfter [] pre) m = some (why, cs) := by
  rcases scan_cases own msgs [] with ⟨_, hall⟩ | ⟨pre, m, post, f, h1, h2, h3, _⟩
  · exfalso
    obtain ⟨pre, post, rfl⟩ := List.append_of_mem hmd
    rcases List.mem_append.1 hmx with hx | hx
    · exact (structural_none_no_clash (hall pre md post rfl)).2 mx hx hc
    · rcases List.mem_cons.1 hx with rfl | hx
      · exact hne rfl
      · obtain ⟨pre2, post2, rfl⟩ := List.append_of_mem hx
        have := hall (pre ++ md :: pre2) mx post2 (by simp)
        exact (structural_none_no_clash this).2 md (by simp) hc.symm
  · obtain ⟨why, cs⟩ := f
    exact ⟨pre, m, post, why, cs, h1, h2, h3⟩



section round2dev
variable (H : HashFn) (pcfg : ParseCfg)

/-- the pool verdicts in a one-deviator run: valid for the honest messages, some verdict for the deviator's -/
structure DlnOk (dev : Nat) (msgs : List R1Msg) : Prop where
  honest : ∀ m ∈ msgs, m.idx ≠ dev → chk1 H pcfg m = .ok true ∧ chk2 H pcfg m = .ok true
  dev : ∀ m ∈ msgs, m.idx = dev → (∃ b, chk1 H pcfg m = .ok b) ∧ ∃ b, chk2 H pcfg m = .ok b

variable {H pcfg}

theorem DlnOk.all1 {dev : Nat} {msgs : List R1Msg} (hk : DlnOk H pcfg dev msgs) :
    ∀ m ∈ msgs, ∃ b, chk1 H pcfg m = .ok b := by
  intro m hm
  by_cases h : m.idx = dev
  · exact (hk.dev m hm h).1
  · exact ⟨true, (hk.honest m hm h).1⟩

theorem DlnOk.all2 {dev : Nat} {msgs : List R1Msg} (hk : DlnOk H pcfg dev msgs) :
    ∀ m ∈ msgs, ∃ b, chk2 H pcfg m = .ok b := by
  intro m hm
  by_cases h : m.idx = dev
  · exact (hk.dev m hm h).2
  · exact ⟨true, (hk.honest m hm h).2⟩

theorem DlnOk.round2_eq {own dev : Nat} {msgs : List R1Msg} (hk : DlnOk H pcfg dev msgs) :
    round2 H pcfg own msgs =
      .ok (verdictOf (scan own [] msgs).2 (badIdx H pcfg (scan own [] msgs).1)) :=
  round2_of_checks_ok H pcfg own msgs (fun m hm => hk.all1 m (scan_spawned_subset own msgs [] m hm))
    (fun m hm => hk.all2 m (scan_spawned_subset own msgs [] m hm))

/-- only the deviator's proofs can be invalid -/
theorem bad_is_dev {dev : Nat} {msgs sp : List R1Msg}
    (hh : ∀ m ∈ msgs, m.idx ≠ dev → chk1 H pcfg m = .ok true ∧ chk2 H pcfg m = .ok true)
    (hsub : ∀ m ∈ sp, m ∈ msgs) : ∀ j ∈ badIdx H pcfg sp, j = dev := by
  intro j hj
  obtain ⟨m, hm, rfl, hb⟩ := (mem_badIdx H pcfg sp j).1 hj
  by_contra hne
  obtain ⟨h1, h2⟩ := hh m (hsub m hm) hne
  rcases hb with hb | hb
  · rw [h1] at hb; cases hb
  · rw [h2] at hb; cases hb

/-- R2.4 -/
theorem round2_single_deviator {own dev : Nat} {msgs : List R1Msg} (hd : OneDev own dev msgs)
    (hk : DlnOk H pcfg dev msgs) :
    round2 H pcfg own msgs = .ok .pass ∨
      ∃ why cs, round2 H pcfg own msgs = .ok (.fail why cs) ∧ ∀ c ∈ cs, c = dev := by
  rw [hk.round2_eq (own := own)]
  rcases scan_cases own msgs [] with ⟨h1, _⟩ | ⟨pre, m, post, f, h1, h2, h3, _⟩
  · rw [h1]
    simp only [verdictOf]
    have hb := bad_is_dev (sp := msgs) hk.honest (fun _ h => h)
    cases hbi : badIdx H pcfg msgs with
    | nil => left; rfl
    | cons j t =>
      right
      refine ⟨msgDln, [j], rfl, ?_⟩
      intro c hc
      rw [List.mem_singleton] at hc
      rw [hc]
      exact hb j (by rw [hbi]; exact List.mem_cons_self ..)
  · subst h1
    rw [h2]
    obtain ⟨why, cs⟩ := f
    right
    exact ⟨why, cs, rfl, hd.failure_names_dev h3⟩

/-- R2.5 -/
theorem round2_bad_dln {own dev : Nat} {msgs : List R1Msg} (hk : DlnOk H pcfg dev msgs)
    (hscan : (scan own [] msgs).2 = none) {md : R1Msg} (hmd : md ∈ msgs) (hdev : md.idx = dev)
    (hbad : chk1 H pcfg md = .ok false ∨ chk2 H pcfg md = .ok false) :
    round2 H pcfg own msgs = .ok (.fail msgDln [dev]) := by
  rw [hk.round2_eq (own := own)]
  rcases scan_cases own msgs [] with ⟨h1, _⟩ | ⟨pre, m, post, f, h1, h2, h3, _⟩
  · rw [h1]
    simp only [verdictOf]
    have hb := bad_is_dev (sp := msgs) hk.honest (fun _ h => h)
    have hmem : dev ∈ badIdx H pcfg msgs := (mem_badIdx H pcfg msgs dev).2 ⟨md, hmd, hdev, hbad⟩
    cases hbi : badIdx H pcfg msgs with
    | nil => rw [hbi] at hmem; cases hmem
    | cons j t =>
      have : j = dev := hb j (by rw [hbi]; exact List.mem_cons_self ..)
      subst this
      rfl
  · rw [h2] at hscan; cases hscan

/-- R2.6 -/
theorem round2_bad_size {own dev : Nat} {msgs : List R1Msg} (hd : OneDev own dev msgs)
    (hh : ∀ m ∈ msgs, m.idx ≠ dev → chk1 H pcfg m = .ok true ∧ chk2 H pcfg m = .ok true)
    {md : R1Msg} (hmd : md ∈ msgs) (hdev : md.idx = dev) (hsz : ¬ SizesOk md) :
    ∃ why, round2 H pcfg own msgs = .ok (.fail why [dev]) ∧
      (why = msgPaillier ∨ why = msgEqual ∨ why = msgNTilde) := by
  rcases scan_cases own msgs [] with ⟨_, hall⟩ | ⟨pre, m, post, f, h1, h2, h3, h4⟩
  · exfalso
    obtain ⟨pre, post, rfl⟩ := List.append_of_mem hmd
    exact hsz (structural_none_no_clash (hall pre md post rfl)).1
  · subst h1
    obtain ⟨why, cs⟩ := f
    have hm : m ∈ pre ++ m :: post := by simp
    rcases hd.failure h3 with ⟨hmdev, _, hcs, hw⟩ | ⟨hs, _, m', hm', _, _, hor⟩
    · subst hcs
      have hpre : ∀ x ∈ pre, x.idx ≠ dev := fun x hx => hmdev ▸ idx_ne_of_split hd.nodup x hx
      have hsp : (scan own [] (pre ++ m :: post)).1 = pre := by rw [h2]
      refine ⟨why, ?_, hw⟩
      rw [round2_of_checks_ok H pcfg own _
        (by rw [hsp]; exact fun x hx => ⟨true, (hh x (List.mem_append_left _ hx) (hpre x hx)).1⟩)
        (by rw [hsp]; exact fun x hx => ⟨true, (hh x (List.mem_append_left _ hx) (hpre x hx)).2⟩), h2]
      rfl
    · exfalso
      rcases hor with hor | hor
      · have : m = md := eq_of_idx_eq hd.nodup hm hmd (hor.trans hdev.symm)
        exact hsz (this ▸ hs)
      · have : m' = md := eq_of_idx_eq hd.nodup (List.mem_append_left _ hm') hmd (hor.trans hdev.symm)
        subst this
        obtain ⟨p1, p2, rfl⟩ := List.append_of_mem hm'
        exact hsz (structural_none_no_clash (h4 p1 m' p2 rfl)).1

/-- R2.7, general form: a clash between the deviator's message and an honest one stops the loop with a
duplicate failure whose culprits are `duplicateCulprits` of `dev` and the index of an honest message
clashing with the deviator's, in the order in which the two were met -/
theorem round2_clash {own dev : Nat} {msgs : List R1Msg} (hd : OneDev own dev msgs)
    (hk : DlnOk H pcfg dev msgs) {md mx : R1Msg} (hmd : md ∈ msgs) (hdev : md.idx = dev)
    (hsz : SizesOk md) (hmx : mx ∈ msgs) (hx : mx.idx ≠ dev) (hc : Clash md mx) :
    ∃ why cs other, round2 H pcfg own msgs = .ok (.fail why cs) ∧ (why = msgDupH1 ∨ why = msgDupH2) ∧
      other ∈ msgs ∧ other.idx ≠ dev ∧ Clash md other ∧
      (cs = duplicateCulprits own dev other.idx ∨ cs = duplicateCulprits own other.idx dev) := by
  obtain ⟨pre, m, post, why, cs, h1, h2, h3⟩ := hd.clash_fails hmd hmx (by rw [hdev]; exact hx) hc
  have hr : round2 H pcfg own msgs = .ok (.fail why cs) := by
    rw [hk.round2_eq (own := own), h2]; rfl
  subst h1
  have hm : m ∈ pre ++ m :: post := by simp
  rcases hd.failure h3 with ⟨hmdev, hns, _, _⟩ | ⟨_, hw, m', hm', hcl, hcs, hor⟩
  · exfalso
    have : m = md := eq_of_idx_eq hd.nodup hm hmd (hmdev.trans hdev.symm)
    exact hns (this ▸ hsz)
  · have hne := idx_ne_of_split hd.nodup m' hm'
    rcases hor with hor | hor
    · have : m = md := eq_of_idx_eq hd.nodup hm hmd (hor.trans hdev.symm)
      subst this
      exact ⟨why, cs, m', hr, hw, List.mem_append_left _ hm', fun e => hne (e.trans hor.symm), hcl,
        Or.inl (by rw [hcs, hor])⟩
    · have : m' = md := eq_of_idx_eq hd.nodup (List.mem_append_left _ hm') hmd (hor.trans hdev.symm)
      subst this
      exact ⟨why, cs, m, hr, hw, hm, fun e => hne (hor.trans e.symm), hcl.symm,
        Or.inr (by rw [hcs, hor])⟩

/-- R2.7, first half -/
theorem round2_clash_with_own {own dev : Nat} {msgs : List R1Msg} (hd : OneDev own dev msgs)
    (hk : DlnOk H pcfg dev msgs) {md mo : R1Msg} (hmd : md ∈ msgs) (hdev : md.idx = dev)
    (hsz : SizesOk md) (hmo : mo ∈ msgs) (hown : mo.idx = own) (hc : Clash md mo)
    (hthird : ∀ m ∈ msgs, m.idx ≠ dev → m.idx ≠ own → ¬ Clash md m) :
    ∃ why, round2 H pcfg own msgs = .ok (.fail why [dev]) ∧ (why = msgDupH1 ∨ why = msgDupH2) := by
  obtain ⟨why, cs, other, hr, hw, ho, hod, hoc, hcs⟩ :=
    round2_clash hd hk hmd hdev hsz hmo (by rw [hown]; exact fun e => hd.ne e.symm) hc
  have hoo : other.idx = own := by
    by_contra hne
    exact hthird other ho hod hne hoc
  refine ⟨why, ?_, hw⟩
  rw [hr]
  rcases hcs with hcs | hcs
  · rw [hcs, hoo, dup_own_right hd.ne]
  · rw [hcs, hoo, dup_own_left hd.ne]

/-- R2.7, second half -/
theorem round2_clash_with_third {own dev : Nat} {msgs : List R1Msg} (hd : OneDev own dev msgs)
    (hk : DlnOk H pcfg dev msgs) {md mt : R1Msg} (hmd : md ∈ msgs) (hdev : md.idx = dev)
    (hsz : SizesOk md) (hmt : mt ∈ msgs) (ht : mt.idx ≠ dev) (hc : Clash md mt)
    (hnown : ∀ m ∈ msgs, m.idx = own → ¬ Clash md m) :
    ∃ why, round2 H pcfg own msgs = .ok (.fail why []) ∧ (why = msgDupH1 ∨ why = msgDupH2) := by
  obtain ⟨why, cs, other, hr, hw, ho, hod, hoc, hcs⟩ := round2_clash hd hk hmd hdev hsz hmt ht hc
  have hoo : other.idx ≠ own := fun e => hnown other ho e hoc
  refine ⟨why, ?_, hw⟩
  rw [hr]
  rcases hcs with hcs | hcs
  · rw [hcs, dup_neither hd.ne hoo]
  · rw [hcs, dup_neither hoo hd.ne]

/-- R2.2 -/
theorem round2_culprits_are_senders (own : Nat) (msgs : List R1Msg) (why : String) (cs : List Nat)
    (h : round2 H pcfg own msgs = .ok (.fail why cs)) : ∀ c ∈ cs, ∃ m ∈ msgs, m.idx = c := by
  obtain ⟨k1, k2⟩ := round2_ok_inv H pcfg own msgs _ h
  rw [round2_of_checks_ok H pcfg own msgs k1 k2] at h
  injection h with h
  rcases scan_cases own msgs [] with ⟨h1, _⟩ | ⟨pre, m, post, f, h1, h2, h3, _⟩
  · rw [h1] at h
    simp only [verdictOf] at h
    cases hbi : badIdx H pcfg msgs with
    | nil => rw [hbi] at h; cases h
    | cons j t =>
      rw [hbi] at h
      simp only [dlnVerdict] at h
      injection h with _ hcs
      subst hcs
      intro c hc
      rw [List.mem_singleton] at hc
      subst hc
      have : c ∈ badIdx H pcfg msgs := by rw [hbi]; exact List.mem_cons_self ..
      obtain ⟨m, hm, hi, _⟩ := (mem_badIdx H pcfg msgs c).1 this
      exact ⟨m, hm, hi⟩
  · subst h1
    rw [h2] at h
    obtain ⟨why', cs'⟩ := f
    simp only [verdictOf] at h
    injection h with hw hcs
    subst hw hcs
    intro c hc
    rcases structural_some_cases own _ m _ _ h3 with ⟨_, hcs, _⟩ | ⟨hs, _, _⟩
    · rw [hcs, List.mem_singleton] at hc
      exact ⟨m, by simp, hc.symm⟩
    · obtain ⟨_, m', hm', _, hcs⟩ := structural_clash h3 hs
      rw [hcs] at hc
      rcases dup_subset _ _ _ c hc with e | e
      · exact ⟨m, by simp, e.symm⟩
      · exact ⟨m', List.mem_append_left _ hm', e.symm⟩

/-- R2.1 -/
theorem round2_pass_iff (own : Nat) (msgs : List R1Msg) :
    round2 H pcfg own msgs = .ok .pass ↔
      (scan own [] msgs).2 = none ∧
      ∀ m ∈ (scan own [] msgs).1, chk1 H pcfg m = .ok true ∧ chk2 H pcfg m = .ok true := by
  constructor
  · intro h
    obtain ⟨k1, k2⟩ := round2_ok_inv H pcfg own msgs _ h
    rw [round2_of_checks_ok H pcfg own msgs k1 k2] at h
    injection h with h
    cases hf : (scan own [] msgs).2 with
    | some f => rw [hf] at h; cases h
    | none =>
      rw [hf] at h
      simp only [verdictOf] at h
      refine ⟨rfl, ?_⟩
      cases hbi : badIdx H pcfg (scan own [] msgs).1 with
      | cons j t => rw [hbi] at h; cases h
      | nil =>
        intro m hm
        obtain ⟨n1, n2⟩ := (badIdx_eq_nil_iff H pcfg _).1 hbi m hm
        obtain ⟨b1, e1⟩ := k1 m hm
        obtain ⟨b2, e2⟩ := k2 m hm
        cases b1
        · exact absurd e1 n1
        · cases b2
          · exact absurd e2 n2
          · exact ⟨e1, e2⟩
  · rintro ⟨hf, hall⟩
    rw [round2_of_checks_ok H pcfg own msgs (fun m hm => ⟨true, (hall m hm).1⟩)
      (fun m hm => ⟨true, (hall m hm).2⟩), hf]
    simp only [verdictOf]
    have : badIdx H pcfg (scan own [] msgs).1 = [] := by
      rw [badIdx_eq_nil_iff]
      intro m hm
      rw [(hall m hm).1, (hall m hm).2]
      exact ⟨by nofun, by nofun⟩
    rw [this]
    rfl

theorem round2_noPanic (H : HashFn) (own : Nat) (msgs : List R1Msg) :
    NoPanic (round2 H Ops16.curParse own msgs) :=
  round2_noPanic_of H _ own msgs (fun m _ => dlnCheck_noPanic H _ _ _ _) (fun m _ => dlnCheck_noPanic H _ _ _ _)

end round2dev


theorem eq_of_nodup_map {α : Type} (f : α → Nat) {l : List α} (hnd : (l.map f).Nodup) {a b : α}
    (ha : a ∈ l) (hb : b ∈ l) (h : f a = f b) : a = b := by
  induction l with
  | nil => cases ha
  | cons x l ih =>
    rw [List.map_cons, List.nodup_cons] at hnd
    rcases List.mem_cons.1 ha with ha' | ha' <;> rcases List.mem_cons.1 hb with hb' | hb'
    · rw [ha', hb']
    · exact absurd (List.mem_map.2 ⟨b, hb', by rw [← h, ha']⟩) hnd.1
    · exact absurd (List.mem_map.2 ⟨a, ha', by rw [h, hb']⟩) hnd.1
    · exact ih hnd.2 ha' hb'

/-! ### round 3: the per-peer check stage by stage -/
section round3
variable {P : Type} (C : Curve P) (H : HashFn)
variable (zcfg : Zk.Cfg) (vcfg : Vss.VerifyCfg) (noMod noFac : Bool) (threshold ownId : Nat) (ssid : Bytes)
  (nt h1 h2 : Nat)

/-- the verdict on the modulus proof: a proof that does not decode counts as `noMod` -/
def modOutcome (p : R2Peer) : Outcome Bool :=
  match modFromBytes p.modProof with
  | none => .ok noMod
  | some (w, xs, a, b, zs) =>
    modVerify zcfg H (Blame.contextJ ssid p.idx) w (xs.map Int.ofNat) a b (zs.map Int.ofNat) p.paillierN

/-- the verdict on the no-small-factor proof: a proof that does not decode counts as `noFac` -/
def facOutcome (p : R2Peer) : Outcome Bool :=
  match facFromBytes p.facProof with
  | none => .ok noFac
  | some pf => facVerify zcfg H C.q (Blame.contextJ ssid p.idx) p.paillierN nt h1 h2 pf

/-- what `checkPeer` does once the commitment points are decoded -/
def peerTail (p : R2Peer) (vs : List ECPoint) : Outcome (Option String) :=
  modOutcome H zcfg noMod ssid p >>= fun okM =>
  if !okM then .ok (some "modProof verify failed") else
  Vss.verify C vcfg threshold ⟨threshold, ownId, p.share⟩ vs >>= fun okV =>
  if !okV then .ok (some "vss verify failed") else
  facOutcome C H zcfg noFac ssid nt h1 h2 p >>= fun okF =>
  if !okF then .ok (some "facProof verify failed") else .ok none

variable (p : R2Peer)

theorem checkPeer_decommit_none
    (h : decommitWith H p.commitment (p.decommitment.map Int.ofNat) = .ok none) :
    checkPeer C H zcfg vcfg noMod noFac threshold ownId ssid nt h1 h2 p =
      .ok (some "de-commitment verify failed") := by
  simp only [checkPeer, h]

theorem checkPeer_decommit_panic (e : String)
    (h : decommitWith H p.commitment (p.decommitment.map Int.ofNat) = .panic e) :
    checkPeer C H zcfg vcfg noMod noFac threshold ownId ssid nt h1 h2 p = .panic e := by
  simp only [checkPeer, h]

theorem checkPeer_decommit_err (e : String)
    (h : decommitWith H p.commitment (p.decommitment.map Int.ofNat) = .err e) :
    checkPeer C H zcfg vcfg noMod noFac threshold ownId ssid nt h1 h2 p = .err e := by
  simp only [checkPeer, h]

theorem checkPeer_unflatten_none (flat : List Int)
    (h : decommitWith H p.commitment (p.decommitment.map Int.ofNat) = .ok (some flat))
    (hu : C.unflatten (flat.map Int.toNat) = none) :
    checkPeer C H zcfg vcfg noMod noFac threshold ownId ssid nt h1 h2 p = .ok (some "unflatten") := by
  simp only [checkPeer, h, hu]

theorem checkPeer_points (flat : List Int) (vs : List ECPoint)
    (h : decommitWith H p.commitment (p.decommitment.map Int.ofNat) = .ok (some flat))
    (hu : C.unflatten (flat.map Int.toNat) = some vs) :
    checkPeer C H zcfg vcfg noMod noFac threshold ownId ssid nt h1 h2 p =
      peerTail C H zcfg vcfg noMod noFac threshold ownId ssid nt h1 h2 p vs := by
  simp only [checkPeer, h, hu]
  rfl


/-! the tail -/

theorem peerTail_bad_mod (vs : List ECPoint) (hm : modOutcome H zcfg noMod ssid p = .ok false) :
    peerTail C H zcfg vcfg noMod noFac threshold ownId ssid nt h1 h2 p vs =
      .ok (some "modProof verify failed") := by
  unfold peerTail; rw [hm]; rfl

theorem peerTail_bad_share (vs : List ECPoint) (hm : modOutcome H zcfg noMod ssid p = .ok true)
    (hv : Vss.verify C vcfg threshold ⟨threshold, ownId, p.share⟩ vs = .ok false) :
    peerTail C H zcfg vcfg noMod noFac threshold ownId ssid nt h1 h2 p vs = .ok (some "vss verify failed") := by
  unfold peerTail; rw [hm]; simp only [Outcome.ok_bind, hv]; rfl

theorem peerTail_bad_fac (vs : List ECPoint) (hm : modOutcome H zcfg noMod ssid p = .ok true)
    (hv : Vss.verify C vcfg threshold ⟨threshold, ownId, p.share⟩ vs = .ok true)
    (hf : facOutcome C H zcfg noFac ssid nt h1 h2 p = .ok false) :
    peerTail C H zcfg vcfg noMod noFac threshold ownId ssid nt h1 h2 p vs =
      .ok (some "facProof verify failed") := by
  unfold peerTail; rw [hm]; simp only [Outcome.ok_bind, hv, hf]; rfl

theorem peerTail_pass (vs : List ECPoint) (hm : modOutcome H zcfg noMod ssid p = .ok true)
    (hv : Vss.verify C vcfg threshold ⟨threshold, ownId, p.share⟩ vs = .ok true)
    (hf : facOutcome C H zcfg noFac ssid nt h1 h2 p = .ok true) :
    peerTail C H zcfg vcfg noMod noFac threshold ownId ssid nt h1 h2 p vs = .ok none := by
  unfold peerTail; rw [hm]; simp only [Outcome.ok_bind, hv, hf]; rfl

theorem peerTail_none_iff (vs : List ECPoint) :
    peerTail C H zcfg vcfg noMod noFac threshold ownId ssid nt h1 h2 p vs = .ok none ↔
      modOutcome H zcfg noMod ssid p = .ok true ∧
      Vss.verify C vcfg threshold ⟨threshold, ownId, p.share⟩ vs = .ok true ∧
      facOutcome C H zcfg noFac ssid nt h1 h2 p = .ok true := by
  constructor
  · intro h
    cases hm : modOutcome H zcfg noMod ssid p with
    | err e => unfold peerTail at h; rw [hm] at h; cases h
    | panic e => unfold peerTail at h; rw [hm] at h; cases h
    | ok bm =>
      cases bm with
      | false => rw [peerTail_bad_mod C H zcfg vcfg noMod noFac threshold ownId ssid nt h1 h2 p vs hm] at h; cases h
      | true =>
        cases hv : Vss.verify C vcfg threshold ⟨threshold, ownId, p.share⟩ vs with
        | err e => unfold peerTail at h; rw [hm] at h; simp only [Outcome.ok_bind, hv] at h; cases h
        | panic e => unfold peerTail at h; rw [hm] at h; simp only [Outcome.ok_bind, hv] at h; cases h
        | ok bv =>
          cases bv with
          | false =>
            rw [peerTail_bad_share C H zcfg vcfg noMod noFac threshold ownId ssid nt h1 h2 p vs hm hv] at h
            cases h
          | true =>
            cases hf : facOutcome C H zcfg noFac ssid nt h1 h2 p with
            | err e => unfold peerTail at h; rw [hm] at h; simp only [Outcome.ok_bind, hv, hf] at h; cases h
            | panic e => unfold peerTail at h; rw [hm] at h; simp only [Outcome.ok_bind, hv, hf] at h; cases h
            | ok bf =>
              cases bf with
              | false =>
                rw [peerTail_bad_fac C H zcfg vcfg noMod noFac threshold ownId ssid nt h1 h2 p vs hm hv hf] at h
                cases h
              | true => exact ⟨rfl, rfl, rfl⟩
  · rintro ⟨hm, hv, hf⟩
    exact peerTail_pass C H zcfg vcfg noMod noFac threshold ownId ssid nt h1 h2 p vs hm hv hf

theorem modOutcome_iff (b : Bool) :
    modOutcome H zcfg noMod ssid p = .ok b ↔
      (∃ w xs a c zs, modFromBytes p.modProof = some (w, xs, a, c, zs) ∧
        modVerify zcfg H (Blame.contextJ ssid p.idx) w (xs.map Int.ofNat) a c (zs.map Int.ofNat) p.paillierN
          = .ok b) ∨
      (modFromBytes p.modProof = none ∧ noMod = b) := by
  unfold modOutcome
  cases hd : modFromBytes p.modProof with
  | none =>
    simp only [reduceCtorEq, false_and, exists_false, true_and, false_or]
    constructor
    · intro h; injection h
    · intro h; rw [h]
  | some t =>
    obtain ⟨w, xs, a, c, zs⟩ := t
    simp

theorem facOutcome_iff (b : Bool) :
    facOutcome C H zcfg noFac ssid nt h1 h2 p = .ok b ↔
      (∃ pf, facFromBytes p.facProof = some pf ∧
        facVerify zcfg H C.q (Blame.contextJ ssid p.idx) p.paillierN nt h1 h2 pf = .ok b) ∨
      (facFromBytes p.facProof = none ∧ noFac = b) := by
  unfold facOutcome
  cases hd : facFromBytes p.facProof with
  | none =>
    simp only [reduceCtorEq, false_and, exists_false, true_and, false_or]
    constructor
    · intro h; injection h
    · intro h; rw [h]
  | some pf => simp

/-- **exact pass condition of the per-peer check** -/
theorem checkPeer_none_iff :
    checkPeer C H zcfg vcfg noMod noFac threshold ownId ssid nt h1 h2 p = .ok none ↔
      ∃ flat vs, decommitWith H p.commitment (p.decommitment.map Int.ofNat) = .ok (some flat) ∧
        C.unflatten (flat.map Int.toNat) = some vs ∧
        modOutcome H zcfg noMod ssid p = .ok true ∧
        Vss.verify C vcfg threshold ⟨threshold, ownId, p.share⟩ vs = .ok true ∧
        facOutcome C H zcfg noFac ssid nt h1 h2 p = .ok true := by
  constructor
  · intro h
    cases hd : decommitWith H p.commitment (p.decommitment.map Int.ofNat) with
    | err e => rw [checkPeer_decommit_err C H zcfg vcfg noMod noFac threshold ownId ssid nt h1 h2 p e hd] at h; cases h
    | panic e => rw [checkPeer_decommit_panic C H zcfg vcfg noMod noFac threshold ownId ssid nt h1 h2 p e hd] at h; cases h
    | ok o =>
      cases o with
      | none => rw [checkPeer_decommit_none C H zcfg vcfg noMod noFac threshold ownId ssid nt h1 h2 p hd] at h; cases h
      | some flat =>
        cases hu : C.unflatten (flat.map Int.toNat) with
        | none =>
          rw [checkPeer_unflatten_none C H zcfg vcfg noMod noFac threshold ownId ssid nt h1 h2 p flat hd hu] at h
          cases h
        | some vs =>
          rw [checkPeer_points C H zcfg vcfg noMod noFac threshold ownId ssid nt h1 h2 p flat vs hd hu] at h
          exact ⟨flat, vs, rfl, hu,
            (peerTail_none_iff C H zcfg vcfg noMod noFac threshold ownId ssid nt h1 h2 p vs).1 h⟩
  · rintro ⟨flat, vs, hd, hu, h⟩
    rw [checkPeer_points C H zcfg vcfg noMod noFac threshold ownId ssid nt h1 h2 p flat vs hd hu]
    exact (peerTail_none_iff C H zcfg vcfg noMod noFac threshold ownId ssid nt h1 h2 p vs).2 h

/-! ### round 3: the culprit list is a filter of the peer list -/

/-- the verdict "this peer is a culprit" -/
def isCulprit : Outcome (Option String) → Bool
  | .ok (some _) => true
  | _ => false

theorem isCulprit_iff (o : Outcome (Option String)) : isCulprit o = true ↔ ∃ why, o = .ok (some why) := by
  cases o with
  | ok v => cases v <;> simp [isCulprit]
  | err e => simp [isCulprit]
  | panic e => simp [isCulprit]

theorem culprits_eq_filter (chk : R2Peer → Outcome (Option String)) (ps : List R2Peer)
    (vs : List (Option String)) (h : List.Forall₂ (fun p v => chk p = .ok v) ps vs) :
    ((ps.zip vs).filterMap fun (p, v) => v.map fun _ => p.idx) =
      (ps.filter fun p => isCulprit (chk p)).map (·.idx) := by
  induction h with
  | nil => rfl
  | @cons p v ps vs h1 _ ih =>
    rw [List.zip_cons_cons, List.filterMap_cons, List.filter_cons, h1]
    cases v with
    | none =>
      have hb : isCulprit (Outcome.ok (none : Option String)) = false := rfl
      rw [hb]
      simp only [Option.map_none, Bool.false_eq_true, if_false]
      exact ih
    | some why =>
      have hb : isCulprit (Outcome.ok (some why)) = true := rfl
      rw [hb]
      simp only [Option.map_some, if_true, List.map_cons]
      rw [← ih]

theorem round3_eq (peers : List R2Peer) :
    round3 C H zcfg vcfg noMod noFac threshold ownId ssid nt h1 h2 peers =
      peers.mapM (checkPeer C H zcfg vcfg noMod noFac threshold ownId ssid nt h1 h2) >>= fun verdicts =>
        .ok ((peers.zip verdicts).filterMap fun (p, v) => v.map fun _ => p.idx) := rfl

/-- the result of round 3 when every per-peer check returns a verdict -/
theorem round3_of_checks_ok (peers : List R2Peer)
    (h : ∀ p ∈ peers, ∃ v, checkPeer C H zcfg vcfg noMod noFac threshold ownId ssid nt h1 h2 p = .ok v) :
    round3 C H zcfg vcfg noMod noFac threshold ownId ssid nt h1 h2 peers =
      .ok ((peers.filter fun p =>
        isCulprit (checkPeer C H zcfg vcfg noMod noFac threshold ownId ssid nt h1 h2 p)).map (·.idx)) := by
  obtain ⟨vs, hvs⟩ := mapM_total _ peers h
  rw [round3_eq, hvs]
  simp only [Outcome.ok_bind]
  rw [culprits_eq_filter _ _ _ ((mapM_ok_iff _ _ _).1 hvs)]

/-- … and a result means every per-peer check did return one -/
theorem round3_ok_inv (peers : List R2Peer) (cs : List Nat)
    (h : round3 C H zcfg vcfg noMod noFac threshold ownId ssid nt h1 h2 peers = .ok cs) :
    ∀ p ∈ peers, ∃ v, checkPeer C H zcfg vcfg noMod noFac threshold ownId ssid nt h1 h2 p = .ok v := by
  rw [round3_eq] at h
  cases hm : peers.mapM (checkPeer C H zcfg vcfg noMod noFac threshold ownId ssid nt h1 h2) with
  | err e => rw [hm] at h; cases h
  | panic e => rw [hm] at h; cases h
  | ok vs => exact forall₂_left_exists ((mapM_ok_iff _ _ _).1 hm)

theorem round3_ok (peers : List R2Peer) (cs : List Nat)
    (h : round3 C H zcfg vcfg noMod noFac threshold ownId ssid nt h1 h2 peers = .ok cs) :
    cs = (peers.filter fun p =>
        isCulprit (checkPeer C H zcfg vcfg noMod noFac threshold ownId ssid nt h1 h2 p)).map (·.idx) := by
  rw [round3_of_checks_ok C H zcfg vcfg noMod noFac threshold ownId ssid nt h1 h2 peers
    (round3_ok_inv C H zcfg vcfg noMod noFac threshold ownId ssid nt h1 h2 peers cs h)] at h
  injection h with h
  exact h.symm

theorem round3_noPanic_of (peers : List R2Peer)
    (h : ∀ p ∈ peers, NoPanic (checkPeer C H zcfg vcfg noMod noFac threshold ownId ssid nt h1 h2 p)) :
    NoPanic (round3 C H zcfg vcfg noMod noFac threshold ownId ssid nt h1 h2 peers) := by
  rw [round3_eq]
  exact NoPanic.bind (fun t => mapM_no_panic _ _ h t) (fun _ _ => NoPanic.ok _)

/-- R3.3 -/
theorem round3_single_deviator (peers : List R2Peer) (dev : Nat)
    (hothers : ∀ p ∈ peers, p.idx ≠ dev →
      checkPeer C H zcfg vcfg noMod noFac threshold ownId ssid nt h1 h2 p = .ok none) :
    (∀ d ∈ peers, d.idx = dev → (peers.map (·.idx)).Nodup →
      (∃ why, checkPeer C H zcfg vcfg noMod noFac threshold ownId ssid nt h1 h2 d = .ok (some why)) →
      round3 C H zcfg vcfg noMod noFac threshold ownId ssid nt h1 h2 peers = .ok [dev]) ∧
    ((∀ d ∈ peers, d.idx = dev →
      checkPeer C H zcfg vcfg noMod noFac threshold ownId ssid nt h1 h2 d = .ok none) →
      round3 C H zcfg vcfg noMod noFac threshold ownId ssid nt h1 h2 peers = .ok []) := by
  constructor
  · intro d hd hdev hnd hbad
    have hall : ∀ p ∈ peers, ∃ v,
        checkPeer C H zcfg vcfg noMod noFac threshold ownId ssid nt h1 h2 p = .ok v := by
      intro p hp
      by_cases he : p.idx = dev
      · have : p = d := eq_of_nodup_map (fun q : R2Peer => q.idx) hnd hp hd (he.trans hdev.symm)
        obtain ⟨why, hw⟩ := hbad
        exact ⟨_, this ▸ hw⟩
      · exact ⟨_, hothers p hp he⟩
    rw [round3_of_checks_ok C H zcfg vcfg noMod noFac threshold ownId ssid nt h1 h2 peers hall]
    congr 1
    have hsub : ((peers.filter fun p =>
        isCulprit (checkPeer C H zcfg vcfg noMod noFac threshold ownId ssid nt h1 h2 p)).map (·.idx)).Sublist
        (peers.map (·.idx)) := (List.filter_sublist).map _
    refine eq_singleton_of_nodup (hnd.sublist hsub) ?_ ?_
    · exact List.mem_map.2 ⟨d, List.mem_filter.2 ⟨hd, (isCulprit_iff _).2 hbad⟩, hdev⟩
    · intro c hc
      obtain ⟨p, hp, rfl⟩ := List.mem_map.1 hc
      obtain ⟨hp1, hp2⟩ := List.mem_filter.1 hp
      by_contra hne
      rw [hothers p hp1 hne] at hp2
      cases hp2
  · intro hdev
    have hall : ∀ p ∈ peers,
        checkPeer C H zcfg vcfg noMod noFac threshold ownId ssid nt h1 h2 p = .ok none := by
      intro p hp
      by_cases he : p.idx = dev
      · exact hdev p hp he
      · exact hothers p hp he
    rw [round3_of_checks_ok C H zcfg vcfg noMod noFac threshold ownId ssid nt h1 h2 peers
      (fun p hp => ⟨_, hall p hp⟩)]
    congr 1
    rw [List.map_eq_nil_iff, List.filter_eq_nil_iff]
    intro p hp
    rw [hall p hp]
    simp [isCulprit]


/-! ### round 3 does not crash -/

theorem facFromBytes_nonneg (bzs : List Bytes) (pf : FacProof) (h : facFromBytes bzs = some pf) :
    0 ≤ pf.w1 ∧ 0 ≤ pf.w2 ∧ 0 ≤ pf.sigma ∧ 0 ≤ pf.v := by
  unfold facFromBytes at h
  split at h
  · cases h
  · injection h with h
    subst h
    exact ⟨Int.natCast_nonneg _, Int.natCast_nonneg _, Int.natCast_nonneg _, Int.natCast_nonneg _⟩

theorem modOutcome_noPanic : NoPanic (modOutcome H Zk.cur noMod ssid p) := by
  unfold modOutcome
  split
  · exact NoPanic.ok _
  · exact modVerify_noPanic H _ _ _ _ _ _ _

theorem facOutcome_noPanic : NoPanic (facOutcome C H Zk.cur noFac ssid nt h1 h2 p) := by
  unfold facOutcome
  split
  · exact NoPanic.ok _
  · rename_i pf hpf
    exact facVerify_noPanic H C.q _ _ _ _ _ pf (Or.inl (facFromBytes_nonneg _ _ hpf))

/-- **the per-peer check of round 3 never crashes** on the current tree, for a non-empty de-commitment -/
theorem checkPeer_noPanic (hC : C.Lawful)
    (hcof : C.toAffine C.zero = none → ∀ q, C.smul C.q q = C.zero) (hd : p.decommitment ≠ []) :
    NoPanic (checkPeer C H Zk.cur ⟨true⟩ noMod noFac threshold ownId ssid nt h1 h2 p) := by
  have hd' : p.decommitment.map Int.ofNat ≠ [] := by
    intro h; exact hd (List.map_eq_nil_iff.1 h)
  cases hdc : decommitWith H p.commitment (p.decommitment.map Int.ofNat) with
  | err e => rw [checkPeer_decommit_err C H _ _ noMod noFac threshold ownId ssid nt h1 h2 p e hdc]; exact NoPanic.err _
  | panic e =>
    rcases decommit_cases H p.commitment _ hd' with h | h <;> rw [h] at hdc <;> cases hdc
  | ok o =>
    cases o with
    | none => rw [checkPeer_decommit_none C H _ _ noMod noFac threshold ownId ssid nt h1 h2 p hdc]; exact NoPanic.ok _
    | some flat =>
      cases hu : C.unflatten (flat.map Int.toNat) with
      | none =>
        rw [checkPeer_unflatten_none C H _ _ noMod noFac threshold ownId ssid nt h1 h2 p flat hdc hu]
        exact NoPanic.ok _
      | some vs =>
        rw [checkPeer_points C H _ _ noMod noFac threshold ownId ssid nt h1 h2 p flat vs hdc hu]
        have hon := ((C17L.unflatten_eq_some_iff C _ _).1 hu).2
        unfold peerTail
        refine NoPanic.bind (modOutcome_noPanic H noMod ssid p) (fun bm _ => ?_)
        refine NoPanic.ite (fun _ => NoPanic.ok _) (fun _ => ?_)
        have hv : ∃ b, Vss.verify C ⟨true⟩ threshold ⟨threshold, ownId, p.share⟩ vs = .ok b :=
          Vss.verify_no_panic hC hcof threshold ⟨threshold, ownId, p.share⟩ vs hon
        refine NoPanic.bind (NoPanic.of_exists_ok hv) (fun bv _ => ?_)
        refine NoPanic.ite (fun _ => NoPanic.ok _) (fun _ => ?_)
        refine NoPanic.bind (facOutcome_noPanic C H noFac ssid nt h1 h2 p) (fun bf _ => ?_)
        exact NoPanic.ite (fun _ => NoPanic.ok _) (fun _ => NoPanic.ok _)

end round3


/-! ### the pool jobs return a verdict -/

/-- the outcome is a value or a crash, not a reported error -/
def NoErr {α : Type} (o : Outcome α) : Prop := ∀ e, o ≠ .err e

theorem NoErr.ok {α : Type} (a : α) : NoErr (Outcome.ok a) := fun _ => nofun

theorem NoErr.bind {α β : Type} {x : Outcome α} {f : α → Outcome β} (hx : NoErr x)
    (hf : ∀ a, x = .ok a → NoErr (f a)) : NoErr (x >>= f) := by
  cases x with
  | ok a => exact hf a rfl
  | err e => exact absurd rfl (hx e)
  | panic t => exact fun _ => nofun

theorem NoErr.ite {α : Type} {c : Prop} [Decidable c] {a b : Outcome α} (ha : c → NoErr a)
    (hb : ¬ c → NoErr b) : NoErr (if c then a else b) := by
  split
  · exact ha ‹_›
  · exact hb ‹_›

theorem expP_noErr (x y : Int) (m : Nat) : NoErr (expP x y m) := by
  unfold expP nilPanic Outcome.ofOption
  split
  · exact NoErr.ok _
  · exact fun _ => nofun

theorem foldlM_noErr {α β : Type} (f : β → α → Outcome β) (hf : ∀ b a, NoErr (f b a)) :
    ∀ (l : List α) (b : β), NoErr (l.foldlM f b) := by
  intro l
  induction l with
  | nil => intro b; exact NoErr.ok _
  | cons a l ih =>
    intro b
    rw [List.foldlM_cons]
    exact NoErr.bind (hf b a) (fun b' _ => ih b')

theorem dlnVerify_noErr (H : HashFn) (alpha t : List Int) (h1 h2 n : Int) :
    NoErr (dlnVerify H alpha t h1 h2 n) := by
  unfold dlnVerify
  refine NoErr.ite (fun _ => NoErr.ok _) (fun _ => ?_)
  dsimp only
  refine NoErr.ite (fun _ => NoErr.ok _) (fun _ => ?_)
  refine NoErr.ite (fun _ => NoErr.ok _) (fun _ => ?_)
  refine NoErr.ite (fun _ => NoErr.ok _) (fun _ => ?_)
  refine NoErr.ite (fun _ => NoErr.ok _) (fun _ => ?_)
  refine NoErr.ite (fun _ => NoErr.ok _) (fun _ => ?_)
  apply foldlM_noErr
  intro acc i
  refine NoErr.ite (fun _ => NoErr.ok _) (fun _ => ?_)
  refine NoErr.bind (expP_noErr _ _ _) (fun _ _ => ?_)
  exact NoErr.bind (expP_noErr _ _ _) (fun _ _ => NoErr.ok _)

/-- a pool job never reports an error: a proof that does not decode counts as invalid, and the verifier
itself only answers yes/no (or crashes) -/
theorem dlnCheck_noErr (H : HashFn) (pcfg : ParseCfg) (parts : List Bytes) (h1 h2 n : Nat) :
    NoErr (dlnCheck H pcfg parts h1 h2 n) := by
  unfold dlnCheck
  split
  · exact dlnVerify_noErr H _ _ _ _ _
  · exact NoErr.ok _
  · exact fun _ => nofun

/-- **on the current tree every pool job returns a verdict** -/
theorem dlnCheck_total (H : HashFn) (parts : List Bytes) (h1 h2 n : Nat) :
    ∃ b, dlnCheck H Ops16.curParse parts h1 h2 n = .ok b := by
  cases h : dlnCheck H Ops16.curParse parts h1 h2 n with
  | ok b => exact ⟨b, rfl⟩
  | err e => exact absurd h (dlnCheck_noErr H _ parts h1 h2 n e)
  | panic t => exact absurd h (dlnCheck_noPanic H parts h1 h2 n t)


end TssVerif.C05EcL
