import TssVerif.Core.OpsZk
import TssVerif.Lemmas.C16
import TssVerif.Lemmas.VssVerify
/-! The wire arity rule (`common.NonEmptyMultiBytes`) and `Bytes()` / `SetBytes` round trips of proof parts;
`dlnproof` serialisation. -/
set_option autoImplicit false
namespace TssVerif.C10L
open TssVerif Zk

theorem natToBytesBE_eq_nil_iff (n : Nat) : natToBytesBE n = [] ↔ n = 0 := by
  unfold natToBytesBE
  rw [List.reverse_eq_nil_iff, natToBytesLE]
  split
  · next h => simp [h]
  · next h => simp [h]

theorem intToBytesBE_eq_nil_iff (z : Int) : intToBytesBE z = [] ↔ z = 0 := by
  unfold intToBytesBE
  rw [natToBytesBE_eq_nil_iff]
  omega

theorem bytesToNat_intToBytesBE (z : Int) : bytesToNat (intToBytesBE z) = z.natAbs :=
  C16L.bytesToNat_natToBytesBE _

/-- the wire round trip, completely: it succeeds iff the arity matches, is non-zero, and no part is zero; and it
returns the ABSOLUTE VALUES of the parts -/
theorem wireRoundTrip_eq (parts : List Int) (n : Nat) :
    wireRoundTrip parts n =
      if parts.length = n ∧ n ≠ 0 ∧ ∀ p ∈ parts, p ≠ 0 then some (parts.map Int.natAbs) else none := by
  unfold wireRoundTrip nonEmptyMultiBytes
  have hmap : (parts.map intToBytesBE).map bytesToNat = parts.map Int.natAbs := by
    rw [List.map_map]; apply List.map_congr_left; intro p _; exact bytesToNat_intToBytesBE p
  have hc : (!(parts.map intToBytesBE).isEmpty && (parts.map intToBytesBE).length == n &&
      (parts.map intToBytesBE).all fun b => !b.isEmpty) = true ↔
      (parts.length = n ∧ n ≠ 0 ∧ ∀ p ∈ parts, p ≠ 0) := by
    simp only [Bool.and_eq_true, Bool.not_eq_eq_eq_not, Bool.not_true, List.isEmpty_eq_false_iff, ne_eq,
      List.map_eq_nil_iff, List.length_map, beq_iff_eq, List.all_eq_true, List.mem_map, forall_exists_index,
      and_imp, forall_apply_eq_imp_iff₂, intToBytesBE_eq_nil_iff]
    constructor
    · rintro ⟨⟨h1, h2⟩, h3⟩
      refine ⟨h2, ?_, h3⟩
      rintro rfl
      exact h1 (List.length_eq_zero_iff.1 h2)
    · rintro ⟨h1, h2, h3⟩
      refine ⟨⟨?_, h1⟩, h3⟩
      rintro rfl
      exact h2 h1.symm
  simp only [hmap]
  by_cases h : parts.length = n ∧ n ≠ 0 ∧ ∀ p ∈ parts, p ≠ 0
  · rw [if_pos (hc.2 h), if_pos h]
  · rw [if_neg (fun h' => h (hc.1 h')), if_neg h]

theorem map_natAbs_eq_toNat {parts : List Int} (h : ∀ p ∈ parts, 0 ≤ p) :
    parts.map Int.natAbs = parts.map Int.toNat := by
  apply List.map_congr_left
  intro p hp
  have := h p hp
  omega

theorem wire_roundtrip_aux (parts : List Int) (n : Nat) (h : ∀ p ∈ parts, 0 ≤ p) :
    wireRoundTrip parts n = some (parts.map Int.toNat) ↔ parts.length = n ∧ n ≠ 0 ∧ ∀ p ∈ parts, p ≠ 0 := by
  rw [wireRoundTrip_eq]
  split
  · next hc => rw [map_natAbs_eq_toNat h]; exact ⟨fun _ => hc, fun _ => rfl⟩
  · next hc => exact ⟨fun e => (by cases e), fun e => absurd e hc⟩

/-- strictly positive parts come back unchanged -/
theorem wire_roundtrip_pos (parts : List Int) (n : Nat) (hlen : parts.length = n) (hn : n ≠ 0)
    (h : ∀ p ∈ parts, 0 < p) :
    (wireRoundTrip parts n).map (fun l => l.map Int.ofNat) = some parts := by
  rw [wireRoundTrip_eq, if_pos ⟨hlen, hn, fun p hp => by have := h p hp; omega⟩]
  simp only [Option.map_some, List.map_map, Option.some.injEq]
  conv_rhs => rw [← List.map_id parts]
  apply List.map_congr_left
  intro p hp
  have := h p hp
  show ((p.natAbs : Nat) : Int) = p
  omega

/-! ### the structured proofs -/
open OpsZk

theorem facOfList_toList (f : FacProof) : facOfList (facToList f) = some f := rfl
theorem rangeOfList_toList (f : RangeProof) : rangeOfList (rangeToList f) = some f := rfl
theorem bobOfList_toList (f : BobProof) : bobOfList (bobToList f) = some f := rfl

/-! ### `dlnproof` serialisation -/

theorem dln_serialize_roundtrip_aux (alpha t : List Int) (ha : alpha.length = dlnIterations)
    (ht : t.length = dlnIterations) :
    (dlnSerialize alpha t >>= fun s => dlnUnmarshal Ops16.curParse s) = .ok (alpha, t) := by
  obtain ⟨s, hs, hp⟩ := C16L.builder_roundtrip_aux [alpha, t] (by simp [partsCap])
    (by
      intro p hp
      simp only [List.mem_cons, List.not_mem_nil, or_false] at hp
      rcases hp with rfl | rfl
      · rw [ha]; decide
      · rw [ht]; decide)
    (by simp [ha, ht, dlnIterations])
  unfold dlnSerialize
  rw [hs, Outcome.ok_bind]
  unfold dlnUnmarshal
  have : Ops16.curParse = ⟨true, true⟩ := rfl
  rw [this, hp]
  simp [ha, ht]

end TssVerif.C10L
