import TssVerif.Lemmas.Engine
/-! Order independence of deliveries: local confluence, duplicates, permutations, pre-`Start` deliveries. -/
set_option autoImplicit false
namespace TssVerif.EngineL
open TssVerif.Engine

/-! ## 7. unfolding `step`/`rest` in a started, unfinished party -/

theorem step_eq_of {tbl : List RoundSpec} {p : Party} {r : RoundSpec} (h0 : p.rnd ≠ 0) (hd : p.done = false)
    (hr : tbl[p.rnd - 1]? = some r) :
    step tbl p = if canProceed (scan r p) then
      (match tbl[p.rnd]? with
        | some r' => some (startRound r' p.rnd (scan r p))
        | none => some { scan r p with done := true })
      else none := by
  have hnd : ¬ (p.rnd = 0 ∨ p.done = true) := by
    rintro (h | h)
    · exact h0 h
    · rw [hd] at h; cases h
  unfold step
  rw [if_neg hnd, hr]
  rfl

theorem rest_eq_of {tbl : List RoundSpec} {p : Party} {r : RoundSpec} (h0 : p.rnd ≠ 0) (hd : p.done = false)
    (hr : tbl[p.rnd - 1]? = some r) : rest tbl p = scan r p := by
  have hnd : ¬ (p.rnd = 0 ∨ p.done = true) := by
    rintro (h | h)
    · exact h0 h
    · rw [hd] at h; cases h
  unfold rest
  rw [if_neg hnd, hr]

theorem rest_eq_of_none {tbl : List RoundSpec} {p : Party} (hr : tbl[p.rnd - 1]? = none) : rest tbl p = p := by
  unfold rest
  split
  · rfl
  · rw [hr]

theorem step_eq_of_none {tbl : List RoundSpec} {p : Party} (hr : tbl[p.rnd - 1]? = none) : step tbl p = none := by
  unfold step
  split
  · rfl
  · rw [hr]

theorem step_none_iff {tbl : List RoundSpec} {p : Party} {r : RoundSpec} (h0 : p.rnd ≠ 0) (hd : p.done = false)
    (hr : tbl[p.rnd - 1]? = some r) : step tbl p = none ↔ canProceed (scan r p) = false := by
  rw [step_eq_of h0 hd hr]
  cases hc : canProceed (scan r p)
  · simp
  · simp only [if_true]
    cases tbl[p.rnd]? <;> simp

/-! ## 8. good messages -/

/-- `m` is acceptable wherever its type is needed, and is not from the party itself -/
def Good (tbl : List RoundSpec) (self : Nat) (m : Msg) : Prop :=
  m.frm ≠ self ∧ ∀ r ∈ tbl, ∀ tf ∈ r.needs, tf.1 = m.ty → tf.2 = m.slot.flag

theorem sat_iff (r : RoundSpec) (store : Nat → Nat → Option Slot) (j : Nat) :
    sat r store j = true ↔ ∀ tf ∈ r.needs, ∃ s, store tf.1 j = some s ∧ s.flag = tf.2 := by
  unfold sat
  rw [List.all_eq_true]
  constructor
  · intro h tf htf
    have := h tf htf
    split at this
    · rename_i s hs
      exact ⟨s, hs, by simpa using this⟩
    · cases this
  · intro h tf htf
    obtain ⟨s, hs, hf⟩ := h tf htf
    rw [hs]; simp [hf]

theorem sat_storeMsg {tbl : List RoundSpec} {r : RoundSpec} (hr : r ∈ tbl) {p : Party} {m : Msg}
    (hg : Good tbl p.self m) (j : Nat) (h : sat r p.store j = true) :
    sat r (storeMsg m p).store j = true := by
  rw [sat_iff] at *
  intro tf htf
  simp only [storeMsg]
  by_cases hc : tf.1 = m.ty ∧ j = m.frm
  · rw [if_pos hc]
    exact ⟨m.slot, rfl, (hg.2 r hr tf htf hc.1).symm⟩
  · rw [if_neg hc]; exact h tf htf

/-- K1: scanning, storing a good message and scanning again is the same as storing and scanning -/
theorem scan_store_scan {tbl : List RoundSpec} {r : RoundSpec} (hr : r ∈ tbl) {p : Party} {m : Msg}
    (hg : Good tbl p.self m) :
    scan r (storeMsg m (scan r p)) = scan r (storeMsg m p) := by
  have e : ∀ j, scanOk r (storeMsg m (scan r p)) j = scanOk r (storeMsg m p) j := by
    intro j
    apply Bool.eq_iff_iff.mpr
    constructor
    · intro h
      rcases (scanOk_iff r (storeMsg m (scan r p)) j).mp h with h | ⟨hf, hj, hs, hp⟩
      · exact scanOk_mono (p := p) (q := storeMsg m p) rfl (fun _ h => h)
          (fun j h => sat_storeMsg hr hg j h) j h
      · refine (scanOk_iff r (storeMsg m p) j).mpr (Or.inr ⟨hf, hj, hs, ?_⟩)
        rcases hp with hp | hp
        · exact Or.inl hp
        · refine Or.inr fun j' hj' => ?_
          rcases hp j' hj' with h1 | h1
          · rcases ok_or_sat_of_scanOk (r := r) (p := p) h1 with h2 | ⟨_, _, h2⟩
            · exact Or.inl h2
            · exact Or.inr (sat_storeMsg hr hg j' h2)
          · exact Or.inr h1
    · intro h
      exact scanOk_mono (p := storeMsg m p) (q := storeMsg m (scan r p)) rfl
        (fun j hj => scanOk_of_ok (p := p) hj) (fun _ h => h) j h
  show { storeMsg m (scan r p) with ok := scanOk r (storeMsg m (scan r p)) } =
    { storeMsg m p with ok := scanOk r (storeMsg m p) }
  have e' : scanOk r (storeMsg m (scan r p)) = scanOk r (storeMsg m p) := funext e
  rw [e']; rfl

theorem putSelf_storeMsg_comm (self k : Nat) (ss : List (Nat × Bool)) (m : Msg) (hm : m.frm ≠ self)
    (store : Nat → Nat → Option Slot) :
    putSelf self k ss (fun t j => if t = m.ty ∧ j = m.frm then some m.slot else store t j) =
    fun t j => if t = m.ty ∧ j = m.frm then some m.slot else putSelf self k ss store t j := by
  funext t j
  unfold putSelf
  by_cases h1 : j = self
  · have : ¬ (t = m.ty ∧ j = m.frm) := fun h => hm (h.2 ▸ h1)
    simp [this]
  · simp [h1]

theorem startRound_storeMsg (r : RoundSpec) (k : Nat) (m : Msg) (p : Party) (hm : m.frm ≠ p.self) :
    startRound r k (storeMsg m p) = storeMsg m (startRound r k p) := by
  simp only [startRound, storeMsg]
  congr 1
  rw [putSelf_storeMsg_comm _ _ _ _ hm]

/-- K2: a productive step commutes with storing a good message -/
theorem step_storeMsg {tbl : List RoundSpec} {p p' : Party} {m : Msg} (hg : Good tbl p.self m)
    (hs : step tbl p = some p') : step tbl (storeMsg m p) = some (storeMsg m p') := by
  obtain ⟨hr0, hd, r, hr, hcp, hc⟩ := step_cases hs
  have hrm : r ∈ tbl := List.mem_of_getElem? hr
  have hcp' : canProceed (scan r (storeMsg m p)) = true :=
    canProceed_mono (p := scan r p) (q := scan r (storeMsg m p)) rfl
      (fun j hj => scanOk_mono (p := p) (q := storeMsg m p) rfl (fun _ h => h)
        (fun j h => sat_storeMsg hrm hg j h) j hj) hcp
  rw [step_eq_of (p := storeMsg m p) hr0 hd hr, if_pos hcp']
  have e1 : (storeMsg m p).rnd = p.rnd := rfl
  rw [e1]
  rcases hc with ⟨r', hr', rfl⟩ | ⟨hr', rfl⟩
  · rw [hr']
    simp only
    congr 1
    simp only [startRound, scan, storeMsg]
    congr 1
    rw [putSelf_storeMsg_comm _ _ _ _ hg.1]
  · rw [hr']
    simp only
    congr 1
    -- finishing: both scans are all-true below n (canProceed) and equal to p.ok from n on
    have hok : scanOk r (storeMsg m p) = scanOk r p := by
      funext j
      by_cases hj : j < p.n
      · have h1 : scanOk r (storeMsg m p) j = true := (canProceed_iff _).mp hcp' j hj
        have h2 : scanOk r p j = true := (canProceed_iff _).mp hcp j hj
        rw [h1, h2]
      · apply Bool.eq_iff_iff.mpr
        rw [scanOk_iff, scanOk_iff]
        constructor
        · rintro (h | ⟨_, h, _⟩)
          · exact Or.inl h
          · exact absurd h hj
        · rintro (h | ⟨_, h, _⟩)
          · exact Or.inl h
          · exact absurd h hj
    simp only [scan, storeMsg] at hok ⊢
    rw [hok]

/-- the heart: settling before storing a good message changes nothing once settled again -/
theorem settle_store_settle (tbl : List RoundSpec) (m : Msg) (p : Party) (hg : Good tbl p.self m) :
    settleF tbl (storeMsg m (settleF tbl p)) = settleF tbl (storeMsg m p) := by
  refine settleF_induction (tbl := tbl)
    (fun p q => Good tbl p.self m → settleF tbl (storeMsg m q) = settleF tbl (storeMsg m p)) ?_ ?_ p hg
  · intro p hs hg
    by_cases hnd : p.rnd = 0 ∨ p.done = true
    · rw [rest_of_not_started hnd]
    · have h0 : p.rnd ≠ 0 := fun h => hnd (Or.inl h)
      have hd : p.done = false := by
        cases hpd : p.done
        · rfl
        · exact absurd (Or.inr hpd) hnd
      cases hr : tbl[p.rnd - 1]? with
      | none => rw [rest_eq_of_none hr]
      | some r =>
        rw [rest_eq_of h0 hd hr]
        have hrm : r ∈ tbl := List.mem_of_getElem? hr
        have hstep : step tbl (storeMsg m (scan r p)) = step tbl (storeMsg m p) := by
          rw [step_eq_of (p := storeMsg m (scan r p)) h0 hd hr, step_eq_of (p := storeMsg m p) h0 hd hr,
            scan_store_scan hrm hg]
          rfl
        have hrest : rest tbl (storeMsg m (scan r p)) = rest tbl (storeMsg m p) := by
          rw [rest_eq_of (p := storeMsg m (scan r p)) h0 hd hr, rest_eq_of (p := storeMsg m p) h0 hd hr,
            scan_store_scan hrm hg]
        unfold settleF settle
        rw [hstep, hrest]
  · intro p p' hs ih hg
    rw [ih (by rw [step_self hs]; exact hg)]
    exact (settleF_of_step_some (step_storeMsg hg hs)).symm

theorem storeMsg_comm (a b : Msg) (p : Party) (hne : ¬ (a.ty = b.ty ∧ a.frm = b.frm)) :
    storeMsg a (storeMsg b p) = storeMsg b (storeMsg a p) := by
  simp only [storeMsg]
  congr 1
  funext t j
  by_cases h1 : t = a.ty ∧ j = a.frm <;> by_cases h2 : t = b.ty ∧ j = b.frm
  · exact absurd ⟨h1.1 ▸ h2.1, h1.2 ▸ h2.2⟩ hne
  · rw [if_pos h1, if_neg h2, if_pos h1]
  · rw [if_neg h1, if_pos h2, if_pos h2]
  · rw [if_neg h1, if_neg h2, if_neg h2, if_neg h1]

theorem storeMsg_idem (a : Msg) (p : Party) : storeMsg a (storeMsg a p) = storeMsg a p := by
  simp only [storeMsg]
  congr 1
  funext t j
  by_cases h1 : t = a.ty ∧ j = a.frm <;> simp [h1]

/-- two good messages for different slots may be delivered in either order -/
theorem deliver_comm (tbl : List RoundSpec) (a b : Msg) (p : Party)
    (ha : Good tbl p.self a) (hb : Good tbl p.self b) (hne : ¬ (a.ty = b.ty ∧ a.frm = b.frm)) :
    deliver tbl a (deliver tbl b p) = deliver tbl b (deliver tbl a p) := by
  simp only [deliver_eq]
  rw [settle_store_settle tbl a (storeMsg b p) ha, settle_store_settle tbl b (storeMsg a p) hb,
    storeMsg_comm a b p hne]

/-- duplicates are idempotent -/
theorem deliver_dup (tbl : List RoundSpec) (a : Msg) (p : Party) (ha : Good tbl p.self a) :
    deliver tbl a (deliver tbl a p) = deliver tbl a p := by
  simp only [deliver_eq]
  rw [settle_store_settle tbl a (storeMsg a p) ha, storeMsg_idem]

/-- delivering to a settled party after the full settle is delivering directly -/
theorem deliver_settleF (tbl : List RoundSpec) (m : Msg) (p : Party) (hg : Good tbl p.self m) :
    deliver tbl m (settleF tbl p) = settleF tbl (storeMsg m p) := settle_store_settle tbl m p hg

/-! ## 9. sequences -/

/-- all messages good for the party, and two messages for the same slot are the same message -/
def GoodList (tbl : List RoundSpec) (self : Nat) (ms : List Msg) : Prop := ∀ m ∈ ms, Good tbl self m

def SlotConsistent (ms : List Msg) : Prop := ∀ a ∈ ms, ∀ b ∈ ms, a.ty = b.ty → a.frm = b.frm → a = b

theorem delivers_swap (tbl : List RoundSpec) (a b : Msg) (p : Party)
    (ha : Good tbl p.self a) (hb : Good tbl p.self b) (hc : a.ty = b.ty → a.frm = b.frm → a = b) :
    deliver tbl a (deliver tbl b p) = deliver tbl b (deliver tbl a p) := by
  by_cases hne : a.ty = b.ty ∧ a.frm = b.frm
  · rw [hc hne.1 hne.2]
  · exact deliver_comm tbl a b p ha hb hne

/-- permuting a slot-consistent list of good messages does not change the outcome -/
theorem delivers_perm (tbl : List RoundSpec) {ms ms' : List Msg} (hp : ms.Perm ms') :
    ∀ (p : Party), GoodList tbl p.self ms → SlotConsistent ms → delivers tbl ms p = delivers tbl ms' p := by
  induction hp with
  | nil => intro p _ _; rfl
  | cons a _ ih =>
    intro p hg hc
    rw [delivers_cons, delivers_cons]
    exact ih _ (by rw [deliver_self]; exact fun m hm => hg m (List.mem_cons_of_mem _ hm))
      (fun x hx y hy => hc x (List.mem_cons_of_mem _ hx) y (List.mem_cons_of_mem _ hy))
  | swap a b l =>
    intro p hg hc
    rw [delivers_cons, delivers_cons, delivers_cons, delivers_cons]
    congr 1
    exact delivers_swap tbl a b p (hg a (by simp)) (hg b (by simp)) (hc a (by simp) b (by simp))
  | trans h1 _ ih1 ih2 =>
    intro p hg hc
    rw [ih1 p hg hc]
    exact ih2 p (fun m hm => hg m (h1.mem_iff.mpr hm))
      (fun x hx y hy => hc x (h1.mem_iff.mpr hx) y (h1.mem_iff.mpr hy))

/-- a message that is going to be delivered anyway may be delivered first as well -/
theorem delivers_absorb (tbl : List RoundSpec) (a : Msg) :
    ∀ (ms : List Msg) (p : Party), a ∈ ms → GoodList tbl p.self ms → SlotConsistent ms →
      delivers tbl (a :: ms) p = delivers tbl ms p := by
  intro ms
  induction ms with
  | nil => intro p h; cases h
  | cons b l ih =>
    intro p hm hg hc
    have hga : Good tbl p.self a := hg a hm
    have hgb : Good tbl p.self b := hg b (by simp)
    by_cases hab : a = b
    · subst hab
      simp only [delivers_cons]
      rw [deliver_dup tbl a p hga]
    · have hal : a ∈ l := by
        rcases List.mem_cons.mp hm with h | h
        · exact absurd h hab
        · exact h
      simp only [delivers_cons]
      rw [delivers_swap tbl b a p hgb hga (hc b (by simp) a hm), ← delivers_cons]
      exact ih _ hal (by rw [deliver_self]; exact fun m hm => hg m (List.mem_cons_of_mem _ hm))
        (fun x hx y hy => hc x (List.mem_cons_of_mem _ hx) y (List.mem_cons_of_mem _ hy))

open Classical in
/-- remove earlier copies -/
noncomputable def dedupL : List Msg → List Msg
  | [] => []
  | a :: l => if a ∈ l then dedupL l else a :: dedupL l

theorem mem_dedupL (ms : List Msg) (m : Msg) : m ∈ dedupL ms ↔ m ∈ ms := by
  induction ms with
  | nil => simp [dedupL]
  | cons a l ih =>
    unfold dedupL
    split
    · rename_i h
      rw [ih]
      constructor
      · exact List.mem_cons_of_mem _
      · intro hm
        rcases List.mem_cons.mp hm with h' | h'
        · rw [h']; exact h
        · exact h'
    · rw [List.mem_cons, List.mem_cons, ih]

theorem nodup_dedupL (ms : List Msg) : (dedupL ms).Nodup := by
  induction ms with
  | nil => simp [dedupL]
  | cons a l ih =>
    unfold dedupL
    split
    · exact ih
    · rename_i h
      exact List.nodup_cons.mpr ⟨fun hm => h ((mem_dedupL l a).mp hm), ih⟩

theorem delivers_dedupL (tbl : List RoundSpec) :
    ∀ (ms : List Msg) (p : Party), GoodList tbl p.self ms → SlotConsistent ms →
      delivers tbl (dedupL ms) p = delivers tbl ms p := by
  intro ms
  induction ms with
  | nil => intro p _ _; rfl
  | cons a l ih =>
    intro p hg hc
    have hgl : GoodList tbl p.self l := fun m hm => hg m (List.mem_cons_of_mem _ hm)
    have hcl : SlotConsistent l := fun x hx y hy => hc x (List.mem_cons_of_mem _ hx) y (List.mem_cons_of_mem _ hy)
    unfold dedupL
    split
    · rename_i h
      rw [ih p hgl hcl]
      exact (delivers_absorb tbl a l p h hgl hcl).symm
    · rw [delivers_cons, delivers_cons]
      exact ih _ (by rw [deliver_self]; exact hgl) hcl

/-- the outcome depends only on the *set* of (slot-consistent, good) messages delivered: order and multiplicity are irrelevant -/
theorem delivers_same_set (tbl : List RoundSpec) (ms ms' : List Msg) (p : Party)
    (hset : ∀ m, m ∈ ms ↔ m ∈ ms') (hg : GoodList tbl p.self ms) (hc : SlotConsistent ms) :
    delivers tbl ms p = delivers tbl ms' p := by
  have hg' : GoodList tbl p.self ms' := fun m hm => hg m ((hset m).mpr hm)
  have hc' : SlotConsistent ms' := fun x hx y hy => hc x ((hset x).mpr hx) y ((hset y).mpr hy)
  rw [← delivers_dedupL tbl ms p hg hc, ← delivers_dedupL tbl ms' p hg' hc']
  have hperm : (dedupL ms).Perm (dedupL ms') :=
    (List.perm_ext_iff_of_nodup (nodup_dedupL ms) (nodup_dedupL ms')).mpr
      (fun m => by rw [mem_dedupL, mem_dedupL]; exact hset m)
  exact delivers_perm tbl hperm p (fun m hm => hg m ((mem_dedupL ms m).mp hm))
    (fun x hx y hy => hc x ((mem_dedupL ms x).mp hx) y ((mem_dedupL ms y).mp hy))

/-! ## 10. deliveries before `Start` -/

theorem startOld_storeMsg (tbl : List RoundSpec) (m : Msg) (p : Party) (hm : m.frm ≠ p.self) :
    startOld tbl (storeMsg m p) = storeMsg m (startOld tbl p) := by
  unfold startOld
  split
  · have e : (storeMsg m p).rnd = p.rnd := rfl
    rw [e]
    split
    · exact startRound_storeMsg _ _ m p hm
    · rfl
  · rfl

def stores (ms : List Msg) (p : Party) : Party := ms.foldl (fun p m => storeMsg m p) p

theorem stores_rnd (ms : List Msg) (p : Party) : (stores ms p).rnd = p.rnd := by
  induction ms generalizing p with
  | nil => rfl
  | cons m ms ih => exact ih (storeMsg m p)

theorem stores_self (ms : List Msg) (p : Party) : (stores ms p).self = p.self := by
  induction ms generalizing p with
  | nil => rfl
  | cons m ms ih => exact ih (storeMsg m p)

theorem delivers_of_not_started (tbl : List RoundSpec) (ms : List Msg) (p : Party) (h : p.rnd = 0) :
    delivers tbl ms p = stores ms p := by
  induction ms generalizing p with
  | nil => rfl
  | cons m ms ih =>
    rw [delivers_cons, deliver_of_not_started m (Or.inl h)]
    exact ih (storeMsg m p) h

theorem startOld_stores (tbl : List RoundSpec) (ms : List Msg) (p : Party) (hg : ∀ m ∈ ms, m.frm ≠ p.self) :
    startOld tbl (stores ms p) = stores ms (startOld tbl p) := by
  induction ms generalizing p with
  | nil => rfl
  | cons m ms ih =>
    show startOld tbl (stores ms (storeMsg m p)) = stores ms (storeMsg m (startOld tbl p))
    rw [ih (storeMsg m p) (fun x hx => hg x (List.mem_cons_of_mem _ hx)),
      startOld_storeMsg tbl m p (hg m (by simp))]

/-- storing a list of good messages and settling once = settling and delivering them one by one -/
theorem settleF_stores (tbl : List RoundSpec) (ms : List Msg) (p : Party) (hg : GoodList tbl p.self ms) :
    settleF tbl (stores ms p) = delivers tbl ms (settleF tbl p) := by
  induction ms generalizing p with
  | nil => rfl
  | cons m ms ih =>
    show settleF tbl (stores ms (storeMsg m p)) = delivers tbl ms (deliver tbl m (settleF tbl p))
    rw [ih (storeMsg m p) (fun x hx => hg x (List.mem_cons_of_mem _ hx)),
      deliver_settleF tbl m p (hg m (by simp))]

/-- deliveries before `Start` followed by `Start` = `Start` followed by the same deliveries -/
theorem start_delivers (tbl : List RoundSpec) (ms : List Msg) (p : Party) (h0 : p.rnd = 0)
    (hg : GoodList tbl p.self ms) :
    start tbl (delivers tbl ms p) = delivers tbl ms (start tbl p) := by
  rw [delivers_of_not_started tbl ms p h0, start_eq_of_rnd_zero (by rw [stores_rnd]; exact h0),
    start_eq_of_rnd_zero h0, startOld_stores tbl ms p (fun m hm => (hg m hm).1),
    settleF_stores tbl ms _ (by rw [startOld_self]; exact hg)]

end TssVerif.EngineL
