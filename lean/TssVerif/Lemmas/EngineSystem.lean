import TssVerif.Lemmas.EngineWait
/-! A closed system of `n` parties over one all-to-all table: no quiescent state short of the final round. -/
set_option autoImplicit false
namespace TssVerif.EngineL
open TssVerif.Engine

/-! ## 15. table predicates -/

/-- the flag a genuine message of type `ty` carries: broadcast unless the type is emitted once per peer -/
def flagOf (tbl : List RoundSpec) (ty : Nat) : Bool :=
  match (tbl.flatMap (·.emits)).find? (fun e => e.1 == ty) with
  | some e => !e.2
  | none => true

/-- channel discipline: every round requires a type with the flag its genuine messages carry -/
def disciplined (tbl : List RoundSpec) : Bool :=
  tbl.all fun r => r.needs.all fun tf => tf.2 == flagOf tbl tf.1

/-- all-to-all: every type a non-final round needs (from every sender) is emitted by every party in that round
or an earlier one, and the party's own share of the requirement is met by its own `Start`
(`ok[self]` is set, or own copies of everything needed are put into the own slot) -/
def allToAll (tbl : List RoundSpec) : Bool :=
  (List.range tbl.length).all fun k => match tbl[k]? with
    | none => true
    | some r => r.final ||
        (r.needs.all (fun tf => (tbl.take (k + 1)).any fun r' => r'.emits.any fun e => e.1 == tf.1) &&
         (r.selfOk || r.needs.all fun tf => r.selfStore.find? (fun x => x.1 == tf.1) == some tf))

theorem disciplined_spec {tbl : List RoundSpec} (h : disciplined tbl = true) {r : RoundSpec} (hr : r ∈ tbl)
    {tf : Nat × Bool} (htf : tf ∈ r.needs) : tf.2 = flagOf tbl tf.1 := by
  unfold disciplined at h
  rw [List.all_eq_true] at h
  have := h r hr
  rw [List.all_eq_true] at this
  exact eq_of_beq (this tf htf)

theorem allToAll_spec {tbl : List RoundSpec} (h : allToAll tbl = true) {k : Nat} {r : RoundSpec}
    (hr : tbl[k]? = some r) (hf : r.final = false) :
    (∀ tf ∈ r.needs, ∃ k' r', k' ≤ k ∧ tbl[k']? = some r' ∧ ∃ e ∈ r'.emits, e.1 = tf.1) ∧
    (r.selfOk = true ∨ ∀ tf ∈ r.needs, r.selfStore.find? (fun x => x.1 == tf.1) = some tf) := by
  unfold allToAll at h
  rw [List.all_eq_true] at h
  have := h k (List.mem_range.mpr (lt_of_getElem?_some hr))
  rw [hr] at this
  simp only [hf, Bool.false_or, Bool.and_eq_true, List.all_eq_true, List.any_eq_true, Bool.or_eq_true,
    beq_iff_eq] at this
  obtain ⟨h1, h2⟩ := this
  refine ⟨?_, h2⟩
  intro tf htf
  obtain ⟨r', hr', e, he, hee⟩ := h1 tf htf
  obtain ⟨i, hi⟩ := List.mem_iff_getElem?.mp hr'
  rw [List.getElem?_take] at hi
  split at hi
  · rename_i hlt
    exact ⟨i, r', by omega, hi, e, he, hee⟩
  · cases hi

/-! ## 16. what has been emitted -/

theorem mem_emitList {n : Nat} {es : List (Nat × Bool)} {e : Nat × Bool} (he : e ∈ es) (hn : 2 ≤ n) :
    e.1 ∈ emitList n es := by
  unfold emitList
  rw [List.mem_flatMap]
  refine ⟨e, he, ?_⟩
  split
  · rw [List.mem_replicate]; exact ⟨by omega, rfl⟩
  · simp

theorem mem_emitsUpTo {tbl : List RoundSpec} {n k k' : Nat} {r' : RoundSpec} {e : Nat × Bool}
    (hk : k' < k) (hr' : tbl[k']? = some r') (he : e ∈ r'.emits) (hn : 2 ≤ n) : e.1 ∈ emitsUpTo tbl n k := by
  unfold emitsUpTo
  rw [List.mem_flatten]
  refine ⟨emitList n r'.emits, ?_, mem_emitList he hn⟩
  rw [List.mem_map]
  refine ⟨r', ?_, rfl⟩
  rw [List.mem_iff_getElem?]
  exact ⟨k', by rw [List.getElem?_take, if_pos hk]; exact hr'⟩

/-! ## 17. the local invariant of a party in the closed system -/

/-- own share of the current round's requirement -/
def SelfSat (tbl : List RoundSpec) (p : Party) : Prop :=
  p.rnd ≠ 0 → ∀ r, tbl[p.rnd - 1]? = some r → r.final = false →
    p.ok p.self = true ∨ sat r p.store p.self = true

/-- everything stored for another sender carries the genuine flag of its type -/
def FlagsOk (tbl : List RoundSpec) (p : Party) : Prop :=
  ∀ t j s, j ≠ p.self → p.store t j = some s → s.flag = flagOf tbl t

def DoneLast (tbl : List RoundSpec) (p : Party) : Prop := p.done = true → p.rnd = tbl.length

structure LocalInv (tbl : List RoundSpec) (p : Party) : Prop where
  canon : Canon tbl p
  settled : Settled tbl p
  doneLast : DoneLast tbl p
  flagsOk : FlagsOk tbl p
  selfSat : SelfSat tbl p

/-- a predicate kept by productive steps and by the closing scan is kept by the update loop -/
theorem settle_preserves {tbl : List RoundSpec} (Q : Party → Prop)
    (hstep : ∀ p p', Q p → step tbl p = some p' → Q p') (hrest : ∀ p, Q p → Q (rest tbl p))
    (fuel : Nat) (p : Party) (h : Q p) : Q (settle tbl fuel p) := by
  induction fuel generalizing p with
  | zero => exact hrest p h
  | succ k ih =>
    unfold settle
    split
    · rename_i p' hs; exact ih p' (hstep p p' h hs)
    · exact hrest p h

theorem sat_putSelf_self {r : RoundSpec} (self k : Nat) (store : Nat → Nat → Option Slot)
    (h : ∀ tf ∈ r.needs, r.selfStore.find? (fun x => x.1 == tf.1) = some tf) :
    sat r (putSelf self k r.selfStore store) self = true := by
  rw [sat_iff]
  intro tf htf
  have hf := h tf htf
  have hany : (r.selfStore.any fun x => x.1 == tf.1) = true := by
    rw [List.any_eq_true]
    exact ⟨tf, List.mem_of_find?_eq_some hf, by simp⟩
  unfold putSelf
  rw [if_pos ⟨rfl, hany⟩, hf]
  exact ⟨_, rfl, rfl⟩

theorem selfSat_startRound {tbl : List RoundSpec} (ha : allToAll tbl = true) {k : Nat} {r' : RoundSpec}
    (hr' : tbl[k]? = some r') (p : Party) : SelfSat tbl (startRound r' k p) := by
  intro _ r hr hf
  have hr2 : tbl[k]? = some r := hr
  rw [hr'] at hr2
  injection hr2 with hr2
  subst hr2
  rcases (allToAll_spec ha hr' hf).2 with h | h
  · left
    simp only [startRound, hf, h]
    simp
  · right
    exact sat_putSelf_self p.self k p.store h

theorem selfSat_scan {tbl : List RoundSpec} {p : Party} (r : RoundSpec) (h : SelfSat tbl p) : SelfSat tbl (scan r p) := by
  intro h0 r1 hr1 hf
  rcases h h0 r1 hr1 hf with h' | h'
  · exact Or.inl (scanOk_of_ok (p := p) h')
  · exact Or.inr h'

theorem selfSat_rest {tbl : List RoundSpec} {p : Party} (h : SelfSat tbl p) : SelfSat tbl (rest tbl p) := by
  unfold rest
  split
  · exact h
  · split
    · exact h
    · exact selfSat_scan _ h

theorem selfSat_step {tbl : List RoundSpec} (ha : allToAll tbl = true) {p p' : Party} (_h : SelfSat tbl p)
    (hs : step tbl p = some p') : SelfSat tbl p' := by
  obtain ⟨_, _, r, _, _, hc⟩ := step_cases hs
  rcases hc with ⟨r', hr', rfl⟩ | ⟨hn, rfl⟩
  · exact selfSat_startRound ha hr' _
  · -- finished: the table has no round at index `rnd`, and `rnd - 1` is the last; vacuous unless non-final
    intro h0 r1 hr1 hf
    exact selfSat_scan r _h h0 r1 hr1 hf

theorem selfSat_storeMsg {tbl : List RoundSpec} {p : Party} {m : Msg} (hm : m.frm ≠ p.self) (h : SelfSat tbl p) :
    SelfSat tbl (storeMsg m p) := by
  intro h0 r hr hf
  rcases h h0 r hr hf with h' | h'
  · exact Or.inl h'
  · right
    rw [sat_iff] at *
    intro tf htf
    obtain ⟨s, hs, hfl⟩ := h' tf htf
    refine ⟨s, ?_, hfl⟩
    simp only [storeMsg]
    rw [if_neg (fun hc => hm hc.2.symm)]
    exact hs

theorem flagsOk_step {tbl : List RoundSpec} {p p' : Party} (h : FlagsOk tbl p) (hs : step tbl p = some p') :
    FlagsOk tbl p' := by
  intro t j s hj hst
  rw [step_self hs] at hj
  rw [step_store_other hs t j hj] at hst
  exact h t j s hj hst

theorem flagsOk_rest {tbl : List RoundSpec} {p : Party} (h : FlagsOk tbl p) : FlagsOk tbl (rest tbl p) := by
  intro t j s hj hst
  rw [rest_self] at hj
  rw [rest_store] at hst
  exact h t j s hj hst

theorem flagsOk_storeMsg {tbl : List RoundSpec} {p : Party} {m : Msg} (hm : m.slot.flag = flagOf tbl m.ty)
    (h : FlagsOk tbl p) : FlagsOk tbl (storeMsg m p) := by
  intro t j s hj hst
  simp only [storeMsg] at hst
  by_cases hc : t = m.ty ∧ j = m.frm
  · rw [if_pos hc] at hst
    injection hst with hst
    rw [← hst, hc.1]; exact hm
  · rw [if_neg hc] at hst
    exact h t j s hj hst

theorem doneLast_step {tbl : List RoundSpec} {p p' : Party} (hs : step tbl p = some p') : DoneLast tbl p' := by
  obtain ⟨r, _, _, hc⟩ := advance_requires tbl p p' hs
  intro hd
  rcases hc with ⟨_, h2⟩ | ⟨h1, _, h3⟩
  · rw [h2] at hd; cases hd
  · rw [h1, h3]

theorem doneLast_rest {tbl : List RoundSpec} {p : Party} (h : DoneLast tbl p) : DoneLast tbl (rest tbl p) := by
  intro hd
  rw [rest_done] at hd
  rw [rest_rnd]
  exact h hd

theorem startOld_eq_of {tbl : List RoundSpec} {p : Party} {r : RoundSpec} (h0 : p.rnd = 0) (hr : tbl[0]? = some r) :
    startOld tbl p = startRound r 0 p := by
  unfold startOld
  rw [hr]
  simp only
  rw [if_pos h0]

theorem startOld_eq_of_none {tbl : List RoundSpec} {p : Party} (hr : tbl[0]? = none) : startOld tbl p = p := by
  unfold startOld
  rw [hr]

theorem localInv_settleF {tbl : List RoundSpec} (ha : allToAll tbl = true) {p : Party}
    (hc : Canon tbl p) (hd : DoneLast tbl p) (hf : FlagsOk tbl p) (hss : SelfSat tbl p) :
    LocalInv tbl (settleF tbl p) where
  canon := canon_settle _ hc
  settled := settled_settleF tbl p
  doneLast := settle_preserves (DoneLast tbl) (fun _ _ _ hs => doneLast_step hs) (fun _ h => doneLast_rest h) _ p hd
  flagsOk := settle_preserves (FlagsOk tbl) (fun _ _ h hs => flagsOk_step h hs) (fun _ h => flagsOk_rest h) _ p hf
  selfSat := settle_preserves (SelfSat tbl) (fun _ _ h hs => selfSat_step ha h hs) (fun _ h => selfSat_rest h) _ p hss

theorem localInv_fresh (tbl : List RoundSpec) (n self : Nat) : LocalInv tbl (fresh n self) where
  canon := canon_fresh tbl n self
  settled := settled_fresh tbl n self
  doneLast := fun h => by cases h
  flagsOk := fun _ _ _ _ h => by cases h
  selfSat := fun h => absurd rfl h

/-- a genuine message from another party: the flag is the one its type is emitted with -/
def Genuine (tbl : List RoundSpec) (self : Nat) (m : Msg) : Prop := m.frm ≠ self ∧ m.slot.flag = flagOf tbl m.ty

theorem localInv_deliver {tbl : List RoundSpec} (ha : allToAll tbl = true) {p : Party} {m : Msg}
    (hg : Genuine tbl p.self m) (h : LocalInv tbl p) : LocalInv tbl (deliver tbl m p) :=
  localInv_settleF ha (canon_storeMsg m h.canon) h.doneLast (flagsOk_storeMsg hg.2 h.flagsOk)
    (selfSat_storeMsg hg.1 h.selfSat)

theorem localInv_start {tbl : List RoundSpec} (ha : allToAll tbl = true) {p : Party} (h : LocalInv tbl p) :
    LocalInv tbl (start tbl p) := by
  by_cases h0 : p.rnd = 0
  · rw [start_eq_of_rnd_zero h0]
    cases hr : tbl[0]? with
    | none =>
      rw [startOld_eq_of_none hr]
      exact localInv_settleF ha h.canon h.doneLast h.flagsOk h.selfSat
    | some r =>
      have hd : p.done = false := by
        cases hpd : p.done
        · rfl
        · have := h.doneLast hpd
          have := lt_of_getElem?_some hr
          omega
      refine localInv_settleF ha (canon_startOld h.canon) ?_ ?_ ?_
      · rw [startOld_eq_of h0 hr]
        intro hd'
        have : (startRound r 0 p).done = p.done := rfl
        rw [this, hd] at hd'; cases hd'
      · rw [startOld_eq_of h0 hr]
        intro t j s hj hst
        have hj' : j ≠ p.self := hj
        simp only [startRound, putSelf] at hst
        rw [if_neg (fun hc => hj' hc.1)] at hst
        exact h.flagsOk t j s hj' hst
      · rw [startOld_eq_of h0 hr]
        exact selfSat_startRound ha hr p
  · rw [start_eq_of_started h0]; exact h

/-! ## 18. the closed system -/

abbrev Sys := Nat → Party

def Sys.set (s : Sys) (i : Nat) (p : Party) : Sys := fun k => if k = i then p else s k

theorem Sys.set_same (s : Sys) (i : Nat) (p : Party) : s.set i p i = p := by simp [Sys.set]
theorem Sys.set_other (s : Sys) (i k : Nat) (p : Party) (h : k ≠ i) : s.set i p k = s k := by simp [Sys.set, h]

/-- states reachable in a closed system of `n` parties: any party may be started at any time, and the network may
deliver to any party `i` any message that some other party `j` has emitted (type in `j`'s emission log),
at any time (before `i` is started, rounds early), any number of times -/
inductive Reach (tbl : List RoundSpec) (n : Nat) : Sys → Prop
  | init : Reach tbl n (fun i => fresh n i)
  | start (s : Sys) (i : Nat) : Reach tbl n s → i < n → Reach tbl n (s.set i (start tbl (s i)))
  | deliver (s : Sys) (i j ty payload : Nat) : Reach tbl n s → i < n → j < n → j ≠ i → ty ∈ (s j).out →
      Reach tbl n (s.set i (deliver tbl ⟨ty, j, ⟨flagOf tbl ty, payload⟩⟩ (s i)))

theorem reach_inv {tbl : List RoundSpec} {n : Nat} (ha : allToAll tbl = true) {s : Sys} (h : Reach tbl n s) :
    ∀ i, (s i).self = i ∧ (s i).n = n ∧ LocalInv tbl (s i) := by
  induction h with
  | init => intro i; exact ⟨rfl, rfl, localInv_fresh tbl n i⟩
  | start s i _ _ ih =>
    intro k
    by_cases hk : k = i
    · subst hk
      rw [Sys.set_same]
      exact ⟨by rw [start_self]; exact (ih k).1, by rw [start_n]; exact (ih k).2.1, localInv_start ha (ih k).2.2⟩
    · rw [Sys.set_other _ _ _ _ hk]; exact ih k
  | deliver s i j ty payload _ _ _ hji _ ih =>
    intro k
    by_cases hk : k = i
    · subst hk
      rw [Sys.set_same]
      refine ⟨by rw [deliver_self]; exact (ih k).1, by rw [deliver_n]; exact (ih k).2.1,
        localInv_deliver ha ⟨?_, rfl⟩ (ih k).2.2⟩
      rw [(ih k).1]; exact hji
    · rw [Sys.set_other _ _ _ _ hk]; exact ih k

/-- every emitted message has reached every party other than its sender -/
def Quiescent (n : Nat) (s : Sys) : Prop :=
  ∀ i j, i < n → j < n → j ≠ i → ∀ ty ∈ (s j).out, ∃ slot, (s i).store ty j = some slot

/-- **key lemma**: if every other party has started round `k` (1-based) and all their messages have been
delivered, then the round-`k` requirements of party `i` are satisfied for every other sender -/
theorem others_satisfied {tbl : List RoundSpec} {n : Nat} (ha : allToAll tbl = true) (hd : disciplined tbl = true)
    {s : Sys} (hinv : ∀ i, (s i).self = i ∧ (s i).n = n ∧ LocalInv tbl (s i)) (hq : Quiescent n s)
    {i k : Nat} (hi : i < n) (hk : 0 < k) {r : RoundSpec} (hr : tbl[k - 1]? = some r) (hf : r.final = false)
    (hall : ∀ j, j < n → j ≠ i → k ≤ (s j).rnd) :
    ∀ j, j < n → j ≠ i → sat r (s i).store j = true := by
  intro j hj hji
  rw [sat_iff]
  intro tf htf
  obtain ⟨k', r', hk', hr', e, he, hee⟩ := (allToAll_spec ha hr hf).1 tf htf
  have hn : 2 ≤ n := by omega
  have hout : tf.1 ∈ (s j).out := by
    rw [(hinv j).2.2.canon.2.1, (hinv j).2.1, ← hee]
    exact mem_emitsUpTo (by have := hall j hj hji; omega) hr' he hn
  obtain ⟨slot, hslot⟩ := hq i j hi hj hji tf.1 hout
  refine ⟨slot, hslot, ?_⟩
  have := (hinv i).2.2.flagsOk tf.1 j slot (by rw [(hinv i).1]; exact hji) hslot
  rw [this, disciplined_spec hd (List.mem_of_getElem? hr) htf]

/-- a party whose current round is not final and whose requirements are all stored is not at a fixpoint -/
theorem not_settled_of_satisfied {tbl : List RoundSpec} {p : Party} (h0 : p.rnd ≠ 0) (hdn : p.done = false)
    {r : RoundSpec} (hr : tbl[p.rnd - 1]? = some r) (hf : r.final = false)
    (hsat : ∀ j, j < p.n → p.ok j = true ∨ sat r p.store j = true) : step tbl p ≠ none := by
  intro hs
  have hc := (step_none_iff h0 hdn hr).mp hs
  have : canProceed (scan r p) = true := by
    rw [canProceed_iff]
    intro j hj
    show scanOk r p j = true
    rw [scanOk_iff]
    rcases hsat j hj with h | h
    · exact Or.inl h
    · exact Or.inr ⟨hf, hj, h, Or.inr fun j' hj' => hsat j' (Nat.lt_trans hj' hj)⟩
  rw [hc] at this; cases this

/-- in a quiescent state in which everybody has started, everybody has started every round -/
theorem all_reach_round {tbl : List RoundSpec} {n : Nat} (hfl : finalLast tbl = true) (ha : allToAll tbl = true)
    (hd : disciplined tbl = true) {s : Sys} (hinv : ∀ i, (s i).self = i ∧ (s i).n = n ∧ LocalInv tbl (s i))
    (hstarted : ∀ i, i < n → (s i).rnd ≠ 0) (hq : Quiescent n s) :
    ∀ k, k ≤ tbl.length → ∀ i, i < n → k ≤ (s i).rnd := by
  intro k
  induction k with
  | zero => intro _ i _; exact Nat.zero_le _
  | succ k ih =>
    intro hk i hi
    have hge : k ≤ (s i).rnd := ih (by omega) i hi
    rcases Nat.lt_or_ge k (s i).rnd with hlt | hle
    · exact hlt
    · -- party i sits in round k
      have hik : (s i).rnd = k := by omega
      have h0 : (s i).rnd ≠ 0 := hstarted i hi
      have hkpos : 0 < k := by omega
      have hklt : k - 1 < tbl.length := by omega
      have hr : tbl[(s i).rnd - 1]? = some tbl[k - 1] := by rw [hik]; exact List.getElem?_eq_getElem hklt
      have hf : (tbl[k - 1]).final = false := by
        cases hfin : (tbl[k - 1]).final
        · rfl
        · have := (finalLast_getElem? tbl hfl (k - 1) _ (List.getElem?_eq_getElem hklt)).mp hfin
          omega
      have hdn : (s i).done = false := by
        cases hpd : (s i).done
        · rfl
        · have := (hinv i).2.2.doneLast hpd
          omega
      have hoth := others_satisfied ha hd hinv hq hi hkpos (List.getElem?_eq_getElem hklt) hf
        (fun j hj _ => ih (by omega) j hj)
      have hself := (hinv i).2.2.selfSat h0 _ hr hf
      exfalso
      refine not_settled_of_satisfied h0 hdn hr hf ?_ (hinv i).2.2.settled.1
      intro j hj
      rw [(hinv i).2.1] at hj
      by_cases hji : j = i
      · rw [hji]
        have e := (hinv i).1
        rw [e] at hself
        exact hself
      · exact Or.inr (hoth j hj hji)

end TssVerif.EngineL
