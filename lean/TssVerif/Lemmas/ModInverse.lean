import TssVerif.Core.GoInt
import Mathlib.Data.Int.ModEq
import Mathlib.Data.ZMod.Basic
import Mathlib.Algebra.Field.ZMod
import Mathlib.Tactic.Ring
import Mathlib.Tactic.Linarith
/-! `Core.GoInt.modInverse` (extended Euclid with fuel `2·log2 n + 4`): Bezout invariant, fuel
sufficiency, specification, totality for invertible arguments, and the `ZMod q` view. -/
set_option autoImplicit false
namespace TssVerif

/-- Bezout invariant of `xgcdAux` -/
theorem xgcdAux_bezoutV (n : Int) (a' : Int) : ∀ fuel (r0 r1 s0 s1 : Int),
    (∃ t, r0 = s0 * a' + t * n) → (∃ t, r1 = s1 * a' + t * n) →
    ∃ t, (xgcdAux fuel r0 r1 s0 s1).1 = (xgcdAux fuel r0 r1 s0 s1).2 * a' + t * n := by
  intro fuel
  induction fuel with
  | zero => intro r0 r1 s0 s1 h0 _; simpa [xgcdAux] using h0
  | succ k ih =>
    intro r0 r1 s0 s1 h0 h1
    unfold xgcdAux
    split
    · simpa using h0
    · apply ih _ _ _ _ h1
      obtain ⟨t0, e0⟩ := h0
      obtain ⟨t1, e1⟩ := h1
      exact ⟨t0 - r0 / r1 * t1, by rw [e0, e1]; ring⟩

theorem xgcd_step_cast (n0 n1 : Nat) : ((n0 : Int) - (n0 : Int) / (n1 : Int) * (n1 : Int)) = ((n0 % n1 : Nat) : Int) := by
  rw [Int.natCast_mod, Int.emod_def]; ring

/-- with fuel `≥ 2k+1` and second remainder `< 2^k` Euclid runs to completion -/
theorem xgcdAux_gcd : ∀ (k fuel n0 n1 : Nat) (s0 s1 : Int), n1 < 2 ^ k → 2 * k + 1 ≤ fuel →
    (xgcdAux fuel (n0 : Int) (n1 : Int) s0 s1).1 = (Nat.gcd n0 n1 : Int) := by
  intro k
  induction k with
  | zero =>
    intro fuel n0 n1 s0 s1 h1 hf
    have : n1 = 0 := by simpa using h1
    subst this
    obtain ⟨f, rfl⟩ : ∃ f, fuel = f + 1 := ⟨fuel - 1, by omega⟩
    simp [xgcdAux]
  | succ k ih =>
    intro fuel n0 n1 s0 s1 h1 hf
    obtain ⟨f, rfl⟩ : ∃ f, fuel = f + 2 := ⟨fuel - 2, by omega⟩
    by_cases hz : n1 = 0
    · subst hz; simp [xgcdAux]
    · rw [xgcdAux, if_neg (by exact_mod_cast hz)]
      simp only [xgcd_step_cast]
      by_cases hz2 : n0 % n1 = 0
      · rw [hz2, xgcdAux, if_pos (by simp)]
        simp only
        rw [Nat.gcd_comm, Nat.gcd_rec, hz2, Nat.gcd_zero_left]
      · rw [xgcdAux, if_neg (by exact_mod_cast hz2)]
        simp only [xgcd_step_cast]
        have hlt : n0 % n1 < n1 := Nat.mod_lt _ (Nat.pos_of_ne_zero hz)
        have h3 : n1 % (n0 % n1) < n0 % n1 := Nat.mod_lt _ (Nat.pos_of_ne_zero hz2)
        have h4 : n1 % (n0 % n1) ≤ n1 - n0 % n1 := by
          rw [Nat.mod_eq_sub_mod (le_of_lt hlt)]
          exact Nat.mod_le _ _
        have h5 : n1 % (n0 % n1) < 2 ^ k := by
          have : 2 ^ (k + 1) = 2 * 2 ^ k := by ring
          omega
        rw [ih f _ _ _ _ h5 (by omega)]
        congr 1
        rw [Nat.gcd_comm (n0 % n1), ← Nat.gcd_rec, ← Nat.gcd_rec, Nat.gcd_comm]

/-- **specification of `modInverse`**: any returned value is the inverse, reduced -/
theorem modInverse_specV {a : Int} {n b : Nat} (h : modInverse a n = some b) :
    (a * b) % (n : Int) = 1 % (n : Int) ∧ b < n := by
  unfold modInverse at h
  split at h
  · simp at h
  · rename_i hn
    simp only at h
    obtain ⟨t, ht⟩ := xgcdAux_bezoutV (n : Int) (a % n) (2 * n.log2 + 4) (n : Int) (a % n) 0 1
      ⟨1, by ring⟩ ⟨0, by ring⟩
    generalize hx : xgcdAux (2 * n.log2 + 4) (↑n) (a % ↑n) 0 1 = p at h ht
    obtain ⟨g, x⟩ := p
    simp only at h ht
    have hnpos : (0 : Int) < n := by exact_mod_cast Nat.pos_of_ne_zero hn
    split at h
    · rename_i hg
      injection h with hb
      subst hb
      have hx0 : 0 ≤ x % (n : Int) := Int.emod_nonneg _ (ne_of_gt hnpos)
      have hxlt : x % (n : Int) < n := Int.emod_lt_of_pos _ hnpos
      refine ⟨?_, by omega⟩
      rw [Int.toNat_of_nonneg hx0]
      have : (a * (x % (n : Int))) % n = (x * (a % n)) % n := by
        have e1 : a * (x % (n : Int)) ≡ a * x [ZMOD n] := Int.ModEq.mul_left _ (Int.mod_modEq x n)
        have e2 : x * (a % (n : Int)) ≡ x * a [ZMOD n] := Int.ModEq.mul_left _ (Int.mod_modEq a n)
        have e3 : a * x = x * a := mul_comm _ _
        exact (e1.trans (e3 ▸ Int.ModEq.refl _)).trans e2.symm
      rw [this]
      have : x * (a % (n : Int)) = 1 - t * n := by rw [hg] at ht; linarith
      rw [this, sub_eq_add_neg, ← neg_mul, Int.add_mul_emod_self_right]
    · split at h
      · rename_i h1
        injection h with hb
        subst hb; subst h1
        simp
      · simp at h

/-- the fuel suffices: `modInverse` answers whenever the (reduced) argument is coprime to `n` -/
theorem modInverse_isSome_of_coprime {a : Int} {n : Nat} (hn : n ≠ 0)
    (hc : Nat.gcd n (a % (n : Int)).toNat = 1) : ∃ b, modInverse a n = some b := by
  unfold modInverse
  rw [if_neg hn]
  have hnpos : (0 : Int) < n := by exact_mod_cast Nat.pos_of_ne_zero hn
  have hx0 : 0 ≤ a % (n : Int) := Int.emod_nonneg _ (ne_of_gt hnpos)
  have hxlt : a % (n : Int) < n := Int.emod_lt_of_pos _ hnpos
  obtain ⟨m, hm⟩ : ∃ m : Nat, a % (n : Int) = m := ⟨(a % (n : Int)).toNat, (Int.toNat_of_nonneg hx0).symm⟩
  have hmlt : m < n := by omega
  have hg := xgcdAux_gcd (n.log2 + 1) (2 * n.log2 + 4) n m 0 1
    (lt_trans hmlt Nat.lt_log2_self) (by omega)
  simp only
  rw [hm]
  rw [hm, Int.toNat_natCast] at hc
  generalize xgcdAux (2 * n.log2 + 4) (↑n) (↑m) 0 1 = p at hg
  obtain ⟨g, x⟩ := p
  simp only at hg ⊢
  rw [hc] at hg
  rw [if_pos (by simpa using hg)]
  exact ⟨_, rfl⟩

/-- modulo a prime every non-zero residue is inverted -/
theorem modInverse_prime {q : Nat} (hq : q.Prime) {a : Int} (ha : a % (q : Int) ≠ 0) :
    ∃ b, modInverse a q = some b ∧ (a * b) % (q : Int) = 1 % (q : Int) ∧ b < q := by
  have hnpos : (0 : Int) < q := by exact_mod_cast hq.pos
  have hx0 : 0 ≤ a % (q : Int) := Int.emod_nonneg _ (ne_of_gt hnpos)
  have hxlt : a % (q : Int) < q := Int.emod_lt_of_pos _ hnpos
  have hc : Nat.gcd q (a % (q : Int)).toNat = 1 := by
    apply (Nat.Prime.coprime_iff_not_dvd hq).2
    intro hd
    have := Nat.le_of_dvd (by omega) hd
    omega
  obtain ⟨b, hb⟩ := modInverse_isSome_of_coprime hq.ne_zero hc
  exact ⟨b, hb, modInverse_specV hb⟩

section
variable {q : ℕ} [Fact q.Prime]

/-- in the field, the returned inverse is the inverse -/
theorem modInverse_cast {a : Int} {b : Nat} (h : modInverse a q = some b) :
    ((b : ℕ) : ZMod q) = ((a : ℤ) : ZMod q)⁻¹ := by
  obtain ⟨h1, _⟩ := modInverse_specV h
  have h2 : ((a * b : ℤ) : ZMod q) = 1 := by
    have := (ZMod.intCast_eq_intCast_iff' (a * b) 1 q).2 h1
    simpa using this
  have : ((a : ℤ) : ZMod q) * ((b : ℕ) : ZMod q) = 1 := by exact_mod_cast h2
  exact (eq_inv_of_mul_eq_one_right this)

/-- totality in the field view -/
theorem modInverse_of_ne_zero {a : Int} (ha : ((a : ℤ) : ZMod q) ≠ 0) :
    ∃ b, modInverse a q = some b ∧ ((b : ℕ) : ZMod q) = ((a : ℤ) : ZMod q)⁻¹ := by
  have : a % (q : Int) ≠ 0 := by
    intro h0
    apply ha
    rw [ZMod.intCast_zmod_eq_zero_iff_dvd]
    exact Int.dvd_of_emod_eq_zero h0
  obtain ⟨b, hb, _⟩ := modInverse_prime (Fact.out : q.Prime) this
  exact ⟨b, hb, modInverse_cast hb⟩
end

end TssVerif
