import TssVerif.Lemmas.EngineWait
/-! Critical sections and interleavings (the logic part of C09). -/
set_option autoImplicit false
namespace TssVerif.EngineL
open TssVerif.Engine

/-- `Interleave ls merged`: `merged` is obtained by repeatedly taking the head of one of the lists `ls`
(each caller's messages stay in the caller's order) until all are exhausted -/
inductive Interleave : List (List Msg) → List Msg → Prop
  | done (ls : List (List Msg)) : (∀ l ∈ ls, l = []) → Interleave ls []
  | pick (pre : List (List Msg)) (l : List Msg) (post : List (List Msg)) (m : Msg) (merged : List Msg) :
      Interleave (pre ++ l :: post) merged → Interleave (pre ++ (m :: l) :: post) (m :: merged)

theorem flatten_eq_nil_of_all_nil (ls : List (List Msg)) (h : ∀ l ∈ ls, l = []) : ls.flatten = [] := by
  induction ls with
  | nil => rfl
  | cons a l ih =>
    rw [List.flatten_cons, h a (by simp), ih (fun x hx => h x (List.mem_cons_of_mem _ hx))]
    rfl

theorem interleave_perm {ls : List (List Msg)} {merged : List Msg} (h : Interleave ls merged) :
    merged.Perm ls.flatten := by
  induction h with
  | done ls h => rw [flatten_eq_nil_of_all_nil ls h]
  | pick pre l post m merged _ ih =>
    have e1 : (pre ++ (m :: l) :: post).flatten = pre.flatten ++ m :: (l ++ post.flatten) := by simp
    have e2 : (pre ++ l :: post).flatten = pre.flatten ++ (l ++ post.flatten) := by simp
    rw [e1]
    rw [e2] at ih
    exact (List.Perm.cons m ih).trans List.perm_middle.symm

/-- the concatenation is one of the interleavings -/
theorem interleave_flatten (ls : List (List Msg)) : Interleave ls ls.flatten := by
  induction ls with
  | nil => exact Interleave.done [] (by simp)
  | cons a ls ih =>
    induction a with
    | nil =>
      -- `[] :: ls` flattens like `ls`; lift the derivation
      have lift : ∀ {xs : List (List Msg)} {mg : List Msg}, Interleave xs mg → Interleave ([] :: xs) mg := by
        intro xs mg h
        induction h with
        | done xs h => exact Interleave.done _ (by intro l hl; rcases List.mem_cons.mp hl with h' | h'; exact h'; exact h l h')
        | pick pre l post m merged _ ih => exact Interleave.pick ([] :: pre) l post m merged ih
      exact lift ih
    | cons m a iha => exact Interleave.pick [] a ls m _ iha

/-- a critical section of the party's mutex: `Update` (store and settle) or a `WaitingFor` query -/
inductive Sec where
  | update : Msg → Sec
  | query : Sec

/-- run a history of critical sections: the state and the answers the queries got -/
def runSecs (tbl : List RoundSpec) : List Sec → Party → Party × List (List Nat)
  | [], p => (p, [])
  | .update m :: ss, p => runSecs tbl ss (deliver tbl m p)
  | .query :: ss, p => let r := runSecs tbl ss p; (r.1, waitingFor p :: r.2)

def msgsOf : List Sec → List Msg
  | [] => []
  | .update m :: ss => m :: msgsOf ss
  | .query :: ss => msgsOf ss

/-- queries do not change the state: the state after a history is the state after its updates -/
theorem runSecs_state (tbl : List RoundSpec) (ss : List Sec) (p : Party) :
    (runSecs tbl ss p).1 = delivers tbl (msgsOf ss) p := by
  induction ss generalizing p with
  | nil => rfl
  | cons s ss ih =>
    cases s with
    | update m => exact ih _
    | query => exact ih p

end TssVerif.EngineL
