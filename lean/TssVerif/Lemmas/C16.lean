import TssVerif.Core.Commit
/-! Helper lemmas for `TssVerif/Props/C16.lean` (core Lean only). -/
namespace TssVerif.C16L
open TssVerif

/-! ## `le64` -/

theorem le64_length (n : Nat) : (le64 n).length = 8 := by
  simp [le64]

theorem le64_eq (n : Nat) : le64 n =
    [UInt8.ofNat ((n / 256 ^ 0) % 256), UInt8.ofNat ((n / 256 ^ 1) % 256),
     UInt8.ofNat ((n / 256 ^ 2) % 256), UInt8.ofNat ((n / 256 ^ 3) % 256),
     UInt8.ofNat ((n / 256 ^ 4) % 256), UInt8.ofNat ((n / 256 ^ 5) % 256),
     UInt8.ofNat ((n / 256 ^ 6) % 256), UInt8.ofNat ((n / 256 ^ 7) % 256)] := by
  simp [le64, List.range, List.range.loop]

theorem ofNat_mod_inj {x y : Nat} (h : UInt8.ofNat (x % 256) = UInt8.ofNat (y % 256)) :
    x % 256 = y % 256 := by
  have := congrArg UInt8.toNat h
  simp only [UInt8.toNat_ofNat'] at this
  omega

theorem le64_inj {a b : Nat} (ha : a < 2 ^ 64) (hb : b < 2 ^ 64) (h : le64 a = le64 b) : a = b := by
  rw [le64_eq, le64_eq] at h
  simp only [List.cons.injEq, and_true] at h
  obtain ⟨h0, h1, h2, h3, h4, h5, h6, h7⟩ := h
  have e0 := ofNat_mod_inj h0
  have e1 := ofNat_mod_inj h1
  have e2 := ofNat_mod_inj h2
  have e3 := ofNat_mod_inj h3
  have e4 := ofNat_mod_inj h4
  have e5 := ofNat_mod_inj h5
  have e6 := ofNat_mod_inj h6
  have e7 := ofNat_mod_inj h7
  simp only [Nat.reducePow] at e0 e1 e2 e3 e4 e5 e6 e7 ha hb
  omega

/-! ## big-endian integer bytes -/

theorem foldr_natToBytesLE (n : Nat) :
    (natToBytesLE n).foldr (fun x acc => acc * 256 + x.toNat) 0 = n := by
  induction n using Nat.strongRecOn with
  | _ n ih =>
    rw [natToBytesLE]
    split
    · next h => simp [h]
    · next h =>
      rw [List.foldr_cons, ih (n / 256) (by omega), UInt8.toNat_ofNat']
      omega

theorem bytesToNat_natToBytesBE (n : Nat) : bytesToNat (natToBytesBE n) = n := by
  unfold bytesToNat natToBytesBE
  rw [List.foldl_reverse]
  exact foldr_natToBytesLE n

theorem natToBytesBE_inj {n m : Nat} (h : natToBytesBE n = natToBytesBE m) : n = m := by
  have := congrArg bytesToNat h
  rwa [bytesToNat_natToBytesBE, bytesToNat_natToBytesBE] at this

theorem intToBytesBE_natCast (n : Nat) : intToBytesBE (n : Int) = natToBytesBE n := by
  simp [intToBytesBE]

theorem map_intToBytesBE_natCast (ns : List Nat) :
    (ns.map fun (n : Nat) => intToBytesBE (n : Int)) = ns.map natToBytesBE := by
  simp [intToBytesBE_natCast]

theorem map_map_intToBytesBE_natCast (ns : List Nat) :
    ((ns.map fun (n : Nat) => (n : Int)).map intToBytesBE) = ns.map natToBytesBE := by
  simp [List.map_map, Function.comp_def, intToBytesBE_natCast]

/-! ## framing -/

def Short (xs : List Bytes) : Prop := ∀ x ∈ xs, x.length < 2 ^ 64

/-- the framed elements without the count prefix -/
def body (xs : List Bytes) : Bytes := (xs.map frameElem).flatten

theorem frame_eq (xs : List Bytes) : frame xs = le64 xs.length ++ body xs := rfl

theorem body_nil : body [] = [] := rfl

theorem body_concat (xs : List Bytes) (x : Bytes) : body (xs ++ [x]) = body xs ++ frameElem x := by
  simp [body]

theorem frameElem_length (x : Bytes) : (frameElem x).length = x.length + 9 := by
  simp [frameElem, le64_length]

/-- the last element can be split off unambiguously: its length is a suffix -/
theorem append_frameElem_inj {A B x y : Bytes} (hx : x.length < 2 ^ 64) (hy : y.length < 2 ^ 64)
    (h : A ++ frameElem x = B ++ frameElem y) : A = B ∧ x = y := by
  unfold frameElem at h
  simp only [← List.append_assoc] at h
  obtain ⟨h1, h2⟩ := List.append_inj' h (by rw [le64_length, le64_length])
  have hl : x.length = y.length := le64_inj hx hy h2
  obtain ⟨h3, _⟩ := List.append_inj' h1 rfl
  exact List.append_inj' h3 hl

theorem body_reverse_inj (rx : List Bytes) : ∀ (ry : List Bytes), Short rx → Short ry →
    body rx.reverse = body ry.reverse → rx = ry := by
  induction rx with
  | nil =>
    intro ry _ _ h
    cases ry with
    | nil => rfl
    | cons y ry =>
      exfalso
      rw [List.reverse_cons, body_concat] at h
      have := congrArg List.length h
      simp [body_nil, frameElem_length] at this
  | cons x rx ih =>
    intro ry hx hy h
    cases ry with
    | nil =>
      exfalso
      rw [List.reverse_cons, body_concat] at h
      have := congrArg List.length h
      simp [body_nil, frameElem_length] at this
    | cons y ry =>
      rw [List.reverse_cons, body_concat, List.reverse_cons, body_concat] at h
      obtain ⟨h1, h2⟩ := append_frameElem_inj (hx x (by simp)) (hy y (by simp)) h
      have := ih ry (fun z hz => hx z (by simp [hz])) (fun z hz => hy z (by simp [hz])) h1
      rw [this, h2]

theorem body_inj {xs ys : List Bytes} (hx : Short xs) (hy : Short ys) (h : body xs = body ys) :
    xs = ys := by
  have := body_reverse_inj xs.reverse ys.reverse
    (fun z hz => hx z (by simpa using hz)) (fun z hz => hy z (by simpa using hz))
    (by simpa using h)
  simpa using this

theorem frame_inj {xs ys : List Bytes} (hx : Short xs) (hy : Short ys) (h : frame xs = frame ys) :
    xs = ys := by
  rw [frame_eq, frame_eq] at h
  exact body_inj hx hy (List.append_inj h (by rw [le64_length, le64_length])).2

theorem frame_natBytes_inj {ns ms : List Nat}
    (hn : Short (ns.map natToBytesBE)) (hm : Short (ms.map natToBytesBE))
    (h : frame (ns.map natToBytesBE) = frame (ms.map natToBytesBE)) : ns = ms :=
  (List.map_inj_right (fun _ _ => natToBytesBE_inj)).1 (frame_inj hn hm h)

/-! ## `goInt64` -/

theorem goInt64_of_range {z : Int} (h1 : -(2 ^ 63 : Int) ≤ z) (h2 : z < (2 ^ 63 : Int)) :
    goInt64 z = z := by
  unfold goInt64
  simp only
  split <;> split <;> omega

/-! ## parser totality -/

theorem parseLoop_cur_no_panic (cfg : ParseCfg) (hc : cfg.rejectNegative = true) (s : List Int)
    (t : String) : ∀ (fuel el : Nat) (isLenEl : Bool) (nextLen : Int) (parts : List (List Int)),
    0 ≤ nextLen → parseLoop cfg s fuel el isLenEl nextLen parts ≠ .panic t := by
  intro fuel
  induction fuel with
  | zero => intro el isLenEl nextLen parts _; simp [parseLoop]
  | succ fuel ih =>
    intro el isLenEl nextLen parts hn
    unfold parseLoop
    split
    · split
      · simp only [hc, Bool.true_and]
        split
        · simp
        · next hneg =>
          split
          · simp
          · apply ih
            simp only [Bool.or_eq_true, decide_eq_true_eq, not_or, Int.not_lt] at hneg
            exact hneg.2
      · split
        · simp
        · split
          · simp
          · split
            · omega
            · exact ih _ _ _ _ hn
    · split
      · split
        · split <;> simp
        · simp
      · simp

/-! ## builder / parser round trip -/

def pack (parts : List (List Int)) : List Int := parts.flatMap fun p => (p.length : Int) :: p

theorem pack_cons (p : List Int) (rest : List (List Int)) :
    pack (p :: rest) = (p.length : Int) :: (p ++ pack rest) := by
  simp [pack]

theorem pack_length_ge (parts : List (List Int)) : parts.length ≤ (pack parts).length := by
  induction parts with
  | nil => simp [pack]
  | cons p rest ih => rw [pack_cons]; simp; omega

theorem parseLoop_pack (s : List Int) : ∀ (rest : List (List Int)) (fuel el : Nat) (nl : Int)
    (acc : List (List Int)),
    s.drop el = pack rest → el ≤ s.length → (∀ p ∈ rest, p.length ≤ maxPartSize) →
    acc.length + rest.length ≤ partsCap → 2 * rest.length + 1 ≤ fuel →
    parseLoop ⟨true, true⟩ s fuel el true nl acc = .ok (acc.reverse ++ rest) := by
  intro rest
  induction rest with
  | nil =>
    intro fuel el nl acc hs hel _ _ _
    have hlen : ¬ el < s.length := by
      have := congrArg List.length hs
      simp [pack] at this
      omega
    cases fuel with
    | zero => simp [parseLoop]
    | succ fuel => simp [parseLoop, hlen]
  | cons p rest ih =>
    intro fuel el nl acc hs hel hsz hcap hfuel
    rw [pack_cons] at hs
    have hp : p.length ≤ maxPartSize := hsz p (by simp)
    have hlenS : s.length - el = 1 + (p.length + (pack rest).length) := by
      have := congrArg List.length hs
      simp at this
      omega
    have hel1 : el < s.length := by omega
    have hget : s.getD el 0 = (p.length : Int) := by
      have h0 := congrArg (fun l => l[0]?) hs
      simp only [List.getElem?_drop, List.getElem?_cons_zero, Nat.add_zero] at h0
      rw [List.getD_eq_getElem?_getD, h0]; rfl
    have hdrop1 : s.drop (el + 1) = p ++ pack rest := by
      have := congrArg (List.drop 1) hs
      simpa [List.drop_drop, Nat.add_comm] using this
    have hgo : goInt64 (p.length : Int) = (p.length : Int) := by
      apply goInt64_of_range
      · omega
      · unfold maxPartSize at hp; omega
    obtain ⟨fuel, rfl⟩ : ∃ f, fuel = f + 1 := ⟨fuel - 1, by omega⟩
    have hrej : ¬ ((p.length : Int) < -(2 ^ 63 : Int) ∨ (p.length : Int) ≥ (2 ^ 63 : Int) ∨
        (p.length : Int) < 0) := by
      unfold maxPartSize at hp; omega
    have hbig : ¬ ((maxPartSize : Int) < (p.length : Int)) := by omega
    rw [parseLoop]
    simp only [hel1, if_true, hget, hgo, Bool.true_and, Bool.or_eq_true, decide_eq_true_eq]
    rw [if_neg (by simpa [or_assoc] using hrej), if_neg hbig]
    -- data step
    obtain ⟨fuel, rfl⟩ : ∃ f, fuel = f + 1 := ⟨fuel - 1, by simp at hfuel; omega⟩
    rw [parseLoop]
    by_cases hlast : el + 1 < s.length
    · have hcap' : ¬ partsCap ≤ acc.length := by simp at hcap; omega
      have hnd : ¬ ((s.length : Int) < ((el + 1 : Nat) : Int) + (p.length : Int)) := by omega
      have hnn : ¬ ((p.length : Int) < 0) := by omega
      simp only [hlast, if_true, Bool.false_eq_true, if_false]
      rw [if_neg hcap', if_neg hnd, if_neg hnn]
      have htake : ((s.drop (el + 1)).take (p.length : Int).toNat) = p := by
        rw [hdrop1]; simp
      rw [htake, Int.toNat_natCast]
      rw [ih fuel (el + 1 + p.length) (p.length : Int) (p :: acc)]
      · simp
      · have := congrArg (List.drop p.length) hdrop1
        simpa [List.drop_drop, Nat.add_comm, Nat.add_left_comm] using this
      · omega
      · intro q hq; exact hsz q (by simp [hq])
      · simp at hcap ⊢; omega
      · simp at hfuel; omega
    · -- trailing empty part
      have hp0 : p.length = 0 := by omega
      have hr0 : (pack rest).length = 0 := by omega
      have hrest : rest = [] := by
        have := pack_length_ge rest
        exact List.eq_nil_of_length_eq_zero (by omega)
      have hpn : p = [] := List.eq_nil_of_length_eq_zero hp0
      have hcap' : ¬ partsCap ≤ acc.length := by simp at hcap; omega
      subst hrest hpn
      simp only [hlast, if_false]
      simp [hcap']

theorem builderSecrets_ok_iff (parts : List (List Int)) :
    (∃ s, builderSecrets parts = .ok s) ↔
      (parts.length ≤ partsCap ∧ ∀ p ∈ parts, p.length ≤ maxPartSize) := by
  unfold builderSecrets
  split
  · next h => simp; omega
  · next h =>
    split
    · next q hq =>
      have := List.find?_some hq
      have hm := List.mem_of_find?_eq_some hq
      simp only [decide_eq_true_eq] at this
      constructor
      · intro ⟨s, hs⟩; cases hs
      · intro ⟨_, h2⟩; have := h2 q hm; omega
    · next hq =>
      rw [List.find?_eq_none] at hq
      simp only [decide_eq_true_eq] at hq
      constructor
      · intro _; exact ⟨by omega, fun p hp => by have := hq p hp; omega⟩
      · intro _; exact ⟨_, rfl⟩

theorem builderSecrets_ok (parts : List (List Int)) (h1 : parts.length ≤ partsCap)
    (h2 : ∀ p ∈ parts, p.length ≤ maxPartSize) : builderSecrets parts = .ok (pack parts) := by
  unfold builderSecrets
  rw [if_neg (by omega)]
  have : parts.find? (fun p => maxPartSize < p.length) = none := by
    rw [List.find?_eq_none]
    intro p hp; have := h2 p hp; simp; omega
  rw [this]; rfl

theorem pack_length (parts : List (List Int)) :
    (pack parts).length = (parts.map fun p => p.length + 1).sum := by
  induction parts with
  | nil => rfl
  | cons p rest ih => rw [pack_cons]; simp [ih]; omega

theorem builder_roundtrip_aux (parts : List (List Int)) (h1 : parts.length ≤ partsCap)
    (h2 : ∀ p ∈ parts, p.length ≤ maxPartSize) (h3 : 2 ≤ (parts.map fun p => p.length + 1).sum) :
    ∃ s, builderSecrets parts = .ok s ∧ parseSecretsCfg ⟨true, true⟩ s = .ok parts := by
  refine ⟨pack parts, builderSecrets_ok parts h1 h2, ?_⟩
  unfold parseSecretsCfg
  rw [if_neg (by rw [pack_length]; omega)]
  rw [parseLoop_pack (pack parts) parts _ 0 0 [] rfl (Nat.zero_le _) h2 (by simpa using h1)]
  · rfl
  · have := pack_length_ge parts; omega

theorem parse_rejects_bad_first (v : Int) (rest : List Int) (hr : rest ≠ [])
    (hv : v < 0 ∨ (maxPartSize : Int) < v) :
    ∃ t, parseSecretsCfg ⟨true, true⟩ (v :: rest) = .err t := by
  have hlen : ¬ (v :: rest).length < 2 := by
    cases rest with
    | nil => exact absurd rfl hr
    | cons a r => simp
  unfold parseSecretsCfg
  rw [if_neg hlen]
  rw [show 2 * (v :: rest).length + 2 = (2 * (v :: rest).length + 1) + 1 from rfl, parseLoop]
  simp only [List.length_cons, Nat.zero_lt_succ, if_true, List.getD_cons_zero, Bool.true_and]
  split
  · exact ⟨_, rfl⟩
  · next hneg =>
    simp only [Bool.or_eq_true, decide_eq_true_eq, not_or, Int.not_lt, ge_iff_le, Int.not_le] at hneg
    obtain ⟨⟨ha, hb⟩, hc⟩ := hneg
    rw [goInt64_of_range ha hb] at hc ⊢
    rw [if_pos (by omega)]
    exact ⟨_, rfl⟩

/-! ## commitments -/

theorem commitVerify_ok_true (H : HashFn) (c : Nat) (d : List Int)
    (h : commitVerifyWith H c d = .ok true) :
    bytesToNat (H (frame (d.map intToBytesBE))) = c := by
  unfold commitVerifyWith sha512_256iWith at h
  by_cases he : d.isEmpty = true
  · simp [he] at h
  · simpa [he] using h

theorem commit_binding_aux (H : HashFn) (c : Nat) {d d' : List Nat}
    (hd : Short (d.map natToBytesBE)) (hd' : Short (d'.map natToBytesBE)) (hne : d ≠ d')
    (h1 : commitVerifyWith H c (d.map fun (n : Nat) => (n : Int)) = .ok true)
    (h2 : commitVerifyWith H c (d'.map fun (n : Nat) => (n : Int)) = .ok true) :
    ∃ a b : Bytes, a ≠ b ∧ bytesToNat (H a) = bytesToNat (H b) := by
  have e1 := commitVerify_ok_true H c _ h1
  have e2 := commitVerify_ok_true H c _ h2
  rw [map_map_intToBytesBE_natCast] at e1 e2
  exact ⟨_, _, fun he => hne (frame_natBytes_inj hd hd' he), e1.trans e2.symm⟩

end TssVerif.C16L
