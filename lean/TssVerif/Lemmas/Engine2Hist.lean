import TssVerif.Lemmas.Engine2
/-! History invariant of one party of the two-committee engine: whatever is stored in a slot other than the
own one was delivered, whoever is marked ok in the current round was marked by `Start` or had everything the
round needs delivered, and every round the party has left had its requirements met by deliveries.
Consequence for the two resharing tables: the final round is entered only after the final acknowledgement
of every new member has been delivered. -/
set_option autoImplicit false
namespace TssVerif.E2L
open TssVerif.Engine (Slot)
open TssVerif.Engine2

/-! ## 11. what was delivered -/

/-- the messages delivered by a sequence of events, in order -/
def hist : List Ev → List Msg
  | [] => []
  | .start _ :: es => hist es
  | .deliver m :: es => m :: hist es

theorem hist_append (es es' : List Ev) : hist (es ++ es') = hist es ++ hist es' := by
  induction es with
  | nil => rfl
  | cons e es ih =>
    cases e with
    | start pre => simpa [hist] using ih
    | deliver m => simp [hist, ih]

/-- a message of type `t` from index `j` with broadcast flag `f` is among `ms` -/
def Deliv (ms : List Msg) (t j : Nat) (f : Bool) : Prop := ∃ m ∈ ms, m.ty = t ∧ m.frm = j ∧ m.slot.flag = f

theorem Deliv.mono {ms ms' : List Msg} {t j : Nat} {f : Bool} (hsub : ∀ m ∈ ms, m ∈ ms') (h : Deliv ms t j f) :
    Deliv ms' t j f := by
  obtain ⟨m, hm, h1⟩ := h
  exact ⟨m, hsub m hm, h1⟩

/-- `Start` of some round of the table puts an own message of type `t` into the own slot -/
def ownTy (tbl : List RSpec) (t : Nat) : Bool := tbl.any fun r => r.selfStore.any fun tf => tf.1 == t

theorem ownTy_of_mem {tbl : List RSpec} {r : RSpec} (hr : r ∈ tbl) {t : Nat}
    (h : (r.selfStore.any fun tf => tf.1 == t) = true) : ownTy tbl t = true := by
  unfold ownTy
  rw [List.any_eq_true]
  exact ⟨r, hr, h⟩

/-- the requirement `tf` (type, flag) is met for index `j`: it is the party's own slot for a type the party
stores itself, or a message with that type, sender index and flag was delivered -/
def HasOrOwn (tbl : List RSpec) (self : Nat) (ms : List Msg) (j : Nat) (tf : Nat × Bool) : Prop :=
  (j = self ∧ ownTy tbl tf.1 = true) ∨ Deliv ms tf.1 j tf.2

/-- the old-committee requirement of round `r` is met for old index `j` -/
def MetOld (tbl : List RSpec) (self : Nat) (ms : List Msg) (r : RSpec) (j : Nat) : Prop :=
  r.presetOld = true ∨ (r.needsOld ≠ [] ∧ ∀ tf ∈ r.needsOld, HasOrOwn tbl self ms j tf)

/-- the new-committee requirement of round `r` is met for new index `j` -/
def MetNew (tbl : List RSpec) (self : Nat) (ms : List Msg) (r : RSpec) (j : Nat) : Prop :=
  r.presetNew = true ∨ (r.selfOkNew = true ∧ j = self) ∨
    (r.needsNew ≠ [] ∧ ∀ tf ∈ r.needsNew, HasOrOwn tbl self ms j tf)

theorem HasOrOwn.mono {tbl : List RSpec} {self : Nat} {ms ms' : List Msg} {j : Nat} {tf : Nat × Bool}
    (hsub : ∀ m ∈ ms, m ∈ ms') (h : HasOrOwn tbl self ms j tf) : HasOrOwn tbl self ms' j tf := by
  rcases h with h | h
  · exact Or.inl h
  · exact Or.inr (h.mono hsub)

theorem MetOld.mono {tbl : List RSpec} {self : Nat} {ms ms' : List Msg} {r : RSpec} {j : Nat}
    (hsub : ∀ m ∈ ms, m ∈ ms') (h : MetOld tbl self ms r j) : MetOld tbl self ms' r j := by
  rcases h with h | ⟨h1, h2⟩
  · exact Or.inl h
  · exact Or.inr ⟨h1, fun tf htf => (h2 tf htf).mono hsub⟩

theorem MetNew.mono {tbl : List RSpec} {self : Nat} {ms ms' : List Msg} {r : RSpec} {j : Nat}
    (hsub : ∀ m ∈ ms, m ∈ ms') (h : MetNew tbl self ms r j) : MetNew tbl self ms' r j := by
  rcases h with h | h | ⟨h1, h2⟩
  · exact Or.inl h
  · exact Or.inr (Or.inl h)
  · exact Or.inr (Or.inr ⟨h1, fun tf htf => (h2 tf htf).mono hsub⟩)

/-! ## 12. the history invariant -/

structure Hist (tbl : List RSpec) (ms : List Msg) (p : Party) : Prop where
  /-- a slot holds the party's own message or a delivered one -/
  store : ∀ t j s, p.store t j = some s →
    (j = p.self ∧ ownTy tbl t = true) ∨ ∃ m ∈ ms, m.ty = t ∧ m.frm = j ∧ m.slot = s
  /-- whoever is ok in the current (non-final) round has its requirement met -/
  okOld : ∀ r, p.rnd ≠ 0 → tbl[p.rnd - 1]? = some r → r.final = false →
    ∀ j, p.okOld j = true → MetOld tbl p.self ms r j
  okNew : ∀ r, p.rnd ≠ 0 → tbl[p.rnd - 1]? = some r → r.final = false →
    ∀ j, p.okNew j = true → MetNew tbl p.self ms r j
  /-- every (non-final) round the party has left had its requirements met for every member of both committees -/
  past : ∀ k r, k + 1 < p.rnd → tbl[k]? = some r → r.final = false →
    (∀ j, j < p.nOld → MetOld tbl p.self ms r j) ∧ (∀ j, j < p.nNew → MetNew tbl p.self ms r j)

theorem Hist.mono {tbl : List RSpec} {ms ms' : List Msg} {p : Party} (hsub : ∀ m ∈ ms, m ∈ ms')
    (h : Hist tbl ms p) : Hist tbl ms' p where
  store := by
    intro t j s hs
    rcases h.store t j s hs with h1 | ⟨m, hm, h1⟩
    · exact Or.inl h1
    · exact Or.inr ⟨m, hsub m hm, h1⟩
  okOld := fun r h0 hr hf j hj => (h.okOld r h0 hr hf j hj).mono hsub
  okNew := fun r h0 hr hf j hj => (h.okNew r h0 hr hf j hj).mono hsub
  past := fun k r hk hr hf =>
    ⟨fun j hj => ((h.past k r hk hr hf).1 j hj).mono hsub, fun j hj => ((h.past k r hk hr hf).2 j hj).mono hsub⟩

theorem hist_fresh (tbl : List RSpec) (nOld nNew : Nat) (isNew : Bool) (self : Nat) :
    Hist tbl [] (fresh nOld nNew isNew self) where
  store := fun _ _ _ h => by cases h
  okOld := fun _ h0 => absurd rfl h0
  okNew := fun _ h0 => absurd rfl h0
  past := fun k _ hk => by simp [fresh] at hk

theorem hist_storeMsg {tbl : List RSpec} {ms : List Msg} {p : Party} (m : Msg) (h : Hist tbl ms p) :
    Hist tbl (ms ++ [m]) (storeMsg m p) := by
  have hsub : ∀ x ∈ ms, x ∈ ms ++ [m] := fun x hx => List.mem_append_left _ hx
  have h' := h.mono hsub
  refine ⟨?_, h'.okOld, h'.okNew, h'.past⟩
  intro t j s hs
  simp only [storeMsg] at hs
  by_cases hc : t = m.ty ∧ j = m.frm
  · rw [if_pos hc] at hs
    injection hs with hs
    exact Or.inr ⟨m, by simp, hc.1.symm, hc.2.symm, hs⟩
  · rw [if_neg hc] at hs
    exact h'.store t j s hs

/-- what is stored with the right flag has its requirement met -/
theorem hasOrOwn_of_sat {tbl : List RSpec} {ms : List Msg} {p : Party} (h : Hist tbl ms p)
    {needs : List (Nat × Bool)} {j : Nat} (hs : sat needs p.store j = true) :
    ∀ tf ∈ needs, HasOrOwn tbl p.self ms j tf := by
  intro tf htf
  obtain ⟨s, hst, hfl⟩ := (sat_iff needs p.store j).mp hs tf htf
  rcases h.store tf.1 j s hst with h1 | ⟨m, hm, h1, h2, h3⟩
  · exact Or.inl h1
  · exact Or.inr ⟨m, hm, h1, h2, by rw [h3]; exact hfl⟩

theorem getElem?_inj {α : Type} {l : List α} {k : Nat} {a b : α} (h1 : l[k]? = some a) (h2 : l[k]? = some b) : a = b := by
  rw [h1] at h2; exact Option.some.inj h2

theorem hist_moves (tbl : List RSpec) (ms : List Msg) : Moves tbl (Hist tbl ms) where
  scan := by
    intro p r h h0 hd hr
    refine ⟨?_, ?_, ?_, ?_⟩
    · rw [scan_store, scan_self]; exact h.store
    · intro r1 h0' hr1 hf j hj
      rw [scan_rnd] at hr1
      have e : r1 = r := getElem?_inj hr1 hr
      subst e
      rw [scan_self]
      rcases (scan_okOld_iff r1 p j).mp hj with hj | ⟨_, _, hne, hs⟩
      · exact h.okOld r1 h0 hr hf j hj
      · exact Or.inr ⟨hne, hasOrOwn_of_sat h hs⟩
    · intro r1 h0' hr1 hf j hj
      rw [scan_rnd] at hr1
      have e : r1 = r := getElem?_inj hr1 hr
      subst e
      rw [scan_self]
      rcases (scan_okNew_iff r1 p j).mp hj with hj | ⟨_, _, hne, hs⟩
      · exact h.okNew r1 h0 hr hf j hj
      · exact Or.inr (Or.inr ⟨hne, hasOrOwn_of_sat h hs⟩)
    · intro k r1 hk hr1 hf
      rw [scan_rnd] at hk
      rw [scan_self, scan_nOld, scan_nNew]
      exact h.past k r1 hk hr1 hf
  adv := by
    intro p r r' h h0 hd hr hcp hr'
    rw [canProceed_iff] at hcp
    have hr'm : r' ∈ tbl := List.mem_of_getElem? hr'
    refine ⟨?_, ?_, ?_, ?_⟩
    · intro t j s hs
      simp only [startRound, putSelf] at hs
      by_cases hc : j = p.self ∧ (r'.selfStore.any fun tf => tf.1 == t) = true
      · exact Or.inl ⟨hc.1, ownTy_of_mem hr'm hc.2⟩
      · rw [if_neg hc] at hs
        exact h.store t j s hs
    · intro r1 _ hr1 hf j hj
      have hr1' : tbl[p.rnd]? = some r1 := hr1
      have e : r1 = r' := getElem?_inj hr1' hr'
      subst e
      simp only [startRound, hf, Bool.or_false] at hj
      exact Or.inl hj
    · intro r1 _ hr1 hf j hj
      have hr1' : tbl[p.rnd]? = some r1 := hr1
      have e : r1 = r' := getElem?_inj hr1' hr'
      subst e
      simp only [startRound, hf, Bool.or_false, Bool.or_eq_true, Bool.and_eq_true, beq_iff_eq] at hj
      rcases hj with hj | hj
      · exact Or.inl hj
      · exact Or.inr (Or.inl hj)
    · intro k r1 hk hr1 hf
      have hk' : k + 1 < p.rnd + 1 := hk
      show (∀ j, j < p.nOld → MetOld tbl p.self ms r1 j) ∧ (∀ j, j < p.nNew → MetNew tbl p.self ms r1 j)
      by_cases hlt : k + 1 < p.rnd
      · exact h.past k r1 hlt hr1 hf
      · have hk1 : k = p.rnd - 1 := by omega
        subst hk1
        have e : r1 = r := getElem?_inj hr1 hr
        subst e
        exact ⟨fun j hj => h.okOld r1 h0 hr hf j (hcp.1 j hj), fun j hj => h.okNew r1 h0 hr hf j (hcp.2 j hj)⟩
  fin := fun p h _ _ _ => ⟨h.store, h.okOld, h.okNew, h.past⟩

theorem hist_deliver {tbl : List RSpec} {ms : List Msg} {p : Party} (m : Msg) (h : Hist tbl ms p) :
    Hist tbl (ms ++ [m]) (deliver tbl m p) := (hist_moves tbl _).deliver m (hist_storeMsg m h)

theorem hist_startRound0 {tbl : List RSpec} {ms : List Msg} {p : Party} {r : RSpec} (h : Hist tbl ms p)
    (_h0 : p.rnd = 0) (hr : tbl[0]? = some r) : Hist tbl ms (startRound r 0 p) := by
  have hrm : r ∈ tbl := List.mem_of_getElem? hr
  refine ⟨?_, ?_, ?_, ?_⟩
  · intro t j s hs
    simp only [startRound, putSelf] at hs
    by_cases hc : j = p.self ∧ (r.selfStore.any fun tf => tf.1 == t) = true
    · exact Or.inl ⟨hc.1, ownTy_of_mem hrm hc.2⟩
    · rw [if_neg hc] at hs
      exact h.store t j s hs
  · intro r1 _ hr1 hf j hj
    have hr1' : tbl[0]? = some r1 := hr1
    have e : r1 = r := getElem?_inj hr1' hr
    subst e
    simp only [startRound, hf, Bool.or_false] at hj
    exact Or.inl hj
  · intro r1 _ hr1 hf j hj
    have hr1' : tbl[0]? = some r1 := hr1
    have e : r1 = r := getElem?_inj hr1' hr
    subst e
    simp only [startRound, hf, Bool.or_false, Bool.or_eq_true, Bool.and_eq_true, beq_iff_eq] at hj
    rcases hj with hj | hj
    · exact Or.inl hj
    · exact Or.inr (Or.inl hj)
  · intro k r1 hk
    have hk' : k + 1 < 0 + 1 := hk
    omega

theorem hist_start {tbl : List RSpec} {ms : List Msg} {p : Party} (pre : Bool) (h : Hist tbl ms p) :
    Hist tbl ms (start tbl pre p) :=
  (hist_moves tbl ms).start pre h (fun _ h0 hr => hist_startRound0 h h0 hr)

theorem hist_applyEv {tbl : List RSpec} {ms : List Msg} {p : Party} (e : Ev) (h : Hist tbl ms p) :
    Hist tbl (ms ++ hist [e]) (applyEv tbl p e) := by
  cases e with
  | start pre =>
    have := hist_start (tbl := tbl) pre h
    simp only [hist, List.append_nil]
    exact this
  | deliver m => exact hist_deliver m h

theorem hist_run_from {tbl : List RSpec} (evs : List Ev) {ms : List Msg} {p : Party} (h : Hist tbl ms p) :
    Hist tbl (ms ++ hist evs) (run tbl evs p) := by
  induction evs generalizing ms p with
  | nil => simp only [hist, List.append_nil]; exact h
  | cons e evs ih =>
    rw [run_cons]
    have := ih (hist_applyEv e h)
    have e2 : hist (e :: evs) = hist [e] ++ hist evs := hist_append [e] evs
    rw [e2, ← List.append_assoc]
    exact this

/-- **the history invariant holds after every sequence of events from `fresh`** -/
theorem hist_run (tbl : List RSpec) (nOld nNew : Nat) (isNew : Bool) (self : Nat) (evs : List Ev) :
    Hist tbl (hist evs) (run tbl evs (fresh nOld nNew isNew self)) := by
  have := hist_run_from (tbl := tbl) evs (hist_fresh tbl nOld nNew isNew self)
  simpa using this

/-! ## 13. what having left a round implies -/

/-- a party beyond round index `k`, whose spec needs `(ty, fl)` from every new member and does not preset the
new flags, has had that message delivered from every new index, except possibly its own slot -/
theorem past_needsNew {tbl : List RSpec} {ms : List Msg} {p : Party} (h : Hist tbl ms p) {k : Nat} {r : RSpec}
    {ty : Nat} {fl : Bool} (hk : k + 1 < p.rnd) (hr : tbl[k]? = some r) (hf : r.final = false)
    (hp : r.presetNew = false) (hn : (ty, fl) ∈ r.needsNew) :
    ∀ j, j < p.nNew → (j = p.self ∧ (r.selfOkNew = true ∨ ownTy tbl ty = true)) ∨ Deliv ms ty j fl := by
  intro j hj
  rcases (h.past k r hk hr hf).2 j hj with h1 | ⟨h1, h2⟩ | ⟨_, h1⟩
  · rw [hp] at h1; cases h1
  · exact Or.inl ⟨h2, Or.inl h1⟩
  · rcases h1 (ty, fl) hn with ⟨h2, h3⟩ | h2
    · exact Or.inl ⟨h2, Or.inr h3⟩
    · exact Or.inr h2

theorem past_needsOld {tbl : List RSpec} {ms : List Msg} {p : Party} (h : Hist tbl ms p) {k : Nat} {r : RSpec}
    {ty : Nat} {fl : Bool} (hk : k + 1 < p.rnd) (hr : tbl[k]? = some r) (hf : r.final = false)
    (hp : r.presetOld = false) (hn : (ty, fl) ∈ r.needsOld) :
    ∀ j, j < p.nOld → (j = p.self ∧ ownTy tbl ty = true) ∨ Deliv ms ty j fl := by
  intro j hj
  rcases (h.past k r hk hr hf).1 j hj with h1 | ⟨_, h1⟩
  · rw [hp] at h1; cases h1
  · exact h1 (ty, fl) hn

/-! ## 14. the two resharing tables -/

/-- the table of a role -/
def tblOf (P : Proto) (isNew : Bool) : List RSpec := if isNew then P.new else P.old

/-- the final acknowledgement ("I have verified my shares") is the last message type of the protocol:
`DGRound4Message` (5) for EdDSA, `DGRound4Message2` (7) for ECDSA -/
def finalAck (P : Proto) : Nat := P.types.length

/-- the point-to-point share message `DGRound3Message1` and the de-commitment broadcast `DGRound3Message2` -/
def shareTy (P : Proto) : Nat := typeId P "DGRound3Message1"
def decomTy (P : Proto) : Nat := typeId P "DGRound3Message2"

/-- the library's two resharing protocols -/
def IsLib (P : Proto) : Prop := P = eddsaResharing ∨ P = ecdsaResharing

/-- what the proofs use about a resharing protocol (all decidable; both library protocols have them) -/
structure AckFacts (P : Proto) : Prop where
  lenOld : P.old.length = 5
  lenNew : P.new.length = 5
  /-- `end` has been signalled once iff round 5 has been started -/
  endsOld : ∀ k, k < 6 → (endsUpTo P.old k = 1 ↔ k = 5)
  endsNew : ∀ k, k < 6 → (endsUpTo P.new k = 1 ↔ k = 5)
  /-- round 4 of either role: not final, new flags not preset, needs the final acknowledgement (broadcast)
  from every new member -/
  r4Old : ∃ r, P.old[3]? = some r ∧ r.final = false ∧ r.presetNew = false ∧ (finalAck P, true) ∈ r.needsNew ∧
    r.selfOkNew = false
  r4New : ∃ r, P.new[3]? = some r ∧ r.final = false ∧ r.presetNew = false ∧ (finalAck P, true) ∈ r.needsNew
  /-- an old member stores no own final acknowledgement -/
  ackNotOwnOld : ownTy P.old (finalAck P) = false
  /-- round 3 of a new member: needs the share (point-to-point) and the de-commitment (broadcast) from every old member -/
  r3New : ∃ r, P.new[2]? = some r ∧ r.final = false ∧ r.presetOld = false ∧ (shareTy P, false) ∈ r.needsOld ∧
    (decomTy P, true) ∈ r.needsOld
  shareNotOwnNew : ownTy P.new (shareTy P) = false ∧ ownTy P.new (decomTy P) = false
  /-- the final acknowledgement is emitted by the new role in round 4 and only there, and never by the old role -/
  ackEmitNew : ∀ k r, P.new[k]? = some r → ((r.emits.any fun e => e.1 == finalAck P) = true ↔ k = 3)
  ackEmitOnce : ∃ r, P.new[3]? = some r ∧ (finalAck P, Cnt.once) ∈ r.emits
  ackNotEmitOld : ∀ r ∈ P.old, (r.emits.any fun e => e.1 == finalAck P) = false
  /-- the share and the de-commitment are not emitted by the new role -/
  shareNotEmitNew : ∀ r ∈ P.new, (r.emits.any fun e => e.1 == shareTy P || e.1 == decomTy P) = false
  /-- `end` is signalled at most once -/
  endsLe : ∀ k, k < 6 → endsUpTo P.old k ≤ 1 ∧ endsUpTo P.new k ≤ 1

theorem ackFacts_eddsa : AckFacts eddsaResharing where
  lenOld := by decide
  lenNew := by decide
  endsOld := by decide
  endsNew := by decide
  r4Old := ⟨_, rfl, by decide, by decide, by decide, by decide⟩
  r4New := ⟨_, rfl, by decide, by decide, by decide⟩
  ackNotOwnOld := by decide
  r3New := ⟨_, rfl, by decide, by decide, by decide, by decide⟩
  shareNotOwnNew := by decide
  ackEmitNew := by
    intro k r hr
    have hk : k < 5 := lt_of_getElem?_some hr
    have : k = 0 ∨ k = 1 ∨ k = 2 ∨ k = 3 ∨ k = 4 := by omega
    rcases this with rfl | rfl | rfl | rfl | rfl <;> (injection hr with hr; subst hr; decide)
  ackEmitOnce := ⟨_, rfl, by decide⟩
  ackNotEmitOld := by decide
  shareNotEmitNew := by decide
  endsLe := by decide

theorem ackFacts_ecdsa : AckFacts ecdsaResharing where
  lenOld := by decide
  lenNew := by decide
  endsOld := by decide
  endsNew := by decide
  r4Old := ⟨_, rfl, by decide, by decide, by decide, by decide⟩
  r4New := ⟨_, rfl, by decide, by decide, by decide⟩
  ackNotOwnOld := by decide
  r3New := ⟨_, rfl, by decide, by decide, by decide, by decide⟩
  shareNotOwnNew := by decide
  ackEmitNew := by
    intro k r hr
    have hk : k < 5 := lt_of_getElem?_some hr
    have : k = 0 ∨ k = 1 ∨ k = 2 ∨ k = 3 ∨ k = 4 := by omega
    rcases this with rfl | rfl | rfl | rfl | rfl <;> (injection hr with hr; subst hr; decide)
  ackEmitOnce := ⟨_, rfl, by decide⟩
  ackNotEmitOld := by decide
  shareNotEmitNew := by decide
  endsLe := by decide

theorem ackFacts_of_isLib {P : Proto} (h : IsLib P) : AckFacts P := by
  rcases h with rfl | rfl
  · exact ackFacts_eddsa
  · exact ackFacts_ecdsa

/-- `end` signalled once ⟺ the final round (round 5) has been started -/
theorem ended_iff_rnd_old {P : Proto} (F : AckFacts P) {p : Party} (hc : Canon P.old p) : p.ended = 1 ↔ p.rnd = 5 := by
  obtain ⟨h1, _, h3⟩ := hc
  rw [h3]
  exact F.endsOld p.rnd (by rw [F.lenOld] at h1; omega)

theorem ended_iff_rnd_new {P : Proto} (F : AckFacts P) {p : Party} (hc : Canon P.new p) : p.ended = 1 ↔ p.rnd = 5 := by
  obtain ⟨h1, _, h3⟩ := hc
  rw [h3]
  exact F.endsNew p.rnd (by rw [F.lenNew] at h1; omega)

/-- an old member that has started the final round has had the final acknowledgement of every new member delivered -/
theorem old_final_acks {P : Proto} (F : AckFacts P) {ms : List Msg} {p : Party} (hc : Canon P.old p)
    (hh : Hist P.old ms p) (he : p.ended = 1) : ∀ j, j < p.nNew → Deliv ms (finalAck P) j true := by
  intro j hj
  have hr5 := (ended_iff_rnd_old F hc).mp he
  obtain ⟨r, hr, hf, hp, hn, hso⟩ := F.r4Old
  rcases past_needsNew hh (k := 3) (by omega) hr hf hp hn j hj with ⟨_, h1 | h1⟩ | h1
  · rw [hso] at h1; cases h1
  · rw [F.ackNotOwnOld] at h1; cases h1
  · exact h1

/-- a new member that has started the final round has had the final acknowledgement of every other new member delivered -/
theorem new_final_acks {P : Proto} (F : AckFacts P) {ms : List Msg} {p : Party} (hc : Canon P.new p)
    (hh : Hist P.new ms p) (he : p.ended = 1) : ∀ j, j < p.nNew → j ≠ p.self → Deliv ms (finalAck P) j true := by
  intro j hj hne
  have hr5 := (ended_iff_rnd_new F hc).mp he
  obtain ⟨r, hr, hf, hp, hn⟩ := F.r4New
  rcases past_needsNew hh (k := 3) (by omega) hr hf hp hn j hj with ⟨h1, _⟩ | h1
  · exact absurd h1 hne
  · exact h1

/-! ## 15. membership in the canonical emission log -/

theorem mem_emitList_iff {n ty : Nat} {es : List (Nat × Cnt)} :
    ty ∈ emitList n es ↔ ∃ e ∈ es, e.1 = ty ∧
      (e.2 = Cnt.once ∨ (e.2 = Cnt.perNew ∧ 0 < n) ∨ (e.2 = Cnt.perNewOther ∧ 1 < n)) := by
  unfold emitList
  rw [List.mem_flatMap]
  constructor
  · rintro ⟨e, he, h⟩
    refine ⟨e, he, ?_⟩
    rcases e with ⟨t, c⟩
    cases c
    · simp at h; exact ⟨h.symm, Or.inl rfl⟩
    · simp only [List.mem_replicate] at h; exact ⟨h.2.symm, Or.inr (Or.inl ⟨rfl, by omega⟩)⟩
    · simp only [List.mem_replicate] at h; exact ⟨h.2.symm, Or.inr (Or.inr ⟨rfl, by omega⟩)⟩
  · rintro ⟨e, he, h1, h2⟩
    refine ⟨e, he, ?_⟩
    rcases e with ⟨t, c⟩
    simp only at h1 h2
    subst h1
    rcases h2 with h | ⟨h, hn⟩ | ⟨h, hn⟩ <;> subst h
    · simp
    · exact List.mem_replicate.mpr ⟨by omega, rfl⟩
    · exact List.mem_replicate.mpr ⟨by omega, rfl⟩

theorem mem_emitsUpTo_iff {tbl : List RSpec} {n k ty : Nat} :
    ty ∈ emitsUpTo tbl n k ↔ ∃ k' r, k' < k ∧ tbl[k']? = some r ∧ ty ∈ emitList n r.emits := by
  unfold emitsUpTo
  rw [List.mem_flatten]
  constructor
  · rintro ⟨l, hl, hty⟩
    rw [List.mem_map] at hl
    obtain ⟨r, hr, rfl⟩ := hl
    obtain ⟨i, hi⟩ := List.mem_iff_getElem?.mp hr
    rw [List.getElem?_take] at hi
    split at hi
    · rename_i hlt; exact ⟨i, r, hlt, hi, hty⟩
    · cases hi
  · rintro ⟨k', r, hk, hr, hty⟩
    refine ⟨emitList n r.emits, ?_, hty⟩
    rw [List.mem_map]
    refine ⟨r, ?_, rfl⟩
    rw [List.mem_iff_getElem?]
    exact ⟨k', by rw [List.getElem?_take, if_pos hk]; exact hr⟩

/-- a new member has the final acknowledgement in its emission log iff it has started round 4 -/
theorem ack_in_out_iff {P : Proto} (F : AckFacts P) {p : Party} (hc : Canon P.new p) :
    finalAck P ∈ p.out ↔ 4 ≤ p.rnd := by
  rw [hc.2.1, mem_emitsUpTo_iff]
  constructor
  · rintro ⟨k', r, hk, hr, hty⟩
    obtain ⟨e, he, h1, _⟩ := mem_emitList_iff.mp hty
    have : (r.emits.any fun e => e.1 == finalAck P) = true := by
      rw [List.any_eq_true]; exact ⟨e, he, by simp [h1]⟩
    have := (F.ackEmitNew k' r hr).mp this
    omega
  · intro h
    obtain ⟨r, hr, he⟩ := F.ackEmitOnce
    exact ⟨3, r, by omega, hr, mem_emitList_iff.mpr ⟨_, he, rfl, Or.inl rfl⟩⟩

/-- an old member never has the final acknowledgement in its emission log -/
theorem ack_not_in_out_old {P : Proto} (F : AckFacts P) {p : Party} (hc : Canon P.old p) : finalAck P ∉ p.out := by
  rw [hc.2.1, mem_emitsUpTo_iff]
  rintro ⟨k', r, _, hr, hty⟩
  obtain ⟨e, he, h1, _⟩ := mem_emitList_iff.mp hty
  have h2 := F.ackNotEmitOld r (List.mem_of_getElem? hr)
  have : (r.emits.any fun e => e.1 == finalAck P) = true := by
    rw [List.any_eq_true]; exact ⟨e, he, by simp [h1]⟩
  rw [h2] at this; cases this

/-- the new role never has a share or a de-commitment in its emission log -/
theorem share_not_in_out_new {P : Proto} (F : AckFacts P) {p : Party} (hc : Canon P.new p) :
    shareTy P ∉ p.out ∧ decomTy P ∉ p.out := by
  rw [hc.2.1, mem_emitsUpTo_iff, mem_emitsUpTo_iff]
  constructor
  · rintro ⟨k', r, _, hr, hty⟩
    obtain ⟨e, he, h1, _⟩ := mem_emitList_iff.mp hty
    have h2 := F.shareNotEmitNew r (List.mem_of_getElem? hr)
    have : (r.emits.any fun e => e.1 == shareTy P || e.1 == decomTy P) = true := by
      rw [List.any_eq_true]; exact ⟨e, he, by simp [h1]⟩
    rw [h2] at this; cases this
  · rintro ⟨k', r, _, hr, hty⟩
    obtain ⟨e, he, h1, _⟩ := mem_emitList_iff.mp hty
    have h2 := F.shareNotEmitNew r (List.mem_of_getElem? hr)
    have : (r.emits.any fun e => e.1 == shareTy P || e.1 == decomTy P) = true := by
      rw [List.any_eq_true]; exact ⟨e, he, by simp [h1]⟩
    rw [h2] at this; cases this

/-- `end` is signalled at most once, by either role -/
theorem ended_le_one {P : Proto} (F : AckFacts P) (c : Bool) {p : Party} (hc : Canon (tblOf P c) p) : p.ended ≤ 1 := by
  obtain ⟨h1, _, h3⟩ := hc
  rw [h3]
  cases c
  · have : p.rnd ≤ P.old.length := h1
    rw [F.lenOld] at this
    exact (F.endsLe p.rnd (by omega)).1
  · have : p.rnd ≤ P.new.length := h1
    rw [F.lenNew] at this
    exact (F.endsLe p.rnd (by omega)).2

/-- a new member that has started round 4 has had the share and the de-commitment of every old member delivered -/
theorem new_round4_shares {P : Proto} (F : AckFacts P) {ms : List Msg} {p : Party} (hh : Hist P.new ms p)
    (h4 : 4 ≤ p.rnd) : ∀ j, j < p.nOld → Deliv ms (shareTy P) j false ∧ Deliv ms (decomTy P) j true := by
  intro j hj
  obtain ⟨r, hr, hf, hp, hn1, hn2⟩ := F.r3New
  refine ⟨?_, ?_⟩
  · rcases past_needsOld hh (k := 2) (by omega) hr hf hp hn1 j hj with ⟨_, h1⟩ | h1
    · rw [F.shareNotOwnNew.1] at h1; cases h1
    · exact h1
  · rcases past_needsOld hh (k := 2) (by omega) hr hf hp hn2 j hj with ⟨_, h1⟩ | h1
    · rw [F.shareNotOwnNew.2] at h1; cases h1
    · exact h1

end TssVerif.E2L
