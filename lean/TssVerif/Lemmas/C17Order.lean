import TssVerif.Core.Curve
/-! Order of the two base points by kernel evaluation (core Lean only, no Mathlib).

`Curve.smul` over a 253/256-bit scalar costs about one minute of kernel time per curve (each of the
~380 point operations runs the extended Euclid of `modInverse` on `Int`). The scalar's bit list is cut
into 32-bit chunks; `edMid i` / `secpMid i` is the accumulator after `32·(i+1)` bits (obtained with
`#eval`), and each chunk is one `decide +kernel` of 5–10 s. This file is separate from
`Lemmas/C17.lean` so that its `.olean` is rebuilt only when `Core/Curve.lean` or `Core/GoInt.lean` change. -/
namespace TssVerif.C17L
open TssVerif

theorem smulBits_append {P : Type} (C : Curve P) (as bs : List Bool) (pt acc : P) :
    C.smulBits (as ++ bs) pt acc = C.smulBits bs pt (C.smulBits as pt acc) := by
  induction as generalizing acc with
  | nil => rfl
  | cons b as ih => simp only [List.cons_append, Curve.smulBits, ih]

/-- process the next `n` bits (from position `i`) first -/
theorem smulBits_chunk {P : Type} (C : Curve P) (bs : List Bool) (i n : Nat) (pt acc : P) :
    C.smulBits (bs.drop i) pt acc
      = C.smulBits (bs.drop (i + n)) pt (C.smulBits ((bs.drop i).take n) pt acc) := by
  rw [← smulBits_append, ← List.drop_drop, List.take_append_drop]

theorem smul_eq_smulBits {P : Type} (C : Curve P) {k : Nat} (hk : k ≠ 0) (pt : P) :
    C.smul k pt = C.smulBits ((bitsMSB k).drop 0) pt C.zero := by
  simp only [Curve.smul, if_neg hk, List.drop_zero]


/-! ### Ed25519 -/

/-- accumulator of `Ed25519.curve.smul Ed25519.l base` after `32·(i+1)` bits -/
def edMid : Nat → Ed25519.Pt
  | 0 => (54882909907635354958311263340029521311980981711637644057731212095996500430552,
      42932185445836734984879765196158360688663229692937278561535355964359997581186)
  | 1 => (1858744241653336215343795677286102722518125133862047495966642301222759149346,
      51688159461706094879304629140765766764511202268320054417312410136779795003785)
  | 2 => (4941794609987678981879188000114348043986995390085707309908914207158224370220,
      11393072468401385903230649060352828887982933982104030268046685519118680025095)
  | 3 => (13255665929656146281080449887007641909509999304849491744738638209813853897619,
      55705207129829464869897097349416518624188726193119147708421062336186161442401)
  | 4 => (7101013764181857221469411635023371419982929742177865615485145664565034020814,
      25100303233440515294907358208048928369648285879095887028887101799012100541157)
  | 5 => (13570168504664276947452866115781809515343961375472577212827339906740801897588,
      32316583099159130187777584522396779712188715834565581627682555495253243358566)
  | 6 => (33545777270781970816846392840559806609800458560842515073889883007380097530079,
      38770330194197131230986231004903401676867012024676671413093324368428121063957)
  | _ => (0, 1)

theorem ed_chunk0 : Ed25519.curve.smulBits (((bitsMSB Ed25519.l).drop 0).take 32) Ed25519.curve.base Ed25519.curve.zero = edMid 0 := by
  decide +kernel
theorem ed_chunk1 : Ed25519.curve.smulBits (((bitsMSB Ed25519.l).drop 32).take 32) Ed25519.curve.base (edMid 0) = edMid 1 := by
  decide +kernel
theorem ed_chunk2 : Ed25519.curve.smulBits (((bitsMSB Ed25519.l).drop 64).take 32) Ed25519.curve.base (edMid 1) = edMid 2 := by
  decide +kernel
theorem ed_chunk3 : Ed25519.curve.smulBits (((bitsMSB Ed25519.l).drop 96).take 32) Ed25519.curve.base (edMid 2) = edMid 3 := by
  decide +kernel
theorem ed_chunk4 : Ed25519.curve.smulBits (((bitsMSB Ed25519.l).drop 128).take 32) Ed25519.curve.base (edMid 3) = edMid 4 := by
  decide +kernel
theorem ed_chunk5 : Ed25519.curve.smulBits (((bitsMSB Ed25519.l).drop 160).take 32) Ed25519.curve.base (edMid 4) = edMid 5 := by
  decide +kernel
theorem ed_chunk6 : Ed25519.curve.smulBits (((bitsMSB Ed25519.l).drop 192).take 32) Ed25519.curve.base (edMid 5) = edMid 6 := by
  decide +kernel
theorem ed_chunk7 : Ed25519.curve.smulBits ((bitsMSB Ed25519.l).drop 224) Ed25519.curve.base (edMid 6) = (0, 1) := by
  decide +kernel

theorem ed_base_order : Ed25519.curve.smul Ed25519.l Ed25519.curve.base = (0, 1) := by
  rw [smul_eq_smulBits _ (by decide)]
  rw [smulBits_chunk _ _ 0 32, ed_chunk0]
  rw [smulBits_chunk _ _ 32 32, ed_chunk1]
  rw [smulBits_chunk _ _ 64 32, ed_chunk2]
  rw [smulBits_chunk _ _ 96 32, ed_chunk3]
  rw [smulBits_chunk _ _ 128 32, ed_chunk4]
  rw [smulBits_chunk _ _ 160 32, ed_chunk5]
  rw [smulBits_chunk _ _ 192 32, ed_chunk6]
  exact ed_chunk7

/-! ### Secp256k1 -/

/-- accumulator of `Secp256k1.curve.smul Secp256k1.n base` after `32·(i+1)` bits -/
def secpMid : Nat → Secp256k1.Pt
  | 0 => some (84353664740444228439011026249523093615980163880775352006601710044671436206174,
      70086162059883113165357350924185928534033735369058967403519437240021815150764)
  | 1 => some (22103564225080446607870885038642619297116411945151334988292469497259080155623,
      87221748030493249802157529909219195243606877670052731797952720158686957464281)
  | 2 => some (5183438368247823987934399863722173059875496618660569865721429870666379617877,
      115067447288329648966706540646687111117073724853801414676526903346642653874806)
  | 3 => some (68692142850392660802015396329039649451204381635119853432798177972246951304803,
      102365750941148103039035143763801997307773149029056103307434350881605350249461)
  | 4 => some (47247763451531799463065668430463609483975236849127794879763225805652470995583,
      2686146893585238506563017278856286586815519206823040860534813853656267894574)
  | 5 => some (18462507725042716807979103445085429593496376249583542325522822244689471872519,
      37465934278057643432886868738220694055075490840727191692633083132563294258897)
  | 6 => some (52950113734379978834285708195116877708433501691498224564508740991752088246881,
      107755904324268202193378651250843500936777087902814227553908609307377266828915)
  | _ => none

theorem secp_chunk0 : Secp256k1.curve.smulBits (((bitsMSB Secp256k1.n).drop 0).take 32) Secp256k1.curve.base Secp256k1.curve.zero = secpMid 0 := by
  decide +kernel
theorem secp_chunk1 : Secp256k1.curve.smulBits (((bitsMSB Secp256k1.n).drop 32).take 32) Secp256k1.curve.base (secpMid 0) = secpMid 1 := by
  decide +kernel
theorem secp_chunk2 : Secp256k1.curve.smulBits (((bitsMSB Secp256k1.n).drop 64).take 32) Secp256k1.curve.base (secpMid 1) = secpMid 2 := by
  decide +kernel
theorem secp_chunk3 : Secp256k1.curve.smulBits (((bitsMSB Secp256k1.n).drop 96).take 32) Secp256k1.curve.base (secpMid 2) = secpMid 3 := by
  decide +kernel
theorem secp_chunk4 : Secp256k1.curve.smulBits (((bitsMSB Secp256k1.n).drop 128).take 32) Secp256k1.curve.base (secpMid 3) = secpMid 4 := by
  decide +kernel
theorem secp_chunk5 : Secp256k1.curve.smulBits (((bitsMSB Secp256k1.n).drop 160).take 32) Secp256k1.curve.base (secpMid 4) = secpMid 5 := by
  decide +kernel
theorem secp_chunk6 : Secp256k1.curve.smulBits (((bitsMSB Secp256k1.n).drop 192).take 32) Secp256k1.curve.base (secpMid 5) = secpMid 6 := by
  decide +kernel
theorem secp_chunk7 : Secp256k1.curve.smulBits ((bitsMSB Secp256k1.n).drop 224) Secp256k1.curve.base (secpMid 6) = none := by
  decide +kernel

theorem secp_base_order : Secp256k1.curve.smul Secp256k1.n Secp256k1.curve.base = none := by
  rw [smul_eq_smulBits _ (by decide)]
  rw [smulBits_chunk _ _ 0 32, secp_chunk0]
  rw [smulBits_chunk _ _ 32 32, secp_chunk1]
  rw [smulBits_chunk _ _ 64 32, secp_chunk2]
  rw [smulBits_chunk _ _ 96 32, secp_chunk3]
  rw [smulBits_chunk _ _ 128 32, secp_chunk4]
  rw [smulBits_chunk _ _ 160 32, secp_chunk5]
  rw [smulBits_chunk _ _ 192 32, secp_chunk6]
  exact secp_chunk7

end TssVerif.C17L
