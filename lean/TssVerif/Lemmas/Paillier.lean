import TssVerif.Core.Paillier
import TssVerif.Lemmas.GoIntSpec
import Mathlib.FieldTheory.Finite.Basic
import Mathlib.Data.Nat.ModEq
import Mathlib.Tactic.Ring
import Mathlib.Tactic.Linarith
/-! Number theory behind `crypto/paillier/paillier.go` (helper lemmas for `TssVerif/Props/C14.lean`).

The central notion is `IsCt n m c`: `c` is a reduced residue `≡ (n+1)^m · x^n (mod n²)` for some unit `x`.
Encryption produces such values, `HomoAdd`/`HomoMult` preserve them, and `Decrypt` maps them to `m % n`. -/
namespace TssVerif.PaillierL
open TssVerif TssVerif.Paillier

/-! ## pure number theory -/

theorem one_add_mul_pow (N j k : ℕ) : (1 + j * N) ^ k ≡ 1 + k * j * N [MOD N * N] := by
  induction k with
  | zero => simp [Nat.ModEq]
  | succ k ih =>
    have h1 : (1 + j * N) ^ (k + 1) ≡ (1 + k * j * N) * (1 + j * N) [MOD N * N] := by
      rw [pow_succ]; exact ih.mul_right _
    have h2 : (1 + k * j * N) * (1 + j * N) = 1 + (k + 1) * j * N + (k * j * j) * (N * N) := by ring
    rw [h2] at h1
    refine h1.trans ?_
    have : (k * j * j) * (N * N) ≡ 0 [MOD N * N] := (Nat.modEq_zero_iff_dvd).2 (Dvd.intro_left _ rfl)
    exact (Nat.ModEq.refl (1 + (k + 1) * j * N)).add this

theorem succ_pow_modEq (N k : ℕ) : (N + 1) ^ k ≡ 1 + k * N [MOD N * N] := by
  have := one_add_mul_pow N 1 k
  simpa [add_comm] using this

/-- `(1 + a N) % N² = 1 + (a % N) N` -/
theorem one_add_mul_mod {N : ℕ} (hN : 1 < N) (a : ℕ) : (1 + a * N) % (N * N) = 1 + (a % N) * N := by
  have ha : a = N * (a / N) + a % N := (Nat.div_add_mod a N).symm
  have hlt : 1 + (a % N) * N < N * N := by
    have : a % N < N := Nat.mod_lt _ (by omega)
    nlinarith
  have e : 1 + a * N = 1 + (a % N) * N + (N * N) * (a / N) := by
    conv_lhs => rw [ha]
    ring
  rw [e, Nat.add_mul_mod_self_left, Nat.mod_eq_of_lt hlt]

/-- the `L` function of the Go code inverts `a ↦ 1 + a N` modulo `N²` -/
theorem L_of_modEq {N u a : ℕ} (hN : 1 < N) (h : u ≡ 1 + a * N [MOD N * N]) :
    L (u % (N * N)) N = ((a % N : ℕ) : ℤ) := by
  have h' : u % (N * N) = (1 + a * N) % (N * N) := h
  rw [h', one_add_mul_mod hN]
  unfold L
  rw [if_neg (by omega), Nat.add_sub_cancel_left, Nat.mul_div_cancel _ (by omega)]

/-- lifting `x^λ ≡ 1 (mod N)` to `(x^N)^λ ≡ 1 (mod N²)` -/
theorem pow_pow_modEq_one {N lam x : ℕ} (h : x ^ lam ≡ 1 [MOD N]) :
    (x ^ N) ^ lam ≡ 1 [MOD N * N] := by
  have hpos : 1 ≤ x ^ lam ∨ x ^ lam = 0 := by omega
  rcases hpos with hpos | h0
  · obtain ⟨j, hj⟩ : ∃ j, x ^ lam = 1 + j * N := by
      obtain ⟨j, hj⟩ := (Nat.modEq_iff_dvd' hpos).1 h.symm
      exact ⟨j, by rw [mul_comm j N]; omega⟩
    rw [← pow_mul, mul_comm N lam, pow_mul, hj]
    refine (one_add_mul_pow N j N).trans ?_
    have : N * j * N ≡ 0 [MOD N * N] := (Nat.modEq_zero_iff_dvd).2 ⟨j, by ring⟩
    simpa using (Nat.ModEq.refl 1).add this
  · -- `0 ≡ 1 (mod N)` forces `N = 1`
    rw [h0] at h
    have : N ∣ 1 := (Nat.modEq_zero_iff_dvd).1 h.symm
    have hN : N = 1 := Nat.dvd_one.1 this
    subst hN
    exact Nat.modEq_one

theorem pow_lcm_modEq_one {P Q x : ℕ} (hP : P.Prime) (hQ : Q.Prime) (hne : P ≠ Q)
    (hx : Nat.Coprime x (P * Q)) : x ^ Nat.lcm (P - 1) (Q - 1) ≡ 1 [MOD P * Q] := by
  have hxP : Nat.Coprime x P := Nat.Coprime.coprime_mul_right_right hx
  have hxQ : Nat.Coprime x Q := Nat.Coprime.coprime_mul_left_right hx
  have hPQ : Nat.Coprime P Q := (Nat.coprime_primes hP hQ).2 hne
  have fP : x ^ (P - 1) ≡ 1 [MOD P] := by
    have := Nat.ModEq.pow_totient hxP
    rwa [Nat.totient_prime hP] at this
  have fQ : x ^ (Q - 1) ≡ 1 [MOD Q] := by
    have := Nat.ModEq.pow_totient hxQ
    rwa [Nat.totient_prime hQ] at this
  obtain ⟨a, ha⟩ := Nat.dvd_lcm_left (P - 1) (Q - 1)
  obtain ⟨b, hb⟩ := Nat.dvd_lcm_right (P - 1) (Q - 1)
  have gP : x ^ Nat.lcm (P - 1) (Q - 1) ≡ 1 [MOD P] := by
    rw [ha, pow_mul]; simpa using fP.pow a
  have gQ : x ^ Nat.lcm (P - 1) (Q - 1) ≡ 1 [MOD Q] := by
    rw [hb, pow_mul]; simpa using fQ.pow b
  exact (Nat.modEq_and_modEq_iff_modEq_mul hPQ).1 ⟨gP, gQ⟩

theorem one_lt_mul_primes {P Q : ℕ} (hP : P.Prime) (hQ : Q.Prime) : 1 < P * Q := by
  have h2 : 2 ≤ P := hP.two_le
  have h3 : 2 ≤ Q := hQ.two_le
  nlinarith

/-! ## key conditions -/

/-- what decryption needs of `(n, λ)`: `λ` kills the unit group of `ℤ/n` and is itself a unit mod `n` -/
structure LamOK (n lam : ℕ) : Prop where
  one_lt : 1 < n
  kills : ∀ x, Nat.Coprime x n → x ^ lam ≡ 1 [MOD n]
  unit : Nat.Coprime lam n

theorem lamOK_of_primes {P Q : ℕ} (hP : P.Prime) (hQ : Q.Prime) (hne : P ≠ Q)
    (hlam : Nat.Coprime (Nat.lcm (P - 1) (Q - 1)) (P * Q)) :
    LamOK (P * Q) (Nat.lcm (P - 1) (Q - 1)) :=
  ⟨one_lt_mul_primes hP hQ, fun _ hx => pow_lcm_modEq_one hP hQ hne hx, hlam⟩

/-- `gcd(λ, PQ) = 1` as soon as neither prime divides the other minus one -/
theorem lambda_unit_of_not_dvd {P Q : ℕ} (hP : P.Prime) (hQ : Q.Prime)
    (h1 : ¬ P ∣ Q - 1) (h2 : ¬ Q ∣ P - 1) : Nat.gcd (Nat.lcm (P - 1) (Q - 1)) (P * Q) = 1 := by
  have hPpos : 0 < P - 1 := by have := hP.two_le; omega
  have hQpos : 0 < Q - 1 := by have := hQ.two_le; omega
  have hdvd : Nat.lcm (P - 1) (Q - 1) ∣ (P - 1) * (Q - 1) := Nat.lcm_dvd_mul _ _
  have cP : Nat.Coprime ((P - 1) * (Q - 1)) P := by
    apply Nat.Coprime.symm
    rw [Nat.Prime.coprime_iff_not_dvd hP, Nat.Prime.dvd_mul hP]
    rintro (h | h)
    · exact absurd (Nat.le_of_dvd hPpos h) (by omega)
    · exact h1 h
  have cQ : Nat.Coprime ((P - 1) * (Q - 1)) Q := by
    apply Nat.Coprime.symm
    rw [Nat.Prime.coprime_iff_not_dvd hQ, Nat.Prime.dvd_mul hQ]
    rintro (h | h)
    · exact h2 h
    · exact absurd (Nat.le_of_dvd hQpos h) (by omega)
  exact Nat.Coprime.coprime_dvd_left hdvd (Nat.Coprime.mul_right cP cQ)

/-- the same side conditions give `gcd(n, φ(n)) = 1` -/
theorem phi_unit_of_not_dvd {P Q : ℕ} (hP : P.Prime) (hQ : Q.Prime)
    (h1 : ¬ P ∣ Q - 1) (h2 : ¬ Q ∣ P - 1) : Nat.gcd (P * Q) ((P - 1) * (Q - 1)) = 1 := by
  have hPpos : 0 < P - 1 := by have := hP.two_le; omega
  have hQpos : 0 < Q - 1 := by have := hQ.two_le; omega
  have cP : Nat.Coprime P ((P - 1) * (Q - 1)) := by
    rw [Nat.Prime.coprime_iff_not_dvd hP, Nat.Prime.dvd_mul hP]
    rintro (h | h)
    · exact absurd (Nat.le_of_dvd hPpos h) (by omega)
    · exact h1 h
  have cQ : Nat.Coprime Q ((P - 1) * (Q - 1)) := by
    rw [Nat.Prime.coprime_iff_not_dvd hQ, Nat.Prime.dvd_mul hQ]
    rintro (h | h)
    · exact h2 h
    · exact absurd (Nat.le_of_dvd hQpos h) (by omega)
  exact Nat.Coprime.mul_left cP cQ

/-- two odd primes of the same bit length never divide each other's predecessor -/
theorem not_dvd_pred_of_same_bitlen {P Q k : ℕ} (hP : P.Prime) (hQ : Q.Prime) (hP2 : P ≠ 2)
    (hPk : 2 ^ (k - 1) ≤ P) (hQk : Q < 2 ^ k) (hk : 1 ≤ k) : ¬ P ∣ Q - 1 := by
  rintro ⟨t, ht⟩
  have hQ2 := hQ.two_le
  have hP2' := hP.two_le
  have hpow : 2 ^ k = 2 * 2 ^ (k - 1) := by
    obtain ⟨j, rfl⟩ : ∃ j, k = j + 1 := ⟨k - 1, by omega⟩
    rw [Nat.add_sub_cancel, pow_succ, mul_comm]
  rcases Nat.lt_or_ge t 2 with ht2 | ht2
  · have : t = 0 ∨ t = 1 := by omega
    rcases this with rfl | rfl
    · omega
    · -- `Q = P + 1`, so one of them is even
      have hQe : Q = P + 1 := by omega
      rcases Nat.Prime.eq_one_or_self_of_dvd hP 2 (by
        by_contra hnd
        have hPodd : P % 2 = 1 := by omega
        have : 2 ∣ Q := by omega
        rcases (Nat.dvd_prime hQ).1 this with h | h <;> omega) with h | h <;> omega
  · have : 2 * P ≤ P * t := by nlinarith
    omega

/-- safe primes `P = 2p'+1`, `Q = 2q'+1`: `P ∣ Q − 1` only if `P = q'` -/
theorem not_dvd_pred_of_safe {P Q q' : ℕ} (hP : P.Prime) (hq' : q'.Prime) (hQ : Q = 2 * q' + 1)
    (hP2 : P ≠ 2) (hne : P ≠ q') : ¬ P ∣ Q - 1 := by
  intro h
  have : Q - 1 = 2 * q' := by omega
  rw [this, Nat.Prime.dvd_mul hP] at h
  rcases h with h | h
  · exact hP2 ((Nat.prime_dvd_prime_iff_eq hP Nat.prime_two).1 h)
  · exact hne ((Nat.prime_dvd_prime_iff_eq hP hq').1 h)

/-! ## well-formed ciphertexts -/

/-- `c` is a reduced encryption of `m` under modulus `n`: `c ≡ (n+1)^m · x^n (mod n²)` for a unit `x` -/
def IsCt (n m c : ℕ) : Prop :=
  c < n * n ∧ ∃ x, Nat.Coprime x n ∧ c ≡ (n + 1) ^ m * x ^ n [MOD n * n]

/-- the value `EncryptAndReturnRandomness` computes, with `Exp` replaced by its specification -/
def encNat (n m x : ℕ) : ℕ := (n + 1) ^ m % (n * n) * (x ^ n % (n * n)) % (n * n)

theorem encNat_modEq (n m x : ℕ) : encNat n m x ≡ (n + 1) ^ m * x ^ n [MOD n * n] :=
  (Nat.mod_modEq _ _).trans ((Nat.mod_modEq _ _).mul (Nat.mod_modEq _ _))

theorem encryptWith_eq {n m : ℕ} (hm : m < n) (x : ℕ) :
    encryptWith n (m : ℤ) x = .ok (encNat n m x) := by
  unfold encryptWith
  rw [if_neg (by omega)]
  simp only [nSquare, gamma, modPow_spec, Int.toNat_natCast, encNat]

theorem isCt_encNat {n x : ℕ} (hn : 1 < n) (hx : Nat.Coprime x n) (m : ℕ) : IsCt n m (encNat n m x) :=
  ⟨Nat.mod_lt _ (by nlinarith), x, hx, encNat_modEq n m x⟩

theorem coprime_succ_self (n : ℕ) : Nat.Coprime (n + 1) n := by
  simp [Nat.Coprime]

/-- a well-formed ciphertext passes `Decrypt`'s gcd check -/
theorem IsCt.coprime {n m c : ℕ} (h : IsCt n m c) : Nat.Coprime c (n * n) := by
  obtain ⟨_, x, hx, hc⟩ := h
  have h1 : Nat.Coprime ((n + 1) ^ m * x ^ n) n :=
    Nat.Coprime.mul_left (Nat.Coprime.pow_left _ (coprime_succ_self n)) (Nat.Coprime.pow_left _ hx)
  have h2 : Nat.Coprime ((n + 1) ^ m * x ^ n) (n * n) := Nat.Coprime.mul_right h1 h1
  unfold Nat.Coprime
  rw [hc.gcd_eq]
  exact h2

theorem IsCt.homoAdd {n m1 m2 c1 c2 : ℕ} (hn : 1 < n) (h1 : IsCt n m1 c1) (h2 : IsCt n m2 c2) :
    IsCt n (m1 + m2) (c1 * c2 % (n * n)) := by
  obtain ⟨_, x1, hx1, e1⟩ := h1
  obtain ⟨_, x2, hx2, e2⟩ := h2
  refine ⟨Nat.mod_lt _ (Nat.mul_pos (by omega) (by omega)), x1 * x2, Nat.Coprime.mul_left hx1 hx2, ?_⟩
  refine (Nat.mod_modEq _ _).trans ((e1.mul e2).trans ?_)
  have e : (n + 1) ^ m1 * x1 ^ n * ((n + 1) ^ m2 * x2 ^ n) = (n + 1) ^ (m1 + m2) * (x1 * x2) ^ n := by ring
  exact congrArg (· % (n * n)) e

theorem IsCt.homoMult {n m c : ℕ} (hn : 1 < n) (k : ℕ) (h : IsCt n m c) :
    IsCt n (k * m) (c ^ k % (n * n)) := by
  obtain ⟨_, x, hx, e⟩ := h
  refine ⟨Nat.mod_lt _ (Nat.mul_pos (by omega) (by omega)), x ^ k, Nat.Coprime.pow_left _ hx, ?_⟩
  refine (Nat.mod_modEq _ _).trans ((e.pow k).trans ?_)
  have e : ((n + 1) ^ m * x ^ n) ^ k = (n + 1) ^ (k * m) * (x ^ k) ^ n := by
    rw [mul_pow, ← pow_mul, ← pow_mul, ← pow_mul, mul_comm m k, mul_comm n k]
  exact congrArg (· % (n * n)) e

/-- the plaintext of a well-formed ciphertext is only determined modulo `n` -/
theorem IsCt.lam_power {n lam m c : ℕ} (hk : LamOK n lam) (h : IsCt n m c) :
    c ^ lam ≡ 1 + (m * lam) * n [MOD n * n] := by
  obtain ⟨_, x, hx, e⟩ := h
  refine (e.pow lam).trans ?_
  have a1 : ((n + 1) ^ m) ^ lam ≡ 1 + (m * lam) * n [MOD n * n] := by
    rw [← pow_mul]; exact succ_pow_modEq n (m * lam)
  have a2 : (x ^ n) ^ lam ≡ 1 [MOD n * n] := pow_pow_modEq_one (hk.kills x hx)
  have a3 := a1.mul a2
  rwa [mul_one, ← mul_pow] at a3

/-! ## `Decrypt` -/

/-- `Decrypt` with its two guards discharged and the result of `ModInverse` named -/
theorem decrypt_eq {sk : PrivateKey} {c inv : ℕ} (hc : c < sk.n * sk.n)
    (hcop : Nat.Coprime c (sk.n * sk.n))
    (hinv : modInverse (L (modPow (sk.n + 1) sk.lambdaN (sk.n * sk.n)) sk.n) sk.n = some inv) :
    decrypt sk (c : ℤ) =
      .ok ((L (modPow c sk.lambdaN (sk.n * sk.n)) sk.n * (inv : ℤ)) % (sk.n : ℤ)).toNat := by
  have h1 : ¬ ((c : ℤ) < 0 ∨ (c : ℤ) ≥ ((nSquare sk.n : ℕ) : ℤ)) := by
    unfold nSquare; omega
  have h2 : ¬ Nat.gcd (c : ℤ).toNat (nSquare sk.n) > 1 := by
    unfold nSquare; rw [Int.toNat_natCast, hcop]; omega
  have h3 : modInverse (L (modPow (gamma sk.n) sk.lambdaN (nSquare sk.n)) sk.n) sk.n = some inv := hinv
  unfold decrypt
  simp only []
  rw [if_neg h1, if_neg h2, h3]
  rfl

/-- `L(γ^λ mod n²) = λ mod n` -/
theorem L_gamma {n lam : ℕ} (hn : 1 < n) :
    L (modPow (n + 1) lam (n * n)) n = ((lam % n : ℕ) : ℤ) := by
  rw [modPow_spec]; exact L_of_modEq hn (succ_pow_modEq n lam)

/-- the `ModInverse` call of `Decrypt` never returns nil on a good key -/
theorem modInverse_L_gamma {n lam : ℕ} (hk : LamOK n lam) :
    ∃ inv : ℕ, modInverse (L (modPow (n + 1) lam (n * n)) n) n = some inv ∧
      (lam % n) * inv % n = 1 := by
  have hn := hk.one_lt
  rw [L_gamma hn]
  have hg : Int.gcd ((lam % n : ℕ) : ℤ) (n : ℤ) = 1 := by
    rw [Int.gcd_natCast_natCast, ← Nat.gcd_rec, Nat.gcd_comm]; exact hk.unit
  obtain ⟨b, hb, hspec, _⟩ := modInverse_exists (by omega) hg
  refine ⟨b, hb, ?_⟩
  have : (lam % n) * b % n = 1 % n := by exact_mod_cast hspec
  rwa [Nat.mod_eq_of_lt hn] at this

/-- **decryption of any well-formed ciphertext** -/
theorem decrypt_isCt {sk : PrivateKey} {m c : ℕ} (hk : LamOK sk.n sk.lambdaN) (h : IsCt sk.n m c) :
    decrypt sk (c : ℤ) = .ok (m % sk.n) := by
  have hn := hk.one_lt
  obtain ⟨inv, hinv, hone⟩ := modInverse_L_gamma hk
  rw [decrypt_eq h.1 h.coprime hinv, modPow_spec, L_of_modEq hn (h.lam_power hk)]
  congr 1
  set N := sk.n
  set lam := sk.lambdaN
  have h1 : (m * lam % N) * inv ≡ m * (lam % N * inv) [MOD N] := by
    have : m * lam % N ≡ m * (lam % N) [MOD N] :=
      (Nat.mod_modEq _ _).trans ((Nat.ModEq.refl m).mul (Nat.mod_modEq lam N).symm)
    simpa [mul_assoc] using this.mul_right inv
  have h2 : m * (lam % N * inv) ≡ m * 1 [MOD N] :=
    (Nat.ModEq.refl m).mul (by
      show lam % N * inv % N = 1 % N
      rw [hone, Nat.mod_eq_of_lt hn])
  have h3 : (m * lam % N) * inv % N = m % N := by
    have := h1.trans h2
    rwa [mul_one] at this
  rw [← h3]
  have : (((m * lam % N : ℕ) : ℤ) * (inv : ℤ)) % (N : ℤ) = (((m * lam % N) * inv % N : ℕ) : ℤ) := by
    push_cast; rfl
  rw [this, Int.toNat_natCast]

/-! ## the monad and the homomorphic operations, evaluated -/

@[simp] theorem ok_bind {α β : Type} (a : α) (f : α → Outcome β) : (Outcome.ok a >>= f) = f a := rfl
@[simp] theorem err_bind {α β : Type} (t : String) (f : α → Outcome β) :
    ((Outcome.err t : Outcome α) >>= f) = .err t := rfl
@[simp] theorem panic_bind {α β : Type} (t : String) (f : α → Outcome β) :
    ((Outcome.panic t : Outcome α) >>= f) = .panic t := rfl

theorem homoAdd_eq {n c1 c2 : ℕ} (h1 : c1 < n * n) (h2 : c2 < n * n) :
    homoAdd n (c1 : ℤ) (c2 : ℤ) = .ok (c1 * c2 % (n * n)) := by
  have g1 : ¬ ((c1 : ℤ) < 0 ∨ (c1 : ℤ) ≥ ((nSquare n : ℕ) : ℤ)) := by unfold nSquare; omega
  have g2 : ¬ ((c2 : ℤ) < 0 ∨ (c2 : ℤ) ≥ ((nSquare n : ℕ) : ℤ)) := by unfold nSquare; omega
  unfold homoAdd
  simp only []
  rw [if_neg g1, if_neg g2]
  rfl

theorem homoMult_eq {n k c : ℕ} (hk : k < n) (hc : c < n * n) :
    homoMult n (k : ℤ) (c : ℤ) = .ok (c ^ k % (n * n)) := by
  have g1 : ¬ ((k : ℤ) < 0 ∨ (k : ℤ) ≥ (n : ℤ)) := by omega
  have g2 : ¬ ((c : ℤ) < 0 ∨ (c : ℤ) ≥ ((nSquare n : ℕ) : ℤ)) := by unfold nSquare; omega
  unfold homoMult
  simp only []
  rw [if_neg g1, if_neg g2, modPow_spec]
  rfl

theorem encryptWith_ok_iff {n : ℕ} {m : ℤ} {x c : ℕ} :
    encryptWith n m x = .ok c ↔ 0 ≤ m ∧ m < n ∧ c = encNat n m.toNat x := by
  by_cases h : m < 0 ∨ m ≥ (n : ℤ)
  · simp only [encryptWith, if_pos h]
    constructor
    · intro h'; cases h'
    · rintro ⟨h1, h2, _⟩; omega
  · have h0 : 0 ≤ m := by omega
    obtain ⟨k, rfl⟩ := Int.eq_ofNat_of_zero_le h0
    rw [encryptWith_eq (by omega)]
    constructor
    · intro h'; injection h' with h'; exact ⟨h0, by omega, by simpa using h'.symm⟩
    · rintro ⟨_, _, rfl⟩; simp

/-! ## freshness: `x ↦ x^n` is injective on units when `gcd(n, φ(n)) = 1` -/

theorem pow_n_injective {n x x' : ℕ} (hn : 1 < n) (hcop : Nat.Coprime n (Nat.totient n))
    (hx : Nat.Coprime x n) (hx' : Nat.Coprime x' n) (h : x ^ n ≡ x' ^ n [MOD n]) :
    x ≡ x' [MOD n] := by
  have e1 := Nat.ModEq.pow_totient hx
  have e2 := Nat.ModEq.pow_totient hx'
  rcases Nat.lt_or_ge 1 (Nat.totient n) with hphi | hphi
  · obtain ⟨d, -, hd⟩ := Nat.exists_mul_mod_eq_one_of_coprime hcop hphi
    have key : ∀ y, y ^ Nat.totient n ≡ 1 [MOD n] → (y ^ n) ^ d ≡ y [MOD n] := by
      intro y hy
      have : n * d = Nat.totient n * (n * d / Nat.totient n) + 1 := by
        have := Nat.div_add_mod (n * d) (Nat.totient n)
        omega
      rw [← pow_mul, this, pow_succ, pow_mul]
      simpa using (hy.pow _).mul_right y
    exact ((key x e1).symm.trans (h.pow d)).trans (key x' e2)
  · have hpos : 0 < Nat.totient n := Nat.totient_pos.2 (by omega)
    have : Nat.totient n = 1 := by omega
    rw [this, pow_one] at e1 e2
    exact e1.trans e2.symm

theorem totient_mul_primes {P Q : ℕ} (hP : P.Prime) (hQ : Q.Prime) (hne : P ≠ Q) :
    Nat.totient (P * Q) = (P - 1) * (Q - 1) := by
  rw [Nat.totient_mul ((Nat.coprime_primes hP hQ).2 hne), Nat.totient_prime hP, Nat.totient_prime hQ]

/-- equal ciphertexts of the same plaintext have randomisers congruent modulo `n` -/
theorem encNat_inj_x {n m x x' : ℕ} (hn : 1 < n) (hcop : Nat.Coprime n (Nat.totient n))
    (hx : Nat.Coprime x n) (hx' : Nat.Coprime x' n) (hlt : x < n) (hlt' : x' < n)
    (h : encNat n m x = encNat n m x') : x = x' := by
  have h1 : (n + 1) ^ m * x ^ n ≡ (n + 1) ^ m * x' ^ n [MOD n * n] :=
    (encNat_modEq n m x).symm.trans ((by rw [h] : encNat n m x ≡ encNat n m x' [MOD n * n]).trans (encNat_modEq n m x'))
  have h2 : (n + 1) ^ m * x ^ n ≡ (n + 1) ^ m * x' ^ n [MOD n] := h1.of_mul_left n
  have g : (n + 1) ^ m ≡ 1 [MOD n] := by
    have : n + 1 ≡ 1 [MOD n] := by simp [Nat.ModEq]
    simpa using this.pow m
  have h3 : x ^ n ≡ x' ^ n [MOD n] := by
    have a := (g.mul_right (x ^ n)).symm.trans (h2.trans (g.mul_right (x' ^ n)))
    simpa using a
  have := pow_n_injective hn hcop hx hx' h3
  rw [Nat.ModEq, Nat.mod_eq_of_lt hlt, Nat.mod_eq_of_lt hlt'] at this
  exact this

/-! ## bit lengths -/

theorem bitLen_eq_of_bounds {n k : ℕ} (hk : 1 ≤ k) (h1 : 2 ^ (k - 1) ≤ n) (h2 : n < 2 ^ k) :
    bitLen n = k := by
  have hn : n ≠ 0 := by
    have : 0 < 2 ^ (k - 1) := Nat.two_pow_pos _
    omega
  unfold bitLen
  rw [if_neg hn]
  obtain ⟨j, rfl⟩ : ∃ j, k = j + 1 := ⟨k - 1, by omega⟩
  rw [(Nat.log2_eq_iff hn).2 ⟨by simpa using h1, h2⟩]

theorem mul_bounds_of_top_bits {P Q k : ℕ} (hk : 2 ≤ k) (hP : 3 * 2 ^ (k - 2) ≤ P) (hP' : P < 2 ^ k)
    (hQ : 3 * 2 ^ (k - 2) ≤ Q) (hQ' : Q < 2 ^ k) :
    2 ^ (2 * k - 1) ≤ P * Q ∧ P * Q < 2 ^ (2 * k) := by
  obtain ⟨j, rfl⟩ : ∃ j, k = j + 2 := ⟨k - 2, by omega⟩
  simp only [Nat.add_sub_cancel] at hP hQ
  have e1 : 2 ^ (2 * (j + 2) - 1) = 8 * (2 ^ j * 2 ^ j) := by
    rw [show 2 * (j + 2) - 1 = j + j + 3 by omega, pow_add, pow_add]; ring
  have e2 : 2 ^ (2 * (j + 2)) = 2 ^ (j + 2) * 2 ^ (j + 2) := by
    rw [← pow_add]; congr 1; omega
  constructor
  · have h := Nat.mul_le_mul hP hQ
    have e : 3 * 2 ^ j * (3 * 2 ^ j) = 9 * (2 ^ j * 2 ^ j) := by ring
    rw [e1]; rw [e] at h
    generalize 2 ^ j * 2 ^ j = t at h ⊢
    omega
  · rw [e2]; exact Nat.mul_lt_mul'' hP' hQ'

end TssVerif.PaillierL
