import TssVerif.Core.BlameSg
import TssVerif.Lemmas.C05Ec
/-! Helper lemmas for `TssVerif/Props/C05d.lean`: what an honest signer of threshold ECDSA checks about its
peers in signing rounds 2, 3, 5 and 7 (`Core/BlameSg.lean`), up to the culprit decision.

* a small generic theory of "every failing peer is named" rounds (`mapM`, then `zip`/`filterMap`): the culprit
  list is `named f bad chk ps`, a filter of the peer list;
* rounds 2 and 3 as instances, the exact pass conditions of `r2Peer` / `r3Peer`;
* rounds 5 and 7 ("first failing peer is named") by recursion on the peer list;
* "not a crash" / "not a reported error" for the four rounds on the current tree. -/
set_option autoImplicit false
set_option linter.unusedSectionVars false
set_option linter.unusedVariables false
namespace TssVerif.C05SgL
open TssVerif BlameSg Zk C05L C06L

/-! ## generic: `mapM` a per-peer check, then name every peer whose verdict is bad -/
section generic
variable {α β γ : Type}

/-- the per-peer check returned a verdict and the verdict is a bad one -/
def flagged (bad : β → Bool) : Outcome β → Bool
  | .ok v => bad v
  | _ => false

theorem flagged_iff (bad : β → Bool) (o : Outcome β) : flagged bad o = true ↔ ∃ v, o = .ok v ∧ bad v = true := by
  cases o with
  | ok v => simp [flagged]
  | err e => simp [flagged]
  | panic e => simp [flagged]

/-- the culprit list of such a round: the indices of the flagged peers, in peer order -/
def named (f : α → Nat) (bad : β → Bool) (chk : α → Outcome β) (ps : List α) : List Nat :=
  (ps.filter fun p => flagged bad (chk p)).map f

theorem zip_filterMap_eq_named (f : α → Nat) (bad : β → Bool) (chk : α → Outcome β) (ps : List α) (vs : List β)
    (h : List.Forall₂ (fun p v => chk p = .ok v) ps vs) :
    ((ps.zip vs).filterMap fun pv => if bad pv.2 then some (f pv.1) else none) = named f bad chk ps := by
  unfold named
  induction h with
  | nil => rfl
  | @cons p v ps vs h1 _ ih =>
    rw [List.zip_cons_cons, List.filterMap_cons, List.filter_cons, h1]
    have hb : flagged bad (Outcome.ok v) = bad v := rfl
    rw [hb]
    cases hv : bad v
    · simp only [Bool.false_eq_true, if_false]
      exact ih
    · simp only [if_true, List.map_cons]
      rw [← ih]

theorem mapM_bind_ok_iff (chk : α → Outcome β) (ps : List α) (g : List β → γ) (r : γ) :
    (ps.mapM chk >>= fun vs => Outcome.ok (g vs)) = .ok r ↔
      ∃ vs, List.Forall₂ (fun p v => chk p = .ok v) ps vs ∧ r = g vs := by
  cases hm : ps.mapM chk with
  | err e =>
    simp only [Outcome.err_bind]
    constructor
    · intro h; cases h
    · rintro ⟨vs, hvs, _⟩
      rw [(mapM_ok_iff chk ps vs).2 hvs] at hm; cases hm
  | panic e =>
    simp only [Outcome.panic_bind]
    constructor
    · intro h; cases h
    · rintro ⟨vs, hvs, _⟩
      rw [(mapM_ok_iff chk ps vs).2 hvs] at hm; cases hm
  | ok vs =>
    simp only [Outcome.ok_bind]
    constructor
    · intro h; injection h with h
      exact ⟨vs, (mapM_ok_iff chk ps vs).1 hm, h.symm⟩
    · rintro ⟨ws, hws, rfl⟩
      rw [(mapM_ok_iff chk ps ws).2 hws] at hm
      injection hm with hm
      rw [hm]

theorem forall₂_left {R : α → β → Prop} {l : List α} {vs : List β} (h : List.Forall₂ R l vs) :
    ∀ a ∈ l, ∃ v, R a v := by
  induction h with
  | nil => intro a ha; cases ha
  | cons h1 _ ih =>
    intro a ha
    rcases List.mem_cons.1 ha with rfl | ha
    · exact ⟨_, h1⟩
    · exact ih a ha

theorem forall₂_length {R : α → β → Prop} {l : List α} {vs : List β} (h : List.Forall₂ R l vs) :
    vs.length = l.length := by
  induction h with
  | nil => rfl
  | cons _ _ ih => simp [ih]

theorem mem_named (f : α → Nat) (bad : β → Bool) (chk : α → Outcome β) (ps : List α) (j : Nat) :
    j ∈ named f bad chk ps ↔ ∃ p ∈ ps, f p = j ∧ ∃ v, chk p = .ok v ∧ bad v = true := by
  unfold named
  rw [List.mem_map]
  constructor
  · rintro ⟨p, hp, rfl⟩
    obtain ⟨hp1, hp2⟩ := List.mem_filter.1 hp
    exact ⟨p, hp1, rfl, (flagged_iff bad _).1 hp2⟩
  · rintro ⟨p, hp, rfl, hv⟩
    exact ⟨p, List.mem_filter.2 ⟨hp, (flagged_iff bad _).2 hv⟩, rfl⟩

theorem named_sublist (f : α → Nat) (bad : β → Bool) (chk : α → Outcome β) (ps : List α) :
    (named f bad chk ps).Sublist (ps.map f) :=
  (List.filter_sublist).map _

theorem named_eq_nil_iff (f : α → Nat) (bad : β → Bool) (chk : α → Outcome β) (ps : List α) :
    named f bad chk ps = [] ↔ ∀ p ∈ ps, flagged bad (chk p) = false := by
  unfold named
  rw [List.map_eq_nil_iff, List.filter_eq_nil_iff]
  constructor
  · intro h p hp; simpa using h p hp
  · intro h p hp; simp [h p hp]

theorem named_subset_dev (f : α → Nat) (bad : β → Bool) (chk : α → Outcome β) (ps : List α) (dev : Nat)
    (hothers : ∀ p ∈ ps, f p ≠ dev → flagged bad (chk p) = false) : ∀ c ∈ named f bad chk ps, c = dev := by
  intro c hc
  obtain ⟨p, hp, rfl, hv⟩ := (mem_named f bad chk ps c).1 hc
  by_contra hne
  have := hothers p hp hne
  rw [(flagged_iff bad _).2 hv] at this
  cases this

theorem named_eq_singleton (f : α → Nat) (bad : β → Bool) (chk : α → Outcome β) (ps : List α) (dev : Nat)
    (hothers : ∀ p ∈ ps, f p ≠ dev → flagged bad (chk p) = false) (hnd : (ps.map f).Nodup)
    (d : α) (hd : d ∈ ps) (hdev : f d = dev) (hbad : flagged bad (chk d) = true) :
    named f bad chk ps = [dev] := by
  refine eq_singleton_of_nodup (hnd.sublist (named_sublist f bad chk ps)) ?_
    (named_subset_dev f bad chk ps dev hothers)
  exact (mem_named f bad chk ps dev).2 ⟨d, hd, hdev, (flagged_iff bad _).1 hbad⟩

theorem named_single_deviator (f : α → Nat) (bad : β → Bool) (chk : α → Outcome β) (ps : List α) (dev : Nat)
    (hothers : ∀ p ∈ ps, f p ≠ dev → flagged bad (chk p) = false) :
    (∀ c ∈ named f bad chk ps, c = dev) ∧
    ((ps.map f).Nodup →
      (named f bad chk ps = [dev] ↔ ∃ d ∈ ps, f d = dev ∧ flagged bad (chk d) = true)) := by
  refine ⟨named_subset_dev f bad chk ps dev hothers, fun hnd => ⟨fun h => ?_, ?_⟩⟩
  · have hm : dev ∈ named f bad chk ps := by rw [h]; exact List.mem_cons_self ..
    obtain ⟨d, hd, hdev, hv⟩ := (mem_named f bad chk ps dev).1 hm
    exact ⟨d, hd, hdev, (flagged_iff bad _).2 hv⟩
  · rintro ⟨d, hd, hdev, hbad⟩
    exact named_eq_singleton f bad chk ps dev hothers hnd d hd hdev hbad

theorem eq_of_nodup_map' (f : α → Nat) {l : List α} (hnd : (l.map f).Nodup) {a b : α}
    (ha : a ∈ l) (hb : b ∈ l) (h : f a = f b) : a = b := by
  induction l with
  | nil => cases ha
  | cons x l ih =>
    rw [List.map_cons, List.nodup_cons] at hnd
    rcases List.mem_cons.1 ha with ha1 | ha1 <;> rcases List.mem_cons.1 hb with hb1 | hb1
    · rw [ha1, hb1]
    · have : f x ∈ l.map f := List.mem_map.2 ⟨b, hb1, by rw [← h, ha1]⟩
      exact absurd this hnd.1
    · have : f x ∈ l.map f := List.mem_map.2 ⟨a, ha1, by rw [h, hb1]⟩
      exact absurd this hnd.1
    · exact ih hnd.2 ha1 hb1

end generic

/-! ## round 2 -/
section r2
variable {P : Type} (C : Curve P) (H : HashFn) (cfg : Cfg) (own : Mta.RP)

/-- "this peer failed": the verdict is `false` -/
abbrev bad2 : Bool → Bool := fun ok => !ok

theorem round2_eq (peers : List R1Peer) :
    round2 C H cfg own peers =
      (peers.mapM (r2Peer C H cfg own) >>= fun vs =>
        Outcome.ok ((peers.zip vs).filterMap fun pv => if bad2 pv.2 then some pv.1.idx else none)) := by
  unfold round2
  congr 1
  funext vs
  congr 2
  funext ⟨p, ok⟩
  cases ok <;> rfl

theorem round2_ok_iff (peers : List R1Peer) (cs : List Nat) :
    round2 C H cfg own peers = .ok cs ↔
      (∀ p ∈ peers, ∃ v, r2Peer C H cfg own p = .ok v) ∧
      cs = named (·.idx) bad2 (r2Peer C H cfg own) peers := by
  rw [round2_eq, mapM_bind_ok_iff]
  constructor
  · rintro ⟨vs, hvs, rfl⟩
    exact ⟨forall₂_left hvs, zip_filterMap_eq_named _ _ _ _ _ hvs⟩
  · rintro ⟨hall, rfl⟩
    obtain ⟨vs, hvs⟩ := mapM_total _ peers hall
    have hvs' := (mapM_ok_iff _ _ _).1 hvs
    exact ⟨vs, hvs', (zip_filterMap_eq_named _ _ _ _ _ hvs').symm⟩

theorem flagged_bad2_iff (o : Outcome Bool) : flagged bad2 o = true ↔ o = .ok false := by
  rw [flagged_iff]
  constructor
  · rintro ⟨v, rfl, hv⟩
    cases v
    · rfl
    · cases hv
  · intro h; exact ⟨false, h, rfl⟩

theorem flagged_bad2_of_true {o : Outcome Bool} (h : o = .ok true) : flagged bad2 o = false := by
  rw [h]; rfl

/-- exact pass condition of the per-peer check -/
theorem r2Peer_true_iff' (p : R1Peer) :
    r2Peer C H cfg own p = .ok true ↔
      ∃ pf, rangeFromBytes p.proof = some pf ∧
        rangeVerify cfg H C.q p.nA own.ntilde own.h1 own.h2 p.cA pf = .ok true ∧
        0 < p.nA ∧ p.cA < p.nA * p.nA := by
  unfold r2Peer
  cases hd : rangeFromBytes p.proof with
  | none =>
    simp only
    constructor
    · intro h; cases h
    · rintro ⟨pf, h, _⟩; cases h
  | some pf =>
    simp only
    cases hv : rangeVerify cfg H C.q p.nA own.ntilde own.h1 own.h2 p.cA pf with
    | err e =>
      simp only [Outcome.err_bind]
      constructor
      · intro h; cases h
      · rintro ⟨pf', h, h2, _⟩
        injection h with h; subst h; rw [hv] at h2; cases h2
    | panic e =>
      simp only [Outcome.panic_bind]
      constructor
      · intro h; cases h
      · rintro ⟨pf', h, h2, _⟩
        injection h with h; subst h; rw [hv] at h2; cases h2
    | ok b =>
      simp only [Outcome.ok_bind]
      cases b with
      | false =>
        simp only [Bool.not_false, if_true]
        constructor
        · intro h; cases h
        · rintro ⟨pf', h, h2, _⟩
          injection h with h; subst h; rw [hv] at h2; cases h2
      | true =>
        simp only [Bool.not_true, Bool.false_eq_true, if_false]
        unfold Paillier.homoMult Paillier.nSquare
        by_cases h1 : (0 : Int) < 0 ∨ (0 : Int) ≥ (p.nA : Int)
        · rw [if_pos h1]
          constructor
          · intro h; cases h
          · rintro ⟨_, _, _, h3, _⟩; omega
        · rw [if_neg h1]
          simp only
          by_cases h2 : ((p.cA : Nat) : Int) < 0 ∨ ((p.cA : Nat) : Int) ≥ ((p.nA * p.nA : Nat) : Int)
          · rw [if_pos h2]
            constructor
            · intro h; cases h
            · rintro ⟨_, _, _, _, h4⟩; omega
          · rw [if_neg h2]
            constructor
            · intro _; exact ⟨pf, rfl, hv, by omega, by omega⟩
            · intro _; rfl

theorem r2Peer_undecodable (p : R1Peer) (h : rangeFromBytes p.proof = none) :
    r2Peer C H cfg own p = .ok false := by
  unfold r2Peer; rw [h]

theorem r2Peer_rejected (p : R1Peer) (pf : RangeProof) (h : rangeFromBytes p.proof = some pf)
    (hv : rangeVerify cfg H C.q p.nA own.ntilde own.h1 own.h2 p.cA pf = .ok false) :
    r2Peer C H cfg own p = .ok false := by
  unfold r2Peer; rw [h]; simp only [hv, Outcome.ok_bind]; rfl

theorem r2Peer_bad_ciphertext (p : R1Peer) (pf : RangeProof) (h : rangeFromBytes p.proof = some pf)
    (hv : rangeVerify cfg H C.q p.nA own.ntilde own.h1 own.h2 p.cA pf = .ok true)
    (hc : p.nA = 0 ∨ p.nA * p.nA ≤ p.cA) :
    r2Peer C H cfg own p = .ok false := by
  unfold r2Peer; rw [h]; simp only [hv, Outcome.ok_bind]
  simp only [Bool.not_true, Bool.false_eq_true, if_false]
  unfold Paillier.homoMult Paillier.nSquare
  by_cases h1 : (0 : Int) < 0 ∨ (0 : Int) ≥ (p.nA : Int)
  · rw [if_pos h1]
  · rw [if_neg h1]
    simp only
    have h2 : ((p.cA : Nat) : Int) < 0 ∨ ((p.cA : Nat) : Int) ≥ ((p.nA * p.nA : Nat) : Int) := by
      rcases hc with hc | hc
      · omega
      · right; exact_mod_cast hc
    rw [if_pos h2]

end r2

/-! ## round 3 -/
section r3
variable {P : Type} (C : Curve P) (H : HashFn) (cfg : Cfg) (ssid : Bytes) (sk : Paillier.PrivateKey) (own : Mta.RP)

/-- "this peer failed": no pair of shares -/
abbrev bad3 : Option (Nat × Nat) → Bool := fun v => v.isNone

/-- the `AliceEnd` step of `r3Peer` -/
def stepA (p : R2Peer) : Outcome (Option Nat) :=
  match bobFromBytes p.proofBob with
  | none => .ok none
  | some pf => aliceStep C H cfg (Blame.contextJ ssid p.idx) sk own p.ownCA p.c1 pf none

/-- the `AliceEndWC` step of `r3Peer` -/
def stepW (p : R2Peer) : Outcome (Option Nat) :=
  bobWCFromBytes C p.proofBobWC >>= fun r =>
    match r with
    | none => .ok none
    | some (pf, uPt) => aliceStep C H cfg (Blame.contextJ ssid p.idx) sk own p.ownCA p.c2 pf (some (p.bigW, uPt))

def pair3 : Option Nat → Option Nat → Option (Nat × Nat)
  | some a, some u => some (a, u)
  | _, _ => none

theorem r3Peer_eq (p : R2Peer) :
    r3Peer C H cfg ssid sk own p =
      (stepA C H cfg ssid sk own p >>= fun a => stepW C H cfg ssid sk own p >>= fun u => .ok (pair3 a u)) := by
  have hp : ∀ (a : Option Nat) (o : Outcome (Option Nat)),
      (o >>= fun u => (match a, u with
        | some a, some u => Outcome.ok (some (a, u))
        | _, _ => Outcome.ok none : Outcome (Option (Nat × Nat)))) = (o >>= fun u => .ok (pair3 a u)) := by
    intro a o
    congr 1
    funext u
    cases a <;> cases u <;> rfl
  have hW : ∀ a : Option Nat,
      (bobWCFromBytes C p.proofBobWC >>= fun r =>
        (match r with
          | none => (Outcome.ok none : Outcome (Option Nat))
          | some (pf, uPt) =>
            aliceStep C H cfg (Blame.contextJ ssid p.idx) sk own p.ownCA p.c2 pf (some (p.bigW, uPt))) >>=
          fun u => (Outcome.ok (pair3 a u) : Outcome (Option (Nat × Nat)))) =
      (stepW C H cfg ssid sk own p >>= fun u => .ok (pair3 a u)) := by
    intro a
    unfold stepW
    cases bobWCFromBytes C p.proofBobWC <;> rfl
  unfold r3Peer stepA
  dsimp only
  cases bobFromBytes p.proofBob with
  | none =>
    simp only [Outcome.ok_bind]
    rw [← hW]
    congr 1
    funext r
    rcases r with _ | ⟨pf, uPt⟩
    · simp only [Outcome.ok_bind]; rfl
    · dsimp only
      cases aliceStep C H cfg (Blame.contextJ ssid p.idx) sk own p.ownCA p.c2 pf (some (p.bigW, uPt)) with
      | err e => rfl
      | panic e => rfl
      | ok u => cases u <;> rfl
  | some pf1 =>
    simp only
    cases aliceStep C H cfg (Blame.contextJ ssid p.idx) sk own p.ownCA p.c1 pf1 none with
    | err e => rfl
    | panic e => rfl
    | ok a =>
      simp only [Outcome.ok_bind]
      rw [← hW]
      congr 1
      funext r
      rcases r with _ | ⟨pf, uPt⟩
      · simp only [Outcome.ok_bind]; cases a <;> rfl
      · dsimp only
        exact hp _ _

theorem aliceStep_some_iff (sess : Bytes) (cA cB : Nat) (pf : BobProof) (xu : Option (ECPoint × ECPoint)) (a : Nat) :
    aliceStep C H cfg sess sk own cA cB pf xu = .ok (some a) ↔
      Mta.aliceEnd C H cfg sess sk pf own cA cB xu = .ok a := by
  unfold aliceStep
  cases h : Mta.aliceEnd C H cfg sess sk pf own cA cB xu with
  | ok b => simp
  | err e => simp
  | panic e => simp

theorem aliceStep_none_iff (sess : Bytes) (cA cB : Nat) (pf : BobProof) (xu : Option (ECPoint × ECPoint)) :
    aliceStep C H cfg sess sk own cA cB pf xu = .ok none ↔
      ∃ e, Mta.aliceEnd C H cfg sess sk pf own cA cB xu = .err e := by
  unfold aliceStep
  cases h : Mta.aliceEnd C H cfg sess sk pf own cA cB xu with
  | ok b => simp
  | err e => simp
  | panic e => simp

theorem aliceEnd_ok_bob (sess : Bytes) (pf : BobProof) (cA cB : Nat) (xu : Option (ECPoint × ECPoint)) (a : Nat)
    (h : Mta.aliceEnd C H cfg sess sk pf own cA cB xu = .ok a) :
    bobVerify C H cfg sess sk.n own.ntilde own.h1 own.h2 cA cB pf xu = .ok true ∧
      ∃ m, Paillier.decrypt sk cB = .ok m ∧ a = m % C.q := by
  unfold Mta.aliceEnd at h
  cases hb : bobVerify C H cfg sess sk.n own.ntilde own.h1 own.h2 cA cB pf xu with
  | err e => rw [hb] at h; cases h
  | panic e => rw [hb] at h; cases h
  | ok b =>
    rw [hb] at h
    simp only [Outcome.ok_bind] at h
    cases b with
    | false => cases h
    | true =>
      refine ⟨rfl, ?_⟩
      simp only [Bool.not_true, Bool.false_eq_true, if_false] at h
      cases hd : Paillier.decrypt sk cB with
      | err e => rw [hd] at h; cases h
      | panic e => rw [hd] at h; cases h
      | ok m => rw [hd] at h; injection h with h; exact ⟨m, rfl, h.symm⟩

theorem stepA_some_iff (p : R2Peer) (a : Nat) :
    stepA C H cfg ssid sk own p = .ok (some a) ↔
      ∃ pf, bobFromBytes p.proofBob = some pf ∧
        Mta.aliceEnd C H cfg (Blame.contextJ ssid p.idx) sk pf own p.ownCA p.c1 none = .ok a := by
  unfold stepA
  cases h : bobFromBytes p.proofBob with
  | none => simp
  | some pf => simp [aliceStep_some_iff]

theorem stepW_some_iff (p : R2Peer) (u : Nat) :
    stepW C H cfg ssid sk own p = .ok (some u) ↔
      ∃ pf uPt, bobWCFromBytes C p.proofBobWC = .ok (some (pf, uPt)) ∧
        Mta.aliceEnd C H cfg (Blame.contextJ ssid p.idx) sk pf own p.ownCA p.c2 (some (p.bigW, uPt)) = .ok u := by
  unfold stepW
  cases h : bobWCFromBytes C p.proofBobWC with
  | err e => simp
  | panic e => simp
  | ok r =>
    cases r with
    | none => simp
    | some pu =>
      obtain ⟨pf, uPt⟩ := pu
      simp only [Outcome.ok_bind, aliceStep_some_iff]
      constructor
      · intro h'; exact ⟨pf, uPt, rfl, h'⟩
      · rintro ⟨pf', uPt', he, h'⟩
        injection he with he; injection he with he; injection he with h1 h2
        subst h1; subst h2; exact h'

theorem pair3_eq_some {a u : Option Nat} {x : Nat × Nat} : pair3 a u = some x ↔ a = some x.1 ∧ u = some x.2 := by
  obtain ⟨x1, x2⟩ := x
  cases a <;> cases u <;> simp [pair3]

theorem r3Peer_some_iff_steps (p : R2Peer) (x : Nat × Nat) :
    r3Peer C H cfg ssid sk own p = .ok (some x) ↔
      stepA C H cfg ssid sk own p = .ok (some x.1) ∧ stepW C H cfg ssid sk own p = .ok (some x.2) := by
  rw [r3Peer_eq]
  cases ha : stepA C H cfg ssid sk own p with
  | err e => simp
  | panic e => simp
  | ok a =>
    cases hu : stepW C H cfg ssid sk own p with
    | err e => simp
    | panic e => simp
    | ok u => simp [pair3_eq_some]

theorem r3Peer_some_iff' (p : R2Peer) (a u : Nat) :
    r3Peer C H cfg ssid sk own p = .ok (some (a, u)) ↔
      ∃ pf1 pf2 uPt, bobFromBytes p.proofBob = some pf1 ∧
        bobWCFromBytes C p.proofBobWC = .ok (some (pf2, uPt)) ∧
        Mta.aliceEnd C H cfg (Blame.contextJ ssid p.idx) sk pf1 own p.ownCA p.c1 none = .ok a ∧
        Mta.aliceEnd C H cfg (Blame.contextJ ssid p.idx) sk pf2 own p.ownCA p.c2 (some (p.bigW, uPt)) = .ok u := by
  rw [r3Peer_some_iff_steps, stepA_some_iff, stepW_some_iff]
  constructor
  · rintro ⟨⟨pf1, h1, h2⟩, pf2, uPt, h3, h4⟩
    exact ⟨pf1, pf2, uPt, h1, h3, h2, h4⟩
  · rintro ⟨pf1, pf2, uPt, h1, h3, h2, h4⟩
    exact ⟨⟨pf1, h1, h2⟩, pf2, uPt, h3, h4⟩

/-- a failed step makes the verdict `none`, provided the check returns at all -/
theorem r3Peer_none_of_stepA (p : R2Peer) (h : stepA C H cfg ssid sk own p = .ok none)
    (v : Option (Nat × Nat)) (hv : r3Peer C H cfg ssid sk own p = .ok v) : v = none := by
  rw [r3Peer_eq, h] at hv
  simp only [Outcome.ok_bind] at hv
  cases hu : stepW C H cfg ssid sk own p with
  | err e => rw [hu] at hv; cases hv
  | panic e => rw [hu] at hv; cases hv
  | ok u => rw [hu] at hv; simp only [Outcome.ok_bind] at hv; injection hv with hv; rw [← hv]; cases u <;> rfl

theorem r3Peer_none_of_stepW (p : R2Peer) (h : stepW C H cfg ssid sk own p = .ok none)
    (v : Option (Nat × Nat)) (hv : r3Peer C H cfg ssid sk own p = .ok v) : v = none := by
  rw [r3Peer_eq, h] at hv
  cases ha : stepA C H cfg ssid sk own p with
  | err e => rw [ha] at hv; cases hv
  | panic e => rw [ha] at hv; cases hv
  | ok a => rw [ha] at hv; simp only [Outcome.ok_bind] at hv; injection hv with hv; rw [← hv]; cases a <;> rfl

/-- the result record of round 3 as a function of the verdict list -/
def result3 (peers : List R2Peer) (vs : List (Option (Nat × Nat))) : R3Result :=
  let culprits := (peers.zip vs).filterMap fun pv => if bad3 pv.2 then some pv.1.idx else none
  ⟨culprits, if culprits.isEmpty then vs.filterMap id else []⟩

theorem round3_eq (peers : List R2Peer) :
    round3 C H cfg ssid sk own peers =
      (peers.mapM (r3Peer C H cfg ssid sk own) >>= fun vs => Outcome.ok (result3 peers vs)) := by
  unfold round3 result3
  congr 1
  funext vs
  have key : ∀ (F G : R2Peer × Option (Nat × Nat) → Option Nat), (∀ x, F x = G x) →
      (Outcome.ok ⟨(peers.zip vs).filterMap F,
        if ((peers.zip vs).filterMap F).isEmpty then vs.filterMap id else []⟩ : Outcome R3Result) =
      Outcome.ok ⟨(peers.zip vs).filterMap G,
        if ((peers.zip vs).filterMap G).isEmpty then vs.filterMap id else []⟩ := by
    intro F G h
    have : F = G := funext h
    rw [this]
  dsimp only
  exact key _ _ (by rintro ⟨p, v⟩; cases v <;> rfl)

theorem round3_ok_iff (peers : List R2Peer) (r : R3Result) :
    round3 C H cfg ssid sk own peers = .ok r ↔
      ∃ vs, List.Forall₂ (fun p v => r3Peer C H cfg ssid sk own p = .ok v) peers vs ∧
        r.culprits = named (·.idx) bad3 (r3Peer C H cfg ssid sk own) peers ∧
        r.shares = if r.culprits.isEmpty then vs.filterMap id else [] := by
  rw [round3_eq, mapM_bind_ok_iff]
  constructor
  · rintro ⟨vs, hvs, rfl⟩
    refine ⟨vs, hvs, zip_filterMap_eq_named _ _ _ _ _ hvs, rfl⟩
  · rintro ⟨vs, hvs, h1, h2⟩
    refine ⟨vs, hvs, ?_⟩
    obtain ⟨c, s⟩ := r
    simp only at h1 h2
    unfold result3
    simp only [zip_filterMap_eq_named _ _ _ _ _ hvs]
    rw [← h1, ← h2]

theorem flagged_bad3_iff (o : Outcome (Option (Nat × Nat))) : flagged bad3 o = true ↔ o = .ok none := by
  rw [flagged_iff]
  constructor
  · rintro ⟨v, rfl, hv⟩
    cases v
    · rfl
    · cases hv
  · intro h; exact ⟨none, h, rfl⟩

theorem flagged_bad3_of_some {o : Outcome (Option (Nat × Nat))} {x : Nat × Nat} (h : o = .ok (some x)) :
    flagged bad3 o = false := by
  rw [h]; rfl

theorem filterMap_id_of_clean {α : Type} (chk : α → Outcome (Option (Nat × Nat))) (ps : List α)
    (vs : List (Option (Nat × Nat))) (h : List.Forall₂ (fun p v => chk p = .ok v) ps vs)
    (hc : ∀ p ∈ ps, flagged bad3 (chk p) = false) :
    List.Forall₂ (fun p s => chk p = .ok (some s)) ps (vs.filterMap id) := by
  induction h with
  | nil => exact List.Forall₂.nil
  | @cons p v ps vs h1 _ ih =>
    have hp := hc p (List.mem_cons_self ..)
    rw [h1] at hp
    cases v with
    | none => cases hp
    | some s =>
      rw [List.filterMap_cons]
      simp only [id]
      exact List.Forall₂.cons h1 (ih fun q hq => hc q (List.mem_cons_of_mem _ hq))

end r3

theorem bind_ok_inv {α β : Type} {x : Outcome α} {f : α → Outcome β} {b : β} (h : (x >>= f) = .ok b) :
    ∃ a, x = .ok a ∧ f a = .ok b := by
  cases x with
  | ok a => exact ⟨a, rfl, h⟩
  | err e => cases h
  | panic e => cases h

theorem length_two {α : Type} {l : List α} (h : l.length = 2) : ∃ x y, l = [x, y] := by
  match l, h with
  | [x, y], _ => exact ⟨x, y, rfl⟩

theorem length_four {α : Type} {l : List α} (h : l.length = 4) : ∃ a b c d, l = [a, b, c, d] := by
  match l, h with
  | [a, b, c, d], _ => exact ⟨a, b, c, d, rfl⟩

/-! ## round 5 -/
section r5
variable {P : Type} (C : Curve P) (H : HashFn) (cfg : Cfg) (ssid : Bytes)

macro "fail_leaf " h:ident : tactic =>
  `(tactic| (injection $h with $h; injection $h with _ $h; exact ($h).symm))

theorem r5Peer_fail_idx (p : R4Peer) (why : String) (c : Nat)
    (h : r5Peer C H cfg ssid p = .ok (.fail why c)) : c = p.idx := by
  unfold r5Peer at h
  split at h
  · cases h
  · cases h
  · fail_leaf h
  · split at h
    · fail_leaf h
    · split at h
      · fail_leaf h
      · split at h
        · fail_leaf h
        · obtain ⟨b, _, hb⟩ := bind_ok_inv h
          split at hb
          · fail_leaf hb
          · cases hb

theorem r5Peer_pass_iff' (p : R4Peer) (g : ECPoint) :
    r5Peer C H cfg ssid p = .ok (.pass g) ↔
      ∃ x y al, decommitWith H p.commitment (p.decommitment.map Int.ofNat) = .ok (some [x, y]) ∧
        C.ecNew x.toNat y.toNat = some g ∧ C.ecNew p.alpha.1 p.alpha.2 = some al ∧
        schnorrVerify C H cfg (Blame.contextJ ssid p.idx) g al p.t = .ok true := by
  constructor
  · intro h
    unfold r5Peer at h
    split at h
    · cases h
    · cases h
    · cases h
    · rename_i coords hd
      split at h
      · cases h
      · rename_i hl
        split at h
        · cases h
        · rename_i g' hg
          split at h
          · cases h
          · rename_i al hal
            obtain ⟨b, hs, hb⟩ := bind_ok_inv h
            cases b with
            | false => cases hb
            | true =>
              injection hb with hb; injection hb with hb
              subst hb
              obtain ⟨x, y, rfl⟩ := length_two (l := coords) (by simpa using hl)
              exact ⟨x, y, al, hd, hg, hal, hs⟩
  · rintro ⟨x, y, al, hd, hg, hal, hs⟩
    unfold r5Peer
    rw [hd]
    simp only [List.length_cons, List.length_nil, List.getD_cons_zero, List.getD_cons_succ]
    rw [hg, hal]
    simp only [hs, Outcome.ok_bind]
    rfl


theorem r5Peer_bad_decommit (p : R4Peer)
    (h : decommitWith H p.commitment (p.decommitment.map Int.ofNat) = .ok none) :
    r5Peer C H cfg ssid p = .ok (.fail "commitment verify failed" p.idx) := by
  unfold r5Peer; rw [h]

theorem r5Peer_bad_point (p : R4Peer) (x y : Int)
    (hd : decommitWith H p.commitment (p.decommitment.map Int.ofNat) = .ok (some [x, y]))
    (hg : C.ecNew x.toNat y.toNat = none) :
    r5Peer C H cfg ssid p = .ok (.fail "NewECPoint(bigGammaJ)" p.idx) := by
  unfold r5Peer; rw [hd]
  simp only [List.length_cons, List.length_nil, List.getD_cons_zero, List.getD_cons_succ]
  rw [hg]; rfl

theorem r5Peer_bad_proof (p : R4Peer) (x y : Int) (g al : ECPoint)
    (hd : decommitWith H p.commitment (p.decommitment.map Int.ofNat) = .ok (some [x, y]))
    (hg : C.ecNew x.toNat y.toNat = some g) (hal : C.ecNew p.alpha.1 p.alpha.2 = some al)
    (hs : schnorrVerify C H cfg (Blame.contextJ ssid p.idx) g al p.t = .ok false) :
    r5Peer C H cfg ssid p = .ok (.fail "failed to prove bigGamma" p.idx) := by
  unfold r5Peer; rw [hd]
  simp only [List.length_cons, List.length_nil, List.getD_cons_zero, List.getD_cons_succ]
  rw [hg, hal]
  simp only [hs, Outcome.ok_bind]
  rfl

theorem round5_nil (g0 : ECPoint) : round5 C H cfg ssid g0 [] = .ok (.pass g0) := by
  unfold round5; rfl

theorem round5_cons_fail (g0 : ECPoint) (p : R4Peer) (rest : List R4Peer) (why : String) (c : Nat)
    (h : r5Peer C H cfg ssid p = .ok (.fail why c)) :
    round5 C H cfg ssid g0 (p :: rest) = .ok (.fail why c) := by
  rw [round5, h]; rfl

theorem round5_cons_pass_ok (g0 : ECPoint) (p : R4Peer) (rest : List R4Peer) (g r : ECPoint)
    (h : r5Peer C H cfg ssid p = .ok (.pass g)) (ha : C.ecAdd g0 g = .ok r) :
    round5 C H cfg ssid g0 (p :: rest) = round5 C H cfg ssid r rest := by
  rw [round5, h]; simp only [Outcome.ok_bind]; rw [ha]

theorem round5_cons_pass_err (g0 : ECPoint) (p : R4Peer) (rest : List R4Peer) (g : ECPoint) (e : String)
    (h : r5Peer C H cfg ssid p = .ok (.pass g)) (ha : C.ecAdd g0 g = .err e) :
    round5 C H cfg ssid g0 (p :: rest) = .ok (.fail "R.Add(bigGammaJ)" p.idx) := by
  rw [round5, h]; simp only [Outcome.ok_bind]; rw [ha]

theorem round5_cons_inv (g0 : ECPoint) (p : R4Peer) (rest : List R4Peer) (v : Res ECPoint)
    (h : round5 C H cfg ssid g0 (p :: rest) = .ok v) :
    (∃ why c, r5Peer C H cfg ssid p = .ok (.fail why c) ∧ v = .fail why c) ∨
    ∃ g, r5Peer C H cfg ssid p = .ok (.pass g) ∧
      ((∃ r, C.ecAdd g0 g = .ok r ∧ round5 C H cfg ssid r rest = .ok v) ∨
        (∃ e, C.ecAdd g0 g = .err e ∧ v = .fail "R.Add(bigGammaJ)" p.idx)) := by
  rw [round5] at h
  obtain ⟨res, hr, h⟩ := bind_ok_inv h
  cases res with
  | fail why c =>
    left
    injection h with h
    exact ⟨why, c, hr, h.symm⟩
  | pass g =>
    right
    refine ⟨g, hr, ?_⟩
    simp only at h
    cases ha : C.ecAdd g0 g with
    | ok r => rw [ha] at h; exact Or.inl ⟨r, rfl, h⟩
    | err e => rw [ha] at h; injection h with h; exact Or.inr ⟨e, rfl, h.symm⟩
    | panic e => rw [ha] at h; cases h

theorem foldlM_ecAdd_cons (g0 g : ECPoint) (gs : List ECPoint) :
    (g :: gs).foldlM C.ecAdd g0 = (C.ecAdd g0 g >>= fun r => gs.foldlM C.ecAdd r) := by
  rw [List.foldlM_cons]

/-- **first failing peer**: exact characterisation of a failure of round 5 -/
theorem round5_fail_iff (peers : List R4Peer) : ∀ (g0 : ECPoint) (why : String) (c : Nat),
    round5 C H cfg ssid g0 peers = .ok (.fail why c) ↔
      ∃ pre p post gs acc, peers = pre ++ p :: post ∧
        List.Forall₂ (fun q g => r5Peer C H cfg ssid q = .ok (.pass g)) pre gs ∧
        gs.foldlM C.ecAdd g0 = .ok acc ∧ p.idx = c ∧
        (r5Peer C H cfg ssid p = .ok (.fail why c) ∨
          ∃ g e, r5Peer C H cfg ssid p = .ok (.pass g) ∧ C.ecAdd acc g = .err e ∧ why = "R.Add(bigGammaJ)") := by
  induction peers with
  | nil =>
    intro g0 why c
    rw [round5_nil]
    constructor
    · intro h; cases h
    · rintro ⟨pre, p, post, _, _, h, _⟩
      cases pre <;> cases h
  | cons p rest ih =>
    intro g0 why c
    constructor
    · intro h
      rcases round5_cons_inv C H cfg ssid g0 p rest _ h with ⟨w, c', hp, hv⟩ | ⟨g, hp, ⟨r, ha, hr⟩ | ⟨e, ha, hv⟩⟩
      · injection hv with h1 h2
        subst h1; subst h2
        exact ⟨[], p, rest, [], g0, rfl, List.Forall₂.nil, rfl,
          (r5Peer_fail_idx C H cfg ssid p _ _ hp).symm, Or.inl hp⟩
      · obtain ⟨pre, q, post, gs, acc, hsplit, hpre, hfold, hidx, hq⟩ := (ih r why c).1 hr
        refine ⟨p :: pre, q, post, g :: gs, acc, by rw [hsplit]; rfl, List.Forall₂.cons hp hpre, ?_, hidx, hq⟩
        rw [foldlM_ecAdd_cons, ha]; exact hfold
      · injection hv with h1 h2
        subst h1; subst h2
        exact ⟨[], p, rest, [], g0, rfl, List.Forall₂.nil, rfl, rfl, Or.inr ⟨g, e, hp, ha, rfl⟩⟩
    · rintro ⟨pre, q, post, gs, acc, hsplit, hpre, hfold, hidx, hq⟩
      cases hpre with
      | nil =>
        injection hsplit with h1 h2
        subst h1; subst h2
        injection hfold with hfold
        subst hfold
        rcases hq with hq | ⟨g, e, hq, ha, rfl⟩
        · exact round5_cons_fail C H cfg ssid g0 p rest why c hq
        · rw [round5_cons_pass_err C H cfg ssid g0 p rest g e hq ha, hidx]
      | @cons p' g pre' gs' hp hpre' =>
        injection hsplit with h1 h2
        subst h1
        rw [foldlM_ecAdd_cons] at hfold
        obtain ⟨r, ha, hfold'⟩ := bind_ok_inv hfold
        rw [round5_cons_pass_ok C H cfg ssid g0 p rest g r hp ha]
        exact (ih r why c).2 ⟨pre', q, post, gs', acc, h2, hpre', hfold', hidx, hq⟩

/-- the round passes iff every peer passes and the running sum is representable throughout -/
theorem round5_pass_iff (peers : List R4Peer) : ∀ (g0 r : ECPoint),
    round5 C H cfg ssid g0 peers = .ok (.pass r) ↔
      ∃ gs, List.Forall₂ (fun q g => r5Peer C H cfg ssid q = .ok (.pass g)) peers gs ∧
        gs.foldlM C.ecAdd g0 = .ok r := by
  induction peers with
  | nil =>
    intro g0 r
    rw [round5_nil]
    constructor
    · intro h; injection h with h; injection h with h; subst h
      exact ⟨[], List.Forall₂.nil, rfl⟩
    · rintro ⟨gs, hgs, hf⟩
      cases hgs
      injection hf with hf; rw [hf]
  | cons p rest ih =>
    intro g0 r
    constructor
    · intro h
      rcases round5_cons_inv C H cfg ssid g0 p rest _ h with ⟨w, c', hp, hv⟩ | ⟨g, hp, ⟨r', ha, hr⟩ | ⟨e, ha, hv⟩⟩
      · cases hv
      · obtain ⟨gs, hgs, hf⟩ := (ih r' r).1 hr
        refine ⟨g :: gs, List.Forall₂.cons hp hgs, ?_⟩
        rw [foldlM_ecAdd_cons, ha]; exact hf
      · cases hv
    · rintro ⟨gs, hgs, hf⟩
      cases hgs with
      | @cons _ g _ gs' hp hgs' =>
        rw [foldlM_ecAdd_cons] at hf
        obtain ⟨r', ha, hf'⟩ := bind_ok_inv hf
        rw [round5_cons_pass_ok C H cfg ssid g0 p rest g r' hp ha]
        exact (ih r' r).2 ⟨gs', hgs', hf'⟩


theorem round5_culprit_mem (peers : List R4Peer) (g0 : ECPoint) (why : String) (c : Nat)
    (h : round5 C H cfg ssid g0 peers = .ok (.fail why c)) : ∃ p ∈ peers, p.idx = c := by
  obtain ⟨pre, p, post, _, _, rfl, _, _, hidx, _⟩ := (round5_fail_iff C H cfg ssid peers g0 why c).1 h
  exact ⟨p, by simp, hidx⟩

/-- others pass and their additions are representable: a failure names `dev` -/
theorem round5_single_deviator (peers : List R4Peer) (g0 : ECPoint) (dev : Nat)
    (hothers : ∀ p ∈ peers, p.idx ≠ dev → ∃ g, r5Peer C H cfg ssid p = .ok (.pass g))
    (hadd : ∀ pre p post gs acc g, peers = pre ++ p :: post → p.idx ≠ dev →
      List.Forall₂ (fun q g => r5Peer C H cfg ssid q = .ok (.pass g)) pre gs →
      gs.foldlM C.ecAdd g0 = .ok acc → r5Peer C H cfg ssid p = .ok (.pass g) → ∀ e, C.ecAdd acc g ≠ .err e)
    (why : String) (c : Nat) (h : round5 C H cfg ssid g0 peers = .ok (.fail why c)) : c = dev := by
  obtain ⟨pre, p, post, gs, acc, hsplit, hpre, hfold, hidx, hq⟩ := (round5_fail_iff C H cfg ssid peers g0 why c).1 h
  by_contra hne
  have hpne : p.idx ≠ dev := by rw [hidx]; exact hne
  rcases hq with hq | ⟨g, e, hq, ha, _⟩
  · obtain ⟨g, hg⟩ := hothers p (by rw [hsplit]; simp) hpne
    rw [hg] at hq; cases hq
  · exact hadd pre p post gs acc g hsplit hpne hpre hfold hq e ha

/-- … and when `dev`'s own check fails, exactly `dev` is named, with the reason of its check -/
theorem round5_deviator_blamed (peers : List R4Peer) : ∀ (g0 : ECPoint) (d : R4Peer),
    (peers.map (·.idx)).Nodup → d ∈ peers →
    (∀ p ∈ peers, p.idx ≠ d.idx → ∃ g, r5Peer C H cfg ssid p = .ok (.pass g)) →
    (∀ pre p post gs acc g, peers = pre ++ p :: post → p.idx ≠ d.idx →
      List.Forall₂ (fun q g => r5Peer C H cfg ssid q = .ok (.pass g)) pre gs →
      gs.foldlM C.ecAdd g0 = .ok acc → r5Peer C H cfg ssid p = .ok (.pass g) → ∀ e, C.ecAdd acc g ≠ .err e) →
    ∀ (why : String) (c : Nat), r5Peer C H cfg ssid d = .ok (.fail why c) →
      round5 C H cfg ssid g0 peers = .ok (.fail why d.idx) := by
  induction peers with
  | nil => intro g0 d _ hd; cases hd
  | cons p rest ih =>
    intro g0 d hnd hd hothers hadd why c hbad
    have hc := r5Peer_fail_idx C H cfg ssid d why c hbad
    by_cases hpd : p = d
    · subst hpd
      rw [← hc]
      exact round5_cons_fail C H cfg ssid g0 p rest why c hbad
    · have hdr : d ∈ rest := by
        rcases List.mem_cons.1 hd with h | h
        · exact absurd h.symm hpd
        · exact h
      rw [List.map_cons, List.nodup_cons] at hnd
      have hne : p.idx ≠ d.idx := fun he => hnd.1 (he ▸ List.mem_map.2 ⟨d, hdr, rfl⟩)
      obtain ⟨g, hg⟩ := hothers p (List.mem_cons_self ..) hne
      have hnoerr := hadd [] p rest [] g0 g rfl hne List.Forall₂.nil rfl hg
      cases ha : C.ecAdd g0 g with
      | err e => exact absurd ha (hnoerr e)
      | panic e => exact absurd ha (ecAdd_noPanic C g0 g e)
      | ok r =>
        rw [round5_cons_pass_ok C H cfg ssid g0 p rest g r hg ha]
        refine ih r d hnd.2 hdr (fun q hq => hothers q (List.mem_cons_of_mem _ hq)) ?_ why c hbad
        intro pre q post gs acc g' hsplit hq hpre hfold hg'
        refine hadd (p :: pre) q post (g :: gs) acc g' (by rw [hsplit]; rfl) hq (List.Forall₂.cons hg hpre) ?_ hg'
        rw [foldlM_ecAdd_cons, ha]; exact hfold

/-- on a lawful curve whose identity has affine coordinates (edwards25519) the sum of two curve points is
always representable -/
theorem ecAdd_ok_of_affine_identity (hC : C.Lawful) (hz : C.toAffine C.zero ≠ none) (a b : ECPoint)
    (ha : C.ecIsOnCurve a = true) (hb : C.ecIsOnCurve b = true) : ∃ r, C.ecAdd a b = .ok r := by
  rcases C17L.ecAdd_cases C a b with ⟨pa, pb, r, _, _, _, h⟩ | ⟨pa, pb, _, _, hn, _⟩ | ⟨hab, _⟩
  · exact ⟨r, h⟩
  · exact absurd (by rw [← hC.toAffine_none _ hn]; exact hn) hz
  · have hl : ∀ c : ECPoint, C.ecIsOnCurve c = (C.lift c).isSome := fun _ => rfl
    rw [hl] at ha hb
    rcases hab with h | h
    · rw [h] at ha; cases ha
    · rw [h] at hb; cases hb

theorem r5Peer_pass_onCurve (p : R4Peer) (g : ECPoint) (h : r5Peer C H cfg ssid p = .ok (.pass g)) :
    C.ecIsOnCurve g = true := by
  obtain ⟨x, y, al, _, hg, _⟩ := (r5Peer_pass_iff' C H cfg ssid p g).1 h
  obtain ⟨h1, h2⟩ := (C17L.ecNew_eq_some_iff C).1 hg
  rw [h2]; exact h1

theorem ecAdd_ok_onCurve (hC : C.Lawful) {a b r : ECPoint} (h : C.ecAdd a b = .ok r) : C.ecIsOnCurve r = true := by
  obtain ⟨pa, pb, _, _, hr⟩ := (C17L.ecAdd_ok_iff C a b r).1 h
  exact onCurve_of_toAffine hC hr

theorem foldlM_ecAdd_onCurve (hC : C.Lawful) : ∀ (gs : List ECPoint) (g0 acc : ECPoint),
    C.ecIsOnCurve g0 = true → gs.foldlM C.ecAdd g0 = .ok acc → C.ecIsOnCurve acc = true := by
  intro gs
  induction gs with
  | nil => intro g0 acc h0 hf; injection hf with hf; rw [← hf]; exact h0
  | cons g gs ih =>
    intro g0 acc h0 hf
    rw [foldlM_ecAdd_cons] at hf
    obtain ⟨r, ha, hf'⟩ := bind_ok_inv hf
    exact ih r acc (ecAdd_ok_onCurve C hC ha) hf'

end r5

/-! ## round 7 -/
section r7
variable {P : Type} (C : Curve P) (H : HashFn) (cfg : Cfg) (ssid : Bytes) (bigR : ECPoint)

/-- the Schnorr proof for `A_j` -/
def okA7 (p : R6Peer) (bigA : ECPoint) : Outcome Bool :=
  match C.ecNew p.alphaA.1 p.alphaA.2 with
  | none => .ok false
  | some al => schnorrVerify C H cfg (Blame.contextJ ssid p.idx) bigA al p.tA

/-- the Schnorr-V proof for `V_j` -/
def okV7 (p : R6Peer) (bigV : ECPoint) : Outcome Bool :=
  match C.ecNew p.alphaV.1 p.alphaV.2 with
  | none => .ok false
  | some al => schnorrVVerify C H cfg (Blame.contextJ ssid p.idx) bigV bigR al p.tV p.uV

/-- what `r7Peer` does once the two points are decoded -/
def r7Tail (p : R6Peer) (bigV bigA : ECPoint) : Outcome (Res (ECPoint × ECPoint)) :=
  okA7 C H cfg ssid p bigA >>= fun okA =>
    if !okA then .ok (.fail "schnorr verify for Aj failed" p.idx) else
    okV7 C H cfg ssid bigR p bigV >>= fun okV =>
      if !okV then .ok (.fail "vverify for Vj failed" p.idx) else .ok (.pass (bigV, bigA))

theorem r7Peer_points (p : R6Peer) (x1 y1 x2 y2 : Int) (bigV bigA : ECPoint)
    (hd : decommitWith H p.commitment (p.decommitment.map Int.ofNat) = .ok (some [x1, y1, x2, y2]))
    (hV : C.ecNew x1.toNat y1.toNat = some bigV) (hA : C.ecNew x2.toNat y2.toNat = some bigA) :
    r7Peer C H cfg ssid bigR p = r7Tail C H cfg ssid bigR p bigV bigA := by
  unfold r7Peer r7Tail okA7 okV7
  rw [hd]
  simp only [List.length_cons, List.length_nil, List.getD_cons_zero, List.getD_cons_succ]
  rw [hV, hA]
  cases C.ecNew p.alphaA.1 p.alphaA.2 <;> cases C.ecNew p.alphaV.1 p.alphaV.2 <;> rfl

theorem r7Tail_fail_idx (p : R6Peer) (bigV bigA : ECPoint) (why : String) (c : Nat)
    (h : r7Tail C H cfg ssid bigR p bigV bigA = .ok (.fail why c)) : c = p.idx := by
  unfold r7Tail at h
  obtain ⟨a, _, h⟩ := bind_ok_inv h
  split at h
  · fail_leaf h
  · obtain ⟨v, _, h⟩ := bind_ok_inv h
    split at h
    · fail_leaf h
    · cases h

theorem r7Tail_pass_iff (p : R6Peer) (bigV bigA : ECPoint) (va : ECPoint × ECPoint) :
    r7Tail C H cfg ssid bigR p bigV bigA = .ok (.pass va) ↔
      va = (bigV, bigA) ∧ okA7 C H cfg ssid p bigA = .ok true ∧ okV7 C H cfg ssid bigR p bigV = .ok true := by
  unfold r7Tail
  constructor
  · intro h
    obtain ⟨a, ha, h⟩ := bind_ok_inv h
    cases a with
    | false => cases h
    | true =>
      obtain ⟨v, hv, h⟩ := bind_ok_inv h
      cases v with
      | false => cases h
      | true =>
        injection h with h; injection h with h
        exact ⟨h.symm, ha, hv⟩
  · rintro ⟨rfl, ha, hv⟩
    rw [ha]; simp only [Outcome.ok_bind]; rw [hv]; rfl

/-- the decoding stages of `r7Peer` -/
theorem r7Peer_cases (p : R6Peer) :
    (∃ e, decommitWith H p.commitment (p.decommitment.map Int.ofNat) = .panic e ∧
      r7Peer C H cfg ssid bigR p = .panic e) ∨
    (∃ e, decommitWith H p.commitment (p.decommitment.map Int.ofNat) = .err e ∧
      r7Peer C H cfg ssid bigR p = .err e) ∨
    (∃ why, r7Peer C H cfg ssid bigR p = .ok (.fail why p.idx)) ∨
    ∃ x1 y1 x2 y2 bigV bigA,
      decommitWith H p.commitment (p.decommitment.map Int.ofNat) = .ok (some [x1, y1, x2, y2]) ∧
      C.ecNew x1.toNat y1.toNat = some bigV ∧ C.ecNew x2.toNat y2.toNat = some bigA := by
  cases hd : decommitWith H p.commitment (p.decommitment.map Int.ofNat) with
  | panic e => left; exact ⟨e, rfl, by unfold r7Peer; rw [hd]⟩
  | err e => right; left; exact ⟨e, rfl, by unfold r7Peer; rw [hd]⟩
  | ok o =>
    cases o with
    | none => right; right; left; exact ⟨_, by unfold r7Peer; rw [hd]⟩
    | some v =>
      by_cases hl : v.length = 4
      · obtain ⟨x1, y1, x2, y2, rfl⟩ := length_four hl
        cases hV : C.ecNew x1.toNat y1.toNat with
        | none =>
          right; right; left
          refine ⟨"NewECPoint(bigVj)", ?_⟩
          unfold r7Peer; rw [hd]
          simp only [List.length_cons, List.length_nil, List.getD_cons_zero, List.getD_cons_succ]
          rw [hV]; rfl
        | some bigV =>
          cases hA : C.ecNew x2.toNat y2.toNat with
          | none =>
            right; right; left
            refine ⟨"NewECPoint(bigAj)", ?_⟩
            unfold r7Peer; rw [hd]
            simp only [List.length_cons, List.length_nil, List.getD_cons_zero, List.getD_cons_succ]
            rw [hV, hA]; rfl
          | some bigA => right; right; right; exact ⟨x1, y1, x2, y2, bigV, bigA, rfl, hV, hA⟩
      · right; right; left
        refine ⟨"de-commitment for bigVj and bigAj failed", ?_⟩
        unfold r7Peer; rw [hd]
        have : (v.length != 4) = true := by simpa using hl
        simp only [this, if_true]

theorem r7Peer_fail_idx (p : R6Peer) (why : String) (c : Nat)
    (h : r7Peer C H cfg ssid bigR p = .ok (.fail why c)) : c = p.idx := by
  rcases r7Peer_cases C H cfg ssid bigR p with ⟨e, _, he⟩ | ⟨e, _, he⟩ | ⟨w, he⟩ | ⟨x1, y1, x2, y2, bigV, bigA, hd, hV, hA⟩
  · rw [he] at h; cases h
  · rw [he] at h; cases h
  · rw [he] at h; fail_leaf h
  · rw [r7Peer_points C H cfg ssid bigR p x1 y1 x2 y2 bigV bigA hd hV hA] at h
    exact r7Tail_fail_idx C H cfg ssid bigR p bigV bigA why c h

theorem r7Peer_pass_iff' (p : R6Peer) (bigV bigA : ECPoint) :
    r7Peer C H cfg ssid bigR p = .ok (.pass (bigV, bigA)) ↔
      ∃ x1 y1 x2 y2 alA alV,
        decommitWith H p.commitment (p.decommitment.map Int.ofNat) = .ok (some [x1, y1, x2, y2]) ∧
        C.ecNew x1.toNat y1.toNat = some bigV ∧ C.ecNew x2.toNat y2.toNat = some bigA ∧
        C.ecNew p.alphaA.1 p.alphaA.2 = some alA ∧
        schnorrVerify C H cfg (Blame.contextJ ssid p.idx) bigA alA p.tA = .ok true ∧
        C.ecNew p.alphaV.1 p.alphaV.2 = some alV ∧
        schnorrVVerify C H cfg (Blame.contextJ ssid p.idx) bigV bigR alV p.tV p.uV = .ok true := by
  constructor
  · intro h
    rcases r7Peer_cases C H cfg ssid bigR p with ⟨e, _, he⟩ | ⟨e, _, he⟩ | ⟨w, he⟩ | ⟨x1, y1, x2, y2, bV, bA, hd, hV, hA⟩
    · rw [he] at h; cases h
    · rw [he] at h; cases h
    · rw [he] at h; cases h
    · rw [r7Peer_points C H cfg ssid bigR p x1 y1 x2 y2 bV bA hd hV hA] at h
      obtain ⟨hva, ha, hv⟩ := (r7Tail_pass_iff C H cfg ssid bigR p bV bA _).1 h
      injection hva with h1 h2
      subst h1; subst h2
      unfold okA7 at ha
      unfold okV7 at hv
      cases hal : C.ecNew p.alphaA.1 p.alphaA.2 with
      | none => rw [hal] at ha; cases ha
      | some alA =>
        cases hvl : C.ecNew p.alphaV.1 p.alphaV.2 with
        | none => rw [hvl] at hv; cases hv
        | some alV =>
          rw [hal] at ha; rw [hvl] at hv
          exact ⟨x1, y1, x2, y2, alA, alV, hd, hV, hA, rfl, ha, rfl, hv⟩
  · rintro ⟨x1, y1, x2, y2, alA, alV, hd, hV, hA, hal, ha, hvl, hv⟩
    rw [r7Peer_points C H cfg ssid bigR p x1 y1 x2 y2 bigV bigA hd hV hA, r7Tail_pass_iff]
    refine ⟨rfl, ?_, ?_⟩
    · unfold okA7; rw [hal]; exact ha
    · unfold okV7; rw [hvl]; exact hv


theorem r7Peer_bad_decommit (p : R6Peer)
    (h : decommitWith H p.commitment (p.decommitment.map Int.ofNat) = .ok none) :
    r7Peer C H cfg ssid bigR p = .ok (.fail "de-commitment for bigVj and bigAj failed" p.idx) := by
  unfold r7Peer; rw [h]

theorem r7Peer_bad_proofA (p : R6Peer) (x1 y1 x2 y2 : Int) (bigV bigA : ECPoint)
    (hd : decommitWith H p.commitment (p.decommitment.map Int.ofNat) = .ok (some [x1, y1, x2, y2]))
    (hV : C.ecNew x1.toNat y1.toNat = some bigV) (hA : C.ecNew x2.toNat y2.toNat = some bigA)
    (hbad : okA7 C H cfg ssid p bigA = .ok false) :
    r7Peer C H cfg ssid bigR p = .ok (.fail "schnorr verify for Aj failed" p.idx) := by
  rw [r7Peer_points C H cfg ssid bigR p x1 y1 x2 y2 bigV bigA hd hV hA]
  unfold r7Tail; rw [hbad]; rfl

theorem r7Peer_bad_proofV (p : R6Peer) (x1 y1 x2 y2 : Int) (bigV bigA : ECPoint)
    (hd : decommitWith H p.commitment (p.decommitment.map Int.ofNat) = .ok (some [x1, y1, x2, y2]))
    (hV : C.ecNew x1.toNat y1.toNat = some bigV) (hA : C.ecNew x2.toNat y2.toNat = some bigA)
    (hok : okA7 C H cfg ssid p bigA = .ok true)
    (hbad : okV7 C H cfg ssid bigR p bigV = .ok false) :
    r7Peer C H cfg ssid bigR p = .ok (.fail "vverify for Vj failed" p.idx) := by
  rw [r7Peer_points C H cfg ssid bigR p x1 y1 x2 y2 bigV bigA hd hV hA]
  unfold r7Tail; rw [hok]; simp only [Outcome.ok_bind]; rw [hbad]; rfl

theorem round7_nil : round7 C H cfg ssid bigR [] = .ok (.pass []) := by
  unfold round7; rfl

theorem round7_cons_fail (p : R6Peer) (rest : List R6Peer) (why : String) (c : Nat)
    (h : r7Peer C H cfg ssid bigR p = .ok (.fail why c)) :
    round7 C H cfg ssid bigR (p :: rest) = .ok (.fail why c) := by
  rw [round7, h]; rfl

theorem round7_cons_pass (p : R6Peer) (rest : List R6Peer) (va : ECPoint × ECPoint)
    (h : r7Peer C H cfg ssid bigR p = .ok (.pass va)) :
    round7 C H cfg ssid bigR (p :: rest) =
      (round7 C H cfg ssid bigR rest >>= fun r => match r with
        | .fail why c => .ok (.fail why c)
        | .pass l => .ok (.pass (va :: l))) := by
  rw [round7, h]; rfl

theorem round7_cons_inv (p : R6Peer) (rest : List R6Peer) (v : Res (List (ECPoint × ECPoint)))
    (h : round7 C H cfg ssid bigR (p :: rest) = .ok v) :
    (∃ why c, r7Peer C H cfg ssid bigR p = .ok (.fail why c) ∧ v = .fail why c) ∨
    ∃ va, r7Peer C H cfg ssid bigR p = .ok (.pass va) ∧
      ((∃ why c, round7 C H cfg ssid bigR rest = .ok (.fail why c) ∧ v = .fail why c) ∨
        (∃ l, round7 C H cfg ssid bigR rest = .ok (.pass l) ∧ v = .pass (va :: l))) := by
  rw [round7] at h
  obtain ⟨res, hr, h⟩ := bind_ok_inv h
  cases res with
  | fail why c =>
    left
    injection h with h
    exact ⟨why, c, hr, h.symm⟩
  | pass va =>
    right
    refine ⟨va, hr, ?_⟩
    simp only at h
    obtain ⟨res', hr', h⟩ := bind_ok_inv h
    cases res' with
    | fail why c => injection h with h; exact Or.inl ⟨why, c, hr', h.symm⟩
    | pass l => injection h with h; exact Or.inr ⟨l, hr', h.symm⟩

/-- **first failing peer** of round 7 -/
theorem round7_fail_iff (peers : List R6Peer) (why : String) (c : Nat) :
    round7 C H cfg ssid bigR peers = .ok (.fail why c) ↔
      ∃ pre p post, peers = pre ++ p :: post ∧
        (∀ q ∈ pre, ∃ va, r7Peer C H cfg ssid bigR q = .ok (.pass va)) ∧
        r7Peer C H cfg ssid bigR p = .ok (.fail why c) ∧ p.idx = c := by
  induction peers with
  | nil =>
    rw [round7_nil]
    constructor
    · intro h; cases h
    · rintro ⟨pre, p, post, h, _⟩
      cases pre <;> cases h
  | cons p rest ih =>
    constructor
    · intro h
      rcases round7_cons_inv C H cfg ssid bigR p rest _ h with ⟨w, c', hp, hv⟩ | ⟨va, hp, ⟨w, c', hr, hv⟩ | ⟨l, _, hv⟩⟩
      · injection hv with h1 h2
        subst h1; subst h2
        exact ⟨[], p, rest, rfl, fun _ hq => (by cases hq), hp, (r7Peer_fail_idx C H cfg ssid bigR p _ _ hp).symm⟩
      · injection hv with h1 h2
        subst h1; subst h2
        obtain ⟨pre, q, post, hsplit, hpre, hq, hidx⟩ := ih.1 hr
        refine ⟨p :: pre, q, post, by rw [hsplit]; rfl, ?_, hq, hidx⟩
        intro q' hq'
        rcases List.mem_cons.1 hq' with rfl | hq'
        · exact ⟨va, hp⟩
        · exact hpre q' hq'
      · cases hv
    · rintro ⟨pre, q, post, hsplit, hpre, hq, hidx⟩
      cases pre with
      | nil =>
        injection hsplit with h1 h2
        subst h1
        exact round7_cons_fail C H cfg ssid bigR p rest why c hq
      | cons p' pre' =>
        injection hsplit with h1 h2
        subst h1
        obtain ⟨va, hva⟩ := hpre p (List.mem_cons_self ..)
        rw [round7_cons_pass C H cfg ssid bigR p rest va hva,
          ih.2 ⟨pre', q, post, h2, fun q' hq' => hpre q' (List.mem_cons_of_mem _ hq'), hq, hidx⟩]
        rfl

/-- the round passes iff every peer passes; the output lists the peers' `(V_j, A_j)` in peer order -/
theorem round7_pass_iff (peers : List R6Peer) : ∀ (l : List (ECPoint × ECPoint)),
    round7 C H cfg ssid bigR peers = .ok (.pass l) ↔
      List.Forall₂ (fun q va => r7Peer C H cfg ssid bigR q = .ok (.pass va)) peers l := by
  induction peers with
  | nil =>
    intro l
    rw [round7_nil]
    constructor
    · intro h; injection h with h; injection h with h; subst h; exact List.Forall₂.nil
    · intro h; cases h; rfl
  | cons p rest ih =>
    intro l
    constructor
    · intro h
      rcases round7_cons_inv C H cfg ssid bigR p rest _ h with ⟨w, c', hp, hv⟩ | ⟨va, hp, ⟨w, c', hr, hv⟩ | ⟨l', hr, hv⟩⟩
      · cases hv
      · cases hv
      · injection hv with hv
        subst hv
        exact List.Forall₂.cons hp ((ih l').1 hr)
    · intro h
      cases h with
      | @cons _ va _ l' hp hrest =>
        rw [round7_cons_pass C H cfg ssid bigR p rest va hp, (ih l').2 hrest]
        rfl

theorem round7_culprit_mem (peers : List R6Peer) (why : String) (c : Nat)
    (h : round7 C H cfg ssid bigR peers = .ok (.fail why c)) : ∃ p ∈ peers, p.idx = c := by
  obtain ⟨pre, p, post, rfl, _, _, hidx⟩ := (round7_fail_iff C H cfg ssid bigR peers why c).1 h
  exact ⟨p, by simp, hidx⟩

theorem round7_single_deviator (peers : List R6Peer) (dev : Nat)
    (hothers : ∀ p ∈ peers, p.idx ≠ dev → ∃ va, r7Peer C H cfg ssid bigR p = .ok (.pass va))
    (why : String) (c : Nat) (h : round7 C H cfg ssid bigR peers = .ok (.fail why c)) : c = dev := by
  obtain ⟨pre, p, post, hsplit, _, hq, hidx⟩ := (round7_fail_iff C H cfg ssid bigR peers why c).1 h
  by_contra hne
  obtain ⟨va, hva⟩ := hothers p (by rw [hsplit]; simp) (by rw [hidx]; exact hne)
  rw [hva] at hq; cases hq

theorem round7_deviator_blamed (peers : List R6Peer) (d : R6Peer)
    (hnd : (peers.map (·.idx)).Nodup) (hd : d ∈ peers)
    (hothers : ∀ p ∈ peers, p.idx ≠ d.idx → ∃ va, r7Peer C H cfg ssid bigR p = .ok (.pass va))
    (why : String) (c : Nat) (hbad : r7Peer C H cfg ssid bigR d = .ok (.fail why c)) :
    round7 C H cfg ssid bigR peers = .ok (.fail why d.idx) := by
  obtain ⟨pre, post, rfl⟩ := List.append_of_mem hd
  have hc := r7Peer_fail_idx C H cfg ssid bigR d why c hbad
  subst hc
  refine (round7_fail_iff C H cfg ssid bigR _ why d.idx).2 ⟨pre, d, post, rfl, ?_, hbad, rfl⟩
  intro q hq
  refine hothers q (by simp [hq]) ?_
  intro he
  rw [List.map_append, List.map_cons] at hnd
  exact (List.nodup_append.1 hnd).2.2 q.idx (List.mem_map.2 ⟨q, hq, rfl⟩) d.idx (List.mem_cons_self ..) he

end r7

/-! ## no crash, no unattributed error -/
section total
variable {P : Type} (C : Curve P) (H : HashFn)

theorem noErr_of_ok {α : Type} {o : Outcome α} {a : α} (h : o = .ok a) : C05EcL.NoErr o := h ▸ C05EcL.NoErr.ok a

theorem total_of {α : Type} {o : Outcome α} (h1 : NoPanic o) (h2 : C05EcL.NoErr o) : ∃ v, o = .ok v := by
  cases o with
  | ok v => exact ⟨v, rfl⟩
  | err e => exact absurd rfl (h2 e)
  | panic e => exact absurd rfl (h1 e)

macro "ne_guard" : tactic =>
  `(tactic| refine C05EcL.NoErr.ite (fun _ => C05EcL.NoErr.ok _) (fun _ => ?_))
macro "ne_bind " t:term : tactic =>
  `(tactic| refine C05EcL.NoErr.bind $t (fun _ _ => ?_))

theorem ecScalarMult_noErr (a : ECPoint) (k : Int) (ha : C.ecIsOnCurve a = true) : C05EcL.NoErr (C.ecScalarMult a k) := by
  intro e he
  have := ((C17L.ecScalarMult_outcomes C a k).2.1 e).1 he
  rw [ha] at this
  cases this.1

theorem ecBaseMult_noErr (k : Int) : C05EcL.NoErr (C.ecBaseMult k) := by
  intro e he
  rcases C17L.ecBaseMult_cases C k with ⟨r, _, h⟩ | ⟨_, h⟩ <;> rw [h] at he <;> cases he

theorem schnorrVerify_noErr (cfg : Cfg) (sess : Bytes) (X alpha : ECPoint) (t : Nat)
    (hX : C.ecIsOnCurve X = true) : C05EcL.NoErr (schnorrVerify C H cfg sess X alpha t) := by
  unfold schnorrVerify
  dsimp only
  ne_guard
  ne_bind ecBaseMult_noErr C _
  ne_bind ecScalarMult_noErr C X _ hX
  split
  · exact C05EcL.NoErr.ok _
  · exact C05EcL.NoErr.ok _
  · exact fun _ => nofun

theorem schnorrVVerify_noErr (cfg : Cfg) (sess : Bytes) (V R alpha : ECPoint) (t u : Nat)
    (hV : C.ecIsOnCurve V = true) (hR : C.ecIsOnCurve R = true) :
    C05EcL.NoErr (schnorrVVerify C H cfg sess V R alpha t u) := by
  unfold schnorrVVerify
  dsimp only
  ne_guard
  ne_guard
  ne_bind ecScalarMult_noErr C R _ hR
  ne_bind ecBaseMult_noErr C _
  split
  · exact C05EcL.NoErr.ite (fun _ => C05EcL.NoErr.ok _) (fun _ => fun _ => nofun)
  · exact fun _ => nofun
  · ne_bind ecScalarMult_noErr C V _ hV
    split
    · exact C05EcL.NoErr.ok _
    · exact C05EcL.NoErr.ok _
    · exact fun _ => nofun

theorem rangeVerify_noErr (cfg : Cfg) (q : Nat) (n ntilde h1 h2 c : Int) (pf : RangeProof) :
    C05EcL.NoErr (rangeVerify cfg H q n ntilde h1 h2 c pf) := by
  unfold rangeVerify
  dsimp only
  ne_guard; ne_guard; ne_guard; ne_guard; ne_guard; ne_guard; ne_guard
  ne_guard; ne_guard; ne_guard; ne_guard; ne_guard; ne_guard; ne_guard
  ne_bind C05EcL.expP_noErr _ _ _
  ne_bind C05EcL.expP_noErr _ _ _
  ne_bind C05EcL.expP_noErr _ _ _
  ne_guard
  ne_bind C05EcL.expP_noErr _ _ _
  ne_bind C05EcL.expP_noErr _ _ _
  ne_bind C05EcL.expP_noErr _ _ _
  exact C05EcL.NoErr.ok _


/-! ### round 2 -/

theorem r2Peer_noPanic (own : Mta.RP) (p : R1Peer) : NoPanic (r2Peer C H cur own p) := by
  unfold r2Peer
  split
  · exact NoPanic.ok _
  · np_bind rangeVerify_noPanic H C.q _ _ _ _ _ _
    refine NoPanic.ite (fun _ => NoPanic.ok _) (fun _ => ?_)
    have := homoMult_noPanic p.nA 0 p.cA
    split
    · exact NoPanic.ok _
    · exact NoPanic.ok _
    · rename_i h; exact absurd h (this _)

theorem r2Peer_noErr (cfg : Cfg) (own : Mta.RP) (p : R1Peer) : C05EcL.NoErr (r2Peer C H cfg own p) := by
  unfold r2Peer
  split
  · exact C05EcL.NoErr.ok _
  · ne_bind rangeVerify_noErr H cfg C.q _ _ _ _ _ _
    ne_guard
    split
    · exact C05EcL.NoErr.ok _
    · exact C05EcL.NoErr.ok _
    · exact fun _ => nofun

theorem r2Peer_total (own : Mta.RP) (p : R1Peer) : ∃ v, r2Peer C H cur own p = .ok v :=
  total_of (r2Peer_noPanic C H own p) (r2Peer_noErr C H cur own p)

theorem round2_total (own : Mta.RP) (peers : List R1Peer) :
    round2 C H cur own peers = .ok (named (·.idx) bad2 (r2Peer C H cur own) peers) :=
  (round2_ok_iff C H cur own peers _).2 ⟨fun p _ => r2Peer_total C H own p, rfl⟩

/-! ### round 3 -/

/-- exact crash condition of the decoder: a ten-part list -/
theorem bobWCFromBytes_panic_iff (bzs : List Bytes) (t : String) :
    bobWCFromBytes C bzs = .panic t ↔ t = "index-out-of-range" ∧ nonEmptyMultiBytes bzs bobParts = true := by
  unfold bobWCFromBytes bobFromBytes
  by_cases h10 : nonEmptyMultiBytes bzs bobParts = true
  · have hlen : bzs.length = bobParts := by
      unfold nonEmptyMultiBytes at h10
      simp only [Bool.and_eq_true, beq_iff_eq] at h10
      exact h10.1.2
    simp only [h10, Bool.not_true, Bool.false_and, Bool.false_eq_true, if_false]
    rw [if_pos (by rw [hlen]; decide)]
    constructor
    · intro h; injection h with h; exact ⟨h.symm, trivial⟩
    · rintro ⟨rfl, _⟩; rfl
  · have h10' : nonEmptyMultiBytes bzs bobParts = false := by simpa using h10
    simp only [h10', Bool.not_false, Bool.true_and]
    by_cases h12 : nonEmptyMultiBytes bzs bobWCParts = true
    · have hlen : bzs.length = bobWCParts := by
        unfold nonEmptyMultiBytes at h12
        simp only [Bool.and_eq_true, beq_iff_eq] at h12
        exact h12.1.2
      simp only [h12, Bool.not_true, Bool.false_eq_true, if_false]
      rw [if_neg (by rw [hlen]; decide)]
      constructor
      · intro h; split at h <;> cases h
      · rintro ⟨_, h⟩; cases h
    · have h12' : nonEmptyMultiBytes bzs bobWCParts = false := by simpa using h12
      simp only [h12', Bool.not_false, if_true]
      constructor
      · intro h; cases h
      · rintro ⟨_, h⟩; cases h

theorem bobWCFromBytes_noPanic (bzs : List Bytes) (h : bzs.length ≠ bobParts) : NoPanic (bobWCFromBytes C bzs) := by
  intro t ht
  have := ((bobWCFromBytes_panic_iff C bzs t).1 ht).2
  unfold nonEmptyMultiBytes at this
  simp only [Bool.and_eq_true, beq_iff_eq] at this
  exact h this.1.2

theorem bobWCFromBytes_noErr (bzs : List Bytes) : C05EcL.NoErr (bobWCFromBytes C bzs) := by
  unfold bobWCFromBytes
  split
  · exact C05EcL.NoErr.ok _
  · split
    · exact fun _ => nofun
    · split <;> exact C05EcL.NoErr.ok _

theorem aliceStep_noErr (cfg : Cfg) (sess : Bytes) (sk : Paillier.PrivateKey) (own : Mta.RP) (cA cB : Nat)
    (pf : BobProof) (xu : Option (ECPoint × ECPoint)) : C05EcL.NoErr (aliceStep C H cfg sess sk own cA cB pf xu) := by
  unfold aliceStep
  split
  · exact C05EcL.NoErr.ok _
  · exact C05EcL.NoErr.ok _
  · exact fun _ => nofun

theorem aliceStep_noPanic (cfg : Cfg) (sess : Bytes) (sk : Paillier.PrivateKey) (own : Mta.RP) (cA cB : Nat)
    (pf : BobProof) (xu : Option (ECPoint × ECPoint))
    (h : NoPanic (Mta.aliceEnd C H cfg sess sk pf own cA cB xu)) :
    NoPanic (aliceStep C H cfg sess sk own cA cB pf xu) := by
  unfold aliceStep
  split
  · exact NoPanic.ok _
  · exact NoPanic.ok _
  · rename_i e he; exact absurd he (h e)

theorem r3Peer_noErr (cfg : Cfg) (ssid : Bytes) (sk : Paillier.PrivateKey) (own : Mta.RP) (p : R2Peer) :
    C05EcL.NoErr (r3Peer C H cfg ssid sk own p) := by
  rw [r3Peer_eq]
  refine C05EcL.NoErr.bind ?_ (fun _ _ => C05EcL.NoErr.bind ?_ (fun _ _ => C05EcL.NoErr.ok _))
  · unfold stepA
    split
    · exact C05EcL.NoErr.ok _
    · exact aliceStep_noErr C H _ _ _ _ _ _ _ _
  · unfold stepW
    refine C05EcL.NoErr.bind (bobWCFromBytes_noErr C _) (fun r _ => ?_)
    split
    · exact C05EcL.NoErr.ok _
    · exact aliceStep_noErr C H _ _ _ _ _ _ _ _

theorem r3Peer_noPanic (hC : C.Lawful) (hcof : C.toAffine C.zero = none → ∀ q, C.smul C.q q = C.zero)
    (ssid : Bytes) (sk : Paillier.PrivateKey) (own : Mta.RP)
    (hk : (modInverse (Paillier.L (modPow (Paillier.gamma sk.n) sk.lambdaN (Paillier.nSquare sk.n)) sk.n)
      sk.n).isSome = true)
    (p : R2Peer) (hlen : p.proofBobWC.length ≠ bobParts) :
    NoPanic (r3Peer C H cur ssid sk own p) := by
  rw [r3Peer_eq]
  refine NoPanic.bind ?_ (fun _ _ => NoPanic.bind ?_ (fun _ _ => NoPanic.ok _))
  · unfold stepA
    split
    · exact NoPanic.ok _
    · exact aliceStep_noPanic C H _ _ _ _ _ _ _ _
        (aliceEnd_none_noPanic_of_decrypt C H _ sk _ own _ _ (fun c => decrypt_noPanic sk c hk))
  · unfold stepW
    refine NoPanic.bind (bobWCFromBytes_noPanic C _ hlen) (fun r _ => ?_)
    split
    · exact NoPanic.ok _
    · exact aliceStep_noPanic C H _ _ _ _ _ _ _ _
        (aliceEnd_noPanic_of_decrypt hC hcof H _ sk _ own _ _ _ (fun c => decrypt_noPanic sk c hk))

theorem round3_noPanic_of (cfg : Cfg) (ssid : Bytes) (sk : Paillier.PrivateKey) (own : Mta.RP) (peers : List R2Peer)
    (h : ∀ p ∈ peers, NoPanic (r3Peer C H cfg ssid sk own p)) : NoPanic (round3 C H cfg ssid sk own peers) := by
  rw [round3_eq]
  exact NoPanic.bind (fun t => mapM_no_panic _ _ h t) (fun _ _ => NoPanic.ok _)

theorem round2_noPanic (own : Mta.RP) (peers : List R1Peer) : NoPanic (round2 C H cur own peers) := by
  rw [round2_total]; exact NoPanic.ok _

/-! ### round 5 -/

theorem ecNew_onCurve {x y : Nat} {g : ECPoint} (h : C.ecNew x y = some g) : C.ecIsOnCurve g = true := by
  obtain ⟨h1, h2⟩ := (C17L.ecNew_eq_some_iff C).1 h
  rw [h2]; exact h1

theorem decommit_noPanic (c : Nat) (d : List Nat) (hd : d ≠ []) :
    NoPanic (decommitWith H c (d.map Int.ofNat)) := by
  have hd' : d.map Int.ofNat ≠ [] := fun h => hd (List.map_eq_nil_iff.1 h)
  intro t ht
  rcases decommit_cases H c _ hd' with h | h <;> rw [h] at ht <;> cases ht

theorem r5Peer_noPanic (hC : C.Lawful) (hcof : C.toAffine C.zero = none → ∀ q, C.smul C.q q = C.zero)
    (ssid : Bytes) (p : R4Peer) (hd : p.decommitment ≠ []) : NoPanic (r5Peer C H cur ssid p) := by
  unfold r5Peer
  have hdc := decommit_noPanic H p.commitment p.decommitment hd
  split
  · rename_i e he; exact absurd he (hdc e)
  · exact NoPanic.err _
  · exact NoPanic.ok _
  · refine NoPanic.ite (fun _ => NoPanic.ok _) (fun _ => ?_)
    split
    · exact NoPanic.ok _
    · split
      · exact NoPanic.ok _
      · np_bind schnorrVerify_noPanic hC hcof H _ _ _ _
        exact NoPanic.ite (fun _ => NoPanic.ok _) (fun _ => NoPanic.ok _)

theorem r5Peer_noErr (cfg : Cfg) (ssid : Bytes) (p : R4Peer) : C05EcL.NoErr (r5Peer C H cfg ssid p) := by
  unfold r5Peer
  split
  · exact fun _ => nofun
  · rename_i e he; exact absurd he (decommit_no_err H _ _ e)
  · exact C05EcL.NoErr.ok _
  · refine C05EcL.NoErr.ite (fun _ => C05EcL.NoErr.ok _) (fun _ => ?_)
    split
    · exact C05EcL.NoErr.ok _
    · rename_i g hg
      split
      · exact C05EcL.NoErr.ok _
      · refine C05EcL.NoErr.bind (schnorrVerify_noErr C H cfg _ _ _ _ (ecNew_onCurve C hg)) (fun _ _ => ?_)
        exact C05EcL.NoErr.ite (fun _ => C05EcL.NoErr.ok _) (fun _ => C05EcL.NoErr.ok _)

theorem round5_noPanic_of (cfg : Cfg) (ssid : Bytes) (peers : List R4Peer) :
    (∀ p ∈ peers, NoPanic (r5Peer C H cfg ssid p)) → ∀ g0, NoPanic (round5 C H cfg ssid g0 peers) := by
  induction peers with
  | nil => intro _ g0; rw [round5_nil]; exact NoPanic.ok _
  | cons p rest ih =>
    intro h g0
    rw [round5]
    refine NoPanic.bind (h p (List.mem_cons_self ..)) (fun r _ => ?_)
    cases r with
    | fail why c => exact NoPanic.ok _
    | pass g =>
      simp only
      have := ecAdd_noPanic C g0 g
      split
      · exact ih (fun q hq => h q (List.mem_cons_of_mem _ hq)) _
      · exact NoPanic.ok _
      · rename_i e he; exact absurd he (this e)

theorem round5_noErr_of (cfg : Cfg) (ssid : Bytes) (peers : List R4Peer) :
    ∀ g0, C05EcL.NoErr (round5 C H cfg ssid g0 peers) := by
  induction peers with
  | nil => intro g0; rw [round5_nil]; exact C05EcL.NoErr.ok _
  | cons p rest ih =>
    intro g0
    rw [round5]
    refine C05EcL.NoErr.bind (r5Peer_noErr C H cfg ssid p) (fun r _ => ?_)
    cases r with
    | fail why c => exact C05EcL.NoErr.ok _
    | pass g =>
      simp only
      split
      · exact ih _
      · exact C05EcL.NoErr.ok _
      · exact fun _ => nofun

/-! ### round 7 -/

theorem r7Tail_noPanic (hC : C.Lawful) (hcof : C.toAffine C.zero = none → ∀ q, C.smul C.q q = C.zero)
    (ssid : Bytes) (bigR : ECPoint) (p : R6Peer) (bigV bigA : ECPoint) :
    NoPanic (r7Tail C H cur ssid bigR p bigV bigA) := by
  unfold r7Tail
  refine NoPanic.bind ?_ (fun _ _ => NoPanic.ite (fun _ => NoPanic.ok _) (fun _ => ?_))
  · unfold okA7
    split
    · exact NoPanic.ok _
    · exact schnorrVerify_noPanic hC hcof H _ _ _ _
  · refine NoPanic.bind ?_ (fun _ _ => NoPanic.ite (fun _ => NoPanic.ok _) (fun _ => NoPanic.ok _))
    unfold okV7
    split
    · exact NoPanic.ok _
    · exact schnorrVVerify_noPanic hC hcof H _ _ _ _ _ _

theorem r7Tail_noErr (cfg : Cfg) (ssid : Bytes) (bigR : ECPoint) (p : R6Peer) (bigV bigA : ECPoint)
    (hV : C.ecIsOnCurve bigV = true) (hA : C.ecIsOnCurve bigA = true) (hR : C.ecIsOnCurve bigR = true) :
    C05EcL.NoErr (r7Tail C H cfg ssid bigR p bigV bigA) := by
  unfold r7Tail
  refine C05EcL.NoErr.bind ?_ (fun _ _ => C05EcL.NoErr.ite (fun _ => C05EcL.NoErr.ok _) (fun _ => ?_))
  · unfold okA7
    split
    · exact C05EcL.NoErr.ok _
    · exact schnorrVerify_noErr C H cfg _ _ _ _ hA
  · refine C05EcL.NoErr.bind ?_
      (fun _ _ => C05EcL.NoErr.ite (fun _ => C05EcL.NoErr.ok _) (fun _ => C05EcL.NoErr.ok _))
    unfold okV7
    split
    · exact C05EcL.NoErr.ok _
    · exact schnorrVVerify_noErr C H cfg _ _ _ _ _ _ hV hR

theorem r7Peer_noPanic (hC : C.Lawful) (hcof : C.toAffine C.zero = none → ∀ q, C.smul C.q q = C.zero)
    (ssid : Bytes) (bigR : ECPoint) (p : R6Peer) (hd : p.decommitment ≠ []) :
    NoPanic (r7Peer C H cur ssid bigR p) := by
  rcases r7Peer_cases C H cur ssid bigR p with ⟨e, hp, _⟩ | ⟨e, _, he⟩ | ⟨w, he⟩ | ⟨x1, y1, x2, y2, bigV, bigA, hdc, hV, hA⟩
  · exact absurd hp (decommit_noPanic H p.commitment p.decommitment hd e)
  · rw [he]; exact NoPanic.err _
  · rw [he]; exact NoPanic.ok _
  · rw [r7Peer_points C H cur ssid bigR p x1 y1 x2 y2 bigV bigA hdc hV hA]
    exact r7Tail_noPanic C H hC hcof ssid bigR p bigV bigA


theorem r7Peer_noErr (cfg : Cfg) (ssid : Bytes) (bigR : ECPoint) (hR : C.ecIsOnCurve bigR = true) (p : R6Peer) :
    C05EcL.NoErr (r7Peer C H cfg ssid bigR p) := by
  rcases r7Peer_cases C H cfg ssid bigR p with ⟨e, _, he⟩ | ⟨e, hp, _⟩ | ⟨w, he⟩ | ⟨x1, y1, x2, y2, bigV, bigA, hdc, hV, hA⟩
  · rw [he]; exact fun _ => nofun
  · exact absurd hp (decommit_no_err H _ _ e)
  · rw [he]; exact C05EcL.NoErr.ok _
  · rw [r7Peer_points C H cfg ssid bigR p x1 y1 x2 y2 bigV bigA hdc hV hA]
    exact r7Tail_noErr C H cfg ssid bigR p bigV bigA (ecNew_onCurve C hV) (ecNew_onCurve C hA) hR

theorem round7_noPanic_of (cfg : Cfg) (ssid : Bytes) (bigR : ECPoint) (peers : List R6Peer) :
    (∀ p ∈ peers, NoPanic (r7Peer C H cfg ssid bigR p)) → NoPanic (round7 C H cfg ssid bigR peers) := by
  induction peers with
  | nil => intro _; rw [round7_nil]; exact NoPanic.ok _
  | cons p rest ih =>
    intro h
    rw [round7]
    refine NoPanic.bind (h p (List.mem_cons_self ..)) (fun r _ => ?_)
    cases r with
    | fail why c => exact NoPanic.ok _
    | pass va =>
      simp only
      refine NoPanic.bind (ih (fun q hq => h q (List.mem_cons_of_mem _ hq))) (fun r' _ => ?_)
      cases r' <;> exact NoPanic.ok _

theorem round7_noErr_of (cfg : Cfg) (ssid : Bytes) (bigR : ECPoint) (peers : List R6Peer) :
    (∀ p ∈ peers, C05EcL.NoErr (r7Peer C H cfg ssid bigR p)) → C05EcL.NoErr (round7 C H cfg ssid bigR peers) := by
  induction peers with
  | nil => intro _; rw [round7_nil]; exact C05EcL.NoErr.ok _
  | cons p rest ih =>
    intro h
    rw [round7]
    refine C05EcL.NoErr.bind (h p (List.mem_cons_self ..)) (fun r _ => ?_)
    cases r with
    | fail why c => exact C05EcL.NoErr.ok _
    | pass va =>
      simp only
      refine C05EcL.NoErr.bind (ih (fun q hq => h q (List.mem_cons_of_mem _ hq))) (fun r' _ => ?_)
      cases r' <;> exact C05EcL.NoErr.ok _


end total

end TssVerif.C05SgL
