import TssVerif.Core.Ckd
import TssVerif.Core.Sign
import TssVerif.Lemmas.CurveLaw
import TssVerif.Lemmas.VssReconstruct
import Mathlib.LinearAlgebra.Lagrange
import Mathlib.Tactic.Ring
import Mathlib.Tactic.FieldSimp
/-! Helper lemmas for C18: exact characterisation of `Ckd.deriveChild`, the accumulator invariant of
`Ckd.derivePath`, Lagrange weights of shifted shares (field form and `Sign.weight` code form). -/
set_option autoImplicit false
set_option linter.style.haveILetI false
namespace TssVerif.MiscL
open TssVerif TssVerif.Ckd

section ckd
variable {P : Type} (C : Curve P)

/-- the HMAC output `I` of one derivation step -/
def stepI (i : Nat) (k : ExtKey) : Bytes := hmacSha512 k.chainCode (serP k.pub ++ ser32 i)

/-- the child record built from the child point `c` -/
def childOf (i : Nat) (k : ExtKey) (c : ECPoint) : ExtKey :=
  { pub := c, depth := k.depth + 1, childIndex := i, chainCode := (stepI i k).drop 32,
    parentFP := (hash160 (serP k.pub)).take 4, version := k.version }

theorem deriveChild_ok {i : Nat} {k : ExtKey} {il : Nat} {child : ExtKey}
    (h : deriveChild C i k = .ok (il, child)) :
    i < 2 ^ 31 ∧ k.depth ≠ 255 ∧ il = bytesToNat ((stepI i k).take 32) ∧ 0 < il ∧ il < C.q ∧
    ∃ parent, C.lift k.pub = some parent ∧
      (∃ dg, C.toAffine (C.smul il C.base) = some dg ∧ dg.1 ≠ 0 ∧ dg.2 ≠ 0) ∧
      ∃ c, C.toAffine (C.add parent (C.smul il C.base)) = some c ∧ child = childOf i k c := by
  unfold deriveChild at h
  split at h
  · exact absurd h (by simp)
  next h1 =>
  split at h
  · exact absurd h (by simp)
  next h2 =>
  split at h
  · exact absurd h (by simp)
  next parent hpar =>
  simp only at h
  split at h
  · exact absurd h (by simp)
  next h3 =>
  split at h
  · exact absurd h (by simp)
  next dg hdg =>
  split at h
  · exact absurd h (by simp)
  next h4 =>
  split at h
  · exact absurd h (by simp)
  next c hc =>
  simp only [Outcome.ok.injEq, Prod.mk.injEq] at h
  obtain ⟨hil, hchild⟩ := h
  subst hil
  subst hchild
  refine ⟨?_, h2, rfl, by omega, by omega, parent, hpar, ⟨dg, hdg, ?_, ?_⟩, c, hc, rfl⟩
  · simp only [hardenedKeyStart] at h1; omega
  · intro h0; exact h4 (Or.inl h0)
  · intro h0; exact h4 (Or.inr h0)

theorem deriveChild_of {i : Nat} {k : ExtKey} {parent : P} {dg c : ECPoint}
    (h1 : i < 2 ^ 31) (h2 : k.depth ≠ 255) (hpar : C.lift k.pub = some parent)
    (h3 : 0 < bytesToNat ((stepI i k).take 32)) (h4 : bytesToNat ((stepI i k).take 32) < C.q)
    (hdg : C.toAffine (C.smul (bytesToNat ((stepI i k).take 32)) C.base) = some dg)
    (hx : dg.1 ≠ 0) (hy : dg.2 ≠ 0)
    (hc : C.toAffine (C.add parent (C.smul (bytesToNat ((stepI i k).take 32)) C.base)) = some c) :
    deriveChild C i k = .ok (bytesToNat ((stepI i k).take 32), childOf i k c) := by
  unfold deriveChild
  rw [if_neg (by simp only [hardenedKeyStart]; omega), if_neg (show ¬ k.depth = maxDepth from h2), hpar]
  simp only
  rw [if_neg (by unfold stepI at h3 h4; omega)]
  unfold stepI at hdg hc
  rw [hdg]
  simp only
  rw [if_neg (by rintro (h | h); exact hx h; exact hy h), hc]
  rfl

theorem deriveChild_hardened {i : Nat} (k : ExtKey) (h : 2 ^ 31 ≤ i) :
    deriveChild C i k = .err "hardened" := by
  unfold deriveChild
  rw [if_pos (by simp only [hardenedKeyStart]; omega)]

theorem deriveChild_maxDepth {i : Nat} {k : ExtKey} (hi : i < 2 ^ 31) (h : k.depth = 255) :
    deriveChild C i k = .err "max-depth" := by
  unfold deriveChild
  rw [if_neg (by simp only [hardenedKeyStart]; omega), if_pos (show k.depth = maxDepth from h)]

theorem deriveChild_invalid_parent {i : Nat} {k : ExtKey} (hi : i < 2 ^ 31) (hd : k.depth ≠ 255)
    (h : C.lift k.pub = none) : deriveChild C i k = .err "invalid-parent" := by
  unfold deriveChild
  rw [if_neg (by simp only [hardenedKeyStart]; omega), if_neg (show ¬ k.depth = maxDepth from hd), h]

/-- a refused step: never `ok`, whatever the other inputs -/
theorem deriveChild_refused {i : Nat} {k : ExtKey}
    (h : 2 ^ 31 ≤ i ∨ k.depth = 255 ∨ C.lift k.pub = none) : ∃ e, deriveChild C i k = .err e := by
  by_cases h1 : 2 ^ 31 ≤ i
  · exact ⟨_, deriveChild_hardened C k h1⟩
  · by_cases h2 : k.depth = 255
    · exact ⟨_, deriveChild_maxDepth C (by omega) h2⟩
    · rcases h with h | h | h
      · exact absurd h h1
      · exact absurd h h2
      · exact ⟨_, deriveChild_invalid_parent C (by omega) h2 h⟩

/-- the only panic of the model is the identity as `IL·G`, impossible on a lawful curve -/
theorem deriveChild_no_panic (hC : C.Lawful) (i : Nat) (k : ExtKey) (e : String) :
    deriveChild C i k ≠ .panic e := by
  unfold deriveChild
  split
  · simp
  split
  · simp
  split
  · simp
  simp only
  split
  · simp
  next h3 =>
  split
  · next hdg =>
    exfalso
    have hz := hC.toAffine_none _ hdg
    rw [hC.smul_base_eq_zero_iff, Nat.mod_eq_of_lt (by omega)] at hz
    omega
  split
  · simp
  split <;> simp

/-! ### paths -/

theorem derivePath_nil (m : Nat) (k : ExtKey) (acc : Nat) : derivePath C m [] k acc = .ok (acc, k) := rfl

theorem derivePath_cons (m i : Nat) (rest : List Nat) (k : ExtKey) (acc : Nat) :
    derivePath C m (i :: rest) k acc =
      match deriveChild C i k with
      | .ok (il, child) => derivePath C m rest child ((il + acc) % m)
      | .err e => .err e
      | .panic e => .panic e := rfl

/-- a path is derived prefix first; the suffix continues from the intermediate key and offset -/
theorem derivePath_append (m : Nat) (pre suf : List Nat) (k : ExtKey) (acc : Nat) :
    derivePath C m (pre ++ suf) k acc =
      match derivePath C m pre k acc with
      | .ok (a, k') => derivePath C m suf k' a
      | .err e => .err e
      | .panic e => .panic e := by
  induction pre generalizing k acc with
  | nil => rfl
  | cons i pre ih =>
    rw [List.cons_append, derivePath_cons, derivePath_cons]
    cases h : deriveChild C i k with
    | ok r => obtain ⟨il, child⟩ := r; simp only; exact ih child _
    | err e => rfl
    | panic e => rfl

/-- the first refused step refuses the whole path -/
theorem derivePath_first_refusal (m : Nat) (pre suf : List Nat) (i : Nat) (k k' : ExtKey) (acc a : Nat)
    (e : String) (hpre : derivePath C m pre k acc = .ok (a, k')) (hi : deriveChild C i k' = .err e) :
    derivePath C m (pre ++ i :: suf) k acc = .err e := by
  rw [derivePath_append, hpre]
  simp only
  rw [derivePath_cons, hi]

theorem derivePath_depth {m : Nat} {path : List Nat} {k : ExtKey} {acc off : Nat} {child : ExtKey}
    (h : derivePath C m path k acc = .ok (off, child)) :
    child.depth = k.depth + path.length ∧ child.version = k.version ∧
      (k.depth ≤ 255 → child.depth ≤ 255) ∧ ∀ i ∈ path, i < 2 ^ 31 := by
  induction path generalizing k acc with
  | nil =>
    rw [derivePath_nil] at h
    simp only [Outcome.ok.injEq, Prod.mk.injEq] at h
    obtain ⟨_, rfl⟩ := h
    simp
  | cons i rest ih =>
    rw [derivePath_cons] at h
    cases hd : deriveChild C i k with
    | ok r =>
      obtain ⟨il, c1⟩ := r
      rw [hd] at h
      simp only at h
      obtain ⟨g1, g2, g3, g4⟩ := ih h
      obtain ⟨d1, d2, _, _, _, _, _, _, c, _, hc⟩ := deriveChild_ok C hd
      have e1 : c1.depth = k.depth + 1 := by rw [hc]; rfl
      have e2 : c1.version = k.version := by rw [hc]; rfl
      refine ⟨by rw [g1, e1, List.length_cons]; omega, by rw [g2, e2], fun hk => g3 (by omega), ?_⟩
      intro j hj
      rcases List.mem_cons.1 hj with rfl | hj
      · exact d1
      · exact g4 j hj
    | err e => rw [hd] at h; exact absurd h (by simp)
    | panic e => rw [hd] at h; exact absurd h (by simp)

/-- **the accumulator invariant**: `child + acc·G = parent + off·G` -/
theorem derivePath_invariant (hC : C.Lawful) {path : List Nat} {k : ExtKey} {acc off : Nat}
    {child : ExtKey} {parent : P} (hpar : C.lift k.pub = some parent)
    (h : derivePath C C.q path k acc = .ok (off, child)) :
    ∃ cp, C.lift child.pub = some cp ∧ C.toAffine cp = some child.pub ∧
      C.add cp (C.smul acc C.base) = C.add parent (C.smul off C.base) ∧
      ((acc < C.q ∨ path ≠ []) → off < C.q) := by
  induction path generalizing k acc parent with
  | nil =>
    rw [derivePath_nil] at h
    simp only [Outcome.ok.injEq, Prod.mk.injEq] at h
    obtain ⟨rfl, rfl⟩ := h
    exact ⟨parent, hpar, hC.ofAffine_toAffine _ _ _ hpar, rfl, fun h => h.elim id (fun h => absurd rfl h)⟩
  | cons i rest ih =>
    rw [derivePath_cons] at h
    cases hd : deriveChild C i k with
    | ok r =>
      obtain ⟨il, c1⟩ := r
      rw [hd] at h
      simp only at h
      obtain ⟨_, _, _, _, _, parent', hpar', _, c, hc, hc1⟩ := deriveChild_ok C hd
      rw [hpar] at hpar'
      obtain rfl := Option.some.inj hpar'
      have hlift1 : C.lift c1.pub = some (C.add parent (C.smul il C.base)) := by
        rw [hc1]; exact hC.toAffine_ofAffine _ _ _ hc
      obtain ⟨cp, g1, g2, g3, g4⟩ := ih hlift1 h
      refine ⟨cp, g1, g2, ?_, fun _ => g4 (Or.inl (Nat.mod_lt _ hC.q_pos))⟩
      rw [← hC.smul_base_mod, hC.smul_add] at g3
      letI := hC.groupLaws.addCommGroup
      have g3' : cp + (C.smul il C.base + C.smul acc C.base) =
          parent + C.smul il C.base + C.smul off C.base := g3
      show cp + C.smul acc C.base = parent + C.smul off C.base
      have : cp + C.smul acc C.base + C.smul il C.base =
          parent + C.smul off C.base + C.smul il C.base := by
        rw [add_assoc, add_comm (C.smul acc C.base), g3']; abel
      exact add_right_cancel this
    | err e => rw [hd] at h; exact absurd h (by simp)
    | panic e => rw [hd] at h; exact absurd h (by simp)

end ckd

/-! ## Lagrange weights -/

section lagrange
open Polynomial

/-- interpolation at `0` with the explicit weights `∏_{j≠i} v_j / (v_j − v_i)` -/
theorem lagrange_eval_zero {F : Type} [Field F] {ι : Type} [DecidableEq ι] (s : Finset ι) (v : ι → F)
    (hinj : Set.InjOn v s) (g : F[X]) (hdeg : g.degree < (s.card : ℕ)) :
    ∑ i ∈ s, g.eval (v i) * ∏ j ∈ s.erase i, (v j / (v j - v i)) = g.eval 0 := by
  have e := congrArg (eval 0) (Lagrange.eq_interpolate hinj hdeg)
  rw [e]
  simp only [Lagrange.interpolate_apply, eval_finsetSum, eval_mul, eval_C]
  refine Finset.sum_congr rfl fun i hi => ?_
  congr 1
  simp only [Lagrange.basis, eval_prod, Lagrange.basisDivisor, eval_mul, eval_C, eval_sub, eval_X]
  refine Finset.prod_congr rfl fun j hj => ?_
  have hne' : v j ≠ v i := by
    intro h
    exact (Finset.ne_of_mem_erase hj) (hinj (Finset.mem_coe.2 (Finset.mem_of_mem_erase hj))
      (Finset.mem_coe.2 hi) h)
  have h1 : v j - v i ≠ 0 := sub_ne_zero.2 hne'
  have h2 : v i - v j ≠ 0 := sub_ne_zero.2 (Ne.symm hne')
  field_simp
  ring

/-- **the Lagrange coefficients at 0 sum to 1** -/
theorem lagrange_coeffs_sum_one {F : Type} [Field F] {ι : Type} [DecidableEq ι] (s : Finset ι) (v : ι → F)
    (hinj : Set.InjOn v s) (hs : s.Nonempty) :
    ∑ i ∈ s, ∏ j ∈ s.erase i, (v j / (v j - v i)) = 1 := by
  have h := lagrange_eval_zero s v hinj (1 : F[X]) (by
    rw [Polynomial.degree_one]
    exact_mod_cast Finset.card_pos.2 hs)
  simpa using h

theorem shifted_shares_sum {F : Type} [Field F] {ι : Type} (s : Finset ι) (lam x : ι → F) (δ : F)
    (hone : ∑ i ∈ s, lam i = 1) :
    ∑ i ∈ s, lam i * (x i + δ) = (∑ i ∈ s, lam i * x i) + δ := by
  simp only [mul_add, Finset.sum_add_distrib, ← Finset.sum_mul, hone, one_mul]

variable {q : ℕ} [Fact q.Prime]

theorem weight_fold (ks : List ℕ) (i : ℕ) (l : List ℕ) : ∀ acc w : ℕ,
    l.foldlM (fun w j => if j = i then some w else
      (Sign.coef q (ks.getD i 0) (ks.getD j 0)).map fun c => w * c % q) acc = some w →
    (w : ZMod q) = acc * ((l.filter (· ≠ i)).map (Vss.term q ks i)).prod := by
  induction l with
  | nil =>
    intro acc w h
    simp only [List.foldlM_nil] at h
    obtain rfl := Option.some.inj h
    simp
  | cons j l ih =>
    intro acc w h
    rw [List.foldlM_cons] at h
    by_cases hj : j = i
    · rw [if_pos hj] at h
      have := ih acc w h
      rw [this]
      simp [hj]
    · rw [if_neg hj] at h
      unfold Sign.coef at h
      cases hinv : modInverse ((ks.getD j 0 : Int) - (ks.getD i 0 : Int)) q with
      | none => rw [hinv] at h; exact absurd h (by simp)
      | some inv =>
        rw [hinv] at h
        simp only [Option.map_some, Option.bind_eq_bind, Option.bind_some] at h
        have hic := modInverse_cast hinv
        rw [ih _ w h]
        have : ((acc * (ks.getD j 0 * inv % q) % q : ℕ) : ZMod q) = (acc : ZMod q) * Vss.term q ks i j := by
          rw [ZMod.natCast_mod, Nat.cast_mul, ZMod.natCast_mod, Nat.cast_mul, hic]
          push_cast
          rfl
        rw [this]
        simp [hj, mul_assoc]

/-- **`Sign.weight` in the field**: `w_i = x_i · ∏_{j≠i} k_j / (k_j − k_i)` -/
theorem weight_cast {ks : List ℕ} {i xi w : ℕ} (h : Sign.weight q ks i xi = some w) :
    (w : ZMod q) = (xi : ZMod q) * ∏ j ∈ (Finset.range ks.length).erase i,
      ((ks.getD j 0 : ZMod q) / ((ks.getD j 0 : ZMod q) - (ks.getD i 0 : ZMod q))) := by
  have := weight_fold ks i (List.range ks.length) xi w h
  rw [this, ← List.prod_toFinset _ ((List.nodup_range).filter _)]
  congr 1
  apply Finset.prod_congr
  · ext j; simp [and_comm]
  · intro j _; rw [Vss.term, div_eq_mul_inv]

/-- the weights exist when the ids are distinct modulo `q` -/
theorem weight_isSome (ks : List ℕ) (i xi : ℕ)
    (hinj : ∀ j, j < ks.length → j ≠ i → (ks.getD j 0 : ZMod q) ≠ (ks.getD i 0 : ZMod q)) :
    ∃ w, Sign.weight q ks i xi = some w := by
  unfold Sign.weight
  have key : ∀ (l : List ℕ), (∀ j ∈ l, j < ks.length) → ∀ acc : ℕ, ∃ w,
      l.foldlM (fun w j => if j = i then some w else
        (Sign.coef q (ks.getD i 0) (ks.getD j 0)).map fun c => w * c % q) acc = some w := by
    intro l
    induction l with
    | nil => intro _ acc; exact ⟨acc, rfl⟩
    | cons j l ih =>
      intro hl acc
      rw [List.foldlM_cons]
      have hl' : ∀ k ∈ l, k < ks.length := fun k hk => hl k (List.mem_cons_of_mem _ hk)
      by_cases hj : j = i
      · rw [if_pos hj]; exact ih hl' acc
      · rw [if_neg hj]
        have hne : ((((ks.getD j 0 : Int) - (ks.getD i 0 : Int) : ℤ)) : ZMod q) ≠ 0 := by
          push_cast
          exact sub_ne_zero.2 (hinj j (hl j (List.mem_cons_self ..)) hj)
        obtain ⟨inv, hinv, _⟩ := modInverse_of_ne_zero hne
        unfold Sign.coef
        rw [hinv]
        simp only [Option.map_some, Option.bind_eq_bind, Option.bind_some]
        exact ih hl' _
  exact key _ (fun j hj => List.mem_range.1 hj) xi

/-- **weights of shares on a polynomial sum to its value at 0** (code form) -/
theorem weights_sum_eval (ks : List ℕ) (x w : ℕ → ℕ) (g : (ZMod q)[X])
    (hnd : (ks.map (· % q)).Nodup)
    (hdeg : g.degree < (ks.length : ℕ))
    (hval : ∀ i, i < ks.length → (x i : ZMod q) = g.eval (ks.getD i 0 : ZMod q))
    (hw : ∀ i, i < ks.length → Sign.weight q ks i (x i) = some (w i)) :
    ∑ i ∈ Finset.range ks.length, (w i : ZMod q) = g.eval 0 := by
  have hinj : Set.InjOn (fun j => (ks.getD j 0 : ZMod q)) (Finset.range ks.length : Set ℕ) := by
    intro i hi j hj hij
    have hi' : i < ks.length := by simpa using hi
    have hj' : j < ks.length := by simpa using hj
    simp only at hij
    rw [ZMod.natCast_eq_natCast_iff', Vss.getD_eq_getElem' _ _ hi', Vss.getD_eq_getElem' _ _ hj'] at hij
    have h1 : i < (ks.map (· % q)).length := by simpa using hi'
    have h2 : j < (ks.map (· % q)).length := by simpa using hj'
    exact (hnd.getElem_inj_iff (hi := h1) (hj := h2)).1 (by simpa using hij)
  rw [← lagrange_eval_zero (Finset.range ks.length) (fun j => (ks.getD j 0 : ZMod q)) hinj g
    (by simpa using hdeg)]
  refine Finset.sum_congr rfl fun i hi => ?_
  have hi' : i < ks.length := Finset.mem_range.1 hi
  rw [weight_cast (hw i hi'), hval i hi']

end lagrange

/-- **shifted shares, code form**: with every `x_i` replaced by `(δ + x_i) mod q` the weights sum to `f(0) + δ` -/
theorem weights_shifted_sum {q : ℕ} [Fact q.Prime] (ks : List ℕ) (x w : ℕ → ℕ) (f : Polynomial (ZMod q))
    (δ : ℕ) (hne : ks ≠ []) (hnd : (ks.map (· % q)).Nodup)
    (hdeg : f.degree < (ks.length : ℕ))
    (hval : ∀ i, i < ks.length → (x i : ZMod q) = f.eval (ks.getD i 0 : ZMod q))
    (hw : ∀ i, i < ks.length → Sign.weight q ks i ((δ + x i) % q) = some (w i)) :
    ∑ i ∈ Finset.range ks.length, (w i : ZMod q) = f.eval 0 + δ := by
  have hpos : 0 < ks.length := List.length_pos_iff.2 hne
  have hdeg' : (f + Polynomial.C (δ : ZMod q)).degree < (ks.length : ℕ) := by
    refine lt_of_le_of_lt (Polynomial.degree_add_le _ _) (max_lt hdeg ?_)
    exact lt_of_le_of_lt Polynomial.degree_C_le (by exact_mod_cast hpos)
  have := weights_sum_eval ks (fun i => (δ + x i) % q) w (f + Polynomial.C (δ : ZMod q)) hnd hdeg'
    (fun i hi => by
      simp only [ZMod.natCast_mod, Nat.cast_add, hval i hi, Polynomial.eval_add, Polynomial.eval_C]
      ring) hw
  rw [this, Polynomial.eval_add, Polynomial.eval_C]

/-- the unshifted share is recoverable from the shifted one: nothing is lost by `xi := (δ + xi) mod q` -/
theorem shifted_share_eq (δ x q : Nat) (hq : 0 < q) : ((δ + x) % q + q - δ % q) % q = x % q := by
  have h1 : (δ + x) % q = (δ % q + x % q) % q := Nat.add_mod _ _ _
  have hd : δ % q < q := Nat.mod_lt _ hq
  have hx : x % q < q := Nat.mod_lt _ hq
  rw [h1]
  by_cases hlt : δ % q + x % q < q
  · rw [Nat.mod_eq_of_lt hlt, show δ % q + x % q + q - δ % q = x % q + q by omega,
      Nat.add_mod_right, Nat.mod_mod]
  · have : (δ % q + x % q) % q = δ % q + x % q - q := by
      rw [Nat.mod_eq_sub_mod (by omega), Nat.mod_eq_of_lt (by omega)]
    rw [this, show δ % q + x % q - q + q - δ % q = x % q by omega, Nat.mod_mod]

end TssVerif.MiscL
