import TssVerif.Core.Zk
import TssVerif.Lemmas.CurveLaw
import TssVerif.Lemmas.VssVerify
import TssVerif.Lemmas.C17
/-! Completeness of the two Schnorr proof systems (`crypto/schnorr`) on every lawful curve.
Helper lemmas for `TssVerif/Props/C10.lean`. -/
set_option autoImplicit false
set_option linter.style.haveILetI false
set_option linter.unusedSectionVars false
namespace TssVerif.C10L
open TssVerif Zk Vss

variable {P : Type} {C : Curve P}

/-! ### generic point facts -/

theorem ecIsOnCurve_of_lift {a : ECPoint} {pa : P} (h : C.lift a = some pa) : C.ecIsOnCurve a = true := by
  unfold Curve.ecIsOnCurve; unfold Curve.lift at h; rw [h]; rfl

theorem ecBaseMult_nat_ok {a : Nat} {r : ECPoint} (h : C.toAffine (C.smul a C.base) = some r) :
    C.ecBaseMult (a : Int) = .ok r := ecBaseMult_some C h

theorem ecScalarMult_nat_ok {X : ECPoint} {pX : P} {c : Nat} {r : ECPoint} (hl : C.lift X = some pX)
    (h : C.toAffine (C.smul c pX) = some r) : C.ecScalarMult X (c : Int) = .ok r := by
  unfold Curve.ecScalarMult
  rw [hl]
  simp only [Int.natAbs_natCast, h]

theorem ecAdd_ok {a b r : ECPoint} {pa pb : P} (ha : C.lift a = some pa) (hb : C.lift b = some pb)
    (h : C.toAffine (C.add pa pb) = some r) : C.ecAdd a b = .ok r :=
  (C17L.ecAdd_ok_iff C a b r).2 ⟨pa, pb, ha, hb, h⟩

theorem ecEquals_self (a : ECPoint) : ecEquals a a = true := (ecEquals_iff a a).2 rfl

/-- a point has an affine form unless it is the identity of a curve whose identity has none -/
theorem toAffine_some_of (hC : C.Lawful) (a : P) (h : C.toAffine C.zero = none → a ≠ C.zero) :
    ∃ r, C.toAffine a = some r := by
  cases hr : C.toAffine a with
  | some r => exact ⟨r, rfl⟩
  | none =>
    obtain ⟨h1, h2⟩ := (hC.toAffine_eq_none_iff a).1 hr
    exact absurd h1 (h h2)

/-- the reduction `(a + c·x) mod q` computed on `Int` agrees with the one on `Nat` after reducing `x` -/
theorem resp_eq (q a c : Nat) (x : Int) (hq : 0 < q) :
    ((((a : Int) + (c : Int) * x) % (q : Int)).toNat) = (a + c * (x % (q : Int)).toNat) % q := by
  have hq' : (0 : Int) < q := by exact_mod_cast hq
  have hx0 : 0 ≤ x % (q : Int) := Int.emod_nonneg _ (ne_of_gt hq')
  have e1 : ((x % (q : Int)).toNat : Int) = x % (q : Int) := Int.toNat_of_nonneg hx0
  have e2 : ((a : Int) + (c : Int) * x) % (q : Int) =
      (((a + c * (x % (q : Int)).toNat) % q : Nat) : Int) := by
    push_cast
    rw [e1]
    have : (a : Int) + (c : Int) * x ≡ (a : Int) + (c : Int) * (x % (q : Int)) [ZMOD (q : Int)] :=
      Int.ModEq.add_left _ (Int.ModEq.mul_left _ (Int.mod_modEq x q).symm)
    exact this
  rw [e2, Int.toNat_natCast]

theorem emod_toNat_lt (q : Nat) (x : Int) (hq : 0 < q) : (x % (q : Int)).toNat < q := by
  have hq' : (0 : Int) < q := by exact_mod_cast hq
  have h0 : 0 ≤ x % (q : Int) := Int.emod_nonneg _ (ne_of_gt hq')
  have h1 : x % (q : Int) < q := Int.emod_lt_of_pos _ hq'
  omega

/-! ### Schnorr -/

/-- the prover's commitment, as a function of the coin (default `(0, 0)` where the Go code crashes) -/
def schnorrAlpha (C : Curve P) (a : Nat) : ECPoint := (C.toAffine (C.smul a C.base)).getD (0, 0)

/-- the side conditions on the coin `a` of `NewZKProof`: the challenge is non-zero, the response is non-zero
(both are rejected by the verifier since the K1 repair), and on a curve whose identity has no affine form the
commitment `a·G` is not the identity (`ScalarBaseMult` would crash). -/
def SchnorrGood (C : Curve P) (H : HashFn) (sess : Bytes) (x : Int) (X : ECPoint) (a : Nat) : Prop :=
  (C.toAffine C.zero = none → a % C.q ≠ 0) ∧
  schnorrChallenge C H sess X (schnorrAlpha C a) ≠ 0 ∧
  ((a : Int) + (schnorrChallenge C H sess X (schnorrAlpha C a) : Int) * x) % (C.q : Int) ≠ 0

instance (C : Curve P) (H : HashFn) (sess : Bytes) (x : Int) (X : ECPoint) (a : Nat) :
    Decidable (SchnorrGood C H sess x X a) := by
  unfold SchnorrGood; infer_instance

theorem schnorrChallenge_lt (hC : C.Lawful) (H : HashFn) (sess : Bytes) (X al : ECPoint) :
    schnorrChallenge C H sess X al < C.q := Nat.mod_lt _ hC.q_pos

theorem schnorr_complete_aux (hC : C.Lawful) (H : HashFn) (sess : Bytes) (x : Int) (X : ECPoint) (a : Nat)
    (hX : C.toAffine (C.smul (x % (C.q : Int)).toNat C.base) = some X)
    (hg : SchnorrGood C H sess x X a) :
    (schnorrProve C H sess x X a >>= fun pf => schnorrVerify C H cur sess X pf.1 pf.2) = .ok true := by
  obtain ⟨ha, hc, ht⟩ := hg
  have hq := hC.q_pos
  set x' := (x % (C.q : Int)).toNat with hx'
  have hlX : C.lift X = some (C.smul x' C.base) := lift_of_toAffine hC hX
  -- the commitment
  obtain ⟨al, hal⟩ : ∃ r, C.toAffine (C.smul a C.base) = some r := by
    cases hr : C.toAffine (C.smul a C.base) with
    | some r => exact ⟨r, rfl⟩
    | none =>
      obtain ⟨h1, h2⟩ := (toAffine_smul_base_eq_none_iff hC a).1 hr
      exact absurd h1 (ha h2)
  have hsa : schnorrAlpha C a = al := by unfold schnorrAlpha; rw [hal]; rfl
  rw [hsa] at hc ht
  set c := schnorrChallenge C H sess X al with hcdef
  have hclt : c < C.q := schnorrChallenge_lt hC H sess X al
  -- the response
  have htn : ((((a : Int) + (c : Int) * x) % (C.q : Int)).toNat) = (a + c * x') % C.q :=
    resp_eq C.q a c x hq
  set t := (a + c * x') % C.q with htdef
  have htlt : t < C.q := Nat.mod_lt _ hq
  have ht0 : t ≠ 0 := by
    intro h0
    apply ht
    have h0' : (((a : Int) + (c : Int) * x) % (C.q : Int)).toNat = 0 := by rw [htn]; exact h0
    have hnn : 0 ≤ ((a : Int) + (c : Int) * x) % (C.q : Int) :=
      Int.emod_nonneg _ (by exact_mod_cast (ne_of_gt hq))
    omega
  have htq : t % C.q ≠ 0 := by rw [Nat.mod_eq_of_lt htlt]; exact ht0
  obtain ⟨tG, htG⟩ := toAffine_smul_base_isSome hC htq
  -- `c·X`
  have hcX : C.smul c (C.smul x' C.base) = C.smul (c * x') C.base := (hC.smul_mul c x' C.base).symm
  obtain ⟨xc, hxc⟩ : ∃ r, C.toAffine (C.smul c (C.smul x' C.base)) = some r := by
    rw [hcX]
    cases hr : C.toAffine (C.smul (c * x') C.base) with
    | some r => exact ⟨r, rfl⟩
    | none =>
      obtain ⟨h1, h2⟩ := (toAffine_smul_base_eq_none_iff hC _).1 hr
      have hcq : c % C.q ≠ 0 := by rw [Nat.mod_eq_of_lt hclt]; exact hc
      have hxq : x' % C.q ≠ 0 := by
        intro h0
        have := (toAffine_smul_base_eq_none_iff hC x').2 ⟨h0, h2⟩
        rw [hX] at this; cases this
      exact absurd h1 (mul_mod_ne_zero hC hcq hxq)
  -- the sum
  have hsum : C.toAffine (C.add (C.smul a C.base) (C.smul c (C.smul x' C.base))) = some tG := by
    rw [hcX, ← hC.smul_add, hC.smul_base_mod, ← htdef]; exact htG
  -- run the prover and the verifier
  have hon : C.ecIsOnCurve X = true := ecIsOnCurve_of_lift hlX
  have hprove : schnorrProve C H sess x X a = .ok (al, t) := by
    unfold schnorrProve
    simp only [hon, Bool.not_true, Bool.false_eq_true, if_false, ecBaseMult_nat_ok hal, Outcome.ok_bind,
      ← hcdef, htn]
  have hverify : schnorrVerify C H cur sess X al t = .ok true := by
    unfold schnorrVerify
    have hguard : (cur.schnorrGuards && (t % C.q == 0 || c == 0)) = false := by
      simp [cur, htq, hc]
    simp only [← hcdef, hguard, Bool.false_eq_true, if_false, ecBaseMult_nat_ok htG, Outcome.ok_bind,
      ecScalarMult_nat_ok hlX hxc,
      ecAdd_ok (lift_of_toAffine hC hal) (lift_of_toAffine hC hxc) hsum, ecEquals_self]
  rw [hprove]
  exact hverify

/-- the side conditions are also NECESSARY: if the honest run is accepted, the coin was good -/
theorem schnorr_good_of_accept (hC : C.Lawful) (H : HashFn) (sess : Bytes) (x : Int) (X : ECPoint) (a : Nat)
    (hX : C.toAffine (C.smul (x % (C.q : Int)).toNat C.base) = some X)
    (h : (schnorrProve C H sess x X a >>= fun pf => schnorrVerify C H cur sess X pf.1 pf.2) = .ok true) :
    SchnorrGood C H sess x X a := by
  have hq := hC.q_pos
  have hlX : C.lift X = some (C.smul (x % (C.q : Int)).toNat C.base) := lift_of_toAffine hC hX
  have hon : C.ecIsOnCurve X = true := ecIsOnCurve_of_lift hlX
  cases hr : C.toAffine (C.smul a C.base) with
  | none =>
    exfalso
    have : schnorrProve C H sess x X a = .panic "scalar-base-mult-identity" := by
      unfold schnorrProve
      simp only [hon, Bool.not_true, Bool.false_eq_true, if_false, ecBaseMult_none C hr, Outcome.panic_bind]
    rw [this] at h
    cases h
  | some al =>
    have hsa : schnorrAlpha C a = al := by unfold schnorrAlpha; rw [hr]; rfl
    have ha : C.toAffine C.zero = none → a % C.q ≠ 0 := by
      intro hz h0
      have := (toAffine_smul_base_eq_none_iff hC a).2 ⟨h0, hz⟩
      rw [hr] at this; cases this
    unfold SchnorrGood
    rw [hsa]
    set c := schnorrChallenge C H sess X al with hcdef
    have hprove : schnorrProve C H sess x X a = .ok (al, (((a : Int) + (c : Int) * x) % (C.q : Int)).toNat) := by
      unfold schnorrProve
      simp only [hon, Bool.not_true, Bool.false_eq_true, if_false, ecBaseMult_nat_ok hr, Outcome.ok_bind,
        ← hcdef]
    rw [hprove, Outcome.ok_bind] at h
    set t := (((a : Int) + (c : Int) * x) % (C.q : Int)).toNat with htdef
    have hnn : 0 ≤ ((a : Int) + (c : Int) * x) % (C.q : Int) :=
      Int.emod_nonneg _ (by exact_mod_cast (ne_of_gt hq))
    have hlt : ((a : Int) + (c : Int) * x) % (C.q : Int) < C.q := Int.emod_lt_of_pos _ (by exact_mod_cast hq)
    by_cases hguard : (t % C.q == 0 || c == 0) = true
    · exfalso
      unfold schnorrVerify at h
      simp only [← hcdef, cur, hguard, Bool.and_self, if_true] at h
      cases h
    · simp only [Bool.or_eq_true, beq_iff_eq, not_or] at hguard
      refine ⟨ha, hguard.2, ?_⟩
      intro h0
      apply hguard.1
      rw [htdef, h0]
      simp

/-! ### Schnorr-V -/

theorem smul_mod_of_order (hC : C.Lawful) {p : P} (hq : C.smul C.q p = C.zero) (k : Nat) :
    C.smul (k % C.q) p = C.smul k p := by
  conv_rhs => rw [← Nat.div_add_mod k C.q, Nat.mul_comm]
  rw [hC.smul_add, hC.smul_mul, hq, hC.smul_zero_right, hC.zero_add]

theorem smul_q_comb (hC : C.Lawful) {p : P} (hq : C.smul C.q p = C.zero) (s l : Nat) :
    C.smul C.q (C.add (C.smul s p) (C.smul l C.base)) = C.zero := by
  rw [hC.smul_add_right, ← hC.smul_mul, ← hC.smul_mul, Nat.mul_comm C.q s, Nat.mul_comm C.q l,
    hC.smul_mul, hC.smul_mul, hq, hC.smul_q_base, hC.smul_zero_right, hC.smul_zero_right, hC.zero_add]

theorem sv_algebra (hC : C.Lawful) (a b c s l : Nat) (p : P) :
    C.add (C.smul (a + c * s) p) (C.smul (b + c * l) C.base) =
      C.add (C.add (C.smul a p) (C.smul b C.base)) (C.smul c (C.add (C.smul s p) (C.smul l C.base))) := by
  rw [hC.smul_add, hC.smul_add, hC.smul_mul, hC.smul_mul, hC.smul_add_right]
  letI := hC.groupLaws.addCommGroup
  exact add_add_add_comm (C.smul a p) (C.smul c (C.smul s p)) (C.smul b C.base) (C.smul c (C.smul l C.base))

/-- the prover's commitment point `a·R + b·G` -/
def svPoint (C : Curve P) (pR : P) (a b : Nat) : P := C.add (C.smul a pR) (C.smul b C.base)

def svAlpha (C : Curve P) (pR : P) (a b : Nat) : ECPoint := (C.toAffine (svPoint C pR a b)).getD (0, 0)

/-- side conditions on the coins `a, b` of `NewZKVProof` (`pR` is the internal form of `R`): challenge and both
responses non-zero; on a curve whose identity has no affine form, additionally none of `a·R`, `b·G`,
`a·R + b·G` and `t·R + u·G` is the identity. -/
def SchnorrVGood (C : Curve P) (H : HashFn) (sess : Bytes) (V R : ECPoint) (pR : P) (s l : Int) (a b : Nat) : Prop :=
  let c := schnorrVChallenge C H sess V R (svAlpha C pR a b)
  let t := (((a : Int) + (c : Int) * s) % (C.q : Int)).toNat
  let u := (((b : Int) + (c : Int) * l) % (C.q : Int)).toNat
  c ≠ 0 ∧ t ≠ 0 ∧ u ≠ 0 ∧
  (C.toAffine C.zero = none → a % C.q ≠ 0 ∧ b % C.q ≠ 0 ∧ C.toAffine (svPoint C pR a b) ≠ none ∧
    C.toAffine (svPoint C pR t u) ≠ none)

instance (C : Curve P) (H : HashFn) (sess : Bytes) (V R : ECPoint) (pR : P) (s l : Int) (a b : Nat) :
    Decidable (SchnorrVGood C H sess V R pR s l a b) := by
  unfold SchnorrVGood; infer_instance

theorem schnorrV_complete_aux (hC : C.Lawful) (H : HashFn) (sess : Bytes) (V R : ECPoint) (pR : P)
    (s l : Int) (a b : Nat)
    (hR : C.lift R = some pR) (hRq : C.smul C.q pR = C.zero)
    (hV : C.toAffine (C.add (C.smul (s % (C.q : Int)).toNat pR) (C.smul (l % (C.q : Int)).toNat C.base)) = some V)
    (hg : SchnorrVGood C H sess V R pR s l a b) :
    (schnorrVProve C H sess V R s l a b >>= fun pf => schnorrVVerify C H cur sess V R pf.1 pf.2.1 pf.2.2)
      = .ok true := by
  have hq := hC.q_pos
  set s' := (s % (C.q : Int)).toNat with hs'
  set l' := (l % (C.q : Int)).toNat with hl'
  set pV := C.add (C.smul s' pR) (C.smul l' C.base) with hpV
  have hlV : C.lift V = some pV := lift_of_toAffine hC hV
  have hRaff : C.toAffine pR = some R := hC.ofAffine_toAffine _ _ _ hR
  have hVq : C.smul C.q pV = C.zero := smul_q_comb hC hRq s' l'
  -- non-identity facts on a curve without affine identity
  have hne : ∀ {p : P} {r : ECPoint}, C.toAffine p = some r → C.toAffine C.zero = none → p ≠ C.zero := by
    intro p r hp hz h0; rw [h0, hz] at hp; cases hp
  have hsm : ∀ {p : P} {r : ECPoint} {k : Nat}, C.toAffine p = some r → C.smul C.q p = C.zero → k % C.q ≠ 0 →
      ∃ r', C.toAffine (C.smul k p) = some r' := by
    intro p r k hp hpq hk
    apply toAffine_some_of hC
    intro hz h0
    exact hne hp hz (hC.eq_zero_of_smul_eq_zero hpq hk h0)
  unfold SchnorrVGood at hg
  -- commitment
  have hA : ∃ al, C.toAffine (svPoint C pR a b) = some al := by
    apply toAffine_some_of hC
    intro hz h0
    exact (hg.2.2.2 hz).2.2.1 (by rw [h0]; exact hz)
  obtain ⟨al, hal⟩ := hA
  have hsa : svAlpha C pR a b = al := by unfold svAlpha; rw [hal]; rfl
  rw [hsa] at hg
  set c := schnorrVChallenge C H sess V R al with hcdef
  have hclt : c < C.q := Nat.mod_lt _ hq
  obtain ⟨hc, ht0, hu0, hW⟩ := hg
  have htn := resp_eq C.q a c s hq
  have hun := resp_eq C.q b c l hq
  rw [← hs'] at htn
  rw [← hl'] at hun
  rw [htn] at ht0 hW
  rw [hun] at hu0 hW
  set t := (a + c * s') % C.q with htdef
  set u := (b + c * l') % C.q with hudef
  have htq : t % C.q ≠ 0 := by rw [htdef, Nat.mod_mod]; exact ht0
  have huq : u % C.q ≠ 0 := by rw [hudef, Nat.mod_mod]; exact hu0
  have hcq : c % C.q ≠ 0 := by rw [Nat.mod_eq_of_lt hclt]; exact hc
  -- prover points
  obtain ⟨aR, haR⟩ : ∃ r, C.toAffine (C.smul a pR) = some r := by
    apply toAffine_some_of hC
    intro hz h0
    exact hne hRaff hz (hC.eq_zero_of_smul_eq_zero hRq (hW hz).1 h0)
  obtain ⟨bG, hbG⟩ : ∃ r, C.toAffine (C.smul b C.base) = some r := by
    apply toAffine_some_of hC
    intro hz h0
    exact (hW hz).2.1 ((hC.smul_base_eq_zero_iff b).1 h0)
  -- verifier points
  obtain ⟨tR, htR⟩ := hsm (k := t) hRaff hRq htq
  obtain ⟨uG, huG⟩ := toAffine_smul_base_isSome hC huq
  obtain ⟨vc, hvc⟩ := hsm (k := c) hV hVq hcq
  have halg : svPoint C pR t u = C.add (svPoint C pR a b) (C.smul c pV) := by
    unfold svPoint
    rw [htdef, hudef, smul_mod_of_order hC hRq, ← hC.smul_base_mod, sv_algebra hC]
  obtain ⟨w, hw⟩ : ∃ r, C.toAffine (svPoint C pR t u) = some r := by
    apply toAffine_some_of hC
    intro hz h0
    exact (hW hz).2.2.2 (by rw [h0]; exact hz)
  have hlal : C.lift al = some (svPoint C pR a b) := lift_of_toAffine hC hal
  have hprove : schnorrVProve C H sess V R s l a b = .ok (al, t, u) := by
    unfold schnorrVProve
    have h1 : C.ecIsOnCurve V = true := ecIsOnCurve_of_lift hlV
    have h2 : C.ecIsOnCurve R = true := ecIsOnCurve_of_lift hR
    simp only [h1, h2, Bool.not_true, Bool.or_self, Bool.false_eq_true, if_false,
      ecScalarMult_nat_ok hR haR, ecBaseMult_nat_ok hbG, Outcome.ok_bind,
      ecAdd_ok (lift_of_toAffine hC haR) (lift_of_toAffine hC hbG) hal, ← hcdef, htn, hun]
  have hverify : schnorrVVerify C H cur sess V R al t u = .ok true := by
    unfold schnorrVVerify
    have h1 : C.ecIsOnCurve al = true := ecIsOnCurve_of_lift hlal
    have hguard : (cur.schnorrGuards && (t % C.q == 0 || u % C.q == 0 || c == 0)) = false := by
      simp [cur, htq, huq, hc]
    simp only [h1, Bool.not_true, Bool.false_eq_true, if_false, ← hcdef, hguard,
      ecScalarMult_nat_ok hR htR, ecBaseMult_nat_ok huG, Outcome.ok_bind,
      ecAdd_ok (lift_of_toAffine hC htR) (lift_of_toAffine hC huG) hw,
      ecScalarMult_nat_ok hlV hvc,
      ecAdd_ok hlal (lift_of_toAffine hC hvc) (halg ▸ hw), ecEquals_self]
  rw [hprove]
  exact hverify

theorem ecAdd_none {a b : ECPoint} {pa pb : P} (ha : C.lift a = some pa) (hb : C.lift b = some pb)
    (h : C.toAffine (C.add pa pb) = none) : C.ecAdd a b = .err "not-on-curve" := by
  unfold Curve.ecAdd
  rw [ha, hb]
  simp only [h]

theorem ecScalarMult_nat_none {X : ECPoint} {pX : P} {c : Nat} (hl : C.lift X = some pX)
    (h : C.toAffine (C.smul c pX) = none) : C.ecScalarMult X (c : Int) = .panic "scalar-mult-identity" :=
  C17L.ecScalarMult_of_none C X (c : Int) pX hl (by simpa using h)

/-- the side conditions of Schnorr-V are also NECESSARY -/
theorem schnorrV_good_of_accept (hC : C.Lawful) (H : HashFn) (sess : Bytes) (V R : ECPoint) (pR : P)
    (s l : Int) (a b : Nat)
    (hR : C.lift R = some pR) (hRq : C.smul C.q pR = C.zero)
    (hV : C.toAffine (C.add (C.smul (s % (C.q : Int)).toNat pR) (C.smul (l % (C.q : Int)).toNat C.base)) = some V)
    (h : (schnorrVProve C H sess V R s l a b >>= fun pf => schnorrVVerify C H cur sess V R pf.1 pf.2.1 pf.2.2)
      = .ok true) :
    SchnorrVGood C H sess V R pR s l a b := by
  have hq := hC.q_pos
  have hlV : C.lift V = some _ := lift_of_toAffine hC hV
  have h1 : C.ecIsOnCurve V = true := ecIsOnCurve_of_lift hlV
  have h2 : C.ecIsOnCurve R = true := ecIsOnCurve_of_lift hR
  -- the prover's three points exist, otherwise it crashes
  cases haR : C.toAffine (C.smul a pR) with
  | none =>
    exfalso
    have : schnorrVProve C H sess V R s l a b = .panic "scalar-mult-identity" := by
      unfold schnorrVProve
      simp only [h1, h2, Bool.not_true, Bool.or_self, Bool.false_eq_true, if_false,
        ecScalarMult_nat_none hR haR, Outcome.panic_bind]
    rw [this] at h; cases h
  | some aR =>
  cases hbG : C.toAffine (C.smul b C.base) with
  | none =>
    exfalso
    have : schnorrVProve C H sess V R s l a b = .panic "scalar-base-mult-identity" := by
      unfold schnorrVProve
      simp only [h1, h2, Bool.not_true, Bool.or_self, Bool.false_eq_true, if_false,
        ecScalarMult_nat_ok hR haR, ecBaseMult_none C hbG, Outcome.ok_bind, Outcome.panic_bind]
    rw [this] at h; cases h
  | some bG =>
  cases hal : C.toAffine (svPoint C pR a b) with
  | none =>
    exfalso
    have : schnorrVProve C H sess V R s l a b = .panic "nil-alpha" := by
      unfold schnorrVProve
      simp only [h1, h2, Bool.not_true, Bool.or_self, Bool.false_eq_true, if_false,
        ecScalarMult_nat_ok hR haR, ecBaseMult_nat_ok hbG, Outcome.ok_bind,
        ecAdd_none (lift_of_toAffine hC haR) (lift_of_toAffine hC hbG) hal]
    rw [this] at h; cases h
  | some al =>
  have hsa : svAlpha C pR a b = al := by unfold svAlpha; rw [hal]; rfl
  unfold SchnorrVGood
  rw [hsa]
  set c := schnorrVChallenge C H sess V R al with hcdef
  set t := (((a : Int) + (c : Int) * s) % (C.q : Int)).toNat with htdef
  set u := (((b : Int) + (c : Int) * l) % (C.q : Int)).toNat with hudef
  have hprove : schnorrVProve C H sess V R s l a b = .ok (al, t, u) := by
    unfold schnorrVProve
    simp only [h1, h2, Bool.not_true, Bool.or_self, Bool.false_eq_true, if_false,
      ecScalarMult_nat_ok hR haR, ecBaseMult_nat_ok hbG, Outcome.ok_bind,
      ecAdd_ok (lift_of_toAffine hC haR) (lift_of_toAffine hC hbG) hal, ← hcdef]
    rfl
  rw [hprove, Outcome.ok_bind] at h
  change schnorrVVerify C H cur sess V R al t u = .ok true at h
  have htlt : t < C.q := emod_toNat_lt C.q _ hq
  have hult : u < C.q := emod_toNat_lt C.q _ hq
  have hlal : C.lift al = some (svPoint C pR a b) := lift_of_toAffine hC hal
  have h3 : C.ecIsOnCurve al = true := ecIsOnCurve_of_lift hlal
  by_cases hguard : (t % C.q == 0 || u % C.q == 0 || c == 0) = true
  · exfalso
    have hg1 : (cur.schnorrGuards && (t % C.q == 0 || u % C.q == 0 || c == 0)) = true := by
      rw [hguard]; rfl
    unfold schnorrVVerify at h
    simp only [h3, Bool.not_true, Bool.false_eq_true, if_false, ← hcdef, hg1, if_true] at h
    cases h
  simp only [Bool.or_eq_true, beq_iff_eq, not_or, Nat.mod_eq_of_lt htlt, Nat.mod_eq_of_lt hult] at hguard
  obtain ⟨⟨ht0, hu0⟩, hc0⟩ := hguard
  have hguard' : (t % C.q == 0 || u % C.q == 0 || c == 0) = false := by
    simp [Nat.mod_eq_of_lt htlt, Nat.mod_eq_of_lt hult, ht0, hu0, hc0]
  -- the verifier's points
  cases htR : C.toAffine (C.smul t pR) with
  | none =>
    exfalso
    unfold schnorrVVerify at h
    simp only [h3, Bool.not_true, Bool.false_eq_true, if_false, ← hcdef, cur, Bool.true_and, hguard',
      ecScalarMult_nat_none hR htR, Outcome.panic_bind] at h
    cases h
  | some tR =>
  cases huG : C.toAffine (C.smul u C.base) with
  | none =>
    exfalso
    unfold schnorrVVerify at h
    simp only [h3, Bool.not_true, Bool.false_eq_true, if_false, ← hcdef, cur, Bool.true_and, hguard',
      ecScalarMult_nat_ok hR htR, ecBaseMult_none C huG, Outcome.ok_bind, Outcome.panic_bind] at h
    cases h
  | some uG =>
  cases hw : C.toAffine (svPoint C pR t u) with
  | none =>
    exfalso
    unfold schnorrVVerify at h
    simp only [h3, Bool.not_true, Bool.false_eq_true, if_false, ← hcdef, cur, Bool.true_and, hguard',
      ecScalarMult_nat_ok hR htR, ecBaseMult_nat_ok huG, Outcome.ok_bind,
      ecAdd_none (lift_of_toAffine hC htR) (lift_of_toAffine hC huG) hw, if_true] at h
    cases h
  | some w =>
  refine ⟨hc0, ht0, hu0, fun hz => ⟨?_, ?_, by rw [hal]; simp, ?_⟩⟩
  rotate_left 2
  · show C.toAffine (svPoint C pR t u) ≠ none
    rw [hw]; simp
  · intro h0
    have : C.smul a pR = C.zero := by
      rw [← smul_mod_of_order hC hRq a, h0]; rfl
    rw [this, hz] at haR; cases haR
  · intro h0
    have := (toAffine_smul_base_eq_none_iff hC b).2 ⟨h0, hz⟩
    rw [hbG] at this; cases this

end TssVerif.C10L
