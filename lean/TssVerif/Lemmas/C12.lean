import TssVerif.Core.Zk
import TssVerif.Lemmas.C16
import TssVerif.Lemmas.C17
import TssVerif.Lemmas.CurveLaw
import TssVerif.Lemmas.GoIntSpec
/-! Definitions (challenge pre-image lists) and helper lemmas for `TssVerif/Props/C12.lean`. -/
set_option autoImplicit false
set_option linter.style.haveILetI false
set_option linter.unusedSectionVars false

/-! ## the integer lists the Fiat–Shamir challenges hash -/
namespace TssVerif.C12
open TssVerif Zk

/-- every entry is a non-negative integer (Go's `Bytes()` drops the sign, so only then do the bytes
determine the integer) -/
def NonNeg (l : List Int) : Prop := ∀ x ∈ l, 0 ≤ x

namespace Schnorr
/-- statement `X` (with the generator `g`), first move `alpha` -/
def preimage (g X alpha : ECPoint) : List Int := [X.1, X.2, g.1, g.2, alpha.1, alpha.2]
end Schnorr

namespace SchnorrV
/-- statement `(V, R)` (with the generator `g`), first move `alpha` -/
def preimage (g V R alpha : ECPoint) : List Int :=
  [V.1, V.2, R.1, R.2, g.1, g.2, alpha.1, alpha.2]
end SchnorrV

namespace Bob
/-- statement `(N, c1, c2)` and, with check, `X`; first moves `U` (with check), `z, z', t, v, w`.
`N + 1` is the Paillier `Gamma` (`pk.AsInts()`); `Ñ, h1, h2` are NOT hashed. -/
def preimage (n c1 c2 : Int) (xu : Option (ECPoint × ECPoint)) (pf : BobProof) : List Int :=
  match xu with
  | none => [n, n + 1, c1, c2, pf.z, pf.zPrm, pf.t, pf.v, pf.w]
  | some (X, U) => [n, n + 1, X.1, X.2, c1, c2, U.1, U.2, pf.z, pf.zPrm, pf.t, pf.v, pf.w]
end Bob

namespace Fac
/-- statement `(N0, N̂, s, t)`, first moves `P, Q, A, B, T, σ` -/
def preimage (n0 ncap s t : Int) (pf : FacProof) : List Int :=
  [n0, ncap, s, t, pf.P, pf.Q, pf.A, pf.B, pf.T, pf.sigma]
end Fac

namespace Mod
/-- statement `N`, first move `W`, and the challenges `Y_0 … Y_{i-1}` already derived -/
def preimage (w n : Int) (ys : List Nat) : List Int := w :: n :: ys.map Int.ofNat
end Mod

namespace Range
/-- statement `(N, c)`, first moves `z, u, w`; `Ñ, h1, h2` are NOT hashed -/
def preimage (n c z u w : Int) : List Int := [n, n + 1, c, z, u, w]
end Range

namespace Dln
/-- statement `(h1, h2, N)`, first moves `alpha_1 … alpha_128` -/
def preimage (h1 h2 n : Int) (alpha : List Int) : List Int := h1 :: h2 :: n :: alpha
end Dln

namespace PaillierKey
/-- the byte strings hashed for block `j` of candidate `(i, cnt)` of `GenerateXs(m, k, N, pub)` -/
def preimage (i j cnt : Nat) (k : Int) (pub : ECPoint) (n : Int) : List Bytes :=
  [Paillier.itoa i, Paillier.itoa j, Paillier.itoa cnt, intToBytesBE k, natToBytesBE pub.1,
    natToBytesBE pub.2, intToBytesBE n]
end PaillierKey

end TssVerif.C12

namespace TssVerif.C12L
open TssVerif Zk C12

/-! ## bytes of integers -/

theorem intToBytesBE_eq (z : Int) : intToBytesBE z = natToBytesBE z.natAbs := rfl

theorem map_intToBytesBE (l : List Int) :
    l.map intToBytesBE = (l.map Int.natAbs).map natToBytesBE := by
  simp [List.map_map, Function.comp_def, intToBytesBE_eq]

theorem map_bytes_inj {l l' : List Int} (h : l.map intToBytesBE = l'.map intToBytesBE) :
    l.map Int.natAbs = l'.map Int.natAbs := by
  rw [map_intToBytesBE, map_intToBytesBE] at h
  exact (List.map_inj_right (fun _ _ => C16L.natToBytesBE_inj)).1 h

theorem eq_of_map_natAbs_eq : ∀ {l l' : List Int}, NonNeg l → NonNeg l' →
    l.map Int.natAbs = l'.map Int.natAbs → l = l'
  | [], [], _, _, _ => rfl
  | [], _ :: _, _, _, h => by simp at h
  | _ :: _, [], _, _, h => by simp at h
  | a :: l, b :: l', hl, hl', h => by
    simp only [List.map_cons, List.cons.injEq] at h
    have ha : 0 ≤ a := hl a (by simp)
    have hb : 0 ≤ b := hl' b (by simp)
    have e : a = b := by omega
    have := eq_of_map_natAbs_eq (l := l) (l' := l') (fun x hx => hl x (by simp [hx]))
      (fun x hx => hl' x (by simp [hx])) h.2
    rw [e, this]

/-- **the framed bytes of an integer list determine the absolute values** (Go drops the sign) -/
theorem frame_int_natAbs {l l' : List Int} (hs : C16L.Short (l.map intToBytesBE))
    (hs' : C16L.Short (l'.map intToBytesBE))
    (h : frame (l.map intToBytesBE) = frame (l'.map intToBytesBE)) :
    l.map Int.natAbs = l'.map Int.natAbs :=
  map_bytes_inj (C16L.frame_inj hs hs' h)

/-- … and the integers themselves when they are non-negative -/
theorem frame_int_inj {l l' : List Int} (hn : NonNeg l) (hn' : NonNeg l')
    (hs : C16L.Short (l.map intToBytesBE)) (hs' : C16L.Short (l'.map intToBytesBE))
    (h : frame (l.map intToBytesBE) = frame (l'.map intToBytesBE)) : l = l' :=
  eq_of_map_natAbs_eq hn hn' (frame_int_natAbs hs hs' h)

/-- the tagged pre-image splits: tag digest, then framed inputs (digests of one fixed length) -/
theorem tagged_split (H : HashFn) (hlen : ∀ x y, (H x).length = (H y).length)
    {tag tag' : Bytes} {l l' : List Int}
    (h : taggedPreimage H tag l = taggedPreimage H tag' l') :
    H (frame [tag]) = H (frame [tag']) ∧
      frame (l.map intToBytesBE) = frame (l'.map intToBytesBE) := by
  unfold taggedPreimage at h
  rw [List.append_assoc, List.append_assoc] at h
  obtain ⟨h1, h2⟩ := List.append_inj h (hlen _ _)
  obtain ⟨_, h3⟩ := List.append_inj h2 (hlen _ _)
  exact ⟨h1, h3⟩

theorem tagged_int_inj (H : HashFn) (hlen : ∀ x y, (H x).length = (H y).length)
    {tag tag' : Bytes} {l l' : List Int} (hn : NonNeg l) (hn' : NonNeg l')
    (hs : C16L.Short (l.map intToBytesBE)) (hs' : C16L.Short (l'.map intToBytesBE))
    (h : taggedPreimage H tag l = taggedPreimage H tag' l') :
    l = l' ∧ H (frame [tag]) = H (frame [tag']) := by
  obtain ⟨h1, h2⟩ := tagged_split H hlen h
  exact ⟨frame_int_inj hn hn' hs hs' h2, h1⟩

/-- a one-element frame determines the element (no length bound needed) -/
theorem frame_singleton_inj {a b : Bytes} (h : frame [a] = frame [b]) : a = b := by
  have hl : a.length = b.length := by
    have := congrArg List.length h
    simp [frame, frameElem, C16L.le64_length] at this
    omega
  simp only [frame, List.map_cons, List.map_nil, List.flatten_cons, List.flatten_nil,
    List.append_nil, List.length_cons, List.length_nil, frameElem] at h
  have h2 := (List.append_inj h rfl).2
  rw [List.append_assoc, List.append_assoc] at h2
  exact (List.append_inj h2 hl).1

/-! ## non-negativity of the point-only pre-images -/

theorem nonNeg_schnorr (g X a : ECPoint) : NonNeg (Schnorr.preimage g X a) := by
  intro x hx
  simp only [Schnorr.preimage, List.mem_cons, List.not_mem_nil, or_false] at hx
  rcases hx with rfl | rfl | rfl | rfl | rfl | rfl <;> exact Int.natCast_nonneg _

theorem nonNeg_schnorrV (g V R a : ECPoint) : NonNeg (SchnorrV.preimage g V R a) := by
  intro x hx
  simp only [SchnorrV.preimage, List.mem_cons, List.not_mem_nil, or_false] at hx
  rcases hx with rfl | rfl | rfl | rfl | rfl | rfl | rfl | rfl <;> exact Int.natCast_nonneg _

/-! ## list pre-images determine their arguments -/

theorem schnorr_preimage_inj {g X a g' X' a' : ECPoint}
    (h : Schnorr.preimage g X a = Schnorr.preimage g' X' a') : g = g' ∧ X = X' ∧ a = a' := by
  simp only [Schnorr.preimage, List.cons.injEq, Int.natCast_inj, and_true] at h
  obtain ⟨h1, h2, h3, h4, h5, h6⟩ := h
  exact ⟨Prod.ext h3 h4, Prod.ext h1 h2, Prod.ext h5 h6⟩

theorem schnorrV_preimage_inj {g V R a g' V' R' a' : ECPoint}
    (h : SchnorrV.preimage g V R a = SchnorrV.preimage g' V' R' a') :
    g = g' ∧ V = V' ∧ R = R' ∧ a = a' := by
  simp only [SchnorrV.preimage, List.cons.injEq, Int.natCast_inj, and_true] at h
  obtain ⟨h1, h2, h3, h4, h5, h6, h7, h8⟩ := h
  exact ⟨Prod.ext h5 h6, Prod.ext h1 h2, Prod.ext h3 h4, Prod.ext h7 h8⟩

theorem bob_preimage_inj {n c1 c2 n' c1' c2' : Int} {xu xu' : Option (ECPoint × ECPoint)}
    {pf pf' : BobProof} (h : Bob.preimage n c1 c2 xu pf = Bob.preimage n' c1' c2' xu' pf') :
    n = n' ∧ c1 = c1' ∧ c2 = c2' ∧ xu = xu' ∧ pf.z = pf'.z ∧ pf.zPrm = pf'.zPrm ∧ pf.t = pf'.t ∧
      pf.v = pf'.v ∧ pf.w = pf'.w := by
  rcases xu with _ | ⟨X, U⟩ <;> rcases xu' with _ | ⟨X', U'⟩
  · simp only [Bob.preimage, List.cons.injEq, and_true] at h
    obtain ⟨h1, _, h3, h4, h5, h6, h7, h8, h9⟩ := h
    exact ⟨h1, h3, h4, rfl, h5, h6, h7, h8, h9⟩
  · have := congrArg List.length h
    simp [Bob.preimage] at this
  · have := congrArg List.length h
    simp [Bob.preimage] at this
  · simp only [Bob.preimage, List.cons.injEq, Int.natCast_inj, and_true] at h
    obtain ⟨h1, _, x1, x2, h3, h4, u1, u2, h5, h6, h7, h8, h9⟩ := h
    have hX : X = X' := Prod.ext x1 x2
    have hU : U = U' := Prod.ext u1 u2
    exact ⟨h1, h3, h4, by rw [hX, hU], h5, h6, h7, h8, h9⟩

theorem fac_preimage_inj {n0 ncap s t n0' ncap' s' t' : Int} {pf pf' : FacProof}
    (h : Fac.preimage n0 ncap s t pf = Fac.preimage n0' ncap' s' t' pf') :
    n0 = n0' ∧ ncap = ncap' ∧ s = s' ∧ t = t' ∧ pf.P = pf'.P ∧ pf.Q = pf'.Q ∧ pf.A = pf'.A ∧
      pf.B = pf'.B ∧ pf.T = pf'.T ∧ pf.sigma = pf'.sigma := by
  simpa only [Fac.preimage, List.cons.injEq, and_true] using h

theorem mod_preimage_inj {w n w' n' : Int} {ys ys' : List Nat}
    (h : Mod.preimage w n ys = Mod.preimage w' n' ys') : w = w' ∧ n = n' ∧ ys = ys' := by
  simp only [Mod.preimage, List.cons.injEq] at h
  refine ⟨h.1, h.2.1, ?_⟩
  exact (List.map_inj_right (fun a b hab => Int.ofNat.inj hab)).1 h.2.2

theorem range_preimage_inj {n c z u w n' c' z' u' w' : Int}
    (h : Range.preimage n c z u w = Range.preimage n' c' z' u' w') :
    n = n' ∧ c = c' ∧ z = z' ∧ u = u' ∧ w = w' := by
  simp only [Range.preimage, List.cons.injEq, and_true] at h
  obtain ⟨h1, _, h3, h4, h5, h6⟩ := h
  exact ⟨h1, h3, h4, h5, h6⟩

theorem dln_preimage_inj {h1 h2 n h1' h2' n' : Int} {al al' : List Int}
    (h : Dln.preimage h1 h2 n al = Dln.preimage h1' h2' n' al') :
    h1 = h1' ∧ h2 = h2' ∧ n = n' ∧ al = al' := by
  simpa only [Dln.preimage, List.cons.injEq] using h


/-- the generic statement behind every `X_challenge_binding` / `X_other_context_needs_collision` -/
theorem tagged_context (H : HashFn) (hlen : ∀ x y, (H x).length = (H y).length)
    {sess sess' : Bytes} {l l' : List Int} (hn : NonNeg l) (hn' : NonNeg l')
    (hs : C16L.Short (l.map intToBytesBE)) (hs' : C16L.Short (l'.map intToBytesBE))
    (h : taggedPreimage H sess l = taggedPreimage H sess' l') :
    l = l' ∧ (sess = sess' ∨
      (sess ≠ sess' ∧ frame [sess] ≠ frame [sess'] ∧ H (frame [sess]) = H (frame [sess']))) := by
  obtain ⟨h1, h2⟩ := tagged_int_inj H hlen hn hn' hs hs' h
  refine ⟨h1, ?_⟩
  by_cases e : sess = sess'
  · exact Or.inl e
  · exact Or.inr ⟨e, fun hf => e (frame_singleton_inj hf), h2⟩

/-! ## discharging `Short` -/

theorem natToBytesLE_length_le : ∀ (k n : Nat), n < 256 ^ k → (natToBytesLE n).length ≤ k
  | 0, n, h => by
    have : n = 0 := by simpa using h
    subst this
    rw [natToBytesLE]; simp
  | k + 1, n, h => by
    rw [natToBytesLE]
    split
    · simp
    · have : n / 256 < 256 ^ k := by
        rw [Nat.div_lt_iff_lt_mul (by decide)]
        rw [Nat.pow_succ] at h
        exact h
      have := natToBytesLE_length_le k (n / 256) this
      simp only [List.length_cons]
      omega

/-- integers below `256^k` in absolute value, `k < 2^64`, have short byte strings -/
theorem short_of_lt_pow (k : Nat) (hk : k < 2 ^ 64) {l : List Int}
    (h : ∀ x ∈ l, x.natAbs < 256 ^ k) : C16L.Short (l.map intToBytesBE) := by
  intro b hb
  obtain ⟨x, hx, rfl⟩ := List.mem_map.1 hb
  have := natToBytesLE_length_le k x.natAbs (h x hx)
  simp only [intToBytesBE, natToBytesBE, List.length_reverse]
  omega

/-! ## `Outcome` plumbing -/

theorem bind_eq_ok {α β : Type} {x : Outcome α} {f : α → Outcome β} {b : β} :
    (x >>= f) = .ok b ↔ ∃ a, x = .ok a ∧ f a = .ok b := by
  cases x with
  | ok a => exact ⟨fun h => ⟨a, rfl, h⟩, fun ⟨a', e, h⟩ => by cases e; exact h⟩
  | err t => exact ⟨(fun h => nomatch h), (fun ⟨_, e, _⟩ => nomatch e)⟩
  | panic t => exact ⟨(fun h => nomatch h), (fun ⟨_, e, _⟩ => nomatch e)⟩

theorem ecEquals_iff (a b : ECPoint) : ecEquals a b = true ↔ a = b := by
  unfold ecEquals
  rw [Bool.and_eq_true, beq_iff_eq, beq_iff_eq]
  exact ⟨fun ⟨h1, h2⟩ => Prod.ext h1 h2, fun h => by rw [h]; exact ⟨rfl, rfl⟩⟩

/-- a guarded fold accepts only if every step accepts -/
theorem foldlM_guard_true {ι : Type} (f : ι → Outcome Bool) : ∀ (l : List ι) (b : Bool),
    l.foldlM (fun acc i => if !acc then pure false else f i) b = .ok true →
      b = true ∧ ∀ i ∈ l, f i = .ok true
  | [], b, h => by
    simp only [List.foldlM_nil] at h
    cases h
    exact ⟨rfl, fun _ hi => nomatch hi⟩
  | i :: l, b, h => by
    rw [List.foldlM_cons] at h
    obtain ⟨b', h1, h2⟩ := bind_eq_ok.1 h
    obtain ⟨hb', hl⟩ := foldlM_guard_true f l b' h2
    subst hb'
    cases b with
    | false => cases h1
    | true =>
      refine ⟨rfl, fun j hj => ?_⟩
      rcases List.mem_cons.1 hj with rfl | hj
      · exact h1
      · exact hl j hj

/-! ## curve algebra -/
section curve
variable {P : Type} {C : Curve P}

/-- on a lawful curve an affine pair lifts to the point it came from -/
theorem lift_of_toAffine (hL : C.Lawful) {p : P} {r : ECPoint} (h : C.toAffine p = some r) :
    C.lift r = some p := hL.toAffine_ofAffine r.1 r.2 p h

theorem add_left_cancel (hL : C.Lawful) {a b c : P} (h : C.add a b = C.add a c) : b = c := by
  letI := hL.groupLaws.addCommGroup
  exact _root_.add_left_cancel (a := a) h

theorem add_right_cancel (hL : C.Lawful) {a b c : P} (h : C.add b a = C.add c a) : b = c := by
  letI := hL.groupLaws.addCommGroup
  exact _root_.add_right_cancel (b := a) h

/-- a non-identity point killed by the prime `q` has order exactly `q` -/
theorem smul_eq_iff_of_order (hL : C.Lawful) {p : P} (hp : p ≠ C.zero) (hq : C.smul C.q p = C.zero)
    (a b : Nat) : C.smul a p = C.smul b p ↔ a ≡ b [MOD C.q] := by
  letI := hL.groupLaws.addCommGroup
  haveI : Fact C.q.Prime := ⟨hL.q_prime⟩
  have ho : addOrderOf p = C.q := by
    apply addOrderOf_eq_prime
    · rw [hL.smul_eq_nsmul] at hq; exact hq
    · exact hp
  rw [hL.smul_eq_nsmul, hL.smul_eq_nsmul]
  have := nsmul_eq_nsmul_iff_modEq (x := p) (m := b) (n := a)
  rw [ho] at this
  exact this

theorem eq_of_modEq_of_lt {q a b : Nat} (h : a ≡ b [MOD q]) (ha : a < q) (hb : b < q) : a = b :=
  Nat.ModEq.eq_of_lt_of_lt h ha hb

/-- two challenges that both make `t·G = α + c·X` hold coincide (for `X` of order `q`) -/
theorem two_challenges (hL : C.Lawful) {X α L : P} {c c' : Nat}
    (hX : X ≠ C.zero) (hXq : C.smul C.q X = C.zero) (hc : c < C.q) (hc' : c' < C.q)
    (h1 : L = C.add α (C.smul c X)) (h2 : L = C.add α (C.smul c' X)) : c = c' := by
  have := add_left_cancel hL (h1.symm.trans h2)
  exact eq_of_modEq_of_lt ((smul_eq_iff_of_order hL hX hXq c c').1 this) hc hc'

end curve

/-! ## what acceptance means -/
section verify
variable {P : Type} (C : Curve P) (H : HashFn)

theorem schnorrChallenge_lt (hL : C.Lawful) (sess : Bytes) (X α : ECPoint) :
    schnorrChallenge C H sess X α < C.q := Nat.mod_lt _ hL.q_pos

theorem schnorrVChallenge_lt (hL : C.Lawful) (sess : Bytes) (V R α : ECPoint) :
    schnorrVChallenge C H sess V R α < C.q := Nat.mod_lt _ hL.q_pos

/-- **Schnorr acceptance**: the guards hold and `t·G = α + c·X` in the group -/
theorem schnorrVerify_accept (hL : C.Lawful) {sess : Bytes} {X α : ECPoint} {t : Nat}
    (h : schnorrVerify C H cur sess X α t = .ok true) :
    t % C.q ≠ 0 ∧ schnorrChallenge C H sess X α ≠ 0 ∧
    ∃ pX pα, C.lift X = some pX ∧ C.lift α = some pα ∧
      C.smul t C.base = C.add pα (C.smul (schnorrChallenge C H sess X α) pX) := by
  unfold schnorrVerify at h
  simp only [Zk.cur, Bool.true_and] at h
  generalize schnorrChallenge C H sess X α = c at h ⊢
  split at h
  · cases h
  · next hg =>
    simp only [Bool.or_eq_true, beq_iff_eq, not_or] at hg
    refine ⟨hg.1, hg.2, ?_⟩
    obtain ⟨tG, h1, h⟩ := bind_eq_ok.1 h
    obtain ⟨xc, h2, h⟩ := bind_eq_ok.1 h
    rw [(C17L.ecBaseMult_outcomes C _).2.2] at h1
    obtain ⟨pX, hX, h2⟩ := ((C17L.ecScalarMult_outcomes C _ _).2.2 _).1 h2
    simp only [Int.natAbs_natCast] at h1 h2
    cases h3 : C.ecAdd α xc with
    | ok axc =>
      rw [h3] at h
      simp only [Outcome.ok.injEq, ecEquals_iff] at h
      obtain ⟨pa, pxc, ha, hxc, hr⟩ := (C17L.ecAdd_ok_iff C _ _ _).1 h3
      rw [lift_of_toAffine hL h2] at hxc
      cases hxc
      subst h
      exact ⟨pX, pa, hX, ha, hL.toAffine_inj _ _ (h1.trans hr.symm)⟩
    | err e => rw [h3] at h; cases h
    | panic e => rw [h3] at h; cases h

/-- **Schnorr-V acceptance**: the guards hold and `t·R + u·G = α + c·V` in the group -/
theorem schnorrVVerify_accept (hL : C.Lawful) {sess : Bytes} {V R α : ECPoint} {t u : Nat}
    (h : schnorrVVerify C H cur sess V R α t u = .ok true) :
    t % C.q ≠ 0 ∧ u % C.q ≠ 0 ∧ schnorrVChallenge C H sess V R α ≠ 0 ∧
    ∃ pV pR pα, C.lift V = some pV ∧ C.lift R = some pR ∧ C.lift α = some pα ∧
      C.add (C.smul t pR) (C.smul u C.base) =
        C.add pα (C.smul (schnorrVChallenge C H sess V R α) pV) := by
  unfold schnorrVVerify at h
  simp only [Zk.cur, Bool.true_and] at h
  generalize schnorrVChallenge C H sess V R α = c at h ⊢
  split at h
  · cases h
  split at h
  · cases h
  next _ hg =>
  simp only [Bool.or_eq_true, beq_iff_eq, not_or] at hg
  refine ⟨hg.1.1, hg.1.2, hg.2, ?_⟩
  obtain ⟨tR, h1, h⟩ := bind_eq_ok.1 h
  obtain ⟨uG, h2, h⟩ := bind_eq_ok.1 h
  obtain ⟨pR, hR, h1⟩ := ((C17L.ecScalarMult_outcomes C _ _).2.2 _).1 h1
  rw [(C17L.ecBaseMult_outcomes C _).2.2] at h2
  simp only [Int.natAbs_natCast] at h1 h2
  cases h3 : C.ecAdd tR uG with
  | err e => rw [h3] at h; simp at h
  | panic e => rw [h3] at h; cases h
  | ok tRuG =>
    rw [h3] at h
    simp only at h
    obtain ⟨vc, h4, h⟩ := bind_eq_ok.1 h
    obtain ⟨pV, hV, h4⟩ := ((C17L.ecScalarMult_outcomes C _ _).2.2 _).1 h4
    simp only [Int.natAbs_natCast] at h4
    obtain ⟨p1, p2, e1, e2, hr⟩ := (C17L.ecAdd_ok_iff C _ _ _).1 h3
    rw [lift_of_toAffine hL h1] at e1
    rw [lift_of_toAffine hL h2] at e2
    cases e1; cases e2
    cases h5 : C.ecAdd α vc with
    | ok avc =>
      rw [h5] at h
      simp only [Outcome.ok.injEq, ecEquals_iff] at h
      obtain ⟨pa, pvc, ha, hvc, hr'⟩ := (C17L.ecAdd_ok_iff C _ _ _).1 h5
      rw [lift_of_toAffine hL h4] at hvc
      cases hvc
      subst h
      exact ⟨pV, pR, pa, hV, hR, ha, hL.toAffine_inj _ _ (hr.trans hr'.symm)⟩
    | err e => rw [h5] at h; cases h
    | panic e => rw [h5] at h; cases h

end verify

/-! ## `dlnproof` acceptance -/

/-- the per-iteration check of `dlnVerify` -/
def dlnStep (c : Nat) (alpha t : List Int) (h1 h2 n : Int) (i : Nat) : Outcome Bool := do
  let ci : Int := if c.testBit i then 1 else 0
  let l ← expP h1 (t.getD i 0) n.toNat
  let r ← expP h2 ci n.toNat
  pure (l == (((alpha.getD i 0) * (r : Int)) % n).toNat)

theorem dlnVerify_accept (H : HashFn) {alpha t : List Int} {h1 h2 n : Int}
    (h : dlnVerify H alpha t h1 h2 n = .ok true) :
    0 < n ∧ ∀ i < dlnIterations, dlnStep (dlnChallenge H h1 h2 n alpha) alpha t h1 h2 n i = .ok true := by
  unfold dlnVerify at h
  split at h
  · cases h
  next hn =>
  simp only at h
  split at h
  · cases h
  split at h
  · cases h
  split at h
  · cases h
  split at h
  · cases h
  split at h
  · cases h
  refine ⟨by omega, fun i hi => ?_⟩
  exact (foldlM_guard_true (dlnStep (dlnChallenge H h1 h2 n alpha) alpha t h1 h2 n) _ _ h).2 i
    (List.mem_range.2 hi)

theorem expP_eq_ok {x y : Int} {m r : Nat} : expP x y m = .ok r ↔ goExp x y m = some r := by
  unfold expP nilPanic Outcome.ofOption
  cases goExp x y m <;> simp

theorem dlnStep_accept {c : Nat} {alpha t : List Int} {h1 h2 n : Int} {i : Nat}
    (h : dlnStep c alpha t h1 h2 n i = .ok true) :
    ∃ r, goExp h2 (if c.testBit i then 1 else 0) n.toNat = some r ∧
      goExp h1 (t.getD i 0) n.toNat = some (((alpha.getD i 0) * (r : Int)) % n).toNat := by
  unfold dlnStep at h
  obtain ⟨l, e1, h⟩ := bind_eq_ok.1 h
  obtain ⟨r, e2, h⟩ := bind_eq_ok.1 h
  have : l = (((alpha.getD i 0) * (r : Int)) % n).toNat := by
    simpa [pure] using h
  exact ⟨r, expP_eq_ok.1 e2, this ▸ expP_eq_ok.1 e1⟩

/-! ## RSA-group algebra -/

theorem pow_diff_of_pow_eq {z N e e' : Nat} (hz : Nat.Coprime z N) (h : z ^ e % N = z ^ e' % N) :
    z ^ ((e : Int) - (e' : Int)).natAbs % N = 1 % N := by
  have key : ∀ a b : Nat, a ≤ b → z ^ a % N = z ^ b % N → z ^ (b - a) % N = 1 % N := by
    intro a b hab hh
    have h1 : z ^ a * z ^ (b - a) ≡ z ^ a * 1 [MOD N] := by
      rw [← Nat.pow_add, Nat.add_sub_cancel' hab, Nat.mul_one]
      exact hh.symm
    exact Nat.ModEq.cancel_left_of_coprime (Nat.Coprime.pow_right a hz.symm) h1
  rcases Nat.le_total e e' with hle | hle
  · have : ((e : Int) - (e' : Int)).natAbs = e' - e := by omega
    rw [this]; exact key e e' hle h
  · have : ((e : Int) - (e' : Int)).natAbs = e - e' := by omega
    rw [this]; exact key e' e hle h.symm

/-- `a·z^e ≡ L ≡ a·z^e'` with `a`, `z` units: the two powers of `z` agree -/
theorem rsa_two_challenges {N a z L e e' : Nat} (ha : Nat.Coprime a N) (hz : Nat.Coprime z N)
    (h : a * z ^ e % N = L % N) (h' : a * z ^ e' % N = L % N) :
    z ^ e % N = z ^ e' % N ∧ z ^ ((e : Int) - (e' : Int)).natAbs % N = 1 % N := by
  have h1 : z ^ e % N = z ^ e' % N :=
    Nat.ModEq.cancel_left_of_coprime ha.symm (h.trans h'.symm)
  exact ⟨h1, pow_diff_of_pow_eq hz h1⟩


/-! ## digest level -/

theorem tagged_digest_collision (H : HashFn) (hlen : ∀ x y, (H x).length = (H y).length)
    {sess sess' : Bytes} {l l' : List Int} (hn : NonNeg l) (hn' : NonNeg l')
    (hs : C16L.Short (l.map intToBytesBE)) (hs' : C16L.Short (l'.map intToBytesBE))
    (hl : l ≠ []) (hl' : l' ≠ []) (hne : (sess, l) ≠ (sess', l'))
    (h : sha512_256iTaggedWith H sess l = sha512_256iTaggedWith H sess' l') :
    ∃ a b : Bytes, a ≠ b ∧ bytesToNat (H a) = bytesToNat (H b) := by
  have e1 : l.isEmpty = false := by cases l <;> simp_all
  have e2 : l'.isEmpty = false := by cases l' <;> simp_all
  simp only [sha512_256iTaggedWith, e1, e2, Bool.false_eq_true, if_false, Option.some.injEq] at h
  by_cases hp : taggedPreimage H sess l = taggedPreimage H sess' l'
  · obtain ⟨h1, h2⟩ := tagged_context H hlen hn hn' hs hs' hp
    rcases h2 with h2 | ⟨_, h3, h4⟩
    · exact absurd (by rw [h1, h2]) hne
    · exact ⟨_, _, h3, by rw [h4]⟩
  · exact ⟨_, _, hp, h⟩

theorem untagged_digest_collision (H : HashFn) {l l' : List Int} (hn : NonNeg l) (hn' : NonNeg l')
    (hs : C16L.Short (l.map intToBytesBE)) (hs' : C16L.Short (l'.map intToBytesBE))
    (hl : l ≠ []) (hl' : l' ≠ []) (hne : l ≠ l')
    (h : sha512_256iWith H l = sha512_256iWith H l') :
    ∃ a b : Bytes, a ≠ b ∧ bytesToNat (H a) = bytesToNat (H b) := by
  have e1 : l.isEmpty = false := by cases l <;> simp_all
  have e2 : l'.isEmpty = false := by cases l' <;> simp_all
  simp only [sha512_256iWith, e1, e2, Bool.false_eq_true, if_false, Option.some.injEq] at h
  exact ⟨_, _, fun hp => hne (frame_int_inj hn hn' hs hs' hp), h⟩

/-! ## Paillier key proof -/

theorem paillier_key_inj {i j cnt i' j' cnt' : Nat} {k k' n n' : Int} {pub pub' : ECPoint}
    (hs : C16L.Short (PaillierKey.preimage i j cnt k pub n))
    (hs' : C16L.Short (PaillierKey.preimage i' j' cnt' k' pub' n'))
    (h : frame (PaillierKey.preimage i j cnt k pub n) =
      frame (PaillierKey.preimage i' j' cnt' k' pub' n')) :
    Paillier.itoa i = Paillier.itoa i' ∧ Paillier.itoa j = Paillier.itoa j' ∧
      Paillier.itoa cnt = Paillier.itoa cnt' ∧ k.natAbs = k'.natAbs ∧ pub = pub' ∧
      n.natAbs = n'.natAbs := by
  have := C16L.frame_inj hs hs' h
  simp only [PaillierKey.preimage, List.cons.injEq, and_true] at this
  obtain ⟨h1, h2, h3, h4, h5, h6, h7⟩ := this
  exact ⟨h1, h2, h3, C16L.natToBytesBE_inj h4,
    Prod.ext (C16L.natToBytesBE_inj h5) (C16L.natToBytesBE_inj h6), C16L.natToBytesBE_inj h7⟩

/-! ## non-malleability and replay -/
section
variable {P : Type} (C : Curve P) (H : HashFn)

theorem schnorr_nonmalleable (hL : C.Lawful) {sess : Bytes} {X α : ECPoint} {t t' : Nat}
    (h : schnorrVerify C H cur sess X α t = .ok true) (hne : t' % C.q ≠ t % C.q) :
    schnorrVerify C H cur sess X α t' ≠ .ok true := by
  intro h'
  obtain ⟨_, _, pX, pα, hX, hα, e⟩ := schnorrVerify_accept C H hL h
  obtain ⟨_, _, pX', pα', hX', hα', e'⟩ := schnorrVerify_accept C H hL h'
  rw [hX] at hX'; rw [hα] at hα'
  cases hX'; cases hα'
  exact hne ((hL.smul_base_eq_iff _ _).1 (e'.trans e.symm))

/-- the verdict depends on the response only through its residue -/
theorem schnorrVerify_congr (hL : C.Lawful) (cfg : Cfg) (sess : Bytes) (X α : ECPoint) {t t' : Nat}
    (ht : t % C.q = t' % C.q) :
    schnorrVerify C H cfg sess X α t = schnorrVerify C H cfg sess X α t' := by
  have hb : C.ecBaseMult (t : Int) = C.ecBaseMult (t' : Int) := by
    unfold Curve.ecBaseMult
    simp only [Int.natAbs_natCast]
    rw [hL.smul_base_mod t, hL.smul_base_mod t', ht]
  unfold schnorrVerify
  rw [hb, ht]

theorem schnorrV_nonmalleable_t (hL : C.Lawful) {sess : Bytes} {V R α : ECPoint} {t t' u : Nat}
    (hR : ∀ pR, C.lift R = some pR → pR ≠ C.zero ∧ C.smul C.q pR = C.zero)
    (h : schnorrVVerify C H cur sess V R α t u = .ok true) (hne : t' % C.q ≠ t % C.q) :
    schnorrVVerify C H cur sess V R α t' u ≠ .ok true := by
  intro h'
  obtain ⟨_, _, _, pV, pR, pα, hV, hR1, hα, e⟩ := schnorrVVerify_accept C H hL h
  obtain ⟨_, _, _, pV', pR', pα', hV', hR', hα', e'⟩ := schnorrVVerify_accept C H hL h'
  rw [hV] at hV'; rw [hα] at hα'; rw [hR1] at hR'
  cases hV'; cases hα'; cases hR'
  obtain ⟨h0, hq⟩ := hR pR hR1
  have := add_right_cancel hL (e'.trans e.symm)
  exact hne ((smul_eq_iff_of_order hL h0 hq _ _).1 this)

theorem schnorrV_nonmalleable_u (hL : C.Lawful) {sess : Bytes} {V R α : ECPoint} {t u u' : Nat}
    (h : schnorrVVerify C H cur sess V R α t u = .ok true) (hne : u' % C.q ≠ u % C.q) :
    schnorrVVerify C H cur sess V R α t u' ≠ .ok true := by
  intro h'
  obtain ⟨_, _, _, pV, pR, pα, hV, hR1, hα, e⟩ := schnorrVVerify_accept C H hL h
  obtain ⟨_, _, _, pV', pR', pα', hV', hR', hα', e'⟩ := schnorrVVerify_accept C H hL h'
  rw [hV] at hV'; rw [hα] at hα'; rw [hR1] at hR'
  cases hV'; cases hα'; cases hR'
  have := add_left_cancel hL (e'.trans e.symm)
  exact hne ((hL.smul_base_eq_iff _ _).1 this)

/-- a Schnorr proof accepted under two sessions: the two challenges coincide -/
theorem schnorr_two_sessions (hL : C.Lawful) {sess sess' : Bytes} {X α : ECPoint} {t : Nat}
    (hX : ∀ pX, C.lift X = some pX → pX ≠ C.zero ∧ C.smul C.q pX = C.zero)
    (h : schnorrVerify C H cur sess X α t = .ok true)
    (h' : schnorrVerify C H cur sess' X α t = .ok true) :
    schnorrChallenge C H sess X α = schnorrChallenge C H sess' X α := by
  obtain ⟨_, _, pX, pα, hX1, hα, e⟩ := schnorrVerify_accept C H hL h
  obtain ⟨_, _, pX', pα', hX', hα', e'⟩ := schnorrVerify_accept C H hL h'
  rw [hX1] at hX'; rw [hα] at hα'
  cases hX'; cases hα'
  obtain ⟨h0, hq⟩ := hX pX hX1
  exact two_challenges hL h0 hq (schnorrChallenge_lt C H hL _ _ _) (schnorrChallenge_lt C H hL _ _ _) e e'

theorem schnorr_two_statements (hL : C.Lawful) {sess sess' : Bytes} {X X' α : ECPoint} {t : Nat}
    (h : schnorrVerify C H cur sess X α t = .ok true)
    (h' : schnorrVerify C H cur sess' X' α t = .ok true) :
    ∃ pX pX', C.lift X = some pX ∧ C.lift X' = some pX' ∧
      C.smul (schnorrChallenge C H sess X α) pX = C.smul (schnorrChallenge C H sess' X' α) pX' := by
  obtain ⟨_, _, pX, pα, hX1, hα, e⟩ := schnorrVerify_accept C H hL h
  obtain ⟨_, _, pX', pα', hX', hα', e'⟩ := schnorrVerify_accept C H hL h'
  rw [hα] at hα'
  cases hα'
  exact ⟨pX, pX', hX1, hX', add_left_cancel hL (e.symm.trans e')⟩

/-- the challenge is the digest of the tagged pre-image, reduced -/
theorem schnorrChallenge_bytes (sess : Bytes) (X α : ECPoint) :
    schnorrChallenge C H sess X α =
      bytesToNat (H (taggedPreimage H sess (Schnorr.preimage (baseXY C) X α))) % C.q := rfl

theorem schnorr_replay_collision (hL : C.Lawful) (hlen : ∀ x y, (H x).length = (H y).length)
    {sess sess' : Bytes} {X α : ECPoint} {t : Nat}
    (hX : ∀ pX, C.lift X = some pX → pX ≠ C.zero ∧ C.smul C.q pX = C.zero)
    (hs : C16L.Short ((Schnorr.preimage (baseXY C) X α).map intToBytesBE))
    (hne : sess ≠ sess')
    (h : schnorrVerify C H cur sess X α t = .ok true)
    (h' : schnorrVerify C H cur sess' X α t = .ok true) :
    ∃ a b : Bytes, a ≠ b ∧ bytesToNat (H a) % C.q = bytesToNat (H b) % C.q := by
  have hc := schnorr_two_sessions C H hL hX h h'
  rw [schnorrChallenge_bytes, schnorrChallenge_bytes] at hc
  by_cases hp : taggedPreimage H sess (Schnorr.preimage (baseXY C) X α) =
      taggedPreimage H sess' (Schnorr.preimage (baseXY C) X α)
  · obtain ⟨_, h2⟩ := tagged_context H hlen (nonNeg_schnorr _ _ _) (nonNeg_schnorr _ _ _) hs hs hp
    rcases h2 with h2 | ⟨_, h3, h4⟩
    · exact absurd h2 hne
    · exact ⟨_, _, h3, by rw [h4]⟩
  · exact ⟨_, _, hp, hc⟩

theorem schnorr_shift (hL : C.Lawful) {X α : P} {t δ c c' : Nat}
    (hX : X ≠ C.zero) (hXq : C.smul C.q X = C.zero) (hc : c < C.q) (hc' : c' < C.q)
    (h1 : C.smul t C.base = C.add α (C.smul c X))
    (h2 : C.smul (t + δ) C.base = C.add (C.add α (C.smul δ C.base)) (C.smul c' X)) : c = c' := by
  rw [hL.smul_add, hL.add_assoc, hL.add_comm (C.smul δ C.base), ← hL.add_assoc] at h2
  exact two_challenges hL hX hXq hc hc' h1 (add_right_cancel hL h2)

theorem schnorrV_two_challenges (hL : C.Lawful) {V α L : P} {c c' : Nat}
    (hV : V ≠ C.zero) (hVq : C.smul C.q V = C.zero) (hc : c < C.q) (hc' : c' < C.q)
    (h1 : L = C.add α (C.smul c V)) (h2 : L = C.add α (C.smul c' V)) : c = c' :=
  two_challenges hL hV hVq hc hc' h1 h2

end

/-! ## `dlnproof` responses -/
theorem goExp_nonneg_eq {x y n : Int} (hn : 0 < n) (hy : 0 ≤ y) :
    goExp x y n.toNat = some ((x % n).toNat ^ y.toNat % n.toNat) := by
  have hm : n.toNat ≠ 0 := by omega
  rw [goExp_of_nonneg x hm hy, Int.toNat_of_nonneg (le_of_lt hn)]

theorem dln_nonmalleable (H : HashFn) {alpha t t' : List Int} {h1 h2 n : Int}
    (h : dlnVerify H alpha t h1 h2 n = .ok true) (h' : dlnVerify H alpha t' h1 h2 n = .ok true) :
    ∀ i < dlnIterations, ∃ r, goExp h1 (t.getD i 0) n.toNat = some r ∧
      goExp h1 (t'.getD i 0) n.toNat = some r := by
  intro i hi
  obtain ⟨r, e1, e2⟩ := dlnStep_accept ((dlnVerify_accept H h).2 i hi)
  obtain ⟨r', e1', e2'⟩ := dlnStep_accept ((dlnVerify_accept H h').2 i hi)
  rw [e1] at e1'
  cases e1'
  exact ⟨_, e2, e2'⟩

theorem dln_nonmalleable_pow (H : HashFn) {alpha t t' : List Int} {h1 h2 n : Int}
    (h : dlnVerify H alpha t h1 h2 n = .ok true) (h' : dlnVerify H alpha t' h1 h2 n = .ok true)
    {i : Nat} (hi : i < dlnIterations) (ht : 0 ≤ t.getD i 0) (ht' : 0 ≤ t'.getD i 0) :
    (h1 % n).toNat ^ (t.getD i 0).toNat % n.toNat = (h1 % n).toNat ^ (t'.getD i 0).toNat % n.toNat := by
  have hn := (dlnVerify_accept H h).1
  obtain ⟨r, e, e'⟩ := dln_nonmalleable H h h' i hi
  rw [goExp_nonneg_eq hn ht] at e
  rw [goExp_nonneg_eq hn ht'] at e'
  exact (Option.some.inj e).trans (Option.some.inj e').symm

theorem dln_order (H : HashFn) {alpha t t' : List Int} {h1 h2 n : Int}
    (h : dlnVerify H alpha t h1 h2 n = .ok true) (h' : dlnVerify H alpha t' h1 h2 n = .ok true)
    (hg : Nat.Coprime (h1 % n).toNat n.toNat)
    {i : Nat} (hi : i < dlnIterations) (ht : 0 ≤ t.getD i 0) (ht' : 0 ≤ t'.getD i 0) :
    (h1 % n).toNat ^ (t.getD i 0 - t'.getD i 0).natAbs % n.toNat = 1 % n.toNat := by
  have := pow_diff_of_pow_eq hg (dln_nonmalleable_pow H h h' hi ht ht')
  rwa [Int.toNat_of_nonneg ht, Int.toNat_of_nonneg ht'] at this
/-! ## acceptance of the RSA-group verifiers: the first congruence of each -/
section
variable {P : Type} (C : Curve P) (H : HashFn)

theorem isInInterval_iff (b bound : Int) : isInInterval b bound = true ↔ 0 ≤ b ∧ b < bound := by
  unfold isInInterval
  simp only [Bool.and_eq_true, decide_eq_true_eq]
  exact And.comm

theorem guard_ok_true {c : Prop} [Decidable c] {rest : Outcome Bool}
    (h : (if c then Outcome.ok false else rest) = .ok true) : ¬ c ∧ rest = .ok true := by
  by_cases hc : c
  · rw [if_pos hc] at h; cases h
  · rw [if_neg hc] at h; exact ⟨hc, h⟩


/-- the part of `bobVerify` after the range/unit guards and the point check (the three congruences) -/
def bobTail (sess : Bytes) (n ntilde h1 h2 c1 c2 : Int) (pf : BobProof)
    (xu : Option (ECPoint × ECPoint)) : Outcome Bool := do
  let n2 := n * n
  let e := bobChallenge C H sess n c1 c2 xu pf
  let mt := ntilde.natAbs
  let m2 := n2.natAbs
  let l5 := (← expP h1 pf.s1 mt) * (← expP h2 pf.s2 mt) % mt
  let r5 := (((← expP pf.z e mt) : Int) * pf.zPrm % (mt : Int)).toNat
  if l5 != r5 then .ok false else
  let l6 := (← expP h1 pf.t1 mt) * (← expP h2 pf.t2 mt) % mt
  let r6 := (((← expP pf.t e mt) : Int) * pf.w % (mt : Int)).toNat
  if l6 != r6 then .ok false else
  let l7 := (← expP c1 pf.s1 m2) * (← expP pf.s n m2) % m2 * (← expP (n + 1) pf.t1 m2) % m2
  let r7 := (((← expP c2 e m2) : Int) * pf.v % (m2 : Int)).toNat
  .ok (l7 == r7)

theorem bobVerify_accept {sess : Bytes} {n ntilde h1 h2 c1 c2 : Int} {pf : BobProof}
    {xu : Option (ECPoint × ECPoint)}
    (h : bobVerify C H cur sess n ntilde h1 h2 c1 c2 pf xu = .ok true) :
    (0 ≤ pf.z ∧ pf.z < ntilde) ∧ (0 ≤ pf.zPrm ∧ pf.zPrm < ntilde) ∧ Int.gcd pf.z ntilde = 1 ∧
      Int.gcd pf.zPrm ntilde = 1 ∧ (C.q : Int) ≤ pf.s1 ∧ (C.q : Int) ≤ pf.s2 ∧
      bobTail C H sess n ntilde h1 h2 c1 c2 pf xu = .ok true := by
  unfold bobVerify at h
  replace h := guard_ok_true h; obtain ⟨g1, h⟩ := h
  replace h := guard_ok_true h; obtain ⟨g2, h⟩ := h
  replace h := guard_ok_true h; obtain ⟨g3, h⟩ := h
  replace h := guard_ok_true h; obtain ⟨g4, h⟩ := h
  replace h := guard_ok_true h; obtain ⟨g5, h⟩ := h
  replace h := guard_ok_true h; obtain ⟨g6, h⟩ := h
  replace h := guard_ok_true h; obtain ⟨g7, h⟩ := h
  replace h := guard_ok_true h; obtain ⟨g8, h⟩ := h
  replace h := guard_ok_true h; obtain ⟨g9, h⟩ := h
  replace h := guard_ok_true h; obtain ⟨g10, h⟩ := h
  replace h := guard_ok_true h; obtain ⟨g11, h⟩ := h
  replace h := guard_ok_true h; obtain ⟨g12, h⟩ := h
  replace h := guard_ok_true h; obtain ⟨g13, h⟩ := h
  replace h := guard_ok_true h; obtain ⟨g14, h⟩ := h
  replace h := guard_ok_true h; obtain ⟨g15, h⟩ := h
  replace h := guard_ok_true h; obtain ⟨g16, h⟩ := h
  replace h := guard_ok_true h; obtain ⟨g17, h⟩ := h
  replace h := guard_ok_true h; obtain ⟨g18, h⟩ := h
  replace h := guard_ok_true h; obtain ⟨g19, h⟩ := h
  replace h := guard_ok_true h; obtain ⟨g20, h⟩ := h
  replace h := guard_ok_true h; obtain ⟨g21, h⟩ := h
  dsimp only at h
  refine ⟨(isInInterval_iff _ _).1 (by simpa using g1), (isInInterval_iff _ _).1 (by simpa using g2),
    by simpa using g7, by simpa using g8, by omega, by omega, ?_⟩
  cases xu with
  | none => exact h
  | some p =>
    obtain ⟨X, U⟩ := p
    dsimp only at h
    by_cases hg : (cur.bobWCGuards && ((pf.s1 % (C.q : Int)).toNat == 0 ||
        bobChallenge C H sess n c1 c2 (some (X, U)) pf == 0)) = true
    · rw [if_pos hg] at h; cases h
    · rw [if_neg hg] at h
      obtain ⟨gS1, _, h⟩ := bind_eq_ok.1 h
      obtain ⟨xe, _, h⟩ := bind_eq_ok.1 h
      cases ha : C.ecAdd xe U with
      | ok xeu =>
        rw [ha] at h
        cases hb : ecEquals gS1 xeu with
        | false => simp only [hb] at h; cases h
        | true => simp only [hb] at h; exact h
      | err t => rw [ha] at h; cases h
      | panic t => rw [ha] at h; cases h

theorem natAbs_eq_toNat {m : Int} (h : 0 ≤ m) : m.natAbs = m.toNat := by omega

/-- first congruence of Bob's verifier, as naturals: `z'·z^e ≡ h1^s1·h2^s2 (mod Ñ)` -/
theorem bobTail_first {sess : Bytes} {n ntilde h1 h2 c1 c2 : Int} {pf : BobProof}
    {xu : Option (ECPoint × ECPoint)} (hz : 0 ≤ pf.z ∧ pf.z < ntilde) (hz' : 0 ≤ pf.zPrm)
    (hs1 : 0 ≤ pf.s1) (hs2 : 0 ≤ pf.s2)
    (h : bobTail C H sess n ntilde h1 h2 c1 c2 pf xu = .ok true) :
    pf.zPrm.toNat * pf.z.toNat ^ (bobChallenge C H sess n c1 c2 xu pf) % ntilde.toNat =
      (h1 % ntilde).toNat ^ pf.s1.toNat * (h2 % ntilde).toNat ^ pf.s2.toNat % ntilde.toNat := by
  have hnt : 0 < ntilde := by omega
  unfold bobTail at h
  dsimp only at h
  rw [natAbs_eq_toNat (le_of_lt hnt)] at h
  obtain ⟨a1, e1, h⟩ := bind_eq_ok.1 h
  obtain ⟨a2, e2, h⟩ := bind_eq_ok.1 h
  obtain ⟨a3, e3, h⟩ := bind_eq_ok.1 h
  replace h := (guard_ok_true h).1
  rw [expP_eq_ok, goExp_nonneg_eq hnt hs1] at e1
  rw [expP_eq_ok, goExp_nonneg_eq hnt hs2] at e2
  rw [expP_eq_ok, goExp_nonneg_eq hnt (Int.natCast_nonneg _), Int.emod_eq_of_lt hz.1 hz.2,
    Int.toNat_natCast] at e3
  replace e1 := Option.some.inj e1
  replace e2 := Option.some.inj e2
  replace e3 := Option.some.inj e3
  have h5 : a1 * a2 % ntilde.toNat = ((a3 : Int) * pf.zPrm % (ntilde.toNat : Int)).toNat := by
    simpa using h
  have hr : ((a3 : Int) * pf.zPrm % (ntilde.toNat : Int)).toNat = a3 * pf.zPrm.toNat % ntilde.toNat := by
    conv_lhs => rw [← Int.toNat_of_nonneg hz']
    rw [← Int.natCast_mul, ← Int.natCast_mod, Int.toNat_natCast]
  rw [hr, ← e1, ← e2, ← e3] at h5
  rw [← Nat.mul_mod, Nat.mod_mul_mod, Nat.mul_comm (pf.z.toNat ^ _)] at h5
  exact h5.symm
end


theorem guard_err_true {c : Prop} [Decidable c] {rest : Outcome Bool} {t : String}
    (h : (if c then Outcome.err t else rest) = .ok true) : ¬ c ∧ rest = .ok true := by
  by_cases hc : c
  · rw [if_pos hc] at h; cases h
  · rw [if_neg hc] at h; exact ⟨hc, h⟩

/-- first congruence of the `facproof` verifier: `A·P^e ≡ s^z1·t^w1 (mod N̂)`; the right side does not
depend on the challenge -/
theorem facVerify_accept (H : HashFn) {q : Nat} {sess : Bytes} {n0 ncap s t : Int} {pf : FacProof}
    (h : facVerify cur H q sess n0 ncap s t pf = .ok true) :
    0 < ncap ∧ ∃ a b, expP s pf.z1 ncap.toNat = .ok a ∧ expP t pf.w1 ncap.toNat = .ok b ∧
      (pf.A % ncap).toNat * (pf.P % ncap).toNat ^ (facChallenge H q sess n0 ncap s t pf) % ncap.toNat =
        a * b % ncap.toNat := by
  unfold facVerify at h
  replace h := guard_ok_true h; obtain ⟨g1, h⟩ := h
  replace h := guard_ok_true h; obtain ⟨g2, h⟩ := h
  replace h := guard_ok_true h; obtain ⟨g3, h⟩ := h
  replace h := guard_ok_true h; obtain ⟨g4, h⟩ := h
  replace h := guard_err_true h; obtain ⟨g5, h⟩ := h
  have hnc : 0 < ncap := by
    simp only [Zk.cur, Bool.true_and, decide_eq_true_eq] at g2
    omega
  refine ⟨hnc, ?_⟩
  dsimp only at h
  rw [natAbs_eq_toNat (le_of_lt hnc)] at h
  obtain ⟨a, e1, h⟩ := bind_eq_ok.1 h
  obtain ⟨b, e2, h⟩ := bind_eq_ok.1 h
  obtain ⟨p, e3, h⟩ := bind_eq_ok.1 h
  replace h := (guard_ok_true h).1
  refine ⟨a, b, e1, e2, ?_⟩
  rw [expP_eq_ok, goExp_nonneg_eq hnc (Int.natCast_nonneg _), Int.toNat_natCast] at e3
  replace e3 := Option.some.inj e3
  have h5 : a * b % ncap.toNat = (pf.A * (p : Int) % (ncap.toNat : Int)).toNat := by
    simpa using h
  have hm : ((ncap.toNat : Nat) : Int) = ncap := Int.toNat_of_nonneg (le_of_lt hnc)
  have hA0 : 0 ≤ pf.A % ncap := Int.emod_nonneg _ (by omega)
  have hr : (pf.A * (p : Int) % (ncap.toNat : Int)).toNat = (pf.A % ncap).toNat * p % ncap.toNat := by
    rw [hm, show pf.A * (p : Int) % ncap = (pf.A % ncap) * (p : Int) % ncap from
      ((Int.mod_modEq pf.A ncap).mul_right _).symm]
    conv_lhs => rw [← Int.toNat_of_nonneg hA0, ← hm]
    rw [← Int.natCast_mul, ← Int.natCast_mod, Int.toNat_natCast, hm]
  rw [hr, ← e3, Nat.mul_mod_mod] at h5
  exact h5.symm


/-- Go's `Exp(z, -e, m)` times `z^e` is `1` modulo `m` -/
theorem goExp_neg_mul_pow {z : Int} {m : Int} {e r : Nat} (hm : 0 < m) (hz : 0 ≤ z ∧ z < m)
    (h : goExp z (-(e : Int)) m.toNat = some r) : r * z.toNat ^ e ≡ 1 [MOD m.toNat] := by
  have hm0 : m.toNat ≠ 0 := by omega
  rcases Nat.eq_zero_or_pos e with rfl | he
  · rw [show (-((0 : Nat) : Int)) = 0 from rfl, goExp_nonneg_eq hm (le_refl _)] at h
    replace h := Option.some.inj h
    rw [← h]
    simp only [Int.toNat_zero, pow_zero, mul_one]
    exact Nat.mod_modEq _ _
  · have hneg : -(e : Int) < 0 := by omega
    rw [goExp_of_neg z hm0 hneg] at h
    cases hi : modInverse z m.toNat with
    | none => rw [hi] at h; cases h
    | some inv =>
      rw [hi] at h
      replace h := Option.some.inj h
      obtain ⟨hs, _⟩ := modInverse_spec hi
      have hzi : z.toNat * inv ≡ 1 [MOD m.toNat] := by
        unfold Nat.ModEq
        apply Int.natCast_inj.1
        rw [Int.natCast_mod, Int.natCast_mod, Int.natCast_mul, Int.toNat_of_nonneg hz.1]
        exact hs
      rw [← h]
      have e1 : (- -(e : Int)).toNat = e := by omega
      rw [e1]
      have : inv ^ e % m.toNat * z.toNat ^ e ≡ inv ^ e * z.toNat ^ e [MOD m.toNat] :=
        (Nat.mod_modEq _ _).mul_right _
      refine this.trans ?_
      rw [← mul_pow, Nat.mul_comm]
      simpa using hzi.pow e


/-- second congruence of Alice's range verifier, as naturals: `w·z^e ≡ h1^s1·h2^s2 (mod Ñ)`,
with `z`, `w` units -/
theorem rangeVerify_accept (H : HashFn) {q : Nat} {n ntilde h1 h2 c : Int} {pf : RangeProof}
    (h : rangeVerify cur H q n ntilde h1 h2 c pf = .ok true) :
    0 < ntilde ∧ (0 ≤ pf.z ∧ pf.z < ntilde) ∧ (0 ≤ pf.w ∧ pf.w < ntilde) ∧
      Int.gcd pf.z ntilde = 1 ∧ Int.gcd pf.w ntilde = 1 ∧ (q : Int) ≤ pf.s1 ∧ (q : Int) ≤ pf.s2 ∧
      pf.w.toNat * pf.z.toNat ^ (rangeChallenge H q n c pf.z pf.u pf.w) % ntilde.toNat =
        (h1 % ntilde).toNat ^ pf.s1.toNat * (h2 % ntilde).toNat ^ pf.s2.toNat % ntilde.toNat := by
  unfold rangeVerify at h
  replace h := guard_ok_true h; obtain ⟨g1, h⟩ := h
  replace h := guard_ok_true h; obtain ⟨g2, h⟩ := h
  replace h := guard_ok_true h; obtain ⟨g3, h⟩ := h
  replace h := guard_ok_true h; obtain ⟨g4, h⟩ := h
  replace h := guard_ok_true h; obtain ⟨g5, h⟩ := h
  replace h := guard_ok_true h; obtain ⟨g6, h⟩ := h
  replace h := guard_ok_true h; obtain ⟨g7, h⟩ := h
  replace h := guard_ok_true h; obtain ⟨g8, h⟩ := h
  replace h := guard_ok_true h; obtain ⟨g9, h⟩ := h
  replace h := guard_ok_true h; obtain ⟨g10, h⟩ := h
  replace h := guard_ok_true h; obtain ⟨g11, h⟩ := h
  replace h := guard_ok_true h; obtain ⟨g12, h⟩ := h
  replace h := guard_ok_true h; obtain ⟨g13, h⟩ := h
  replace h := guard_ok_true h; obtain ⟨g14, h⟩ := h
  have hz := (isInInterval_iff _ _).1 (by simpa using g1)
  have hw := (isInInterval_iff _ _).1 (by simpa using g3)
  have hnt : 0 < ntilde := by omega
  have hs1 : (q : Int) ≤ pf.s1 := by omega
  have hs2 : (q : Int) ≤ pf.s2 := by omega
  refine ⟨hnt, hz, hw, by simpa using g5, by simpa using g7, hs1, hs2, ?_⟩
  dsimp only at h
  rw [natAbs_eq_toNat (le_of_lt hnt)] at h
  obtain ⟨cE, _, h1'⟩ := bind_eq_ok.1 h
  obtain ⟨sN, _, h2'⟩ := bind_eq_ok.1 h1'
  obtain ⟨gS1, _, h3'⟩ := bind_eq_ok.1 h2'
  replace h3' := (guard_ok_true h3').2
  obtain ⟨a1, e1, h4'⟩ := bind_eq_ok.1 h3'
  obtain ⟨a2, e2, h5'⟩ := bind_eq_ok.1 h4'
  obtain ⟨zE, e3, h6'⟩ := bind_eq_ok.1 h5'
  clear h h1' h2' h3' h4' h5'
  have hq0 : (0 : Int) ≤ q := Int.natCast_nonneg _
  rw [expP_eq_ok, goExp_nonneg_eq hnt (by omega)] at e1
  rw [expP_eq_ok, goExp_nonneg_eq hnt (by omega)] at e2
  rw [expP_eq_ok] at e3
  replace e1 := Option.some.inj e1
  replace e2 := Option.some.inj e2
  have hzE := goExp_neg_mul_pow hnt hz e3
  have hwv : pf.w = ((a1 * a2 % ntilde.toNat * zE % ntilde.toNat : Nat) : Int) := by
    simpa using h6'
  have hwn : pf.w.toNat = a1 * a2 % ntilde.toNat * zE % ntilde.toNat := by
    rw [hwv, Int.toNat_natCast]
  rw [hwn]
  generalize rangeChallenge H q n c pf.z pf.u pf.w = e at hzE ⊢
  generalize ntilde.toNat = m at *
  have s1 : a1 * a2 % m * zE % m * pf.z.toNat ^ e ≡ a1 * a2 * (zE * pf.z.toNat ^ e) [MOD m] := by
    rw [← Nat.mul_assoc]
    exact (((Nat.mod_modEq _ _).trans ((Nat.mod_modEq _ _).mul_right _))).mul_right _
  have s2 : a1 * a2 * (zE * pf.z.toNat ^ e) ≡ a1 * a2 * 1 [MOD m] := hzE.mul_left _
  have s3 : a1 * a2 ≡ (h1 % ntilde).toNat ^ pf.s1.toNat * (h2 % ntilde).toNat ^ pf.s2.toNat [MOD m] := by
    rw [← e1, ← e2]
    exact (Nat.mod_modEq _ _).mul (Nat.mod_modEq _ _)
  rw [Nat.mul_one] at s2
  exact (s1.trans s2).trans s3


theorem coprime_of_int_gcd {a m : Int} (ha : 0 ≤ a) (hm : 0 ≤ m) (h : Int.gcd a m = 1) :
    Nat.Coprime a.toNat m.toNat := by
  rw [← natAbs_eq_toNat ha, ← natAbs_eq_toNat hm]
  exact h

section
variable {P : Type} (C : Curve P) (H : HashFn)

/-- one Bob proof accepted in two contexts (anything but `Ñ, h1, h2` may differ) -/
theorem bob_two_contexts {sess sess' : Bytes} {n n' ntilde h1 h2 c1 c1' c2 c2' : Int} {pf : BobProof}
    {xu xu' : Option (ECPoint × ECPoint)}
    (h : bobVerify C H cur sess n ntilde h1 h2 c1 c2 pf xu = .ok true)
    (h' : bobVerify C H cur sess' n' ntilde h1 h2 c1' c2' pf xu' = .ok true) :
    pf.z.toNat ^ (bobChallenge C H sess n c1 c2 xu pf) % ntilde.toNat =
        pf.z.toNat ^ (bobChallenge C H sess' n' c1' c2' xu' pf) % ntilde.toNat ∧
      pf.z.toNat ^ ((bobChallenge C H sess n c1 c2 xu pf : Int) -
        (bobChallenge C H sess' n' c1' c2' xu' pf : Int)).natAbs % ntilde.toNat = 1 % ntilde.toNat := by
  obtain ⟨hz, hz', gz, gz', hs1, hs2, ht⟩ := bobVerify_accept C H h
  obtain ⟨_, _, _, _, _, _, ht'⟩ := bobVerify_accept C H h'
  have hq0 : (0 : Int) ≤ C.q := Int.natCast_nonneg _
  have hnt : 0 ≤ ntilde := by omega
  have e1 := bobTail_first C H hz hz'.1 (by omega) (by omega) ht
  have e2 := bobTail_first C H hz hz'.1 (by omega) (by omega) ht'
  exact rsa_two_challenges (coprime_of_int_gcd hz'.1 hnt gz') (coprime_of_int_gcd hz.1 hnt gz) e1 e2

end

/-- one `facproof` accepted in two contexts with the same `N̂, s, t` -/
theorem fac_two_contexts (H : HashFn) {q q' : Nat} {sess sess' : Bytes} {n0 n0' ncap s t : Int}
    {pf : FacProof}
    (hA : Nat.Coprime (pf.A % ncap).toNat ncap.toNat) (hP : Nat.Coprime (pf.P % ncap).toNat ncap.toNat)
    (h : facVerify cur H q sess n0 ncap s t pf = .ok true)
    (h' : facVerify cur H q' sess' n0' ncap s t pf = .ok true) :
    (pf.P % ncap).toNat ^ (facChallenge H q sess n0 ncap s t pf) % ncap.toNat =
        (pf.P % ncap).toNat ^ (facChallenge H q' sess' n0' ncap s t pf) % ncap.toNat ∧
      (pf.P % ncap).toNat ^ ((facChallenge H q sess n0 ncap s t pf : Int) -
        (facChallenge H q' sess' n0' ncap s t pf : Int)).natAbs % ncap.toNat = 1 % ncap.toNat := by
  obtain ⟨_, a, b, ea, eb, e1⟩ := facVerify_accept H h
  obtain ⟨_, a', b', ea', eb', e2⟩ := facVerify_accept H h'
  rw [ea] at ea'; rw [eb] at eb'
  cases ea'; cases eb'
  exact rsa_two_challenges hA hP e1 e2

/-- one range proof accepted for two statements (Paillier key, ciphertext) with the same `Ñ, h1, h2` -/
theorem range_two_contexts (H : HashFn) {q q' : Nat} {n n' ntilde h1 h2 c c' : Int} {pf : RangeProof}
    (h : rangeVerify cur H q n ntilde h1 h2 c pf = .ok true)
    (h' : rangeVerify cur H q' n' ntilde h1 h2 c' pf = .ok true) :
    pf.z.toNat ^ (rangeChallenge H q n c pf.z pf.u pf.w) % ntilde.toNat =
        pf.z.toNat ^ (rangeChallenge H q' n' c' pf.z pf.u pf.w) % ntilde.toNat ∧
      pf.z.toNat ^ ((rangeChallenge H q n c pf.z pf.u pf.w : Int) -
        (rangeChallenge H q' n' c' pf.z pf.u pf.w : Int)).natAbs % ntilde.toNat = 1 % ntilde.toNat := by
  obtain ⟨hnt, hz, hw, gz, gw, _, _, e1⟩ := rangeVerify_accept H h
  obtain ⟨_, _, _, _, _, _, _, e2⟩ := rangeVerify_accept H h'
  exact rsa_two_challenges (coprime_of_int_gcd hw.1 hnt.le gw) (coprime_of_int_gcd hz.1 hnt.le gz) e1 e2

/-! ## a lawful curve with a cofactor -/

/-- a lawful record WITH a cofactor: the cyclic group of order 6, base point `2` of prime order `3`;
the point `3` has order 2 -/
def cofactorCurve : Curve (ZMod 6) where
  name := "zmod6"
  p := 6
  q := 3
  zero := 0
  add := (· + ·)
  neg := fun a => -a
  base := 2
  toAffine := fun a => some (a.val, 0)
  ofAffine := fun x y => if x < 6 ∧ y = 0 then some (x : ZMod 6) else none
  beq := fun a b => decide (a = b)

theorem cofactorCurve_lawful : cofactorCurve.Lawful where
  add_assoc := by decide
  add_comm := by decide
  zero_add := by decide
  neg_add := by decide
  q_prime := Nat.prime_three
  smul_q_base := by decide
  base_ne_zero := by decide
  toAffine_inj := by decide
  ofAffine_toAffine := fun x y a hxy => by
    simp only [cofactorCurve] at hxy ⊢
    split at hxy
    · next hc =>
      obtain ⟨hx, rfl⟩ := hc
      injection hxy with hxy
      subst hxy
      rw [ZMod.val_natCast, Nat.mod_eq_of_lt hx]
    · exact absurd hxy (by simp)
  toAffine_ofAffine := fun x y a hxy => by
    simp only [cofactorCurve, Option.some.injEq, Prod.mk.injEq] at hxy ⊢
    obtain ⟨rfl, rfl⟩ := hxy
    rw [if_pos ⟨ZMod.val_lt a, rfl⟩, ZMod.natCast_zmod_val]
  toAffine_none := fun a ha => by simp [cofactorCurve] at ha

theorem cofactor_witness :
    (3 : ZMod 6) ≠ cofactorCurve.zero ∧ (0 : Nat) < cofactorCurve.q ∧ (2 : Nat) < cofactorCurve.q ∧
    cofactorCurve.smul 0 cofactorCurve.base = cofactorCurve.add 0 (cofactorCurve.smul 0 3) ∧
    cofactorCurve.smul 0 cofactorCurve.base = cofactorCurve.add 0 (cofactorCurve.smul 2 3) := by
  decide

/-! ## Schnorr-V replay -/
section
variable {P : Type} (C : Curve P) (H : HashFn)

theorem schnorrV_two_sessions (hL : C.Lawful) {sess sess' : Bytes} {V R α : ECPoint} {t u : Nat}
    (hV : ∀ pV, C.lift V = some pV → pV ≠ C.zero ∧ C.smul C.q pV = C.zero)
    (h : schnorrVVerify C H cur sess V R α t u = .ok true)
    (h' : schnorrVVerify C H cur sess' V R α t u = .ok true) :
    schnorrVChallenge C H sess V R α = schnorrVChallenge C H sess' V R α := by
  obtain ⟨_, _, _, pV, pR, pα, hV1, hR, hα, e⟩ := schnorrVVerify_accept C H hL h
  obtain ⟨_, _, _, pV', pR', pα', hV', hR', hα', e'⟩ := schnorrVVerify_accept C H hL h'
  rw [hV1] at hV'; rw [hα] at hα'; rw [hR] at hR'
  cases hV'; cases hα'; cases hR'
  obtain ⟨h0, hq⟩ := hV pV hV1
  exact two_challenges hL h0 hq (schnorrVChallenge_lt C H hL _ _ _ _)
    (schnorrVChallenge_lt C H hL _ _ _ _) e e'

theorem schnorrVChallenge_bytes (sess : Bytes) (V R α : ECPoint) :
    schnorrVChallenge C H sess V R α =
      bytesToNat (H (taggedPreimage H sess (SchnorrV.preimage (baseXY C) V R α))) % C.q := rfl

theorem schnorrV_replay_collision (hL : C.Lawful) (hlen : ∀ x y, (H x).length = (H y).length)
    {sess sess' : Bytes} {V R α : ECPoint} {t u : Nat}
    (hV : ∀ pV, C.lift V = some pV → pV ≠ C.zero ∧ C.smul C.q pV = C.zero)
    (hs : C16L.Short ((SchnorrV.preimage (baseXY C) V R α).map intToBytesBE))
    (hne : sess ≠ sess')
    (h : schnorrVVerify C H cur sess V R α t u = .ok true)
    (h' : schnorrVVerify C H cur sess' V R α t u = .ok true) :
    ∃ a b : Bytes, a ≠ b ∧ bytesToNat (H a) % C.q = bytesToNat (H b) % C.q := by
  have hc := schnorrV_two_sessions C H hL hV h h'
  rw [schnorrVChallenge_bytes, schnorrVChallenge_bytes] at hc
  by_cases hp : taggedPreimage H sess (SchnorrV.preimage (baseXY C) V R α) =
      taggedPreimage H sess' (SchnorrV.preimage (baseXY C) V R α)
  · obtain ⟨_, h2⟩ := tagged_context H hlen (nonNeg_schnorrV _ _ _ _) (nonNeg_schnorrV _ _ _ _) hs hs hp
    rcases h2 with h2 | ⟨_, h3, h4⟩
    · exact absurd h2 hne
    · exact ⟨_, _, h3, by rw [h4]⟩
  · exact ⟨_, _, hp, hc⟩
end


section
variable {P : Type} (C : Curve P) (H : HashFn)

theorem eq_of_lift_eq (hL : C.Lawful) {a b : ECPoint} {p : P} (ha : C.lift a = some p)
    (hb : C.lift b = some p) : a = b := by
  have h1 := hL.ofAffine_toAffine _ _ _ ha
  have h2 := hL.ofAffine_toAffine _ _ _ hb
  rw [h1] at h2
  exact Option.some.inj h2

/-- same response, two commitments both accepted: the challenges must differ -/
theorem schnorr_commitment_replaced (hL : C.Lawful) {sess : Bytes} {X α α' : ECPoint} {t : Nat}
    (h : schnorrVerify C H cur sess X α t = .ok true)
    (h' : schnorrVerify C H cur sess X α' t = .ok true) (hne : α' ≠ α) :
    schnorrChallenge C H sess X α' ≠ schnorrChallenge C H sess X α := by
  intro hc
  obtain ⟨_, _, pX, pα, hX, hα, e⟩ := schnorrVerify_accept C H hL h
  obtain ⟨_, _, pX', pα', hX', hα', e'⟩ := schnorrVerify_accept C H hL h'
  rw [hX] at hX'
  cases hX'
  rw [hc] at e'
  have := add_right_cancel hL (e.symm.trans e')
  subst this
  exact hne (eq_of_lift_eq C hL hα' hα)
end

end TssVerif.C12L
