import TssVerif.Lemmas.CurveLaw
import TssVerif.Lemmas.VssPoly
import TssVerif.Lemmas.AlgLagrange
import TssVerif.Lemmas.AlgEcdsa
import Mathlib.Algebra.BigOperators.Group.List.Basic
import Mathlib.Algebra.Polynomial.BigOperators
/-! Sums of points of a curve record, the public share point
`BigX(id) = V_0 + Σ_{c=1..t} (id^c mod q)·V_c` (keygen round 3 / `Share.Verify`), its linearity in the
commitment vector, and the Feldman equation of honestly dealt shares. Statements use only the record's
own `add`/`smul`; proofs go through the local `AddCommGroup`. -/
set_option autoImplicit false
set_option linter.style.haveILetI false
namespace TssVerif.AlgL
open TssVerif Polynomial

variable {P : Type} {C : Curve P}

/-- sum of a list of points -/
def psum (C : Curve P) (l : List P) : P := l.foldr C.add C.zero

@[simp] theorem psum_nil : psum C [] = C.zero := rfl
@[simp] theorem psum_cons (a : P) (l : List P) : psum C (a :: l) = C.add a (psum C l) := rfl

theorem psum_eq_sum (hC : C.Lawful) (l : List P) :
    psum C l = letI := hC.groupLaws.addCommGroup; l.sum := by
  letI := hC.groupLaws.addCommGroup
  induction l with
  | nil => rfl
  | cons a l ih => rw [psum_cons, ih, List.sum_cons]; rfl

section laws
variable (hC : C.Lawful)
include hC

theorem psum_append (l1 l2 : List P) : psum C (l1 ++ l2) = C.add (psum C l1) (psum C l2) := by
  induction l1 with
  | nil => rw [List.nil_append, psum_nil, hC.zero_add]
  | cons a l ih => rw [List.cons_append, psum_cons, psum_cons, ih, hC.add_assoc]

theorem psum_smul (k : ℕ) (l : List P) : C.smul k (psum C l) = psum C (l.map (C.smul k)) := by
  induction l with
  | nil => exact hC.smul_zero_right k
  | cons a l ih => rw [psum_cons, hC.smul_add_right, ih, List.map_cons, psum_cons]

theorem psum_map_add {ι : Type} (l : List ι) (f g : ι → P) :
    psum C (l.map fun i => C.add (f i) (g i)) = C.add (psum C (l.map f)) (psum C (l.map g)) := by
  letI := hC.groupLaws.addCommGroup
  induction l with
  | nil => exact (hC.zero_add _).symm
  | cons a l ih =>
    simp only [List.map_cons, psum_cons]
    rw [ih]
    exact add_add_add_comm (f a) (g a) _ _

theorem psum_comm {ι κ : Type} (l1 : List ι) (l2 : List κ) (f : ι → κ → P) :
    psum C (l1.map fun i => psum C (l2.map fun c => f i c)) =
      psum C (l2.map fun c => psum C (l1.map fun i => f i c)) := by
  induction l1 with
  | nil =>
    simp only [List.map_nil, psum_nil]
    induction l2 with
    | nil => rfl
    | cons c l2 ih => rw [List.map_cons, psum_cons, ← ih, hC.zero_add]
  | cons a l1 ih =>
    simp only [List.map_cons, psum_cons]
    rw [ih, ← psum_map_add hC]

theorem psum_smul_base {ι : Type} (l : List ι) (a : ι → ℕ) :
    psum C (l.map fun i => C.smul (a i) C.base) = C.smul (l.map a).sum C.base := by
  induction l with
  | nil => rfl
  | cons i l ih => simp only [List.map_cons, psum_cons, List.sum_cons]; rw [ih, hC.smul_add]

end laws

theorem psum_congr {ι : Type} (l : List ι) (f g : ι → P) (h : ∀ i ∈ l, f i = g i) :
    psum C (l.map f) = psum C (l.map g) := by
  rw [List.map_congr_left h]

/-! ### the running power `z_c = id^c mod q` -/

/-- the scalar `z` of the loops (`z = modQ.Mul(z, kj)`, starting from 1) after `c` steps -/
def zpow (q id : ℕ) : ℕ → ℕ
  | 0 => 1
  | c + 1 => zpow q id c * id % q

theorem zpow_cast (q id c : ℕ) : (zpow q id c : ZMod q) = (id : ZMod q) ^ c := by
  induction c with
  | zero => simp [zpow]
  | succ c ih => rw [zpow, ZMod.natCast_mod, Nat.cast_mul, ih, pow_succ]

theorem zpow_eq {q : ℕ} (hq : 1 < q) (id c : ℕ) : zpow q id c = id ^ c % q := by
  induction c with
  | zero => rw [zpow, Nat.pow_zero, Nat.mod_eq_of_lt hq]
  | succ c ih => rw [zpow, ih, Nat.pow_succ, Nat.mod_mul_mod]

/-! ### the public share point -/

/-- `BigX(id) = V_0 + Σ_{c=1..t} z_c·V_c` for a commitment vector `V_0 … V_t` -/
def pubShare (C : Curve P) (V : ℕ → P) (t id : ℕ) : P :=
  C.add (V 0) (psum C ((List.range' 1 t).map fun c => C.smul (zpow C.q id c) (V c)))

/-- **linearity**: the public share point of a sum of commitment vectors is the sum of the public share
points -/
theorem pubShare_psum (hC : C.Lawful) {ι : Type} (ds : List ι) (Vi : ι → ℕ → P) (t id : ℕ) :
    pubShare C (fun c => psum C (ds.map fun i => Vi i c)) t id =
      psum C (ds.map fun i => pubShare C (Vi i) t id) := by
  unfold pubShare
  rw [psum_map_add hC, psum_comm hC]
  congr 1
  apply psum_congr
  intro c _
  rw [psum_smul hC, List.map_map]
  rfl

/-- the loop of `Share.Verify`/keygen: `acc + Σ_c (t·id^{c+1} mod q)·V_c`, running `t` -/
def accLoop (C : Curve P) (id : ℕ) : List P → ℕ → P → P
  | [], _, acc => acc
  | v :: vs, t, acc => accLoop C id vs (t * id % C.q) (C.add acc (C.smul (t * id % C.q) v))

theorem accLoop_eq (hC : C.Lawful) (id : ℕ) (vs : List P) (c0 : ℕ) (acc : P) :
    accLoop C id vs (zpow C.q id c0) acc =
      C.add acc (psum C ((List.range' (c0 + 1) vs.length).map fun c =>
        C.smul (zpow C.q id c) (vs.getD (c - (c0 + 1)) C.zero))) := by
  induction vs generalizing c0 acc with
  | nil => simp only [accLoop, List.length_nil, List.range'_zero, List.map_nil, psum_nil]; exact (hC.add_zero _).symm
  | cons v vs ih =>
    rw [accLoop]
    have hz : zpow C.q id c0 * id % C.q = zpow C.q id (c0 + 1) := rfl
    rw [hz, ih (c0 + 1), List.length_cons, List.range'_succ, List.map_cons, psum_cons, hC.add_assoc]
    congr 2
    · simp
    · apply psum_congr
      intro c hc
      have : c0 + 2 ≤ c := (List.mem_range'_1.1 hc).1
      have e : c - (c0 + 1) = (c - (c0 + 1 + 1)) + 1 := by omega
      rw [e, List.getD_cons_succ]

/-- the loop started as the code starts it is `pubShare` of the vector `v0 :: vs` -/
theorem accLoop_pubShare (hC : C.Lawful) (id : ℕ) (v0 : P) (vs : List P) :
    accLoop C id vs 1 v0 = pubShare C (fun c => (v0 :: vs).getD c C.zero) vs.length id := by
  have := accLoop_eq hC id vs 0 v0
  rw [show zpow C.q id 0 = 1 from rfl] at this
  rw [this]
  unfold pubShare
  congr 1
  apply psum_congr
  intro c hc
  have : 1 ≤ c := (List.mem_range'_1.1 hc).1
  obtain ⟨c', rfl⟩ : ∃ c', c = c' + 1 := ⟨c - 1, by omega⟩
  simp

/-! ### honest dealing -/

theorem polyNat_cast_sum {q : ℕ} (as : List ℕ) (x : ℕ) :
    ((Vss.polyNat as x : ℕ) : ZMod q) = ((List.range as.length).map fun c =>
      ((as.getD c 0 : ℕ) : ZMod q) * (x : ZMod q) ^ c).sum := by
  rw [Vss.polyNat_eq_sum, ← List.sum_toFinset _ List.nodup_range, List.toFinset_range]
  push_cast
  rfl

/-- **an honestly dealt share satisfies the Feldman equation**: for coefficients `as = a_0 … a_t`,
`f(id)·G = a_0·G + Σ_{c=1..t} z_c·(a_c·G)` with `f(id) = evalPoly q as id` -/
theorem feldman_honest (hC : C.Lawful) (as : List ℕ) (t : ℕ) (hlen : as.length = t + 1) (id : ℕ) :
    C.smul (Vss.evalPoly C.q as id) C.base =
      pubShare C (fun c => C.smul (as.getD c 0) C.base) t id := by
  haveI : Fact C.q.Prime := ⟨hC.q_prime⟩
  unfold pubShare
  have h1 : ∀ c, C.smul (zpow C.q id c) (C.smul (as.getD c 0) C.base) =
      C.smul (zpow C.q id c * as.getD c 0) C.base := fun c => (hC.smul_mul _ _ _).symm
  simp only [h1]
  rw [psum_smul_base hC, ← hC.smul_add, hC.smul_base_eq_iff, ← ZMod.natCast_eq_natCast_iff]
  obtain ⟨a0, rest, rfl⟩ : ∃ a0 rest, as = a0 :: rest := by
    cases as with
    | nil => simp at hlen
    | cons a0 rest => exact ⟨a0, rest, rfl⟩
  rw [Vss.evalPoly_cast, polyNat_cast_sum, hlen, List.range_succ_eq_map, List.map_cons, List.sum_cons]
  push_cast
  rw [List.getD_cons_zero, pow_zero, mul_one]
  congr 1
  rw [List.map_map, List.range'_eq_map_range, List.map_map, List.map_map]
  congr 1
  apply List.map_congr_left
  intro c _
  simp only [Function.comp]
  push_cast
  rw [zpow_cast, Nat.succ_eq_add_one, Nat.add_comm 1 c]
  ring

end TssVerif.AlgL
