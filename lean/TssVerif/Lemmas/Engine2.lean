import TssVerif.Core.Engine2
/-! Helper lemmas about the two-committee round engine `TssVerif/Core/Engine2.lean` (core Lean only):
canonical emissions, fields the engine never changes, fuel irrelevance, the scan, the fixpoint,
"a round advances only when its requirements are met". Used by `Props/C04b.lean`. -/
set_option autoImplicit false
namespace TssVerif.E2L
open TssVerif.Engine (Slot)
open TssVerif.Engine2

/-! ## 0. small facts -/

theorem lt_of_getElem?_some {α : Type} {l : List α} {k : Nat} {a : α} (h : l[k]? = some a) : k < l.length := by
  rcases Nat.lt_or_ge k l.length with h' | h'
  · exact h'
  · simp [List.getElem?_eq_none_iff.mpr h'] at h

theorem not_started_cases {p : Party} (hnd : ¬ (p.rnd = 0 ∨ p.done = true)) : p.rnd ≠ 0 ∧ p.done = false := by
  refine ⟨fun h => hnd (Or.inl h), ?_⟩
  cases hpd : p.done
  · rfl
  · exact absurd (Or.inr hpd) hnd

/-! ## 1. canonical emissions -/

/-- canonical emission log of the first `k` rounds of a party (`nNew` = size of the new committee) -/
def emitsUpTo (tbl : List RSpec) (nNew k : Nat) : List Nat :=
  ((tbl.take k).map fun r => emitList nNew r.emits).flatten

/-- canonical `end` count of the first `k` rounds -/
def endsUpTo (tbl : List RSpec) (k : Nat) : Nat := ((tbl.take k).map fun r => if r.final then 1 else 0).sum

/-- invariant: what has been emitted is exactly the canonical prefix for the rounds started -/
def Canon (tbl : List RSpec) (p : Party) : Prop :=
  p.rnd ≤ tbl.length ∧ p.out = emitsUpTo tbl p.nNew p.rnd ∧ p.ended = endsUpTo tbl p.rnd

theorem emitsUpTo_zero (tbl : List RSpec) (n : Nat) : emitsUpTo tbl n 0 = [] := by
  simp [emitsUpTo]

theorem endsUpTo_zero (tbl : List RSpec) : endsUpTo tbl 0 = 0 := by
  simp [endsUpTo]

theorem emitsUpTo_succ (tbl : List RSpec) (n k : Nat) (r : RSpec) (h : tbl[k]? = some r) :
    emitsUpTo tbl n (k + 1) = emitsUpTo tbl n k ++ emitList n r.emits := by
  unfold emitsUpTo
  have hk : k < tbl.length := lt_of_getElem?_some h
  rw [List.take_succ_eq_append_getElem hk]
  have : tbl[k] = r := by
    rw [List.getElem?_eq_getElem hk] at h; exact Option.some.inj h
  simp [this]

theorem endsUpTo_succ (tbl : List RSpec) (k : Nat) (r : RSpec) (h : tbl[k]? = some r) :
    endsUpTo tbl (k + 1) = endsUpTo tbl k + (if r.final then 1 else 0) := by
  unfold endsUpTo
  have hk : k < tbl.length := lt_of_getElem?_some h
  rw [List.take_succ_eq_append_getElem hk]
  have : tbl[k] = r := by
    rw [List.getElem?_eq_getElem hk] at h; exact Option.some.inj h
  simp [this]

theorem canon_fresh (tbl : List RSpec) (nOld nNew : Nat) (isNew : Bool) (self : Nat) :
    Canon tbl (fresh nOld nNew isNew self) := by
  simp [Canon, fresh, emitsUpTo, endsUpTo]

theorem canon_storeMsg {tbl : List RSpec} {p : Party} (m : Msg) (h : Canon tbl p) : Canon tbl (storeMsg m p) := h

/-! ## 2. the shape of `step`, `rest`, `start` -/

/-- the shape of a productive step -/
theorem step_cases {tbl : List RSpec} {p p' : Party} (hs : step tbl p = some p') :
    p.rnd ≠ 0 ∧ p.done = false ∧ ∃ r, tbl[p.rnd - 1]? = some r ∧ canProceed (scan r p) = true ∧
      ((∃ r', tbl[p.rnd]? = some r' ∧ p' = startRound r' p.rnd (scan r p)) ∨
       (tbl[p.rnd]? = none ∧ p' = { scan r p with done := true })) := by
  unfold step at hs
  split at hs
  · simp at hs
  · rename_i hnd
    obtain ⟨hr0, hd⟩ := not_started_cases hnd
    refine ⟨hr0, hd, ?_⟩
    split at hs
    · simp at hs
    · rename_i r hr
      refine ⟨r, hr, ?_⟩
      simp only at hs
      split at hs
      · rename_i hcp
        refine ⟨hcp, ?_⟩
        split at hs
        · rename_i r' hr'
          injection hs with hs
          exact Or.inl ⟨r', hr', hs.symm⟩
        · rename_i hr'
          injection hs with hs
          exact Or.inr ⟨hr', hs.symm⟩
      · simp at hs

theorem step_none_of_not_started {tbl : List RSpec} {p : Party} (h : p.rnd = 0 ∨ p.done = true) :
    step tbl p = none := by
  unfold step; rw [if_pos h]

theorem rest_of_not_started {tbl : List RSpec} {p : Party} (h : p.rnd = 0 ∨ p.done = true) :
    rest tbl p = p := by
  unfold rest; rw [if_pos h]

theorem step_eq_of {tbl : List RSpec} {p : Party} {r : RSpec} (h0 : p.rnd ≠ 0) (hd : p.done = false)
    (hr : tbl[p.rnd - 1]? = some r) :
    step tbl p = if canProceed (scan r p) then
      (match tbl[p.rnd]? with
        | some r' => some (startRound r' p.rnd (scan r p))
        | none => some { scan r p with done := true })
      else none := by
  have hnd : ¬ (p.rnd = 0 ∨ p.done = true) := by
    rintro (h | h)
    · exact h0 h
    · rw [hd] at h; cases h
  unfold step
  rw [if_neg hnd, hr]
  rfl

theorem rest_eq_of {tbl : List RSpec} {p : Party} {r : RSpec} (h0 : p.rnd ≠ 0) (hd : p.done = false)
    (hr : tbl[p.rnd - 1]? = some r) : rest tbl p = scan r p := by
  have hnd : ¬ (p.rnd = 0 ∨ p.done = true) := by
    rintro (h | h)
    · exact h0 h
    · rw [hd] at h; cases h
  unfold rest
  rw [if_neg hnd, hr]

theorem rest_eq_of_none {tbl : List RSpec} {p : Party} (hr : tbl[p.rnd - 1]? = none) : rest tbl p = p := by
  unfold rest
  split
  · rfl
  · rw [hr]

theorem step_eq_of_none {tbl : List RSpec} {p : Party} (hr : tbl[p.rnd - 1]? = none) : step tbl p = none := by
  unfold step
  split
  · rfl
  · rw [hr]

theorem step_none_iff {tbl : List RSpec} {p : Party} {r : RSpec} (h0 : p.rnd ≠ 0) (hd : p.done = false)
    (hr : tbl[p.rnd - 1]? = some r) : step tbl p = none ↔ canProceed (scan r p) = false := by
  rw [step_eq_of h0 hd hr]
  cases hc : canProceed (scan r p)
  · simp
  · simp only [if_true]
    cases tbl[p.rnd]? <;> simp

/-- `rest` is the identity or the scan of the current round -/
theorem rest_cases (tbl : List RSpec) (p : Party) :
    rest tbl p = p ∨ ∃ r, p.rnd ≠ 0 ∧ p.done = false ∧ tbl[p.rnd - 1]? = some r ∧ rest tbl p = scan r p := by
  by_cases hnd : p.rnd = 0 ∨ p.done = true
  · exact Or.inl (rest_of_not_started hnd)
  · obtain ⟨h0, hd⟩ := not_started_cases hnd
    cases hr : tbl[p.rnd - 1]? with
    | none => exact Or.inl (rest_eq_of_none hr)
    | some r => exact Or.inr ⟨r, h0, hd, rfl, rest_eq_of h0 hd hr⟩

/-- the full settle, with the fuel `deliver` and `start` use -/
def settleF (tbl : List RSpec) (p : Party) : Party := settle tbl (tbl.length + 1) p

theorem deliver_eq (tbl : List RSpec) (m : Msg) (p : Party) : deliver tbl m p = settleF tbl (storeMsg m p) := rfl

theorem start_eq_of_started {tbl : List RSpec} {pre : Bool} {p : Party} (h : p.rnd ≠ 0) : start tbl pre p = p := by
  unfold start; rw [if_pos h]

theorem start_eq_of_none {tbl : List RSpec} {pre : Bool} {p : Party} (h : tbl[0]? = none) : start tbl pre p = p := by
  unfold start
  split
  · rfl
  · rw [h]

theorem start_eq_true {tbl : List RSpec} {p : Party} {r : RSpec} (h0 : p.rnd = 0) (hr : tbl[0]? = some r) :
    start tbl true p = settleF tbl (startRound r 0 p) := by
  unfold start
  rw [if_neg (by simp [h0]), hr]
  rfl

theorem start_eq_false {tbl : List RSpec} {p : Party} {r : RSpec} (h0 : p.rnd = 0) (hr : tbl[0]? = some r) :
    start tbl false p = rest tbl (startRound r 0 p) := by
  unfold start
  rw [if_neg (by simp [h0]), hr]
  simp

/-- the shape of `start` -/
theorem start_cases (tbl : List RSpec) (pre : Bool) (p : Party) :
    start tbl pre p = p ∨ ∃ r, p.rnd = 0 ∧ tbl[0]? = some r ∧
      ((pre = true ∧ start tbl pre p = settleF tbl (startRound r 0 p)) ∨
       (pre = false ∧ start tbl pre p = rest tbl (startRound r 0 p))) := by
  by_cases h0 : p.rnd = 0
  · cases hr : tbl[0]? with
    | none => exact Or.inl (start_eq_of_none hr)
    | some r =>
      refine Or.inr ⟨r, h0, rfl, ?_⟩
      cases pre
      · exact Or.inr ⟨rfl, start_eq_false h0 hr⟩
      · exact Or.inl ⟨rfl, start_eq_true h0 hr⟩
  · exact Or.inl (start_eq_of_started h0)

/-! ## 3. preservation principles -/

theorem scan_rnd (r : RSpec) (p : Party) : (scan r p).rnd = p.rnd := by
  unfold scan; split <;> rfl
theorem scan_done (r : RSpec) (p : Party) : (scan r p).done = p.done := by
  unfold scan; split <;> rfl
theorem scan_store (r : RSpec) (p : Party) : (scan r p).store = p.store := by
  unfold scan; split <;> rfl
theorem scan_out (r : RSpec) (p : Party) : (scan r p).out = p.out := by
  unfold scan; split <;> rfl
theorem scan_ended (r : RSpec) (p : Party) : (scan r p).ended = p.ended := by
  unfold scan; split <;> rfl
theorem scan_self (r : RSpec) (p : Party) : (scan r p).self = p.self := by
  unfold scan; split <;> rfl
theorem scan_nOld (r : RSpec) (p : Party) : (scan r p).nOld = p.nOld := by
  unfold scan; split <;> rfl
theorem scan_nNew (r : RSpec) (p : Party) : (scan r p).nNew = p.nNew := by
  unfold scan; split <;> rfl



/-- a predicate kept by productive steps and by the closing scan is kept by the update loop -/
theorem settle_preserves {tbl : List RSpec} (Q : Party → Prop)
    (hstep : ∀ p p', Q p → step tbl p = some p' → Q p') (hrest : ∀ p, Q p → Q (rest tbl p))
    (fuel : Nat) (p : Party) (h : Q p) : Q (settle tbl fuel p) := by
  induction fuel generalizing p with
  | zero => exact hrest p h
  | succ k ih =>
    unfold settle
    split
    · rename_i p' hs; exact ih p' (hstep p p' h hs)
    · exact hrest p h

/-- the primitive moves of the engine: the scan of the current round, the `Start` of the next round when
everybody is ok, finishing after the last round -/
structure Moves (tbl : List RSpec) (Q : Party → Prop) : Prop where
  scan : ∀ p r, Q p → p.rnd ≠ 0 → p.done = false → tbl[p.rnd - 1]? = some r → Q (scan r p)
  adv : ∀ p r r', Q p → p.rnd ≠ 0 → p.done = false → tbl[p.rnd - 1]? = some r → canProceed p = true →
    tbl[p.rnd]? = some r' → Q (startRound r' p.rnd p)
  fin : ∀ p, Q p → p.rnd ≠ 0 → p.done = false → tbl[p.rnd]? = none → Q { p with done := true }

theorem Moves.step {tbl : List RSpec} {Q : Party → Prop} (M : Moves tbl Q) {p p' : Party} (h : Q p)
    (hs : step tbl p = some p') : Q p' := by
  obtain ⟨h0, hd, r, hr, hcp, hc⟩ := step_cases hs
  have h1 := M.scan p r h h0 hd hr
  rcases hc with ⟨r', hr', rfl⟩ | ⟨hr', rfl⟩
  · have := M.adv (Engine2.scan r p) r r' h1 (by rw [scan_rnd]; exact h0) (by rw [scan_done]; exact hd)
      (by rw [scan_rnd]; exact hr) hcp (by rw [scan_rnd]; exact hr')
    rw [scan_rnd] at this
    exact this
  · exact M.fin (Engine2.scan r p) h1 (by rw [scan_rnd]; exact h0) (by rw [scan_done]; exact hd)
      (by rw [scan_rnd]; exact hr')

theorem Moves.rest {tbl : List RSpec} {Q : Party → Prop} (M : Moves tbl Q) {p : Party} (h : Q p) : Q (rest tbl p) := by
  rcases rest_cases tbl p with e | ⟨r, h0, hd, hr, e⟩
  · rw [e]; exact h
  · rw [e]; exact M.scan p r h h0 hd hr

theorem Moves.settle {tbl : List RSpec} {Q : Party → Prop} (M : Moves tbl Q) (fuel : Nat) {p : Party} (h : Q p) :
    Q (settle tbl fuel p) :=
  settle_preserves Q (fun _ _ h hs => M.step h hs) (fun _ h => M.rest h) fuel p h

theorem Moves.deliver {tbl : List RSpec} {Q : Party → Prop} (M : Moves tbl Q) {p : Party} (m : Msg)
    (h : Q (storeMsg m p)) : Q (deliver tbl m p) := M.settle _ h

theorem Moves.start {tbl : List RSpec} {Q : Party → Prop} (M : Moves tbl Q) {p : Party} (pre : Bool) (h : Q p)
    (h0 : ∀ r, p.rnd = 0 → tbl[0]? = some r → Q (startRound r 0 p)) : Q (start tbl pre p) := by
  rcases start_cases tbl pre p with e | ⟨r, hr0, hr, ⟨_, e⟩ | ⟨_, e⟩⟩
  · rw [e]; exact h
  · rw [e]; exact M.settle _ (h0 r hr0 hr)
  · rw [e]; exact M.rest (h0 r hr0 hr)

/-! ## 4. canonical emissions are an invariant -/

theorem canon_moves (tbl : List RSpec) : Moves tbl (Canon tbl) where
  scan := by
    intro p r h _ _ _
    unfold Engine2.scan
    split
    · exact h
    · exact h
  adv := by
    intro p r r' h _ _ _ _ hr'
    obtain ⟨h1, h2, h3⟩ := h
    have hk : p.rnd < tbl.length := lt_of_getElem?_some hr'
    refine ⟨hk, ?_, ?_⟩
    · simp only [startRound]; rw [emitsUpTo_succ tbl _ _ r' hr', ← h2]
    · simp only [startRound]; rw [endsUpTo_succ tbl _ r' hr', ← h3]
  fin := fun _ h _ _ _ => h

theorem canon_deliver {tbl : List RSpec} (m : Msg) {p : Party} (h : Canon tbl p) :
    Canon tbl (deliver tbl m p) := (canon_moves tbl).deliver m (canon_storeMsg m h)

theorem canon_start {tbl : List RSpec} (pre : Bool) {p : Party} (h : Canon tbl p) : Canon tbl (start tbl pre p) := by
  refine (canon_moves tbl).start pre h ?_
  intro r h0 hr
  obtain ⟨_, h2, h3⟩ := h
  refine ⟨?_, ?_, ?_⟩
  · simp only [startRound]; exact lt_of_getElem?_some hr
  · simp only [startRound]; rw [emitsUpTo_succ tbl _ 0 r hr, h2, h0]
  · simp only [startRound]; rw [endsUpTo_succ tbl 0 r hr, h3, h0]

/-! ## 5. events and runs -/

/-- what can happen to one party: the local `Start` call (`pre`: the library's "a message was stored before
`Start`" flag, here arbitrary), or a delivery (any message whatsoever) -/
inductive Ev where
  | start : Bool → Ev
  | deliver : Msg → Ev

def applyEv (tbl : List RSpec) (p : Party) : Ev → Party
  | .start pre => start tbl pre p
  | .deliver m => deliver tbl m p

def run (tbl : List RSpec) (evs : List Ev) (p : Party) : Party := evs.foldl (applyEv tbl) p

def delivers (tbl : List RSpec) (ms : List Msg) (p : Party) : Party := ms.foldl (fun p m => deliver tbl m p) p

theorem run_nil (tbl : List RSpec) (p : Party) : run tbl [] p = p := rfl
theorem run_cons (tbl : List RSpec) (e : Ev) (evs : List Ev) (p : Party) :
    run tbl (e :: evs) p = run tbl evs (applyEv tbl p e) := rfl
theorem run_append (tbl : List RSpec) (es es' : List Ev) (p : Party) :
    run tbl (es ++ es') p = run tbl es' (run tbl es p) := by
  simp [run, List.foldl_append]
theorem run_concat (tbl : List RSpec) (es : List Ev) (e : Ev) (p : Party) :
    run tbl (es ++ [e]) p = applyEv tbl (run tbl es p) e := by
  rw [run_append]; rfl

theorem delivers_nil (tbl : List RSpec) (p : Party) : delivers tbl [] p = p := rfl
theorem delivers_cons (tbl : List RSpec) (m : Msg) (ms : List Msg) (p : Party) :
    delivers tbl (m :: ms) p = delivers tbl ms (deliver tbl m p) := rfl
theorem delivers_append (tbl : List RSpec) (ms ms' : List Msg) (p : Party) :
    delivers tbl (ms ++ ms') p = delivers tbl ms' (delivers tbl ms p) := by
  simp [delivers, List.foldl_append]

theorem delivers_eq_run (tbl : List RSpec) (ms : List Msg) (p : Party) :
    delivers tbl ms p = run tbl (ms.map Ev.deliver) p := by
  induction ms generalizing p with
  | nil => rfl
  | cons m ms ih => simp only [List.map_cons, run_cons, delivers_cons, applyEv]; exact ih _

theorem canon_applyEv {tbl : List RSpec} {p : Party} (e : Ev) (h : Canon tbl p) : Canon tbl (applyEv tbl p e) := by
  cases e with
  | start pre => exact canon_start pre h
  | deliver m => exact canon_deliver m h

theorem canon_run {tbl : List RSpec} (evs : List Ev) {p : Party} (h : Canon tbl p) : Canon tbl (run tbl evs p) := by
  induction evs generalizing p with
  | nil => exact h
  | cons e evs ih => exact ih (canon_applyEv e h)

/-- a predicate kept by every event is kept by every run -/
theorem run_preserves {tbl : List RSpec} (Q : Party → Prop) (hev : ∀ p e, Q p → Q (applyEv tbl p e))
    (evs : List Ev) (p : Party) (h : Q p) : Q (run tbl evs p) := by
  induction evs generalizing p with
  | nil => exact h
  | cons e evs ih => exact ih _ (hev p e h)

/-! ## 6. fields the engine never changes -/

/-- the configuration of a party: committee sizes, role, own index -/
def SameCfg (p q : Party) : Prop := q.nOld = p.nOld ∧ q.nNew = p.nNew ∧ q.isNew = p.isNew ∧ q.self = p.self

theorem sameCfg_moves (tbl : List RSpec) (p0 : Party) : Moves tbl (SameCfg p0) where
  scan := by
    intro p r h _ _ _
    unfold Engine2.scan
    split
    · exact h
    · exact h
  adv := fun _ _ _ h _ _ _ _ _ => h
  fin := fun _ h _ _ _ => h

theorem sameCfg_refl (p : Party) : SameCfg p p := ⟨rfl, rfl, rfl, rfl⟩

theorem sameCfg_deliver (tbl : List RSpec) (m : Msg) (p : Party) : SameCfg p (deliver tbl m p) :=
  (sameCfg_moves tbl p).deliver m (sameCfg_refl p)

theorem sameCfg_start (tbl : List RSpec) (pre : Bool) (p : Party) : SameCfg p (start tbl pre p) :=
  (sameCfg_moves tbl p).start pre (sameCfg_refl p) (fun _ _ _ => sameCfg_refl p)

theorem sameCfg_settle (tbl : List RSpec) (fuel : Nat) (p : Party) : SameCfg p (settle tbl fuel p) :=
  (sameCfg_moves tbl p).settle fuel (sameCfg_refl p)

theorem sameCfg_rest (tbl : List RSpec) (p : Party) : SameCfg p (rest tbl p) :=
  (sameCfg_moves tbl p).rest (sameCfg_refl p)

theorem sameCfg_step {tbl : List RSpec} {p p' : Party} (hs : step tbl p = some p') : SameCfg p p' :=
  (sameCfg_moves tbl p).step (sameCfg_refl p) hs

theorem sameCfg_applyEv (tbl : List RSpec) (e : Ev) (p : Party) : SameCfg p (applyEv tbl p e) := by
  cases e with
  | start pre => exact sameCfg_start tbl pre p
  | deliver m => exact sameCfg_deliver tbl m p

theorem sameCfg_trans {p q r : Party} (h1 : SameCfg p q) (h2 : SameCfg q r) : SameCfg p r :=
  ⟨h2.1.trans h1.1, h2.2.1.trans h1.2.1, h2.2.2.1.trans h1.2.2.1, h2.2.2.2.trans h1.2.2.2⟩

theorem sameCfg_run (tbl : List RSpec) (evs : List Ev) (p : Party) : SameCfg p (run tbl evs p) :=
  run_preserves (SameCfg p) (fun q e h => sameCfg_trans h (sameCfg_applyEv tbl e q)) evs p (sameCfg_refl p)

theorem step_self {tbl : List RSpec} {p p' : Party} (hs : step tbl p = some p') : p'.self = p.self :=
  (sameCfg_step hs).2.2.2
theorem step_nOld {tbl : List RSpec} {p p' : Party} (hs : step tbl p = some p') : p'.nOld = p.nOld :=
  (sameCfg_step hs).1
theorem step_nNew {tbl : List RSpec} {p p' : Party} (hs : step tbl p = some p') : p'.nNew = p.nNew :=
  (sameCfg_step hs).2.1
theorem deliver_self (tbl : List RSpec) (m : Msg) (p : Party) : (deliver tbl m p).self = p.self :=
  (sameCfg_deliver tbl m p).2.2.2
theorem deliver_nOld (tbl : List RSpec) (m : Msg) (p : Party) : (deliver tbl m p).nOld = p.nOld :=
  (sameCfg_deliver tbl m p).1
theorem deliver_nNew (tbl : List RSpec) (m : Msg) (p : Party) : (deliver tbl m p).nNew = p.nNew :=
  (sameCfg_deliver tbl m p).2.1
theorem start_self (tbl : List RSpec) (pre : Bool) (p : Party) : (start tbl pre p).self = p.self :=
  (sameCfg_start tbl pre p).2.2.2
theorem start_nOld (tbl : List RSpec) (pre : Bool) (p : Party) : (start tbl pre p).nOld = p.nOld :=
  (sameCfg_start tbl pre p).1
theorem start_nNew (tbl : List RSpec) (pre : Bool) (p : Party) : (start tbl pre p).nNew = p.nNew :=
  (sameCfg_start tbl pre p).2.1
theorem run_self (tbl : List RSpec) (evs : List Ev) (p : Party) : (run tbl evs p).self = p.self :=
  (sameCfg_run tbl evs p).2.2.2
theorem run_nOld (tbl : List RSpec) (evs : List Ev) (p : Party) : (run tbl evs p).nOld = p.nOld :=
  (sameCfg_run tbl evs p).1
theorem run_nNew (tbl : List RSpec) (evs : List Ev) (p : Party) : (run tbl evs p).nNew = p.nNew :=
  (sameCfg_run tbl evs p).2.1
theorem delivers_self (tbl : List RSpec) (ms : List Msg) (p : Party) : (delivers tbl ms p).self = p.self := by
  rw [delivers_eq_run, run_self]

theorem rest_rnd (tbl : List RSpec) (p : Party) : (rest tbl p).rnd = p.rnd := by
  rcases rest_cases tbl p with e | ⟨r, _, _, _, e⟩ <;> rw [e]
  exact scan_rnd r p
theorem rest_done (tbl : List RSpec) (p : Party) : (rest tbl p).done = p.done := by
  rcases rest_cases tbl p with e | ⟨r, _, _, _, e⟩ <;> rw [e]
  exact scan_done r p
theorem rest_store (tbl : List RSpec) (p : Party) : (rest tbl p).store = p.store := by
  rcases rest_cases tbl p with e | ⟨r, _, _, _, e⟩ <;> rw [e]
  exact scan_store r p
theorem rest_out (tbl : List RSpec) (p : Party) : (rest tbl p).out = p.out := by
  rcases rest_cases tbl p with e | ⟨r, _, _, _, e⟩ <;> rw [e]
  exact scan_out r p
theorem rest_ended (tbl : List RSpec) (p : Party) : (rest tbl p).ended = p.ended := by
  rcases rest_cases tbl p with e | ⟨r, _, _, _, e⟩ <;> rw [e]
  exact scan_ended r p
theorem rest_self (tbl : List RSpec) (p : Party) : (rest tbl p).self = p.self := (sameCfg_rest tbl p).2.2.2

/-! ## 7. measure and fuel -/

/-- measure: rounds still to go -/
def togo (tbl : List RSpec) (p : Party) : Nat := if p.done then 0 else tbl.length + 1 - p.rnd

theorem step_togo {tbl : List RSpec} {p p' : Party} (hs : step tbl p = some p') :
    togo tbl p' < togo tbl p := by
  obtain ⟨hr0, hd, r, hr, _, hc⟩ := step_cases hs
  have hk : p.rnd - 1 < tbl.length := lt_of_getElem?_some hr
  rcases hc with ⟨r', hr', rfl⟩ | ⟨_, rfl⟩
  · have hk' : p.rnd < tbl.length := lt_of_getElem?_some hr'
    have e1 : (startRound r' p.rnd (scan r p)).done = false := by
      show (scan r p).done = false
      rw [scan_done]; exact hd
    have e2 : (startRound r' p.rnd (scan r p)).rnd = p.rnd + 1 := rfl
    simp only [togo, e1, e2, hd]
    simp
    omega
  · simp only [togo, hd]
    simp
    omega

theorem togo_le (tbl : List RSpec) (p : Party) : togo tbl p ≤ tbl.length + 1 := by
  unfold togo; split <;> omega

theorem step_none_of_togo_zero {tbl : List RSpec} {p : Party} (h : togo tbl p = 0) : step tbl p = none := by
  cases hs : step tbl p with
  | none => rfl
  | some p' => have := step_togo hs; omega

theorem settle_succ_some {tbl : List RSpec} {fuel : Nat} {p p' : Party} (h : step tbl p = some p') :
    settle tbl (fuel + 1) p = settle tbl fuel p' := by
  simp only [settle, h]

theorem settle_succ_none {tbl : List RSpec} {fuel : Nat} {p : Party} (h : step tbl p = none) :
    settle tbl (fuel + 1) p = rest tbl p := by
  simp only [settle, h]

theorem settle_of_step_none {tbl : List RSpec} (fuel : Nat) {p : Party} (h : step tbl p = none) :
    settle tbl fuel p = rest tbl p := by
  cases fuel with
  | zero => rfl
  | succ k => exact settle_succ_none h

/-- fuel irrelevance -/
theorem settle_fuel (tbl : List RSpec) : ∀ (f1 f2 : Nat) (p : Party),
    togo tbl p ≤ f1 → togo tbl p ≤ f2 → settle tbl f1 p = settle tbl f2 p := by
  intro f1
  induction f1 with
  | zero =>
    intro f2 p h1 _
    have hs : step tbl p = none := step_none_of_togo_zero (by omega)
    rw [settle_of_step_none _ hs, settle_of_step_none _ hs]
  | succ k ih =>
    intro f2 p h1 h2
    cases hs : step tbl p with
    | none => rw [settle_of_step_none _ hs, settle_of_step_none _ hs]
    | some p' =>
      have hlt := step_togo hs
      cases f2 with
      | zero => omega
      | succ f2 =>
        rw [settle_succ_some hs, settle_succ_some hs]
        exact ih f2 p' (by omega) (by omega)

theorem settleF_of_step_some {tbl : List RSpec} {p p' : Party} (hs : step tbl p = some p') :
    settleF tbl p = settleF tbl p' := by
  unfold settleF
  rw [settle_succ_some hs]
  have := step_togo hs
  exact settle_fuel tbl _ _ p' (by have := togo_le tbl p; omega) (togo_le tbl p')

theorem settleF_of_step_none {tbl : List RSpec} {p : Party} (hs : step tbl p = none) :
    settleF tbl p = rest tbl p := settle_succ_none hs

/-- induction principle for the full settle: follow productive steps until none is possible -/
theorem settleF_induction {tbl : List RSpec} (P : Party → Party → Prop)
    (hnone : ∀ p, step tbl p = none → P p (rest tbl p))
    (hsome : ∀ p p', step tbl p = some p' → P p' (settleF tbl p') → P p (settleF tbl p'))
    (p : Party) : P p (settleF tbl p) := by
  suffices h : ∀ k p, togo tbl p ≤ k → P p (settleF tbl p) from h _ p (Nat.le_refl _)
  intro k
  induction k with
  | zero =>
    intro p hk
    have hs : step tbl p = none := step_none_of_togo_zero (by omega)
    rw [settleF_of_step_none hs]; exact hnone p hs
  | succ k ih =>
    intro p hk
    cases hs : step tbl p with
    | none => rw [settleF_of_step_none hs]; exact hnone p hs
    | some p' =>
      rw [settleF_of_step_some hs]
      exact hsome p p' hs (ih p' (by have := step_togo hs; omega))

/-! ## 8. the scan -/

theorem sat_iff (needs : List (Nat × Bool)) (store : Nat → Nat → Option Slot) (j : Nat) :
    sat needs store j = true ↔ ∀ tf ∈ needs, ∃ s, store tf.1 j = some s ∧ s.flag = tf.2 := by
  unfold sat
  rw [List.all_eq_true]
  constructor
  · intro h tf htf
    have := h tf htf
    split at this
    · rename_i s hs
      exact ⟨s, hs, by simpa using this⟩
    · cases this
  · intro h tf htf
    obtain ⟨s, hs, hf⟩ := h tf htf
    rw [hs]; simp [hf]

theorem scan_okOld_iff (r : RSpec) (p : Party) (j : Nat) :
    (scan r p).okOld j = true ↔ p.okOld j = true ∨
      (r.final = false ∧ j < p.nOld ∧ r.needsOld ≠ [] ∧ sat r.needsOld p.store j = true) := by
  unfold scan
  cases hf : r.final
  · simp only [Bool.false_eq_true, if_false, Bool.or_eq_true, Bool.and_eq_true, decide_eq_true_eq,
      Bool.not_eq_true', List.isEmpty_eq_false_iff, true_and, and_assoc, ne_eq]
  · simp

theorem scan_okNew_iff (r : RSpec) (p : Party) (j : Nat) :
    (scan r p).okNew j = true ↔ p.okNew j = true ∨
      (r.final = false ∧ j < p.nNew ∧ r.needsNew ≠ [] ∧ sat r.needsNew p.store j = true) := by
  unfold scan
  cases hf : r.final
  · simp only [Bool.false_eq_true, if_false, Bool.or_eq_true, Bool.and_eq_true, decide_eq_true_eq,
      Bool.not_eq_true', List.isEmpty_eq_false_iff, true_and, and_assoc, ne_eq]
  · simp

theorem canProceed_iff (p : Party) :
    canProceed p = true ↔ (∀ j, j < p.nOld → p.okOld j = true) ∧ (∀ j, j < p.nNew → p.okNew j = true) := by
  unfold canProceed
  simp only [Bool.and_eq_true, List.all_eq_true, List.mem_range]

/-- two parties that agree on everything but the `ok` arrays, and on those pointwise, are equal -/
theorem party_ext {p q : Party} (h1 : p.nOld = q.nOld) (h2 : p.nNew = q.nNew) (h3 : p.isNew = q.isNew)
    (h4 : p.self = q.self) (h5 : p.rnd = q.rnd) (h6 : p.done = q.done) (h7 : ∀ j, p.okOld j = q.okOld j)
    (h8 : ∀ j, p.okNew j = q.okNew j) (h9 : p.store = q.store) (h10 : p.out = q.out) (h11 : p.ended = q.ended) :
    p = q := by
  cases p; cases q
  simp only at h1 h2 h3 h4 h5 h6 h9 h10 h11
  have e7 := funext h7
  have e8 := funext h8
  simp only at e7 e8
  subst h1 h2 h3 h4 h5 h6 h9 h10 h11 e7 e8
  rfl

/-- scanning twice is scanning once -/
theorem scan_scan (r : RSpec) (p : Party) : scan r (scan r p) = scan r p := by
  apply party_ext
  · rw [scan_nOld]
  · rw [scan_nNew]
  · unfold scan; split <;> rfl
  · rw [scan_self]
  · rw [scan_rnd]
  · rw [scan_done]
  · intro j
    apply Bool.eq_iff_iff.mpr
    rw [scan_okOld_iff r (scan r p), scan_okOld_iff r p, scan_nOld, scan_store]
    constructor
    · rintro (h | h)
      · exact h
      · exact Or.inr h
    · intro h; exact Or.inl h
  · intro j
    apply Bool.eq_iff_iff.mpr
    rw [scan_okNew_iff r (scan r p), scan_okNew_iff r p, scan_nNew, scan_store]
    constructor
    · rintro (h | h)
      · exact h
      · exact Or.inr h
    · intro h; exact Or.inl h
  · rw [scan_store]
  · rw [scan_out]
  · rw [scan_ended]

/-! ## 9. fixpoint -/

/-- nothing more to do: no productive step, and the scan of the current round has been recorded -/
def Settled (tbl : List RSpec) (p : Party) : Prop := step tbl p = none ∧ rest tbl p = p

theorem rest_rest (tbl : List RSpec) (p : Party) : rest tbl (rest tbl p) = rest tbl p := by
  rcases rest_cases tbl p with e | ⟨r, h0, hd, hr, e⟩
  · rw [e, e]
  · rw [e]
    have h0' : (scan r p).rnd ≠ 0 := by rw [scan_rnd]; exact h0
    have hd' : (scan r p).done = false := by rw [scan_done]; exact hd
    have hr' : tbl[(scan r p).rnd - 1]? = some r := by rw [scan_rnd]; exact hr
    rw [rest_eq_of h0' hd' hr', scan_scan]

theorem step_rest_none {tbl : List RSpec} {p : Party} (hs : step tbl p = none) : step tbl (rest tbl p) = none := by
  rcases rest_cases tbl p with e | ⟨r, h0, hd, hr, e⟩
  · rw [e]; exact hs
  · rw [e]
    have h0' : (scan r p).rnd ≠ 0 := by rw [scan_rnd]; exact h0
    have hd' : (scan r p).done = false := by rw [scan_done]; exact hd
    have hr' : tbl[(scan r p).rnd - 1]? = some r := by rw [scan_rnd]; exact hr
    rw [step_none_iff h0' hd' hr', scan_scan]
    exact (step_none_iff h0 hd hr).mp hs

theorem settled_rest {tbl : List RSpec} {p : Party} (hs : step tbl p = none) : Settled tbl (rest tbl p) :=
  ⟨step_rest_none hs, rest_rest tbl p⟩

/-- **fixpoint**: the full settle ends in a state from which nothing more can be done -/
theorem settled_settleF (tbl : List RSpec) (p : Party) : Settled tbl (settleF tbl p) :=
  settleF_induction (fun _ q => Settled tbl q) (fun _ hs => settled_rest hs) (fun _ _ _ h => h) p

theorem settleF_of_settled {tbl : List RSpec} {p : Party} (h : Settled tbl p) : settleF tbl p = p := by
  rw [settleF_of_step_none h.1, h.2]

theorem settled_deliver (tbl : List RSpec) (m : Msg) (p : Party) : Settled tbl (deliver tbl m p) :=
  settled_settleF tbl _

theorem settled_of_not_started {tbl : List RSpec} {p : Party} (h : p.rnd = 0 ∨ p.done = true) : Settled tbl p :=
  ⟨step_none_of_not_started h, rest_of_not_started h⟩

/-- before `Start` a delivery only stores -/
theorem deliver_of_not_started {tbl : List RSpec} {p : Party} (m : Msg) (h : p.rnd = 0 ∨ p.done = true) :
    deliver tbl m p = storeMsg m p := by
  rw [deliver_eq]
  exact settleF_of_settled (settled_of_not_started (p := storeMsg m p) h)

/-- `Start` with the "messages were stored before" flag runs to the fixpoint -/
theorem settled_start_true {tbl : List RSpec} {p : Party} (h : Settled tbl p) : Settled tbl (start tbl true p) := by
  rcases start_cases tbl true p with e | ⟨r, _, _, ⟨_, e⟩ | ⟨hf, _⟩⟩
  · rw [e]; exact h
  · rw [e]; exact settled_settleF tbl _
  · cases hf

/-! ## 10. a round advances only when its requirements are met -/

theorem advance_requires (tbl : List RSpec) (p p' : Party) (hs : step tbl p = some p') :
    ∃ r, tbl[p.rnd - 1]? = some r ∧
      (∀ j, j < p.nOld → p.okOld j = true ∨ (r.final = false ∧ r.needsOld ≠ [] ∧ sat r.needsOld p.store j = true)) ∧
      (∀ j, j < p.nNew → p.okNew j = true ∨ (r.final = false ∧ r.needsNew ≠ [] ∧ sat r.needsNew p.store j = true)) ∧
      ((p'.rnd = p.rnd + 1 ∧ p'.done = false) ∨ (p'.rnd = p.rnd ∧ p'.done = true ∧ p.rnd = tbl.length)) := by
  obtain ⟨h0, hd, r, hr, hcp, hc⟩ := step_cases hs
  rw [canProceed_iff] at hcp
  refine ⟨r, hr, ?_, ?_, ?_⟩
  · intro j hj
    have := hcp.1 j (by rw [scan_nOld]; exact hj)
    rcases (scan_okOld_iff r p j).mp this with h | ⟨h1, _, h2, h3⟩
    · exact Or.inl h
    · exact Or.inr ⟨h1, h2, h3⟩
  · intro j hj
    have := hcp.2 j (by rw [scan_nNew]; exact hj)
    rcases (scan_okNew_iff r p j).mp this with h | ⟨h1, _, h2, h3⟩
    · exact Or.inl h
    · exact Or.inr ⟨h1, h2, h3⟩
  · rcases hc with ⟨r', _, rfl⟩ | ⟨hn, rfl⟩
    · refine Or.inl ⟨rfl, ?_⟩
      show (scan r p).done = false
      rw [scan_done]; exact hd
    · refine Or.inr ⟨scan_rnd r p, rfl, ?_⟩
      have h1 := lt_of_getElem?_some hr
      have h2 := List.getElem?_eq_none_iff.mp hn
      omega

end TssVerif.E2L
