import TssVerif.Core.Mta
import TssVerif.Lemmas.GoIntSpec
import TssVerif.Lemmas.Paillier
import TssVerif.Lemmas.CurveLaw
import TssVerif.Lemmas.VssVerify
import TssVerif.Lemmas.C16
import Mathlib.Tactic.Ring
import Mathlib.Tactic.Zify
/-! Helper lemmas for `TssVerif/Props/C13.lean`: the multiplicative-to-additive exchange
(`crypto/mta/share_protocol.go`, model `TssVerif/Core/Mta.lean`).

* arithmetic core (`mta_arith_general`, `mta_no_wrap`);
* inversion of the three `do` blocks (`aliceInit_ok`, `bobMid_ok`, `aliceEnd_ok`): what an `.ok` result says
  about every intermediate call;
* the ciphertext Bob returns is a well-formed ciphertext of `b·a + β'` (`cB_isCt`), hence decrypts to it;
* the point check inside `bobVerify` (`bobVerify_point`, `point_relation`);
* the integer lists fed to the challenge hashes (`bobPreimage`, `rangePreimage`) and their injectivity,
  on the level of integers and on the level of the framed byte string. -/
set_option autoImplicit false
namespace TssVerif.C13L
open TssVerif TssVerif.Paillier TssVerif.PaillierL TssVerif.Zk TssVerif.Mta

/-! ## the `Outcome` monad: inversion of `>>=` and of guards -/

theorem bind_eq_ok {α β : Type} {x : Outcome α} {f : α → Outcome β} {b : β} :
    (x >>= f) = .ok b ↔ ∃ a, x = .ok a ∧ f a = .ok b := by
  cases x with
  | ok a => simp [PaillierL.ok_bind]
  | err t => simp [PaillierL.err_bind]
  | panic t => simp [PaillierL.panic_bind]

/-- a verifier guard `if c then return false` that let an accepting run through -/
theorem guard_ok_true {c : Prop} [Decidable c] {x : Outcome Bool}
    (h : (if c then Outcome.ok false else x) = .ok true) : ¬ c ∧ x = .ok true := by
  by_cases hc : c
  · rw [if_pos hc] at h; exact absurd h (by simp)
  · rw [if_neg hc] at h; exact ⟨hc, h⟩

theorem ite_cases {α : Type} {c : Prop} [Decidable c] {a b r : α}
    (h : (if c then a else b) = r) : (c ∧ a = r) ∨ (¬ c ∧ b = r) := by
  by_cases hc : c
  · rw [if_pos hc] at h; exact .inl ⟨hc, h⟩
  · rw [if_neg hc] at h; exact .inr ⟨hc, h⟩

/-! ## arithmetic core -/

/-- Only `0 < q` and the no-wrap condition are needed. `((0:ℤ) - β') % q` then `toNat` is the Go
expression `beta = common.ModInt(q).Sub(zero, betaPrm)` as modelled in `bobMid`. -/
theorem mta_arith_general {q n a b betaPrm : ℕ} (hq : 0 < q) (hnw : a * b + betaPrm < n) :
    ((a * b + betaPrm) % n % q + (((0 : ℤ) - (betaPrm : ℤ)) % (q : ℤ)).toNat) % q = a * b % q := by
  rw [Nat.mod_eq_of_lt hnw]
  have ht : ((((0 : ℤ) - (betaPrm : ℤ)) % (q : ℤ)).toNat : ℤ) = (-(betaPrm : ℤ)) % (q : ℤ) := by
    rw [Int.toNat_of_nonneg (Int.emod_nonneg _ (by omega)), zero_sub]
  zify
  rw [ht, ← Int.add_emod]
  congr 1; ring

set_option exponentiation.threshold 4096 in
/-- why a 2048-bit Paillier modulus never wraps: `a b + β' < 2^512 + 2^1280 ≤ 2^1281 ≤ 2^2047 ≤ n` -/
theorem mta_no_wrap {q n a b betaPrm : ℕ} (hq : q < 2 ^ 256) (hn : 2 ^ 2047 ≤ n)
    (ha : a < q) (hb : b < q) (hbp : betaPrm < q ^ 5) : a * b + betaPrm < n := by
  have h1 : a * b < 2 ^ 256 * 2 ^ 256 := Nat.mul_lt_mul'' (by omega) (by omega)
  have h2 : q ^ 5 ≤ (2 ^ 256) ^ 5 := Nat.pow_le_pow_left (by omega) 5
  have e1 : (2 : ℕ) ^ 256 * 2 ^ 256 = 2 ^ 512 := (pow_add 2 256 256).symm
  have e2 : ((2 : ℕ) ^ 256) ^ 5 = 2 ^ 1280 := (pow_mul 2 256 5).symm
  have e3 : (2 : ℕ) ^ 512 ≤ 2 ^ 1280 := Nat.pow_le_pow_right (by omega) (by omega)
  have e4 : (2 : ℕ) ^ 1281 = 2 ^ 1280 * 2 := pow_succ 2 1280
  have e5 : (2 : ℕ) ^ 1281 ≤ 2 ^ 2047 := Nat.pow_le_pow_right (by omega) (by omega)
  rw [e1] at h1; rw [e2] at h2
  generalize (2 : ℕ) ^ 512 = A at *
  generalize (2 : ℕ) ^ 1280 = B at *
  generalize (2 : ℕ) ^ 1281 = D at *
  generalize (2 : ℕ) ^ 2047 = E at *
  generalize q ^ 5 = F at *
  generalize a * b = G at *
  omega

/-! ## inversion of the homomorphic operations -/

theorem homoMult_ok {n k c r : ℕ} (h : homoMult n (k : ℤ) (c : ℤ) = .ok r) :
    k < n ∧ c < n * n ∧ r = c ^ k % (n * n) := by
  by_cases hk : k < n
  · by_cases hc : c < n * n
    · rw [homoMult_eq hk hc] at h
      injection h with h
      exact ⟨hk, hc, h.symm⟩
    · have g1 : ¬ ((k : ℤ) < 0 ∨ (k : ℤ) ≥ (n : ℤ)) := by omega
      have g2 : (c : ℤ) < 0 ∨ (c : ℤ) ≥ ((nSquare n : ℕ) : ℤ) := by unfold nSquare; omega
      simp only [homoMult, if_neg g1, if_pos g2] at h
      exact absurd h (by simp)
  · have g1 : (k : ℤ) < 0 ∨ (k : ℤ) ≥ (n : ℤ) := by omega
    simp only [homoMult, if_pos g1] at h
    exact absurd h (by simp)

theorem homoAdd_ok {n c1 c2 r : ℕ} (h : homoAdd n (c1 : ℤ) (c2 : ℤ) = .ok r) :
    c1 < n * n ∧ c2 < n * n ∧ r = c1 * c2 % (n * n) := by
  by_cases h1 : c1 < n * n
  · by_cases h2 : c2 < n * n
    · rw [homoAdd_eq h1 h2] at h
      injection h with h
      exact ⟨h1, h2, h.symm⟩
    · have g1 : ¬ ((c1 : ℤ) < 0 ∨ (c1 : ℤ) ≥ ((nSquare n : ℕ) : ℤ)) := by unfold nSquare; omega
      have g2 : (c2 : ℤ) < 0 ∨ (c2 : ℤ) ≥ ((nSquare n : ℕ) : ℤ) := by unfold nSquare; omega
      simp only [homoAdd, if_neg g1, if_pos g2] at h
      exact absurd h (by simp)
  · have g1 : (c1 : ℤ) < 0 ∨ (c1 : ℤ) ≥ ((nSquare n : ℕ) : ℤ) := by unfold nSquare; omega
    simp only [homoAdd, if_pos g1] at h
    exact absurd h (by simp)

/-! ## inversion of `aliceInit`, `bobMid`, `aliceEnd` -/

variable {Pt : Type} (C : Curve Pt) (H : HashFn)

theorem aliceInit_ok {nA a : ℕ} {rpB : RP} {x al be ga rho : ℕ} {cA : ℕ} {rpf : RangeProof}
    (h : aliceInit C H nA a rpB x al be ga rho = .ok (cA, rpf)) :
    encryptWith nA (a : ℤ) x = .ok cA ∧
    rangeProve H C.q nA cA rpB.ntilde rpB.h1 rpB.h2 a x al be ga rho = .ok rpf := by
  unfold aliceInit at h
  simp only [bind_eq_ok] at h
  obtain ⟨c, h1, pf, h2, h3⟩ := h
  injection h3 with h3
  injection h3 with h3 h4
  subst h3; subst h4
  exact ⟨h1, h2⟩

/-- everything an `.ok` result of `BobMid`/`BobMidWC` says -/
theorem bobMid_ok {cfg : Cfg} {sess : Bytes} {nA : ℕ} {rpf : RangeProof} {b cA : ℕ} {rpA rpB : RP}
    {B : Option ECPoint} {betaPrm xB : ℕ} {k : BobCoins} {out : BobOut}
    (h : bobMid C H cfg sess nA rpf b cA rpA rpB B betaPrm xB k = .ok out) :
    rangeVerify cfg H C.q (nA : ℤ) rpB.ntilde rpB.h1 rpB.h2 (cA : ℤ) rpf = .ok true ∧
    ∃ cBp cB0 : ℕ, encryptWith nA (betaPrm : ℤ) xB = .ok cBp ∧ homoMult nA (b : ℤ) (cA : ℤ) = .ok cB0 ∧
      homoAdd nA (cB0 : ℤ) (cBp : ℤ) = .ok out.cB ∧
      bobProve C H sess nA rpA.ntilde rpA.h1 rpA.h2 cA out.cB b betaPrm xB B k = .ok (out.pf, out.u) ∧
      out.beta = (((0 : ℤ) - (betaPrm : ℤ)) % (C.q : ℤ)).toNat ∧ out.betaPrm = betaPrm := by
  unfold bobMid at h
  simp only [bind_eq_ok] at h
  obtain ⟨okR, hR, h⟩ := h
  cases okR with
  | false => simp at h
  | true =>
    simp only [Bool.not_true, Bool.false_eq_true, if_false, bind_eq_ok] at h
    obtain ⟨cBp, h1, cB0, h2, cB, h3, ⟨pf, u⟩, h4, h5⟩ := h
    injection h5 with h5
    subst h5
    exact ⟨hR, cBp, cB0, h1, h2, h3, h4, rfl, rfl⟩

/-- everything an `.ok` result of `AliceEnd`/`AliceEndWC` says -/
theorem aliceEnd_ok {cfg : Cfg} {sess : Bytes} {sk : PrivateKey} {pf : BobProof} {rpA : RP} {cA cB : ℕ}
    {xu : Option (ECPoint × ECPoint)} {alpha : ℕ}
    (h : aliceEnd C H cfg sess sk pf rpA cA cB xu = .ok alpha) :
    bobVerify C H cfg sess (sk.n : ℤ) rpA.ntilde rpA.h1 rpA.h2 (cA : ℤ) (cB : ℤ) pf xu = .ok true ∧
    ∃ alphaPrm : ℕ, decrypt sk (cB : ℤ) = .ok alphaPrm ∧ alpha = alphaPrm % C.q := by
  unfold aliceEnd at h
  simp only [bind_eq_ok] at h
  obtain ⟨ok, hV, h⟩ := h
  cases ok with
  | false => simp at h
  | true =>
    simp only [Bool.not_true, Bool.false_eq_true, if_false, bind_eq_ok] at h
    obtain ⟨ap, h1, h2⟩ := h
    injection h2 with h2
    exact ⟨hV, ap, h1, h2.symm⟩

/-- a rejected proof never yields a share: the exact outcome -/
theorem aliceEnd_of_reject {cfg : Cfg} {sess : Bytes} {sk : PrivateKey} {pf : BobProof} {rpA : RP} {cA cB : ℕ}
    {xu : Option (ECPoint × ECPoint)}
    (h : bobVerify C H cfg sess (sk.n : ℤ) rpA.ntilde rpA.h1 rpA.h2 (cA : ℤ) (cB : ℤ) pf xu = .ok false) :
    aliceEnd C H cfg sess sk pf rpA cA cB xu = .err "bob-proof-rejected" := by
  unfold aliceEnd
  rw [h]; rfl

theorem bobMid_of_reject {cfg : Cfg} {sess : Bytes} {nA : ℕ} {rpf : RangeProof} {b cA : ℕ} {rpA rpB : RP}
    {B : Option ECPoint} {betaPrm xB : ℕ} {k : BobCoins}
    (h : rangeVerify cfg H C.q (nA : ℤ) rpB.ntilde rpB.h1 rpB.h2 (cA : ℤ) rpf = .ok false) :
    bobMid C H cfg sess nA rpf b cA rpA rpB B betaPrm xB k = .err "range-proof-rejected" := by
  unfold bobMid
  rw [h]; rfl

/-- `ProveBobWC` always returns `U = α·G` next to the proof -/
theorem bobProve_some_u {sess : Bytes} {n nt h1 h2 c1 c2 x y r : ℕ} {X : ECPoint} {k : BobCoins}
    {pf : BobProof} {u : Option ECPoint}
    (h : bobProve C H sess n nt h1 h2 c1 c2 x y r (some X) k = .ok (pf, u)) :
    ∃ U, u = some U ∧ C.ecBaseMult (k.alpha : ℤ) = .ok U := by
  unfold bobProve at h
  simp only [bind_eq_ok] at h
  obtain ⟨u', hu, h⟩ := h
  cases hb : C.ecBaseMult (k.alpha : ℤ) with
  | ok U =>
    rw [hb] at hu
    change Outcome.ok (some U) = Outcome.ok u' at hu
    injection hu with hu
    subst hu
    injection h with h
    injection h with _ h
    exact ⟨U, h.symm, rfl⟩
  | err t => rw [hb] at hu; exact absurd hu (by intro h; cases h)
  | panic t => rw [hb] at hu; exact absurd hu (by intro h; cases h)

/-! ## the algebra: Bob's ciphertext is a well-formed ciphertext of `b·a + β'` -/

/-- what Bob sends back, as a closed expression in Alice's ciphertext -/
theorem cB_isCt {n a b betaPrm x xB cA cBp cB0 cB : ℕ} (hn : 1 < n)
    (hx : Nat.Coprime x n) (hxB : Nat.Coprime xB n)
    (hA : encryptWith n (a : ℤ) x = .ok cA) (hBp : encryptWith n (betaPrm : ℤ) xB = .ok cBp)
    (hM : homoMult n (b : ℤ) (cA : ℤ) = .ok cB0) (hS : homoAdd n (cB0 : ℤ) (cBp : ℤ) = .ok cB) :
    IsCt n (b * a + betaPrm) cB := by
  obtain ⟨-, -, rfl⟩ := encryptWith_ok_iff.1 hA
  obtain ⟨-, -, rfl⟩ := encryptWith_ok_iff.1 hBp
  simp only [Int.toNat_natCast] at *
  obtain ⟨-, -, rfl⟩ := homoMult_ok hM
  obtain ⟨-, -, rfl⟩ := homoAdd_ok hS
  exact ((isCt_encNat hn hx a).homoMult hn b).homoAdd hn (isCt_encNat hn hxB betaPrm)

/-- **the share relation**, for any key on which `λ` works (`LamOK`), any configuration of the guards,
with or without the public point -/
theorem mta_core {cfgB cfgA : Cfg} {sess : Bytes} {sk : PrivateKey} (hk : LamOK sk.n sk.lambdaN)
    {rpA rpB : RP} {a b x xB betaPrm : ℕ} {al be ga rho : ℕ} {k : BobCoins}
    {B : Option ECPoint} {xu : Option (ECPoint × ECPoint)}
    (hx : Nat.gcd x sk.n = 1) (hxB : Nat.gcd xB sk.n = 1)
    {cA : ℕ} {rpf : RangeProof} {out : BobOut} {alpha : ℕ}
    (h1 : aliceInit C H sk.n a rpB x al be ga rho = .ok (cA, rpf))
    (h2 : bobMid C H cfgB sess sk.n rpf b cA rpA rpB B betaPrm xB k = .ok out)
    (h3 : aliceEnd C H cfgA sess sk out.pf rpA cA out.cB xu = .ok alpha) :
    decrypt sk (out.cB : ℤ) = .ok ((a * b + betaPrm) % sk.n) ∧
    alpha = (a * b + betaPrm) % sk.n % C.q ∧
    out.beta = (((0 : ℤ) - (betaPrm : ℤ)) % (C.q : ℤ)).toNat := by
  obtain ⟨hA, -⟩ := aliceInit_ok C H h1
  obtain ⟨-, cBp, cB0, hBp, hM, hS, -, hbeta, -⟩ := bobMid_ok C H h2
  obtain ⟨-, ap, hD, halpha⟩ := aliceEnd_ok C H h3
  have hct := cB_isCt hk.one_lt hx hxB hA hBp hM hS
  have hdec := decrypt_isCt hk hct
  rw [mul_comm b a] at hdec
  rw [hdec] at hD
  injection hD with hD
  exact ⟨hdec, by rw [halpha, ← hD], hbeta⟩

/-! ## progress: the proof gates are the only way to fail -/

/-- the ciphertext Bob computes, in closed form -/
def cBOf (n a b betaPrm x xB : ℕ) : ℕ :=
  (encNat n a x) ^ b % (n * n) * encNat n betaPrm xB % (n * n)

theorem encNat_lt {n : ℕ} (hn : 0 < n) (m x : ℕ) : encNat n m x < n * n :=
  Nat.mod_lt _ (Nat.mul_pos hn hn)

/-- if Alice's range proof verifies and Bob's prover returns a proof, `BobMid` returns -/
theorem bobMid_progress {cfg : Cfg} {sess : Bytes} {n : ℕ} {rpf : RangeProof} {a b x : ℕ} {rpA rpB : RP}
    {B : Option ECPoint} {betaPrm xB : ℕ} {k : BobCoins} {pf : BobProof} {u : Option ECPoint}
    (hb : b < n) (hbp : betaPrm < n)
    (hR : rangeVerify cfg H C.q (n : ℤ) rpB.ntilde rpB.h1 rpB.h2 (encNat n a x : ℤ) rpf = .ok true)
    (hP : bobProve C H sess n rpA.ntilde rpA.h1 rpA.h2 (encNat n a x) (cBOf n a b betaPrm x xB)
      b betaPrm xB B k = .ok (pf, u)) :
    bobMid C H cfg sess n rpf b (encNat n a x) rpA rpB B betaPrm xB k =
      .ok ⟨(((0 : ℤ) - (betaPrm : ℤ)) % (C.q : ℤ)).toNat, cBOf n a b betaPrm x xB, betaPrm, pf, u⟩ := by
  have hn : 0 < n := by omega
  unfold bobMid
  rw [hR, ok_bind]
  simp only [Bool.not_true, Bool.false_eq_true, if_false]
  rw [encryptWith_eq hbp, ok_bind, homoMult_eq hb (encNat_lt hn a x), ok_bind,
    homoAdd_eq (Nat.mod_lt _ (Nat.mul_pos hn hn)) (encNat_lt hn betaPrm xB), ok_bind]
  change (bobProve C H sess n rpA.ntilde rpA.h1 rpA.h2 (encNat n a x) (cBOf n a b betaPrm x xB)
      b betaPrm xB B k >>= _) = _
  rw [hP, ok_bind]
  rfl

/-- if Bob's proof verifies, `AliceEnd` returns the share `(a b + β') mod n mod q` -/
theorem aliceEnd_progress {cfg : Cfg} {sess : Bytes} {sk : PrivateKey} (hk : LamOK sk.n sk.lambdaN)
    {pf : BobProof} {rpA : RP} {a b betaPrm x xB : ℕ} {xu : Option (ECPoint × ECPoint)}
    (hx : Nat.gcd x sk.n = 1) (hxB : Nat.gcd xB sk.n = 1)
    (hV : bobVerify C H cfg sess (sk.n : ℤ) rpA.ntilde rpA.h1 rpA.h2 (encNat sk.n a x : ℤ)
      (cBOf sk.n a b betaPrm x xB : ℤ) pf xu = .ok true) :
    aliceEnd C H cfg sess sk pf rpA (encNat sk.n a x) (cBOf sk.n a b betaPrm x xB) xu =
      .ok ((a * b + betaPrm) % sk.n % C.q) := by
  have hn := hk.one_lt
  have hct : IsCt sk.n (b * a + betaPrm) (cBOf sk.n a b betaPrm x xB) :=
    ((isCt_encNat hn hx a).homoMult hn b).homoAdd hn (isCt_encNat hn hxB betaPrm)
  unfold aliceEnd
  rw [hV, ok_bind]
  simp only [Bool.not_true, Bool.false_eq_true, if_false]
  rw [decrypt_isCt hk hct, ok_bind, mul_comm b a]

/-! ## the point check of `ProofBobWC.Verify` -/

/-- acceptance with a public point forces the three curve calls to succeed and the comparison
`s1·G = e·X + U` to hold (and, on the current tree, `s1 mod q ≠ 0`, `e ≠ 0`) -/
theorem bobVerify_point {cfg : Cfg} {sess : Bytes} {n nt h1 h2 c1 c2 : ℤ} {pf : BobProof} {X U : ECPoint}
    (h : bobVerify C H cfg sess n nt h1 h2 c1 c2 pf (some (X, U)) = .ok true) :
    ∃ gS1 xe xeu : ECPoint,
      C.ecBaseMult ((pf.s1 % (C.q : ℤ)).toNat : ℤ) = .ok gS1 ∧
      C.ecScalarMult X (bobChallenge C H sess n c1 c2 (some (X, U)) pf : ℤ) = .ok xe ∧
      C.ecAdd xe U = .ok xeu ∧ ecEquals gS1 xeu = true ∧
      (cfg.bobWCGuards = true →
        (pf.s1 % (C.q : ℤ)).toNat ≠ 0 ∧ bobChallenge C H sess n c1 c2 (some (X, U)) pf ≠ 0) := by
  unfold bobVerify at h
  iterate 21 (replace h := (guard_ok_true h).2)
  rcases ite_cases h with ⟨_, h⟩ | ⟨hg, h⟩
  · exact absurd h (by simp [Outcome.pure_eq])
  · simp only [bind_eq_ok] at h
    obtain ⟨gS1, hg1, xe, hxe, h⟩ := h
    refine ⟨gS1, xe, ?_⟩
    cases hadd : C.ecAdd xe U with
    | ok xeu =>
      rw [hadd] at h
      simp only [Outcome.pure_eq, PaillierL.ok_bind] at h
      cases heq : ecEquals gS1 xeu with
      | false => rw [heq] at h; exact absurd h (by simp)
      | true =>
        refine ⟨xeu, hg1, hxe, rfl, heq, fun hcfg => ?_⟩
        simp only [hcfg, Bool.true_and, Bool.or_eq_true, beq_iff_eq, not_or] at hg
        exact hg
    | err t => rw [hadd] at h; exact absurd h (by simp [Outcome.pure_eq])
    | panic t => rw [hadd] at h; exact absurd h (by simp)

/-- the same relation between group elements of a lawful curve:
`(s1 mod q)·G = e·X + U` for the points `X`, `U` that the coordinates denote -/
theorem point_relation (hC : C.Lawful) {s1q e : ℕ} {X U gS1 xe xeu : ECPoint}
    (h1 : C.ecBaseMult (s1q : ℤ) = .ok gS1) (h2 : C.ecScalarMult X (e : ℤ) = .ok xe)
    (h3 : C.ecAdd xe U = .ok xeu) (h4 : ecEquals gS1 xeu = true) :
    ∃ pX pU : Pt, C.lift X = some pX ∧ C.lift U = some pU ∧
      C.smul s1q C.base = C.add (C.smul e pX) pU := by
  have h4' : gS1 = xeu := (Vss.ecEquals_iff gS1 xeu).1 h4
  subst h4'
  -- base mult
  have b1 : C.toAffine (C.smul s1q C.base) = some gS1 := by
    unfold Curve.ecBaseMult at h1
    rw [Int.natAbs_natCast] at h1
    cases ht : C.toAffine (C.smul s1q C.base) with
    | none => rw [ht] at h1; exact absurd h1 (by simp)
    | some r => rw [ht] at h1; injection h1 with h1; rw [h1]
  -- scalar mult
  obtain ⟨pX, hpX, b2⟩ : ∃ pX, C.lift X = some pX ∧ C.toAffine (C.smul e pX) = some xe := by
    unfold Curve.ecScalarMult at h2
    rw [Int.natAbs_natCast] at h2
    cases hl : C.lift X with
    | none => simp [hl] at h2
    | some pX =>
      refine ⟨pX, rfl, ?_⟩
      cases ht : C.toAffine (C.smul e pX) with
      | none => simp [hl, ht] at h2
      | some r => simp only [hl, ht, Outcome.ok.injEq] at h2; rw [h2]
  -- add
  unfold Curve.ecAdd at h3
  have hxe : C.lift xe = some (C.smul e pX) := by
    obtain ⟨x1, x2⟩ := xe
    exact hC.toAffine_ofAffine x1 x2 _ b2
  cases hl : C.lift U with
  | none => simp [hxe, hl] at h3
  | some pU =>
    refine ⟨pX, pU, hpX, rfl, ?_⟩
    cases ht : C.toAffine (C.add (C.smul e pX) pU) with
    | none => simp [hxe, hl, ht] at h3
    | some r =>
      simp only [hxe, hl, ht, Outcome.ok.injEq] at h3
      subst h3
      exact hC.toAffine_inj _ _ (b1.trans ht.symm)

/-! ## what the challenge hashes are fed -/

/-- the integer list `ProofBob(WC).Verify` / `ProveBob(WC)` hash: `[N, N+1, (X), c1, c2, (U), z, z', t, v, w]` -/
def bobPreimage (n c1 c2 : ℤ) (xu : Option (ECPoint × ECPoint)) (pf : BobProof) : List ℤ :=
  match xu with
  | none => [n, n + 1, c1, c2, pf.z, pf.zPrm, pf.t, pf.v, pf.w]
  | some (X, U) => [n, n + 1, X.1, X.2, c1, c2, U.1, U.2, pf.z, pf.zPrm, pf.t, pf.v, pf.w]

/-- the integer list `RangeProofAlice.Verify` / `ProveRangeAlice` hash: `[N, N+1, c, z, u, w]` -/
def rangePreimage (n c z u w : ℤ) : List ℤ := [n, n + 1, c, z, u, w]

theorem bobChallenge_eq (sess : Bytes) (n c1 c2 : ℤ) (xu : Option (ECPoint × ECPoint)) (pf : BobProof) :
    bobChallenge C H sess n c1 c2 xu pf =
      rejectionSample C.q ((sha512_256iTaggedWith H sess (bobPreimage n c1 c2 xu pf)).getD 0) := by
  cases xu with
  | none => rfl
  | some p => rfl

theorem rangeChallenge_eq (q : ℕ) (n c z u w : ℤ) :
    rangeChallenge H q n c z u w =
      rejectionSample q ((sha512_256iWith H (rangePreimage n c z u w)).getD 0) := rfl

/-- the byte string that reaches the hash function inside `bobChallenge` -/
theorem bobChallenge_bytes (sess : Bytes) (n c1 c2 : ℤ) (xu : Option (ECPoint × ECPoint)) (pf : BobProof) :
    bobChallenge C H sess n c1 c2 xu pf =
      bytesToNat (H (taggedPreimage H sess (bobPreimage n c1 c2 xu pf))) % C.q := by
  rw [bobChallenge_eq]
  cases xu with
  | none => rfl
  | some p => rfl

/-- the byte string that reaches the hash function inside `rangeChallenge` -/
theorem rangeChallenge_bytes (q : ℕ) (n c z u w : ℤ) :
    rangeChallenge H q n c z u w =
      bytesToNat (H (frame ((rangePreimage n c z u w).map intToBytesBE))) % q := rfl

/-- the pre-image determines every input (the two shapes have different lengths) -/
theorem bobPreimage_inj {n c1 c2 n' c1' c2' : ℤ} {xu xu' : Option (ECPoint × ECPoint)} {pf pf' : BobProof}
    (h : bobPreimage n c1 c2 xu pf = bobPreimage n' c1' c2' xu' pf') :
    n = n' ∧ c1 = c1' ∧ c2 = c2' ∧ xu = xu' ∧
      pf.z = pf'.z ∧ pf.zPrm = pf'.zPrm ∧ pf.t = pf'.t ∧ pf.v = pf'.v ∧ pf.w = pf'.w := by
  rcases xu with _ | ⟨⟨X1, X2⟩, ⟨U1, U2⟩⟩ <;> rcases xu' with _ | ⟨⟨X1', X2'⟩, ⟨U1', U2'⟩⟩
  · simp only [bobPreimage, List.cons.injEq, and_true] at h
    obtain ⟨a, -, b, c, d, e, f, g, i⟩ := h
    exact ⟨a, b, c, rfl, d, e, f, g, i⟩
  · have := congrArg List.length h
    simp [bobPreimage] at this
  · have := congrArg List.length h
    simp [bobPreimage] at this
  · simp only [bobPreimage, List.cons.injEq, and_true, Nat.cast_inj] at h
    obtain ⟨a, -, x1, x2, b, c, u1, u2, d, e, f, g, i⟩ := h
    subst x1 x2 u1 u2
    exact ⟨a, b, c, rfl, d, e, f, g, i⟩

theorem rangePreimage_inj {n c z u w n' c' z' u' w' : ℤ}
    (h : rangePreimage n c z u w = rangePreimage n' c' z' u' w') :
    n = n' ∧ c = c' ∧ z = z' ∧ u = u' ∧ w = w' := by
  simp only [rangePreimage, List.cons.injEq, and_true] at h
  obtain ⟨a, -, b, c, d, e⟩ := h
  exact ⟨a, b, c, d, e⟩

/-! ### the same on the level of bytes: `Bytes()` drops signs, the framing is injective -/

/-- equal framed byte strings of two integer lists: the lists agree up to signs -/
theorem frame_int_natAbs {l l' : List ℤ} (hs : C16L.Short (l.map intToBytesBE))
    (hs' : C16L.Short (l'.map intToBytesBE))
    (h : frame (l.map intToBytesBE) = frame (l'.map intToBytesBE)) :
    l.map Int.natAbs = l'.map Int.natAbs := by
  have h1 := C16L.frame_inj hs hs' h
  have e : ∀ l : List ℤ, l.map intToBytesBE = (l.map Int.natAbs).map natToBytesBE := by
    intro l; rw [List.map_map]; rfl
  rw [e l, e l'] at h1
  exact List.map_injective_iff.2 (fun _ _ hab => C16L.natToBytesBE_inj hab) h1

theorem tagged_int_natAbs {tag : Bytes} {l l' : List ℤ} (hs : C16L.Short (l.map intToBytesBE))
    (hs' : C16L.Short (l'.map intToBytesBE))
    (h : taggedPreimage H tag l = taggedPreimage H tag l') :
    l.map Int.natAbs = l'.map Int.natAbs := by
  unfold taggedPreimage at h
  exact frame_int_natAbs hs hs' (List.append_cancel_left h)

end TssVerif.C13L
