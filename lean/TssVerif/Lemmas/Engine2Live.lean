import TssVerif.Lemmas.Engine2System
import TssVerif.Lemmas.Engine2Order
/-! No deadlock in the closed two-committee system: if every member of both committees has been started and every
emitted message has reached every member whose table needs its type, every member has started the final round. -/
set_option autoImplicit false
namespace TssVerif.E2L
open TssVerif.Engine (Slot)
open TssVerif.Engine2

/-! ## 24. table predicates -/

/-- exactly one final round, and it is the last one -/
def finalLast2 : List RSpec → Bool
  | [] => false
  | [r] => r.final
  | r :: r' :: rs => !r.final && finalLast2 (r' :: rs)

theorem endsUpTo_cons_succ (r : RSpec) (rs : List RSpec) (k : Nat) :
    endsUpTo (r :: rs) (k + 1) = (if r.final then 1 else 0) + endsUpTo rs k := by
  simp [endsUpTo]

theorem endsUpTo_finalLast2 : ∀ (tbl : List RSpec), finalLast2 tbl = true → ∀ k, k ≤ tbl.length →
    endsUpTo tbl k = if k = tbl.length then 1 else 0
  | [], h, _, _ => by simp [finalLast2] at h
  | [r], h, k, hk => by
    simp only [finalLast2] at h
    cases k with
    | zero => simp [endsUpTo]
    | succ k =>
      have : k = 0 := by simp at hk; omega
      subst this
      simp [endsUpTo, h]
  | r :: r' :: rs, h, k, hk => by
    simp only [finalLast2, Bool.and_eq_true, Bool.not_eq_true'] at h
    cases k with
    | zero => simp [endsUpTo]
    | succ k =>
      rw [endsUpTo_cons_succ, endsUpTo_finalLast2 (r' :: rs) h.2 k (by simp at hk ⊢; omega), h.1]
      simp

theorem finalLast2_getElem? : ∀ (tbl : List RSpec), finalLast2 tbl = true → ∀ i r, tbl[i]? = some r →
    (r.final = true ↔ i + 1 = tbl.length)
  | [], h, _, _, _ => by simp [finalLast2] at h
  | [r0], h, i, r, hi => by
    simp only [finalLast2] at h
    cases i with
    | zero => simp at hi; subst hi; simp [h]
    | succ i => simp at hi
  | r0 :: r' :: rs, h, i, r, hi => by
    simp only [finalLast2, Bool.and_eq_true, Bool.not_eq_true'] at h
    cases i with
    | zero => simp at hi; subst hi; simp [h.1]
    | succ i =>
      have hi' : (r' :: rs)[i]? = some r := by simpa using hi
      have := finalLast2_getElem? (r' :: rs) h.2 i r hi'
      rw [this]; simp

def notOther : Cnt → Bool
  | .perNewOther => false
  | _ => true

/-- type `ty` is emitted by `tbl` in a round with index `≤ k` (`allowOther`: also as a per-other-new-member type) -/
def emitsBy (tbl : List RSpec) (k ty : Nat) (allowOther : Bool) : Bool :=
  (tbl.take (k + 1)).any fun r' => r'.emits.any fun e => e.1 == ty && (allowOther || notOther e.2)

/-- `Start` puts own copies of everything in `needs` into the own slot -/
def selfCovers (r : RSpec) (needs : List (Nat × Bool)) : Bool :=
  needs.all fun tf => r.selfStore.find? (fun x => x.1 == tf.1) == some tf

/-- what round `k` of role `c` needs is supplied: a non-preset requirement on a committee names only types that
committee's table emits in that round or earlier, and the member's own share of a requirement on its own
committee is met by its own `Start` -/
def suppliedRound (P : Proto) (c : Bool) (k : Nat) (r : RSpec) : Bool :=
  r.final ||
  ((r.presetOld || (!r.needsOld.isEmpty && r.needsOld.all (fun tf => emitsBy P.old k tf.1 false) &&
      (c || selfCovers r r.needsOld))) &&
   (r.presetNew || (!r.needsNew.isEmpty && r.needsNew.all (fun tf => emitsBy P.new k tf.1 c) &&
      (!c || r.selfOkNew || selfCovers r r.needsNew))))

def supplied (P : Proto) (c : Bool) : Bool :=
  (List.range (tblOf P c).length).all fun k => match (tblOf P c)[k]? with
    | none => true
    | some r => suppliedRound P c k r

/-- channel discipline: every requirement and every own copy carries the flag genuine messages of its type carry -/
def disciplined2 (P : Proto) : Bool :=
  (P.old ++ P.new).all fun r => (r.needsOld ++ r.needsNew ++ r.selfStore).all fun tf => tf.2 == flagOf2 P tf.1

/-- some round of `tbl` needs type `ty` (from either committee) -/
def needsTy (tbl : List RSpec) (ty : Nat) : Bool :=
  tbl.any fun r => (r.needsOld.any fun tf => tf.1 == ty) || (r.needsNew.any fun tf => tf.1 == ty)

/-- the old members' first `Start` emits something the new members need (so a started new member is woken up) -/
def wakeNew (P : Proto) : Bool :=
  match P.old[0]? with
  | some r0 => r0.emits.any fun e => needsTy P.new e.1 && !ownTy P.new e.1 && notOther e.2
  | none => false

/-- the new members' first two rounds emit something the old members need -/
def wakeOld (P : Proto) : Bool :=
  (P.new.take 2).any fun r' => r'.emits.any fun e => needsTy P.old e.1 && !ownTy P.old e.1 && notOther e.2

/-- what `no_deadlock2` needs of a protocol (all decidable) -/
structure LiveFacts (P : Proto) : Prop where
  finOld : finalLast2 P.old = true
  finNew : finalLast2 P.new = true
  sameLen : P.old.length = P.new.length
  supOld : supplied P false = true
  supNew : supplied P true = true
  disc : disciplined2 P = true
  wakeN : wakeNew P = true
  wakeO : wakeOld P = true

theorem liveFacts_eddsa : LiveFacts eddsaResharing := by
  refine ⟨?_, ?_, ?_, ?_, ?_, ?_, ?_, ?_⟩ <;> decide

theorem liveFacts_ecdsa : LiveFacts ecdsaResharing := by
  refine ⟨?_, ?_, ?_, ?_, ?_, ?_, ?_, ?_⟩ <;> decide

theorem liveFacts_of_isLib {P : Proto} (h : IsLib P) : LiveFacts P := by
  rcases h with rfl | rfl
  · exact liveFacts_eddsa
  · exact liveFacts_ecdsa

theorem mem_tblOf {P : Proto} {c : Bool} {r : RSpec} (h : r ∈ tblOf P c) : r ∈ P.old ++ P.new := by
  cases c
  · exact List.mem_append_left _ h
  · exact List.mem_append_right _ h

theorem disc_needsOld {P : Proto} (hd : disciplined2 P = true) {c : Bool} {r : RSpec} (hr : r ∈ tblOf P c)
    {tf : Nat × Bool} (htf : tf ∈ r.needsOld) : tf.2 = flagOf2 P tf.1 := by
  unfold disciplined2 at hd
  rw [List.all_eq_true] at hd
  have := hd r (mem_tblOf hr)
  rw [List.all_eq_true] at this
  exact eq_of_beq (this tf (List.mem_append_left _ (List.mem_append_left _ htf)))

theorem disc_needsNew {P : Proto} (hd : disciplined2 P = true) {c : Bool} {r : RSpec} (hr : r ∈ tblOf P c)
    {tf : Nat × Bool} (htf : tf ∈ r.needsNew) : tf.2 = flagOf2 P tf.1 := by
  unfold disciplined2 at hd
  rw [List.all_eq_true] at hd
  have := hd r (mem_tblOf hr)
  rw [List.all_eq_true] at this
  exact eq_of_beq (this tf (List.mem_append_left _ (List.mem_append_right _ htf)))

theorem disc_selfStore {P : Proto} (hd : disciplined2 P = true) {c : Bool} {r : RSpec} (hr : r ∈ tblOf P c)
    {tf : Nat × Bool} (htf : tf ∈ r.selfStore) : tf.2 = flagOf2 P tf.1 := by
  unfold disciplined2 at hd
  rw [List.all_eq_true] at hd
  have := hd r (mem_tblOf hr)
  rw [List.all_eq_true] at this
  exact eq_of_beq (this tf (List.mem_append_right _ htf))

theorem supplied_spec {P : Proto} {c : Bool} (h : supplied P c = true) {k : Nat} {r : RSpec}
    (hr : (tblOf P c)[k]? = some r) : suppliedRound P c k r = true := by
  unfold supplied at h
  rw [List.all_eq_true] at h
  have := h k (List.mem_range.mpr (lt_of_getElem?_some hr))
  rw [hr] at this
  exact this

theorem emitsBy_spec {tbl : List RSpec} {k ty : Nat} {ao : Bool} (h : emitsBy tbl k ty ao = true) :
    ∃ k' r' e, k' ≤ k ∧ tbl[k']? = some r' ∧ e ∈ r'.emits ∧ e.1 = ty ∧ (ao = true ∨ notOther e.2 = true) := by
  unfold emitsBy at h
  rw [List.any_eq_true] at h
  obtain ⟨r', hr', h2⟩ := h
  rw [List.any_eq_true] at h2
  obtain ⟨e, he, h3⟩ := h2
  simp only [Bool.and_eq_true, beq_iff_eq, Bool.or_eq_true] at h3
  obtain ⟨i, hi⟩ := List.mem_iff_getElem?.mp hr'
  rw [List.getElem?_take] at hi
  split at hi
  · rename_i hlt
    exact ⟨i, r', e, by omega, hi, he, h3.1, h3.2⟩
  · cases hi

/-- a party beyond round index `k'` has every type round `k'` emits in its log (the committee sizes permitting) -/
theorem mem_out_of_round {tbl : List RSpec} {p : Party} (hc : Canon tbl p) {k' : Nat} {r' : RSpec} {e : Nat × Cnt}
    (hk : k' < p.rnd) (hr' : tbl[k']? = some r') (he : e ∈ r'.emits)
    (hn : e.2 = Cnt.once ∨ (e.2 = Cnt.perNew ∧ 0 < p.nNew) ∨ (e.2 = Cnt.perNewOther ∧ 1 < p.nNew)) :
    e.1 ∈ p.out := by
  rw [hc.2.1, mem_emitsUpTo_iff]
  exact ⟨k', r', hk, hr', mem_emitList_iff.mpr ⟨e, he, rfl, hn⟩⟩

theorem cnt_cases {e : Nat × Cnt} {n : Nat} (h1 : 0 < n) (h2 : notOther e.2 = true ∨ 1 < n) :
    e.2 = Cnt.once ∨ (e.2 = Cnt.perNew ∧ 0 < n) ∨ (e.2 = Cnt.perNewOther ∧ 1 < n) := by
  rcases e with ⟨t, c⟩
  cases c
  · exact Or.inl rfl
  · exact Or.inr (Or.inl ⟨rfl, h1⟩)
  · rcases h2 with h | h
    · simp [notOther] at h
    · exact Or.inr (Or.inr ⟨rfl, h⟩)

/-! ## 25. the local invariant for liveness -/

/-- everything stored carries the genuine flag of its type -/
def FlagsOk2 (P : Proto) (p : Party) : Prop := ∀ t j s, p.store t j = some s → s.flag = flagOf2 P t

/-- what `Start` of the current round marks ok is ok -/
def StartOk (tbl : List RSpec) (p : Party) : Prop :=
  p.rnd ≠ 0 → ∀ r, tbl[p.rnd - 1]? = some r →
    (∀ j, (r.presetOld || r.final) = true → p.okOld j = true) ∧
    (∀ j, (r.presetNew || r.final || (r.selfOkNew && j == p.self)) = true → p.okNew j = true)

/-- own share of the current round's requirement on the own committee -/
def SelfSat2 (tbl : List RSpec) (c : Bool) (p : Party) : Prop :=
  p.rnd ≠ 0 → ∀ r, tbl[p.rnd - 1]? = some r → r.final = false →
    if c then p.okNew p.self = true ∨ (r.needsNew ≠ [] ∧ sat r.needsNew p.store p.self = true)
    else p.okOld p.self = true ∨ (r.needsOld ≠ [] ∧ sat r.needsOld p.store p.self = true)

def DoneLast2 (tbl : List RSpec) (p : Party) : Prop := p.done = true → tbl.length ≤ p.rnd

structure LInv (P : Proto) (c : Bool) (p : Party) : Prop where
  flagsOk : FlagsOk2 P p
  startOk : StartOk (tblOf P c) p
  selfSat : SelfSat2 (tblOf P c) c p
  doneLast : DoneLast2 (tblOf P c) p

theorem sat_putSelf_self {r : RSpec} {needs : List (Nat × Bool)} (self k : Nat) (store : Nat → Nat → Option Slot)
    (h : selfCovers r needs = true) : sat needs (putSelf self k r.selfStore store) self = true := by
  rw [sat_iff]
  intro tf htf
  unfold selfCovers at h
  rw [List.all_eq_true] at h
  have hf : r.selfStore.find? (fun x => x.1 == tf.1) = some tf := eq_of_beq (h tf htf)
  have hany : (r.selfStore.any fun x => x.1 == tf.1) = true := by
    rw [List.any_eq_true]
    exact ⟨tf, List.mem_of_find?_eq_some hf, by simp⟩
  unfold putSelf
  rw [if_pos ⟨rfl, hany⟩, hf]
  exact ⟨_, rfl, rfl⟩

theorem flagsOk_startRound {P : Proto} (hd : disciplined2 P = true) {c : Bool} {r : RSpec} (hr : r ∈ tblOf P c)
    (k : Nat) {p : Party} (h : FlagsOk2 P p) : FlagsOk2 P (startRound r k p) := by
  intro t j s hs
  simp only [startRound, putSelf] at hs
  split at hs
  · cases hf : r.selfStore.find? (fun tf => tf.1 == t) with
    | none => rw [hf] at hs; cases hs
    | some tf =>
      rw [hf] at hs
      simp only [Option.map_some] at hs
      injection hs with hs
      subst hs
      have h1 : tf ∈ r.selfStore := List.mem_of_find?_eq_some hf
      have h2 : tf.1 = t := by
        have := List.find?_some hf
        exact eq_of_beq this
      show tf.2 = flagOf2 P t
      rw [← h2]
      exact disc_selfStore hd hr h1
  · exact h t j s hs

theorem startOk_startRound (tbl : List RSpec) {r : RSpec} {k : Nat} (hr : tbl[k]? = some r) (p : Party) :
    StartOk tbl (startRound r k p) := by
  intro _ r1 hr1
  have hr1' : tbl[k]? = some r1 := hr1
  have e : r1 = r := getElem?_inj hr1' hr
  subst e
  exact ⟨fun _ h => h, fun _ h => h⟩

theorem selfSat_startRound {P : Proto} {c : Bool} (hs : supplied P c = true) {r : RSpec} {k : Nat}
    (hr : (tblOf P c)[k]? = some r) (p : Party) : SelfSat2 (tblOf P c) c (startRound r k p) := by
  intro _ r1 hr1 hf
  have hr1' : (tblOf P c)[k]? = some r1 := hr1
  have e : r1 = r := getElem?_inj hr1' hr
  subst e
  have hsr := supplied_spec hs hr
  unfold suppliedRound at hsr
  simp only [hf, Bool.false_or, Bool.and_eq_true, Bool.or_eq_true, Bool.not_eq_true', List.isEmpty_eq_false_iff] at hsr
  cases c
  · simp only [Bool.false_eq_true, if_false]
    rcases hsr.1 with h | ⟨⟨h1, _⟩, h3⟩
    · left
      show (r1.presetOld || r1.final) = true
      rw [h]; rfl
    · right
      simp only [Bool.false_eq_true, false_or] at h3
      exact ⟨h1, sat_putSelf_self p.self k p.store h3⟩
  · simp only [if_true]
    rcases hsr.2 with h | ⟨⟨h1, _⟩, h3⟩
    · left
      show (r1.presetNew || r1.final || (r1.selfOkNew && p.self == p.self)) = true
      rw [h]; rfl
    · simp only [Bool.true_eq_false, false_or] at h3
      rcases h3 with h3 | h3
      · left
        show (r1.presetNew || r1.final || (r1.selfOkNew && p.self == p.self)) = true
        rw [h3]; simp
      · right
        exact ⟨h1, sat_putSelf_self p.self k p.store h3⟩

theorem linv_moves {P : Proto} (F : LiveFacts P) (c : Bool) : Moves (tblOf P c) (LInv P c) where
  scan := by
    intro p r h h0 hd hr
    refine ⟨?_, ?_, ?_, ?_⟩
    · intro t j s hs; rw [scan_store] at hs; exact h.flagsOk t j s hs
    · intro h0' r1 hr1
      rw [scan_rnd] at hr1
      obtain ⟨a, b⟩ := h.startOk h0 r1 hr1
      rw [scan_self]
      exact ⟨fun j hj => (scan_okOld_iff r p j).mpr (Or.inl (a j hj)),
        fun j hj => (scan_okNew_iff r p j).mpr (Or.inl (b j hj))⟩
    · intro h0' r1 hr1 hf
      rw [scan_rnd] at hr1
      have := h.selfSat h0 r1 hr1 hf
      rw [scan_self, scan_store]
      cases c
      · simp only [Bool.false_eq_true, if_false] at this ⊢
        rcases this with h1 | h1
        · exact Or.inl ((scan_okOld_iff r p _).mpr (Or.inl h1))
        · exact Or.inr h1
      · simp only [if_true] at this ⊢
        rcases this with h1 | h1
        · exact Or.inl ((scan_okNew_iff r p _).mpr (Or.inl h1))
        · exact Or.inr h1
    · intro hd'
      rw [scan_done] at hd'
      rw [hd] at hd'; cases hd'
  adv := by
    intro p r r' h h0 hd hr hcp hr'
    have hs : supplied P c = true := by cases c; exact F.supOld; exact F.supNew
    refine ⟨flagsOk_startRound F.disc (List.mem_of_getElem? hr') _ h.flagsOk, startOk_startRound _ hr' p,
      selfSat_startRound hs hr' p, ?_⟩
    intro hd'
    have : (startRound r' p.rnd p).done = p.done := rfl
    rw [this, hd] at hd'; cases hd'
  fin := by
    intro p h h0 hd hn
    refine ⟨h.flagsOk, h.startOk, h.selfSat, ?_⟩
    intro _
    exact List.getElem?_eq_none_iff.mp hn

theorem linv_fresh (P : Proto) (c : Bool) (nOld nNew : Nat) (isNew : Bool) (self : Nat) :
    LInv P c (fresh nOld nNew isNew self) where
  flagsOk := fun _ _ _ h => by cases h
  startOk := fun h => absurd rfl h
  selfSat := fun h => absurd rfl h
  doneLast := fun h => by cases h

theorem linv_storeMsg {P : Proto} (F : LiveFacts P) {c : Bool} {p : Party} {m : Msg}
    (hm : m.slot.flag = flagOf2 P m.ty) (h : LInv P c p) : LInv P c (storeMsg m p) := by
  refine ⟨?_, h.startOk, ?_, h.doneLast⟩
  · intro t j s hs
    simp only [storeMsg] at hs
    by_cases hc : t = m.ty ∧ j = m.frm
    · rw [if_pos hc] at hs
      injection hs with hs
      rw [← hs, hc.1]; exact hm
    · rw [if_neg hc] at hs
      exact h.flagsOk t j s hs
  · intro h0 r hr hf
    have := h.selfSat h0 r hr hf
    have hrm : r ∈ tblOf P c := List.mem_of_getElem? hr
    cases c
    · simp only [Bool.false_eq_true, if_false] at this ⊢
      rcases this with h1 | ⟨h1, h2⟩
      · exact Or.inl h1
      · refine Or.inr ⟨h1, sat_storeMsg ?_ _ h2⟩
        intro tf htf hty
        rw [hm, ← hty]; exact disc_needsOld F.disc hrm htf
    · simp only [if_true] at this ⊢
      rcases this with h1 | ⟨h1, h2⟩
      · exact Or.inl h1
      · refine Or.inr ⟨h1, sat_storeMsg ?_ _ h2⟩
        intro tf htf hty
        rw [hm, ← hty]; exact disc_needsNew F.disc hrm htf

theorem linv_deliver {P : Proto} (F : LiveFacts P) {c : Bool} {p : Party} {m : Msg}
    (hm : m.slot.flag = flagOf2 P m.ty) (h : LInv P c p) : LInv P c (deliver (tblOf P c) m p) :=
  (linv_moves F c).deliver m (linv_storeMsg F hm h)

theorem linv_start {P : Proto} (F : LiveFacts P) {c : Bool} {p : Party} (pre : Bool) (h : LInv P c p) :
    LInv P c (start (tblOf P c) pre p) := by
  refine (linv_moves F c).start pre h ?_
  intro r h0 hr
  have hs : supplied P c = true := by cases c; exact F.supOld; exact F.supNew
  refine ⟨flagsOk_startRound F.disc (List.mem_of_getElem? hr) _ h.flagsOk, startOk_startRound _ hr p,
    selfSat_startRound hs hr p, ?_⟩
  intro hd'
  have e : (startRound r 0 p).done = p.done := rfl
  rw [e] at hd'
  have := h.doneLast hd'
  have := lt_of_getElem?_some hr
  omega

/-- at the fixpoint, or never woken: started without the advance loop and nothing delivered since -/
def Idle (tbl : List RSpec) (log : List Msg) (p : Party) : Prop := Settled tbl p ∨ (log = [] ∧ p.rnd ≤ 1)

theorem idle_start {tbl : List RSpec} {log : List Msg} {p : Party} (pre : Bool) (hpre : log ≠ [] → pre = true)
    (h : Idle tbl log p) : Idle tbl log (start tbl pre p) := by
  rcases start_cases tbl pre p with e | ⟨r, _, _, ⟨_, e⟩ | ⟨hf, e⟩⟩
  · rw [e]; exact h
  · rw [e]; exact Or.inl (settled_settleF tbl _)
  · rw [e]
    right
    refine ⟨?_, ?_⟩
    · cases log with
      | nil => rfl
      | cons a l => have := hpre (by simp); rw [hf] at this; cases this
    · rw [rest_rnd]; exact Nat.le_refl _

/-! ## 26. the system invariant for liveness -/

def SysLInv (P : Proto) (s : Sys2) : Prop :=
  ∀ c i, LInv P c (s.party c i) ∧ Idle (tblOf P c) (s.log c i) (s.party c i)

theorem sysLInv_transition {P : Proto} {s s' : Sys2} (c : Bool) (i : Nat) (q' : Party) (l' : List Msg)
    (hinv : SysLInv P s)
    (hother : ∀ c' k, ¬ (c' = c ∧ k = i) → s'.party c' k = s.party c' k ∧ s'.log c' k = s.log c' k)
    (hq : s'.party c i = q') (hl : s'.log c i = l')
    (h1 : LInv P c q') (h2 : Idle (tblOf P c) l' q') : SysLInv P s' := by
  intro c' k
  by_cases hc : c' = c ∧ k = i
  · obtain ⟨rfl, rfl⟩ := hc
    rw [hq, hl]; exact ⟨h1, h2⟩
  · obtain ⟨e1, e2⟩ := hother c' k hc
    rw [e1, e2]; exact hinv c' k

theorem reach2_linv {P : Proto} (F : LiveFacts P) {nOld nNew : Nat} {s : Sys2} (h : Reach2 P nOld nNew true s) :
    SysLInv P s := by
  induction h with
  | init =>
    intro c i
    cases c
    · exact ⟨linv_fresh _ _ _ _ _ _, Or.inl (settled_of_not_started (Or.inl rfl))⟩
    · exact ⟨linv_fresh _ _ _ _ _ _, Or.inl (settled_of_not_started (Or.inl rfl))⟩
  | startOld s i pre _ _ hpre ih =>
    have e : ({ s with old := upd s.old i (start P.old pre (s.old i)) } : Sys2) =
        { s with old := upd s.old i (start P.old pre (s.old i)), logOld := upd s.logOld i (s.logOld i) } := by
      rw [upd_self_eq]
    rw [e]
    exact sysLInv_transition false i _ _ ih (other_old s i _ _) (party_old_same _ _ _ _) (log_old_same _ _ _ _)
      (linv_start F (c := false) pre (ih false i).1) (idle_start pre (hpre rfl) (ih false i).2)
  | startNew s i pre _ _ hpre ih =>
    have e : ({ s with new := upd s.new i (start P.new pre (s.new i)) } : Sys2) =
        { s with new := upd s.new i (start P.new pre (s.new i)), logNew := upd s.logNew i (s.logNew i) } := by
      rw [upd_self_eq]
    rw [e]
    exact sysLInv_transition true i _ _ ih (other_new s i _ _) (party_new_same _ _ _ _) (log_new_same _ _ _ _)
      (linv_start F (c := true) pre (ih true i).1) (idle_start pre (hpre rfl) (ih true i).2)
  | deliverOld s i c j ty payload _ _ _ _ ih =>
    exact sysLInv_transition false i _ _ ih (other_old s i _ _) (party_old_same _ _ _ _) (log_old_same _ _ _ _)
      (linv_deliver F (c := false) rfl (ih false i).1) (Or.inl (settled_deliver _ _ _))
  | deliverNew s i c j ty payload _ _ _ _ ih =>
    exact sysLInv_transition true i _ _ ih (other_new s i _ _) (party_new_same _ _ _ _) (log_new_same _ _ _ _)
      (linv_deliver F (c := true) rfl (ih true i).1) (Or.inl (settled_deliver _ _ _))

/-! ## 27. quiescence -/

/-- every emitted message has reached every member (other than its sender) whose table needs its type -/
def Quiescent2 (P : Proto) (nOld nNew : Nat) (s : Sys2) : Prop :=
  ∀ c j, j < csize nOld nNew c → ∀ ty ∈ (s.party c j).out, ∀ c' i, i < csize nOld nNew c' → ¬ (c' = c ∧ i = j) →
    needsTy (tblOf P c') ty = true → ∃ slot, (s.party c' i).store ty j = some slot

def AllStarted (nOld nNew : Nat) (s : Sys2) : Prop := ∀ c i, i < csize nOld nNew c → (s.party c i).rnd ≠ 0

theorem needsTy_of_old {tbl : List RSpec} {r : RSpec} (hr : r ∈ tbl) {tf : Nat × Bool} (h : tf ∈ r.needsOld) :
    needsTy tbl tf.1 = true := by
  unfold needsTy
  rw [List.any_eq_true]
  refine ⟨r, hr, ?_⟩
  rw [Bool.or_eq_true]; left
  rw [List.any_eq_true]; exact ⟨tf, h, by simp⟩

theorem needsTy_of_new {tbl : List RSpec} {r : RSpec} (hr : r ∈ tbl) {tf : Nat × Bool} (h : tf ∈ r.needsNew) :
    needsTy tbl tf.1 = true := by
  unfold needsTy
  rw [List.any_eq_true]
  refine ⟨r, hr, ?_⟩
  rw [Bool.or_eq_true]; right
  rw [List.any_eq_true]; exact ⟨tf, h, by simp⟩

/-- **key lemma**: if every member of both committees has started round `k` (1-based) and all their messages have
been delivered, a member sitting in round `k` (not final) has all its requirements met -/
theorem requirements_met {P : Proto} (F : LiveFacts P) {nOld nNew : Nat} {s : Sys2} (hN : 0 < nNew)
    (hinv : SysInv P nOld nNew s) (hl : SysLInv P s) (hq : Quiescent2 P nOld nNew s)
    {c' : Bool} {i : Nat} (hi : i < csize nOld nNew c') {r : RSpec} (h0 : (s.party c' i).rnd ≠ 0)
    (hr : (tblOf P c')[(s.party c' i).rnd - 1]? = some r) (hf : r.final = false)
    (hall : ∀ c j, j < csize nOld nNew c → (s.party c' i).rnd ≤ (s.party c j).rnd) :
    (∀ j, j < nOld → (s.party c' i).okOld j = true ∨ (r.needsOld ≠ [] ∧ sat r.needsOld (s.party c' i).store j = true)) ∧
    (∀ j, j < nNew → (s.party c' i).okNew j = true ∨ (r.needsNew ≠ [] ∧ sat r.needsNew (s.party c' i).store j = true)) := by
  have hs : supplied P c' = true := by cases c'; exact F.supOld; exact F.supNew
  have hsr := supplied_spec hs hr
  unfold suppliedRound at hsr
  simp only [hf, Bool.false_or, Bool.and_eq_true, Bool.or_eq_true, Bool.not_eq_true', List.isEmpty_eq_false_iff,
    List.all_eq_true] at hsr
  have hX := hinv c' i
  have hLX := (hl c' i).1
  have hrm : r ∈ tblOf P c' := List.mem_of_getElem? hr
  obtain ⟨so1, so2⟩ := hLX.startOk h0 r hr
  -- a sender beyond the round, a type it emits there: delivered with the right flag
  have key : ∀ (c : Bool) (j : Nat), j < csize nOld nNew c → ¬ (c' = c ∧ i = j) → ∀ tf : Nat × Bool,
      needsTy (tblOf P c') tf.1 = true → tf.2 = flagOf2 P tf.1 →
      emitsBy (tblOf P c) ((s.party c' i).rnd - 1) tf.1 (c && c') = true →
      ∃ sl, (s.party c' i).store tf.1 j = some sl ∧ sl.flag = tf.2 := by
    intro c j hj hne tf hneed hflag hem
    obtain ⟨k', r', e, hk', hr', he, hety, hao⟩ := emitsBy_spec hem
    have hS := hinv c j
    have hrnd := hall c j hj
    have hout : tf.1 ∈ (s.party c j).out := by
      rw [← hety]
      refine mem_out_of_round hS.canon (by omega) hr' he (cnt_cases (by rw [hS.cfgNew]; exact hN) ?_)
      rcases hao with hao | hao
      · right
        rw [hS.cfgNew]
        simp only [Bool.and_eq_true] at hao
        obtain ⟨rfl, rfl⟩ := hao
        have hi' : i < nNew := hi
        have hj' : j < nNew := hj
        have : i ≠ j := fun e => hne ⟨rfl, e⟩
        omega
      · exact Or.inl hao
    obtain ⟨sl, hsl⟩ := hq c j hj tf.1 hout c' i hi hne hneed
    exact ⟨sl, hsl, by rw [hLX.flagsOk _ _ _ hsl, hflag]⟩
  refine ⟨?_, ?_⟩
  · intro j hj
    rcases hsr.1 with h | ⟨⟨h1, h2⟩, h3⟩
    · exact Or.inl (so1 j (by rw [h]; rfl))
    · by_cases hself : c' = false ∧ i = j
      · obtain ⟨rfl, rfl⟩ := hself
        have := hLX.selfSat h0 r hr hf
        simp only [Bool.false_eq_true, if_false] at this
        rw [hX.cfgSelf] at this
        exact this
      · right
        refine ⟨h1, ?_⟩
        rw [sat_iff]
        intro tf htf
        exact key false j hj hself tf (needsTy_of_old hrm htf) (disc_needsOld F.disc hrm htf)
          (h2 tf htf)
  · intro j hj
    rcases hsr.2 with h | ⟨⟨h1, h2⟩, h3⟩
    · exact Or.inl (so2 j (by rw [h]; rfl))
    · by_cases hself : c' = true ∧ i = j
      · obtain ⟨rfl, rfl⟩ := hself
        have := hLX.selfSat h0 r hr hf
        simp only [if_true] at this
        rw [hX.cfgSelf] at this
        exact this
      · right
        refine ⟨h1, ?_⟩
        rw [sat_iff]
        intro tf htf
        exact key true j hj hself tf (needsTy_of_new hrm htf) (disc_needsNew F.disc hrm htf)
          (h2 tf htf)

/-- a member at the fixpoint whose current round is not final and whose requirements are all met: impossible -/
theorem not_settled_of_met {tbl : List RSpec} {p : Party} (h0 : p.rnd ≠ 0) (hdn : p.done = false)
    {r : RSpec} (hr : tbl[p.rnd - 1]? = some r) (hf : r.final = false)
    (hold : ∀ j, j < p.nOld → p.okOld j = true ∨ (r.needsOld ≠ [] ∧ sat r.needsOld p.store j = true))
    (hnew : ∀ j, j < p.nNew → p.okNew j = true ∨ (r.needsNew ≠ [] ∧ sat r.needsNew p.store j = true)) :
    step tbl p ≠ none := by
  intro hs
  have hc := (step_none_iff h0 hdn hr).mp hs
  have : canProceed (scan r p) = true := by
    rw [canProceed_iff, scan_nOld, scan_nNew]
    refine ⟨fun j hj => ?_, fun j hj => ?_⟩
    · rw [scan_okOld_iff]
      rcases hold j hj with h | ⟨h1, h2⟩
      · exact Or.inl h
      · exact Or.inr ⟨hf, hj, h1, h2⟩
    · rw [scan_okNew_iff]
      rcases hnew j hj with h | ⟨h1, h2⟩
      · exact Or.inl h
      · exact Or.inr ⟨hf, hj, h1, h2⟩
  rw [hc] at this; cases this

/-- a member all of whose peers are at least as far, sitting in a non-final round, is not at the fixpoint -/
theorem not_settled_behind {P : Proto} (F : LiveFacts P) {nOld nNew : Nat} {s : Sys2} (hN : 0 < nNew)
    (hinv : SysInv P nOld nNew s) (hl : SysLInv P s) (hq : Quiescent2 P nOld nNew s)
    {c' : Bool} {i : Nat} (hi : i < csize nOld nNew c') (h0 : (s.party c' i).rnd ≠ 0)
    (hlt : (s.party c' i).rnd < (tblOf P c').length)
    (hall : ∀ c j, j < csize nOld nNew c → (s.party c' i).rnd ≤ (s.party c j).rnd) :
    ¬ Settled (tblOf P c') (s.party c' i) := by
  intro hset
  have hfl : finalLast2 (tblOf P c') = true := by cases c'; exact F.finOld; exact F.finNew
  have hk : (s.party c' i).rnd - 1 < (tblOf P c').length := by omega
  have hr := List.getElem?_eq_getElem hk
  have hf : ((tblOf P c')[(s.party c' i).rnd - 1]).final = false := by
    cases hfin : ((tblOf P c')[(s.party c' i).rnd - 1]).final
    · rfl
    · have := (finalLast2_getElem? _ hfl _ _ hr).mp hfin
      omega
  have hdn : (s.party c' i).done = false := by
    cases hpd : (s.party c' i).done
    · rfl
    · have := (hl c' i).1.doneLast hpd
      omega
  obtain ⟨m1, m2⟩ := requirements_met F hN hinv hl hq hi h0 hr hf hall
  have hX := hinv c' i
  exact not_settled_of_met h0 hdn hr hf (by rw [hX.cfgOld]; exact m1) (by rw [hX.cfgNew]; exact m2) hset.1

/-- a member that holds a message from another member in a slot it does not write itself has been woken -/
theorem log_ne_nil_of_store {P : Proto} {nOld nNew : Nat} {s : Sys2} (hinv : SysInv P nOld nNew s) {c' : Bool}
    {i ty j : Nat} {sl : Slot} (hst : (s.party c' i).store ty j = some sl) (hown : ownTy (tblOf P c') ty = false) :
    s.log c' i ≠ [] := by
  rcases (hinv c' i).hist.store ty j sl hst with ⟨_, h⟩ | ⟨m, hm, _⟩
  · rw [hown] at h; cases h
  · intro e; rw [e] at hm; cases hm

theorem wakeNew_spec {P : Proto} (h : wakeNew P = true) :
    ∃ r0 e, P.old[0]? = some r0 ∧ e ∈ r0.emits ∧ needsTy P.new e.1 = true ∧ ownTy P.new e.1 = false ∧
      notOther e.2 = true := by
  unfold wakeNew at h
  split at h
  · rename_i r0 hr0
    rw [List.any_eq_true] at h
    obtain ⟨e, he, h1⟩ := h
    simp only [Bool.and_eq_true, Bool.not_eq_true'] at h1
    exact ⟨r0, e, hr0, he, h1.1.1, h1.1.2, h1.2⟩
  · cases h

theorem wakeOld_spec {P : Proto} (h : wakeOld P = true) :
    ∃ k r' e, k < 2 ∧ P.new[k]? = some r' ∧ e ∈ r'.emits ∧ needsTy P.old e.1 = true ∧ ownTy P.old e.1 = false ∧
      notOther e.2 = true := by
  unfold wakeOld at h
  rw [List.any_eq_true] at h
  obtain ⟨r', hr', h2⟩ := h
  rw [List.any_eq_true] at h2
  obtain ⟨e, he, h1⟩ := h2
  simp only [Bool.and_eq_true, Bool.not_eq_true'] at h1
  obtain ⟨k, hk⟩ := List.mem_iff_getElem?.mp hr'
  rw [List.getElem?_take] at hk
  split at hk
  · rename_i hlt
    exact ⟨k, r', e, hlt, hk, he, h1.1.1, h1.1.2, h1.2⟩
  · cases hk

/-- in a quiescent state in which everybody has started, everybody has started every round -/
theorem all_reach_round2 {P : Proto} (F : LiveFacts P) {nOld nNew : Nat} {s : Sys2} (hO : 0 < nOld) (hN : 0 < nNew)
    (hinv : SysInv P nOld nNew s) (hl : SysLInv P s) (hst : AllStarted nOld nNew s)
    (hq : Quiescent2 P nOld nNew s) :
    ∀ k, k ≤ P.old.length → ∀ c i, i < csize nOld nNew c → k ≤ (s.party c i).rnd := by
  have hlen : ∀ c, (tblOf P c).length = P.old.length := by
    intro c; cases c
    · rfl
    · exact F.sameLen.symm
  intro k
  induction k with
  | zero => intro _ _ i _; exact Nat.zero_le _
  | succ k ih =>
    intro hk
    have ihk := ih (by omega)
    -- a member sitting exactly in round `k` is not at the fixpoint, hence never woken, hence `k = 1` and its log is empty
    have stuck : ∀ c i, i < csize nOld nNew c → (s.party c i).rnd = k → k = 1 ∧ s.log c i = [] := by
      intro c i hi hrk
      have h0 : (s.party c i).rnd ≠ 0 := hst c i hi
      have hns := not_settled_behind F hN hinv hl hq hi h0 (by rw [hlen, hrk]; omega)
        (fun c2 j hj => by rw [hrk]; exact ihk c2 j hj)
      rcases (hl c i).2 with h | ⟨h1, h2⟩
      · exact absurd h hns
      · exact ⟨by omega, h1⟩
    -- the new members first
    have hnew : ∀ i, i < nNew → k + 1 ≤ (s.party true i).rnd := by
      intro i hi
      have hge := ihk true i hi
      rcases Nat.lt_or_ge k (s.party true i).rnd with hlt | hle
      · exact hlt
      · exfalso
        obtain ⟨hk1, hlog⟩ := stuck true i hi (by omega)
        obtain ⟨r0, e, hr0, he, hneed, hown, hno⟩ := wakeNew_spec F.wakeN
        have hS := hinv false 0
        have hrnd : 1 ≤ (s.party false 0).rnd := by
          have := ihk false 0 hO; omega
        have hout : e.1 ∈ (s.party false 0).out :=
          mem_out_of_round hS.canon (by omega) hr0 he (cnt_cases (by rw [hS.cfgNew]; exact hN) (Or.inl hno))
        obtain ⟨sl, hsl⟩ := hq false 0 hO e.1 hout true i hi (by simp) hneed
        exact log_ne_nil_of_store hinv hsl hown hlog
    intro c i hi
    cases c
    · have hge := ihk false i hi
      rcases Nat.lt_or_ge k (s.party false i).rnd with hlt | hle
      · exact hlt
      · exfalso
        obtain ⟨hk1, hlog⟩ := stuck false i hi (by omega)
        obtain ⟨k', r', e, hk', hr', he, hneed, hown, hno⟩ := wakeOld_spec F.wakeO
        have hS := hinv true 0
        have hrnd := hnew 0 hN
        have hout : e.1 ∈ (s.party true 0).out :=
          mem_out_of_round hS.canon (by omega) hr' he (cnt_cases (by rw [hS.cfgNew]; exact hN) (Or.inl hno))
        obtain ⟨sl, hsl⟩ := hq true 0 hN e.1 hout false i hi (by simp) hneed
        exact log_ne_nil_of_store hinv hsl hown hlog
    · exact hnew i hi

/-- **no quiescent state short of the end** (any protocol with `LiveFacts`) -/
theorem no_deadlock2_gen {P : Proto} (F : LiveFacts P) {nOld nNew : Nat} {s : Sys2} (hO : 0 < nOld) (hN : 0 < nNew)
    (hreach : Reach2 P nOld nNew true s) (hst : AllStarted nOld nNew s) (hq : Quiescent2 P nOld nNew s) :
    ∀ c i, i < csize nOld nNew c → (s.party c i).rnd = P.old.length ∧ (s.party c i).ended = 1 := by
  intro c i hi
  have hinv := reach2_inv hreach
  have hl := reach2_linv F hreach
  have hge := all_reach_round2 F hO hN hinv hl hst hq P.old.length (Nat.le_refl _) c i hi
  have hc := (hinv c i).canon
  have hlen : (tblOf P c).length = P.old.length := by
    cases c
    · rfl
    · exact F.sameLen.symm
  have hfl : finalLast2 (tblOf P c) = true := by cases c; exact F.finOld; exact F.finNew
  have hrnd : (s.party c i).rnd = (tblOf P c).length := Nat.le_antisymm hc.1 (by rw [hlen]; exact hge)
  refine ⟨by rw [hrnd, hlen], ?_⟩
  rw [hc.2.2, endsUpTo_finalLast2 _ hfl _ hc.1, if_pos hrnd]

/-- executable form of `Quiescent2` -/
def quiescentB (P : Proto) (nOld nNew : Nat) (s : Sys2) : Bool :=
  [false, true].all fun c => (List.range (csize nOld nNew c)).all fun j => (s.party c j).out.all fun ty =>
    [false, true].all fun c' => (List.range (csize nOld nNew c')).all fun i =>
      (c' == c && i == j) || !needsTy (tblOf P c') ty || ((s.party c' i).store ty j).isSome

theorem quiescentB_spec {P : Proto} {nOld nNew : Nat} {s : Sys2} (h : quiescentB P nOld nNew s = true) :
    Quiescent2 P nOld nNew s := by
  intro c j hj ty hty c' i hi hne hneed
  unfold quiescentB at h
  rw [List.all_eq_true] at h
  have h1 := h c (by cases c <;> simp)
  rw [List.all_eq_true] at h1
  have h2 := h1 j (List.mem_range.mpr hj)
  rw [List.all_eq_true] at h2
  have h3 := h2 ty hty
  rw [List.all_eq_true] at h3
  have h4 := h3 c' (by cases c' <;> simp)
  rw [List.all_eq_true] at h4
  have h5 := h4 i (List.mem_range.mpr hi)
  simp only [Bool.or_eq_true, Bool.and_eq_true, beq_iff_eq, Bool.not_eq_true'] at h5
  rcases h5 with (h5 | h5) | h5
  · exact absurd h5 hne
  · rw [hneed] at h5; cases h5
  · exact Option.isSome_iff_exists.mp h5

/-- executable form of `AllStarted` -/
def allStartedB (nOld nNew : Nat) (s : Sys2) : Bool :=
  [false, true].all fun c => (List.range (csize nOld nNew c)).all fun i => (s.party c i).rnd != 0

theorem allStartedB_spec {nOld nNew : Nat} {s : Sys2} (h : allStartedB nOld nNew s = true) : AllStarted nOld nNew s := by
  intro c i hi
  unfold allStartedB at h
  rw [List.all_eq_true] at h
  have h1 := h c (by cases c <;> simp)
  rw [List.all_eq_true] at h1
  have h2 := h1 i (List.mem_range.mpr hi)
  simpa using h2

end TssVerif.E2L
