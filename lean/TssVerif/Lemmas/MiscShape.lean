import TssVerif.Core.Primes
import TssVerif.Lemmas.Paillier
import Mathlib.Data.Nat.Bitwise
import Mathlib.Tactic.Ring
/-! Helper lemmas for C19 `candidate_shape`: the byte masking of the safe-prime generator yields an odd
candidate of exactly the requested length with its two top bits set. -/
set_option autoImplicit false
namespace TssVerif.MiscL
open TssVerif TssVerif.Primes

/-! ## big-endian byte strings -/

theorem foldl_bytes (bs : List UInt8) (acc : Nat) :
    bs.foldl (fun a x => a * 256 + x.toNat) acc = acc * 256 ^ bs.length + bytesToNat bs := by
  unfold bytesToNat
  induction bs generalizing acc with
  | nil => simp
  | cons b bs ih =>
    rw [List.foldl_cons, List.foldl_cons, ih, ih (0 * 256 + b.toNat), List.length_cons, pow_succ]
    ring

theorem bytesToNat_cons (b : UInt8) (bs : List UInt8) :
    bytesToNat (b :: bs) = b.toNat * 256 ^ bs.length + bytesToNat bs := by
  show List.foldl _ (0 * 256 + b.toNat) bs = _
  rw [foldl_bytes, Nat.zero_mul, Nat.zero_add]

theorem bytesToNat_concat (bs : List UInt8) (l : UInt8) :
    bytesToNat (bs ++ [l]) = bytesToNat bs * 256 + l.toNat := by
  unfold bytesToNat
  rw [List.foldl_append]; rfl

theorem bytesToNat_lt (bs : List UInt8) : bytesToNat bs < 256 ^ bs.length := by
  induction bs with
  | nil => simp [bytesToNat]
  | cons b bs ih =>
    rw [bytesToNat_cons, List.length_cons, pow_succ]
    have := UInt8.toNat_lt b
    have h2 : (b.toNat + 1) * 256 ^ bs.length ≤ 256 * 256 ^ bs.length :=
      Nat.mul_le_mul_right _ (by omega)
    have h3 : (b.toNat + 1) * 256 ^ bs.length = b.toNat * 256 ^ bs.length + 256 ^ bs.length := by ring
    omega

/-! ## byte-level bit facts (checked over all 256 values) -/

set_option maxRecDepth 100000 in
theorem byte_or_one : ∀ x : Fin 256, (x.val ||| 1) = x.val + (1 - x.val % 2) := by decide

set_option maxRecDepth 100000 in
theorem byte_or_128 : ∀ x : Fin 256, 128 ≤ (x.val ||| 128) ∧ (x.val ||| 128) < 256 := by decide

theorem u8_or_one (l : UInt8) :
    (UInt8.ofNat (l.toNat ||| 1)).toNat = l.toNat + (1 - l.toNat % 2) := by
  have hl := UInt8.toNat_lt l
  have h := byte_or_one ⟨l.toNat, by omega⟩
  simp only at h
  rw [UInt8.toNat_ofNat', h]
  omega

theorem u8_or_128 (l : UInt8) :
    128 ≤ (UInt8.ofNat (l.toNat ||| 0x80)).toNat ∧ (UInt8.ofNat (l.toNat ||| 0x80)).toNat < 256 := by
  have hl := UInt8.toNat_lt l
  have h := byte_or_128 ⟨l.toNat, by omega⟩
  simp only at h
  rw [UInt8.toNat_ofNat']
  omega

/-- setting the lowest bit of the last byte: the value becomes the next odd number (or stays) -/
theorem lastOdd_val (all : List UInt8) (hne : all ≠ []) :
    bytesToNat (match all.reverse with
      | [] => []
      | l :: r => (UInt8.ofNat (l.toNat ||| 1) :: r).reverse) =
    bytesToNat all + (1 - bytesToNat all % 2) := by
  rcases List.eq_nil_or_concat all with h | ⟨D, L, h⟩
  · exact absurd h hne
  · subst h
    rw [List.concat_eq_append, List.reverse_append, List.reverse_singleton, List.singleton_append]
    simp only [List.reverse_cons, List.reverse_reverse]
    rw [bytesToNat_concat, bytesToNat_concat, u8_or_one]
    omega

/-! ## the shape of the candidate -/

theorem pow256 (m : Nat) : 256 ^ m = 2 ^ (8 * m) := by
  rw [pow_mul]; rfl

/-- first byte, case `b ≥ 2` bits used: masked to `b` bits with the two top bits set -/
theorem head_bounds {b : Nat} (hb2 : 2 ≤ b) (hb8 : b ≤ 8) (x : Nat) :
    3 * 2 ^ (b - 2) ≤ (x % 2 ^ b ||| 3 * 2 ^ (b - 2)) ∧ (x % 2 ^ b ||| 3 * 2 ^ (b - 2)) < 2 ^ b ∧
    (x % 2 ^ b ||| 3 * 2 ^ (b - 2)) < 256 := by
  have e : 2 ^ b = 4 * 2 ^ (b - 2) := by
    obtain ⟨j, rfl⟩ : ∃ j, b = j + 2 := ⟨b - 2, by omega⟩
    rw [Nat.add_sub_cancel, pow_add]; ring
  have hpos : 0 < 2 ^ (b - 2) := Nat.two_pow_pos _
  have h1 : x % 2 ^ b < 2 ^ b := Nat.mod_lt _ (Nat.two_pow_pos _)
  have h2 : 3 * 2 ^ (b - 2) < 2 ^ b := by omega
  have h3 : (x % 2 ^ b ||| 3 * 2 ^ (b - 2)) < 2 ^ b := Nat.or_lt_two_pow h1 h2
  have h4 : 2 ^ b ≤ 2 ^ 8 := Nat.pow_le_pow_right (by omega) hb8
  exact ⟨Nat.right_le_or, h3, by omega⟩

/-- **core of `candidate_shape`**, stated on `qBitLen = pBitLen − 1` -/
theorem shape_core (qB : Nat) (b0 : UInt8) (rest : List UInt8) (h5 : 5 ≤ qB)
    (hlen : rest.length + 1 = (qB + 7) / 8) :
    shapeCandidate (qB + 1) (b0 :: rest) % 2 = 1 ∧
    3 * 2 ^ (qB - 2) ≤ shapeCandidate (qB + 1) (b0 :: rest) ∧
    shapeCandidate (qB + 1) (b0 :: rest) < 2 ^ qB := by
  -- evenness of the upper bound
  have hevenB : 2 ^ qB = 2 * 2 ^ (qB - 1) := by
    obtain ⟨j, rfl⟩ : ∃ j, qB = j + 1 := ⟨qB - 1, by omega⟩
    rw [Nat.add_sub_cancel, pow_succ]; ring
  -- it suffices to bound the value before the last bit is set
  suffices H : ∀ all : List UInt8, all ≠ [] →
      3 * 2 ^ (qB - 2) ≤ bytesToNat all → bytesToNat all < 2 ^ qB →
      (bytesToNat all + (1 - bytesToNat all % 2)) % 2 = 1 ∧
      3 * 2 ^ (qB - 2) ≤ bytesToNat all + (1 - bytesToNat all % 2) ∧
      bytesToNat all + (1 - bytesToNat all % 2) < 2 ^ qB by
    unfold shapeCandidate
    simp only [Nat.add_sub_cancel]
    by_cases hb : (if qB % 8 = 0 then 8 else qB % 8) ≥ 2
    · -- the first byte carries both top bits
      rw [if_pos hb]
      simp only
      erw [lastOdd_val _ (List.cons_ne_nil _ _)]
      set b := (if qB % 8 = 0 then 8 else qB % 8) with hbdef
      have hb8 : b ≤ 8 := by rw [hbdef]; split <;> omega
      have hq : qB = 8 * rest.length + b := by rw [hbdef]; split <;> omega
      obtain ⟨g1, g2, g3⟩ := head_bounds hb hb8 b0.toNat
      apply H _ (List.cons_ne_nil _ _)
      · rw [bytesToNat_cons, UInt8.toNat_ofNat', Nat.mod_eq_of_lt (by omega), pow256]
        have e : 3 * 2 ^ (qB - 2) = 3 * 2 ^ (b - 2) * 2 ^ (8 * rest.length) := by
          rw [hq, show 8 * rest.length + b - 2 = (b - 2) + 8 * rest.length by omega, pow_add]; ring
        rw [e]
        exact le_trans (Nat.mul_le_mul_right _ g1) (Nat.le_add_right _ _)
      · rw [bytesToNat_cons, UInt8.toNat_ofNat', Nat.mod_eq_of_lt (by omega)]
        have hr := bytesToNat_lt rest
        rw [pow256] at hr ⊢
        have e : 2 ^ qB = 2 ^ b * 2 ^ (8 * rest.length) := by
          rw [hq, Nat.add_comm, pow_add]
        rw [e]
        have h6 : (b0.toNat % 2 ^ b ||| 3 * 2 ^ (b - 2)) + 1 ≤ 2 ^ b := g2
        have h7 := Nat.mul_le_mul_right (2 ^ (8 * rest.length)) h6
        have h8 : ((b0.toNat % 2 ^ b ||| 3 * 2 ^ (b - 2)) + 1) * 2 ^ (8 * rest.length) =
            (b0.toNat % 2 ^ b ||| 3 * 2 ^ (b - 2)) * 2 ^ (8 * rest.length) + 2 ^ (8 * rest.length) := by ring
        omega
    · -- one bit in the first byte: the second top bit lives in the next byte
      rw [if_neg hb]
      have hb1 : (if qB % 8 = 0 then 8 else qB % 8) = 1 := by
        split at hb <;> split <;> omega
      have hq1 : qB % 8 = 1 := by split at hb1 <;> omega
      simp only [hb1]
      have hhead : (b0.toNat % 2 ^ 1 ||| 1) = 1 := by
        have : b0.toNat % 2 ^ 1 = 0 ∨ b0.toNat % 2 ^ 1 = 1 := by omega
        rcases this with h | h <;> rw [h] <;> rfl
      rw [hhead]
      cases rest with
      | nil => simp only [List.length_nil] at hlen; omega
      | cons b1 r =>
        simp only
        erw [lastOdd_val _ (List.cons_ne_nil _ _)]
        simp only [List.length_cons] at hlen
        have hq : qB = 8 * r.length + 9 := by omega
        obtain ⟨g1, g2⟩ := u8_or_128 b1
        have hr := bytesToNat_lt r
        have e0 : (UInt8.ofNat 1).toNat = 1 := rfl
        have e1 : 256 ^ (r.length + 1) = 256 * 2 ^ (8 * r.length) := by rw [pow_succ, pow256]; ring
        have e2 : 2 ^ qB = 512 * 2 ^ (8 * r.length) := by rw [hq, pow_add]; ring
        have e3 : 2 ^ (qB - 2) = 128 * 2 ^ (8 * r.length) := by
          rw [hq, show 8 * r.length + 9 - 2 = 8 * r.length + 7 by omega, pow_add]; ring
        rw [pow256] at hr
        apply H _ (List.cons_ne_nil _ _)
        · rw [bytesToNat_cons, bytesToNat_cons, e0, List.length_cons, e1, e3, pow256]
          have := Nat.mul_le_mul_right (2 ^ (8 * r.length)) g1
          omega
        · rw [bytesToNat_cons, bytesToNat_cons, e0, List.length_cons, e1, e2, pow256]
          have h6 : (UInt8.ofNat (b1.toNat ||| 0x80)).toNat + 1 ≤ 256 := g2
          have h7 := Nat.mul_le_mul_right (2 ^ (8 * r.length)) h6
          have h8 : ((UInt8.ofNat (b1.toNat ||| 0x80)).toNat + 1) * 2 ^ (8 * r.length) =
            (UInt8.ofNat (b1.toNat ||| 0x80)).toNat * 2 ^ (8 * r.length) + 2 ^ (8 * r.length) := by ring
          omega
  intro all _ hlo hhi
  have hpos : 0 < 2 ^ (qB - 2) := Nat.two_pow_pos _
  refine ⟨by omega, by omega, by omega⟩

/-- two top bits of a `k`-bit number: bit length -/
theorem bitLen_of_top_bits {n k : Nat} (hk : 2 ≤ k) (h1 : 3 * 2 ^ (k - 2) ≤ n) (h2 : n < 2 ^ k) :
    bitLen n = k := by
  apply PaillierL.bitLen_eq_of_bounds (by omega) _ h2
  have : 2 ^ (k - 1) = 2 * 2 ^ (k - 2) := by
    obtain ⟨j, rfl⟩ : ∃ j, k = j + 2 := ⟨k - 2, by omega⟩
    rw [show j + 2 - 1 = j + 1 by omega, Nat.add_sub_cancel, pow_succ, mul_comm]
  omega

/-- the safe prime candidate `2q+1` inherits the shape, one bit longer -/
theorem safePrime_shape {q k : Nat} (hk : 2 ≤ k) (h1 : 3 * 2 ^ (k - 2) ≤ q) (h2 : q < 2 ^ k) :
    3 * 2 ^ (k + 1 - 2) ≤ safePrimeOf q ∧ safePrimeOf q < 2 ^ (k + 1) ∧ bitLen (safePrimeOf q) = k + 1 := by
  have e1 : 2 ^ (k + 1 - 2) = 2 * 2 ^ (k - 2) := by
    obtain ⟨j, rfl⟩ : ∃ j, k = j + 2 := ⟨k - 2, by omega⟩
    rw [show j + 2 + 1 - 2 = j + 1 by omega, Nat.add_sub_cancel, pow_succ, mul_comm]
  have e2 : 2 ^ (k + 1) = 2 * 2 ^ k := by rw [pow_succ, mul_comm]
  have a : 3 * 2 ^ (k + 1 - 2) ≤ safePrimeOf q := by unfold safePrimeOf; omega
  have b : safePrimeOf q < 2 ^ (k + 1) := by unfold safePrimeOf; omega
  exact ⟨a, b, bitLen_of_top_bits (by omega) a b⟩

end TssVerif.MiscL
