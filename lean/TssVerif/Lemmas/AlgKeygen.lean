import TssVerif.Lemmas.AlgShare
import TssVerif.Lemmas.VssVerify
import TssVerif.Lemmas.VssReconstruct
/-! Joint-Feldman key generation and resharing: the sum of verified shares matches the public share point
of the combined commitments; the sum polynomial; what an accepting `Vss.verify` says about ARBITRARY
commitment points; Lagrange interpolation "in the exponent". -/
set_option autoImplicit false
set_option linter.style.haveILetI false
namespace TssVerif.AlgL
open TssVerif Polynomial

variable {P : Type} {C : Curve P}

/-! ### summing verified shares -/

/-- **verification alone gives consistency**: if every dealt share `s i` satisfies the Feldman equation
against the dealer's commitment vector `Vi i` (arbitrary points), the sum of the shares (reduced or not)
matches the public share point of the combined commitments -/
theorem feldman_sum (hC : C.Lawful) {ι : Type} (ds : List ι) (s : ι → ℕ) (Vi : ι → ℕ → P) (t id : ℕ)
    (h : ∀ i ∈ ds, C.smul (s i) C.base = pubShare C (Vi i) t id) :
    C.smul ((ds.map s).sum % C.q) C.base =
      pubShare C (fun c => psum C (ds.map fun i => Vi i c)) t id := by
  rw [← hC.smul_base_mod, pubShare_psum hC, ← psum_smul_base hC]
  exact psum_congr ds _ _ h

/-! ### the sum polynomial -/

/-- `F = Σ_i f_i` over `ZMod q`, the `f_i` given by coefficient lists -/
noncomputable def sumPoly (q : ℕ) {ι : Type} (ds : List ι) (f : ι → List ℕ) : (ZMod q)[X] :=
  (ds.map fun i => Vss.polyZ q (f i)).sum

theorem sumPoly_eval {q : ℕ} {ι : Type} (ds : List ι) (f : ι → List ℕ) (x : ZMod q) :
    (sumPoly q ds f).eval x = (ds.map fun i => (Vss.polyZ q (f i)).eval x).sum := by
  unfold sumPoly
  induction ds with
  | nil => simp
  | cons i ds ih => simp only [List.map_cons, List.sum_cons, eval_add, ih]

theorem sumPoly_degree_lt {q : ℕ} {ι : Type} (ds : List ι) (f : ι → List ℕ) (n : ℕ)
    (h : ∀ i ∈ ds, (f i).length ≤ n) : (sumPoly q ds f).degree < (n : ℕ) ∨ sumPoly q ds f = 0 := by
  unfold sumPoly
  induction ds with
  | nil => right; rfl
  | cons i ds ih =>
    have hi : (Vss.polyZ q (f i)).degree < (n : ℕ) :=
      lt_of_lt_of_le (Vss.polyZ_degree_lt _) (by exact_mod_cast h i (List.mem_cons_self ..))
    rw [List.map_cons, List.sum_cons]
    rcases ih (fun j hj => h j (List.mem_cons_of_mem _ hj)) with h1 | h1
    · left; exact lt_of_le_of_lt (degree_add_le _ _) (max_lt hi h1)
    · left; rw [h1, add_zero]; exact hi

theorem sumPoly_degree_lt' {q : ℕ} {ι : Type} (ds : List ι) (f : ι → List ℕ) (n m : ℕ)
    (h : ∀ i ∈ ds, (f i).length ≤ n) (hnm : n ≤ m) : (sumPoly q ds f).degree < (m : ℕ) := by
  rcases sumPoly_degree_lt (q := q) ds f n h with h1 | h1
  · exact lt_of_lt_of_le h1 (by exact_mod_cast hnm)
  · rw [h1, degree_zero]; exact WithBot.bot_lt_coe _

/-- the share of the party with id `id` — sum of the received evaluations, reduced — is `F(id)` -/
theorem share_cast {q : ℕ} {ι : Type} (ds : List ι) (f : ι → List ℕ) (hne : ∀ i ∈ ds, f i ≠ [])
    (id : ℕ) :
    ((((ds.map fun i => Vss.evalPoly q (f i) id).sum % q : ℕ)) : ZMod q) =
      (sumPoly q ds f).eval (id : ZMod q) := by
  rw [ZMod.natCast_mod, sumPoly_eval]
  induction ds with
  | nil => simp
  | cons i ds ih =>
    simp only [List.map_cons, List.sum_cons, Nat.cast_add]
    rw [ih (fun j hj => hne j (List.mem_cons_of_mem _ hj))]
    congr 1
    obtain ⟨a0, as, h⟩ := List.exists_cons_of_ne_nil (hne i (List.mem_cons_self ..))
    rw [h, Vss.evalPoly_eval]

theorem share_eq_val {q : ℕ} [Fact q.Prime] {ι : Type} (ds : List ι) (f : ι → List ℕ)
    (hne : ∀ i ∈ ds, f i ≠ []) (id : ℕ) :
    (ds.map fun i => Vss.evalPoly q (f i) id).sum % q = ((sumPoly q ds f).eval (id : ZMod q)).val := by
  rw [← share_cast ds f hne id, ZMod.val_natCast, Nat.mod_mod]

/-- `F(0) = Σ_i u_i` (the constant terms) -/
theorem sumPoly_eval_zero {q : ℕ} {ι : Type} (ds : List ι) (f : ι → List ℕ) :
    (sumPoly q ds f).eval 0 = (((ds.map fun i => (f i).getD 0 0).sum : ℕ) : ZMod q) := by
  rw [sumPoly_eval]
  induction ds with
  | nil => simp
  | cons i ds ih =>
    simp only [List.map_cons, List.sum_cons, Nat.cast_add, ih]
    congr 1
    rw [← coeff_zero_eq_eval_zero, Vss.polyZ_coeff]

/-! ### an accepting `Vss.verify`, for arbitrary commitment points -/

theorem toAffine_of_lift (hC : C.Lawful) {a : P} {v : ECPoint} (h : C.lift v = some a) :
    C.toAffine a = some v :=
  hC.ofAffine_toAffine v.1 v.2 a h

/-- a `verifyLoop` that ends on a point has lifted every commitment and computed `accLoop` -/
theorem verifyLoop_some (hC : C.Lawful) (id : ℕ) : ∀ (vs : List ECPoint) (t : ℕ) (v v' : ECPoint) (pv : P),
    C.lift v = some pv → Vss.verifyLoop C id vs t v = .ok (some v') →
    ∃ pts : List P, List.Forall₂ (fun v p => C.lift v = some p) vs pts ∧
      C.lift v' = some (accLoop C id pts t pv) := by
  intro vs
  induction vs with
  | nil =>
    intro t v v' pv hpv h
    simp only [Vss.verifyLoop] at h
    injection h with h
    injection h with h
    subst h
    exact ⟨[], List.Forall₂.nil, hpv⟩
  | cons vj rest ih =>
    intro t v v' pv hpv h
    rw [Vss.verifyLoop] at h
    cases hsm : C.ecScalarMult vj ((t * id % C.q : ℕ) : Int) with
    | err e => rw [hsm] at h; cases h
    | panic e => rw [hsm] at h; cases h
    | ok vjt =>
      rw [hsm] at h
      simp only at h
      -- the scalar multiplication lifted `vj`
      unfold Curve.ecScalarMult at hsm
      cases hl : C.lift vj with
      | none => rw [hl] at hsm; cases hsm
      | some pj =>
        rw [hl] at hsm
        simp only [Int.natAbs_natCast] at hsm
        cases haff : C.toAffine (C.smul (t * id % C.q) pj) with
        | none => rw [haff] at hsm; cases hsm
        | some r =>
          rw [haff] at hsm
          injection hsm with hsm
          subst hsm
          cases hadd : C.ecAdd v r with
          | err e => rw [hadd] at h; cases h
          | panic e => rw [hadd] at h; cases h
          | ok vnew =>
            rw [hadd] at h
            simp only at h
            unfold Curve.ecAdd at hadd
            rw [hpv, lift_of_toAffine hC haff] at hadd
            simp only at hadd
            cases haff2 : C.toAffine (C.add pv (C.smul (t * id % C.q) pj)) with
            | none => rw [haff2] at hadd; cases hadd
            | some r2 =>
              rw [haff2] at hadd
              injection hadd with hadd
              subst hadd
              obtain ⟨pts, hpts, hres⟩ := ih (t * id % C.q) r2 v' _ (lift_of_toAffine hC haff2) h
              exact ⟨pj :: pts, List.Forall₂.cons hl hpts, hres⟩

/-- **what an accepted share tells, whatever the dealer sent**: the commitments are points of the
curve (`V`), there are `t+1` of them, and `share·G = V_0 + Σ_{c=1..t} (id^c mod q)·V_c` -/
theorem verify_true_feldman (hC : C.Lawful) (cfg : Vss.VerifyCfg) (t : ℕ) (sh : Vss.Share)
    (vs : List ECPoint) (h : Vss.verify C cfg t sh vs = .ok true) :
    ∃ V : List P, List.Forall₂ (fun v p => C.lift v = some p) vs V ∧ V.length = t + 1 ∧
      sh.threshold = t ∧
      C.smul sh.share C.base = pubShare C (fun c => V.getD c C.zero) t sh.id := by
  rw [Vss.verify_unfold] at h
  split at h
  · cases h
  · rename_i h1
    split at h
    · cases h
    · simp only [Bool.or_eq_true, bne_iff_ne, ne_eq, not_or, Decidable.not_not] at h1
      obtain ⟨hthr, hlen⟩ := h1
      unfold Vss.verifyTail at h
      cases vs with
      | nil => cases h
      | cons v0 rest =>
        simp only at h
        cases hloop : Vss.verifyLoop C sh.id rest 1 v0 with
        | err e => rw [hloop] at h; cases h
        | panic e => rw [hloop] at h; cases h
        | ok o =>
          rw [hloop] at h
          cases o with
          | none => cases h
          | some v =>
            simp only at h
            cases hbm : C.ecBaseMult (sh.share : Int) with
            | err e => rw [hbm] at h; cases h
            | panic e => rw [hbm] at h; cases h
            | ok sg =>
              rw [hbm] at h
              simp only at h
              injection h with h
              have hsg : sg = v := (Vss.ecEquals_iff sg v).1 h
              subst hsg
              -- the first commitment lifts: `verifyLoop` on `[]` keeps it, otherwise `ecAdd` lifted it
              unfold Curve.ecBaseMult at hbm
              simp only [Int.natAbs_natCast] at hbm
              cases haff : C.toAffine (C.smul sh.share C.base) with
              | none => rw [haff] at hbm; cases hbm
              | some r =>
                rw [haff] at hbm
                injection hbm with hbm
                subst hbm
                have hlr : C.lift r = some (C.smul sh.share C.base) := lift_of_toAffine hC haff
                -- lift of v0
                have hv0 : ∃ p0, C.lift v0 = some p0 := by
                  cases rest with
                  | nil =>
                    simp only [Vss.verifyLoop] at hloop
                    injection hloop with hloop
                    injection hloop with hloop
                    subst hloop
                    exact ⟨_, hlr⟩
                  | cons vj rest' =>
                    rw [Vss.verifyLoop] at hloop
                    cases hsm : C.ecScalarMult vj ((1 * sh.id % C.q : ℕ) : Int) with
                    | err e => rw [hsm] at hloop; cases hloop
                    | panic e => rw [hsm] at hloop; cases hloop
                    | ok vjt =>
                      rw [hsm] at hloop
                      simp only at hloop
                      cases hadd : C.ecAdd v0 vjt with
                      | err e => rw [hadd] at hloop; cases hloop
                      | panic e => rw [hadd] at hloop; cases hloop
                      | ok vnew =>
                        unfold Curve.ecAdd at hadd
                        cases hl0 : C.lift v0 with
                        | none => rw [hl0] at hadd; cases hadd
                        | some p0 => exact ⟨p0, rfl⟩
                obtain ⟨p0, hp0⟩ := hv0
                obtain ⟨pts, hpts, hres⟩ := verifyLoop_some hC sh.id rest 1 v0 r p0 hp0 hloop
                have hpl : pts.length = rest.length := hpts.length_eq.symm
                refine ⟨p0 :: pts, List.Forall₂.cons hp0 hpts, ?_, hthr, ?_⟩
                · rw [List.length_cons] at hlen ⊢
                  omega
                · rw [hlr] at hres
                  injection hres with hres
                  rw [hres, accLoop_pubShare hC]
                  rw [List.length_cons] at hlen
                  have : pts.length = t := by omega
                  rw [this]

/-! ### Lagrange interpolation in the exponent -/

section exponent
variable [Fact C.q.Prime]

/-- casting the scalar: on a point killed by `q`, `smul` only depends on the residue -/
theorem smul_congr_of_order (hC : C.Lawful) {p : P} (hp : C.smul C.q p = C.zero) {a b : ℕ}
    (h : (a : ZMod C.q) = (b : ZMod C.q)) : C.smul a p = C.smul b p := by
  letI := hC.groupLaws.addCommGroup
  rw [hC.smul_eq_nsmul, hC.smul_eq_nsmul]
  rw [hC.smul_eq_nsmul] at hp
  have hd : addOrderOf p ∣ C.q := addOrderOf_dvd_of_nsmul_eq_zero hp
  have hm : a ≡ b [MOD C.q] := (ZMod.natCast_eq_natCast_iff _ _ _).1 h
  have := (nsmul_eq_nsmul_iff_modEq (x := p) (m := a) (n := b)).2 (hm.symm.of_dvd hd)
  exact this.symm

/-- `Σ_j λ_j • pubShare V t ks[j]` as a combination of the `V_c` with coefficients
`Σ_j λ_j·ks[j]^c` -/
theorem pubShare_combination (hC : C.Lawful) (hord : ∀ p, C.smul C.q p = C.zero)
    (V : ℕ → P) (t : ℕ) (ks lam : List ℕ) (hlen : lam.length = ks.length)
    (hinterp : ∀ c, c ≤ t →
      ((List.range ks.length).map fun j => (lam.getD j 0 : ZMod C.q) * (ks.getD j 0 : ZMod C.q) ^ c).sum
        = if c = 0 then 1 else 0) :
    psum C ((List.range ks.length).map fun j => C.smul (lam.getD j 0) (pubShare C V t (ks.getD j 0))) = V 0 := by
  letI := hC.groupLaws.addCommGroup
  have _ := hlen
  -- push the scalars inside
  have hstep : ∀ j, C.smul (lam.getD j 0) (pubShare C V t (ks.getD j 0)) =
      psum C ((List.range' 0 (t + 1)).map fun c =>
        C.smul (lam.getD j 0 * zpow C.q (ks.getD j 0) c) (V c)) := by
    intro j
    unfold pubShare
    rw [hC.smul_add_right, psum_smul hC, List.map_map, List.range'_succ, List.map_cons, psum_cons]
    congr 1
    · show C.smul (lam.getD j 0) (V 0) = C.smul (lam.getD j 0 * 1) (V 0)
      rw [Nat.mul_one]
    · apply psum_congr
      intro c _
      exact (hC.smul_mul _ _ _).symm
  simp only [hstep]
  rw [psum_comm hC]
  -- each inner sum is `(Σ_j λ_j k_j^c) • V_c`
  have hinner : ∀ c ∈ List.range' 0 (t + 1),
      psum C ((List.range ks.length).map fun j =>
        C.smul (lam.getD j 0 * zpow C.q (ks.getD j 0) c) (V c)) =
      C.smul (if c = 0 then 1 else 0) (V c) := by
    intro c hc
    have hct : c ≤ t := by
      have := (List.mem_range'_1.1 hc).2
      omega
    have hsum : ∀ (l : List ℕ) (a : ℕ → ℕ), psum C (l.map fun j => C.smul (a j) (V c)) =
        C.smul (l.map a).sum (V c) := by
      intro l a
      induction l with
      | nil => rfl
      | cons i l ih => simp only [List.map_cons, psum_cons, List.sum_cons]; rw [ih, hC.smul_add]
    rw [hsum]
    apply smul_congr_of_order hC (hord _)
    have := hinterp c hct
    rw [show (((if c = 0 then 1 else 0 : ℕ)) : ZMod C.q) = if c = 0 then 1 else 0 by split <;> simp,
      ← this]
    clear this
    induction (List.range ks.length) with
    | nil => simp
    | cons j l ih =>
      simp only [List.map_cons, List.sum_cons, Nat.cast_add, Nat.cast_mul, zpow_cast, ih]
  rw [psum_congr _ _ _ hinner, List.range'_succ, List.map_cons, psum_cons]
  have hrest : psum C ((List.range' (0 + 1) t).map fun c => C.smul (if c = 0 then 1 else 0) (V c)) = C.zero := by
    have : ∀ c ∈ List.range' (0 + 1) t, C.smul (if c = 0 then 1 else 0) (V c) = C.zero := by
      intro c hc
      have : 1 ≤ c := by simpa using (List.mem_range'_1.1 hc).1
      rw [if_neg (by omega)]
      rfl
    rw [psum_congr _ _ (fun _ => C.zero) this]
    clear this
    induction (List.range' (0 + 1) t) with
    | nil => rfl
    | cons c l ih => rw [List.map_cons, psum_cons, ih, hC.zero_add]
  rw [hrest, if_pos rfl, hC.smul_one, hC.add_zero]

end exponent

/-! ### pure Lagrange coefficients `λ_j = weight q ks j 1` -/

/-- `Σ_j λ_j·f(k_j) = f(0)` for `deg f <` number of ids, `λ_j = Sign.weight q ks j 1` -/
theorem lagrange_coeff_sum {q : ℕ} [Fact q.Prime] (ks lam : List ℕ) (f : (ZMod q)[X])
    (hdeg : f.degree < ks.length)
    (hinj : Set.InjOn (fun j => (ks.getD j 0 : ZMod q)) (Finset.range ks.length : Set ℕ))
    (hlam : ∀ i < ks.length, Sign.weight q ks i 1 = some (lam.getD i 0)) :
    ((List.range ks.length).map fun j => (lam.getD j 0 : ZMod q) * f.eval (ks.getD j 0 : ZMod q)).sum
      = f.eval 0 := by
  rw [← List.sum_toFinset _ List.nodup_range, List.toFinset_range]
  have hdeg' : f.degree < (Finset.range ks.length).card := by simpa using hdeg
  have e := congrArg (eval 0) (Lagrange.eq_interpolate hinj hdeg')
  rw [e]
  simp only [Lagrange.interpolate_apply, eval_finsetSum, eval_mul, eval_C]
  refine Finset.sum_congr rfl fun i hi => ?_
  have hi' : i < ks.length := Finset.mem_range.mp hi
  rw [weight_cast_lagrange ks i _ _ hi' hinj (hlam i hi'), Nat.cast_one, one_mul, mul_comm]

/-- the interpolation identities `Σ_j λ_j·k_j^c = [c = 0]` for `c <` number of ids -/
theorem lagrange_coeff_pow {q : ℕ} [Fact q.Prime] (ks lam : List ℕ)
    (hinj : Set.InjOn (fun j => (ks.getD j 0 : ZMod q)) (Finset.range ks.length : Set ℕ))
    (hlam : ∀ i < ks.length, Sign.weight q ks i 1 = some (lam.getD i 0)) (c : ℕ) (hc : c < ks.length) :
    ((List.range ks.length).map fun j => (lam.getD j 0 : ZMod q) * (ks.getD j 0 : ZMod q) ^ c).sum
      = if c = 0 then 1 else 0 := by
  have h := lagrange_coeff_sum ks lam (X ^ c : (ZMod q)[X])
    (by rw [degree_X_pow]; exact_mod_cast hc) hinj hlam
  simp only [eval_pow, eval_X] at h
  rw [h]
  split
  · next h0 => rw [h0, pow_zero]
  · next h0 => exact zero_pow h0

/-! ### the objects of key generation -/

/-- the share a party with id `id` ends up with: the sum of the evaluations it received, reduced
(`round.save.Xi`) -/
def share (q : ℕ) {ι : Type} (ds : List ι) (f : ι → List ℕ) (id : ℕ) : ℕ :=
  (ds.map fun i => Vss.evalPoly q (f i) id).sum % q

/-- the combined commitment vector `Vc[c] = Σ_i V_i[c]` -/
def combined (C : Curve P) {ι : Type} (ds : List ι) (Vi : ι → ℕ → P) : ℕ → P :=
  fun c => psum C (ds.map fun i => Vi i c)

/-- the commitment vector of an honest dealer with coefficients `f i` -/
def honestCommit (C : Curve P) {ι : Type} (f : ι → List ℕ) : ι → ℕ → P :=
  fun i c => C.smul ((f i).getD c 0) C.base

/-- the point a received coordinate pair denotes (`zero` if it is not on the curve) -/
def liftD (C : Curve P) (v : ECPoint) : P := (C.lift v).getD C.zero

theorem forall₂_lift_eq_map {vs : List ECPoint} {V : List P}
    (h : List.Forall₂ (fun v p => C.lift v = some p) vs V) : V = vs.map (liftD C) := by
  induction h with
  | nil => rfl
  | cons h1 _ ih => rw [List.map_cons, ← ih, liftD, h1]; rfl

theorem cast_list_sum {q : ℕ} {ι : Type} (l : List ι) (a : ι → ℕ) :
    (((l.map a).sum : ℕ) : ZMod q) = (l.map fun i => (a i : ZMod q)).sum := by
  induction l with
  | nil => simp
  | cons i l ih => simp only [List.map_cons, List.sum_cons, Nat.cast_add, ih]

theorem getD_map_of_lt {α β : Type} (l : List α) (g : α → β) (d : α) (d' : β) {i : ℕ}
    (hi : i < l.length) : (l.map g).getD i d' = g (l.getD i d) := by
  rw [List.getD_eq_getElem?_getD, List.getD_eq_getElem?_getD, List.getElem?_map,
    List.getElem?_eq_getElem hi]
  rfl

theorem forall₂_lift_onCurve {vs : List ECPoint} {V : List P}
    (h : List.Forall₂ (fun v p => C.lift v = some p) vs V) : ∀ v ∈ vs, C.ecIsOnCurve v = true := by
  induction h with
  | nil => intro v hv; cases hv
  | cons h1 _ ih =>
    intro v hv
    rcases List.mem_cons.1 hv with rfl | hv
    · unfold Curve.ecIsOnCurve; unfold Curve.lift at h1; rw [h1]; rfl
    · exact ih v hv

end TssVerif.AlgL
