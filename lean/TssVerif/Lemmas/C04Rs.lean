import TssVerif.Core.BlameRs
import TssVerif.Lemmas.C05
/-! Helper lemmas for `TssVerif/Props/C04c.lean`: the recursion of `BlameRs.round1Key` (both trees), the
per-old-member check `checkOld` stage by stage, the loop of `round4`, the column sums in the group of a
lawful curve, and totality. -/
set_option autoImplicit false
set_option linter.style.haveILetI false
set_option linter.unusedSectionVars false
namespace TssVerif.C04RsL
open TssVerif BlameRs Blame C05L

/-! ### round 1: which key -/
section round1
variable {P : Type} (C : Curve P)

/-- the text of the mismatch error -/
abbrev mismatchMsg : String := "eddsa pub key did not match what we received previously"
abbrev unmarshalMsg : String := "unable to unmarshal the eddsa pub key"
abbrev noOldMsg : String := "no old member"

theorem r1go_nil (em : Bool) (first : Option OldMsg) (saved : Option ECPoint) :
    round1Key.go C em first saved [] =
      match saved with
      | some k => .pass k
      | none => .fail noOldMsg [] := by
  cases saved <;> rfl

theorem r1go_true_cons (first : Option OldMsg) (saved : Option ECPoint) (m : OldMsg) (rest : List OldMsg) :
    round1Key.go C true first saved (m :: rest) =
      match C.ecNew m.pub.1 m.pub.2 with
      | none => .fail unmarshalMsg [m.idx]
      | some cand =>
        match saved with
        | some k => if cand != k then .fail mismatchMsg [] else round1Key.go C true first (some cand) rest
        | none => round1Key.go C true first (some cand) rest := by
  rw [round1Key.go]
  rfl

theorem r1go_false_cons (first : Option OldMsg) (saved : Option ECPoint) (m : OldMsg) (rest : List OldMsg) :
    round1Key.go C false first saved (m :: rest) =
      match first with
      | none => .fail noOldMsg []
      | some s =>
        match C.ecNew s.pub.1 s.pub.2 with
        | none => .fail unmarshalMsg [m.idx]
        | some cand =>
          match saved with
          | some k => if cand != k then .fail mismatchMsg [m.idx] else round1Key.go C false first (some cand) rest
          | none => round1Key.go C false first (some cand) rest := by
  rw [round1Key.go]
  rfl

/-- **repaired tree, exact acceptance condition of the loop** -/
theorem r1go_true_pass_iff (first : Option OldMsg) : ∀ (msgs : List OldMsg) (saved : Option ECPoint) (key : ECPoint),
    round1Key.go C true first saved msgs = .pass key ↔
      (∀ m ∈ msgs, C.ecNew m.pub.1 m.pub.2 = some key) ∧ (saved = some key ∨ (saved = none ∧ msgs ≠ [])) := by
  intro msgs
  induction msgs with
  | nil =>
    intro saved key
    rw [r1go_nil]
    cases saved with
    | none => simp
    | some k =>
      simp only [List.not_mem_nil, false_imp_iff, implies_true, true_and, ne_eq, not_true_eq_false,
        and_false, or_false, Option.some.injEq]
      constructor
      · intro h; injection h
      · intro h; rw [h]
  | cons m rest ih =>
    intro saved key
    rw [r1go_true_cons]
    cases hc : C.ecNew m.pub.1 m.pub.2 with
    | none =>
      simp only
      constructor
      · intro h; cases h
      · rintro ⟨h, _⟩
        have := h m (List.mem_cons_self ..)
        rw [hc] at this
        cases this
    | some cand =>
      simp only
      cases saved with
      | none =>
        simp only
        rw [ih]
        constructor
        · rintro ⟨h1, h2⟩
          have hck : cand = key := by
            rcases h2 with h2 | ⟨h2, _⟩
            · injection h2
            · cases h2
          subst hck
          refine ⟨?_, Or.inr (by simp)⟩
          intro m' hm'
          rcases List.mem_cons.1 hm' with rfl | hm'
          · exact hc
          · exact h1 m' hm'
        · rintro ⟨h1, _⟩
          have hm := h1 m (List.mem_cons_self ..)
          rw [hc] at hm
          injection hm with hm
          subst hm
          exact ⟨fun m' hm' => h1 m' (List.mem_cons_of_mem _ hm'), Or.inl rfl⟩
      | some k =>
        simp only
        by_cases hk : cand = k
        · subst hk
          simp only [bne_self_eq_false, Bool.false_eq_true, if_false]
          rw [ih]
          constructor
          · rintro ⟨h1, h2⟩
            have hck : cand = key := by
              rcases h2 with h2 | ⟨h2, _⟩
              · injection h2
              · cases h2
            subst hck
            refine ⟨?_, Or.inl rfl⟩
            intro m' hm'
            rcases List.mem_cons.1 hm' with rfl | hm'
            · exact hc
            · exact h1 m' hm'
          · rintro ⟨h1, h2⟩
            have hm := h1 m (List.mem_cons_self ..)
            rw [hc] at hm
            injection hm with hm
            subst hm
            exact ⟨fun m' hm' => h1 m' (List.mem_cons_of_mem _ hm'), Or.inl rfl⟩
        · have hb : (cand != k) = true := by simp [hk]
          rw [if_pos hb]
          constructor
          · intro h; cases h
          · rintro ⟨h1, h2⟩
            exfalso
            have hm := h1 m (List.mem_cons_self ..)
            rw [hc] at hm
            injection hm with hm
            rcases h2 with h2 | ⟨h2, _⟩
            · injection h2 with h2
              exact hk (hm.trans h2.symm)
            · cases h2

/-- **repaired tree, every way the loop can fail**: no message at all; a disagreement (nobody is named: the
messages before `m` agree on a key `k`, `m` announces another valid key); or a key that does not decode (its
sender is named) -/
theorem r1go_true_fail (first : Option OldMsg) : ∀ (msgs : List OldMsg) (saved : Option ECPoint) (why : String)
    (cs : List Nat), round1Key.go C true first saved msgs = .fail why cs →
      (why = noOldMsg ∧ cs = [] ∧ msgs = [] ∧ saved = none) ∨
      (why = mismatchMsg ∧ cs = [] ∧ ∃ pre m post k k', msgs = pre ++ m :: post ∧
        (∀ p ∈ pre, C.ecNew p.pub.1 p.pub.2 = some k) ∧ (saved = some k ∨ (saved = none ∧ pre ≠ [])) ∧
        C.ecNew m.pub.1 m.pub.2 = some k' ∧ k' ≠ k) ∨
      (why = unmarshalMsg ∧ ∃ pre m post, msgs = pre ++ m :: post ∧ cs = [m.idx] ∧
        C.ecNew m.pub.1 m.pub.2 = none ∧ ∀ p ∈ pre, ∃ k, C.ecNew p.pub.1 p.pub.2 = some k) := by
  intro msgs
  induction msgs with
  | nil =>
    intro saved why cs h
    rw [r1go_nil] at h
    cases saved with
    | some k => cases h
    | none =>
      injection h with h1 h2
      exact Or.inl ⟨h1.symm, h2.symm, rfl, rfl⟩
  | cons m rest ih =>
    intro saved why cs h
    rw [r1go_true_cons] at h
    cases hc : C.ecNew m.pub.1 m.pub.2 with
    | none =>
      rw [hc] at h
      injection h with h1 h2
      exact Or.inr (Or.inr ⟨h1.symm, [], m, rest, rfl, h2.symm, hc, fun _ hp => (by cases hp)⟩)
    | some cand =>
      rw [hc] at h
      simp only at h
      -- what a failure of the recursive call with `saved = some cand` gives for `m :: rest`
      have step : ∀ (sv : Option ECPoint), (sv = some cand ∨ sv = none) →
          round1Key.go C true first (some cand) rest = .fail why cs →
          (why = noOldMsg ∧ cs = [] ∧ m :: rest = [] ∧ sv = none) ∨
          (why = mismatchMsg ∧ cs = [] ∧ ∃ pre m' post k k', m :: rest = pre ++ m' :: post ∧
            (∀ p ∈ pre, C.ecNew p.pub.1 p.pub.2 = some k) ∧ (sv = some k ∨ (sv = none ∧ pre ≠ [])) ∧
            C.ecNew m'.pub.1 m'.pub.2 = some k' ∧ k' ≠ k) ∨
          (why = unmarshalMsg ∧ ∃ pre m' post, m :: rest = pre ++ m' :: post ∧ cs = [m'.idx] ∧
            C.ecNew m'.pub.1 m'.pub.2 = none ∧ ∀ p ∈ pre, ∃ k, C.ecNew p.pub.1 p.pub.2 = some k) := by
        intro sv hsv hrec
        rcases ih (some cand) why cs hrec with ⟨_, _, _, h4⟩ | ⟨h1, h2, pre, m', post, k, k', hs, hp, hk, hm', hne⟩ |
          ⟨h1, pre, m', post, hs, hcs, hm', hp⟩
        · cases h4
        · have hkc : k = cand := by
            rcases hk with hk | ⟨hk, _⟩
            · injection hk with hk; exact hk.symm
            · cases hk
          subst hkc
          refine Or.inr (Or.inl ⟨h1, h2, m :: pre, m', post, k, k', by rw [hs]; rfl, ?_, ?_, hm', hne⟩)
          · intro p hp'
            rcases List.mem_cons.1 hp' with rfl | hp'
            · exact hc
            · exact hp p hp'
          · rcases hsv with hsv | hsv
            · exact Or.inl hsv
            · exact Or.inr ⟨hsv, by simp⟩
        · refine Or.inr (Or.inr ⟨h1, m :: pre, m', post, by rw [hs]; rfl, hcs, hm', ?_⟩)
          intro p hp'
          rcases List.mem_cons.1 hp' with rfl | hp'
          · exact ⟨cand, hc⟩
          · exact hp p hp'
      cases saved with
      | none => exact step none (Or.inr rfl) h
      | some k =>
        simp only at h
        by_cases hk : cand = k
        · subst hk
          simp only [bne_self_eq_false, Bool.false_eq_true, if_false] at h
          exact step (some cand) (Or.inl rfl) h
        · have hb : (cand != k) = true := by simp [hk]
          rw [if_pos hb] at h
          injection h with h1 h2
          exact Or.inr (Or.inl ⟨h1.symm, h2.symm, [], m, rest, k, cand, rfl, fun _ hp => (by cases hp),
            Or.inl rfl, hc, hk⟩)

/-- **tree before the repair**: once the first old member's key decodes to `key`, the loop passes with `key`
whatever the messages are -/
theorem r1go_false_saved (m0 : OldMsg) (key : ECPoint) (h0 : C.ecNew m0.pub.1 m0.pub.2 = some key) :
    ∀ (msgs : List OldMsg), round1Key.go C false (some m0) (some key) msgs = .pass key := by
  intro msgs
  induction msgs with
  | nil => rw [r1go_nil]
  | cons m rest ih =>
    rw [r1go_false_cons]
    simp only [h0, bne_self_eq_false, Bool.false_eq_true, if_false]
    exact ih

theorem round1Key_eq (em : Bool) (msgs : List OldMsg) :
    round1Key C em msgs = round1Key.go C em msgs.head? none msgs := rfl

theorem round1Key_false_cons (m0 : OldMsg) (rest : List OldMsg) :
    round1Key C false (m0 :: rest) =
      match C.ecNew m0.pub.1 m0.pub.2 with
      | none => .fail unmarshalMsg [m0.idx]
      | some key => .pass key := by
  rw [round1Key_eq, List.head?_cons, r1go_false_cons]
  cases h0 : C.ecNew m0.pub.1 m0.pub.2 with
  | none => simp only [h0]
  | some key =>
    simp only [h0]
    exact r1go_false_saved C m0 key h0 rest

end round1

/-! ### round 4: the per-old-member check, stage by stage -/
section checkOld
variable {P : Type} (C : Curve P) (H : HashFn)
variable (vcfg : Vss.VerifyCfg) (cof cofInv t' ownId : Nat) (m : OldMsg)

abbrev decommitMsg : String := "de-commitment of v_j0..v_jt failed"
abbrev shareMsg : String := "share from old committee did not pass Verify()"

theorem checkOld_decommit_none
    (h : decommitWith H m.commitment (m.decommitment.map Int.ofNat) = .ok none) :
    checkOld C H vcfg cof cofInv t' ownId m = .ok (.fail decommitMsg [m.idx]) := by
  simp only [checkOld, h]

theorem checkOld_decommit_panic (e : String)
    (h : decommitWith H m.commitment (m.decommitment.map Int.ofNat) = .panic e) :
    checkOld C H vcfg cof cofInv t' ownId m = .panic e := by
  simp only [checkOld, h]

theorem checkOld_decommit_err (e : String)
    (h : decommitWith H m.commitment (m.decommitment.map Int.ofNat) = .err e) :
    checkOld C H vcfg cof cofInv t' ownId m = .err e := by
  simp only [checkOld, h]

theorem checkOld_wrong_length (flat : List Int)
    (h : decommitWith H m.commitment (m.decommitment.map Int.ofNat) = .ok (some flat))
    (hl : flat.length ≠ (t' + 1) * 2) :
    checkOld C H vcfg cof cofInv t' ownId m = .ok (.fail decommitMsg [m.idx]) := by
  simp only [checkOld, h]
  rw [if_pos (by simp [hl])]

theorem checkOld_unflatten_none (flat : List Int)
    (h : decommitWith H m.commitment (m.decommitment.map Int.ofNat) = .ok (some flat))
    (hl : flat.length = (t' + 1) * 2) (hu : C.unflatten (flat.map Int.toNat) = none) :
    checkOld C H vcfg cof cofInv t' ownId m = .ok (.fail "unflatten" [m.idx]) := by
  simp only [checkOld, h, hu]
  rw [if_neg (by simp [hl])]

/-- what `checkOld` does once the commitment points are decoded and cleared -/
def coTail (vs : List ECPoint) : Outcome (Verdict (List ECPoint)) :=
  Vss.verify C vcfg t' ⟨t', ownId, m.share⟩ vs >>= fun b =>
    if !b then .ok (.fail shareMsg [m.idx]) else .ok (.pass vs)

theorem checkOld_points (flat : List Int) (pts : List ECPoint)
    (h : decommitWith H m.commitment (m.decommitment.map Int.ofNat) = .ok (some flat))
    (hl : flat.length = (t' + 1) * 2) (hu : C.unflatten (flat.map Int.toNat) = some pts) :
    checkOld C H vcfg cof cofInv t' ownId m =
      pts.mapM (clear C cof cofInv) >>= coTail C vcfg t' ownId m := by
  simp only [checkOld, h, hu]
  rw [if_neg (by simp [hl])]
  rfl

theorem coTail_true (vs : List ECPoint)
    (hv : Vss.verify C vcfg t' ⟨t', ownId, m.share⟩ vs = .ok true) :
    coTail C vcfg t' ownId m vs = .ok (.pass vs) := by
  unfold coTail; rw [hv]; rfl

theorem coTail_false (vs : List ECPoint)
    (hv : Vss.verify C vcfg t' ⟨t', ownId, m.share⟩ vs = .ok false) :
    coTail C vcfg t' ownId m vs = .ok (.fail shareMsg [m.idx]) := by
  unfold coTail; rw [hv]; rfl

/-- every verdict of `coTail` -/
theorem coTail_ok_inv (vs : List ECPoint) (v : Verdict (List ECPoint))
    (h : coTail C vcfg t' ownId m vs = .ok v) :
    (Vss.verify C vcfg t' ⟨t', ownId, m.share⟩ vs = .ok true ∧ v = .pass vs) ∨
    (Vss.verify C vcfg t' ⟨t', ownId, m.share⟩ vs = .ok false ∧ v = .fail shareMsg [m.idx]) := by
  unfold coTail at h
  cases hv : Vss.verify C vcfg t' ⟨t', ownId, m.share⟩ vs with
  | err e => rw [hv] at h; cases h
  | panic e => rw [hv] at h; cases h
  | ok b =>
    rw [hv] at h
    simp only [Outcome.ok_bind] at h
    cases b with
    | true =>
      simp only [Bool.not_true, Bool.false_eq_true, if_false] at h
      injection h with h
      exact Or.inl ⟨rfl, h.symm⟩
    | false =>
      simp only [Bool.not_false, if_true] at h
      injection h with h
      exact Or.inr ⟨rfl, h.symm⟩

/-- everything that was checked on an old member's material when it passes -/
def Passes (vs : List ECPoint) : Prop :=
  ∃ flat pts, decommitWith H m.commitment (m.decommitment.map Int.ofNat) = .ok (some flat) ∧
    flat.length = (t' + 1) * 2 ∧
    C.unflatten (flat.map Int.toNat) = some pts ∧
    pts.mapM (clear C cof cofInv) = .ok vs ∧
    Vss.verify C vcfg t' ⟨t', ownId, m.share⟩ vs = .ok true

/-- every way the material of an old member can be rejected -/
inductive Rejected : String → Prop
  | decommit (h : decommitWith H m.commitment (m.decommitment.map Int.ofNat) = .ok none) : Rejected decommitMsg
  | length (flat : List Int)
      (h : decommitWith H m.commitment (m.decommitment.map Int.ofNat) = .ok (some flat))
      (hl : flat.length ≠ (t' + 1) * 2) : Rejected decommitMsg
  | unflatten (flat : List Int)
      (h : decommitWith H m.commitment (m.decommitment.map Int.ofNat) = .ok (some flat))
      (hl : flat.length = (t' + 1) * 2) (hu : C.unflatten (flat.map Int.toNat) = none) : Rejected "unflatten"
  | share (flat : List Int) (pts vs : List ECPoint)
      (h : decommitWith H m.commitment (m.decommitment.map Int.ofNat) = .ok (some flat))
      (hl : flat.length = (t' + 1) * 2) (hu : C.unflatten (flat.map Int.toNat) = some pts)
      (hm : pts.mapM (clear C cof cofInv) = .ok vs)
      (hv : Vss.verify C vcfg t' ⟨t', ownId, m.share⟩ vs = .ok false) : Rejected shareMsg

/-- **every verdict of `checkOld`**: a pass with everything checked, or a rejection naming the sender -/
theorem checkOld_ok_inv (v : Verdict (List ECPoint))
    (h : checkOld C H vcfg cof cofInv t' ownId m = .ok v) :
    (∃ vs, v = .pass vs ∧ Passes C H vcfg cof cofInv t' ownId m vs) ∨
    (∃ why, v = .fail why [m.idx] ∧ Rejected C H vcfg cof cofInv t' ownId m why) := by
  cases hd : decommitWith H m.commitment (m.decommitment.map Int.ofNat) with
  | err e => rw [checkOld_decommit_err C H vcfg cof cofInv t' ownId m e hd] at h; cases h
  | panic e => rw [checkOld_decommit_panic C H vcfg cof cofInv t' ownId m e hd] at h; cases h
  | ok o =>
    cases o with
    | none =>
      rw [checkOld_decommit_none C H vcfg cof cofInv t' ownId m hd] at h
      injection h with h
      exact Or.inr ⟨_, h.symm, .decommit hd⟩
    | some flat =>
      by_cases hl : flat.length = (t' + 1) * 2
      · cases hu : C.unflatten (flat.map Int.toNat) with
        | none =>
          rw [checkOld_unflatten_none C H vcfg cof cofInv t' ownId m flat hd hl hu] at h
          injection h with h
          exact Or.inr ⟨_, h.symm, .unflatten flat hd hl hu⟩
        | some pts =>
          rw [checkOld_points C H vcfg cof cofInv t' ownId m flat pts hd hl hu] at h
          cases hm : pts.mapM (clear C cof cofInv) with
          | err e => rw [hm] at h; cases h
          | panic e => rw [hm] at h; cases h
          | ok vs =>
            rw [hm] at h
            simp only [Outcome.ok_bind] at h
            rcases coTail_ok_inv C vcfg t' ownId m vs v h with ⟨hv, rfl⟩ | ⟨hv, rfl⟩
            · exact Or.inl ⟨vs, rfl, flat, pts, hd, hl, hu, hm, hv⟩
            · exact Or.inr ⟨_, rfl, .share flat pts vs hd hl hu hm hv⟩
      · rw [checkOld_wrong_length C H vcfg cof cofInv t' ownId m flat hd hl] at h
        injection h with h
        exact Or.inr ⟨_, h.symm, .length flat hd hl⟩

theorem checkOld_of_passes (vs : List ECPoint) (hp : Passes C H vcfg cof cofInv t' ownId m vs) :
    checkOld C H vcfg cof cofInv t' ownId m = .ok (.pass vs) := by
  obtain ⟨flat, pts, hd, hl, hu, hm, hv⟩ := hp
  rw [checkOld_points C H vcfg cof cofInv t' ownId m flat pts hd hl hu, hm]
  exact coTail_true C vcfg t' ownId m vs hv

theorem checkOld_of_rejected (why : String) (hr : Rejected C H vcfg cof cofInv t' ownId m why) :
    checkOld C H vcfg cof cofInv t' ownId m = .ok (.fail why [m.idx]) := by
  cases hr with
  | decommit h => exact checkOld_decommit_none C H vcfg cof cofInv t' ownId m h
  | length flat h hl => exact checkOld_wrong_length C H vcfg cof cofInv t' ownId m flat h hl
  | unflatten flat h hl hu => exact checkOld_unflatten_none C H vcfg cof cofInv t' ownId m flat h hl hu
  | share flat pts vs h hl hu hm hv =>
    rw [checkOld_points C H vcfg cof cofInv t' ownId m flat pts h hl hu, hm]
    exact coTail_false C vcfg t' ownId m vs hv

/-- **exact acceptance condition** -/
theorem checkOld_pass_iff (vs : List ECPoint) :
    checkOld C H vcfg cof cofInv t' ownId m = .ok (.pass vs) ↔ Passes C H vcfg cof cofInv t' ownId m vs := by
  constructor
  · intro h
    rcases checkOld_ok_inv C H vcfg cof cofInv t' ownId m _ h with ⟨vs', he, hp⟩ | ⟨_, he, _⟩
    · injection he with he; subst he; exact hp
    · cases he
  · exact checkOld_of_passes C H vcfg cof cofInv t' ownId m vs

/-- **exact rejection condition**, and the culprit is the sender -/
theorem checkOld_fail_iff (why : String) (cs : List Nat) :
    checkOld C H vcfg cof cofInv t' ownId m = .ok (.fail why cs) ↔
      cs = [m.idx] ∧ Rejected C H vcfg cof cofInv t' ownId m why := by
  constructor
  · intro h
    rcases checkOld_ok_inv C H vcfg cof cofInv t' ownId m _ h with ⟨_, he, _⟩ | ⟨why', he, hr⟩
    · cases he
    · injection he with h1 h2; subst h1; exact ⟨h2, hr⟩
  · rintro ⟨rfl, hr⟩
    exact checkOld_of_rejected C H vcfg cof cofInv t' ownId m why hr

/-- a passing old member's points: `t' + 1` of them, all on the curve (`Vss.verify` accepted them) -/
theorem passes_shape (hC : C.Lawful) (vs : List ECPoint) (hp : Passes C H vcfg cof cofInv t' ownId m vs) :
    vs.length = t' + 1 ∧ ∀ v ∈ vs, C.ecIsOnCurve v = true := by
  obtain ⟨_, _, _, _, _, _, hv⟩ := hp
  obtain ⟨V, hV, hVl, _, _⟩ := AlgL.verify_true_feldman hC vcfg t' _ vs hv
  exact ⟨by rw [hV.length_eq, hVl], AlgL.forall₂_lift_onCurve hV⟩

/-- **the check always returns a verdict** on the repaired `Vss.verify`, for a non-empty de-commitment -/
theorem checkOld_total (hC : C.Lawful)
    (hcof : C.toAffine C.zero = none → ∀ p, C.smul C.q p = C.zero)
    (hnz : C.toAffine C.zero = none → cof % C.q ≠ 0 ∧ cofInv % C.q ≠ 0)
    (hd : m.decommitment ≠ []) :
    ∃ v, checkOld C H ⟨true⟩ cof cofInv t' ownId m = .ok v := by
  have hd' : m.decommitment.map Int.ofNat ≠ [] := by
    intro h; exact hd (List.map_eq_nil_iff.1 h)
  cases hdc : decommitWith H m.commitment (m.decommitment.map Int.ofNat) with
  | err e => exact absurd hdc (decommit_no_err H _ _ e)
  | panic e =>
    rcases decommit_cases H m.commitment _ hd' with h | h <;> rw [h] at hdc <;> cases hdc
  | ok o =>
    cases o with
    | none => exact ⟨_, checkOld_decommit_none C H _ cof cofInv t' ownId m hdc⟩
    | some flat =>
      by_cases hl : flat.length = (t' + 1) * 2
      · cases hu : C.unflatten (flat.map Int.toNat) with
        | none => exact ⟨_, checkOld_unflatten_none C H _ cof cofInv t' ownId m flat hdc hl hu⟩
        | some pts =>
          rw [checkOld_points C H _ cof cofInv t' ownId m flat pts hdc hl hu]
          have hon := ((C17L.unflatten_eq_some_iff C _ _).1 hu).2
          obtain ⟨vs, hvs⟩ := mapM_clear_total hC hcof hnz hon
          rw [hvs]
          simp only [Outcome.ok_bind]
          have hvon := mapM_clear_onCurve hC hvs
          obtain ⟨b, hb⟩ := Vss.verify_no_panic hC hcof t' ⟨t', ownId, m.share⟩ vs hvon
          have hb' : Vss.verify C ⟨true⟩ t' ⟨t', ownId, m.share⟩ vs = .ok b := hb
          cases b with
          | true => exact ⟨_, coTail_true C _ t' ownId m vs hb'⟩
          | false => exact ⟨_, coTail_false C _ t' ownId m vs hb'⟩
      · exact ⟨_, checkOld_wrong_length C H _ cof cofInv t' ownId m flat hdc hl⟩

end checkOld

/-! ### round 4: the loop over the old members -/
section loop
variable {P : Type} (C : Curve P) (H : HashFn)
variable (vcfg : Vss.VerifyCfg) (cof cofInv t' ownId : Nat)

theorem r4go_nil (acc : List (List ECPoint)) (xi : Nat) :
    round4.go C H vcfg cof cofInv t' ownId acc xi [] = .ok (.pass (acc.reverse, xi)) := by
  rw [round4.go]

theorem r4go_cons (acc : List (List ECPoint)) (xi : Nat) (m : OldMsg) (rest : List OldMsg) :
    round4.go C H vcfg cof cofInv t' ownId acc xi (m :: rest) =
      checkOld C H vcfg cof cofInv t' ownId m >>= fun v =>
        match v with
        | .fail why cs => .ok (.fail why cs)
        | .pass vs => round4.go C H vcfg cof cofInv t' ownId (vs :: acc) (xi + m.share) rest := by
  rw [round4.go]
  rfl

theorem r4go_cons_pass (acc : List (List ECPoint)) (xi : Nat) (m : OldMsg) (rest : List OldMsg)
    (vs : List ECPoint) (h : checkOld C H vcfg cof cofInv t' ownId m = .ok (.pass vs)) :
    round4.go C H vcfg cof cofInv t' ownId acc xi (m :: rest) =
      round4.go C H vcfg cof cofInv t' ownId (vs :: acc) (xi + m.share) rest := by
  rw [r4go_cons, h]; rfl

theorem r4go_cons_fail (acc : List (List ECPoint)) (xi : Nat) (m : OldMsg) (rest : List OldMsg)
    (why : String) (cs : List Nat) (h : checkOld C H vcfg cof cofInv t' ownId m = .ok (.fail why cs)) :
    round4.go C H vcfg cof cofInv t' ownId acc xi (m :: rest) = .ok (.fail why cs) := by
  rw [r4go_cons, h]; rfl

/-- a result of the loop on `m :: rest` means the check of `m` returned a verdict -/
theorem r4go_cons_ok_inv (acc : List (List ECPoint)) (xi : Nat) (m : OldMsg) (rest : List OldMsg)
    (r : Verdict (List (List ECPoint) × Nat))
    (h : round4.go C H vcfg cof cofInv t' ownId acc xi (m :: rest) = .ok r) :
    (∃ why cs, checkOld C H vcfg cof cofInv t' ownId m = .ok (.fail why cs) ∧ r = .fail why cs) ∨
    (∃ vs, checkOld C H vcfg cof cofInv t' ownId m = .ok (.pass vs) ∧
      round4.go C H vcfg cof cofInv t' ownId (vs :: acc) (xi + m.share) rest = .ok r) := by
  rw [r4go_cons] at h
  cases hc : checkOld C H vcfg cof cofInv t' ownId m with
  | err e => rw [hc] at h; cases h
  | panic e => rw [hc] at h; cases h
  | ok v =>
    rw [hc] at h
    simp only [Outcome.ok_bind] at h
    cases v with
    | pass vs => exact Or.inr ⟨vs, rfl, h⟩
    | fail why cs =>
      injection h with h
      exact Or.inl ⟨why, cs, rfl, h.symm⟩

/-- **the loop passes iff every old member passes**; the rows are the accepted points in message order and
the share is the plain sum -/
theorem r4go_pass_iff : ∀ (msgs : List OldMsg) (acc : List (List ECPoint)) (xi : Nat)
    (rows : List (List ECPoint)) (x : Nat),
    round4.go C H vcfg cof cofInv t' ownId acc xi msgs = .ok (.pass (rows, x)) ↔
      ∃ vss, List.Forall₂ (fun m vs => checkOld C H vcfg cof cofInv t' ownId m = .ok (.pass vs)) msgs vss ∧
        rows = acc.reverse ++ vss ∧ x = xi + (msgs.map (·.share)).sum := by
  intro msgs
  induction msgs with
  | nil =>
    intro acc xi rows x
    rw [r4go_nil]
    constructor
    · intro h
      injection h with h
      injection h with h
      injection h with h1 h2
      exact ⟨[], List.Forall₂.nil, by rw [← h1, List.append_nil], by rw [← h2]; rfl⟩
    · rintro ⟨vss, hf, h1, h2⟩
      cases hf
      rw [h1, h2, List.append_nil]
      rfl
  | cons m rest ih =>
    intro acc xi rows x
    constructor
    · intro h
      rcases r4go_cons_ok_inv C H vcfg cof cofInv t' ownId acc xi m rest _ h with
        ⟨_, _, _, h2⟩ | ⟨vs, h1, h2⟩
      · cases h2
      · obtain ⟨vss, hf, hr, hx⟩ := (ih _ _ _ _).1 h2
        refine ⟨vs :: vss, List.Forall₂.cons h1 hf, ?_, ?_⟩
        · rw [hr, List.reverse_cons, List.append_assoc]; rfl
        · rw [hx, List.map_cons, List.sum_cons]; omega
    · rintro ⟨vss, hf, hr, hx⟩
      cases hf with
      | @cons _ vs _ vss' h1 hf' =>
        rw [r4go_cons_pass C H vcfg cof cofInv t' ownId acc xi m rest vs h1]
        refine (ih _ _ _ _).2 ⟨vss', hf', ?_, ?_⟩
        · rw [hr, List.reverse_cons, List.append_assoc]; rfl
        · rw [hx, List.map_cons, List.sum_cons]; omega

/-- **the loop reports the first old member (in message order) whose check fails** -/
theorem r4go_fail_iff : ∀ (msgs : List OldMsg) (acc : List (List ECPoint)) (xi : Nat) (why : String)
    (cs : List Nat),
    round4.go C H vcfg cof cofInv t' ownId acc xi msgs = .ok (.fail why cs) ↔
      ∃ pre m post, msgs = pre ++ m :: post ∧
        (∀ p ∈ pre, ∃ vs, checkOld C H vcfg cof cofInv t' ownId p = .ok (.pass vs)) ∧
        checkOld C H vcfg cof cofInv t' ownId m = .ok (.fail why cs) := by
  intro msgs
  induction msgs with
  | nil =>
    intro acc xi why cs
    rw [r4go_nil]
    constructor
    · intro h; cases h
    · rintro ⟨pre, m, post, h, _⟩
      cases pre <;> cases h
  | cons q rest ih =>
    intro acc xi why cs
    constructor
    · intro h
      rcases r4go_cons_ok_inv C H vcfg cof cofInv t' ownId acc xi q rest _ h with
        ⟨why', cs', h1, h2⟩ | ⟨vs, h1, h2⟩
      · injection h2 with h3 h4
        subst h3 h4
        exact ⟨[], q, rest, rfl, fun _ hp => (by cases hp), h1⟩
      · obtain ⟨pre, m, post, hs, hpre, hbad⟩ := (ih _ _ _ _).1 h2
        refine ⟨q :: pre, m, post, by rw [hs]; rfl, ?_, hbad⟩
        intro p hp
        rcases List.mem_cons.1 hp with rfl | hp
        · exact ⟨vs, h1⟩
        · exact hpre p hp
    · rintro ⟨pre, m, post, hs, hpre, hbad⟩
      cases pre with
      | nil =>
        simp only [List.nil_append] at hs
        injection hs with h1 h2
        subst h1
        exact r4go_cons_fail C H vcfg cof cofInv t' ownId acc xi q rest why cs hbad
      | cons q' pre =>
        simp only [List.cons_append] at hs
        injection hs with h1 h2
        subst h1
        obtain ⟨vs, hvs⟩ := hpre q (List.mem_cons_self ..)
        rw [r4go_cons_pass C H vcfg cof cofInv t' ownId acc xi q rest vs hvs]
        exact (ih _ _ _ _).2 ⟨pre, m, post, h2, fun p hp => hpre p (List.mem_cons_of_mem _ hp), hbad⟩

/-- the loop returns when every check does -/
theorem r4go_total : ∀ (msgs : List OldMsg) (acc : List (List ECPoint)) (xi : Nat),
    (∀ m ∈ msgs, ∃ v, checkOld C H vcfg cof cofInv t' ownId m = .ok v) →
    ∃ r, round4.go C H vcfg cof cofInv t' ownId acc xi msgs = .ok r := by
  intro msgs
  induction msgs with
  | nil => intro acc xi _; exact ⟨_, r4go_nil C H vcfg cof cofInv t' ownId acc xi⟩
  | cons m rest ih =>
    intro acc xi h
    obtain ⟨v, hv⟩ := h m (List.mem_cons_self ..)
    cases v with
    | fail why cs => exact ⟨_, r4go_cons_fail C H vcfg cof cofInv t' ownId acc xi m rest why cs hv⟩
    | pass vs =>
      rw [r4go_cons_pass C H vcfg cof cofInv t' ownId acc xi m rest vs hv]
      exact ih _ _ fun m' hm' => h m' (List.mem_cons_of_mem _ hm')

/-- `Forall₂` over the messages gives the per-message statement -/
theorem forall₂_mem_left {α β : Type} {R : α → β → Prop} {l1 : List α} {l2 : List β}
    (h : List.Forall₂ R l1 l2) : ∀ a ∈ l1, ∃ b ∈ l2, R a b := by
  induction h with
  | nil => intro a ha; cases ha
  | cons h1 _ ih =>
    intro a ha
    rcases List.mem_cons.1 ha with rfl | ha
    · exact ⟨_, List.mem_cons_self .., h1⟩
    · obtain ⟨b, hb, hr⟩ := ih a ha
      exact ⟨b, List.mem_cons_of_mem _ hb, hr⟩

theorem forall₂_mem_right {α β : Type} {R : α → β → Prop} {l1 : List α} {l2 : List β}
    (h : List.Forall₂ R l1 l2) : ∀ b ∈ l2, ∃ a ∈ l1, R a b := by
  induction h with
  | nil => intro a ha; cases ha
  | cons h1 _ ih =>
    intro b hb
    rcases List.mem_cons.1 hb with rfl | hb
    · exact ⟨_, List.mem_cons_self .., h1⟩
    · obtain ⟨a, ha, hr⟩ := ih b hb
      exact ⟨a, List.mem_cons_of_mem _ ha, hr⟩

theorem forall₂_mem_zip {α β : Type} {R : α → β → Prop} {l1 : List α} {l2 : List β}
    (h : List.Forall₂ R l1 l2) : ∀ p ∈ l1.zip l2, R p.1 p.2 := by
  induction h with
  | nil => intro p hp; cases hp
  | cons h1 _ ih =>
    intro p hp
    rw [List.zip_cons_cons] at hp
    rcases List.mem_cons.1 hp with rfl | hp
    · exact h1
    · exact ih p hp

theorem forall₂_imp {α β : Type} {R S : α → β → Prop} (hrs : ∀ a b, R a b → S a b) {l1 : List α} {l2 : List β}
    (h : List.Forall₂ R l1 l2) : List.Forall₂ S l1 l2 := by
  induction h with
  | nil => exact List.Forall₂.nil
  | cons h1 _ ih => exact List.Forall₂.cons (hrs _ _ h1) ih

/-- when every message passes there is the list of the accepted rows -/
theorem forall₂_of_all_pass : ∀ (msgs : List OldMsg),
    (∀ m ∈ msgs, ∃ vs, checkOld C H vcfg cof cofInv t' ownId m = .ok (.pass vs)) →
    ∃ rows, List.Forall₂ (fun m vs => checkOld C H vcfg cof cofInv t' ownId m = .ok (.pass vs)) msgs rows := by
  intro msgs
  induction msgs with
  | nil => intro _; exact ⟨[], List.Forall₂.nil⟩
  | cons m rest ih =>
    intro h
    obtain ⟨vs, hvs⟩ := h m (List.mem_cons_self ..)
    obtain ⟨rows, hr⟩ := ih fun m' hm' => h m' (List.mem_cons_of_mem _ hm')
    exact ⟨vs :: rows, List.Forall₂.cons hvs hr⟩

/-! ### round 4 as a whole -/

abbrev addMsg : String := "Vc[c].Add(vjc[j][c])"
abbrev v0Msg : String := "assertion failed: V_0 != y"

/-- what `round4` does with the result of the loop -/
def r4Tail (ownIdx : Nat) (key : ECPoint) : Verdict (List (List ECPoint) × Nat) → Outcome (Verdict Ack)
  | .fail why cs => .ok (.fail why cs)
  | .pass (rows, xi) =>
    match sumColumns C rows with
    | none => .ok (.fail addMsg [])
    | some vc =>
      match vc.head? with
      | none => .ok (.fail addMsg [])
      | some v0 => if v0 != key then .ok (.fail v0Msg [ownIdx]) else .ok (.pass ⟨xi, vc⟩)

theorem round4_eq (ownIdx : Nat) (key : ECPoint) (msgs : List OldMsg) :
    round4 C H vcfg cof cofInv t' ownId ownIdx key msgs =
      round4.go C H vcfg cof cofInv t' ownId [] 0 msgs >>= r4Tail C ownIdx key := by
  unfold round4
  congr 1

theorem r4Tail_pass (ownIdx : Nat) (key : ECPoint) (rows : List (List ECPoint)) (xi : Nat) :
    r4Tail C ownIdx key (.pass (rows, xi)) =
      match sumColumns C rows with
      | none => .ok (.fail addMsg [])
      | some vc =>
        match vc.head? with
        | none => .ok (.fail addMsg [])
        | some v0 => if v0 != key then .ok (.fail v0Msg [ownIdx]) else .ok (.pass ⟨xi, vc⟩) := rfl

/-- every verdict of the tail on a passing loop -/
theorem r4Tail_pass_inv (ownIdx : Nat) (key : ECPoint) (rows : List (List ECPoint)) (xi : Nat)
    (v : Verdict Ack) (h : r4Tail C ownIdx key (.pass (rows, xi)) = .ok v) :
    (∃ vc, sumColumns C rows = some vc ∧ vc.head? = some key ∧ v = .pass ⟨xi, vc⟩) ∨
    ((sumColumns C rows = none ∨ ∃ vc, sumColumns C rows = some vc ∧ vc.head? = none) ∧
      v = .fail addMsg []) ∨
    (∃ vc v0, sumColumns C rows = some vc ∧ vc.head? = some v0 ∧ v0 ≠ key ∧ v = .fail v0Msg [ownIdx]) := by
  rw [r4Tail_pass] at h
  cases hs : sumColumns C rows with
  | none =>
    rw [hs] at h
    injection h with h
    exact Or.inr (Or.inl ⟨Or.inl rfl, h.symm⟩)
  | some vc =>
    rw [hs] at h
    simp only at h
    cases hh : vc.head? with
    | none =>
      rw [hh] at h
      injection h with h
      exact Or.inr (Or.inl ⟨Or.inr ⟨vc, rfl, hh⟩, h.symm⟩)
    | some v0 =>
      rw [hh] at h
      simp only at h
      by_cases hk : v0 = key
      · subst hk
        simp only [bne_self_eq_false, Bool.false_eq_true, if_false] at h
        injection h with h
        exact Or.inl ⟨vc, rfl, hh, h.symm⟩
      · have hb : (v0 != key) = true := by simp [hk]
        rw [if_pos hb] at h
        injection h with h
        exact Or.inr (Or.inr ⟨vc, v0, rfl, hh, hk, h.symm⟩)

/-- **exact acknowledgement condition of round 4** -/
theorem round4_pass_iff (ownIdx : Nat) (key : ECPoint) (msgs : List OldMsg) (ack : Ack) :
    round4 C H vcfg cof cofInv t' ownId ownIdx key msgs = .ok (.pass ack) ↔
      ∃ rows, List.Forall₂ (fun m vs => checkOld C H vcfg cof cofInv t' ownId m = .ok (.pass vs)) msgs rows ∧
        ack.xi = (msgs.map (·.share)).sum ∧ sumColumns C rows = some ack.vc ∧ ack.vc.head? = some key := by
  rw [round4_eq]
  constructor
  · intro h
    cases hg : round4.go C H vcfg cof cofInv t' ownId [] 0 msgs with
    | err e => rw [hg] at h; cases h
    | panic e => rw [hg] at h; cases h
    | ok r =>
      rw [hg] at h
      simp only [Outcome.ok_bind] at h
      cases r with
      | fail why cs => cases h
      | pass p =>
        obtain ⟨rows, xi⟩ := p
        obtain ⟨vss, hf, hr, hx⟩ := (r4go_pass_iff C H vcfg cof cofInv t' ownId msgs [] 0 rows xi).1 hg
        simp only [List.reverse_nil, List.nil_append] at hr
        subst hr
        rcases r4Tail_pass_inv C ownIdx key rows xi _ h with ⟨vc, h1, h2, h3⟩ | ⟨_, h3⟩ | ⟨_, _, _, _, _, h3⟩
        · injection h3 with h3
          subst h3
          exact ⟨rows, hf, by simp only; omega, h1, h2⟩
        · cases h3
        · cases h3
  · rintro ⟨rows, hf, hx, hs, hh⟩
    have hg := (r4go_pass_iff C H vcfg cof cofInv t' ownId msgs [] 0 rows ack.xi).2
      ⟨rows, hf, by simp, by omega⟩
    rw [hg]
    simp only [Outcome.ok_bind, r4Tail_pass, hs, hh, bne_self_eq_false, Bool.false_eq_true, if_false]

/-- **every failure of round 4**: the first old member (in message order) whose material is rejected is named;
or the column sums are not representable (nobody is named); or `V_0 ≠ key` (the reporter names itself) -/
theorem round4_fail_iff (ownIdx : Nat) (key : ECPoint) (msgs : List OldMsg) (why : String) (cs : List Nat) :
    round4 C H vcfg cof cofInv t' ownId ownIdx key msgs = .ok (.fail why cs) ↔
      (∃ pre m post, msgs = pre ++ m :: post ∧
        (∀ p ∈ pre, ∃ vs, checkOld C H vcfg cof cofInv t' ownId p = .ok (.pass vs)) ∧
        checkOld C H vcfg cof cofInv t' ownId m = .ok (.fail why cs)) ∨
      (∃ rows, List.Forall₂ (fun m vs => checkOld C H vcfg cof cofInv t' ownId m = .ok (.pass vs)) msgs rows ∧
        ((why = addMsg ∧ cs = [] ∧
            (sumColumns C rows = none ∨ ∃ vc, sumColumns C rows = some vc ∧ vc.head? = none)) ∨
          (why = v0Msg ∧ cs = [ownIdx] ∧
            ∃ vc v0, sumColumns C rows = some vc ∧ vc.head? = some v0 ∧ v0 ≠ key))) := by
  rw [round4_eq]
  constructor
  · intro h
    cases hg : round4.go C H vcfg cof cofInv t' ownId [] 0 msgs with
    | err e => rw [hg] at h; cases h
    | panic e => rw [hg] at h; cases h
    | ok r =>
      rw [hg] at h
      simp only [Outcome.ok_bind] at h
      cases r with
      | fail why' cs' =>
        injection h with h
        injection h with h1 h2
        subst h1 h2
        exact Or.inl ((r4go_fail_iff C H vcfg cof cofInv t' ownId msgs [] 0 why' cs').1 hg)
      | pass p =>
        obtain ⟨rows, xi⟩ := p
        obtain ⟨vss, hf, hr, hx⟩ := (r4go_pass_iff C H vcfg cof cofInv t' ownId msgs [] 0 rows xi).1 hg
        simp only [List.reverse_nil, List.nil_append] at hr
        subst hr
        right
        refine ⟨rows, hf, ?_⟩
        rcases r4Tail_pass_inv C ownIdx key rows xi _ h with ⟨_, _, _, h3⟩ | ⟨h1, h3⟩ | ⟨vc, v0, h1, h2, hk, h3⟩
        · cases h3
        · injection h3 with h3 h4
          exact Or.inl ⟨h3, h4, h1⟩
        · injection h3 with h3 h4
          exact Or.inr ⟨h3, h4, vc, v0, h1, h2, hk⟩
  · rintro (⟨pre, m, post, hs, hpre, hbad⟩ | ⟨rows, hf, hcase⟩)
    · rw [(r4go_fail_iff C H vcfg cof cofInv t' ownId msgs [] 0 why cs).2 ⟨pre, m, post, hs, hpre, hbad⟩]
      rfl
    · have hg := (r4go_pass_iff C H vcfg cof cofInv t' ownId msgs [] 0 rows (0 + (msgs.map (·.share)).sum)).2
        ⟨rows, hf, by simp, rfl⟩
      rw [hg]
      rcases hcase with ⟨rfl, rfl, hs | ⟨vc, hs, hh⟩⟩ | ⟨rfl, rfl, vc, v0, hs, hh, hk⟩
      · simp only [Outcome.ok_bind, r4Tail_pass, hs]
      · simp only [Outcome.ok_bind, r4Tail_pass, hs, hh]
      · have hb : (v0 != key) = true := by simp [hk]
        simp only [Outcome.ok_bind, r4Tail_pass, hs, hh, hb, if_true]

/-- round 4 returns when every check does -/
theorem round4_total (ownIdx : Nat) (key : ECPoint) (msgs : List OldMsg)
    (h : ∀ m ∈ msgs, ∃ v, checkOld C H vcfg cof cofInv t' ownId m = .ok v) :
    ∃ v, round4 C H vcfg cof cofInv t' ownId ownIdx key msgs = .ok v := by
  obtain ⟨r, hr⟩ := r4go_total C H vcfg cof cofInv t' ownId msgs [] 0 h
  rw [round4_eq, hr]
  simp only [Outcome.ok_bind]
  cases r with
  | fail why cs => exact ⟨_, rfl⟩
  | pass p =>
    obtain ⟨rows, xi⟩ := p
    rw [r4Tail_pass]
    cases sumColumns C rows with
    | none => exact ⟨_, rfl⟩
    | some vc =>
      simp only
      cases vc.head? with
      | none => exact ⟨_, rfl⟩
      | some v0 =>
        simp only
        split <;> exact ⟨_, rfl⟩

theorem newMember_eq (em : Bool) (ownIdx : Nat) (msgs : List OldMsg) :
    newMember C H em vcfg cof cofInv t' ownId ownIdx msgs =
      match round1Key C em msgs with
      | .fail why cs => .ok (.fail why cs)
      | .pass key => round4 C H vcfg cof cofInv t' ownId ownIdx key msgs := rfl

end loop

/-! ### the column sums in the group -/
section columns
open AlgL
variable {P : Type} {C : Curve P}

/-- the step of `sumColumns`: add a row to the running sums -/
def addRow (C : Curve P) (acc row : List ECPoint) : Option (List ECPoint) :=
  if acc.length != row.length then none else (acc.zip row).mapM fun (a, b) =>
    match C.ecAdd a b with
    | .ok p => some p
    | _ => none

theorem sumColumns_cons (vs : List ECPoint) (rest : List (List ECPoint)) :
    sumColumns C (vs :: rest) = rest.foldlM (addRow C) vs := rfl

/-- the point a list of coordinates denotes at column `c` -/
abbrev col (C : Curve P) (row : List ECPoint) (c : Nat) : P := (row.map (liftD C)).getD c C.zero

theorem col_nil (c : Nat) : col C [] c = C.zero := by simp [col]
theorem col_cons_zero (a : ECPoint) (l : List ECPoint) : col C (a :: l) 0 = liftD C a := by simp [col]
theorem col_cons_succ (a : ECPoint) (l : List ECPoint) (c : Nat) : col C (a :: l) (c + 1) = col C l c := by
  simp [col]

theorem zipAdd_some (hC : C.Lawful) : ∀ (acc row r : List ECPoint), acc.length = row.length →
    ((acc.zip row).mapM fun (x : ECPoint × ECPoint) =>
      match C.ecAdd x.1 x.2 with
      | .ok p => some p
      | _ => none) = some r →
    r.length = acc.length ∧ (∀ v ∈ r, C.ecIsOnCurve v = true) ∧
      ∀ c, col C r c = C.add (col C acc c) (col C row c) := by
  intro acc
  induction acc with
  | nil =>
    intro row r hl h
    cases row with
    | cons b row => simp at hl
    | nil =>
      simp only [List.zip_nil_left, List.mapM_nil, Option.pure_def, Option.some.injEq] at h
      subst h
      refine ⟨rfl, fun _ hv => (by cases hv), fun c => ?_⟩
      rw [col_nil, hC.zero_add]
  | cons a acc ih =>
    intro row r hl h
    cases row with
    | nil => simp at hl
    | cons b row =>
      rw [List.zip_cons_cons, List.mapM_cons] at h
      cases hab : C.ecAdd a b with
      | err e => simp only [hab, Option.bind_eq_bind, Option.bind_none, reduceCtorEq] at h
      | panic e => simp only [hab, Option.bind_eq_bind, Option.bind_none, reduceCtorEq] at h
      | ok p =>
        simp only [hab, Option.bind_eq_bind, Option.bind_some] at h
        cases hr : ((acc.zip row).mapM fun (x : ECPoint × ECPoint) =>
            match C.ecAdd x.1 x.2 with
            | .ok p => some p
            | _ => none) with
        | none => rw [hr] at h; simp at h
        | some r' =>
          rw [hr] at h
          simp only [Option.bind_some, Option.pure_def, Option.some.injEq] at h
          subst h
          obtain ⟨h1, h2, h3⟩ := ih row r' (by simpa using hl) hr
          obtain ⟨pa, pb, ha, hb, hp⟩ := (C17L.ecAdd_ok_iff C a b p).1 hab
          have hlp : C.lift p = some (C.add pa pb) := Vss.lift_of_toAffine hC hp
          refine ⟨by simp [h1], ?_, ?_⟩
          · intro v hv
            rcases List.mem_cons.1 hv with rfl | hv
            · unfold Curve.ecIsOnCurve; unfold Curve.lift at hlp; rw [hlp]; rfl
            · exact h2 v hv
          · intro c
            cases c with
            | zero =>
              rw [col_cons_zero, col_cons_zero, col_cons_zero]
              unfold liftD
              rw [hlp, ha, hb]
              rfl
            | succ c =>
              rw [col_cons_succ, col_cons_succ, col_cons_succ]
              exact h3 c

theorem addRow_some (hC : C.Lawful) (acc row r : List ECPoint) (h : addRow C acc row = some r) :
    acc.length = row.length ∧ r.length = acc.length ∧ (∀ v ∈ r, C.ecIsOnCurve v = true) ∧
      ∀ c, col C r c = C.add (col C acc c) (col C row c) := by
  unfold addRow at h
  by_cases hl : acc.length = row.length
  · rw [if_neg (by simp [hl])] at h
    exact ⟨hl, zipAdd_some hC acc row r hl h⟩
  · rw [if_pos (by simp [hl])] at h
    cases h

theorem foldl_addRow_some (hC : C.Lawful) : ∀ (rest : List (List ECPoint)) (acc vc : List ECPoint),
    rest.foldlM (addRow C) acc = some vc →
    vc.length = acc.length ∧ (∀ row ∈ rest, row.length = acc.length) ∧
      ((∀ v ∈ acc, C.ecIsOnCurve v = true) → ∀ v ∈ vc, C.ecIsOnCurve v = true) ∧
      ∀ c, col C vc c = C.add (col C acc c) (psum C (rest.map fun row => col C row c)) := by
  intro rest
  induction rest with
  | nil =>
    intro acc vc h
    simp only [List.foldlM_nil, Option.pure_def, Option.some.injEq] at h
    subst h
    refine ⟨rfl, fun _ hr => (by cases hr), fun h => h, fun c => ?_⟩
    rw [List.map_nil, psum_nil, hC.add_zero]
  | cons row rest ih =>
    intro acc vc h
    rw [List.foldlM_cons] at h
    cases ha : addRow C acc row with
    | none => rw [ha] at h; simp at h
    | some acc' =>
      rw [ha] at h
      simp only [Option.bind_eq_bind, Option.bind_some] at h
      obtain ⟨h1, h2, h3, h4⟩ := addRow_some hC acc row acc' ha
      obtain ⟨i1, i2, i3, i4⟩ := ih acc' vc h
      refine ⟨by rw [i1, h2], ?_, fun _ => i3 h3, fun c => ?_⟩
      · intro r hr
        rcases List.mem_cons.1 hr with rfl | hr
        · exact h1.symm
        · rw [i2 r hr, h2]
      · rw [i4 c, h4 c, List.map_cons, psum_cons, hC.add_assoc]

/-- **the column sums are the sums of the denoted points**, all rows have the length of the result -/
theorem sumColumns_some (hC : C.Lawful) (rows : List (List ECPoint)) (vc : List ECPoint)
    (h : sumColumns C rows = some vc) :
    rows ≠ [] ∧ (∀ row ∈ rows, row.length = vc.length) ∧
      ((∀ row ∈ rows, ∀ v ∈ row, C.ecIsOnCurve v = true) → ∀ v ∈ vc, C.ecIsOnCurve v = true) ∧
      ∀ c, col C vc c = psum C (rows.map fun row => col C row c) := by
  cases rows with
  | nil => cases h
  | cons vs rest =>
    rw [sumColumns_cons] at h
    obtain ⟨h1, h2, h3, h4⟩ := foldl_addRow_some hC rest vs vc h
    refine ⟨by simp, ?_, ?_, fun c => ?_⟩
    · intro row hr
      rcases List.mem_cons.1 hr with rfl | hr
      · exact h1.symm
      · rw [h2 row hr, h1]
    · intro hon
      exact h3 (hon vs (List.mem_cons_self ..))
    · rw [h4 c, List.map_cons, psum_cons]

/-- a single row is its own column sum -/
theorem sumColumns_single (vs : List ECPoint) : sumColumns C [vs] = some vs := rfl

theorem zip_map_fst {α β γ : Type} (f : α → γ) : ∀ (l1 : List α) (l2 : List β), l1.length = l2.length →
    (l1.zip l2).map (fun p => f p.1) = l1.map f
  | [], _, _ => by simp
  | a :: l1, [], h => by simp at h
  | a :: l1, b :: l2, h => by
    rw [List.zip_cons_cons, List.map_cons, List.map_cons, zip_map_fst f l1 l2 (by simpa using h)]

theorem zip_map_snd {α β γ : Type} (f : β → γ) : ∀ (l1 : List α) (l2 : List β), l1.length = l2.length →
    (l1.zip l2).map (fun p => f p.2) = l2.map f
  | [], [], _ => by simp
  | [], b :: l2, h => by simp at h
  | a :: l1, [], h => by simp at h
  | a :: l1, b :: l2, h => by
    rw [List.zip_cons_cons, List.map_cons, List.map_cons, zip_map_snd f l1 l2 (by simpa using h)]

/-- **accepted shares sum to a share matching the summed commitments**: every share of `msgs` verifies
against its row, the rows sum (column-wise) to `vc` ⟹ `(Σ shares mod q)·G = BigX_ownId(vc)` -/
theorem shares_sum_consistent (hC : C.Lawful) (vcfg : Vss.VerifyCfg) (t' ownId : Nat) (msgs : List OldMsg)
    (rows : List (List ECPoint)) (vc : List ECPoint)
    (hf : List.Forall₂ (fun m vs => Vss.verify C vcfg t' ⟨t', ownId, m.share⟩ vs = .ok true) msgs rows)
    (hs : sumColumns C rows = some vc) :
    C.smul ((msgs.map (·.share)).sum % C.q) C.base = pubShare C (col C vc) t' ownId := by
  have hlen : msgs.length = rows.length := hf.length_eq
  have key := feldman_sum hC (msgs.zip rows) (fun i => i.1.share) (fun i c => col C i.2 c) t' ownId
    (by
      intro i hi
      have hv := forall₂_mem_zip hf i hi
      obtain ⟨V, hV, _, _, heq⟩ := verify_true_feldman hC vcfg t' _ i.2 hv
      rw [forall₂_lift_eq_map hV] at heq
      exact heq)
  rw [zip_map_fst (fun m : OldMsg => m.share) msgs rows hlen] at key
  rw [key]
  congr 1
  funext c
  rw [zip_map_snd (fun row : List ECPoint => col C row c) msgs rows hlen]
  exact ((sumColumns_some hC rows vc hs).2.2.2 c).symm

end columns

/-! ### accepted shares and committed polynomials -/
section poly
variable {P : Type} {C : Curve P}

/-- an accepted share lies on the polynomial its row commits to (`C15.vss_verify_sound`) -/
theorem accepted_on_polynomial (hC : C.Lawful) (t' ownId share : Nat) (vs : List ECPoint)
    (hv : Vss.verify C ⟨true⟩ t' ⟨t', ownId, share⟩ vs = .ok true)
    (as : List Nat) (hcom : Vss.IsCommitment C as vs) :
    as.length = t' + 1 ∧ ownId % C.q ≠ 0 ∧ share % C.q ≠ 0 ∧ Vss.polyNat as ownId ≡ share [MOD C.q] := by
  have hlen : as.length = t' + 1 := by
    rw [hcom.length_eq]
    by_contra hne
    rw [Vss.verify_unfold, if_pos (by simp [hne])] at hv
    cases hv
  obtain ⟨_, h2, h3, h4⟩ := C15.vss_verify_sound hC as vs hcom t' hlen _ hv
  exact ⟨hlen, h2, h3, h4⟩

/-- … and the sum of accepted shares is the value at `ownId` of the sum of the committed polynomials -/
theorem accepted_sum_on_polynomials (hC : C.Lawful) (t' ownId : Nat) :
    ∀ (msgs : List OldMsg) (rows : List (List ECPoint)) (fs : List (List Nat)),
    List.Forall₂ (fun m vs => Vss.verify C ⟨true⟩ t' ⟨t', ownId, m.share⟩ vs = .ok true) msgs rows →
    List.Forall₂ (fun as vs => Vss.IsCommitment C as vs) fs rows →
    (fs.map fun as => Vss.polyNat as ownId).sum ≡ (msgs.map (·.share)).sum [MOD C.q] := by
  intro msgs rows fs h1
  induction h1 generalizing fs with
  | nil => intro h2; cases h2; exact Nat.ModEq.refl _
  | @cons m vs msgs rows hv _ ih =>
    intro h2
    cases h2 with
    | @cons as _ fs' _ hcom h2' =>
      simp only [List.map_cons, List.sum_cons]
      exact Nat.ModEq.add (accepted_on_polynomial hC t' ownId m.share vs hv as hcom).2.2.2 (ih fs' h2')

end poly

end TssVerif.C04RsL
