import TssVerif.Lemmas.CurveLaw
import TssVerif.Lemmas.AlgEcdsa
/-! A third proved-lawful toy instance, `zmodCurveX q`: the exponent representation of a cyclic group of
prime order whose affine view is symmetric under negation (`x(−P) = x(P)`, like a real curve). It shows
that `Lawful ∧ (∀ p, q·p = 0) ∧ NegX` — the hypotheses of the low-S theorems — are satisfiable. -/
set_option autoImplicit false
set_option linter.style.haveILetI false
namespace TssVerif.AlgL
open TssVerif

/-- `x = min(a, −a)` (as naturals), `y` tells which of the two -/
def xsymAffine (q : ℕ) (a : ZMod q) : ℕ × ℕ :=
  if a.val ≤ (-a).val then (a.val, 0) else ((-a).val, 1)

def zmodCurveX (q : ℕ) [Fact q.Prime] : Curve (ZMod q) where
  name := "zmodX"
  p := q
  q := q
  zero := 0
  add := (· + ·)
  neg := fun a => -a
  base := 1
  toAffine := fun a => some (xsymAffine q a)
  ofAffine := fun x y =>
    if xsymAffine q (if y = 0 then (x : ZMod q) else -(x : ZMod q)) = (x, y)
    then some (if y = 0 then (x : ZMod q) else -(x : ZMod q)) else none
  beq := fun a b => decide (a = b)

section
variable (q : ℕ) [hq : Fact q.Prime]

theorem zmodCurveX_groupLaws : (zmodCurveX q).GroupLaws where
  add_assoc := fun a b c => _root_.add_assoc a b c
  add_comm := fun a b => _root_.add_comm a b
  zero_add := fun a => _root_.zero_add a
  neg_add := fun a => neg_add_cancel a

theorem zmodCurveX_iter (k : ℕ) (a : ZMod q) : (zmodCurveX q).iter k a = (k : ZMod q) * a := by
  induction k with
  | zero => simp [Curve.iter, zmodCurveX]
  | succ k ih =>
    show (zmodCurveX q).iter k a + a = _
    rw [ih]; push_cast; ring

theorem zmodCurveX_smul (k : ℕ) (a : ZMod q) : (zmodCurveX q).smul k a = (k : ZMod q) * a := by
  rw [(zmodCurveX_groupLaws q).smul_eq_iter, zmodCurveX_iter]

theorem xsymAffine_inj (a b : ZMod q) (h : xsymAffine q a = xsymAffine q b) : a = b := by
  unfold xsymAffine at h
  split at h <;> split at h
  · exact ZMod.val_injective q (Prod.mk.inj h).1
  · exact absurd (Prod.mk.inj h).2 (by decide)
  · exact absurd (Prod.mk.inj h).2 (by decide)
  · exact neg_inj.1 (ZMod.val_injective q (Prod.mk.inj h).1)

theorem zmodCurveX_lawful : (zmodCurveX q).Lawful where
  add_assoc := (zmodCurveX_groupLaws q).add_assoc
  add_comm := (zmodCurveX_groupLaws q).add_comm
  zero_add := (zmodCurveX_groupLaws q).zero_add
  neg_add := (zmodCurveX_groupLaws q).neg_add
  q_prime := hq.out
  smul_q_base := by
    rw [zmodCurveX_smul]
    show ((q : ℕ) : ZMod q) * _ = 0
    rw [ZMod.natCast_self, zero_mul]
  base_ne_zero := by
    haveI : Fact (1 < q) := ⟨hq.out.one_lt⟩
    exact one_ne_zero
  toAffine_inj := fun a b hab => by
    simp only [zmodCurveX, Option.some.injEq] at hab
    exact xsymAffine_inj q a b hab
  ofAffine_toAffine := fun x y a hxy => by
    simp only [zmodCurveX] at hxy ⊢
    by_cases hc : xsymAffine q (if y = 0 then (x : ZMod q) else -(x : ZMod q)) = (x, y)
    · rw [if_pos hc] at hxy
      injection hxy with hxy
      rw [← hxy, hc]
    · rw [if_neg hc] at hxy
      cases hxy
  toAffine_ofAffine := fun x y a hxy => by
    haveI : NeZero q := ⟨hq.out.ne_zero⟩
    simp only [zmodCurveX, Option.some.injEq] at hxy ⊢
    have hcand : (if y = 0 then (x : ZMod q) else -(x : ZMod q)) = a := by
      unfold xsymAffine at hxy
      split at hxy
      · obtain ⟨rfl, rfl⟩ := Prod.mk.inj hxy
        rw [if_pos rfl, ZMod.natCast_zmod_val]
      · obtain ⟨rfl, rfl⟩ := Prod.mk.inj hxy
        rw [if_neg (by decide), ZMod.natCast_zmod_val, neg_neg]
    rw [hcand, if_pos hxy]
  toAffine_none := fun a ha => by simp [zmodCurveX] at ha

/-- every point is killed by `q` -/
theorem zmodCurveX_order (p : ZMod q) : (zmodCurveX q).smul (zmodCurveX q).q p = (zmodCurveX q).zero := by
  rw [zmodCurveX_smul]
  show ((q : ℕ) : ZMod q) * _ = 0
  rw [ZMod.natCast_self, zero_mul]

theorem zmodCurve_order (p : ZMod q) : (zmodCurve q).smul (zmodCurve q).q p = (zmodCurve q).zero := by
  rw [zmodCurve_smul]
  show ((q : ℕ) : ZMod q) * _ = 0
  rw [ZMod.natCast_self, zero_mul]

theorem zmodCurveW_order (p : ZMod q) : (zmodCurveW q).smul (zmodCurveW q).q p = (zmodCurveW q).zero := by
  rw [zmodCurveW_smul]
  show ((q : ℕ) : ZMod q) * _ = 0
  rw [ZMod.natCast_self, zero_mul]

/-- negation keeps the x-coordinate -/
theorem zmodCurveX_negX : NegX (zmodCurveX q) := by
  intro p x y h
  simp only [zmodCurveX, Option.some.injEq] at h ⊢
  unfold xsymAffine at h ⊢
  rw [neg_neg]
  by_cases h1 : p.val ≤ (-p).val
  · rw [if_pos h1] at h
    obtain ⟨rfl, rfl⟩ := Prod.mk.inj h
    by_cases h2 : (-p).val ≤ p.val
    · exact ⟨0, by rw [if_pos h2, le_antisymm h1 h2]⟩
    · exact ⟨1, by rw [if_neg h2]⟩
  · rw [if_neg h1] at h
    obtain ⟨rfl, rfl⟩ := Prod.mk.inj h
    exact ⟨0, by rw [if_pos (by omega)]⟩

end
end TssVerif.AlgL
