import TssVerif.Lemmas.C10Num
/-! Completeness of the no-small-factor proof (`crypto/facproof`): an honest `NewProof` is accepted by
`Verify` under the two interval side conditions on the coins (`FacGood`), for every hash, every group order
`q`, every `s`, and every `t` that is a unit modulo `NCap` (the prover's `v` may be negative, so the third
verification equation goes through Go's negative-exponent `Exp`, i.e. a modular inverse of `t`).
Helper lemmas for `TssVerif/Props/C10.lean`. -/
set_option autoImplicit false
namespace TssVerif.C10L
open TssVerif Zk

/-! ### the verifier on natural-number proofs -/

/-- `modN.Mul(a, b)` where `a` is a wire integer that happens to be a natural number -/
theorem mulI_nat (a b m : Nat) : (((a : Int) * (b : Int)) % (m : Int)).toNat = a * b % m := by
  rw [← Nat.cast_mul, emod_natCast_toNat]

/-- `facVerify` on a proof whose fields are natural numbers (only `v` may be negative) and that satisfies the
two interval checks and the three verification congruences; the third one is stated with `v` split as a
difference of naturals, `t^a` moved to the right-hand side. -/
theorem facVerify_eq_true (H : HashFn) (q : Nat) (sess : Bytes) (n0 ncap s t : Nat)
    (P Q A B T sigma z1 z2 w1 w2 : Nat) (v : Int) (e a b : Nat)
    (hn0pos : 0 < n0) (hncap : 0 < ncap) (ht : Nat.Coprime t ncap)
    (he : e = facChallenge H q sess n0 ncap s t ⟨P, Q, A, B, T, sigma, z1, z2, w1, w2, v⟩)
    (hz1 : z1 < q * q * q * isqrt n0) (hz2 : z2 < q * q * q * isqrt n0)
    (h1 : s ^ z1 * t ^ w1 ≡ A * P ^ e [MOD ncap])
    (h2 : s ^ z2 * t ^ w2 ≡ B * Q ^ e [MOD ncap])
    (hv : v = (b : Int) - (a : Int))
    (h3 : Q ^ z1 * t ^ b ≡ T * (s ^ n0 * t ^ sigma) ^ e * t ^ a [MOD ncap]) :
    facVerify cur H q sess n0 ncap s t ⟨P, Q, A, B, T, sigma, z1, z2, w1, w2, v⟩ = .ok true := by
  have hm : ncap ≠ 0 := Nat.pos_iff_ne_zero.1 hncap
  obtain ⟨zE, hzE, -, hzEs⟩ := expP_int_unit hm ht v
  -- the guards
  have g1 : ¬ ((n0 : Int) ≤ 0) := by omega
  have g2 : (cur.facNCapPositive && decide ((ncap : Int) ≤ 0)) = false := by
    simp [cur, hm]
  have g3 : isInInterval (z1 : Int) ((q * q * q * isqrt n0 : Nat) : Int) = true :=
    isInInterval_of_lt _ _ (by exact_mod_cast hz1)
  have g4 : isInInterval (z2 : Int) ((q * q * q * isqrt n0 : Nat) : Int) = true :=
    isInInterval_of_lt _ _ (by exact_mod_cast hz2)
  have g5 : ¬ ((ncap : Int) = 0) := by omega
  -- the three equations, on the reduced values the verifier computes
  have e1 : s ^ z1 % ncap * (t ^ w1 % ncap) % ncap = A * (P ^ e % ncap) % ncap :=
    ((Nat.mod_modEq _ _).mul (Nat.mod_modEq _ _)).trans
      (h1.trans ((Nat.mod_modEq _ _).symm.mul_left A))
  have e2 : s ^ z2 % ncap * (t ^ w2 % ncap) % ncap = B * (Q ^ e % ncap) % ncap :=
    ((Nat.mod_modEq _ _).mul (Nat.mod_modEq _ _)).trans
      (h2.trans ((Nat.mod_modEq _ _).symm.mul_left B))
  have e3 : Q ^ z1 % ncap * zE % ncap =
      T * ((s ^ n0 % ncap * (t ^ sigma % ncap) % ncap) ^ e % ncap) % ncap := by
    have hR : s ^ n0 % ncap * (t ^ sigma % ncap) % ncap ≡ s ^ n0 * t ^ sigma [MOD ncap] :=
      (Nat.mod_modEq _ _).trans ((Nat.mod_modEq _ _).mul (Nat.mod_modEq _ _))
    have hc : Q ^ z1 * zE * t ^ a ≡ T * (s ^ n0 * t ^ sigma) ^ e * t ^ a [MOD ncap] := by
      have : Q ^ z1 * zE * t ^ a = Q ^ z1 * (t ^ a * zE) := by ring
      rw [this]
      exact ((hzEs a b hv).mul_left _).trans h3
    have hc' : Q ^ z1 * zE ≡ T * (s ^ n0 * t ^ sigma) ^ e [MOD ncap] :=
      Nat.ModEq.cancel_right_of_coprime (Nat.Coprime.symm (ht.pow_left a)) hc
    exact ((Nat.mod_modEq _ _).mul_right zE).trans
      (hc'.trans (((Nat.mod_modEq _ _).trans (hR.pow e)).symm.mul_left T))
  unfold facVerify
  simp only [← he, if_neg g1, g2, Int.toNat_natCast, g3, g4, Bool.not_true, Bool.false_eq_true, if_false,
    if_neg g5, Int.natAbs_natCast, expP_nat _ _ hm, Outcome.ok_bind, mulI_nat, hzE, e1, e2, e3,
    bne_self_eq_false, beq_self_eq_true]

/-! ### the prover -/

/-- the challenge `e` of `facproof.NewProof`, computed exactly as `facProve` does (the responses `z1 … v` are
not hashed, so they are left at `0` in the proof handed to `facChallenge`) -/
def facE (H : HashFn) (q : Nat) (sess : Bytes) (n0 ncap s t n0p n0q : Nat) (k : FacCoins) : Nat :=
  let e1 (b : Nat) (x : Nat) := modPow b x ncap
  let P := e1 s n0p * e1 t k.mu % ncap
  let Q := e1 s n0q * e1 t k.nu % ncap
  let A := e1 s k.alpha * e1 t k.x % ncap
  let B := e1 s k.beta * e1 t k.y % ncap
  let T := e1 Q k.alpha * e1 t k.r % ncap
  let pf0 : FacProof := ⟨P, Q, A, B, T, k.sigma, 0, 0, 0, 0, 0⟩
  facChallenge H q sess n0 ncap s t pf0

/-- side conditions on the coins of `facproof.NewProof`: the two responses `z1 = e·p + α`, `z2 = e·q + β` pass the
verifier's range check `< q³·⌊√N0⌋` (every other guard of `Verify` follows from the hypotheses of
`fac_complete_aux`; in particular nothing is required of the sign of `v`) -/
def FacGood (H : HashFn) (q : Nat) (sess : Bytes) (n0 ncap s t n0p n0q : Nat) (k : FacCoins) : Prop :=
  facE H q sess n0 ncap s t n0p n0q k * n0p + k.alpha < q * q * q * isqrt n0 ∧
  facE H q sess n0 ncap s t n0p n0q k * n0q + k.beta < q * q * q * isqrt n0

instance (H : HashFn) (q : Nat) (sess : Bytes) (n0 ncap s t n0p n0q : Nat) (k : FacCoins) :
    Decidable (FacGood H q sess n0 ncap s t n0p n0q k) := by
  unfold FacGood; infer_instance

/-- the challenge does not depend on the response fields -/
theorem facChallenge_resp (H : HashFn) (q : Nat) (sess : Bytes) (n0 ncap s t : Int)
    (P Q A B T sigma z1 z2 w1 w2 v : Int) :
    facChallenge H q sess n0 ncap s t ⟨P, Q, A, B, T, sigma, z1, z2, w1, w2, v⟩ =
      facChallenge H q sess n0 ncap s t ⟨P, Q, A, B, T, sigma, 0, 0, 0, 0, 0⟩ := rfl

/-- the prover never fails, and its output in closed form -/
theorem facProve_eq (H : HashFn) (q : Nat) (sess : Bytes) (n0 ncap s t n0p n0q : Nat) (k : FacCoins) :
    facProve H q sess n0 ncap s t n0p n0q k = .ok
      ⟨((s ^ n0p % ncap * (t ^ k.mu % ncap) % ncap : Nat) : Int),
       ((s ^ n0q % ncap * (t ^ k.nu % ncap) % ncap : Nat) : Int),
       ((s ^ k.alpha % ncap * (t ^ k.x % ncap) % ncap : Nat) : Int),
       ((s ^ k.beta % ncap * (t ^ k.y % ncap) % ncap : Nat) : Int),
       (((s ^ n0q % ncap * (t ^ k.nu % ncap) % ncap) ^ k.alpha % ncap * (t ^ k.r % ncap) % ncap : Nat) : Int),
       (k.sigma : Int),
       ((facE H q sess n0 ncap s t n0p n0q k * n0p + k.alpha : Nat) : Int),
       ((facE H q sess n0 ncap s t n0p n0q k * n0q + k.beta : Nat) : Int),
       ((facE H q sess n0 ncap s t n0p n0q k * k.mu + k.x : Nat) : Int),
       ((facE H q sess n0 ncap s t n0p n0q k * k.nu + k.y : Nat) : Int),
       (facE H q sess n0 ncap s t n0p n0q k : Int) * ((k.sigma : Int) - (k.nu : Int) * (n0p : Int)) + (k.r : Int)⟩ := by
  unfold facProve facE
  simp only [modPow_spec]
  push_cast
  rfl

/-! ### completeness -/

/-- Completeness of `facproof`: `Verify` accepts what `NewProof` produces, for every hash and all coins passing
the range checks, provided `N0 = p·q > 0`, `NCap > 0` and `t` is a unit modulo `NCap`. The last hypothesis is
needed because `v = e(σ − ν p) + r` is negative for many coins and `t^v` is then computed through
`ModInverse(t, NCap)`, which is `nil` (a crash when used) for a non-unit. -/
theorem fac_complete_aux (H : HashFn) (q : Nat) (sess : Bytes) (n0 ncap s t n0p n0q : Nat) (k : FacCoins)
    (hn0 : n0 = n0p * n0q) (hn0pos : 0 < n0) (hncap : 0 < ncap) (ht : Nat.Coprime t ncap)
    (hg : FacGood H q sess n0 ncap s t n0p n0q k) :
    (facProve H q sess n0 ncap s t n0p n0q k >>= fun pf => facVerify cur H q sess n0 ncap s t pf) = .ok true := by
  obtain ⟨hz1, hz2⟩ := hg
  rw [facProve_eq, Outcome.ok_bind]
  set e := facE H q sess n0 ncap s t n0p n0q k with hedef
  -- the prover's commitments modulo `ncap`
  have hmm : ∀ x y : Nat, x % ncap * (y % ncap) % ncap ≡ x * y [MOD ncap] := fun x y =>
    (Nat.mod_modEq _ _).trans ((Nat.mod_modEq _ _).mul (Nat.mod_modEq _ _))
  have hP := hmm (s ^ n0p) (t ^ k.mu)
  have hQ := hmm (s ^ n0q) (t ^ k.nu)
  have hA := hmm (s ^ k.alpha) (t ^ k.x)
  have hB := hmm (s ^ k.beta) (t ^ k.y)
  set Q := s ^ n0q % ncap * (t ^ k.nu % ncap) % ncap with hQdef
  have hT := hmm (Q ^ k.alpha) (t ^ k.r)
  refine facVerify_eq_true H q sess n0 ncap s t _ _ _ _ _ _ _ _ _ _ _ e
    (e * k.nu * n0p) (e * k.sigma + k.r) hn0pos hncap ht ?_ hz1 hz2 ?_ ?_ ?_ ?_
  · -- the verifier recomputes the prover's challenge
    rw [facChallenge_resp, hedef]
    unfold facE
    simp only [modPow_spec]
    push_cast
    rfl
  · -- s^z1 t^w1 = A P^e
    have : s ^ (e * n0p + k.alpha) * t ^ (e * k.mu + k.x) =
        s ^ k.alpha * t ^ k.x * (s ^ n0p * t ^ k.mu) ^ e := by ring
    rw [this]
    exact hA.symm.mul (hP.symm.pow e)
  · -- s^z2 t^w2 = B Q^e
    have : s ^ (e * n0q + k.beta) * t ^ (e * k.nu + k.y) =
        s ^ k.beta * t ^ k.y * (s ^ n0q * t ^ k.nu) ^ e := by ring
    rw [this]
    exact hB.symm.mul (hQ.symm.pow e)
  · push_cast; ring
  · -- Q^z1 t^(eσ + r) = T R^e t^(eνp), using Q^p = s^N0 t^(νp)
    subst hn0
    have l : Q ^ (e * n0p + k.alpha) * t ^ (e * k.sigma + k.r) =
        Q ^ (e * n0p) * (Q ^ k.alpha * t ^ (e * k.sigma + k.r)) := by ring
    have r : (s ^ n0q * t ^ k.nu) ^ (e * n0p) * (Q ^ k.alpha * t ^ (e * k.sigma + k.r)) =
        Q ^ k.alpha * t ^ k.r * (s ^ (n0p * n0q) * t ^ k.sigma) ^ e * t ^ (e * k.nu * n0p) := by ring
    rw [l]
    refine ((hQ.pow (e * n0p)).mul_right _).trans ?_
    rw [r]
    exact (hT.symm.mul_right _).mul_right _

/-! ### the converse: `FacGood` is exactly what acceptance needs -/

theorem fac_ite_okfalse {c : Prop} [Decidable c] {x : Outcome Bool}
    (h : (if c then Outcome.ok false else x) = .ok true) : ¬ c ∧ x = .ok true := by
  by_cases hc : c
  · rw [if_pos hc] at h; cases h
  · rw [if_neg hc] at h; exact ⟨hc, h⟩

theorem lt_of_isInInterval_cast {a b : Nat} (h : ¬ ((!isInInterval (a : Int) ((b : Nat) : Int)) = true)) :
    a < b := by
  unfold isInInterval at h
  simp only [Bool.not_eq_true', Bool.not_eq_false, Bool.and_eq_true, decide_eq_true_eq] at h
  exact_mod_cast h.1

/-- Converse of `fac_complete_aux`, without any hypothesis: whenever the verifier accepts the honest prover's
output, the coins satisfy `FacGood`. So `FacGood` is exactly the set of coins on which (under the hypotheses of
`fac_complete_aux`) an honest proof is accepted. -/
theorem fac_good_of_accept (H : HashFn) (q : Nat) (sess : Bytes) (n0 ncap s t n0p n0q : Nat) (k : FacCoins)
    (h : (facProve H q sess n0 ncap s t n0p n0q k >>= fun pf => facVerify cur H q sess n0 ncap s t pf) = .ok true) :
    FacGood H q sess n0 ncap s t n0p n0q k := by
  rw [facProve_eq, Outcome.ok_bind] at h
  rw [facVerify] at h
  dsimp only at h
  obtain ⟨-, h⟩ := fac_ite_okfalse h
  obtain ⟨-, h⟩ := fac_ite_okfalse h
  obtain ⟨g1, h⟩ := fac_ite_okfalse h
  obtain ⟨g2, -⟩ := fac_ite_okfalse h
  rw [Int.toNat_natCast] at g1 g2
  exact ⟨lt_of_isInInterval_cast g1, lt_of_isInInterval_cast g2⟩

/-! ### the hypotheses are satisfiable

`q = 11`, `N0 = 15 = 3·5` (so the range bound is `11³·⌊√15⌋ = 3993`), `NCap = 35`, `s = 2`, `t = 3`, a constant
hash (challenge `e = 3`), coins `α = 1, β = 2, μ = 1, ν = 4, σ = 1, r = 1, x = 1, y = 1`. Here
`v = 3·(1 − 4·3) + 1 = −32 < 0`, so the verifier computes `t^v` through `ModInverse(3, 35)`. -/

/-- all hypotheses of `fac_complete_aux`, including `FacGood`, hold on the tiny instance -/
example :
    (facProve (fun _ => [3]) 11 [] 15 35 2 3 3 5 ⟨1, 2, 1, 4, 1, 1, 1, 1⟩ >>= fun pf =>
      facVerify cur (fun _ => [3]) 11 [] 15 35 2 3 pf) = .ok true :=
  fac_complete_aux (fun _ => [3]) 11 [] 15 35 2 3 3 5 ⟨1, 2, 1, 4, 1, 1, 1, 1⟩
    (by decide) (by decide) (by decide) (by decide) (by decide)

/-- the prover's `v` is negative on that instance -/
example : (facProve (fun _ => [3]) 11 [] 15 35 2 3 3 5 ⟨1, 2, 1, 4, 1, 1, 1, 1⟩ >>= fun pf => pure pf.v)
    = .ok (-32) := by decide

/-- the model itself, run on that instance, accepts (independent of the theorem) -/
example :
    (facProve (fun _ => [3]) 11 [] 15 35 2 3 3 5 ⟨1, 2, 1, 4, 1, 1, 1, 1⟩ >>= fun pf =>
      facVerify cur (fun _ => [3]) 11 [] 15 35 2 3 pf) = .ok true := by decide

/-- `ht` cannot be dropped: same instance with `t = 5` (not a unit modulo `35`); `v = −32 < 0` and the verifier
crashes on the nil result of `Exp(t, v, NCap)` -/
example :
    (facProve (fun _ => [3]) 11 [] 15 35 2 5 3 5 ⟨1, 2, 1, 4, 1, 1, 1, 1⟩ >>= fun pf =>
      facVerify cur (fun _ => [3]) 11 [] 15 35 2 5 pf) = .panic "nil-exp" := by decide

/-- a coin outside `FacGood` (`α = 3990`, so `z1 = 3·3 + 3990 = 3999 ≥ 3993`): the honest proof is rejected -/
example : ¬ FacGood (fun _ => [3]) 11 [] 15 35 2 3 3 5 ⟨3990, 2, 1, 4, 1, 1, 1, 1⟩ := by decide

example :
    (facProve (fun _ => [3]) 11 [] 15 35 2 3 3 5 ⟨3990, 2, 1, 4, 1, 1, 1, 1⟩ >>= fun pf =>
      facVerify cur (fun _ => [3]) 11 [] 15 35 2 3 pf) = .ok false := by decide

end TssVerif.C10L
