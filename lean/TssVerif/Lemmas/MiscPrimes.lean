import TssVerif.Core.Primes
import TssVerif.Lemmas.GoIntSpec
import TssVerif.Lemmas.Paillier
import TssVerif.Lemmas.C10Mod
import Mathlib.FieldTheory.Finite.Basic
import Mathlib.GroupTheory.OrderOfElement
import Mathlib.Data.Nat.ModEq
import Mathlib.Data.Nat.Totient
import Mathlib.Tactic.Ring
import Mathlib.Tactic.Linarith
/-! Helper lemmas for C19: Pocklington's criterion for `p = 2q + 1`, the sampler contracts, the algebra of the
pre-parameters (`h1`, `h2`, `alpha`, `beta`). -/
set_option autoImplicit false
set_option linter.style.haveILetI false
namespace TssVerif.MiscL
open TssVerif TssVerif.Primes
open scoped NumberTheorySymbols

/-! ## Pocklington for `p = 2q + 1` with witness `2` -/

/-- every prime factor `r ≠ 3` of `p = 2q+1` (with `2^(p-1) ≡ 1 (mod p)`) satisfies `q ∣ r − 1` -/
theorem factor_large {q p r : Nat} (hq : q.Prime) (hp : p = 2 * q + 1)
    (hpow : 2 ^ (p - 1) % p = 1) (hr : r.Prime) (hrp : r ∣ p) (hr3 : r ≠ 3) : q + 1 ≤ r := by
  have hq2 := hq.two_le
  haveI : Fact r.Prime := ⟨hr⟩
  have hr2 : r ≠ 2 := by
    rintro rfl
    have : 2 ∣ 2 * q + 1 := hp ▸ hrp
    omega
  have h2ne : (2 : ZMod r) ≠ 0 := by
    intro h0
    have : ((2 : ℕ) : ZMod r) = 0 := by exact_mod_cast h0
    rw [ZMod.natCast_eq_zero_iff] at this
    exact hr2 ((Nat.prime_dvd_prime_iff_eq hr Nat.prime_two).1 this)
  have hone : (2 : ZMod r) ^ (p - 1) = 1 := by
    have h1 : 2 ^ (p - 1) ≡ 1 [MOD p] := by
      have : 1 % p = 1 := Nat.mod_eq_of_lt (by omega)
      rw [Nat.ModEq, hpow, this]
    have h2 : 2 ^ (p - 1) ≡ 1 [MOD r] := h1.of_dvd hrp
    have := (ZMod.natCast_eq_natCast_iff _ _ _).2 h2
    simpa using this
  have ho1 : orderOf (2 : ZMod r) ∣ 2 * q := by
    have := orderOf_dvd_of_pow_eq_one hone
    rwa [show p - 1 = 2 * q by omega] at this
  have ho2 : orderOf (2 : ZMod r) ∣ r - 1 :=
    orderOf_dvd_of_pow_eq_one (ZMod.pow_card_sub_one_eq_one h2ne)
  -- the order does not divide 2
  have ho3 : ¬ orderOf (2 : ZMod r) ∣ 2 := by
    intro hd
    have h4 : (2 : ZMod r) ^ 2 = 1 := orderOf_dvd_iff_pow_eq_one.1 hd
    have h5 : ((3 : ℕ) : ZMod r) = 0 := by
      have : (2 : ZMod r) ^ 2 - 1 = 0 := by rw [h4, sub_self]
      have e : ((3 : ℕ) : ZMod r) = (2 : ZMod r) ^ 2 - 1 := by push_cast; ring
      rw [e, this]
    rw [ZMod.natCast_eq_zero_iff] at h5
    exact hr3 ((Nat.prime_dvd_prime_iff_eq hr Nat.prime_three).1 h5)
  -- hence q divides it
  have hqo : q ∣ orderOf (2 : ZMod r) := by
    by_contra hnd
    have hc : Nat.Coprime (orderOf (2 : ZMod r)) q := ((Nat.Prime.coprime_iff_not_dvd hq).2 hnd).symm
    exact ho3 (hc.dvd_of_dvd_mul_right ho1)
  have hqr : q ∣ r - 1 := hqo.trans ho2
  have := Nat.le_of_dvd (by have := hr.two_le; omega) hqr
  omega

/-- `4` has order 3 modulo 9 -/
theorem four_pow_mod_nine {q : Nat} (h : 4 ^ q % 9 = 1) : q % 3 = 0 := by
  have e : 4 ^ q % 9 = 4 ^ (q % 3) % 9 := by
    conv_lhs => rw [← Nat.div_add_mod q 3, pow_add, pow_mul, Nat.mul_mod, Nat.pow_mod]
    norm_num
  rw [e] at h
  have : q % 3 = 0 ∨ q % 3 = 1 ∨ q % 3 = 2 := by omega
  rcases this with h0 | h0 | h0
  · exact h0
  · rw [h0] at h; norm_num at h
  · rw [h0] at h; norm_num at h

/-- **Pocklington, `a = 2`, `F = q`**: for prime `q`, `p = 2q+1` with `2^(p-1) ≡ 1 (mod p)` is prime.
(No side condition on small factors is needed: a factor 3 is excluded by the order of 2 modulo 9.) -/
theorem pocklington_2q1 {q p : Nat} (hq : q.Prime) (hp : p = 2 * q + 1)
    (hpow : 2 ^ (p - 1) % p = 1) : p.Prime := by
  have hq2 := hq.two_le
  have hp1 : p ≠ 1 := by omega
  by_contra hnp
  -- the least prime factor
  have hr : (Nat.minFac p).Prime := Nat.minFac_prime hp1
  have hrp : Nat.minFac p ∣ p := Nat.minFac_dvd p
  have hsq : Nat.minFac p ^ 2 ≤ p := Nat.minFac_sq_le_self (by omega) hnp
  generalize Nat.minFac p = r at hr hrp hsq
  by_cases hr3 : r = 3
  · -- p = 3 m
    subst hr3
    obtain ⟨m, hm⟩ := hrp
    have hm3 : 3 ≤ m := by nlinarith
    by_cases h3m : 3 ∣ m
    · -- 9 ∣ p, so 2^(2q) ≡ 1 (mod 9), so 3 ∣ q, q = 3, p = 7
      obtain ⟨m', hm'⟩ := h3m
      have h9 : 9 ∣ p := ⟨m', by rw [hm, hm']; ring⟩
      have h1 : 2 ^ (p - 1) ≡ 1 [MOD p] := by
        have : 1 % p = 1 := Nat.mod_eq_of_lt (by omega)
        rw [Nat.ModEq, hpow, this]
      have h2 : 2 ^ (p - 1) ≡ 1 [MOD 9] := h1.of_dvd h9
      rw [show p - 1 = 2 * q by omega, pow_mul] at h2
      have h3 : 4 ^ q % 9 = 1 := h2
      have h4 := four_pow_mod_nine h3
      have h5 : q = 3 := ((Nat.prime_dvd_prime_iff_eq Nat.prime_three hq).1 (Nat.dvd_of_mod_eq_zero h4)).symm
      omega
    · -- m has a prime factor other than 3, which is at least q + 1
      have hm1 : m ≠ 1 := by omega
      have hs : (Nat.minFac m).Prime := Nat.minFac_prime hm1
      have hsm : Nat.minFac m ∣ m := Nat.minFac_dvd m
      have hs3 : Nat.minFac m ≠ 3 := fun h => h3m (h ▸ hsm)
      have hsp : Nat.minFac m ∣ p := hm ▸ Dvd.dvd.mul_left hsm 3
      have hle := factor_large hq hp hpow hs hsp hs3
      have := Nat.le_of_dvd (by omega) hsm
      omega
  · have hrq := factor_large hq hp hpow hr hrp hr3
    have : (q + 1) ^ 2 ≤ r ^ 2 := Nat.pow_le_pow_left hrq 2
    nlinarith

/-- the code's test is the congruence `2^(p-1) ≡ 1 (mod p)` -/
theorem pocklington_iff (p : Nat) : pocklington p = true ↔ 2 ^ (p - 1) % p = 1 := by
  unfold pocklington
  rw [modPow_spec, beq_iff_eq]

theorem emittedPairOk_iff (prime : Nat → Bool) (qBitLen q p : Nat) :
    emittedPairOk prime qBitLen q p = true ↔
      prime q = true ∧ 2 ^ (p - 1) % p = 1 ∧ bitLen q = qBitLen ∧ p = 2 * q + 1 ∧ prime p = true := by
  unfold emittedPairOk safePrimeOf
  simp only [Bool.and_eq_true, beq_iff_eq, pocklington_iff, and_assoc]

/-! ## samplers -/

theorem mustGetRandomInt_some {bits raw v : Nat} (h : mustGetRandomInt bits raw = some v) :
    v = raw % 2 ^ bits ∧ v < 2 ^ bits - 1 := by
  unfold mustGetRandomInt at h
  simp only at h
  split at h
  · next hlt => injection h with h; subst h; exact ⟨rfl, hlt⟩
  · exact absurd h (by simp)

theorem mem_filterMap_must {bits : Nat} {cs : List Nat} {v : Nat}
    (h : v ∈ cs.filterMap (mustGetRandomInt bits)) :
    ∃ raw ∈ cs, v = raw % 2 ^ bits ∧ v < 2 ^ bits - 1 := by
  obtain ⟨raw, hraw, hv⟩ := List.mem_filterMap.1 h
  exact ⟨raw, hraw, mustGetRandomInt_some hv⟩

theorem inGroup_iff (n v : Nat) :
    Paillier.isNumberInMultiplicativeGroup (n : Int) v = true ↔ 1 ≤ v ∧ v < n ∧ Nat.gcd v n = 1 := by
  unfold Paillier.isNumberInMultiplicativeGroup
  simp only [Bool.and_eq_true, decide_eq_true_eq, beq_iff_eq, Int.toNat_natCast, Int.natCast_pos,
    Nat.cast_lt]
  constructor
  · rintro ⟨⟨⟨_, h2⟩, h3⟩, h4⟩; exact ⟨h3, h2, h4⟩
  · rintro ⟨h1, h2, h3⟩; exact ⟨⟨⟨by omega, h2⟩, h1⟩, h3⟩

theorem getRandomPositiveInt_some {b : Nat} {cs : List Nat} {v : Nat}
    (h : getRandomPositiveInt b cs = some v) :
    v < b ∧ ∃ raw ∈ cs, v = raw % 2 ^ bitLen b := by
  unfold getRandomPositiveInt at h
  split at h
  · exact absurd h (by simp)
  · have h1 := List.find?_some h
    obtain ⟨raw, hraw, hv, _⟩ := mem_filterMap_must (List.mem_of_find?_eq_some h)
    exact ⟨by simpa using h1, raw, hraw, hv⟩

theorem getRandomRelPrime_some {n : Nat} {cs : List Nat} {v : Nat}
    (h : getRandomRelPrime n cs = some v) :
    1 ≤ v ∧ v < n ∧ Nat.gcd v n = 1 ∧ ∃ raw ∈ cs, v = raw % 2 ^ bitLen n := by
  unfold getRandomRelPrime at h
  split at h
  · exact absurd h (by simp)
  · have h1 := List.find?_some h
    obtain ⟨raw, hraw, hv, _⟩ := mem_filterMap_must (List.mem_of_find?_eq_some h)
    obtain ⟨a, b, c⟩ := (inGroup_iff n v).1 h1
    exact ⟨a, b, c, raw, hraw, hv⟩

/-- the sampler answers exactly when some candidate qualifies (otherwise Go keeps reading) -/
theorem getRandomRelPrime_isSome_iff (n : Nat) (cs : List Nat) :
    (getRandomRelPrime n cs).isSome ↔
      ∃ raw ∈ cs, raw % 2 ^ bitLen n < 2 ^ bitLen n - 1 ∧ 1 ≤ raw % 2 ^ bitLen n ∧
        raw % 2 ^ bitLen n < n ∧ Nat.gcd (raw % 2 ^ bitLen n) n = 1 := by
  unfold getRandomRelPrime
  split
  · next h0 => subst h0; simp
  · rw [List.find?_isSome]
    constructor
    · rintro ⟨v, hv, hg⟩
      obtain ⟨raw, hraw, rfl, hlt⟩ := mem_filterMap_must hv
      obtain ⟨a, b, c⟩ := (inGroup_iff n _).1 hg
      exact ⟨raw, hraw, hlt, a, b, c⟩
    · rintro ⟨raw, hraw, hlt, a, b, c⟩
      refine ⟨raw % 2 ^ bitLen n, List.mem_filterMap.2 ⟨raw, hraw, ?_⟩, (inGroup_iff n _).2 ⟨a, b, c⟩⟩
      unfold mustGetRandomInt
      simp only [hlt, if_true]

theorem getRandomRelPrime_one (cs : List Nat) : getRandomRelPrime 1 cs = none := by
  cases h : getRandomRelPrime 1 cs with
  | none => rfl
  | some v =>
    obtain ⟨a, b, _⟩ := getRandomRelPrime_some h
    omega

theorem getRandomPositiveInt_isSome_iff (b : Nat) (cs : List Nat) :
    (getRandomPositiveInt b cs).isSome ↔
      ∃ raw ∈ cs, raw % 2 ^ bitLen b < 2 ^ bitLen b - 1 ∧ raw % 2 ^ bitLen b < b := by
  unfold getRandomPositiveInt
  split
  · next h0 => subst h0; simp
  · rw [List.find?_isSome]
    constructor
    · rintro ⟨v, hv, hg⟩
      obtain ⟨raw, hraw, rfl, hlt⟩ := mem_filterMap_must hv
      exact ⟨raw, hraw, hlt, by simpa using hg⟩
    · rintro ⟨raw, hraw, hlt, a⟩
      refine ⟨raw % 2 ^ bitLen b, List.mem_filterMap.2 ⟨raw, hraw, ?_⟩, by simpa using a⟩
      unfold mustGetRandomInt
      simp only [hlt, if_true]

theorem getRandomQNR_some {n : Nat} {cs : List Nat} {w : Nat}
    (h : getRandomQNR n cs = .ok (some w)) :
    n % 2 = 1 ∧ w < n ∧ J((w : Int) | n) = -1 ∧ ∃ raw ∈ cs, w = raw % 2 ^ bitLen n := by
  unfold getRandomQNR at h
  split at h
  · exact absurd h (by simp)
  · split at h
    · exact absurd h (by simp)
    · next hodd =>
      have hodd' : n % 2 = 1 := by omega
      injection h with h
      have h1 := List.find?_some h
      obtain ⟨raw, hraw, hv, _⟩ := mem_filterMap_must (List.mem_of_find?_eq_some h)
      simp only [Bool.and_eq_true, decide_eq_true_eq, beq_iff_eq] at h1
      obtain ⟨hlt, hj⟩ := h1
      rw [C10L.goJacobi_eq_jacobiSym _ hodd', Outcome.ok.injEq] at hj
      exact ⟨hodd', hlt, hj, raw, hraw, hv⟩

/-- outcomes of the quadratic-non-residue sampler: it panics exactly on a positive even modulus -/
theorem getRandomQNR_panic_iff (n : Nat) (cs : List Nat) :
    (∃ e, getRandomQNR n cs = .panic e) ↔ n ≠ 0 ∧ n % 2 = 0 := by
  unfold getRandomQNR
  by_cases h0 : n = 0
  · simp [h0]
  · by_cases h2 : n % 2 = 0 <;> simp [h0, h2]

/-! ## pre-parameters -/

theorem sq_pow_modEq_one {P Q p q f1 : Nat} (hP : P.Prime) (hQ : Q.Prime) (hPp : P = 2 * p + 1)
    (hQq : Q = 2 * q + 1) (hne : P ≠ Q) (hc : Nat.Coprime f1 (P * Q)) :
    (f1 * f1) ^ (p * q) ≡ 1 [MOD P * Q] := by
  have hcP : Nat.Coprime f1 P := Nat.Coprime.coprime_mul_right_right hc
  have hcQ : Nat.Coprime f1 Q := Nat.Coprime.coprime_mul_left_right hc
  have h1 : f1 ^ (2 * p) ≡ 1 [MOD P] := by
    have := Nat.ModEq.pow_totient hcP
    rwa [Nat.totient_prime hP, show P - 1 = 2 * p by omega] at this
  have h2 : f1 ^ (2 * q) ≡ 1 [MOD Q] := by
    have := Nat.ModEq.pow_totient hcQ
    rwa [Nat.totient_prime hQ, show Q - 1 = 2 * q by omega] at this
  have e1 : (f1 * f1) ^ (p * q) = (f1 ^ (2 * p)) ^ q := by
    rw [← pow_two, ← pow_mul, ← pow_mul]; congr 1; ring
  have e2 : (f1 * f1) ^ (p * q) = (f1 ^ (2 * q)) ^ p := by
    rw [← pow_two, ← pow_mul, ← pow_mul]; congr 1; ring
  have g1 : (f1 * f1) ^ (p * q) ≡ 1 [MOD P] := by
    rw [e1]; simpa using h1.pow q
  have g2 : (f1 * f1) ^ (p * q) ≡ 1 [MOD Q] := by
    rw [e2]; simpa using h2.pow p
  exact (Nat.modEq_and_modEq_iff_modEq_mul ((Nat.coprime_primes hP hQ).2 hne)).1 ⟨g1, g2⟩

/-- if `x^m ≡ 1` then exponents may be reduced modulo `m` (here: `e ≡ 1 (mod m)`, `m > 1`) -/
theorem pow_of_exp_modEq_one {x m n e : Nat} (hm : 1 < m) (hx : x ^ m ≡ 1 [MOD n])
    (he : e ≡ 1 [MOD m]) : x ^ e ≡ x [MOD n] := by
  have h1 : e % m = 1 := by rw [he, Nat.mod_eq_of_lt hm]
  have h2 : e = 1 + m * (e / m) := by
    have := Nat.mod_add_div e m
    omega
  rw [h2, pow_add, pow_one, pow_mul]
  have : x * (x ^ m) ^ (e / m) ≡ x * 1 ^ (e / m) [MOD n] := Nat.ModEq.mul_left _ (hx.pow _)
  simpa using this

theorem preParams_algebra {P Q p q f1 alpha : Nat} (hP : P.Prime) (hQ : Q.Prime)
    (hPp : P = 2 * p + 1) (hQq : Q = 2 * q + 1) (hpq : p ≠ q)
    (hf : Nat.Coprime f1 (P * Q)) (ha : Nat.gcd alpha (p * q) = 1) :
    (preParams p q f1 alpha).ntilde = P * Q ∧
    (preParams p q f1 alpha).h1 = f1 ^ 2 % (P * Q) ∧
    (preParams p q f1 alpha).h2 = (preParams p q f1 alpha).h1 ^ alpha % (P * Q) ∧
    ∃ b, (preParams p q f1 alpha).beta = some b ∧ b < p * q ∧ alpha * b ≡ 1 [MOD p * q] ∧
      (preParams p q f1 alpha).h1 = (preParams p q f1 alpha).h2 ^ b % (P * Q) := by
  have hp1 : 1 ≤ p := by have := hP.two_le; omega
  have hq1 : 1 ≤ q := by have := hQ.two_le; omega
  have hpq2 : 1 < p * q := by
    rcases Nat.lt_or_gt_of_ne hpq with h | h
    · calc 1 < q := by omega
        _ = 1 * q := (Nat.one_mul q).symm
        _ ≤ p * q := Nat.mul_le_mul_right q hp1
    · calc 1 < p := by omega
        _ = p * 1 := (Nat.mul_one p).symm
        _ ≤ p * q := Nat.mul_le_mul_left p hq1
  have hne : P ≠ Q := by omega
  have hnt : safePrimeOf p * safePrimeOf q = P * Q := by rw [hPp, hQq]; rfl
  obtain ⟨b, hb, hinv, hblt⟩ := modInverse_exists (a := (alpha : Int)) (n := p * q) (by omega)
    (by rw [Int.gcd_natCast_natCast]; exact ha)
  have hinv' : alpha * b ≡ 1 [MOD p * q] := by
    have : ((alpha * b : ℕ) : Int) % ((p * q : ℕ) : Int) = ((1 : ℕ) : Int) % ((p * q : ℕ) : Int) := by
      push_cast; push_cast at hinv; exact hinv
    exact_mod_cast this
  unfold preParams
  simp only [hnt, modPow_spec]
  refine ⟨trivial, by rw [pow_two], trivial, b, hb, hblt, hinv', ?_⟩
  have hx : (f1 * f1 % (P * Q)) ^ (p * q) ≡ 1 [MOD P * Q] :=
    ((Nat.mod_modEq _ _).pow _).trans (sq_pow_modEq_one hP hQ hPp hQq hne hf)
  have key : (f1 * f1 % (P * Q)) ^ (alpha * b) ≡ f1 * f1 % (P * Q) [MOD P * Q] :=
    pow_of_exp_modEq_one hpq2 hx hinv'
  rw [← Nat.pow_mod, ← pow_mul]
  have := key
  rw [Nat.ModEq, Nat.mod_mod] at this
  exact this.symm

/-- `h2` is itself a square modulo `Ñ` -/
theorem preParams_h2_square (p q f1 alpha : Nat) :
    (preParams p q f1 alpha).h2 =
      (f1 ^ alpha) ^ 2 % (preParams p q f1 alpha).ntilde := by
  unfold preParams
  simp only [modPow_spec]
  rw [← Nat.pow_mod, ← pow_two, ← pow_mul, ← pow_mul, Nat.mul_comm]

end TssVerif.MiscL
