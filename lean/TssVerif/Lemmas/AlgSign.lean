import TssVerif.Lemmas.AlgEcdsa
import TssVerif.Lemmas.VssVerify
import Mathlib.Algebra.BigOperators.Ring.Finset
/-! The share algebra of GG18 signing (`θ = kγ`, `σ = kx`, `s = k(m + r x)`) and the transcript function
`Sign.ecdsaFromTranscript`: what every signer computes from the broadcast values is
`finalize` applied to `R = k⁻¹·G`. -/
set_option autoImplicit false
set_option linter.style.haveILetI false
namespace TssVerif.AlgL
open TssVerif Sign

/-! ### finite-sum algebra -/

/-- the cross terms `α_ij + β_ji` of all parties add up to the off-diagonal part of `(Σk)(Σw)` -/
theorem sigma_sum {R : Type*} [CommSemiring R] {ι : Type*} [DecidableEq ι] (s : Finset ι)
    (k w : ι → R) (α β : ι → ι → R)
    (h : ∀ i ∈ s, ∀ j ∈ s, i ≠ j → α i j + β i j = k i * w j) :
    ∑ i ∈ s, (k i * w i + ∑ j ∈ s.erase i, (α i j + β j i)) = (∑ i ∈ s, k i) * (∑ j ∈ s, w j) := by
  have hswap : ∑ i ∈ s, ∑ j ∈ s.erase i, β j i = ∑ i ∈ s, ∑ j ∈ s.erase i, β i j := by
    apply Finset.sum_comm'
    intro x y
    simp only [Finset.mem_erase]
    constructor
    · rintro ⟨hx, hne, hy⟩; exact ⟨⟨fun h => hne h.symm, hx⟩, hy⟩
    · rintro ⟨⟨hne, hx⟩, hy⟩; exact ⟨hx, fun h => hne h.symm, hy⟩
  have hoff : ∑ i ∈ s, ∑ j ∈ s.erase i, (α i j + β j i) = ∑ i ∈ s, ∑ j ∈ s.erase i, k i * w j := by
    simp only [Finset.sum_add_distrib]
    rw [hswap, ← Finset.sum_add_distrib]
    refine Finset.sum_congr rfl fun i hi => ?_
    rw [← Finset.sum_add_distrib]
    refine Finset.sum_congr rfl fun j hj => ?_
    exact h i hi j (Finset.mem_of_mem_erase hj) (Finset.ne_of_mem_erase hj).symm
  rw [Finset.sum_add_distrib, hoff, ← Finset.sum_add_distrib, Finset.sum_mul_sum]
  refine Finset.sum_congr rfl fun i hi => ?_
  exact Finset.add_sum_erase s (fun j => k i * w j) hi

/-- **the share relations of the signing protocol give the ECDSA equation**:
`Σθ_i = (Σk_i)(Σγ_i)` and `Σ s_i = (Σk_i)(m + r·x)` -/
theorem sign_algebra {R : Type*} [CommRing R] {ι : Type*} [DecidableEq ι] (s : Finset ι)
    (k γ w θ σ sh : ι → R) (α β μ ν : ι → ι → R) (m r x : R)
    (hαβ : ∀ i ∈ s, ∀ j ∈ s, i ≠ j → α i j + β i j = k i * γ j)
    (hμν : ∀ i ∈ s, ∀ j ∈ s, i ≠ j → μ i j + ν i j = k i * w j)
    (hθ : ∀ i ∈ s, θ i = k i * γ i + ∑ j ∈ s.erase i, (α i j + β j i))
    (hσ : ∀ i ∈ s, σ i = k i * w i + ∑ j ∈ s.erase i, (μ i j + ν j i))
    (hs : ∀ i ∈ s, sh i = m * k i + r * σ i)
    (hw : ∑ i ∈ s, w i = x) :
    ∑ i ∈ s, θ i = (∑ i ∈ s, k i) * (∑ i ∈ s, γ i) ∧
    ∑ i ∈ s, σ i = (∑ i ∈ s, k i) * x ∧
    ∑ i ∈ s, sh i = (∑ i ∈ s, k i) * (m + r * x) := by
  have h1 : ∑ i ∈ s, θ i = (∑ i ∈ s, k i) * (∑ i ∈ s, γ i) := by
    rw [Finset.sum_congr rfl hθ]; exact sigma_sum s k γ α β hαβ
  have h2 : ∑ i ∈ s, σ i = (∑ i ∈ s, k i) * x := by
    rw [Finset.sum_congr rfl hσ, ← hw]; exact sigma_sum s k w μ ν hμν
  refine ⟨h1, h2, ?_⟩
  rw [Finset.sum_congr rfl hs, Finset.sum_add_distrib, ← Finset.mul_sum, ← Finset.mul_sum, h2]
  ring

/-! ### the transcript function -/

variable {P : Type} {C : Curve P}

/-- `(Σθ)⁻¹ · (γ·G) = k⁻¹·G` when `Σθ ≡ k·γ` -/
theorem ecdsaFromTranscript_point (hC : C.Lawful) (θ k γ kinv ti : ℕ)
    (hθ : θ ≡ k * γ [MOD C.q]) (hk : k * kinv ≡ 1 [MOD C.q])
    (hti : modInverse (((θ % C.q : ℕ)) : Int) C.q = some ti) :
    C.smul ti (C.smul γ C.base) = C.smul kinv C.base := by
  haveI : Fact C.q.Prime := ⟨hC.q_prime⟩
  rw [← hC.smul_mul, hC.smul_base_eq_iff, ← ZMod.natCast_eq_natCast_iff]
  have e0 : (θ : ZMod C.q) * (ti : ZMod C.q) = 1 := by
    have h1 := (modInverse_specV hti).1
    have := (ZMod.intCast_eq_intCast_iff' _ _ C.q).2 h1
    push_cast at this
    exact this
  have e1 : (k : ZMod C.q) * γ * ti = 1 := by
    have := (ZMod.natCast_eq_natCast_iff _ _ _).2 hθ
    push_cast at this
    rw [this] at e0
    exact e0
  have e2 : (k : ZMod C.q) * kinv = 1 := by
    have := (ZMod.natCast_eq_natCast_iff _ _ _).2 hk
    push_cast at this
    exact this
  push_cast
  linear_combination (kinv : ZMod C.q) * e1 - (ti : ZMod C.q) * γ * e2

/-- the inverse of `Σθ` exists when `Σθ ≡ kγ` with `k` invertible and `γ ≢ 0` -/
theorem theta_inverse_isSome (hC : C.Lawful) (θ k γ kinv : ℕ)
    (hθ : θ ≡ k * γ [MOD C.q]) (hk : k * kinv ≡ 1 [MOD C.q]) (hγ : γ % C.q ≠ 0) :
    ∃ ti, modInverse (((θ % C.q : ℕ)) : Int) C.q = some ti := by
  haveI : Fact C.q.Prime := ⟨hC.q_prime⟩
  have e2 : (k : ZMod C.q) * kinv = 1 := by
    have := (ZMod.natCast_eq_natCast_iff _ _ _).2 hk
    push_cast at this
    exact this
  have hne : (((θ % C.q : ℕ) : ℤ) : ZMod C.q) ≠ 0 := by
    rw [Int.cast_natCast, ZMod.natCast_mod]
    have := (ZMod.natCast_eq_natCast_iff _ _ _).2 hθ
    rw [this]
    push_cast
    intro h0
    rcases mul_eq_zero.1 h0 with h | h
    · rw [h, zero_mul] at e2; exact zero_ne_one e2
    · rw [ZMod.natCast_eq_zero_iff] at h
      exact hγ (Nat.mod_eq_zero_of_dvd h)
  obtain ⟨b, hb, _⟩ := modInverse_of_ne_zero hne
  exact ⟨b, hb⟩

theorem foldl_add_eq_sum (l : List ℕ) (a : ℕ) : l.foldl (· + ·) a = a + l.sum := by
  induction l generalizing a with
  | nil => simp
  | cons x l ih => rw [List.foldl_cons, ih, List.sum_cons, Nat.add_assoc]

/-- adding up points `γ_j·G` with `ecAdd`: the result is `(a + Σγ_j)·G` provided no partial sum is a
point without affine form (on a curve whose identity has an affine form this never happens) -/
theorem ecAdd_fold_base (hC : C.Lawful) : ∀ (γs : List ℕ) (gs : List ECPoint) (a : ℕ) (g0 : ECPoint),
    Vss.IsCommitment C γs gs → C.toAffine (C.smul a C.base) = some g0 →
    (∀ n, 1 ≤ n → n ≤ γs.length → C.toAffine (C.smul (a + (γs.take n).sum) C.base) ≠ none) →
    ∃ r, gs.foldlM (fun acc g => C.ecAdd acc g) g0 = .ok r ∧
      C.toAffine (C.smul (a + γs.sum) C.base) = some r := by
  intro γs
  induction γs with
  | nil =>
    intro gs a g0 hcom ha _
    cases hcom
    exact ⟨g0, rfl, by simpa using ha⟩
  | cons γ γs ih =>
    intro gs a g0 hcom ha hpart
    cases hcom with
    | cons hγ hrest =>
    rename_i g gs'
    have h1 := hpart 1 (le_refl _) (by simp)
    simp only [List.take_succ_cons, List.take_zero, List.sum_cons, List.sum_nil, Nat.add_zero] at h1
    obtain ⟨r1, hr1⟩ : ∃ r1, C.toAffine (C.smul (a + γ) C.base) = some r1 := by
      cases hh : C.toAffine (C.smul (a + γ) C.base) with
      | none => exact absurd hh h1
      | some r1 => exact ⟨r1, rfl⟩
    have hstep : C.ecAdd g0 g = .ok r1 := by
      unfold Curve.ecAdd
      rw [lift_of_toAffine hC ha, lift_of_toAffine hC hγ]
      simp only
      rw [← hC.smul_add, hr1]
    obtain ⟨r, hr, hra⟩ := ih gs' (a + γ) r1 hrest hr1 (by
      intro n hn1 hn2
      have := hpart (n + 1) (by omega) (by simpa using hn2)
      simpa [List.take_succ_cons, Nat.add_assoc] using this)
    refine ⟨r, ?_, by simpa [Nat.add_assoc] using hra⟩
    rw [List.foldlM_cons, hstep]
    exact hr

/-- **the transcript function is `finalize` at `R = k⁻¹·G`** -/
theorem ecdsaFromTranscript_eq (hC : C.Lawful) (pub : ECPoint) (thetas ss : List ℕ)
    (g0 : ECPoint) (gs : List ECPoint) (m fullLen : ℕ) (sumG R : ECPoint) (k γ kinv : ℕ)
    (hG : gs.foldlM (fun acc g => C.ecAdd acc g) g0 = .ok sumG)
    (hγ : C.toAffine (C.smul γ C.base) = some sumG)
    (hθ : thetas.sum ≡ k * γ [MOD C.q]) (hk : k * kinv ≡ 1 [MOD C.q]) (hγ0 : γ % C.q ≠ 0)
    (hR : C.toAffine (C.smul kinv C.base) = some R) :
    ecdsaFromTranscript C pub thetas (g0 :: gs) ss m fullLen =
      ecdsaFinalize C pub R.1 R.2 (ss.sum % C.q) m fullLen := by
  obtain ⟨ti, hti⟩ := theta_inverse_isSome hC thetas.sum k γ kinv hθ hk hγ0
  have hpt := ecdsaFromTranscript_point hC thetas.sum k γ kinv ti hθ hk hti
  unfold ecdsaFromTranscript
  simp only [foldl_add_eq_sum, Nat.zero_add]
  rw [hti]
  simp only
  rw [hG]
  simp only
  have : C.ecScalarMult sumG (ti : Int) = .ok R := by
    unfold Curve.ecScalarMult
    rw [lift_of_toAffine hC hγ]
    simp only [Int.natAbs_natCast]
    rw [hpt, hR]
  rw [this]

/-! ### `hashToInt` on short inputs -/

theorem hashToInt_of_short (q : ℕ) (h : Bytes) (hl : h.length * 8 ≤ bitLen q) :
    hashToInt q h = bytesToNat h := by
  unfold hashToInt
  have h1 : h.length ≤ (bitLen q + 7) / 8 := by omega
  simp only [List.take_of_length_le h1]
  rw [Nat.sub_eq_zero_of_le hl, Nat.pow_zero, Nat.div_one]

end TssVerif.AlgL
