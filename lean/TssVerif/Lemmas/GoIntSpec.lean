import TssVerif.Core.GoInt
import Mathlib.Tactic.Ring
import Mathlib.Tactic.Linarith
import Mathlib.Data.Int.ModEq
import Mathlib.Data.Int.GCD
/-! Specifications of the `math/big` model in `TssVerif/Core/GoInt.lean`:

* `modPow_spec      : modPow x e m = x ^ e % m` (every `x e m`, also `m = 0`, where `% 0` is the identity);
* `modInverse_spec  : modInverse a n = some b → a * b % n = 1 % n ∧ b < n` (soundness);
* `modInverse_isSome: n ≠ 0 → Int.gcd a n = 1 → (modInverse a n).isSome` (the fuel always suffices);
* `modInverse_isSome_iff`, `modInverse_eq_none_iff` : exact characterisation of Go's `nil` result;
* `goExp_*` : the same for Go's `Exp` with possibly negative exponent. -/
namespace TssVerif

/-! ## `modPow` -/

/-- value of an MSB-first bit list appended to the binary digits of `v` -/
def bitsVal (bs : List Bool) (v : Nat) : Nat := bs.foldl (fun v b => 2 * v + b.toNat) v

@[simp] theorem bitsVal_nil (v : Nat) : bitsVal [] v = v := rfl
@[simp] theorem bitsVal_cons (b : Bool) (bs : List Bool) (v : Nat) :
    bitsVal (b :: bs) v = bitsVal bs (2 * v + b.toNat) := rfl

theorem modPowBits_spec (x m : Nat) : ∀ (bs : List Bool) (acc v : Nat), acc = x ^ v % m →
    modPowBits x m bs acc = x ^ bitsVal bs v % m := by
  intro bs
  induction bs with
  | nil => intro acc v h; simpa [modPowBits] using h
  | cons b bs ih =>
    intro acc v h
    rw [modPowBits, bitsVal_cons]
    apply ih
    have hsq : acc * acc % m = x ^ (2 * v) % m := by
      rw [h, ← Nat.mul_mod, ← Nat.pow_add, Nat.two_mul]
    cases b with
    | false => simpa using hsq
    | true =>
      simp only [if_true, Bool.toNat_true]
      rw [hsq, Nat.mod_mul_mod, Nat.pow_succ]

theorem bitsVal_range (e : Nat) : ∀ (k v : Nat),
    bitsVal ((List.range k).reverse.map fun i => e.testBit i) v = v * 2 ^ k + e % 2 ^ k := by
  intro k
  induction k with
  | zero => intro v; simp [Nat.mod_one]
  | succ k ih =>
    intro v
    rw [List.range_succ, List.reverse_append, List.reverse_singleton, List.singleton_append,
      List.map_cons, bitsVal_cons, ih, Nat.toNat_testBit, Nat.mod_pow_succ (x := e) (b := 2) (k := k)]
    ring

theorem bitsVal_bitsMSB (e : Nat) : bitsVal (bitsMSB e) 0 = e := by
  unfold bitsMSB
  rw [bitsVal_range, Nat.zero_mul, Nat.zero_add, Nat.mod_eq_of_lt Nat.lt_log2_self]

/-- **`modPow` is modular exponentiation** (for `m = 0` both sides are `x ^ e`, as in Go's `Exp`) -/
theorem modPow_spec (x e m : Nat) : modPow x e m = x ^ e % m := by
  unfold modPow
  split
  · rename_i h; subst h; simp
  · split
    · rename_i h; subst h; simp
    · rw [modPowBits_spec (x % m) m (bitsMSB e) (1 % m) 0 (by simp), bitsVal_bitsMSB, ← Nat.pow_mod]

theorem modPow_lt {m : Nat} (x e : Nat) (hm : m ≠ 0) : modPow x e m < m := by
  rw [modPow_spec]; exact Nat.mod_lt _ (Nat.pos_of_ne_zero hm)

theorem modPow_modEq (x e m : Nat) : modPow x e m ≡ x ^ e [MOD m] := by
  rw [modPow_spec]; exact Nat.mod_modEq _ _

theorem modPow_zero_exp (x m : Nat) : modPow x 0 m = 1 % m := by
  rw [modPow_spec, Nat.pow_zero]

theorem modPow_mod_base (x e m : Nat) : modPow (x % m) e m = modPow x e m := by
  rw [modPow_spec, modPow_spec, ← Nat.pow_mod]

/-! ## `xgcdAux` and `modInverse` -/

theorem xgcdAux_zero_right (f : Nat) (r0 s0 s1 : Int) : xgcdAux (f + 1) r0 0 s0 s1 = (r0, s0) := by
  simp [xgcdAux]

theorem xgcdAux_step (f : Nat) {r0 r1 : Int} (s0 s1 : Int) (h : r1 ≠ 0) :
    xgcdAux (f + 1) r0 r1 s0 s1 = xgcdAux f r1 (r0 % r1) s1 (s0 - r0 / r1 * s1) := by
  rw [xgcdAux, if_neg h, Int.emod_def, Int.mul_comm r1]

/-- Bezout invariant: both remainders stay in `s * a + ℤ n` -/
theorem xgcdAux_bezout (a n : Int) : ∀ (fuel : Nat) (r0 r1 s0 s1 : Int),
    (∃ t, r0 = s0 * a + t * n) → (∃ t, r1 = s1 * a + t * n) →
    ∃ t, (xgcdAux fuel r0 r1 s0 s1).1 = (xgcdAux fuel r0 r1 s0 s1).2 * a + t * n := by
  intro fuel
  induction fuel with
  | zero => intro r0 r1 s0 s1 h0 _; simpa [xgcdAux] using h0
  | succ k ih =>
    intro r0 r1 s0 s1 h0 h1
    unfold xgcdAux
    split
    · simpa using h0
    · apply ih _ _ _ _ h1
      obtain ⟨t0, e0⟩ := h0
      obtain ⟨t1, e1⟩ := h1
      exact ⟨t0 - r0 / r1 * t1, by rw [e0, e1]; ring⟩

theorem two_mul_emod_lt {a b : Int} (hb : 0 < b) (hab : b ≤ a) : 2 * (a % b) < a := by
  have h1 := Int.mul_ediv_add_emod a b
  have h2 := Int.emod_lt_of_pos a hb
  have h3 : 1 ≤ a / b := Int.le_ediv_of_mul_le hb (by simpa using hab)
  nlinarith

/-- **Fuel sufficiency**: with `r1 < 2 ^ k`, `2 k + 1` steps of Euclid reach remainder zero, and the
first component is then the gcd. -/
theorem xgcdAux_fst : ∀ (k fuel : Nat) (r0 r1 s0 s1 : Int), 0 ≤ r1 → r1 < r0 → r1 < 2 ^ k →
    2 * k + 1 ≤ fuel → (xgcdAux fuel r0 r1 s0 s1).1 = Int.gcd r0 r1 := by
  have base : ∀ (f : Nat) (r0 s0 s1 : Int), 0 < r0 → (xgcdAux (f + 1) r0 0 s0 s1).1 = Int.gcd r0 0 := by
    intro f r0 s0 s1 h
    rw [xgcdAux_zero_right, Int.gcd_zero_right, Int.natAbs_of_nonneg (le_of_lt h)]
  intro k
  induction k with
  | zero =>
    intro fuel r0 r1 s0 s1 h0 h1 h2 hf
    obtain ⟨f, rfl⟩ : ∃ f, fuel = f + 1 := ⟨fuel - 1, by omega⟩
    have : r1 = 0 := by simp at h2; omega
    subst this
    exact base f r0 s0 s1 h1
  | succ k ih =>
    intro fuel r0 r1 s0 s1 h0 h1 h2 hf
    obtain ⟨f, rfl⟩ : ∃ f, fuel = f + 2 := ⟨fuel - 2, by omega⟩
    by_cases hr1 : r1 = 0
    · subst hr1; exact base (f + 1) r0 s0 s1 h1
    · have hr1pos : 0 < r1 := lt_of_le_of_ne h0 (Ne.symm hr1)
      have g1 : Int.gcd r0 r1 = Int.gcd r1 (r0 % r1) := by
        rw [Int.gcd_comm r1, Int.gcd_emod]
      rw [xgcdAux_step (f + 1) s0 s1 hr1, g1]
      have hr2 : 0 ≤ r0 % r1 := Int.emod_nonneg _ hr1
      have hr2lt : r0 % r1 < r1 := Int.emod_lt_of_pos _ hr1pos
      by_cases hr2z : r0 % r1 = 0
      · rw [hr2z]; exact base f r1 _ _ hr1pos
      · have hr2pos : 0 < r0 % r1 := lt_of_le_of_ne hr2 (Ne.symm hr2z)
        have g2 : Int.gcd r1 (r0 % r1) = Int.gcd (r0 % r1) (r1 % (r0 % r1)) := by
          rw [Int.gcd_comm (r0 % r1), Int.gcd_emod]
        rw [xgcdAux_step f _ _ hr2z, g2]
        apply ih
        · exact Int.emod_nonneg _ hr2z
        · exact Int.emod_lt_of_pos _ hr2pos
        · have := two_mul_emod_lt hr2pos (le_of_lt hr2lt)
          rw [pow_succ] at h2
          omega
        · omega

theorem natCast_lt_two_pow_log2 (n : Nat) : (n : Int) < 2 ^ (n.log2 + 1) := by
  exact_mod_cast (Nat.lt_log2_self : n < 2 ^ (n.log2 + 1))

/-- the extended-Euclid call made by `modInverse` returns the gcd -/
theorem xgcdAux_modInverse_fst (a : Int) {n : Nat} (hn : n ≠ 0) :
    (xgcdAux (2 * n.log2 + 4) (n : Int) (a % (n : Int)) 0 1).1 = Int.gcd a n := by
  have hnpos : (0 : Int) < n := by exact_mod_cast Nat.pos_of_ne_zero hn
  rw [xgcdAux_fst (n.log2 + 1) _ _ _ _ _ (Int.emod_nonneg _ (ne_of_gt hnpos))
    (Int.emod_lt_of_pos _ hnpos)
    (lt_trans (Int.emod_lt_of_pos _ hnpos) (natCast_lt_two_pow_log2 n)) (by omega),
    Int.gcd_comm, Int.gcd_emod]

/-- `modInverse` unfolded with the gcd made explicit -/
theorem modInverse_eq (a : Int) {n : Nat} (hn : n ≠ 0) :
    modInverse a n =
      if Int.gcd a n = 1 then
        some ((xgcdAux (2 * n.log2 + 4) (n : Int) (a % (n : Int)) 0 1).2 % (n : Int)).toNat
      else none := by
  have hg := xgcdAux_modInverse_fst a hn
  unfold modInverse
  rw [if_neg hn]
  show (if (xgcdAux (2 * n.log2 + 4) (n : Int) (a % (n : Int)) 0 1).1 = 1 then
      some ((xgcdAux (2 * n.log2 + 4) (n : Int) (a % (n : Int)) 0 1).2 % (n : Int)).toNat
    else (if n = 1 then some 0 else none)) = _
  rw [hg]
  by_cases h : Int.gcd a n = 1
  · have h' : ((Int.gcd a n : Nat) : Int) = 1 := by exact_mod_cast h
    rw [if_pos h', if_pos h]
  · have h' : ¬ ((Int.gcd a n : Nat) : Int) = 1 := by exact_mod_cast h
    rw [if_neg h', if_neg h]
    split
    · rename_i h1; subst h1; simp at h
    · rfl

/-- **soundness of `modInverse`** -/
theorem modInverse_spec {a : Int} {n b : Nat} (h : modInverse a n = some b) :
    (a * b) % (n : Int) = 1 % (n : Int) ∧ b < n := by
  by_cases hn : n = 0
  · subst hn; simp [modInverse] at h
  rw [modInverse_eq a hn] at h
  split at h
  · rename_i hg
    injection h with hb
    subst hb
    obtain ⟨t, ht⟩ := xgcdAux_bezout (a % n) n (2 * n.log2 + 4) (n : Int) (a % n) 0 1
      ⟨1, by ring⟩ ⟨0, by ring⟩
    rw [xgcdAux_modInverse_fst a hn, hg] at ht
    generalize (xgcdAux (2 * n.log2 + 4) (↑n) (a % ↑n) 0 1).2 = x at ht ⊢
    have hnpos : (0 : Int) < n := by exact_mod_cast Nat.pos_of_ne_zero hn
    have hx0 : 0 ≤ x % (n : Int) := Int.emod_nonneg _ (ne_of_gt hnpos)
    have hxlt : x % (n : Int) < n := Int.emod_lt_of_pos _ hnpos
    refine ⟨?_, by omega⟩
    rw [Int.toNat_of_nonneg hx0]
    have : (a * (x % (n : Int))) % n = (x * (a % n)) % n := by
      have e1 : a * (x % (n : Int)) ≡ a * x [ZMOD n] := Int.ModEq.mul_left _ (Int.mod_modEq x n)
      have e2 : x * (a % (n : Int)) ≡ x * a [ZMOD n] := Int.ModEq.mul_left _ (Int.mod_modEq a n)
      have e3 : a * x = x * a := mul_comm _ _
      exact (e1.trans (e3 ▸ Int.ModEq.refl _)).trans e2.symm
    rw [this]
    have : x * (a % (n : Int)) = 1 - t * n := by push_cast at ht; linarith
    rw [this, sub_eq_add_neg, ← neg_mul, Int.add_mul_emod_self_right]
  · simp at h

/-- **completeness of `modInverse`**: the fuel `2·log2 n + 4` always suffices -/
theorem modInverse_isSome {a : Int} {n : Nat} (hn : n ≠ 0) (hg : Int.gcd a n = 1) :
    (modInverse a n).isSome := by
  rw [modInverse_eq a hn, if_pos hg]; rfl

/-- Go's `ModInverse` returns non-nil exactly for a positive modulus and a unit -/
theorem modInverse_isSome_iff (a : Int) (n : Nat) :
    (modInverse a n).isSome ↔ n ≠ 0 ∧ Int.gcd a n = 1 := by
  by_cases hn : n = 0
  · subst hn; simp [modInverse]
  · rw [modInverse_eq a hn]
    by_cases hg : Int.gcd a n = 1 <;> simp [hg, hn]

theorem modInverse_eq_none_iff (a : Int) (n : Nat) :
    modInverse a n = none ↔ n = 0 ∨ Int.gcd a n ≠ 1 := by
  rw [← Option.not_isSome_iff_eq_none, modInverse_isSome_iff]
  by_cases hn : n = 0 <;> simp [hn]

/-- existence form, convenient for `obtain` -/
theorem modInverse_exists {a : Int} {n : Nat} (hn : n ≠ 0) (hg : Int.gcd a n = 1) :
    ∃ b : Nat, modInverse a n = some b ∧ (a * b) % (n : Int) = 1 % (n : Int) ∧ b < n := by
  obtain ⟨b, hb⟩ := Option.isSome_iff_exists.1 (modInverse_isSome hn hg)
  exact ⟨b, hb, modInverse_spec hb⟩

/-- natural-number form of the specification -/
theorem modInverse_spec_nat {a n b : Nat} (h : modInverse (a : Int) n = some b) :
    a * b % n = 1 % n ∧ b < n := by
  obtain ⟨h1, h2⟩ := modInverse_spec h
  exact ⟨by exact_mod_cast h1, h2⟩

/-- the inverse only depends on the residue of the argument -/
theorem modInverse_emod (a : Int) (n : Nat) : modInverse (a % (n : Int)) n = modInverse a n := by
  unfold modInverse
  rw [Int.emod_emod_of_dvd _ (dvd_refl _)]

/-! ## `goExp` -/

theorem goExp_zero_mod (x y : Int) : goExp x y 0 = none := by simp [goExp]

theorem goExp_of_nonneg (x : Int) {y : Int} {m : Nat} (hm : m ≠ 0) (hy : 0 ≤ y) :
    goExp x y m = some ((x % (m : Int)).toNat ^ y.toNat % m) := by
  unfold goExp
  rw [if_neg hm]
  simp only [ge_iff_le, hy, if_true, modPow_spec]

theorem goExp_of_neg (x : Int) {y : Int} {m : Nat} (hm : m ≠ 0) (hy : y < 0) :
    goExp x y m = (modInverse x m).map fun inv => inv ^ (-y).toNat % m := by
  unfold goExp
  rw [if_neg hm]
  have : ¬ y ≥ 0 := by omega
  simp only [this, if_false]
  cases modInverse x m <;> simp [modPow_spec]

/-- Go's `Exp` returns nil exactly for modulus zero, or a negative exponent and a non-unit base -/
theorem goExp_eq_none_iff (x y : Int) (m : Nat) :
    goExp x y m = none ↔ m = 0 ∨ (y < 0 ∧ Int.gcd x m ≠ 1) := by
  by_cases hm : m = 0
  · subst hm; simp [goExp]
  · by_cases hy : 0 ≤ y
    · rw [goExp_of_nonneg x hm hy]; simp [hm]; omega
    · have hy' : y < 0 := by omega
      rw [goExp_of_neg x hm hy', Option.map_eq_none_iff, modInverse_eq_none_iff]
      simp [hm, hy']

end TssVerif
