import TssVerif.Lemmas.EngineOrder
/-! What a party waits for, what a wrong-flag message does, when a round advances, and how often `end` is signalled. -/
set_option autoImplicit false
namespace TssVerif.EngineL
open TssVerif.Engine

/-! ## 11. `WaitingFor` -/

theorem not_started_cases {p : Party} (hnd : ¬ (p.rnd = 0 ∨ p.done = true)) : p.rnd ≠ 0 ∧ p.done = false := by
  refine ⟨fun h => hnd (Or.inl h), ?_⟩
  cases hpd : p.done
  · rfl
  · exact absurd (Or.inr hpd) hnd

/-- `WaitingFor` never under-reports -/
theorem awaited_subset_waitingFor (tbl : List RoundSpec) (p : Party) (j : Nat) (h : j ∈ awaited tbl p) :
    j ∈ waitingFor p := by
  unfold awaited at h
  unfold waitingFor
  split at h
  · cases h
  · rename_i hnd
    rw [if_neg hnd]
    split at h
    · cases h
    · split at h
      · exact h
      · rw [List.mem_filter] at h ⊢
        refine ⟨h.1, ?_⟩
        have := h.2
        cases hok : p.ok j
        · rfl
        · rw [hok] at this; simp at this

/-- in a party whose scan is recorded and whose current round does not return early, `WaitingFor` is exact -/
theorem waitingFor_eq_awaited {tbl : List RoundSpec} {p : Party} (hrest : rest tbl p = p) (hrnd : p.rnd ≤ tbl.length)
    (hne : ∀ r, tbl[p.rnd - 1]? = some r → r.early = false) : waitingFor p = awaited tbl p := by
  unfold awaited waitingFor
  by_cases hnd : p.rnd = 0 ∨ p.done = true
  · rw [if_pos hnd, if_pos hnd]
  · rw [if_neg hnd, if_neg hnd]
    obtain ⟨h0, hd⟩ := not_started_cases hnd
    have hk : p.rnd - 1 < tbl.length := by omega
    have hr : tbl[p.rnd - 1]? = some tbl[p.rnd - 1] := List.getElem?_eq_getElem hk
    rw [hr]
    simp only
    split
    · rfl
    · rename_i hfin
      have hfin' : (tbl[p.rnd - 1]).final = false := by
        cases h : (tbl[p.rnd - 1]).final
        · rfl
        · exact absurd h hfin
      have hok : p.ok = scanOk tbl[p.rnd - 1] p := by
        have := rest_eq_of h0 hd hr
        rw [hrest] at this
        exact congrArg Party.ok this
      apply List.filter_congr
      intro j hj
      have hj' : j < p.n := List.mem_range.mp hj
      cases hs : sat tbl[p.rnd - 1] p.store j
      · simp
      · have : p.ok j = true := by
          rw [hok]
          exact (scanOk_iff _ p j).mpr (Or.inr ⟨hfin', hj', hs, Or.inl (hne _ hr)⟩)
        simp [this]

theorem rest_eq_self_applyEv {tbl : List RoundSpec} {p : Party} (e : Ev) (h : Settled tbl p) :
    rest tbl (applyEv tbl p e) = applyEv tbl p e := (settled_applyEv e h).2

/-! ## 12. wrong-flag messages -/

/-- the flag of `m` is wrong for every round that needs its type -/
def WrongFlag (tbl : List RoundSpec) (m : Msg) : Prop :=
  ∀ r ∈ tbl, ∀ tf ∈ r.needs, tf.1 = m.ty → tf.2 ≠ m.slot.flag

/-- a copy with the wrong flag never satisfies the requirement for its type -/
theorem sat_storeMsg_flag_flip (r : RoundSpec) (m : Msg) (p : Party) (req : Bool)
    (hneed : (m.ty, req) ∈ r.needs) (hflag : m.slot.flag ≠ req) :
    sat r (storeMsg m p).store m.frm = false := by
  cases h : sat r (storeMsg m p).store m.frm
  · rfl
  · rw [sat_iff] at h
    obtain ⟨s, hs, hf⟩ := h (m.ty, req) hneed
    simp only [storeMsg, and_self, if_true] at hs
    injection hs with hs
    subst hs
    exact absurd hf hflag

theorem sat_of_sat_storeMsg_wrong {tbl : List RoundSpec} {r : RoundSpec} (hr : r ∈ tbl) {m : Msg}
    (hw : WrongFlag tbl m) (p : Party) (j : Nat) (h : sat r (storeMsg m p).store j = true) :
    sat r p.store j = true := by
  rw [sat_iff] at *
  intro tf htf
  obtain ⟨s, hs, hf⟩ := h tf htf
  simp only [storeMsg] at hs
  by_cases hc : tf.1 = m.ty ∧ j = m.frm
  · rw [if_pos hc] at hs
    injection hs with hs
    subst hs
    exact absurd hf.symm (hw r hr tf htf hc.1)
  · rw [if_neg hc] at hs
    exact ⟨s, hs, hf⟩

/-- a settled party ignores a wrong-flag message: nothing but the store slot changes -/
theorem deliver_wrongFlag_settled {tbl : List RoundSpec} {p : Party} {m : Msg} (hs : Settled tbl p)
    (hw : WrongFlag tbl m) : deliver tbl m p = storeMsg m p := by
  rw [deliver_eq]
  apply settleF_of_settled
  by_cases hnd : p.rnd = 0 ∨ p.done = true
  · exact settled_of_not_started (p := storeMsg m p) hnd
  · obtain ⟨h0, hd⟩ := not_started_cases hnd
    cases hr : tbl[p.rnd - 1]? with
    | none => exact ⟨step_eq_of_none (p := storeMsg m p) hr, rest_eq_of_none (p := storeMsg m p) hr⟩
    | some r =>
      have hrm : r ∈ tbl := List.mem_of_getElem? hr
      have hok : p.ok = scanOk r p := by
        have := rest_eq_of h0 hd hr
        rw [hs.2] at this
        exact congrArg Party.ok this
      have hle : ∀ j, scanOk r (storeMsg m p) j = true → scanOk r p j = true := fun j hj =>
        scanOk_mono (p := storeMsg m p) (q := p) rfl (fun _ h => h)
          (fun j h => sat_of_sat_storeMsg_wrong hrm hw p j h) j hj
      have heq : scanOk r (storeMsg m p) = p.ok := by
        funext j
        apply Bool.eq_iff_iff.mpr
        constructor
        · intro h; rw [hok]; exact hle j h
        · intro h; exact scanOk_of_ok (p := storeMsg m p) h
      have hscan : scan r (storeMsg m p) = storeMsg m p := by
        show { storeMsg m p with ok := scanOk r (storeMsg m p) } = storeMsg m p
        rw [heq]; rfl
      refine ⟨?_, ?_⟩
      · rw [step_none_iff (p := storeMsg m p) h0 hd hr]
        have hn := (step_none_iff h0 hd hr).mp hs.1
        cases hc : canProceed (scan r (storeMsg m p))
        · rfl
        · have := canProceed_mono (p := scan r (storeMsg m p)) (q := scan r p) rfl hle hc
          rw [hn] at this; cases this
      · rw [rest_eq_of (p := storeMsg m p) h0 hd hr, hscan]

/-- the slot `(m.ty, m.frm)` holds nothing that any round would count -/
def SlotNotCounted (tbl : List RoundSpec) (m : Msg) (p : Party) : Prop :=
  ∀ s, p.store m.ty m.frm = some s → ∀ r ∈ tbl, ∀ tf ∈ r.needs, tf.1 = m.ty → tf.2 ≠ s.flag

theorem sat_storeMsg_wrong_eq {tbl : List RoundSpec} {r : RoundSpec} (hr : r ∈ tbl) {m : Msg} {p : Party}
    (hw : WrongFlag tbl m) (hnc : SlotNotCounted tbl m p) (j : Nat) :
    sat r (storeMsg m p).store j = sat r p.store j := by
  apply Bool.eq_iff_iff.mpr
  constructor
  · exact sat_of_sat_storeMsg_wrong hr hw p j
  · intro h
    rw [sat_iff] at *
    intro tf htf
    obtain ⟨s, hs, hf⟩ := h tf htf
    simp only [storeMsg]
    by_cases hc : tf.1 = m.ty ∧ j = m.frm
    · rw [hc.1, hc.2] at hs
      exact absurd hf.symm (hnc s hs r hr tf htf hc.1)
    · rw [if_neg hc]; exact ⟨s, hs, hf⟩

theorem scan_storeMsg_wrong {tbl : List RoundSpec} {r : RoundSpec} (hr : r ∈ tbl) {m : Msg} {p : Party}
    (hw : WrongFlag tbl m) (hnc : SlotNotCounted tbl m p) :
    scan r (storeMsg m p) = storeMsg m (scan r p) := by
  have hsat : ∀ j, sat r (storeMsg m p).store j = sat r p.store j := sat_storeMsg_wrong_eq hr hw hnc
  have e : scanOk r (storeMsg m p) = scanOk r p := by
    funext j
    apply Bool.eq_iff_iff.mpr
    constructor
    · exact scanOk_mono (p := storeMsg m p) (q := p) rfl (fun _ h => h) (fun j h => by rw [← hsat j]; exact h) j
    · exact scanOk_mono (p := p) (q := storeMsg m p) rfl (fun _ h => h) (fun j h => by rw [hsat j]; exact h) j
  show { storeMsg m p with ok := scanOk r (storeMsg m p) } = storeMsg m { p with ok := scanOk r p }
  rw [e]; rfl

theorem step_storeMsg_wrong {tbl : List RoundSpec} {m : Msg} {p : Party} (hself : m.frm ≠ p.self)
    (hw : WrongFlag tbl m) (hnc : SlotNotCounted tbl m p) :
    step tbl (storeMsg m p) = (step tbl p).map (storeMsg m) := by
  by_cases hnd : p.rnd = 0 ∨ p.done = true
  · rw [step_none_of_not_started hnd, step_none_of_not_started (p := storeMsg m p) hnd]; rfl
  · obtain ⟨h0, hd⟩ := not_started_cases hnd
    cases hr : tbl[p.rnd - 1]? with
    | none => rw [step_eq_of_none hr, step_eq_of_none (p := storeMsg m p) hr]; rfl
    | some r =>
      have hrm : r ∈ tbl := List.mem_of_getElem? hr
      rw [step_eq_of h0 hd hr, step_eq_of (p := storeMsg m p) h0 hd hr, scan_storeMsg_wrong hrm hw hnc]
      have e1 : (storeMsg m p).rnd = p.rnd := rfl
      have e2 : canProceed (storeMsg m (scan r p)) = canProceed (scan r p) := rfl
      rw [e1, e2]
      cases canProceed (scan r p)
      · rfl
      · simp only [if_true]
        cases tbl[p.rnd]? with
        | none => rfl
        | some r' =>
          simp only [Option.map]
          rw [startRound_storeMsg r' p.rnd m (scan r p) hself]

theorem rest_storeMsg_wrong {tbl : List RoundSpec} {m : Msg} {p : Party}
    (hw : WrongFlag tbl m) (hnc : SlotNotCounted tbl m p) :
    rest tbl (storeMsg m p) = storeMsg m (rest tbl p) := by
  by_cases hnd : p.rnd = 0 ∨ p.done = true
  · rw [rest_of_not_started hnd, rest_of_not_started (p := storeMsg m p) hnd]
  · obtain ⟨h0, hd⟩ := not_started_cases hnd
    cases hr : tbl[p.rnd - 1]? with
    | none => rw [rest_eq_of_none hr, rest_eq_of_none (p := storeMsg m p) hr]
    | some r =>
      rw [rest_eq_of h0 hd hr, rest_eq_of (p := storeMsg m p) h0 hd hr,
        scan_storeMsg_wrong (List.mem_of_getElem? hr) hw hnc]

theorem step_store_other {tbl : List RoundSpec} {p p' : Party} (hs : step tbl p = some p') (t j : Nat)
    (hj : j ≠ p.self) : p'.store t j = p.store t j := by
  obtain ⟨_, _, r, _, _, hc⟩ := step_cases hs
  rcases hc with ⟨r', _, rfl⟩ | ⟨_, rfl⟩
  · simp only [startRound, scan, putSelf]
    rw [if_neg (fun h => hj h.1)]
  · rfl

/-- a wrong-flag message into a slot that holds nothing countable is a no-op for the protocol:
the party ends where it would have ended without it, only the slot content differs -/
theorem deliver_wrongFlag (tbl : List RoundSpec) (m : Msg) (p : Party) (hself : m.frm ≠ p.self)
    (hw : WrongFlag tbl m) (hnc : SlotNotCounted tbl m p) :
    deliver tbl m p = storeMsg m (settleF tbl p) := by
  rw [deliver_eq]
  refine settleF_induction (tbl := tbl)
    (fun p q => m.frm ≠ p.self → SlotNotCounted tbl m p → settleF tbl (storeMsg m p) = storeMsg m q) ?_ ?_ p hself hnc
  · intro p hs _ hnc
    have : step tbl (storeMsg m p) = none := by
      rw [step_storeMsg_wrong ‹_› hw hnc, hs]; rfl
    rw [settleF_of_step_none this, rest_storeMsg_wrong hw hnc]
  · intro p p' hs ih hself hnc
    have : step tbl (storeMsg m p) = some (storeMsg m p') := by
      rw [step_storeMsg_wrong hself hw hnc, hs]; rfl
    rw [settleF_of_step_some this]
    refine ih (by rw [step_self hs]; exact hself) ?_
    intro s hs'
    rw [step_store_other hs m.ty m.frm hself] at hs'
    exact hnc s hs'

/-! ## 13. a round advances only when its requirements are met -/

theorem advance_requires (tbl : List RoundSpec) (p p' : Party) (hs : step tbl p = some p') :
    ∃ r, tbl[p.rnd - 1]? = some r ∧
      (∀ j, j < p.n → p.ok j = true ∨ (r.final = false ∧ sat r p.store j = true)) ∧
      ((p'.rnd = p.rnd + 1 ∧ p'.done = false) ∨ (p'.rnd = p.rnd ∧ p'.done = true ∧ p.rnd = tbl.length)) := by
  obtain ⟨h0, hd, r, hr, hcp, hc⟩ := step_cases hs
  refine ⟨r, hr, ?_, ?_⟩
  · intro j hj
    have := (canProceed_iff (scan r p)).mp hcp j hj
    rcases ok_or_sat_of_scanOk (r := r) (p := p) this with h | ⟨h1, _, h2⟩
    · exact Or.inl h
    · exact Or.inr ⟨h1, h2⟩
  · rcases hc with ⟨r', _, rfl⟩ | ⟨hn, rfl⟩
    · exact Or.inl ⟨rfl, hd⟩
    · refine Or.inr ⟨rfl, rfl, ?_⟩
      have h1 := lt_of_getElem?_some hr
      have h2 := List.getElem?_eq_none_iff.mp hn
      omega

/-! ## 14. `end` -/

/-- exactly one final round, and it is the last one -/
def finalLast : List RoundSpec → Bool
  | [] => false
  | [r] => r.final
  | r :: r' :: rs => !r.final && finalLast (r' :: rs)

theorem endsUpTo_cons_succ (r : RoundSpec) (rs : List RoundSpec) (k : Nat) :
    endsUpTo (r :: rs) (k + 1) = (if r.final then 1 else 0) + endsUpTo rs k := by
  simp [endsUpTo]

theorem endsUpTo_finalLast : ∀ (tbl : List RoundSpec), finalLast tbl = true → ∀ k, k ≤ tbl.length →
    endsUpTo tbl k = if k = tbl.length then 1 else 0
  | [], h, _, _ => by simp [finalLast] at h
  | [r], h, k, hk => by
    simp only [finalLast] at h
    cases k with
    | zero => simp [endsUpTo]
    | succ k =>
      have : k = 0 := by simp at hk; omega
      subst this
      simp [endsUpTo, h]
  | r :: r' :: rs, h, k, hk => by
    simp only [finalLast, Bool.and_eq_true, Bool.not_eq_true'] at h
    cases k with
    | zero => simp [endsUpTo]
    | succ k =>
      rw [endsUpTo_cons_succ, endsUpTo_finalLast (r' :: rs) h.2 k (by simp at hk ⊢; omega), h.1]
      simp

theorem finalLast_getElem? : ∀ (tbl : List RoundSpec), finalLast tbl = true → ∀ i r, tbl[i]? = some r →
    (r.final = true ↔ i + 1 = tbl.length)
  | [], h, _, _, _ => by simp [finalLast] at h
  | [r0], h, i, r, hi => by
    simp only [finalLast] at h
    cases i with
    | zero => simp at hi; subst hi; simp [h]
    | succ i => simp at hi
  | r0 :: r' :: rs, h, i, r, hi => by
    simp only [finalLast, Bool.and_eq_true, Bool.not_eq_true'] at h
    cases i with
    | zero => simp at hi; subst hi; simp [h.1]
    | succ i =>
      have hi' : (r' :: rs)[i]? = some r := by simpa using hi
      have := finalLast_getElem? (r' :: rs) h.2 i r hi'
      rw [this]; simp

theorem finalLast_ne_nil {tbl : List RoundSpec} (h : finalLast tbl = true) : 0 < tbl.length := by
  cases tbl with
  | nil => simp [finalLast] at h
  | cons _ _ => simp

end TssVerif.EngineL
