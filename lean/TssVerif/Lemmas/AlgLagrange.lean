import TssVerif.Core.Sign
import TssVerif.Lemmas.ModInverse
import Mathlib.LinearAlgebra.Lagrange
import Mathlib.FieldTheory.Finite.Basic
import Mathlib.Data.ZMod.Basic
import Mathlib.Tactic.Ring
import Mathlib.Tactic.FieldSimp
/-! `Sign.weight` (the loop of `PrepareForSigning`) is the Lagrange weight at `0` over `ZMod q`:
field view of `coef` / `weight`, totality on ids that are distinct modulo `q`, and the sum of the
weights of shares lying on a polynomial of degree below the number of signers. -/
set_option autoImplicit false
namespace TssVerif.AlgL
open TssVerif Sign

variable {q : ℕ} [Fact q.Prime]

theorem coef_cast {ki kj c : ℕ} (h : coef q ki kj = some c) :
    (c : ZMod q) = (kj : ZMod q) * ((kj : ZMod q) - (ki : ZMod q))⁻¹ := by
  unfold coef at h
  cases hm : modInverse ((kj : Int) - (ki : Int)) q with
  | none => simp [hm] at h
  | some inv =>
    simp only [hm, Option.map_some, Option.some.injEq] at h
    subst h
    have := modInverse_cast (q := q) hm
    rw [ZMod.natCast_mod, Nat.cast_mul, this]
    push_cast
    ring

theorem coef_isSome {ki kj : ℕ} (h : (kj : ZMod q) ≠ (ki : ZMod q)) :
    ∃ c, coef q ki kj = some c := by
  have hne : ((((kj : Int) - (ki : Int) : ℤ)) : ZMod q) ≠ 0 := by
    push_cast
    exact sub_ne_zero.2 h
  obtain ⟨b, hb, _⟩ := modInverse_of_ne_zero hne
  exact ⟨kj * b % q, by unfold coef; rw [hb]; rfl⟩

/-- the field term contributed by position `j` for party `i` -/
noncomputable def term (q : ℕ) (ks : List ℕ) (i j : ℕ) : ZMod q :=
  (ks.getD j 0 : ZMod q) * ((ks.getD j 0 : ZMod q) - (ks.getD i 0 : ZMod q))⁻¹

theorem weight_fold_cast (ks : List ℕ) (i : ℕ) (l : List ℕ) :
    ∀ (x w : ℕ), l.foldlM (fun w j =>
        if j = i then some w else (coef q (ks.getD i 0) (ks.getD j 0)).map fun c => w * c % q) x = some w →
      (w : ZMod q) = (x : ZMod q) * ((l.filter (· ≠ i)).map (term q ks i)).prod := by
  induction l with
  | nil => intro x w h; simp at h; subst h; simp
  | cons j l ih =>
    intro x w h
    rw [List.foldlM_cons] at h
    by_cases hj : j = i
    · simp only [hj, if_true, Option.bind_eq_bind, Option.bind_some] at h
      rw [ih x w h]; simp [hj]
    · rw [if_neg hj] at h
      cases hc : coef q (ks.getD i 0) (ks.getD j 0) with
      | none => rw [hc] at h; simp at h
      | some c =>
        rw [hc] at h
        simp only [Option.map_some, Option.bind_eq_bind, Option.bind_some] at h
        rw [ih _ w h]
        have : ((x * c % q : ℕ) : ZMod q) = (x : ZMod q) * term q ks i j := by
          rw [ZMod.natCast_mod, Nat.cast_mul, coef_cast hc]; rfl
        rw [this]
        simp [hj, mul_assoc]

theorem weight_fold_isSome (ks : List ℕ) (i : ℕ) (l : List ℕ)
    (hl : ∀ j ∈ l, j ≠ i → (ks.getD j 0 : ZMod q) ≠ (ks.getD i 0 : ZMod q)) :
    ∀ (x : ℕ), ∃ w, l.foldlM (fun w j =>
        if j = i then some w else (coef q (ks.getD i 0) (ks.getD j 0)).map fun c => w * c % q) x = some w := by
  induction l with
  | nil => intro x; exact ⟨x, rfl⟩
  | cons j l ih =>
    intro x
    have hl' : ∀ k ∈ l, k ≠ i → (ks.getD k 0 : ZMod q) ≠ (ks.getD i 0 : ZMod q) :=
      fun k hk => hl k (List.mem_cons_of_mem _ hk)
    rw [List.foldlM_cons]
    by_cases hj : j = i
    · simp only [hj, if_true, Option.bind_eq_bind, Option.bind_some]
      exact ih hl' x
    · rw [if_neg hj]
      obtain ⟨c, hc⟩ := coef_isSome (q := q) (hl j (List.mem_cons_self ..) hj)
      rw [hc]
      simp only [Option.map_some, Option.bind_eq_bind, Option.bind_some]
      exact ih hl' _

/-- field view of a successful `weight` call -/
theorem weight_cast (ks : List ℕ) (i xi w : ℕ) (h : weight q ks i xi = some w) :
    (w : ZMod q) = (xi : ZMod q) * ∏ j ∈ (Finset.range ks.length).erase i, term q ks i j := by
  unfold weight at h
  rw [weight_fold_cast ks i _ xi w h]
  congr 1
  rw [← List.prod_toFinset _ ((List.nodup_range).filter _)]
  congr 1
  ext j
  simp [and_comm]

/-- `weight` never meets a nil inverse when the other ids differ from `ks[i]` modulo `q` -/
theorem weight_isSome_cast (ks : List ℕ) (i xi : ℕ)
    (h : ∀ j, j < ks.length → j ≠ i → (ks.getD j 0 : ZMod q) ≠ (ks.getD i 0 : ZMod q)) :
    ∃ w, weight q ks i xi = some w :=
  weight_fold_isSome ks i _ (fun j hj => h j (List.mem_range.1 hj)) xi

/-- the weight is linear in the share: `weight(x) ≡ x · weight(1)` -/
theorem weight_cast_lagrange (ks : List ℕ) (i xi w : ℕ) (hi : i < ks.length)
    (hinj : Set.InjOn (fun j => (ks.getD j 0 : ZMod q)) (Finset.range ks.length : Set ℕ))
    (h : weight q ks i xi = some w) :
    (w : ZMod q) = (xi : ZMod q) *
      Polynomial.eval 0 (Lagrange.basis (Finset.range ks.length) (fun j => (ks.getD j 0 : ZMod q)) i) := by
  rw [weight_cast ks i xi w h]
  congr 1
  simp only [Lagrange.basis, Polynomial.eval_prod, Lagrange.basisDivisor, Polynomial.eval_mul,
    Polynomial.eval_C, Polynomial.eval_sub, Polynomial.eval_X]
  refine Finset.prod_congr rfl fun j hj => ?_
  have hne : (ks.getD j 0 : ZMod q) ≠ (ks.getD i 0 : ZMod q) := by
    intro h
    have := hinj (Finset.mem_coe.2 (Finset.mem_of_mem_erase hj))
      (Finset.mem_coe.2 (Finset.mem_range.2 hi)) h
    exact (Finset.ne_of_mem_erase hj) this
  have h1 : (ks.getD j 0 : ZMod q) - (ks.getD i 0 : ZMod q) ≠ 0 := sub_ne_zero.2 hne
  have h2 : (ks.getD i 0 : ZMod q) - (ks.getD j 0 : ZMod q) ≠ 0 := sub_ne_zero.2 (Ne.symm hne)
  show (ks.getD j 0 : ZMod q) * ((ks.getD j 0 : ZMod q) - (ks.getD i 0 : ZMod q))⁻¹
    = ((ks.getD i 0 : ZMod q) - (ks.getD j 0 : ZMod q))⁻¹ * (0 - (ks.getD j 0 : ZMod q))
  field_simp
  ring

open Polynomial in
/-- **Lagrange weights sum to the secret**: `f` is the sharing polynomial, party `i` holds
`xs[i] ≡ f(ks[i])`; every `weight` call succeeded; then `Σ w_i ≡ f(0) (mod q)`. -/
theorem weights_sum (ks xs ws : List ℕ) (f : (ZMod q)[X])
    (hdeg : f.degree < ks.length)
    (hinj : Set.InjOn (fun j => (ks.getD j 0 : ZMod q)) (Finset.range ks.length : Set ℕ))
    (hx : ∀ i < ks.length, (xs.getD i 0 : ZMod q) = f.eval (ks.getD i 0 : ZMod q))
    (hw : ∀ i < ks.length, weight q ks i (xs.getD i 0) = some (ws.getD i 0)) :
    ∑ i ∈ Finset.range ks.length, (ws.getD i 0 : ZMod q) = f.eval 0 := by
  have hdeg' : f.degree < (Finset.range ks.length).card := by simpa using hdeg
  have e := congrArg (eval 0) (Lagrange.eq_interpolate hinj hdeg')
  rw [e]
  simp only [Lagrange.interpolate_apply, eval_finsetSum, eval_mul, eval_C]
  refine Finset.sum_congr rfl fun i hi => ?_
  have hi' : i < ks.length := Finset.mem_range.mp hi
  rw [weight_cast_lagrange ks i _ _ hi' hinj (hw i hi'), hx i hi']

theorem getD_eq_getElem {α : Type} (l : List α) (d : α) {i : ℕ} (h : i < l.length) :
    l.getD i d = l[i] := (List.getElem_eq_getD d).symm

/-- ids pairwise distinct modulo `q`, as an injectivity statement in the field -/
theorem injOn_of_nodup (ks : List ℕ) (hnd : (ks.map (· % q)).Nodup) :
    Set.InjOn (fun j => (ks.getD j 0 : ZMod q)) (Finset.range ks.length : Set ℕ) := by
  intro i hi j hj hij
  have hi' : i < ks.length := by simpa using hi
  have hj' : j < ks.length := by simpa using hj
  simp only at hij
  rw [ZMod.natCast_eq_natCast_iff', getD_eq_getElem ks 0 hi', getD_eq_getElem ks 0 hj'] at hij
  have h1 : i < (ks.map (· % q)).length := by simpa using hi'
  have h2 : j < (ks.map (· % q)).length := by simpa using hj'
  refine (hnd.getElem_inj_iff (hi := h1) (hj := h2)).1 ?_
  rw [List.getElem_map, List.getElem_map]
  exact hij

theorem sum_range_getD_eq_list_sum (ws : List ℕ) (n : ℕ) (h : ws.length = n) :
    ∑ i ∈ Finset.range n, (ws.getD i 0 : ZMod q) = ((ws.sum : ℕ) : ZMod q) := by
  subst h
  induction ws using List.reverseRecOn with
  | nil => simp
  | append_singleton l a ih =>
    rw [List.length_append, List.length_singleton, Finset.sum_range_succ, List.sum_append,
      List.sum_singleton, Nat.cast_add, ← ih]
    congr 1
    · refine Finset.sum_congr rfl fun i hi => ?_
      simp [List.getD_eq_getElem?_getD, List.getElem?_append_left (Finset.mem_range.1 hi)]
    · simp [List.getD_eq_getElem?_getD]

/-! ### colliding ids: the nil inverse -/

theorem coef_none_of_eq {ki kj : ℕ} (h : (kj : ZMod q) = (ki : ZMod q)) : coef q ki kj = none := by
  unfold coef
  cases hm : modInverse ((kj : Int) - (ki : Int)) q with
  | none => rfl
  | some b =>
    exfalso
    have h1 := (modInverse_specV hm).1
    have h2 := (ZMod.intCast_eq_intCast_iff' _ _ q).2 h1
    push_cast at h2
    rw [h, sub_self, zero_mul] at h2
    exact zero_ne_one h2

omit [Fact q.Prime] in
theorem weight_fold_none (ks : List ℕ) (i : ℕ) (l : List ℕ) (j : ℕ) (hj : j ∈ l) (hji : j ≠ i)
    (hc : coef q (ks.getD i 0) (ks.getD j 0) = none) :
    ∀ (x : ℕ), l.foldlM (fun w j =>
        if j = i then some w else (coef q (ks.getD i 0) (ks.getD j 0)).map fun c => w * c % q) x = none := by
  induction l with
  | nil => cases hj
  | cons a l ih =>
    intro x
    rw [List.foldlM_cons]
    by_cases ha : a = i
    · simp only [ha, if_true, Option.bind_eq_bind, Option.bind_some]
      rcases List.mem_cons.1 hj with rfl | hj'
      · exact absurd ha hji
      · exact ih hj' x
    · rw [if_neg ha]
      cases hca : coef q (ks.getD i 0) (ks.getD a 0) with
      | none => rfl
      | some c =>
        simp only [Option.map_some, Option.bind_eq_bind, Option.bind_some]
        rcases List.mem_cons.1 hj with rfl | hj'
        · rw [hc] at hca; cases hca
        · exact ih hj' _

/-- two positions with ids congruent modulo `q`: the weight computation meets the nil inverse -/
theorem weight_none_of_collision (ks : List ℕ) (i j xi : ℕ) (hj : j < ks.length) (hji : j ≠ i)
    (h : (ks.getD j 0 : ZMod q) = (ks.getD i 0 : ZMod q)) : weight q ks i xi = none :=
  weight_fold_none ks i _ j (List.mem_range.2 hj) hji (coef_none_of_eq h) xi

end TssVerif.AlgL
