import TssVerif.Core.Zk
import TssVerif.Lemmas.GoIntSpec
import TssVerif.Lemmas.CurveLaw
import TssVerif.Lemmas.C17
import TssVerif.Lemmas.VssVerify
import Mathlib.Data.Int.ModEq
import Mathlib.Data.ZMod.Basic
import Mathlib.Algebra.Field.ZMod
import Mathlib.Tactic.Abel
import Mathlib.Data.Nat.Prime.Basic
import Mathlib.Tactic.Ring
import Mathlib.Tactic.Linarith
/-! Helpers for C11 (decision logic of the zero-knowledge verifiers): peeling of guard chains in the
`Outcome` monad, the specification of Go's `Exp` in congruence form, and the algebra of the
extraction steps. -/
set_option autoImplicit false
set_option linter.style.haveILetI false
set_option linter.unusedSectionVars false
namespace TssVerif.C11L
open TssVerif TssVerif.Zk TssVerif.Paillier

/-! ## peeling guards -/

theorem ite_reject {c : Prop} [Decidable c] {k : Outcome Bool} :
    (if c then Outcome.ok false else k) = .ok true ↔ ¬ c ∧ k = .ok true := by
  by_cases h : c <;> simp [h]

theorem bind_ok {α β : Type} {x : Outcome α} {f : α → Outcome β} {b : β} :
    (x >>= f) = .ok b ↔ ∃ a, x = .ok a ∧ f a = .ok b := by
  cases x with
  | ok a => simp
  | err t => simp
  | panic t => simp

theorem expP_ok {x y : Int} {m a : Nat} : expP x y m = .ok a ↔ goExp x y m = some a := by
  unfold expP nilPanic Outcome.ofOption
  cases goExp x y m <;> simp

theorem isInInterval_iff {b bound : Int} : isInInterval b bound = true ↔ 0 ≤ b ∧ b < bound := by
  unfold isInInterval; simp [and_comm]

/-! ## Go's `Exp` as a congruence -/

theorem natCast_emod_toNat (x : Int) {m : Nat} (hm : m ≠ 0) : (((x % (m : Int)).toNat : Nat) : Int) = x % m := by
  have : (0 : Int) < m := by exact_mod_cast Nat.pos_of_ne_zero hm
  exact Int.toNat_of_nonneg (Int.emod_nonneg _ (ne_of_gt this))

/-- **specification of `Exp`** (non-nil result `r`), uniformly in the sign of the exponent:
`r · x^{y⁻} ≡ x^{y⁺} (mod m)` with `y⁺ = max y 0`, `y⁻ = max (−y) 0`; a negative exponent needs a unit. -/
theorem goExp_modEq {x y : Int} {m r : Nat} (h : goExp x y m = some r) :
    m ≠ 0 ∧ r < m ∧ (r : Int) * x ^ (-y).toNat ≡ x ^ y.toNat [ZMOD m] ∧ (y < 0 → Int.gcd x m = 1) := by
  have hm : m ≠ 0 := by
    rintro rfl; rw [goExp_zero_mod] at h; cases h
  have hmpos : 0 < m := Nat.pos_of_ne_zero hm
  refine ⟨hm, ?_⟩
  by_cases hy : 0 ≤ y
  · rw [goExp_of_nonneg x hm hy] at h
    injection h with h
    subst h
    refine ⟨Nat.mod_lt _ hmpos, ?_, fun h0 => absurd h0 (by omega)⟩
    have : (-y).toNat = 0 := by omega
    rw [this, pow_zero, mul_one]
    push_cast
    rw [natCast_emod_toNat x hm]
    exact (Int.emod_emod_of_dvd _ (dvd_refl _)).trans (Int.ModEq.pow _ (Int.mod_modEq x m))
  · have hy' : y < 0 := by omega
    rw [goExp_of_neg x hm hy'] at h
    cases hinv : modInverse x m with
    | none => rw [hinv] at h; cases h
    | some inv =>
      rw [hinv] at h
      injection h with h
      subst h
      obtain ⟨h1, _⟩ := modInverse_spec hinv
      refine ⟨Nat.mod_lt _ hmpos, ?_, fun _ => ((modInverse_isSome_iff x m).1 (by rw [hinv]; rfl)).2⟩
      have : y.toNat = 0 := by omega
      rw [this, pow_zero]
      push_cast
      have e1 : ((inv : Int) ^ (-y).toNat % (m : Int)) * x ^ (-y).toNat ≡ (inv : Int) ^ (-y).toNat * x ^ (-y).toNat [ZMOD m] :=
        Int.ModEq.mul_right _ (Int.mod_modEq _ _)
      refine e1.trans ?_
      rw [← mul_pow]
      have e2 : (inv : Int) * x ≡ 1 [ZMOD m] := by
        rw [mul_comm]
        show x * inv % (m : Int) = 1 % m
        exact h1
      simpa using e2.pow (-y).toNat

/-- non-negative exponent -/
theorem goExp_modEq_nonneg {x y : Int} {m r : Nat} (hy : 0 ≤ y) (h : goExp x y m = some r) :
    (r : Int) ≡ x ^ y.toNat [ZMOD m] := by
  obtain ⟨_, _, h3, _⟩ := goExp_modEq h
  have : (-y).toNat = 0 := by omega
  rwa [this, pow_zero, mul_one] at h3

/-- exponent `−e`, `e` a natural number -/
theorem goExp_modEq_negNat {x : Int} {e m r : Nat} (h : goExp x (-(e : Int)) m = some r) :
    (r : Int) * x ^ e ≡ 1 [ZMOD m] := by
  obtain ⟨_, _, h3, _⟩ := goExp_modEq h
  have h1 : (-(-(e : Int))).toNat = e := by omega
  have h2 : (-(e : Int)).toNat = 0 := by omega
  rwa [h1, h2, pow_zero] at h3

theorem natAbs_cast_of_pos {n : Int} (h : 0 < n) : ((n.natAbs : Nat) : Int) = n := by omega

theorem natAbs_mul_self_cast (n : Int) : (((n * n).natAbs : Nat) : Int) = n * n := by
  rw [Int.natCast_natAbs, abs_mul_self]

/-- `(a·b mod M)·c mod M`, the shape of every three-factor product in the verifiers -/
theorem natCast_mulmod3 (a b c M : Nat) : ((a * b % M * c % M : Nat) : Int) ≡ (a : Int) * b * c [ZMOD M] := by
  have : a * b % M * c % M ≡ a * b * c [MOD M] := (Nat.mod_modEq _ _).trans ((Nat.mod_modEq _ _).mul_right c)
  have := Int.natCast_modEq_iff.2 this
  push_cast at this ⊢
  exact this

theorem natCast_mulmod2 (a b M : Nat) : ((a * b % M : Nat) : Int) ≡ (a : Int) * b [ZMOD M] := by
  have := Int.natCast_modEq_iff.2 (Nat.mod_modEq (a * b) M)
  push_cast at this ⊢
  exact this

/-- `(x · b mod M).toNat`, the shape of the right-hand sides computed over `Int` -/
theorem toNat_emod_cast (x : Int) {M : Nat} (hM : M ≠ 0) : (((x % (M : Int)).toNat : Nat) : Int) ≡ x [ZMOD M] := by
  rw [natCast_emod_toNat x hM]; exact Int.mod_modEq _ _

/-- from the inverse-based check `u = g · s · c⁻ᵉ` to the multiplied-through form `u · cᵉ ≡ G · S` -/
theorem mul_through {M u g s cE cPow G S : Int} (hu : u ≡ g * s * cE [ZMOD M]) (hc : cE * cPow ≡ 1 [ZMOD M])
    (hg : g ≡ G [ZMOD M]) (hs : s ≡ S [ZMOD M]) : u * cPow ≡ G * S [ZMOD M] := by
  have h1 : u * cPow ≡ g * s * cE * cPow [ZMOD M] := hu.mul_right _
  have h2 : g * s * cE * cPow = g * s * (cE * cPow) := by ring
  have h3 : g * s * (cE * cPow) ≡ G * S * 1 [ZMOD M] := (hg.mul hs).mul hc
  rw [h2] at h1
  simpa using h1.trans h3


/-- `a·b mod M = (x mod M).toNat` is the congruence `a·b ≡ x` -/
theorem modEq_of_mulmod2_eq {M a b : Nat} {x : Int} (hM : M ≠ 0) (h : a * b % M = (x % (M : Int)).toNat) :
    (a : Int) * b ≡ x [ZMOD M] := by
  have e1 := natCast_mulmod2 a b M
  rw [h] at e1
  exact e1.symm.trans (toNat_emod_cast x hM)

theorem modEq_of_mulmod3_eq {M a b c : Nat} {x : Int} (hM : M ≠ 0)
    (h : a * b % M * c % M = (x % (M : Int)).toNat) : (a : Int) * b * c ≡ x [ZMOD M] := by
  have e1 := natCast_mulmod3 a b c M
  rw [h] at e1
  exact e1.symm.trans (toNat_emod_cast x hM)

/-! ## curve operations on a lawful curve -/
section curve
variable {P : Type} {C : Curve P}

theorem ecBaseMult_nat_ok {k : Nat} {r : ECPoint} (h : C.ecBaseMult (k : Int) = .ok r) :
    C.toAffine (C.smul k C.base) = some r := by
  have := ((C17L.ecBaseMult_outcomes C (k : Int)).2.2 r).1 h
  rwa [Int.natAbs_natCast] at this

theorem ecScalarMult_nat_ok {a : ECPoint} {k : Nat} {r : ECPoint} (h : C.ecScalarMult a (k : Int) = .ok r) :
    ∃ pa, C.lift a = some pa ∧ C.toAffine (C.smul k pa) = some r := by
  have := ((C17L.ecScalarMult_outcomes C a (k : Int)).2.2 r).1 h
  rwa [Int.natAbs_natCast] at this

/-- `ecAdd` of the affine form of a known point `pa` -/
theorem ecAdd_ok_left (hC : C.Lawful) {a b r : ECPoint} {pa : P} (ha : C.toAffine pa = some a)
    (h : C.ecAdd a b = .ok r) : ∃ pb, C.lift b = some pb ∧ C.toAffine (C.add pa pb) = some r := by
  obtain ⟨pa', pb, ha', hb, hr⟩ := (C17L.ecAdd_ok_iff C a b r).1 h
  rw [Vss.lift_of_toAffine hC ha] at ha'
  cases ha'
  exact ⟨pb, hb, hr⟩

theorem ecAdd_ok_right (hC : C.Lawful) {a b r : ECPoint} {pb : P} (hb : C.toAffine pb = some b)
    (h : C.ecAdd a b = .ok r) : ∃ pa, C.lift a = some pa ∧ C.toAffine (C.add pa pb) = some r := by
  obtain ⟨pa, pb', ha, hb', hr⟩ := (C17L.ecAdd_ok_iff C a b r).1 h
  rw [Vss.lift_of_toAffine hC hb] at hb'
  cases hb'
  exact ⟨pa, ha, hr⟩

theorem ecAdd_ok_both (hC : C.Lawful) {a b r : ECPoint} {pa pb : P} (ha : C.toAffine pa = some a)
    (hb : C.toAffine pb = some b) (h : C.ecAdd a b = .ok r) : C.toAffine (C.add pa pb) = some r := by
  obtain ⟨pb', hb', hr⟩ := ecAdd_ok_left hC ha h
  rw [Vss.lift_of_toAffine hC hb] at hb'
  cases hb'
  exact hr

end curve

/-! ## Bob's proofs: structure of `bobVerify` -/
section bob
variable {P : Type} (C : Curve P)
/-- the three congruence checks at the end of `bobVerify` -/
def bobTail (e : Nat) (n ntilde h1 h2 c1 c2 : Int) (pf : BobProof) : Outcome Bool := do
  let mt := ntilde.natAbs
  let m2 := (n * n).natAbs
  let l5 := (← expP h1 pf.s1 mt) * (← expP h2 pf.s2 mt) % mt
  let r5 := (((← expP pf.z e mt) : Int) * pf.zPrm % (mt : Int)).toNat
  if l5 != r5 then .ok false else
  let l6 := (← expP h1 pf.t1 mt) * (← expP h2 pf.t2 mt) % mt
  let r6 := (((← expP pf.t e mt) : Int) * pf.w % (mt : Int)).toNat
  if l6 != r6 then .ok false else
  let l7 := (← expP c1 pf.s1 m2) * (← expP pf.s n m2) % m2 * (← expP (n + 1) pf.t1 m2) % m2
  let r7 := (((← expP c2 e m2) : Int) * pf.v % (m2 : Int)).toNat
  .ok (l7 == r7)

/-- the point check of `ProofBobWC.Verify` -/
def BobPointOk (H : HashFn) (sess : Bytes) (n c1 c2 : Int) (pf : BobProof) : Option (ECPoint × ECPoint) → Prop
  | none => True
  | some (X, U) =>
    let e := bobChallenge C H sess n c1 c2 (some (X, U)) pf
    (pf.s1 % (C.q : Int)).toNat ≠ 0 ∧ e ≠ 0 ∧
    ∃ g xe, C.ecBaseMult ((pf.s1 % (C.q : Int)).toNat : Int) = .ok g ∧ C.ecScalarMult X (e : Int) = .ok xe ∧
      C.ecAdd xe U = .ok g

theorem ecEquals_iff (a b : ECPoint) : ecEquals a b = true ↔ a = b := by
  unfold ecEquals
  rw [Bool.and_eq_true, beq_iff_eq, beq_iff_eq]
  exact ⟨fun ⟨h1, h2⟩ => Prod.ext h1 h2, fun h => h ▸ ⟨rfl, rfl⟩⟩

theorem bobVerify_split (H : HashFn) (sess : Bytes) (n ntilde h1 h2 c1 c2 : Int) (pf : BobProof) (xu : Option (ECPoint × ECPoint))
    (h : bobVerify C H cur sess n ntilde h1 h2 c1 c2 pf xu = .ok true) :
    ((0 ≤ pf.z ∧ pf.z < ntilde) ∧ (0 ≤ pf.zPrm ∧ pf.zPrm < ntilde) ∧ (0 ≤ pf.t ∧ pf.t < ntilde) ∧
      (0 ≤ pf.v ∧ pf.v < n * n) ∧ (0 ≤ pf.w ∧ pf.w < ntilde) ∧ (0 ≤ pf.s ∧ pf.s < n) ∧
      pf.z.gcd ntilde = 1 ∧ pf.zPrm.gcd ntilde = 1 ∧ pf.t.gcd ntilde = 1 ∧ pf.v.gcd (n * n) = 1 ∧
      pf.w.gcd ntilde = 1 ∧ pf.s ≠ 0 ∧ pf.s.gcd n = 1 ∧ pf.v ≠ 0 ∧ pf.v.gcd n = 1 ∧
      (C.q : Int) ≤ pf.s1 ∧ (C.q : Int) ≤ pf.s2 ∧ (C.q : Int) ≤ pf.t1 ∧ (C.q : Int) ≤ pf.t2 ∧
      pf.s1 ≤ (C.q : Int) ^ 3 ∧ pf.t1 ≤ (C.q : Int) ^ 7) ∧
    BobPointOk C H sess n c1 c2 pf xu ∧
    bobTail (bobChallenge C H sess n c1 c2 xu pf) n ntilde h1 h2 c1 c2 pf = .ok true := by
  unfold bobVerify at h
  dsimp only at h
  obtain ⟨a1, h⟩ := ite_reject.1 h
  obtain ⟨a2, h⟩ := ite_reject.1 h
  obtain ⟨a3, h⟩ := ite_reject.1 h
  obtain ⟨a4, h⟩ := ite_reject.1 h
  obtain ⟨a5, h⟩ := ite_reject.1 h
  obtain ⟨a6, h⟩ := ite_reject.1 h
  obtain ⟨a7, h⟩ := ite_reject.1 h
  obtain ⟨a8, h⟩ := ite_reject.1 h
  obtain ⟨a9, h⟩ := ite_reject.1 h
  obtain ⟨a10, h⟩ := ite_reject.1 h
  obtain ⟨a11, h⟩ := ite_reject.1 h
  obtain ⟨a12, h⟩ := ite_reject.1 h
  obtain ⟨a13, h⟩ := ite_reject.1 h
  obtain ⟨a14, h⟩ := ite_reject.1 h
  obtain ⟨a15, h⟩ := ite_reject.1 h
  obtain ⟨a16, h⟩ := ite_reject.1 h
  obtain ⟨a17, h⟩ := ite_reject.1 h
  obtain ⟨a18, h⟩ := ite_reject.1 h
  obtain ⟨a19, h⟩ := ite_reject.1 h
  obtain ⟨a20, h⟩ := ite_reject.1 h
  obtain ⟨a21, h⟩ := ite_reject.1 h
  simp only [Bool.not_eq_true, Bool.not_eq_false', isInInterval_iff, bne_iff_ne,
    ne_eq, not_not, beq_iff_eq, not_lt, gt_iff_lt] at a1 a2 a3 a4 a5 a6 a7 a8 a9 a10 a11 a12 a13 a14 a15 a16 a17 a18 a19 a20 a21
  refine ⟨⟨a1, a2, a3, a4, a5, a6, a7, a8, a9, a10, a11, a12, a13, a14, a15, a16, a17, a18, a19, ?_, ?_⟩, ?_⟩
  · rw [show (C.q : Int) ^ 3 = C.q * C.q * C.q by ring]; exact a20
  · rw [show (C.q : Int) ^ 7 = C.q * C.q * C.q * (C.q * C.q * C.q) * C.q by ring]; exact a21
  · cases xu with
    | none => exact ⟨trivial, h⟩
    | some p =>
      obtain ⟨X, U⟩ := p
      simp only [cur, Bool.true_and] at h
      split at h
      · exact absurd h (by simp)
      · rename_i hc
        simp only [Bool.or_eq_true, beq_iff_eq, not_or] at hc
        obtain ⟨g, hg, h⟩ := bind_ok.1 h
        obtain ⟨xe, hxe, h⟩ := bind_ok.1 h
        split at h
        · rename_i xeu hadd
          cases heq : ecEquals g xeu with
          | false => rw [heq] at h; exact absurd h (by simp)
          | true =>
            rw [heq] at h
            have := (ecEquals_iff _ _).1 heq
            subst this
            exact ⟨⟨hc.1, hc.2, g, xe, hg, hxe, hadd⟩, h⟩
        · exact absurd h (by simp)
        · exact absurd h (by simp)
end bob

/-! ## `modproof` -/

theorem modYs_length (H : HashFn) (sess : Bytes) (w n : Int) : ∀ (k : Nat) (acc ys : List Nat),
    modYs H sess w n k acc = .ok ys → ys.length = acc.length + k
  | 0, acc, ys, h => by
    simp only [modYs, Outcome.ok.injEq] at h; subst h; simp
  | k + 1, acc, ys, h => by
    unfold modYs at h
    split at h
    · cases h
    · have := modYs_length H sess w n k _ ys h
      simp only [List.length_append, List.length_singleton] at this
      omega

theorem getD_nonneg {l : List Int} (h : ∀ x ∈ l, 0 < x) (i : Nat) : 0 ≤ l.getD i 0 := by
  rw [List.getD_eq_getElem?_getD]
  cases hi : l[i]? with
  | none => simp
  | some x => exact le_of_lt (h x (List.mem_of_getElem? hi))

theorem natpow_mod_cast {x : Int} (hx : 0 ≤ x) (k : Nat) {n : Int} (hn : 0 < n) :
    ((x.toNat ^ k % n.toNat : Nat) : Int) ≡ x ^ k [ZMOD n] := by
  have := Int.natCast_modEq_iff.2 (Nat.mod_modEq (x.toNat ^ k) n.toNat)
  rw [Int.toNat_of_nonneg (le_of_lt hn), Nat.cast_pow, Int.toNat_of_nonneg hx] at this
  exact this

/-- the right-hand side of the fourth-root check of `modVerify`, as a congruence -/
theorem mod_rhs_modEq {n : Int} (hn : 0 < n) (w : Int) (hw : 0 ≤ w) (y : Nat) (ai bi : Bool) :
    (((if bi then (w.toNat * (if ai then ((-1 : Int) * y % n).toNat else y)) % n.toNat
        else (if ai then ((-1 : Int) * y % n).toNat else y) : Nat)) : Int)
      ≡ (-1) ^ ai.toNat * w ^ bi.toNat * y [ZMOD n] := by
  have hn0 : n.toNat ≠ 0 := by omega
  have hnc : ((n.toNat : Nat) : Int) = n := Int.toNat_of_nonneg (le_of_lt hn)
  have hwc : ((w.toNat : Nat) : Int) = w := Int.toNat_of_nonneg hw
  have r1 : (((if ai then ((-1 : Int) * y % n).toNat else y : Nat)) : Int) ≡ (-1) ^ ai.toNat * y [ZMOD n] := by
    cases ai
    · simp
    · have := toNat_emod_cast ((-1 : Int) * y) hn0
      rw [hnc] at this
      simpa using this
  cases bi
  · simpa using r1
  · have e := natCast_mulmod2 w.toNat (if ai then ((-1 : Int) * y % n).toNat else y) n.toNat
    rw [hnc, hwc] at e
    simp only [if_true, Bool.toNat_true, pow_one]
    refine e.trans ?_
    have := r1.mul_left w
    refine this.trans ?_
    rw [show w * ((-1) ^ ai.toNat * (y : Int)) = (-1) ^ ai.toNat * w * y by ring]

/-! ## `facproof` -/

theorem ite_err {c : Prop} [Decidable c] {t : String} {k : Outcome Bool} :
    (if c then Outcome.err t else k) = .ok true ↔ ¬ c ∧ k = .ok true := by
  by_cases h : c <;> simp [h]

theorem fac_eq12 {M a b c A x p pw nw : Int} (h : a * b ≡ A * c [ZMOD M]) (ha : a ≡ x [ZMOD M])
    (hb : b * nw ≡ pw [ZMOD M]) (hc : c ≡ p [ZMOD M]) : x * pw ≡ A * p * nw [ZMOD M] := by
  have h1 : x * pw ≡ a * (b * nw) [ZMOD M] := (ha.mul hb).symm
  have h2 : a * (b * nw) = a * b * nw := by ring
  rw [h2] at h1
  exact h1.trans ((h.trans (hc.mul_left A)).mul_right nw)

theorem fac_eq3 {M x6 x7 x8 T R a b Qz vp vn sp sn sn0 : Int} {e : Nat}
    (h : x6 * x7 ≡ T * x8 [ZMOD M]) (h6 : x6 ≡ Qz [ZMOD M]) (h7 : x7 * vn ≡ vp [ZMOD M])
    (h8 : x8 ≡ R ^ e [ZMOD M]) (hR : R ≡ a * b [ZMOD M]) (ha : a ≡ sn0 [ZMOD M]) (hb : b * sn ≡ sp [ZMOD M]) :
    Qz * vp * sn ^ e ≡ T * (sn0 * sp) ^ e * vn [ZMOD M] := by
  have h1 : Qz * vp * sn ^ e ≡ x6 * (x7 * vn) * sn ^ e [ZMOD M] := ((h6.mul h7).symm).mul_right _
  have h2 : x6 * (x7 * vn) * sn ^ e = x6 * x7 * (vn * sn ^ e) := by ring
  rw [h2] at h1
  have h3 : x6 * x7 * (vn * sn ^ e) ≡ T * R ^ e * (vn * sn ^ e) [ZMOD M] := (h.trans (h8.mul_left T)).mul_right _
  have h4 : T * R ^ e * (vn * sn ^ e) = T * (R * sn) ^ e * vn := by ring
  rw [h4] at h3
  have h5 : R * sn ≡ sn0 * sp [ZMOD M] := by
    have : R * sn ≡ a * b * sn [ZMOD M] := hR.mul_right _
    rw [show a * b * sn = a * (b * sn) by ring] at this
    exact this.trans (ha.mul hb)
  exact (h1.trans h3).trans (((h5.pow e).mul_left T).mul_right vn)

/-! ## `dlnproof` -/

theorem foldlM_guard_ok {f : Nat → Outcome Bool} : ∀ (l : List Nat) (b : Bool),
    l.foldlM (fun acc i => if (!acc) = true then pure false else f i) b = .ok true →
      b = true ∧ ∀ i ∈ l, f i = .ok true
  | [], b, h => by
    rw [List.foldlM_nil] at h
    exact ⟨by injection h, by simp⟩
  | i :: l, b, h => by
    rw [List.foldlM_cons] at h
    obtain ⟨b', hb', h⟩ := bind_ok.1 h
    obtain ⟨rfl, ih⟩ := foldlM_guard_ok l b' h
    cases b with
    | false => exact absurd hb' (by simp)
    | true =>
      refine ⟨rfl, fun j hj => ?_⟩
      rcases List.mem_cons.1 hj with rfl | hj
      · simpa using hb'
      · exact ih j hj

theorem getD_nonneg' {l : List Int} (h : ∀ x ∈ l, 0 ≤ x) (i : Nat) : 0 ≤ l.getD i 0 := by
  rw [List.getD_eq_getElem?_getD]
  cases hi : l[i]? with
  | none => simp
  | some x => exact h x (List.mem_of_getElem? hi)

/-! ## extraction steps -/

/-- scalars act modulo `q` on a point killed by `q` -/
theorem zsmul_congr_of_torsion {G : Type} [AddCommGroup G] {q : Nat} {Y : G} (hY : q • Y = 0) {a b : ℤ}
    (hab : a ≡ b [ZMOD q]) : a • Y = b • Y := by
  obtain ⟨j, hj⟩ := (Int.modEq_iff_dvd.1 hab)
  have : b • Y - a • Y = 0 := by
    rw [← sub_smul, hj, mul_comm, mul_zsmul, natCast_zsmul, hY, zsmul_zero]
  exact (sub_eq_zero.1 this).symm

/-- **special soundness of the Schnorr protocol** in an abstract group: two transcripts with the same commitment and
different challenges determine the discrete logarithm -/
theorem special_sound_group {G : Type} [AddCommGroup G] {q : Nat} (hq : q.Prime) {g X A : G}
    (hg : q • g = 0) (hX : q • X = 0) {t t' c c' : Nat} (hc : c < q) (hc' : c' < q) (hne : c ≠ c')
    (e1 : t • g = A + c • X) (e2 : t' • g = A + c' • X) :
    X = ((((t : ZMod q) - t') * ((c : ZMod q) - c')⁻¹).val) • g := by
  have : Fact q.Prime := ⟨hq⟩
  have : NeZero q := ⟨hq.ne_zero⟩
  set k : ZMod q := ((c : ZMod q) - c')⁻¹ with hk
  have hcc : (c : ZMod q) - c' ≠ 0 := by
    rw [sub_ne_zero]
    intro h
    exact hne (Nat.ModEq.eq_of_lt_of_lt ((ZMod.natCast_eq_natCast_iff _ _ _).1 h) hc hc')
  -- the difference of the two equations, with integer scalars
  have hd : ((t : ℤ) - t') • g = ((c : ℤ) - c') • X := by
    rw [sub_smul, sub_smul, natCast_zsmul, natCast_zsmul, natCast_zsmul, natCast_zsmul, e1, e2]
    abel
  have h1 : ((k.val : ℤ) * ((c : ℤ) - c')) • X = (1 : ℤ) • X := by
    apply zsmul_congr_of_torsion hX
    rw [← ZMod.intCast_eq_intCast_iff]
    push_cast
    rw [ZMod.natCast_zmod_val, hk, inv_mul_cancel₀ hcc]
  have h2 : ((k.val : ℤ) * ((t : ℤ) - t')) • g
      = (((((t : ZMod q) - t') * k).val : ℕ) : ℤ) • g := by
    apply zsmul_congr_of_torsion hg
    rw [← ZMod.intCast_eq_intCast_iff]
    push_cast
    rw [ZMod.natCast_zmod_val, ZMod.natCast_zmod_val, mul_comm]
  rw [one_zsmul] at h1
  rw [← natCast_zsmul, ← h2, mul_zsmul, hd, ← mul_zsmul, h1]

theorem dln_extract {n h1 h2 a : Int} {t t' : Nat}
    (e0 : h1 ^ t ≡ a [ZMOD n]) (e1 : h1 ^ t' ≡ a * h2 [ZMOD n]) :
    h1 ^ t' ≡ h1 ^ t * h2 [ZMOD n] ∧ (t ≤ t' → Int.gcd a n = 1 → h2 ≡ h1 ^ (t' - t) [ZMOD n]) := by
  refine ⟨e1.trans (e0.mul_right h2).symm, fun htt hg => ?_⟩
  have hp : h1 ^ t' = h1 ^ t * h1 ^ (t' - t) := by rw [← pow_add]; congr 1; omega
  have h3 : a * h1 ^ (t' - t) ≡ a * h2 [ZMOD n] := by
    rw [hp] at e1
    exact (e0.mul_right _).symm.trans e1
  have hd : n ∣ a * (h2 - h1 ^ (t' - t)) := by
    have := Int.modEq_iff_dvd.1 h3
    rwa [← mul_sub] at this
  have hco : IsCoprime n a := by
    rw [Int.isCoprime_iff_gcd_eq_one, Int.gcd_comm]; exact hg
  exact (Int.modEq_iff_dvd.2 (hco.dvd_of_dvd_mul_left hd)).symm

theorem le_of_mul_add_le {s e m α B : Int} (hs : s = e * m + α) (hα : 0 ≤ α) (he : 1 ≤ e) (hB : s ≤ B)
    (hB0 : 0 ≤ B) : m ≤ B := by
  by_cases hm : m ≤ 0
  · omega
  · have : m ≤ e * m := le_mul_of_one_le_left (by omega) he
    omega

section bobrej
variable {P : Type} (C : Curve P)

/-- the `(X, U)` argument of the challenge as `ProveBobWC` forms it -/
def proverXU (X u : Option ECPoint) : Option (ECPoint × ECPoint) :=
  match X, u with
  | some X, some U => some (X, U)
  | _, _ => none

/-- the two responses of `ProveBob(WC)` that the verifier range-checks, as natural numbers -/
theorem bobProve_s1_t1 (H : HashFn) (sess : Bytes) (n ntilde h1 h2 c1 c2 x y r : Nat) (X : Option ECPoint) (k : BobCoins)
    (pf : BobProof) (u : Option ECPoint)
    (hp : bobProve C H sess n ntilde h1 h2 c1 c2 x y r X k = .ok (pf, u)) :
    pf.s1 = ((bobChallenge C H sess n c1 c2 (proverXU X u) pf * x + k.alpha : Nat) : Int) ∧
    pf.t1 = ((bobChallenge C H sess n c1 c2 (proverXU X u) pf * y + k.gamma : Nat) : Int) := by
  unfold bobProve at hp
  cases X with
  | none =>
    dsimp only at hp
    obtain ⟨u', hu', hp⟩ := bind_ok.1 hp
    injection hp with hp
    injection hp with hpf hu
    subst hu
    subst hpf
    refine ⟨?_, ?_⟩ <;> simp only [proverXU] <;> push_cast <;> rfl
  | some X0 =>
    dsimp only at hp
    obtain ⟨u', hu', hp⟩ := bind_ok.1 hp
    injection hp with hp
    injection hp with hpf hu
    subst hu
    subst hpf
    refine ⟨?_, ?_⟩ <;> simp only [proverXU] <;> push_cast <;> rfl
end bobrej

/-! ## `paillier.Proof` -/

/-- `smallPrimes` is exactly the set of primes below 1000 -/
theorem mem_smallPrimes_iff (p : Nat) : p ∈ smallPrimes ↔ p.Prime ∧ p < 1000 := by
  unfold smallPrimes
  simp only [List.mem_filter, List.mem_range, Bool.and_eq_true, decide_eq_true_eq, List.all_eq_true,
    Bool.or_eq_true, bne_iff_ne, ne_eq]
  rw [Nat.prime_def_lt]
  constructor
  · rintro ⟨hlt, h2, hall⟩
    refine ⟨⟨h2, fun m hm hd => ?_⟩, hlt⟩
    rcases hall m hm with h | h
    · have : m ≠ 0 := by rintro rfl; simp at hd; omega
      omega
    · exact absurd (Nat.mod_eq_zero_of_dvd hd) h
  · rintro ⟨⟨h2, hall⟩, hlt⟩
    refine ⟨hlt, h2, fun d hd => ?_⟩
    by_cases h : d < 2
    · exact Or.inl h
    · right
      intro hmod
      have := hall d hd (Nat.dvd_of_mod_eq_zero hmod)
      omega

theorem generateXsLoop_none_of_nonpos (H : HashFn) (m : Nat) (kb sxb syb nb : Bytes) (n : Int) (blocks : Nat)
    (hn : ¬ 0 < n) : ∀ (fuel i cnt : Nat) (acc : List Nat), i < m →
    generateXsLoop H m kb sxb syb nb n blocks fuel i cnt acc = none
  | 0, _, _, _, _ => rfl
  | fuel + 1, i, cnt, acc, hi => by
    unfold generateXsLoop
    rw [if_neg (by omega)]
    have : isNumberInMultiplicativeGroup n (xsCandidate H i cnt kb sxb syb nb blocks) = false := by
      unfold isNumberInMultiplicativeGroup
      simp [hn]
    simp only [this, Bool.false_eq_true, if_false]
    split
    · rfl
    · exact generateXsLoop_none_of_nonpos H m kb sxb syb nb n blocks hn fuel i (cnt + 1) acc hi

theorem generateXs_some_pos {H : HashFn} {m : Nat} {k n : Int} {pub : ECPoint} {xs : List Nat} (hm : 0 < m)
    (h : generateXs H m k n pub = some xs) : 0 < n := by
  by_contra hn
  unfold generateXs at h
  rw [generateXsLoop_none_of_nonpos H m _ _ _ _ n _ hn _ 0 0 [] hm] at h
  cases h

end TssVerif.C11L
