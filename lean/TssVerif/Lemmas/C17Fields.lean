import TssVerif.Lemmas.C05Sg9
import TssVerif.Lemmas.C04Rs
import TssVerif.Lemmas.C17
/-! Helper lemmas for `TssVerif/Props/C17b.lean`: the curve check behind every decoder a modelled round applies to
a message field. -/
set_option autoImplicit false
namespace TssVerif.C17FieldsL
open TssVerif

variable {P : Type} (C : Curve P)

/-- `NewECPoint` accepted the pair: it is a point of the curve, and it is returned unchanged -/
theorem onCurve_of_ecNew {x y : Nat} {g : ECPoint} (h : C.ecNew x y = some g) :
    C.ecIsOnCurve g = true ∧ g = (x, y) := by
  obtain ⟨h1, h2⟩ := (C17L.ecNew_eq_some_iff C).1 h
  exact ⟨by rw [h2]; exact h1, h2⟩

theorem onCurve_of_ecNew' {a g : ECPoint} (h : C.ecNew a.1 a.2 = some g) : C.ecIsOnCurve a = true := by
  obtain ⟨h1, _⟩ := (C17L.ecNew_eq_some_iff C).1 h
  exact h1

theorem onCurve_of_unflatten {xs : List Nat} {ps : List ECPoint} (h : C.unflatten xs = some ps) :
    ∀ p ∈ ps, C.ecIsOnCurve p = true :=
  ((C17L.unflatten_eq_some_iff C xs ps).1 h).2

/-- the raw lifting used by round 9 accepted the pair: it is a point of the curve -/
theorem onCurve_of_ofAffine {x y : Nat} {a : P} (h : C.ofAffine x y = some a) : C.ecIsOnCurve (x, y) = true := by
  unfold Curve.ecIsOnCurve; rw [h]; rfl

theorem ofAffine_ne_none_iff (x y : Nat) : C.ofAffine x y ≠ none ↔ C.ecIsOnCurve (x, y) = true := by
  unfold Curve.ecIsOnCurve
  cases C.ofAffine x y <;> simp

end TssVerif.C17FieldsL
