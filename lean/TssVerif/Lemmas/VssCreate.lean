import TssVerif.Lemmas.VssReconstruct
/-! `Vss.create` outcomes; root counting; the `t`-share accident; privacy interpolation. -/
set_option autoImplicit false
set_option linter.style.haveILetI false
namespace TssVerif
namespace Vss
open Polynomial
variable {P : Type} {C : Curve P}

/-! ### outcomes of `create` -/

theorem IsCommitment.unique {as : List Nat} {vs vs' : List ECPoint}
    (h : IsCommitment C as vs) (h' : IsCommitment C as vs') : vs = vs' := by
  induction h generalizing vs' with
  | nil => cases h'; rfl
  | cons ha _ ih =>
    cases h' with
    | cons ha' hr' =>
      rw [ha] at ha'
      injection ha' with e
      rw [e, ih hr']

theorem IsCommitment.toAffine_some {as : List Nat} {vs : List ECPoint} (h : IsCommitment C as vs) :
    ∀ a ∈ as, ∃ r, C.toAffine (C.smul a C.base) = some r := by
  induction h with
  | nil => intro a ha; cases ha
  | cons ha _ ih =>
    intro b hb
    rcases List.mem_cons.1 hb with rfl | hb
    · exact ⟨_, ha⟩
    · exact ih b hb

theorem mapM_baseMult_cases (C : Curve P) (l : List Nat) :
    (∃ vs, l.mapM (fun (a : Nat) => C.ecBaseMult (a : Int)) = .ok vs ∧ IsCommitment C l vs ∧
        ∀ a ∈ l, ∃ r, C.toAffine (C.smul a C.base) = some r) ∨
    (l.mapM (fun (a : Nat) => C.ecBaseMult (a : Int)) = .panic "scalar-base-mult-identity" ∧
        ∃ a ∈ l, C.toAffine (C.smul a C.base) = none) := by
  by_cases h : ∃ a ∈ l, C.toAffine (C.smul a C.base) = none
  · exact Or.inr ⟨mapM_baseMult_panic C l h, h⟩
  · left
    have h' : ∀ a ∈ l, ∃ r, C.toAffine (C.smul a C.base) = some r := by
      intro a ha
      cases hr : C.toAffine (C.smul a C.base) with
      | none => exact absurd ⟨a, ha, hr⟩ h
      | some r => exact ⟨r, rfl⟩
    obtain ⟨vs, hvs, hcom⟩ := mapM_baseMult_ok C l h'
    exact ⟨vs, hvs, hcom, h'⟩

/-- what the guards of `create` say -/
theorem createGuards_eq_true_iff (q t : Nat) (ids : List Nat) :
    createGuards q t ids = true ↔
      1 ≤ t ∧ (∀ id ∈ ids, id % q ≠ 0) ∧ (ids.map (· % q)).Nodup ∧ t ≤ ids.length := by
  unfold createGuards checkIndexes
  simp only [Bool.and_eq_true, Bool.not_eq_true', decide_eq_false_iff_not, List.all_eq_true,
    bne_iff_ne, ne_eq, decide_eq_true_eq, not_lt]
  tauto

theorem not_nodup_iff_exists {l : List Nat} :
    ¬ l.Nodup ↔ ∃ i j, i < j ∧ j < l.length ∧ l.getD i 0 = l.getD j 0 := by
  rw [List.Nodup, List.pairwise_iff_getElem]
  constructor
  · intro h
    by_contra hc
    apply h
    intro i j hi hj hij heq
    apply hc
    exact ⟨i, j, hij, hj, by rw [getD_eq_getElem' _ _ hi, getD_eq_getElem' _ _ hj]; exact heq⟩
  · rintro ⟨i, j, hij, hj, heq⟩ h
    have hi : i < l.length := lt_trans hij hj
    rw [getD_eq_getElem' _ _ hi, getD_eq_getElem' _ _ hj] at heq
    exact h i j hi hj hij heq

theorem createGuards_eq_false_iff (q t : Nat) (ids : List Nat) :
    createGuards q t ids = false ↔
      t < 1 ∨ (∃ id ∈ ids, id % q = 0) ∨
      (∃ i j, i < j ∧ j < ids.length ∧ ids.getD i 0 ≡ ids.getD j 0 [MOD q]) ∨ ids.length < t := by
  rw [← Bool.not_eq_true, createGuards_eq_true_iff]
  have hnd : ¬ (ids.map (· % q)).Nodup ↔
      ∃ i j, i < j ∧ j < ids.length ∧ ids.getD i 0 ≡ ids.getD j 0 [MOD q] := by
    rw [not_nodup_iff_exists]
    constructor
    · rintro ⟨i, j, hij, hj, heq⟩
      have hj' : j < ids.length := by simpa using hj
      have hi' : i < ids.length := lt_trans hij hj'
      refine ⟨i, j, hij, hj', ?_⟩
      rw [getD_eq_getElem' _ _ (by simpa using hi'), getD_eq_getElem' _ _ hj] at heq
      rw [getD_eq_getElem' _ _ hi', getD_eq_getElem' _ _ hj']
      simpa [Nat.ModEq] using heq
    · rintro ⟨i, j, hij, hj, heq⟩
      have hi : i < ids.length := lt_trans hij hj
      refine ⟨i, j, hij, by simpa using hj, ?_⟩
      rw [getD_eq_getElem' _ _ (by simpa using hi), getD_eq_getElem' _ _ (by simpa using hj)]
      rw [getD_eq_getElem' _ _ hi, getD_eq_getElem' _ _ hj] at heq
      simpa [Nat.ModEq] using heq
  rw [← hnd]
  constructor
  · intro h
    by_contra hc
    apply h
    simp only [not_or, not_lt, not_exists, not_and, not_not] at hc
    exact ⟨hc.1, fun id hid => hc.2.1 id hid, hc.2.2.1, hc.2.2.2⟩
  · rintro (h | ⟨id, hid, h0⟩ | h | h) ⟨h1, h2, h3, h4⟩
    · omega
    · exact h2 id hid h0
    · exact h h3
    · omega

theorem create_eq_ok_iff (C : Curve P) (t secret : Nat) (ids coeffs : List Nat)
    (vs : List ECPoint) (shares : List Share) :
    create C t secret ids coeffs = .ok (vs, shares) ↔
      createGuards C.q t ids = true ∧ IsCommitment C (secret :: coeffs) vs ∧
      shares = ids.map fun id => ⟨t, id, evalPoly C.q (secret :: coeffs) id⟩ := by
  cases hg : createGuards C.q t ids with
  | false =>
    obtain ⟨e, he⟩ := create_of_guards_fail C t secret ids coeffs hg
    rw [he]
    simp
  | true =>
    rw [create_of_guards C t secret ids coeffs hg]
    rcases mapM_baseMult_cases C (secret :: coeffs) with ⟨vs', hvs', hcom', _⟩ | ⟨hp, a, ha, hn⟩
    · rw [hvs']
      simp only [Outcome.ok.injEq, Prod.mk.injEq, true_and]
      constructor
      · rintro ⟨rfl, rfl⟩; exact ⟨hcom', rfl⟩
      · rintro ⟨hcom, rfl⟩; exact ⟨hcom'.unique hcom, rfl⟩
    · rw [hp]
      simp only [true_and]
      constructor
      · intro h; cases h
      · rintro ⟨hcom, _⟩
        obtain ⟨r, hr⟩ := hcom.toAffine_some a ha
        rw [hr] at hn; cases hn

theorem create_err_iff (C : Curve P) (t secret : Nat) (ids coeffs : List Nat) :
    (∃ e, create C t secret ids coeffs = .err e) ↔ createGuards C.q t ids = false := by
  cases hg : createGuards C.q t ids with
  | false => simpa using create_of_guards_fail C t secret ids coeffs hg
  | true =>
    rw [create_of_guards C t secret ids coeffs hg]
    rcases mapM_baseMult_cases C (secret :: coeffs) with ⟨vs', hvs', _, _⟩ | ⟨hp, _⟩
    · rw [hvs']; simp
    · rw [hp]; simp

theorem create_panic_iff (C : Curve P) (t secret : Nat) (ids coeffs : List Nat) :
    (∃ e, create C t secret ids coeffs = .panic e) ↔
      createGuards C.q t ids = true ∧ ∃ a ∈ secret :: coeffs, C.toAffine (C.smul a C.base) = none := by
  cases hg : createGuards C.q t ids with
  | false =>
    obtain ⟨e, he⟩ := create_of_guards_fail C t secret ids coeffs hg
    rw [he]; simp
  | true =>
    rw [create_of_guards C t secret ids coeffs hg]
    rcases mapM_baseMult_cases C (secret :: coeffs) with ⟨vs', hvs', _, hall⟩ | ⟨hp, hex⟩
    · rw [hvs']
      simp only [reduceCtorEq, exists_false, true_and, false_iff, not_exists, not_and]
      intro a ha hn
      obtain ⟨r, hr⟩ := hall a ha
      rw [hr] at hn; cases hn
    · rw [hp]
      simp only [Outcome.panic.injEq, exists_eq', true_and, true_iff]
      exact hex

/-! ### a polynomial of degree `≤ t` takes a value at most `t` times -/

theorem value_count_le {q : ℕ} [Fact q.Prime] (as : List Nat) (t : Nat) (hlen : as.length = t + 1)
    (hnc : ∃ j, 1 ≤ j ∧ as.getD j 0 % q ≠ 0) (s : Nat) (xs : List Nat)
    (hnd : (xs.map (· % q)).Nodup) (hroot : ∀ x ∈ xs, polyNat as x ≡ s [MOD q]) :
    xs.length ≤ t := by
  classical
  set p : (ZMod q)[X] := polyZ q as - C (s : ZMod q) with hp
  have hp0 : p ≠ 0 := by
    obtain ⟨j, hj1, hj⟩ := hnc
    intro h0
    have := congrArg (fun r => r.coeff j) h0
    simp only [hp, coeff_sub, polyZ_coeff, coeff_zero] at this
    rw [coeff_C, if_neg (by omega), sub_zero, ZMod.natCast_eq_zero_iff] at this
    exact hj (Nat.mod_eq_zero_of_dvd this)
  have hdeg : p.natDegree ≤ t := by
    have h1 : (polyZ q as).natDegree ≤ t := by
      have := polyZ_natDegree_le (q := q) as
      omega
    calc p.natDegree ≤ max (polyZ q as).natDegree (C (s : ZMod q)).natDegree := natDegree_sub_le _ _
      _ ≤ t := by rw [natDegree_C]; exact max_le h1 (Nat.zero_le _)
  have hnd' : (xs.map (Nat.cast : ℕ → ZMod q)).Nodup := by
    have : xs.map (Nat.cast : ℕ → ZMod q) = (xs.map (· % q)).map (Nat.cast : ℕ → ZMod q) := by
      rw [List.map_map]
      apply List.map_congr_left
      intro x _
      simp [ZMod.natCast_mod]
    rw [this]
    apply List.Nodup.map_on _ hnd
    intro a ha b hb hab
    obtain ⟨a', _, rfl⟩ := List.mem_map.1 ha
    obtain ⟨b', _, rfl⟩ := List.mem_map.1 hb
    have := (ZMod.natCast_eq_natCast_iff' _ _ _).1 hab
    simpa using this
  have hsub : (xs.map (Nat.cast : ℕ → ZMod q)).toFinset ⊆ p.roots.toFinset := by
    intro y hy
    rw [List.mem_toFinset] at hy
    obtain ⟨x, hx, rfl⟩ := List.mem_map.1 hy
    rw [Multiset.mem_toFinset, mem_roots hp0, IsRoot, hp, eval_sub, eval_C, polyZ_eval_natCast]
    rw [sub_eq_zero]
    exact (ZMod.natCast_eq_natCast_iff' _ _ _).2 (hroot x hx)
  calc xs.length = (xs.map (Nat.cast : ℕ → ZMod q)).length := by simp
    _ = (xs.map (Nat.cast : ℕ → ZMod q)).toFinset.card := (List.toFinset_card_of_nodup hnd').symm
    _ ≤ p.roots.toFinset.card := Finset.card_le_card hsub
    _ ≤ p.roots.card := Multiset.toFinset_card_le _
    _ ≤ p.natDegree := card_roots' p
    _ ≤ t := hdeg

/-! ### exactly `t` shares -/

/-- with exactly `t` shares of `f = Σ a_i X^i` (degree `≤ t`) the Go code interpolates
`f − a_t · ∏ (X − id_i)` -/
theorem reconstruct_t_shares {q : ℕ} [Fact q.Prime] (as : List Nat) (t : Nat)
    (hlen : as.length = t + 1) (shares : List Share) (hsl : shares.length = t) (ht : 1 ≤ t)
    (hthr : ∀ s0 ∈ shares.head?, s0.threshold ≤ shares.length)
    (hnd : (shares.map (fun s => s.id % q)).Nodup)
    (hval : ∀ sh ∈ shares, sh.share ≡ polyNat as sh.id [MOD q]) :
    reconstruct q shares = .ok
      ((as.getD 0 0 : ZMod q) - (as.getD t 0 : ZMod q) *
        (Multiset.ofList (shares.map fun s => (0 : ZMod q) - (s.id : ZMod q))).prod).val := by
  set ids : Multiset (ZMod q) := Multiset.ofList (shares.map fun s => (s.id : ZMod q)) with hids
  set Pi : (ZMod q)[X] := (ids.map fun a => X - C a).prod with hPi
  have hcard : ids.card = t := by simp [hids, hsl]
  have hmonic : Pi.Monic := monic_multiset_prod_of_monic _ _ (fun a _ => monic_X_sub_C a)
  have hnat : Pi.natDegree = t := by rw [hPi, natDegree_multiset_prod_X_sub_C_eq_card, hcard]
  set h : (ZMod q)[X] := polyZ q as - C (as.getD t 0 : ZMod q) * Pi with hh
  have hne : shares ≠ [] := by
    intro h0; rw [h0] at hsl; simp at hsl; omega
  have hdeg : h.degree < (shares.length : ℕ) := by
    rw [hsl, degree_lt_iff_coeff_zero]
    intro m hm
    rw [hh, coeff_sub, coeff_C_mul, polyZ_coeff]
    rcases Nat.eq_or_lt_of_le hm with rfl | hlt
    · have : Pi.coeff t = 1 := by
        have := hmonic.coeff_natDegree
        rwa [hnat] at this
      rw [this, mul_one, sub_self]
    · rw [coeff_eq_zero_of_natDegree_lt (by rw [hnat]; exact hlt), mul_zero, sub_zero]
      have : as.getD m 0 = 0 := by
        simp [List.getD_eq_getElem?_getD, List.getElem?_eq_none (by omega : as.length ≤ m)]
      rw [this, Nat.cast_zero]
  have hv : ∀ sh ∈ shares, (sh.share : ZMod q) = h.eval (sh.id : ZMod q) := by
    intro sh hsh
    have hz : Pi.eval (sh.id : ZMod q) = 0 := by
      rw [hPi, eval_multiset_prod, Multiset.prod_eq_zero_iff, Multiset.mem_map]
      refine ⟨X - C (sh.id : ZMod q), ?_, by simp⟩
      rw [Multiset.mem_map]
      exact ⟨(sh.id : ZMod q), by simpa [hids] using ⟨sh, hsh, rfl⟩, rfl⟩
    rw [hh, eval_sub, eval_mul, hz, mul_zero, sub_zero, polyZ_eval_natCast]
    exact (ZMod.natCast_eq_natCast_iff' _ _ _).2 (hval sh hsh)
  rw [reconstruct_eq_eval shares h hne hthr hnd hdeg hv]
  congr 2
  rw [hh, eval_sub, eval_mul, eval_C, ← coeff_zero_eq_eval_zero, polyZ_coeff]
  congr 2
  rw [hPi, eval_multiset_prod, Multiset.map_map, hids]
  simp only [Multiset.map_coe, List.map_map]
  congr 2
  apply List.map_congr_left
  intro s _
  simp

/-! ### privacy: interpolation through `(0, secret)` and `t` further points -/

theorem privacy_poly {q : ℕ} [Fact q.Prime] (pts : List (Nat × Nat))
    (hnd : (pts.map (·.1 % q)).Nodup) (hnz : ∀ p ∈ pts, p.1 % q ≠ 0) (secret : Nat) :
    ∃ f : (ZMod q)[X], f.degree < ((pts.length + 1 : ℕ) : WithBot ℕ) ∧ f.eval 0 = (secret : ZMod q) ∧
      ∀ p ∈ pts, f.eval (p.1 : ZMod q) = (p.2 : ZMod q) := by
  classical
  set v : ℕ → ZMod q := fun k => if k = 0 then 0 else ((pts.getD (k - 1) (0, 0)).1 : ZMod q) with hv
  set r : ℕ → ZMod q := fun k => if k = 0 then (secret : ZMod q)
    else ((pts.getD (k - 1) (0, 0)).2 : ZMod q) with hr
  have hcast0 : ∀ i, i < pts.length → ((pts.getD i (0, 0)).1 : ZMod q) ≠ 0 := by
    intro i hi h0
    rw [ZMod.natCast_eq_zero_iff] at h0
    refine hnz _ ?_ (Nat.mod_eq_zero_of_dvd h0)
    rw [getD_eq_getElem' _ _ hi]; exact List.getElem_mem _
  have hinj : Set.InjOn v (Finset.range (pts.length + 1) : Set ℕ) := by
    intro i hi j hj hij
    have hi' : i < pts.length + 1 := by simpa using hi
    have hj' : j < pts.length + 1 := by simpa using hj
    simp only [hv] at hij
    by_cases hi0 : i = 0 <;> by_cases hj0 : j = 0
    · rw [hi0, hj0]
    · rw [if_pos hi0, if_neg hj0] at hij
      exact absurd hij.symm (hcast0 _ (by omega))
    · rw [if_neg hi0, if_pos hj0] at hij
      exact absurd hij (hcast0 _ (by omega))
    · rw [if_neg hi0, if_neg hj0, ZMod.natCast_eq_natCast_iff'] at hij
      have h1 : i - 1 < (pts.map (·.1 % q)).length := by simp; omega
      have h2 : j - 1 < (pts.map (·.1 % q)).length := by simp; omega
      rw [getD_eq_getElem' _ _ (by omega : i - 1 < pts.length),
        getD_eq_getElem' _ _ (by omega : j - 1 < pts.length)] at hij
      have := (hnd.getElem_inj_iff (hi := h1) (hj := h2)).1 (by simpa using hij)
      omega
  refine ⟨Lagrange.interpolate (Finset.range (pts.length + 1)) v r, ?_, ?_, ?_⟩
  · have := Lagrange.degree_interpolate_lt (s := Finset.range (pts.length + 1)) (v := v) r hinj
    simpa using this
  · have := Lagrange.eval_interpolate_at_node (s := Finset.range (pts.length + 1)) (v := v) r hinj
      (i := 0) (by simp)
    simpa [hv, hr] using this
  · intro p hp
    obtain ⟨i, hi, rfl⟩ := List.getElem_of_mem hp
    have := Lagrange.eval_interpolate_at_node (s := Finset.range (pts.length + 1)) (v := v) r hinj
      (i := i + 1) (by simpa using hi)
    simp only [hv, hr, Nat.add_sub_cancel, if_neg (Nat.succ_ne_zero i),
      getD_eq_getElem' _ _ hi] at this
    exact this

/-- every polynomial of degree `≤ t` with constant term `secret` is a dealer polynomial -/
theorem exists_coeffs_of_poly {q : ℕ} [Fact q.Prime] (f : (ZMod q)[X]) (t : Nat)
    (hdeg : f.degree < ((t + 1 : ℕ) : WithBot ℕ)) (secret : Nat) (h0 : f.eval 0 = (secret : ZMod q)) :
    ∃ coeffs : List Nat, coeffs.length = t ∧ polyZ q (secret :: coeffs) = f := by
  haveI : NeZero q := ⟨(Fact.out : q.Prime).ne_zero⟩
  refine ⟨(List.range t).map fun i => (f.coeff (i + 1)).val, by simp, ?_⟩
  ext m
  rw [polyZ_coeff]
  cases m with
  | zero => simp [coeff_zero_eq_eval_zero, h0]
  | succ m =>
    rw [List.getD_cons_succ]
    by_cases hm : m < t
    · rw [getD_eq_getElem' _ _ (by simpa using hm)]
      simp
    · have hlen' : ((List.range t).map fun i => (f.coeff (i + 1)).val).length ≤ m := by
        simp; omega
      have : ((List.range t).map fun i => (f.coeff (i + 1)).val).getD m 0 = 0 := by
        rw [List.getD_eq_getElem?_getD, List.getElem?_eq_none hlen']; rfl
      rw [this, Nat.cast_zero]
      exact ((degree_lt_iff_coeff_zero f (t + 1)).1 hdeg (m + 1) (by omega)).symm

end Vss
end TssVerif
