import TssVerif.Lemmas.C10Num
import TssVerif.Lemmas.Paillier
/-! Completeness of Alice's range proof (`crypto/mta/range_proof.go`). -/
set_option autoImplicit false
namespace TssVerif.C10L
open TssVerif Zk

/-! ### the verifier on a proof with natural components -/

theorem beq_cast_false {a b : Nat} (h : a ≠ b) : (((a : Int)) == (b : Int)) = false := by
  rw [beq_eq_false_iff_ne]; exact_mod_cast h

theorem int_gcd_cast_bne (a b : Nat) (h : Nat.Coprime a b) : (Int.gcd (a : Int) (b : Int) != 1) = false := by
  rw [Int.gcd_natCast_natCast, h]; rfl

theorem rangeVerify_eq_true (H : HashFn) (q n nt h1 h2 c z u w s s1 s2 : Nat) (hn : 0 < n) (hnt : 0 < nt)
    (hz : z < nt) (hu : u < n * n) (hw : w < nt) (hs : s < n)
    (gz : Nat.Coprime z nt) (gu : Nat.Coprime u (n * n)) (gw : Nat.Coprime w nt)
    (hs1 : q ≤ s1) (hs2 : q ≤ s2) (hs_ne : s ≠ 1) (hz_ne : z ≠ 1) (hs12 : s1 ≠ s2) (hs1' : s1 ≤ q * q * q)
    (gc : Nat.Coprime c (n * n))
    (eq1 : (n + 1) ^ s1 * s ^ n ≡ u * c ^ (rangeChallenge H q n c z u w) [MOD n * n])
    (eq2 : h1 ^ s1 * h2 ^ s2 ≡ w * z ^ (rangeChallenge H q n c z u w) [MOD nt]) :
    rangeVerify cur H q n nt h1 h2 c ⟨z, u, w, s, s1, s2⟩ = .ok true := by
  have hn2 : n * n ≠ 0 := Nat.mul_ne_zero (by omega) (by omega)
  have hnt0 : nt ≠ 0 := by omega
  set e := rangeChallenge H q n c z u w with he
  -- first equation
  have eq1' : (n + 1) ^ s1 % (n * n) * (s ^ n % (n * n)) % (n * n) ≡ u * c ^ e [MOD n * n] :=
    (Nat.mod_modEq _ _).trans (((Nat.mod_modEq _ _).mul (Nat.mod_modEq _ _)).trans eq1)
  obtain ⟨cE, hcE, hprod1⟩ := expP_neg_cancel hn2 gc eq1'
  have eq2' : h1 ^ s1 % nt * (h2 ^ s2 % nt) % nt ≡ w * z ^ e [MOD nt] :=
    (Nat.mod_modEq _ _).trans (((Nat.mod_modEq _ _).mul (Nat.mod_modEq _ _)).trans eq2)
  obtain ⟨zE, hzE, hprod2⟩ := expP_neg_cancel hnt0 gz eq2'
  rw [Nat.mod_eq_of_lt hu] at hprod1
  rw [Nat.mod_eq_of_lt hw] at hprod2
  unfold rangeVerify
  have i1 : isInInterval ((z : Nat) : Int) (nt : Int) = true := isInInterval_of_lt _ _ (by exact_mod_cast hz)
  have i2 : isInInterval ((u : Nat) : Int) ((n : Int) * (n : Int)) = true :=
    isInInterval_of_lt _ _ (by exact_mod_cast hu)
  have i3 : isInInterval ((w : Nat) : Int) (nt : Int) = true := isInInterval_of_lt _ _ (by exact_mod_cast hw)
  have i4 : isInInterval ((s : Nat) : Int) (n : Int) = true := isInInterval_of_lt _ _ (by exact_mod_cast hs)
  have g1 : (Int.gcd (z : Int) (nt : Int) != 1) = false := int_gcd_cast_bne _ _ gz
  have g2 : (Int.gcd (u : Int) ((n : Int) * (n : Int)) != 1) = false := by
    have := int_gcd_cast_bne _ _ gu
    rwa [Nat.cast_mul] at this
  have g3 : (Int.gcd (w : Int) (nt : Int) != 1) = false := int_gcd_cast_bne _ _ gw
  have g4 : (Int.gcd (c : Int) ((n : Int) * (n : Int)) != 1) = false := by
    have := int_gcd_cast_bne _ _ gc
    rwa [Nat.cast_mul] at this
  have r1 : ¬ ((s1 : Int) < (q : Int)) := by omega
  have r2 : ¬ ((s2 : Int) < (q : Int)) := by omega
  have r3 : (((s : Nat) : Int) == 1) = false := beq_cast_false (b := 1) hs_ne
  have r4 : (((z : Nat) : Int) == 1) = false := beq_cast_false (b := 1) hz_ne
  have r5 : (((s1 : Nat) : Int) == (s2 : Int)) = false := beq_cast_false hs12
  have r6 : ¬ ((s1 : Int) > ((q * q * q : Nat) : Int)) := by
    have : ((s1 : Nat) : Int) ≤ ((q * q * q : Nat) : Int) := by exact_mod_cast hs1'
    omega
  have cn1 : ((n : Int) + 1) = ((n + 1 : Nat) : Int) := by push_cast; rfl
  simp only [i1, i2, i3, i4, g1, g2, g3, g4, r1, r2, r3, r4, r5, r6, Bool.not_true, Bool.false_eq_true, if_false,
    Bool.and_false, natAbs_cast_mul, Int.natAbs_natCast, ← he, hcE, hzE, cn1, expP_nat _ _ hn2, expP_nat _ _ hnt0,
    Outcome.ok_bind, hprod1, hprod2, bne_self_eq_false, beq_self_eq_true]

/-! ### the prover's output -/

def rangeZ (nt h1 h2 m rho : Nat) : Nat := h1 ^ m % nt * (h2 ^ rho % nt) % nt
def rangeU (n alpha beta : Nat) : Nat := (n + 1) ^ alpha % (n * n) * (beta ^ n % (n * n)) % (n * n)
def rangeW (nt h1 h2 alpha gamma : Nat) : Nat := h1 ^ alpha % nt * (h2 ^ gamma % nt) % nt
/-- the prover's challenge -/
def rangeE (H : HashFn) (q n c nt h1 h2 m alpha beta gamma rho : Nat) : Nat :=
  rangeChallenge H q n c (rangeZ nt h1 h2 m rho) (rangeU n alpha beta) (rangeW nt h1 h2 alpha gamma)
def rangeS (H : HashFn) (q n c nt h1 h2 m r alpha beta gamma rho : Nat) : Nat :=
  r ^ (rangeE H q n c nt h1 h2 m alpha beta gamma rho) % n * beta % n

theorem rangeProve_eq (H : HashFn) (q n c nt h1 h2 m r alpha beta gamma rho : Nat) :
    rangeProve H q n c nt h1 h2 m r alpha beta gamma rho =
      .ok ⟨rangeZ nt h1 h2 m rho, rangeU n alpha beta, rangeW nt h1 h2 alpha gamma,
        rangeS H q n c nt h1 h2 m r alpha beta gamma rho,
        rangeE H q n c nt h1 h2 m alpha beta gamma rho * m + alpha,
        rangeE H q n c nt h1 h2 m alpha beta gamma rho * rho + gamma⟩ := by
  unfold rangeProve rangeS rangeE rangeZ rangeU rangeW
  simp only [modPow_spec]

/-- side conditions on the coins `alpha, beta, gamma, rho` of `ProveRangeAlice`: `beta` is a unit modulo `n`
(the Go code samples it from `Z_N^*`; needed for the verifier's unit check on `u`), and the verifier's range
guards `q ≤ s1 ≤ q³`, `q ≤ s2`, `s ≠ 1`, `z ≠ 1`, `s1 ≠ s2`. -/
def RangeGood (H : HashFn) (q n c nt h1 h2 m r alpha beta gamma rho : Nat) : Prop :=
  let e := rangeE H q n c nt h1 h2 m alpha beta gamma rho
  Nat.gcd beta n = 1 ∧ q ≤ e * m + alpha ∧ q ≤ e * rho + gamma ∧
  rangeS H q n c nt h1 h2 m r alpha beta gamma rho ≠ 1 ∧ rangeZ nt h1 h2 m rho ≠ 1 ∧
  e * m + alpha ≠ e * rho + gamma ∧ e * m + alpha ≤ q * q * q

instance (H : HashFn) (q n c nt h1 h2 m r alpha beta gamma rho : Nat) :
    Decidable (RangeGood H q n c nt h1 h2 m r alpha beta gamma rho) := by
  unfold RangeGood; infer_instance

theorem range_complete_aux (H : HashFn) (q n c nt h1 h2 m r alpha beta gamma rho : Nat)
    (hn : 0 < n) (hnt : 0 < nt) (hr : Nat.Coprime r n)
    (hh1 : Nat.Coprime h1 nt) (hh2 : Nat.Coprime h2 nt)
    (hc : c ≡ (n + 1) ^ m * r ^ n [MOD n * n])
    (hg : RangeGood H q n c nt h1 h2 m r alpha beta gamma rho) :
    (rangeProve H q n c nt h1 h2 m r alpha beta gamma rho >>= fun pf =>
      rangeVerify cur H q n nt h1 h2 c pf) = .ok true := by
  obtain ⟨gb, g1, g2, g3, g4, g5, g6⟩ := hg
  rw [rangeProve_eq]
  set e := rangeE H q n c nt h1 h2 m alpha beta gamma rho with he
  show rangeVerify cur H q n nt h1 h2 c ⟨_, _, _, _, ((e * m + alpha : Nat) : Int), ((e * rho + gamma : Nat) : Int)⟩ = .ok true
  have hn2 : 0 < n * n := Nat.mul_pos hn hn
  have hsucc : Nat.Coprime (n + 1) (n * n) := coprime_sq (PaillierL.coprime_succ_self n)
  have hbeta : Nat.Coprime beta (n * n) := coprime_sq gb
  have hrr : Nat.Coprime r (n * n) := coprime_sq hr
  apply rangeVerify_eq_true H q n nt h1 h2 c _ _ _ _ _ _ hn hnt
    (Nat.mod_lt _ hnt) (Nat.mod_lt _ hn2) (Nat.mod_lt _ hnt) (Nat.mod_lt _ hn)
    (coprime_mul_pow_mod _ _ hh1 hh2) (coprime_mul_pow_mod _ _ hsucc hbeta) (coprime_mul_pow_mod _ _ hh1 hh2)
    g1 g2 g3 g4 g5 g6
  · -- the ciphertext is a unit
    have : Nat.Coprime ((n + 1) ^ m * r ^ n) (n * n) :=
      Nat.Coprime.mul_left (hsucc.pow_left m) (hrr.pow_left n)
    unfold Nat.Coprime
    rw [hc.gcd_eq]; exact this
  · -- (n+1)^{s1} s^n ≡ u c^e (mod n²)
    show (n + 1) ^ (e * m + alpha) * rangeS H q n c nt h1 h2 m r alpha beta gamma rho ^ n ≡
      rangeU n alpha beta * c ^ e [MOD n * n]
    have hs : rangeS H q n c nt h1 h2 m r alpha beta gamma rho ≡ r ^ e * beta [MOD n] := by
      unfold rangeS
      rw [← he]
      exact (Nat.mod_modEq _ _).trans ((Nat.mod_modEq _ _).mul_right _)
    have hsn := pow_n_modEq_sq hs
    have hu : rangeU n alpha beta ≡ (n + 1) ^ alpha * beta ^ n [MOD n * n] :=
      (Nat.mod_modEq _ _).trans ((Nat.mod_modEq _ _).mul (Nat.mod_modEq _ _))
    have lhs : (n + 1) ^ (e * m + alpha) * rangeS H q n c nt h1 h2 m r alpha beta gamma rho ^ n ≡
        (n + 1) ^ (e * m + alpha) * (r ^ e * beta) ^ n [MOD n * n] := hsn.mul_left _
    have rhs : rangeU n alpha beta * c ^ e ≡ (n + 1) ^ alpha * beta ^ n * ((n + 1) ^ m * r ^ n) ^ e [MOD n * n] :=
      hu.mul (hc.pow e)
    refine lhs.trans (Nat.ModEq.trans ?_ rhs.symm)
    have : (n + 1) ^ (e * m + alpha) * (r ^ e * beta) ^ n =
        (n + 1) ^ alpha * beta ^ n * ((n + 1) ^ m * r ^ n) ^ e := by
      rw [pow_add, mul_pow, mul_pow, ← pow_mul, ← pow_mul, ← pow_mul, mul_comm e m, mul_comm e n]
      ring
    rw [this]
  · -- h1^{s1} h2^{s2} ≡ w z^e (mod ntilde)
    show h1 ^ (e * m + alpha) * h2 ^ (e * rho + gamma) ≡
      rangeW nt h1 h2 alpha gamma * rangeZ nt h1 h2 m rho ^ e [MOD nt]
    have hz : rangeZ nt h1 h2 m rho ≡ h1 ^ m * h2 ^ rho [MOD nt] :=
      (Nat.mod_modEq _ _).trans ((Nat.mod_modEq _ _).mul (Nat.mod_modEq _ _))
    have hw : rangeW nt h1 h2 alpha gamma ≡ h1 ^ alpha * h2 ^ gamma [MOD nt] :=
      (Nat.mod_modEq _ _).trans ((Nat.mod_modEq _ _).mul (Nat.mod_modEq _ _))
    have rhs := hw.mul (hz.pow e)
    refine Nat.ModEq.trans ?_ rhs.symm
    have : h1 ^ (e * m + alpha) * h2 ^ (e * rho + gamma) = h1 ^ alpha * h2 ^ gamma * (h1 ^ m * h2 ^ rho) ^ e := by
      rw [pow_add, pow_add, mul_pow, ← pow_mul, ← pow_mul, mul_comm e m, mul_comm e rho]
      ring
    rw [this]

/-! ### necessity of the side conditions -/

theorem ite_okfalse {c : Prop} [Decidable c] {x : Outcome Bool}
    (h : (if c then Outcome.ok false else x) = .ok true) : ¬ c ∧ x = .ok true := by
  by_cases hc : c
  · rw [if_pos hc] at h; cases h
  · rw [if_neg hc] at h; exact ⟨hc, h⟩

theorem rangeVerify_true_guards (H : HashFn) (q n nt h1 h2 c z u w s s1 s2 : Nat)
    (h : rangeVerify cur H q n nt h1 h2 c ⟨z, u, w, s, s1, s2⟩ = .ok true) :
    Nat.Coprime u (n * n) ∧ q ≤ s1 ∧ q ≤ s2 ∧ s ≠ 1 ∧ z ≠ 1 ∧ s1 ≠ s2 ∧ s1 ≤ q * q * q := by
  rw [rangeVerify] at h
  dsimp only at h
  obtain ⟨-, h⟩ := ite_okfalse h
  obtain ⟨-, h⟩ := ite_okfalse h
  obtain ⟨-, h⟩ := ite_okfalse h
  obtain ⟨-, h⟩ := ite_okfalse h
  obtain ⟨-, h⟩ := ite_okfalse h
  obtain ⟨gu, h⟩ := ite_okfalse h
  obtain ⟨-, h⟩ := ite_okfalse h
  obtain ⟨r1, h⟩ := ite_okfalse h
  obtain ⟨r2, h⟩ := ite_okfalse h
  obtain ⟨r3, h⟩ := ite_okfalse h
  obtain ⟨r4, h⟩ := ite_okfalse h
  obtain ⟨r5, h⟩ := ite_okfalse h
  obtain ⟨r6, -⟩ := ite_okfalse h
  refine ⟨?_, by omega, by omega, ?_, ?_, ?_, ?_⟩
  · have : Int.gcd (u : Int) ((n : Int) * (n : Int)) = 1 := by simpa using gu
    rw [← Nat.cast_mul, Int.gcd_natCast_natCast] at this
    exact this
  · intro e; apply r3; rw [e]; rfl
  · intro e; apply r4; rw [e]; rfl
  · intro e; apply r5; rw [e]; exact beq_self_eq_true _
  · have h' : ((s1 : Nat) : Int) ≤ ((q * q * q : Nat) : Int) := by omega
    exact_mod_cast h'

/-- the side conditions are also NECESSARY (only `0 < n` is used) -/
theorem range_good_of_accept (H : HashFn) (q n c nt h1 h2 m r alpha beta gamma rho : Nat) (hn : 0 < n)
    (h : (rangeProve H q n c nt h1 h2 m r alpha beta gamma rho >>= fun pf =>
      rangeVerify cur H q n nt h1 h2 c pf) = .ok true) :
    RangeGood H q n c nt h1 h2 m r alpha beta gamma rho := by
  rw [rangeProve_eq, Outcome.ok_bind] at h
  have h' : rangeVerify cur H q n nt h1 h2 c
      ⟨((rangeZ nt h1 h2 m rho : Nat) : Int), ((rangeU n alpha beta : Nat) : Int),
       ((rangeW nt h1 h2 alpha gamma : Nat) : Int), ((rangeS H q n c nt h1 h2 m r alpha beta gamma rho : Nat) : Int),
       ((rangeE H q n c nt h1 h2 m alpha beta gamma rho * m + alpha : Nat) : Int),
       ((rangeE H q n c nt h1 h2 m alpha beta gamma rho * rho + gamma : Nat) : Int)⟩ = .ok true := h
  obtain ⟨gu, g1, g2, g3, g4, g5, g6⟩ := rangeVerify_true_guards H q n nt h1 h2 c _ _ _ _ _ _ h'
  refine ⟨?_, g1, g2, g3, g4, g5, g6⟩
  -- a common factor of `beta` and `n` divides `u` and `n²`
  have hd1 : Nat.gcd beta n ∣ n * n := Dvd.dvd.mul_right (Nat.gcd_dvd_right beta n) n
  have hd2 : Nat.gcd beta n ∣ beta ^ n :=
    Dvd.dvd.trans (Nat.gcd_dvd_left beta n) (dvd_pow_self beta (by omega))
  have hd3 : Nat.gcd beta n ∣ rangeU n alpha beta := by
    unfold rangeU
    rw [Nat.dvd_mod_iff hd1]
    exact Dvd.dvd.mul_left ((Nat.dvd_mod_iff hd1).2 hd2) _
  exact Nat.eq_one_of_dvd_one (gu ▸ Nat.dvd_gcd hd3 hd1)

end TssVerif.C10L
