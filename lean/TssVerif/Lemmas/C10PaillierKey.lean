import TssVerif.Lemmas.C10Dln
import TssVerif.Lemmas.Paillier
import Mathlib.Data.Nat.Totient
/-! Completeness of the Paillier key proof (`(*PrivateKey).Proof` / `Proof.Verify`). -/
set_option autoImplicit false
namespace TssVerif.C10L
open TssVerif Zk Paillier

/-! ### `GenerateXs` -/

theorem generateXsLoop_spec (H : HashFn) (m : Nat) (kb sxb syb nb : Bytes) (nInt : Int) (blocks : Nat) :
    ∀ (fuel i cnt : Nat) (acc xs : List Nat),
      generateXsLoop H m kb sxb syb nb nInt blocks fuel i cnt acc = some xs →
      acc.length = i → i ≤ m → (∀ x ∈ acc, isNumberInMultiplicativeGroup nInt x = true) →
      xs.length = m ∧ ∀ x ∈ xs, isNumberInMultiplicativeGroup nInt x = true := by
  intro fuel
  induction fuel with
  | zero => intro i cnt acc xs h; simp [generateXsLoop] at h
  | succ fuel ih =>
    intro i cnt acc xs h hlen hi hacc
    rw [generateXsLoop] at h
    split at h
    · next hge =>
      injection h with h
      subst h
      refine ⟨by rw [List.length_reverse]; omega, fun x hx => hacc x (List.mem_reverse.1 hx)⟩
    · next hlt =>
      simp only [] at h
      split at h
      · next hgood =>
        refine ih (i + 1) cnt _ xs h (by simp [hlen]) (by omega) ?_
        intro x hx
        rcases List.mem_cons.1 hx with rfl | hx
        · exact hgood
        · exact hacc x hx
      · split at h
        · cases h
        · exact ih i (cnt + 1) acc xs h hlen hi hacc

theorem generateXs_spec {H : HashFn} {m : Nat} {k n : Int} {pub : ECPoint} {xs : List Nat}
    (h : generateXs H m k n pub = some xs) :
    xs.length = m ∧ ∀ x ∈ xs, isNumberInMultiplicativeGroup n x = true := by
  unfold generateXs at h
  exact generateXsLoop_spec H m _ _ _ _ n _ _ 0 0 [] xs h rfl (Nat.zero_le _) (by simp)

theorem inGroup_iff {n x : Nat} :
    isNumberInMultiplicativeGroup (n : Int) x = true ↔ 0 < n ∧ x < n ∧ 1 ≤ x ∧ Nat.Coprime x n := by
  unfold isNumberInMultiplicativeGroup
  simp only [Bool.and_eq_true, decide_eq_true_eq, beq_iff_eq, Int.toNat_natCast, and_assoc]
  constructor
  · rintro ⟨h1, h2, h3, h4⟩; exact ⟨by omega, by omega, h3, h4⟩
  · rintro ⟨h1, h2, h3, h4⟩; exact ⟨by omega, by omega, h3, h4⟩

/-! ### the small-prime filter -/

theorem mem_smallPrimes {p : Nat} (h : p ∈ smallPrimes) : p.Prime ∧ p < 1000 := by
  unfold smallPrimes at h
  rw [List.mem_filter, List.mem_range] at h
  obtain ⟨hlt, hc⟩ := h
  simp only [Bool.and_eq_true, decide_eq_true_eq, List.all_eq_true, List.mem_range, Bool.or_eq_true,
    bne_iff_ne, ne_eq] at hc
  obtain ⟨h2, hall⟩ := hc
  refine ⟨Nat.prime_def_lt.2 ⟨h2, fun m hm hdvd => ?_⟩, hlt⟩
  rcases hall m hm with h | h
  · have : m ≠ 0 := by rintro rfl; simp at hdvd; omega
    omega
  · exact absurd (Nat.mod_eq_zero_of_dvd hdvd) h

theorem smallPrimes_any_false {n : Nat} (h : ∀ p : Nat, p.Prime → p < 1000 → ¬ p ∣ n) :
    smallPrimes.any (fun prm => (n : Int) % (prm : Int) == 0) = false := by
  rw [List.any_eq_false]
  intro p hp
  obtain ⟨h1, h2⟩ := mem_smallPrimes hp
  simp only [beq_iff_eq]
  intro h0
  apply h p h1 h2
  have : ((n % p : Nat) : Int) = 0 := by push_cast; exact h0
  exact Nat.dvd_of_mod_eq_zero (by exact_mod_cast this)

/-! ### the root extraction -/

/-- `(x^{n⁻¹ mod φ})^n ≡ x (mod n)` for a unit `x` -/
theorem root_pow {n phi mInv x : Nat} (hphi : Nat.totient n = phi) (hinv : n * mInv % phi = 1 % phi)
    (hx : Nat.Coprime x n) : (x ^ mInv % n % n) ^ n % n = x % n := by
  have hord : x ^ phi ≡ 1 [MOD n] := hphi ▸ Nat.ModEq.pow_totient hx
  have h1 : x ^ (mInv * n) ≡ x ^ 1 [MOD n] :=
    pow_congr_of_order hord (by rw [mul_comm]; exact hinv)
  rw [pow_one] at h1
  have h2 : (x ^ mInv % n % n) ^ n ≡ (x ^ mInv) ^ n [MOD n] :=
    ((Nat.mod_modEq _ _).trans (Nat.mod_modEq _ _)).pow n
  rw [← pow_mul] at h2
  exact h2.trans h1

theorem paillierKey_complete_aux (cfg : ProofCfg) (H : HashFn) (sk : PrivateKey) (k : Int) (pub : ECPoint)
    (P Q : Nat) (hP : P.Prime) (hQ : Q.Prime) (hne : P ≠ Q)
    (hn : sk.n = P * Q) (hphi : sk.phiN = (P - 1) * (Q - 1))
    (hcop : Nat.Coprime (P * Q) ((P - 1) * (Q - 1)))
    (hsmall : ∀ p : Nat, p.Prime → p < 1000 → ¬ p ∣ P * Q)
    (hxs : (generateXs H proofIters k (sk.n : Int) pub).isSome) :
    (proof H sk k pub >>= fun pf => proofVerify cfg H (pf.map Int.ofNat) (sk.n : Int) k pub) = .ok true := by
  obtain ⟨xs, hxs⟩ := Option.isSome_iff_exists.1 hxs
  have hxs0 := hxs
  rw [hn] at hxs
  obtain ⟨hlen, hgrp⟩ := generateXs_spec hxs
  have hP1 : 0 < P - 1 := by have := hP.two_le; omega
  have hQ1 : 0 < Q - 1 := by have := hQ.two_le; omega
  have hphi0 : (P - 1) * (Q - 1) ≠ 0 := Nat.mul_ne_zero (by omega) (by omega)
  have hnpos : 0 < P * Q := Nat.mul_pos hP.pos hQ.pos
  have hg : Int.gcd ((P * Q : Nat) : Int) (((P - 1) * (Q - 1) : Nat) : Int) = 1 := by
    rw [Int.gcd_natCast_natCast]; exact hcop
  obtain ⟨mInv, hinv, hspec, _⟩ := modInverse_exists hphi0 hg
  have hspec' : (P * Q) * mInv % ((P - 1) * (Q - 1)) = 1 % ((P - 1) * (Q - 1)) := by exact_mod_cast hspec
  have htot := PaillierL.totient_mul_primes hP hQ hne
  have hprove : proof H sk k pub = .ok (xs.map fun x => modPow x mInv (P * Q)) := by
    unfold proof
    rw [hxs0, hn, hphi]
    simp only [hinv]
  rw [hprove, Outcome.ok_bind]
  unfold proofVerify
  rw [hn]
  rw [smallPrimes_any_false hsmall]
  simp only [Bool.false_eq_true, if_false, hxs, List.length_map, hlen, bne_self_eq_false]
  congr 1
  rw [List.all_eq_true]
  intro i hi
  have hi' : i < xs.length := by rw [hlen]; exact List.mem_range.1 hi
  have hx := (inGroup_iff.1 (hgrp xs[i] (List.getElem_mem hi')))
  obtain ⟨_, hxlt, _, hxc⟩ := hx
  have e1 : xs.getD i 0 = xs[i] := getD_of_lt xs i 0 hi'
  have e2 : (List.map Int.ofNat (List.map (fun x => modPow x mInv (P * Q)) xs)).getD i 0 =
      ((xs[i] ^ mInv % (P * Q) : Nat) : Int) := by
    rw [getD_of_lt _ _ _ (by simpa using hi')]
    simp [modPow_spec]
  rw [e1, e2, Int.natAbs_natCast, goExp_of_nonneg _ (by omega) (Int.natCast_nonneg _), emod_natCast_toNat,
    Int.toNat_natCast]
  simp only [beq_iff_eq]
  rw [root_pow htot hspec' hxc, ← Int.natCast_mod]

end TssVerif.C10L
