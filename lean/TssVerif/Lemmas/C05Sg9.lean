import TssVerif.Core.BlameSg9
import TssVerif.Lemmas.C05Sg
/-! Helper lemmas for `TssVerif/Props/C05e.lean`: round 9 of threshold-ECDSA signing (`Core/BlameSg9.lean`), the
last check before a signer reveals its share.

* the judgements about one peer's opening: `Opens` (valid: at least four values, the first two pairs on the
  curve), `NoOpen`, `Short` (fewer than four values), `OffU`, `OffT` (a pair off the curve);
* `peer9`: the loop body for one peer, with `round9Go_cons` tying it to the Core recursion, and its exact
  pass / fail / crash conditions;
* the loop: `round9Go_append` (valid openings only move the running sums), `split_first` (all valid, or a first
  peer that is not), and from them the exact pass / fail / crash conditions of `round9Go`. -/
set_option autoImplicit false
set_option linter.unusedSectionVars false
set_option linter.unusedVariables false
namespace TssVerif.C05Sg9L
open TssVerif BlameSg C05L

variable {P : Type} (C : Curve P) (H : HashFn)

/-- the error texts of `round_9.go` -/
abbrev decommitMsg : String := "de-commitment for bigVj and bigAj failed"
abbrev selfMsg : String := "U doesn't equal T"
abbrev offUMsg : String := "NewECPoint(Uj)"
abbrev offTMsg : String := "NewECPoint(Tj)"
abbrev rangeMsg : String := "index-out-of-range"

/-- peer `p`'s de-commitment opens its commitment to at least four values, the first two are the affine
coordinates of the curve point `uj`, the next two those of `tj` -/
def Opens (p : R8Peer) (uj tj : P) : Prop :=
  ∃ v, decommitWith H p.commitment (p.decommitment.map Int.ofNat) = .ok (some v) ∧ 4 ≤ v.length ∧
    C.ofAffine (v.getD 0 0).toNat (v.getD 1 0).toNat = some uj ∧
    C.ofAffine (v.getD 2 0).toNat (v.getD 3 0).toNat = some tj

/-- the de-commitment does not open the commitment -/
def NoOpen (p : R8Peer) : Prop :=
  decommitWith H p.commitment (p.decommitment.map Int.ofNat) = .ok none

/-- it opens the commitment to fewer than four values -/
def Short (p : R8Peer) : Prop :=
  ∃ v, decommitWith H p.commitment (p.decommitment.map Int.ofNat) = .ok (some v) ∧ v.length < 4

/-- it opens (four values or more) and the pair for `U_j` is not a point of the curve -/
def OffU (p : R8Peer) : Prop :=
  ∃ v, decommitWith H p.commitment (p.decommitment.map Int.ofNat) = .ok (some v) ∧ 4 ≤ v.length ∧
    C.ofAffine (v.getD 0 0).toNat (v.getD 1 0).toNat = none

/-- it opens (four values or more), the pair for `U_j` is a point, the pair for `T_j` is not -/
def OffT (p : R8Peer) : Prop :=
  ∃ v uj, decommitWith H p.commitment (p.decommitment.map Int.ofNat) = .ok (some v) ∧ 4 ≤ v.length ∧
    C.ofAffine (v.getD 0 0).toNat (v.getD 1 0).toNat = some uj ∧
    C.ofAffine (v.getD 2 0).toNat (v.getD 3 0).toNat = none

/-- who is named for an off-curve pair: the sender with the tag of the failed decoding after the repair
(`cp = true`); before it, the party itself with the text of the final assertion -/
def Named (cp : Bool) (own : Nat) (p : R8Peer) (tag why : String) (c : Nat) : Prop :=
  (cp = true ∧ why = tag ∧ c = p.idx) ∨ (cp = false ∧ why = selfMsg ∧ c = own)

/-- the loop body of round 9 for one peer -/
def peer9 (cp : Bool) (own : Nat) (p : R8Peer) : Outcome (Res (P × P)) :=
  match decommitWith H p.commitment (p.decommitment.map Int.ofNat) with
  | .panic e => .panic e
  | .err e => .err e
  | .ok none => .ok (.fail decommitMsg p.idx)
  | .ok (some v) =>
    if v.length < 4 then .panic rangeMsg else
    match C.ofAffine (v.getD 0 0).toNat (v.getD 1 0).toNat with
    | none => if cp then .ok (.fail offUMsg p.idx) else .ok (.fail selfMsg own)
    | some uj =>
      match C.ofAffine (v.getD 2 0).toNat (v.getD 3 0).toNat with
      | none => if cp then .ok (.fail offTMsg p.idx) else .ok (.fail selfMsg own)
      | some tj => .ok (.pass (uj, tj))

/-- what the loop does with the verdict on its first peer -/
def next9 (cp : Bool) (own : Nat) (u t : P) (rest : List R8Peer) : Outcome (Res (P × P)) → Outcome (Res Unit)
  | .panic e => .panic e
  | .err e => .err e
  | .ok (.fail why c) => .ok (.fail why c)
  | .ok (.pass ut) => round9Go C H cp own (C.add u ut.1) (C.add t ut.2) rest

/-- the final comparison -/
def final9 (own : Nat) (u t : P) : Outcome (Res Unit) :=
  if C.toAffine u == C.toAffine t then .ok (.pass ()) else .ok (.fail selfMsg own)

theorem round9Go_nil (cp : Bool) (own : Nat) (u t : P) : round9Go C H cp own u t [] = final9 C own u t := rfl

theorem round9Go_cons (cp : Bool) (own : Nat) (u t : P) (p : R8Peer) (rest : List R8Peer) :
    round9Go C H cp own u t (p :: rest) = next9 C H cp own u t rest (peer9 C H cp own p) := by
  rw [round9Go]
  unfold peer9
  cases decommitWith H p.commitment (p.decommitment.map Int.ofNat) with
  | panic e => rfl
  | err e => rfl
  | ok o =>
    cases o with
    | none => rfl
    | some v =>
      simp only
      by_cases hl : v.length < 4
      · rw [if_pos hl, if_pos hl]; rfl
      · rw [if_neg hl, if_neg hl]
        cases C.ofAffine (v.getD 0 0).toNat (v.getD 1 0).toNat with
        | none => cases cp <;> rfl
        | some uj =>
          cases C.ofAffine (v.getD 2 0).toNat (v.getD 3 0).toNat with
          | none => cases cp <;> rfl
          | some tj => rfl

/-! ### the loop body -/
section peer
variable (cp : Bool) (own : Nat) (p : R8Peer)

/-- the verdict for an off-curve pair with decoding tag `tag` -/
def offVerdict (tag : String) : Outcome (Res (P × P)) :=
  if cp then .ok (.fail tag p.idx) else .ok (.fail selfMsg own)

theorem peer9_of_panic {e : String}
    (h : decommitWith H p.commitment (p.decommitment.map Int.ofNat) = .panic e) :
    peer9 C H cp own p = .panic e := by
  unfold peer9; rw [h]

theorem peer9_of_noOpen (h : NoOpen H p) : peer9 C H cp own p = .ok (.fail decommitMsg p.idx) := by
  unfold peer9; rw [h]

theorem peer9_of_short (h : Short H p) : peer9 C H cp own p = .panic rangeMsg := by
  obtain ⟨v, hd, hl⟩ := h
  unfold peer9; rw [hd]; simp only [hl, if_true]

theorem peer9_of_offU (h : OffU C H p) : peer9 C H cp own p = offVerdict cp own p offUMsg := by
  obtain ⟨v, hd, hl, hu⟩ := h
  have hl' : ¬ v.length < 4 := by omega
  unfold peer9 offVerdict; rw [hd]; simp only [hl', if_false, hu]

theorem peer9_of_offT (h : OffT C H p) : peer9 C H cp own p = offVerdict cp own p offTMsg := by
  obtain ⟨v, uj, hd, hl, hu, ht⟩ := h
  have hl' : ¬ v.length < 4 := by omega
  unfold peer9 offVerdict; rw [hd]; simp only [hl', if_false, hu, ht]

theorem peer9_of_opens {uj tj : P} (h : Opens C H p uj tj) : peer9 C H cp own p = .ok (.pass (uj, tj)) := by
  obtain ⟨v, hd, hl, hu, ht⟩ := h
  have hl' : ¬ v.length < 4 := by omega
  unfold peer9; rw [hd]; simp only [hl', if_false, hu, ht]

/-- the seven things a peer's opening can be -/
theorem opening_cases :
    (∃ e, decommitWith H p.commitment (p.decommitment.map Int.ofNat) = .panic e) ∨
    NoOpen H p ∨ Short H p ∨ OffU C H p ∨ OffT C H p ∨ ∃ uj tj, Opens C H p uj tj := by
  cases hd : decommitWith H p.commitment (p.decommitment.map Int.ofNat) with
  | panic e => exact Or.inl ⟨e, rfl⟩
  | err e => exact absurd hd (decommit_no_err H _ _ e)
  | ok o =>
    cases o with
    | none => exact Or.inr (Or.inl hd)
    | some v =>
      by_cases hl : v.length < 4
      · exact Or.inr (Or.inr (Or.inl ⟨v, hd, hl⟩))
      · have h4 : 4 ≤ v.length := by omega
        cases hu : C.ofAffine (v.getD 0 0).toNat (v.getD 1 0).toNat with
        | none => exact Or.inr (Or.inr (Or.inr (Or.inl ⟨v, hd, h4, hu⟩)))
        | some uj =>
          cases ht : C.ofAffine (v.getD 2 0).toNat (v.getD 3 0).toNat with
          | none => exact Or.inr (Or.inr (Or.inr (Or.inr (Or.inl ⟨v, uj, hd, h4, hu, ht⟩))))
          | some tj => exact Or.inr (Or.inr (Or.inr (Or.inr (Or.inr ⟨uj, tj, v, hd, h4, hu, ht⟩))))

theorem offVerdict_fail_iff (tag why : String) (c : Nat) :
    offVerdict (P := P) cp own p tag = .ok (.fail why c) ↔ Named cp own p tag why c := by
  unfold offVerdict Named
  cases cp
  · simp only [Bool.false_eq_true, if_false, false_and, false_or, true_and, Outcome.ok.injEq, Res.fail.injEq]
    exact ⟨fun ⟨a, b⟩ => ⟨a.symm, b.symm⟩, fun ⟨a, b⟩ => ⟨a.symm, b.symm⟩⟩
  · simp only [if_true, true_and, Bool.true_eq_false, false_and, or_false, Outcome.ok.injEq, Res.fail.injEq]
    exact ⟨fun ⟨a, b⟩ => ⟨a.symm, b.symm⟩, fun ⟨a, b⟩ => ⟨a.symm, b.symm⟩⟩

theorem offVerdict_ne_pass (tag : String) (ut : P × P) : offVerdict cp own p tag ≠ .ok (.pass ut) := by
  unfold offVerdict; cases cp <;> simp

theorem offVerdict_ne_panic (tag e : String) : offVerdict (P := P) cp own p tag ≠ .panic e := by
  unfold offVerdict; cases cp <;> simp

theorem peer9_pass_iff (uj tj : P) : peer9 C H cp own p = .ok (.pass (uj, tj)) ↔ Opens C H p uj tj := by
  refine ⟨fun h => ?_, peer9_of_opens C H cp own p⟩
  rcases opening_cases C H p with ⟨e, he⟩ | hn | hs | hu | ht | ⟨uj', tj', ho⟩
  · rw [peer9_of_panic C H cp own p he] at h; cases h
  · rw [peer9_of_noOpen C H cp own p hn] at h; cases h
  · rw [peer9_of_short C H cp own p hs] at h; cases h
  · rw [peer9_of_offU C H cp own p hu] at h; exact absurd h (offVerdict_ne_pass cp own p _ _)
  · rw [peer9_of_offT C H cp own p ht] at h; exact absurd h (offVerdict_ne_pass cp own p _ _)
  · rw [peer9_of_opens C H cp own p ho] at h
    injection h with h; injection h with h; injection h with h1 h2
    subst h1; subst h2; exact ho

theorem opens_unique {uj tj uj' tj' : P} (h : Opens C H p uj tj) (h' : Opens C H p uj' tj') :
    uj = uj' ∧ tj = tj' := by
  have := (peer9_of_opens C H true 0 p h).symm.trans (peer9_of_opens C H true 0 p h')
  injection this with this; injection this with this; injection this with h1 h2
  exact ⟨h1, h2⟩

theorem peer9_fail_iff (why : String) (c : Nat) :
    peer9 C H cp own p = .ok (.fail why c) ↔
      (NoOpen H p ∧ why = decommitMsg ∧ c = p.idx) ∨
      (OffU C H p ∧ Named cp own p offUMsg why c) ∨
      (OffT C H p ∧ Named cp own p offTMsg why c) := by
  constructor
  · intro h
    rcases opening_cases C H p with ⟨e, he⟩ | hn | hs | hu | ht | ⟨uj', tj', ho⟩
    · rw [peer9_of_panic C H cp own p he] at h; cases h
    · rw [peer9_of_noOpen C H cp own p hn] at h
      injection h with h; injection h with h1 h2
      exact Or.inl ⟨hn, h1.symm, h2.symm⟩
    · rw [peer9_of_short C H cp own p hs] at h; cases h
    · rw [peer9_of_offU C H cp own p hu] at h
      exact Or.inr (Or.inl ⟨hu, (offVerdict_fail_iff cp own p _ _ _).1 h⟩)
    · rw [peer9_of_offT C H cp own p ht] at h
      exact Or.inr (Or.inr ⟨ht, (offVerdict_fail_iff cp own p _ _ _).1 h⟩)
    · rw [peer9_of_opens C H cp own p ho] at h; cases h
  · rintro (⟨hn, rfl, rfl⟩ | ⟨hu, hnm⟩ | ⟨ht, hnm⟩)
    · exact peer9_of_noOpen C H cp own p hn
    · rw [peer9_of_offU C H cp own p hu]; exact (offVerdict_fail_iff cp own p _ _ _).2 hnm
    · rw [peer9_of_offT C H cp own p ht]; exact (offVerdict_fail_iff cp own p _ _ _).2 hnm

theorem peer9_panic_iff (e : String) :
    peer9 C H cp own p = .panic e ↔
      decommitWith H p.commitment (p.decommitment.map Int.ofNat) = .panic e ∨ (Short H p ∧ e = rangeMsg) := by
  constructor
  · intro h
    rcases opening_cases C H p with ⟨e', he⟩ | hn | hs | hu | ht | ⟨uj', tj', ho⟩
    · rw [peer9_of_panic C H cp own p he] at h
      injection h with h; subst h; exact Or.inl he
    · rw [peer9_of_noOpen C H cp own p hn] at h; cases h
    · rw [peer9_of_short C H cp own p hs] at h
      injection h with h; exact Or.inr ⟨hs, h.symm⟩
    · rw [peer9_of_offU C H cp own p hu] at h; exact absurd h (offVerdict_ne_panic cp own p _ _)
    · rw [peer9_of_offT C H cp own p ht] at h; exact absurd h (offVerdict_ne_panic cp own p _ _)
    · rw [peer9_of_opens C H cp own p ho] at h; cases h
  · rintro (h | ⟨hs, rfl⟩)
    · exact peer9_of_panic C H cp own p h
    · exact peer9_of_short C H cp own p hs

theorem peer9_no_err (e : String) : peer9 C H cp own p ≠ .err e := by
  intro h
  rcases opening_cases C H p with ⟨e', he⟩ | hn | hs | hu | ht | ⟨uj', tj', ho⟩
  · rw [peer9_of_panic C H cp own p he] at h; cases h
  · rw [peer9_of_noOpen C H cp own p hn] at h; cases h
  · rw [peer9_of_short C H cp own p hs] at h; cases h
  · rw [peer9_of_offU C H cp own p hu] at h; unfold offVerdict at h; cases cp <;> simp at h
  · rw [peer9_of_offT C H cp own p ht] at h; unfold offVerdict at h; cases cp <;> simp at h
  · rw [peer9_of_opens C H cp own p ho] at h; cases h

/-- a peer whose opening is not valid stops the loop -/
theorem peer9_not_pass_of (h : ¬ ∃ uj tj, Opens C H p uj tj) (ut : P × P) :
    peer9 C H cp own p ≠ .ok (.pass ut) :=
  fun hp => h ⟨ut.1, ut.2, (peer9_pass_iff C H cp own p ut.1 ut.2).1 hp⟩

end peer

/-! ### the loop -/
section loop
variable (cp : Bool) (own : Nat)

/-- every peer opens validly, with these points, in peer order -/
abbrev AllOpen (peers : List R8Peer) (uts : List (P × P)) : Prop :=
  List.Forall₂ (fun q ut => Opens C H q ut.1 ut.2) peers uts

/-- the running sums after the peers whose points are `uts` -/
abbrev sumU (u : P) (uts : List (P × P)) : P := (uts.map (·.1)).foldl C.add u
abbrev sumT (t : P) (uts : List (P × P)) : P := (uts.map (·.2)).foldl C.add t

/-- valid openings only move the running sums -/
theorem round9Go_append : ∀ (pre : List R8Peer) (uts : List (P × P)) (u t : P) (rest : List R8Peer),
    AllOpen C H pre uts →
    round9Go C H cp own u t (pre ++ rest) = round9Go C H cp own (sumU C u uts) (sumT C t uts) rest := by
  intro pre uts u t rest h
  induction h generalizing u t with
  | nil => rfl
  | cons h1 _ ih =>
    rw [List.cons_append, round9Go_cons, peer9_of_opens C H cp own _ h1]
    simp only [next9]
    exact ih _ _

/-- all peers open validly, or there is a first one that does not -/
theorem split_first : ∀ (peers : List R8Peer),
    (∃ uts, AllOpen C H peers uts) ∨
    ∃ pre p post uts, peers = pre ++ p :: post ∧ AllOpen C H pre uts ∧ ¬ ∃ uj tj, Opens C H p uj tj := by
  intro peers
  induction peers with
  | nil => exact Or.inl ⟨[], List.Forall₂.nil⟩
  | cons p rest ih =>
    by_cases hp : ∃ uj tj, Opens C H p uj tj
    · obtain ⟨uj, tj, ho⟩ := hp
      rcases ih with ⟨uts, ha⟩ | ⟨pre, q, post, uts, he, ha, hq⟩
      · exact Or.inl ⟨(uj, tj) :: uts, List.Forall₂.cons ho ha⟩
      · exact Or.inr ⟨p :: pre, q, post, (uj, tj) :: uts, by rw [he]; rfl, List.Forall₂.cons ho ha, hq⟩
    · exact Or.inr ⟨[], p, rest, [], rfl, List.Forall₂.nil, hp⟩

theorem allOpen_unique {peers : List R8Peer} {uts uts' : List (P × P)}
    (h : AllOpen C H peers uts) (h' : AllOpen C H peers uts') : uts = uts' := by
  induction h generalizing uts' with
  | nil => cases h'; rfl
  | cons h1 _ ih =>
    cases h' with
    | cons h1' h2' =>
      obtain ⟨e1, e2⟩ := opens_unique C H _ h1 h1'
      rw [ih h2']
      congr 1
      exact Prod.ext e1 e2

theorem allOpen_of_forall : ∀ (peers : List R8Peer), (∀ q ∈ peers, ∃ uj tj, Opens C H q uj tj) →
    ∃ uts, AllOpen C H peers uts := by
  intro peers h
  rcases split_first C H peers with ha | ⟨pre, p, post, uts, he, _, hp⟩
  · exact ha
  · exact absurd (h p (by rw [he]; simp)) hp

theorem forall_of_allOpen {peers : List R8Peer} {uts : List (P × P)} (h : AllOpen C H peers uts) :
    ∀ q ∈ peers, ∃ uj tj, Opens C H q uj tj := by
  intro q hq
  obtain ⟨ut, hut⟩ := C05SgL.forall₂_left h q hq
  exact ⟨ut.1, ut.2, hut⟩

/-- an invalid opening in a prefix of valid ones: the peers before it split accordingly -/
theorem allOpen_prefix {pre post : List R8Peer} {p : R8Peer} {uts : List (P × P)}
    (h : AllOpen C H (pre ++ p :: post) uts) : ∃ uj tj, Opens C H p uj tj :=
  forall_of_allOpen C H h p (by simp)

/-- the first peer without a valid opening is unique -/
theorem split_unique {pre pre' post post' : List R8Peer} {p p' : R8Peer}
    (he : pre ++ p :: post = pre' ++ p' :: post')
    (hpre : ∀ q ∈ pre, ∃ uj tj, Opens C H q uj tj) (hp : ¬ ∃ uj tj, Opens C H p uj tj)
    (hpre' : ∀ q ∈ pre', ∃ uj tj, Opens C H q uj tj) (hp' : ¬ ∃ uj tj, Opens C H p' uj tj) :
    pre = pre' ∧ p = p' ∧ post = post' := by
  induction pre generalizing pre' with
  | nil =>
    cases pre' with
    | nil =>
      simp only [List.nil_append, List.cons.injEq] at he
      exact ⟨rfl, he.1, he.2⟩
    | cons a l =>
      simp only [List.nil_append, List.cons_append, List.cons.injEq] at he
      exact absurd (he.1 ▸ hpre' a (List.mem_cons_self ..)) hp
  | cons a l ih =>
    cases pre' with
    | nil =>
      simp only [List.nil_append, List.cons_append, List.cons.injEq] at he
      exact absurd (he.1 ▸ hpre a (List.mem_cons_self ..)) hp'
    | cons a' l' =>
      simp only [List.cons_append, List.cons.injEq] at he
      obtain ⟨e1, e2, e3⟩ := ih he.2 (fun q hq => hpre q (List.mem_cons_of_mem _ hq))
        (fun q hq => hpre' q (List.mem_cons_of_mem _ hq))
      exact ⟨by rw [he.1, e1], e2, e3⟩

/-- the loop at a peer without a valid opening stops with that peer's verdict -/
theorem round9Go_stop (u t : P) (p : R8Peer) (post : List R8Peer) (hp : ¬ ∃ uj tj, Opens C H p uj tj) :
    (∀ why c, round9Go C H cp own u t (p :: post) = .ok (.fail why c) ↔ peer9 C H cp own p = .ok (.fail why c)) ∧
    (∀ e, round9Go C H cp own u t (p :: post) = .panic e ↔ peer9 C H cp own p = .panic e) ∧
    round9Go C H cp own u t (p :: post) ≠ .ok (.pass ()) := by
  rw [round9Go_cons]
  cases hq : peer9 C H cp own p with
  | panic e => simp [next9]
  | err e => exact absurd hq (peer9_no_err C H cp own p e)
  | ok r =>
    cases r with
    | pass ut => exact absurd hq (peer9_not_pass_of C H cp own p hp ut)
    | fail w c' => simp [next9]

theorem final9_pass_iff (u t : P) : final9 C own u t = .ok (.pass ()) ↔ C.toAffine u = C.toAffine t := by
  unfold final9
  by_cases h : C.toAffine u = C.toAffine t
  · simp [h]
  · have : (C.toAffine u == C.toAffine t) = false := by simpa using h
    simp [this, h]

theorem final9_fail_iff (u t : P) (why : String) (c : Nat) :
    final9 C own u t = .ok (.fail why c) ↔ C.toAffine u ≠ C.toAffine t ∧ why = selfMsg ∧ c = own := by
  unfold final9
  by_cases h : C.toAffine u = C.toAffine t
  · simp [h]
  · have : (C.toAffine u == C.toAffine t) = false := by simpa using h
    simp only [this, Bool.false_eq_true, if_false, Outcome.ok.injEq, Res.fail.injEq, ne_eq, h, not_false_eq_true,
      true_and]
    exact ⟨fun ⟨a, b⟩ => ⟨a.symm, b.symm⟩, fun ⟨a, b⟩ => ⟨a.symm, b.symm⟩⟩

theorem final9_no_panic (u t : P) (e : String) : final9 C own u t ≠ .panic e := by
  unfold final9; split <;> simp

/-- **exact pass condition** -/
theorem round9Go_pass_iff (u t : P) (peers : List R8Peer) :
    round9Go C H cp own u t peers = .ok (.pass ()) ↔
      ∃ uts, AllOpen C H peers uts ∧ C.toAffine (sumU C u uts) = C.toAffine (sumT C t uts) := by
  constructor
  · intro h
    rcases split_first C H peers with ⟨uts, ha⟩ | ⟨pre, p, post, uts, he, ha, hp⟩
    · have := round9Go_append C H cp own peers uts u t [] ha
      rw [List.append_nil, round9Go_nil] at this
      rw [this] at h
      exact ⟨uts, ha, (final9_pass_iff C own _ _).1 h⟩
    · rw [he, round9Go_append C H cp own pre uts u t _ ha] at h
      exact absurd h (round9Go_stop C H cp own _ _ p post hp).2.2
  · rintro ⟨uts, ha, heq⟩
    have := round9Go_append C H cp own peers uts u t [] ha
    rw [List.append_nil, round9Go_nil] at this
    rw [this]
    exact (final9_pass_iff C own _ _).2 heq

/-- **exact failure condition**: the final comparison after valid openings throughout, or the verdict of the
first peer whose opening is not valid -/
theorem round9Go_fail_iff (u t : P) (peers : List R8Peer) (why : String) (c : Nat) :
    round9Go C H cp own u t peers = .ok (.fail why c) ↔
      (∃ uts, AllOpen C H peers uts ∧ C.toAffine (sumU C u uts) ≠ C.toAffine (sumT C t uts) ∧
        why = selfMsg ∧ c = own) ∨
      (∃ pre p post, peers = pre ++ p :: post ∧ (∀ q ∈ pre, ∃ uj tj, Opens C H q uj tj) ∧
        peer9 C H cp own p = .ok (.fail why c)) := by
  constructor
  · intro h
    rcases split_first C H peers with ⟨uts, ha⟩ | ⟨pre, p, post, uts, he, ha, hp⟩
    · have := round9Go_append C H cp own peers uts u t [] ha
      rw [List.append_nil, round9Go_nil] at this
      rw [this] at h
      exact Or.inl ⟨uts, ha, (final9_fail_iff C own _ _ _ _).1 h⟩
    · rw [he, round9Go_append C H cp own pre uts u t _ ha] at h
      exact Or.inr ⟨pre, p, post, he, forall_of_allOpen C H ha,
        ((round9Go_stop C H cp own _ _ p post hp).1 why c).1 h⟩
  · rintro (⟨uts, ha, hne, hw, hc⟩ | ⟨pre, p, post, he, hpre, hf⟩)
    · have := round9Go_append C H cp own peers uts u t [] ha
      rw [List.append_nil, round9Go_nil] at this
      rw [this]
      exact (final9_fail_iff C own _ _ _ _).2 ⟨hne, hw, hc⟩
    · obtain ⟨uts, ha⟩ := allOpen_of_forall C H pre hpre
      rw [he, round9Go_append C H cp own pre uts u t _ ha, round9Go_cons, hf]
      rfl

/-- **exact crash condition**: the first peer whose opening is not valid crashes the loop body -/
theorem round9Go_panic_iff (u t : P) (peers : List R8Peer) (e : String) :
    round9Go C H cp own u t peers = .panic e ↔
      ∃ pre p post, peers = pre ++ p :: post ∧ (∀ q ∈ pre, ∃ uj tj, Opens C H q uj tj) ∧
        peer9 C H cp own p = .panic e := by
  constructor
  · intro h
    rcases split_first C H peers with ⟨uts, ha⟩ | ⟨pre, p, post, uts, he, ha, hp⟩
    · have := round9Go_append C H cp own peers uts u t [] ha
      rw [List.append_nil, round9Go_nil] at this
      rw [this] at h
      exact absurd h (final9_no_panic C own _ _ e)
    · rw [he, round9Go_append C H cp own pre uts u t _ ha] at h
      exact ⟨pre, p, post, he, forall_of_allOpen C H ha, ((round9Go_stop C H cp own _ _ p post hp).2.1 e).1 h⟩
  · rintro ⟨pre, p, post, he, hpre, hf⟩
    obtain ⟨uts, ha⟩ := allOpen_of_forall C H pre hpre
    rw [he, round9Go_append C H cp own pre uts u t _ ha, round9Go_cons, hf]
    rfl

/-- the loop never reports an error without a culprit -/
theorem round9Go_no_err (u t : P) (peers : List R8Peer) (e : String) :
    round9Go C H cp own u t peers ≠ .err e := by
  induction peers generalizing u t with
  | nil => rw [round9Go_nil]; unfold final9; split <;> simp
  | cons p rest ih =>
    rw [round9Go_cons]
    cases hq : peer9 C H cp own p with
    | panic e' => simp [next9]
    | err e' => exact absurd hq (peer9_no_err C H cp own p e')
    | ok r =>
      cases r with
      | pass ut => exact ih _ _
      | fail w c' => simp [next9]

end loop

/-! ### who can be named -/
section names
variable (cp : Bool) (own : Nat)

/-- the loop body names its peer, or (tree before the repair only) the party itself -/
theorem peer9_fail_idx (p : R8Peer) (why : String) (c : Nat) (h : peer9 C H cp own p = .ok (.fail why c)) :
    c = p.idx ∨ (cp = false ∧ c = own ∧ why = selfMsg ∧ (OffU C H p ∨ OffT C H p)) := by
  rcases (peer9_fail_iff C H cp own p why c).1 h with ⟨_, _, hc⟩ | ⟨hu, hn⟩ | ⟨ht, hn⟩
  · exact Or.inl hc
  · rcases hn with ⟨_, _, hc⟩ | ⟨h1, h2, h3⟩
    · exact Or.inl hc
    · exact Or.inr ⟨h1, h3, h2, Or.inl hu⟩
  · rcases hn with ⟨_, _, hc⟩ | ⟨h1, h2, h3⟩
    · exact Or.inl hc
    · exact Or.inr ⟨h1, h3, h2, Or.inr ht⟩

/-- after the repair the loop body names its peer, with a reason other than the final assertion's -/
theorem peer9_fail_cur (p : R8Peer) (why : String) (c : Nat) (h : peer9 C H true own p = .ok (.fail why c)) :
    c = p.idx ∧ why ≠ selfMsg ∧
      ((NoOpen H p ∧ why = decommitMsg) ∨ (OffU C H p ∧ why = offUMsg) ∨ (OffT C H p ∧ why = offTMsg)) := by
  rcases (peer9_fail_iff C H true own p why c).1 h with ⟨hn, hw, hc⟩ | ⟨hu, hn⟩ | ⟨ht, hn⟩
  · exact ⟨hc, by rw [hw]; decide, Or.inl ⟨hn, hw⟩⟩
  · rcases hn with ⟨_, hw, hc⟩ | ⟨h1, _, _⟩
    · exact ⟨hc, by rw [hw]; decide, Or.inr (Or.inl ⟨hu, hw⟩)⟩
    · cases h1
  · rcases hn with ⟨_, hw, hc⟩ | ⟨h1, _, _⟩
    · exact ⟨hc, by rw [hw]; decide, Or.inr (Or.inr ⟨ht, hw⟩)⟩
    · cases h1

theorem idx_ne_of_nodup {pre post : List R8Peer} {d : R8Peer}
    (hnd : ((pre ++ d :: post).map (·.idx)).Nodup) : ∀ q ∈ pre, q.idx ≠ d.idx := by
  intro q hq
  rw [List.map_append, List.map_cons, List.nodup_append] at hnd
  exact hnd.2.2 q.idx (List.mem_map.2 ⟨q, hq, rfl⟩) d.idx (List.mem_cons_self ..)

end names

/-! ### a five-part de-commitment opens to exactly four values -/

theorem decommit_some_length {c : Nat} {d v : List Int} (h : decommitWith H c d = .ok (some v)) :
    v.length = d.length - 1 := by
  unfold decommitWith at h
  split at h
  · injection h with h; injection h with h; subst h; simp
  · cases h
  · cases h
  · cases h

theorem decommit_no_panic_of_ne_nil {c : Nat} {d : List Int} (hd : d ≠ []) (e : String) :
    decommitWith H c d ≠ .panic e := by
  rcases decommit_cases H c d hd with h | h <;> rw [h] <;> nofun

/-- a peer whose de-commitment has five entries (what `SignRound8Message.ValidateBasic` lets through) cannot crash
the loop body, whatever `checkPoints` is -/
theorem peer9_no_panic_of_five (cp : Bool) (own : Nat) (p : R8Peer) (h5 : p.decommitment.length = 5) (e : String) :
    peer9 C H cp own p ≠ .panic e := by
  intro h
  rcases (peer9_panic_iff C H cp own p e).1 h with hp | ⟨⟨v, hv, hl⟩, _⟩
  · refine decommit_no_panic_of_ne_nil H ?_ e hp
    intro hnil
    have := congrArg List.length hnil
    simp [h5] at this
  · have := decommit_some_length H hv
    rw [List.length_map, h5] at this
    omega

end TssVerif.C05Sg9L
