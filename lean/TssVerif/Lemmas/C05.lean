import TssVerif.Core.Blame
import TssVerif.Lemmas.CurveLaw
import TssVerif.Lemmas.VssVerify
import TssVerif.Lemmas.C17
import TssVerif.Lemmas.C10Schnorr
import TssVerif.Lemmas.C06
import TssVerif.Props.C10
import TssVerif.Props.C15
import TssVerif.Props.C16
import TssVerif.Props.C03
/-! Helper lemmas for `TssVerif/Props/C05.lean`: structure of `List.mapM` in the `Outcome` monad, the
culprit list of `kgRound3` as a filter, the exact acceptance condition of `kgCheckPeer`, totality of
`clear`, and the recursion of `sgRound3`. -/
set_option autoImplicit false
set_option linter.style.haveILetI false
set_option linter.unusedSectionVars false
namespace TssVerif.C05L
open TssVerif Blame

/-! ### `mapM` in `Outcome` -/
section mapM
variable {α β : Type}

theorem mapM_ok_iff (f : α → Outcome β) : ∀ (l : List α) (vs : List β),
    l.mapM f = .ok vs ↔ List.Forall₂ (fun a v => f a = .ok v) l vs := by
  intro l
  induction l with
  | nil =>
    intro vs
    rw [List.mapM_nil]
    constructor
    · intro h; injection h with h; subst h; exact List.Forall₂.nil
    · intro h; cases h; rfl
  | cons a l ih =>
    intro vs
    rw [List.mapM_cons]
    cases ha : f a with
    | err e =>
      simp only [Outcome.err_bind]
      constructor
      · intro h; cases h
      · intro h; cases h with | cons h1 _ => rw [ha] at h1; cases h1
    | panic e =>
      simp only [Outcome.panic_bind]
      constructor
      · intro h; cases h
      · intro h; cases h with | cons h1 _ => rw [ha] at h1; cases h1
    | ok v =>
      simp only [Outcome.ok_bind]
      cases hl : l.mapM f with
      | err e =>
        simp only [Outcome.err_bind]
        constructor
        · intro h; cases h
        · intro h
          cases h with
          | cons h1 h2 => rw [← ih] at h2; rw [hl] at h2; cases h2
      | panic e =>
        simp only [Outcome.panic_bind]
        constructor
        · intro h; cases h
        · intro h
          cases h with
          | cons h1 h2 => rw [← ih] at h2; rw [hl] at h2; cases h2
      | ok ws =>
        simp only [Outcome.ok_bind, Outcome.pure_eq]
        constructor
        · intro h
          injection h with h
          subst h
          exact List.Forall₂.cons ha ((ih ws).1 hl)
        · intro h
          cases h with
          | cons h1 h2 =>
            rw [ha] at h1
            injection h1 with h1
            subst h1
            have := (ih _).2 h2
            rw [hl] at this
            injection this with this
            subst this
            rfl

/-- `mapM` crashes only if some element does -/
theorem mapM_no_panic (f : α → Outcome β) (l : List α) (h : ∀ a ∈ l, ∀ t, f a ≠ .panic t) (t : String) :
    l.mapM f ≠ .panic t := by
  revert t
  induction l with
  | nil => intro t; rw [List.mapM_nil]; nofun
  | cons a l ih =>
    intro t
    rw [List.mapM_cons]
    cases ha : f a with
    | err e => simp only [Outcome.err_bind]; nofun
    | panic e => exact absurd ha (h a (List.mem_cons_self ..) e)
    | ok v =>
      simp only [Outcome.ok_bind]
      have := ih (fun b hb => h b (List.mem_cons_of_mem _ hb))
      cases hl : l.mapM f with
      | err e => simp only [Outcome.err_bind]; nofun
      | panic e => exact absurd hl (this e)
      | ok ws => simp only [Outcome.ok_bind, Outcome.pure_eq]; nofun

/-- `mapM` of a total function is total -/
theorem mapM_total (f : α → Outcome β) (l : List α) (h : ∀ a ∈ l, ∃ v, f a = .ok v) :
    ∃ vs, l.mapM f = .ok vs := by
  induction l with
  | nil => exact ⟨[], rfl⟩
  | cons a l ih =>
    obtain ⟨v, hv⟩ := h a (List.mem_cons_self ..)
    obtain ⟨vs, hvs⟩ := ih (fun b hb => h b (List.mem_cons_of_mem _ hb))
    exact ⟨v :: vs, by rw [List.mapM_cons, hv, hvs]; rfl⟩

end mapM

/-! ### de-commitment -/

/-- on a non-empty list `DeCommit` either fails or returns the tail -/
theorem decommit_cases (H : HashFn) (c : Nat) (d : List Int) (hd : d ≠ []) :
    decommitWith H c d = .ok none ∨ decommitWith H c d = .ok (some (d.drop 1)) := by
  cases d with
  | nil => exact absurd rfl hd
  | cons r s =>
    unfold decommitWith commitVerifyWith sha512_256iWith
    simp only [List.isEmpty_cons, Bool.false_eq_true, if_false]
    cases hb : (bytesToNat (H (frame ((r :: s).map intToBytesBE))) == c)
    · left; rfl
    · right; rfl

/-- `DeCommit` never reports an error -/
theorem decommit_no_err (H : HashFn) (c : Nat) (d : List Int) (e : String) : decommitWith H c d ≠ .err e := by
  cases d with
  | nil => intro h; cases h
  | cons r s =>
    rcases decommit_cases H c (r :: s) (by simp) with h | h <;> rw [h] <;> nofun

/-! ### cofactor clearing -/
section clear
variable {P : Type} {C : Curve P}

theorem onCurve_of_toAffine (hC : C.Lawful) {a : P} {r : ECPoint} (h : C.toAffine a = some r) :
    C.ecIsOnCurve r = true := C10L.ecIsOnCurve_of_lift (Vss.lift_of_toAffine hC h)

theorem ecScalarMult_ok_inv {a r : ECPoint} {k : Nat} (h : C.ecScalarMult a (k : Int) = .ok r) :
    ∃ pa, C.lift a = some pa ∧ C.toAffine (C.smul k pa) = some r := by
  unfold Curve.ecScalarMult at h
  cases hl : C.lift a with
  | none => rw [hl] at h; cases h
  | some pa =>
    rw [hl] at h
    simp only [Int.natAbs_natCast] at h
    cases hr : C.toAffine (C.smul k pa) with
    | none => rw [hr] at h; cases h
    | some r' =>
      rw [hr] at h
      injection h with h
      subst h
      exact ⟨pa, rfl, hr⟩

/-- `clear` in terms of the group: the result is the affine form of `cofInv • (cof • P)` -/
theorem clear_ok_iff (hC : C.Lawful) (cof cofInv : Nat) (a r : ECPoint) :
    clear C cof cofInv a = .ok r ↔
      ∃ pa, C.lift a = some pa ∧ (∃ e, C.toAffine (C.smul cof pa) = some e) ∧
        C.toAffine (C.smul cofInv (C.smul cof pa)) = some r := by
  unfold clear
  constructor
  · intro h
    cases h1 : C.ecScalarMult a (cof : Int) with
    | err e => rw [h1] at h; cases h
    | panic e => rw [h1] at h; cases h
    | ok e =>
      rw [h1] at h
      simp only [Outcome.ok_bind] at h
      obtain ⟨pa, hpa, he⟩ := ecScalarMult_ok_inv h1
      obtain ⟨pe, hpe, hr⟩ := ecScalarMult_ok_inv h
      have : pe = C.smul cof pa := by
        have := Vss.lift_of_toAffine hC he
        rw [hpe] at this
        injection this
      subst this
      exact ⟨pa, hpa, ⟨e, he⟩, hr⟩
  · rintro ⟨pa, hpa, ⟨e, he⟩, hr⟩
    rw [C10L.ecScalarMult_nat_ok hpa he]
    simp only [Outcome.ok_bind]
    exact C10L.ecScalarMult_nat_ok (Vss.lift_of_toAffine hC he) hr

/-- a cleared point is a point of the curve -/
theorem clear_onCurve (hC : C.Lawful) {cof cofInv : Nat} {a r : ECPoint}
    (h : clear C cof cofInv a = .ok r) : C.ecIsOnCurve r = true := by
  obtain ⟨_, _, _, hr⟩ := (clear_ok_iff hC cof cofInv a r).1 h
  exact onCurve_of_toAffine hC hr

theorem mapM_clear_onCurve (hC : C.Lawful) {cof cofInv : Nat} {pts vs : List ECPoint}
    (h : pts.mapM (clear C cof cofInv) = .ok vs) : ∀ v ∈ vs, C.ecIsOnCurve v = true := by
  have hf := (mapM_ok_iff _ _ _).1 h
  clear h
  induction hf with
  | nil => intro v hv; cases hv
  | cons h1 _ ih =>
    intro v hv
    rcases List.mem_cons.1 hv with rfl | hv
    · exact clear_onCurve hC h1
    · exact ih v hv

theorem mapM_clear_length {cof cofInv : Nat} {pts vs : List ECPoint}
    (h : pts.mapM (clear C cof cofInv) = .ok vs) : vs.length = pts.length :=
  ((mapM_ok_iff _ _ _).1 h).length_eq.symm

/-- a non-identity point multiplied by a scalar prime to `q` is not the identity, when `q` kills it -/
theorem smul_ne_zero_of (hC : C.Lawful) {pa : P} (hq : C.smul C.q pa = C.zero) {k : Nat}
    (hk : k % C.q ≠ 0) (hne : pa ≠ C.zero) : C.smul k pa ≠ C.zero :=
  fun h => hne (hC.eq_zero_of_smul_eq_zero hq hk h)

/-- **`clear` returns** on every point of the curve. On a curve whose identity has no affine form this needs
cofactor 1 (`hcof`) and `cof`, `cofInv` prime to `q` (`hnz`); on edwards25519 nothing. -/
theorem clear_total (hC : C.Lawful)
    (hcof : C.toAffine C.zero = none → ∀ p, C.smul C.q p = C.zero)
    {cof cofInv : Nat} (hnz : C.toAffine C.zero = none → cof % C.q ≠ 0 ∧ cofInv % C.q ≠ 0)
    {a : ECPoint} (ha : C.ecIsOnCurve a = true) : ∃ r, clear C cof cofInv a = .ok r := by
  obtain ⟨pa, hpa⟩ : ∃ pa, C.lift a = some pa := Option.isSome_iff_exists.1 ha
  have hne : C.toAffine C.zero = none → pa ≠ C.zero := by
    intro hz h0
    have := hC.ofAffine_toAffine _ _ _ hpa
    rw [h0, hz] at this
    cases this
  obtain ⟨e, he⟩ := C10L.toAffine_some_of hC (C.smul cof pa)
    (fun hz => smul_ne_zero_of hC (hcof hz pa) (hnz hz).1 (hne hz))
  obtain ⟨r, hr⟩ := C10L.toAffine_some_of hC (C.smul cofInv (C.smul cof pa))
    (fun hz => smul_ne_zero_of hC (hcof hz _) (hnz hz).2
      (smul_ne_zero_of hC (hcof hz pa) (hnz hz).1 (hne hz)))
  exact ⟨r, (clear_ok_iff hC cof cofInv a r).2 ⟨pa, hpa, ⟨e, he⟩, hr⟩⟩

theorem mapM_clear_total (hC : C.Lawful)
    (hcof : C.toAffine C.zero = none → ∀ p, C.smul C.q p = C.zero)
    {cof cofInv : Nat} (hnz : C.toAffine C.zero = none → cof % C.q ≠ 0 ∧ cofInv % C.q ≠ 0)
    {pts : List ECPoint} (h : ∀ a ∈ pts, C.ecIsOnCurve a = true) :
    ∃ vs, pts.mapM (clear C cof cofInv) = .ok vs :=
  mapM_total _ _ (fun a ha => clear_total hC hcof hnz (h a ha))

/-- scalars act modulo `q` on a point killed by `q` -/
theorem smul_mod_of_order (hC : C.Lawful) {pa : P} (hq : C.smul C.q pa = C.zero) (k : Nat) :
    C.smul k pa = C.smul (k % C.q) pa := by
  conv_lhs => rw [← Nat.div_add_mod k C.q]
  rw [hC.smul_add, Nat.mul_comm, hC.smul_mul, hq, hC.smul_zero_right, hC.zero_add]

/-- **cofactor clearing is the identity on the prime-order subgroup**: `cof·cofInv ≡ 1 (mod q)` and
`q • P = 0` give `clear (affine P) = affine P` (the intermediate affine form exists automatically) -/
theorem clear_id_of_order (hC : C.Lawful) {cof cofInv : Nat} (hinv : cof * cofInv ≡ 1 [MOD C.q])
    {pa : P} {a : ECPoint} (hP : C.toAffine pa = some a) (hq : C.smul C.q pa = C.zero) :
    clear C cof cofInv a = .ok a := by
  have h1 : 1 % C.q = 1 := Nat.mod_eq_of_lt hC.one_lt_q
  have hcofnz : cof % C.q ≠ 0 := by
    intro h0
    have : (cof * cofInv) % C.q = 0 := by rw [Nat.mul_mod, h0, Nat.zero_mul, Nat.zero_mod]
    have h2 : (cof * cofInv) % C.q = 1 := by rw [hinv, h1]
    omega
  have hne : C.toAffine C.zero = none → pa ≠ C.zero := by
    intro hz h0
    rw [h0, hz] at hP
    cases hP
  obtain ⟨e, he⟩ := C10L.toAffine_some_of hC (C.smul cof pa)
    (fun hz => smul_ne_zero_of hC hq hcofnz (hne hz))
  have hback : C.smul cofInv (C.smul cof pa) = pa := by
    rw [← hC.smul_mul, smul_mod_of_order hC hq, Nat.mul_comm, hinv, h1, hC.smul_one]
  exact (clear_ok_iff hC cof cofInv a a).2
    ⟨pa, Vss.lift_of_toAffine hC hP, ⟨e, he⟩, by rw [hback]; exact hP⟩

end clear

/-! ### the Schnorr verifier returns a verdict when the statement point is on the curve -/
section schnorr
variable {P : Type} {C : Curve P}

theorem schnorrVerify_total (hC : C.Lawful)
    (hcof : C.toAffine C.zero = none → ∀ p, C.smul C.q p = C.zero)
    (H : HashFn) (sess : Bytes) (X alpha : ECPoint) (t : Nat) (hX : C.ecIsOnCurve X = true) :
    ∃ b, Zk.schnorrVerify C H Zk.cur sess X alpha t = .ok b := by
  unfold Zk.schnorrVerify
  dsimp only
  split
  · exact ⟨false, rfl⟩
  · rename_i hg
    simp only [Zk.cur, Bool.true_and, Bool.or_eq_true, beq_iff_eq, not_or] at hg
    obtain ⟨ht, hc⟩ := hg
    have hclt := C10L.schnorrChallenge_lt hC H sess X alpha
    have hcq : Zk.schnorrChallenge C H sess X alpha % C.q ≠ 0 := by
      rw [Nat.mod_eq_of_lt hclt]; exact hc
    obtain ⟨tG, htG⟩ := Vss.toAffine_smul_base_isSome hC ht
    obtain ⟨pX, hpX⟩ : ∃ pX, C.lift X = some pX := Option.isSome_iff_exists.1 hX
    have hne : C.toAffine C.zero = none → pX ≠ C.zero := by
      intro hz h0
      have := hC.ofAffine_toAffine _ _ _ hpX
      rw [h0, hz] at this
      cases this
    obtain ⟨xc, hxc⟩ := C10L.toAffine_some_of hC (C.smul (Zk.schnorrChallenge C H sess X alpha) pX)
      (fun hz => smul_ne_zero_of hC (hcof hz pX) hcq (hne hz))
    rw [C10L.ecBaseMult_nat_ok htG, C10L.ecScalarMult_nat_ok hpX hxc]
    simp only [Outcome.ok_bind]
    cases ha : C.ecAdd alpha xc with
    | ok r => exact ⟨_, rfl⟩
    | err e => exact ⟨_, rfl⟩
    | panic e =>
      have := C17L.ecAdd_total C alpha xc
      rw [ha] at this
      cases this

end schnorr

/-! ### key generation round 3: the culprit list is a filter of the peer list -/
section kg
variable {P : Type} (C : Curve P) (H : HashFn)

/-- the verdict "this peer failed a check" -/
def isBad : Outcome PeerVerdict → Bool
  | .ok (.bad _) => true
  | _ => false

theorem isBad_iff (o : Outcome PeerVerdict) : isBad o = true ↔ ∃ why, o = .ok (.bad why) := by
  cases o with
  | ok v => cases v with
    | ok vs => simp [isBad]
    | bad why => simp [isBad]
  | err e => simp [isBad]
  | panic e => simp [isBad]

/-- the culprit computation of `kgRound3` -/
def culpritsOf (ps : List KgPeer) (vs : List PeerVerdict) : List Nat :=
  (ps.zip vs).filterMap fun (p, v) => match v with
    | .bad _ => some p.idx
    | .ok _ => none

theorem culpritsOf_eq_filter (chk : KgPeer → Outcome PeerVerdict) (ps : List KgPeer)
    (vs : List PeerVerdict) (h : List.Forall₂ (fun p v => chk p = .ok v) ps vs) :
    culpritsOf ps vs = (ps.filter fun p => isBad (chk p)).map (·.idx) := by
  induction h with
  | nil => rfl
  | @cons p v ps vs h1 _ ih =>
    unfold culpritsOf at ih ⊢
    rw [List.zip_cons_cons, List.filterMap_cons, List.filter_cons, h1]
    cases v with
    | ok w =>
      have hb : isBad (Outcome.ok (PeerVerdict.ok w)) = false := rfl
      rw [hb]
      simp only [Bool.false_eq_true, if_false]
      exact ih
    | bad why =>
      have hb : isBad (Outcome.ok (PeerVerdict.bad why)) = true := rfl
      rw [hb]
      simp only [if_true, List.map_cons]
      rw [← ih]

theorem kgRound3_eq (zcfg : Zk.Cfg) (vcfg : Vss.VerifyCfg) (lenGuard : Bool) (cof cofInv threshold ownId
    ownShare : Nat) (ssid : Bytes) (peers : List KgPeer) :
    kgRound3 C H zcfg vcfg lenGuard cof cofInv threshold ownId ownShare ssid peers =
      (peers.mapM (kgCheckPeer C H zcfg vcfg lenGuard cof cofInv threshold ownId ssid)) >>= fun verdicts =>
        .ok ⟨culpritsOf peers verdicts, (peers.foldl (fun acc p => acc + p.share) ownShare) % C.q⟩ := rfl

theorem foldl_share (peers : List KgPeer) (s : Nat) :
    peers.foldl (fun acc p => acc + p.share) s = s + (peers.map (·.share)).sum := by
  induction peers generalizing s with
  | nil => simp
  | cons p ps ih => rw [List.foldl_cons, ih, List.map_cons, List.sum_cons]; omega

/-- **the result of `kgRound3`**, when it returns one: every per-peer check returned a verdict, the culprits
are the indices of the peers whose verdict is `.bad`, in peer order, and `xi` is the reduced sum -/
theorem kgRound3_ok (zcfg : Zk.Cfg) (vcfg : Vss.VerifyCfg) (lenGuard : Bool) (cof cofInv threshold ownId
    ownShare : Nat) (ssid : Bytes) (peers : List KgPeer) (res : KgResult)
    (h : kgRound3 C H zcfg vcfg lenGuard cof cofInv threshold ownId ownShare ssid peers = .ok res) :
    (∀ p ∈ peers, ∃ v, kgCheckPeer C H zcfg vcfg lenGuard cof cofInv threshold ownId ssid p = .ok v) ∧
    res.culprits = (peers.filter fun p =>
      isBad (kgCheckPeer C H zcfg vcfg lenGuard cof cofInv threshold ownId ssid p)).map (·.idx) ∧
    res.xi = (ownShare + (peers.map (·.share)).sum) % C.q := by
  rw [kgRound3_eq] at h
  cases hm : peers.mapM (kgCheckPeer C H zcfg vcfg lenGuard cof cofInv threshold ownId ssid) with
  | err e => rw [hm] at h; cases h
  | panic e => rw [hm] at h; cases h
  | ok verdicts =>
    rw [hm] at h
    simp only [Outcome.ok_bind] at h
    injection h with h
    subst h
    have hf := (mapM_ok_iff _ _ _).1 hm
    refine ⟨?_, culpritsOf_eq_filter _ _ _ hf, by simp only; rw [foldl_share]⟩
    intro p hp
    clear hm
    induction hf with
    | nil => cases hp
    | cons h1 _ ih =>
      rcases List.mem_cons.1 hp with rfl | hp
      · exact ⟨_, h1⟩
      · exact ih hp

/-- conversely, when every per-peer check returns a verdict the round returns a result -/
theorem kgRound3_total (zcfg : Zk.Cfg) (vcfg : Vss.VerifyCfg) (lenGuard : Bool) (cof cofInv threshold ownId
    ownShare : Nat) (ssid : Bytes) (peers : List KgPeer)
    (h : ∀ p ∈ peers, ∃ v, kgCheckPeer C H zcfg vcfg lenGuard cof cofInv threshold ownId ssid p = .ok v) :
    ∃ res, kgRound3 C H zcfg vcfg lenGuard cof cofInv threshold ownId ownShare ssid peers = .ok res := by
  obtain ⟨vs, hvs⟩ := mapM_total _ peers h
  rw [kgRound3_eq, hvs]
  exact ⟨_, rfl⟩

theorem kgRound3_no_panic_of (zcfg : Zk.Cfg) (vcfg : Vss.VerifyCfg) (lenGuard : Bool) (cof cofInv threshold
    ownId ownShare : Nat) (ssid : Bytes) (peers : List KgPeer)
    (h : ∀ p ∈ peers, ∀ t, kgCheckPeer C H zcfg vcfg lenGuard cof cofInv threshold ownId ssid p ≠ .panic t)
    (t : String) :
    kgRound3 C H zcfg vcfg lenGuard cof cofInv threshold ownId ownShare ssid peers ≠ .panic t := by
  rw [kgRound3_eq]
  cases hm : peers.mapM (kgCheckPeer C H zcfg vcfg lenGuard cof cofInv threshold ownId ssid) with
  | err e => simp only [Outcome.err_bind]; nofun
  | panic e => exact absurd hm (mapM_no_panic _ _ h e)
  | ok vs => simp only [Outcome.ok_bind]; nofun

/-- a duplicate-free list whose only possible member is `x`, and which contains `x`, is `[x]` -/
theorem eq_singleton_of_nodup {l : List Nat} {x : Nat} (hnd : l.Nodup) (hx : x ∈ l)
    (hall : ∀ c ∈ l, c = x) : l = [x] := by
  cases l with
  | nil => cases hx
  | cons a l =>
    have ha := hall a (List.mem_cons_self ..)
    subst ha
    cases l with
    | nil => rfl
    | cons b l =>
      have hb := hall b (List.mem_cons_of_mem _ (List.mem_cons_self ..))
      subst hb
      exact absurd (List.mem_cons_self ..) (List.nodup_cons.1 hnd).1

/-! ### the per-peer check, stage by stage -/

/-- what `kgCheckPeer` does once the commitment points are decoded and cleared -/
def kgTail (zcfg : Zk.Cfg) (vcfg : Vss.VerifyCfg) (lenGuard : Bool) (threshold ownId : Nat) (ssid : Bytes)
    (p : KgPeer) (vs : List ECPoint) : Outcome PeerVerdict :=
  if lenGuard && vs.length != threshold + 1 then .ok (.bad "wrong number of commitment points") else
  match vs with
  | [] => .panic "index-out-of-range"
  | v0 :: _ =>
    match C.ecNew p.alpha.1 p.alpha.2 with
    | none => .ok (.bad "failed to unmarshal schnorr proof")
    | some al =>
      Zk.schnorrVerify C H zcfg (contextJ ssid p.idx) v0 al p.t >>= fun okS =>
      if !okS then .ok (.bad "failed to prove schnorr proof") else
      Vss.verify C vcfg threshold ⟨threshold, ownId, p.share⟩ vs >>= fun okV =>
      if !okV then .ok (.bad "vss verify failed") else .ok (.ok vs)

variable (zcfg : Zk.Cfg) (vcfg : Vss.VerifyCfg) (lenGuard : Bool) (cof cofInv threshold ownId : Nat)
  (ssid : Bytes) (p : KgPeer)

theorem kgCheckPeer_decommit_none
    (h : decommitWith H p.commitment (p.decommitment.map Int.ofNat) = .ok none) :
    kgCheckPeer C H zcfg vcfg lenGuard cof cofInv threshold ownId ssid p =
      .ok (.bad "de-commitment verify failed") := by
  simp only [kgCheckPeer, h]

theorem kgCheckPeer_decommit_panic (e : String)
    (h : decommitWith H p.commitment (p.decommitment.map Int.ofNat) = .panic e) :
    kgCheckPeer C H zcfg vcfg lenGuard cof cofInv threshold ownId ssid p = .panic e := by
  simp only [kgCheckPeer, h]

theorem kgCheckPeer_decommit_err (e : String)
    (h : decommitWith H p.commitment (p.decommitment.map Int.ofNat) = .err e) :
    kgCheckPeer C H zcfg vcfg lenGuard cof cofInv threshold ownId ssid p = .err e := by
  simp only [kgCheckPeer, h]

theorem kgCheckPeer_unflatten_none (flat : List Int)
    (h : decommitWith H p.commitment (p.decommitment.map Int.ofNat) = .ok (some flat))
    (hu : C.unflatten (flat.map Int.toNat) = none) :
    kgCheckPeer C H zcfg vcfg lenGuard cof cofInv threshold ownId ssid p = .ok (.bad "unflatten") := by
  simp only [kgCheckPeer, h, hu]

theorem kgCheckPeer_points (flat : List Int) (pts : List ECPoint)
    (h : decommitWith H p.commitment (p.decommitment.map Int.ofNat) = .ok (some flat))
    (hu : C.unflatten (flat.map Int.toNat) = some pts) :
    kgCheckPeer C H zcfg vcfg lenGuard cof cofInv threshold ownId ssid p =
      pts.mapM (clear C cof cofInv) >>= kgTail C H zcfg vcfg lenGuard threshold ownId ssid p := by
  simp only [kgCheckPeer, h, hu]
  rfl

theorem lenGuard_pass {vs : List ECPoint} (hl : lenGuard = true → vs.length = threshold + 1) :
    (lenGuard && vs.length != threshold + 1) = false := by
  cases lenGuard with
  | false => rfl
  | true => simp [hl rfl]

theorem kgTail_wrong_length {vs : List ECPoint} (hg : lenGuard = true) (hl : vs.length ≠ threshold + 1) :
    kgTail C H zcfg vcfg lenGuard threshold ownId ssid p vs =
      .ok (.bad "wrong number of commitment points") := by
  unfold kgTail
  rw [if_pos (by simp [hg, hl])]

theorem kgTail_cons {v0 : ECPoint} {rest : List ECPoint}
    (hl : lenGuard = true → (v0 :: rest).length = threshold + 1) :
    kgTail C H zcfg vcfg lenGuard threshold ownId ssid p (v0 :: rest) =
      match C.ecNew p.alpha.1 p.alpha.2 with
      | none => .ok (.bad "failed to unmarshal schnorr proof")
      | some al =>
        Zk.schnorrVerify C H zcfg (contextJ ssid p.idx) v0 al p.t >>= fun okS =>
        if !okS then .ok (.bad "failed to prove schnorr proof") else
        Vss.verify C vcfg threshold ⟨threshold, ownId, p.share⟩ (v0 :: rest) >>= fun okV =>
        if !okV then .ok (.bad "vss verify failed") else .ok (.ok (v0 :: rest)) := by
  unfold kgTail
  rw [lenGuard_pass lenGuard threshold hl]
  rfl

theorem kgTail_nil_panics (hl : lenGuard = false) :
    kgTail C H zcfg vcfg lenGuard threshold ownId ssid p [] = .panic "index-out-of-range" := by
  subst hl; rfl

theorem kgTail_bad_alpha {v0 : ECPoint} {rest : List ECPoint}
    (hl : lenGuard = true → (v0 :: rest).length = threshold + 1)
    (ha : C.ecNew p.alpha.1 p.alpha.2 = none) :
    kgTail C H zcfg vcfg lenGuard threshold ownId ssid p (v0 :: rest) =
      .ok (.bad "failed to unmarshal schnorr proof") := by
  rw [kgTail_cons C H zcfg vcfg lenGuard threshold ownId ssid p hl, ha]

theorem kgTail_bad_schnorr {v0 : ECPoint} {rest : List ECPoint} {al : ECPoint}
    (hl : lenGuard = true → (v0 :: rest).length = threshold + 1)
    (ha : C.ecNew p.alpha.1 p.alpha.2 = some al)
    (hs : Zk.schnorrVerify C H zcfg (contextJ ssid p.idx) v0 al p.t = .ok false) :
    kgTail C H zcfg vcfg lenGuard threshold ownId ssid p (v0 :: rest) =
      .ok (.bad "failed to prove schnorr proof") := by
  rw [kgTail_cons C H zcfg vcfg lenGuard threshold ownId ssid p hl, ha]
  simp only [hs, Outcome.ok_bind]
  rfl

theorem kgTail_bad_share {v0 : ECPoint} {rest : List ECPoint} {al : ECPoint}
    (hl : lenGuard = true → (v0 :: rest).length = threshold + 1)
    (ha : C.ecNew p.alpha.1 p.alpha.2 = some al)
    (hs : Zk.schnorrVerify C H zcfg (contextJ ssid p.idx) v0 al p.t = .ok true)
    (hv : Vss.verify C vcfg threshold ⟨threshold, ownId, p.share⟩ (v0 :: rest) = .ok false) :
    kgTail C H zcfg vcfg lenGuard threshold ownId ssid p (v0 :: rest) = .ok (.bad "vss verify failed") := by
  rw [kgTail_cons C H zcfg vcfg lenGuard threshold ownId ssid p hl, ha]
  simp only [hs, hv, Outcome.ok_bind]
  rfl

theorem kgTail_pass {v0 : ECPoint} {rest : List ECPoint} {al : ECPoint}
    (hl : lenGuard = true → (v0 :: rest).length = threshold + 1)
    (ha : C.ecNew p.alpha.1 p.alpha.2 = some al)
    (hs : Zk.schnorrVerify C H zcfg (contextJ ssid p.idx) v0 al p.t = .ok true)
    (hv : Vss.verify C vcfg threshold ⟨threshold, ownId, p.share⟩ (v0 :: rest) = .ok true) :
    kgTail C H zcfg vcfg lenGuard threshold ownId ssid p (v0 :: rest) = .ok (.ok (v0 :: rest)) := by
  rw [kgTail_cons C H zcfg vcfg lenGuard threshold ownId ssid p hl, ha]
  simp only [hs, hv, Outcome.ok_bind]
  rfl

/-- the points a passing peer is accepted with, and everything that was checked on them -/
structure KgAccepted (vs : List ECPoint) : Prop where
  len : lenGuard = true → vs.length = threshold + 1
  schnorr : ∃ v0 rest al, vs = v0 :: rest ∧ C.ecNew p.alpha.1 p.alpha.2 = some al ∧
    Zk.schnorrVerify C H zcfg (contextJ ssid p.idx) v0 al p.t = .ok true
  share : Vss.verify C vcfg threshold ⟨threshold, ownId, p.share⟩ vs = .ok true

theorem kgTail_ok_iff (vs ws : List ECPoint) :
    kgTail C H zcfg vcfg lenGuard threshold ownId ssid p vs = .ok (.ok ws) ↔
      ws = vs ∧ KgAccepted C H zcfg vcfg lenGuard threshold ownId ssid p vs := by
  constructor
  · intro h
    by_cases hl : lenGuard = true → vs.length = threshold + 1
    · cases vs with
      | nil =>
        unfold kgTail at h
        rw [lenGuard_pass lenGuard threshold hl] at h
        cases h
      | cons v0 rest =>
        rw [kgTail_cons C H zcfg vcfg lenGuard threshold ownId ssid p hl] at h
        cases ha : C.ecNew p.alpha.1 p.alpha.2 with
        | none => rw [ha] at h; cases h
        | some al =>
          rw [ha] at h
          simp only at h
          cases hs : Zk.schnorrVerify C H zcfg (contextJ ssid p.idx) v0 al p.t with
          | err e => rw [hs] at h; cases h
          | panic e => rw [hs] at h; cases h
          | ok okS =>
            rw [hs] at h
            simp only [Outcome.ok_bind] at h
            cases okS with
            | false => cases h
            | true =>
              simp only [Bool.not_true, Bool.false_eq_true, if_false] at h
              cases hv : Vss.verify C vcfg threshold ⟨threshold, ownId, p.share⟩ (v0 :: rest) with
              | err e => rw [hv] at h; cases h
              | panic e => rw [hv] at h; cases h
              | ok okV =>
                rw [hv] at h
                simp only [Outcome.ok_bind] at h
                cases okV with
                | false => cases h
                | true =>
                  simp only [Bool.not_true, Bool.false_eq_true, if_false] at h
                  injection h with h
                  injection h with h
                  exact ⟨h.symm, hl, ⟨v0, rest, al, rfl, ha, hs⟩, hv⟩
    · exfalso
      have hg : lenGuard = true := by
        cases lenGuard with
        | false => exact absurd (fun h => by cases h) hl
        | true => rfl
      rw [kgTail_wrong_length C H zcfg vcfg lenGuard threshold ownId ssid p hg (fun h => hl fun _ => h)] at h
      cases h
  · rintro ⟨rfl, hl, ⟨v0, rest, al, rfl, ha, hs⟩, hv⟩
    exact kgTail_pass C H zcfg vcfg lenGuard threshold ownId ssid p hl ha hs hv

/-- **exact acceptance condition of the per-peer check** -/
theorem kgCheckPeer_ok_iff (vs : List ECPoint) :
    kgCheckPeer C H zcfg vcfg lenGuard cof cofInv threshold ownId ssid p = .ok (.ok vs) ↔
      ∃ flat pts, decommitWith H p.commitment (p.decommitment.map Int.ofNat) = .ok (some flat) ∧
        C.unflatten (flat.map Int.toNat) = some pts ∧
        pts.mapM (clear C cof cofInv) = .ok vs ∧
        KgAccepted C H zcfg vcfg lenGuard threshold ownId ssid p vs := by
  constructor
  · intro h
    cases hd : decommitWith H p.commitment (p.decommitment.map Int.ofNat) with
    | err e => rw [kgCheckPeer_decommit_err C H zcfg vcfg lenGuard cof cofInv threshold ownId ssid p e hd] at h; cases h
    | panic e => rw [kgCheckPeer_decommit_panic C H zcfg vcfg lenGuard cof cofInv threshold ownId ssid p e hd] at h; cases h
    | ok o =>
      cases o with
      | none => rw [kgCheckPeer_decommit_none C H zcfg vcfg lenGuard cof cofInv threshold ownId ssid p hd] at h; cases h
      | some flat =>
        cases hu : C.unflatten (flat.map Int.toNat) with
        | none =>
          rw [kgCheckPeer_unflatten_none C H zcfg vcfg lenGuard cof cofInv threshold ownId ssid p flat hd hu] at h
          cases h
        | some pts =>
          rw [kgCheckPeer_points C H zcfg vcfg lenGuard cof cofInv threshold ownId ssid p flat pts hd hu] at h
          cases hm : pts.mapM (clear C cof cofInv) with
          | err e => rw [hm] at h; cases h
          | panic e => rw [hm] at h; cases h
          | ok ws =>
            rw [hm] at h
            simp only [Outcome.ok_bind] at h
            obtain ⟨rfl, hacc⟩ := (kgTail_ok_iff C H zcfg vcfg lenGuard threshold ownId ssid p ws vs).1 h
            exact ⟨flat, pts, rfl, hu, hm, hacc⟩
  · rintro ⟨flat, pts, hd, hu, hm, hacc⟩
    rw [kgCheckPeer_points C H zcfg vcfg lenGuard cof cofInv threshold ownId ssid p flat pts hd hu, hm]
    simp only [Outcome.ok_bind]
    exact (kgTail_ok_iff C H zcfg vcfg lenGuard threshold ownId ssid p vs vs).2 ⟨rfl, hacc⟩

/-- **the per-peer check always returns a verdict** on the repaired tree (`Zk.cur`, zero checks in
`Vss.verify`, `lenGuard`), for a non-empty de-commitment -/
theorem kgCheckPeer_total (hC : C.Lawful)
    (hcof : C.toAffine C.zero = none → ∀ p, C.smul C.q p = C.zero)
    (hnz : C.toAffine C.zero = none → cof % C.q ≠ 0 ∧ cofInv % C.q ≠ 0)
    (hd : p.decommitment ≠ []) :
    ∃ v, kgCheckPeer C H Zk.cur ⟨true⟩ true cof cofInv threshold ownId ssid p = .ok v := by
  have hd' : p.decommitment.map Int.ofNat ≠ [] := by
    intro h; exact hd (List.map_eq_nil_iff.1 h)
  cases hdc : decommitWith H p.commitment (p.decommitment.map Int.ofNat) with
  | err e => exact absurd hdc (decommit_no_err H _ _ e)
  | panic e =>
    rcases decommit_cases H p.commitment _ hd' with h | h <;> rw [h] at hdc <;> cases hdc
  | ok o =>
    cases o with
    | none => exact ⟨_, kgCheckPeer_decommit_none C H _ _ _ cof cofInv threshold ownId ssid p hdc⟩
    | some flat =>
      cases hu : C.unflatten (flat.map Int.toNat) with
      | none => exact ⟨_, kgCheckPeer_unflatten_none C H _ _ _ cof cofInv threshold ownId ssid p flat hdc hu⟩
      | some pts =>
        rw [kgCheckPeer_points C H _ _ _ cof cofInv threshold ownId ssid p flat pts hdc hu]
        have hon := ((C17L.unflatten_eq_some_iff C _ _).1 hu).2
        obtain ⟨vs, hvs⟩ := mapM_clear_total hC hcof hnz hon
        rw [hvs]
        simp only [Outcome.ok_bind]
        have hvon := mapM_clear_onCurve hC hvs
        by_cases hl : vs.length = threshold + 1
        · cases vs with
          | nil => simp at hl
          | cons v0 rest =>
            rw [kgTail_cons C H _ _ _ threshold ownId ssid p (fun _ => hl)]
            cases ha : C.ecNew p.alpha.1 p.alpha.2 with
            | none => exact ⟨_, rfl⟩
            | some al =>
              simp only
              obtain ⟨b, hb⟩ := schnorrVerify_total hC hcof H (contextJ ssid p.idx) v0 al p.t
                (hvon v0 (List.mem_cons_self ..))
              rw [hb]
              simp only [Outcome.ok_bind]
              cases b with
              | false => exact ⟨_, rfl⟩
              | true =>
                simp only [Bool.not_true, Bool.false_eq_true, if_false]
                obtain ⟨b', hb'⟩ := Vss.verify_no_panic hC hcof threshold
                  ⟨threshold, ownId, p.share⟩ (v0 :: rest) hvon
                have hb'' : Vss.verify C ⟨true⟩ threshold ⟨threshold, ownId, p.share⟩ (v0 :: rest) = .ok b' := hb'
                rw [hb'']
                simp only [Outcome.ok_bind]
                cases b' <;> exact ⟨_, rfl⟩
        · exact ⟨_, kgTail_wrong_length C H _ _ _ threshold ownId ssid p rfl hl⟩

end kg

/-! ### an honestly generated peer input passes -/
section honest
variable {P : Type} {C : Curve P}

theorem forall₂_same {α : Type} {R : α → α → Prop} : ∀ (l : List α), (∀ a ∈ l, R a a) → List.Forall₂ R l l
  | [], _ => List.Forall₂.nil
  | a :: l, h => List.Forall₂.cons (h a (List.mem_cons_self ..))
      (forall₂_same l fun b hb => h b (List.mem_cons_of_mem _ hb))

theorem map_toNat_ofNat (l : List Nat) : (l.map Int.ofNat).map Int.toNat = l := by
  rw [List.map_map]
  conv_rhs => rw [← List.map_id l]
  apply List.map_congr_left
  intro a _
  rfl

/-- the commitment of `NewZKProof` is a point of the curve -/
theorem schnorrProve_alpha_onCurve (hC : C.Lawful) (H : HashFn) (sess : Bytes) (x : Int) (X : ECPoint)
    (a : Nat) (al : ECPoint) (t : Nat) (h : Zk.schnorrProve C H sess x X a = .ok (al, t)) :
    C.ecIsOnCurve al = true := by
  unfold Zk.schnorrProve at h
  split at h
  · cases h
  · cases hb : C.ecBaseMult (a : Int) with
    | err e => rw [hb] at h; cases h
    | panic e => rw [hb] at h; cases h
    | ok r =>
      rw [hb] at h
      simp only [Outcome.ok_bind] at h
      injection h with h
      injection h with h1 _
      subst h1
      unfold Curve.ecBaseMult at hb
      cases hr : C.toAffine (C.smul (a : Int).natAbs C.base) with
      | none => rw [hr] at hb; cases hb
      | some r' =>
        rw [hr] at hb
        injection hb with hb
        subst hb
        exact onCurve_of_toAffine hC hr

/-- **an honest peer passes** (statement explained in `Props/C05.lean`) -/
theorem kgCheckPeer_honest (hC : C.Lawful) (H : HashFn) (lenGuard : Bool) (cof cofInv threshold ownId : Nat)
    (ssid : Bytes) (idx rN a0 : Nat) (as : List Nat) (v0 : ECPoint) (rest : List ECPoint) (coin : Nat)
    (hcom : Vss.IsCommitment C (a0 :: as) (v0 :: rest)) (hlen : as.length = threshold)
    (hclear : ∀ v ∈ v0 :: rest, clear C cof cofInv v = .ok v)
    (hgood : C10L.SchnorrGood C H (contextJ ssid idx) (a0 : Int) v0 coin)
    (hid : ownId % C.q ≠ 0) (hs : Vss.evalPoly C.q (a0 :: as) ownId % C.q ≠ 0)
    (hps : C.toAffine C.zero = none → Vss.PartialSumsNonzero C.q (a0 :: as) ownId) :
    ∃ al t, Zk.schnorrProve C H (contextJ ssid idx) (a0 : Int) v0 coin = .ok (al, t) ∧
      kgCheckPeer C H Zk.cur ⟨true⟩ lenGuard cof cofInv threshold ownId ssid
        { idx := idx
          commitment := (commitWith H (rN : Int) ((flatten (v0 :: rest)).map Int.ofNat)).1
          decommitment := rN :: flatten (v0 :: rest)
          alpha := al
          t := t
          share := Vss.evalPoly C.q (a0 :: as) ownId } = .ok (.ok (v0 :: rest)) := by
  have hv0 : C.toAffine (C.smul a0 C.base) = some v0 := by
    cases hcom with | cons h _ => exact h
  -- the Schnorr proof
  have hsc := C10.schnorr_complete_nat hC H (contextJ ssid idx) a0 v0 coin hv0 hgood
  cases hp : Zk.schnorrProve C H (contextJ ssid idx) (a0 : Int) v0 coin with
  | err e => rw [hp] at hsc; cases hsc
  | panic e => rw [hp] at hsc; cases hsc
  | ok pf =>
    obtain ⟨al, t⟩ := pf
    rw [hp] at hsc
    simp only [Outcome.ok_bind] at hsc
    refine ⟨al, t, rfl, ?_⟩
    have halon := schnorrProve_alpha_onCurve hC H _ _ _ _ al t hp
    have hal : C.ecNew al.1 al.2 = some al := C17L.ecNew_of_onCurve C halon
    -- the share
    have hlen' : (a0 :: as).length = threshold + 1 := by simp [hlen]
    have hver : Vss.verify C ⟨true⟩ threshold ⟨threshold, ownId, Vss.evalPoly C.q (a0 :: as) ownId⟩
        (v0 :: rest) = .ok true :=
      (C15.vss_verify_iff hC (a0 :: as) (v0 :: rest) hcom threshold hlen' ownId _ hid hs hps).2
        (Vss.evalPoly_modEq a0 as ownId).symm
    -- the stages
    rw [kgCheckPeer_ok_iff]
    refine ⟨(flatten (v0 :: rest)).map Int.ofNat, v0 :: rest, ?_, ?_, ?_, ?_⟩
    · exact C16.decommit_returns_secrets H (rN : Int) ((flatten (v0 :: rest)).map Int.ofNat)
    · rw [map_toNat_ofNat]
      exact (C17L.unflatten_eq_some_iff C _ _).2 ⟨rfl, hcom.allOnCurve hC⟩
    · exact (mapM_ok_iff _ _ _).2 (forall₂_same _ hclear)
    · exact ⟨fun _ => by rw [← hcom.length_eq]; exact hlen', ⟨v0, rest, al, rfl, hal, hsc⟩, hver⟩

end honest

/-! ### no culprit: every received share is consistent with the public view -/
section consistent
variable {P : Type} {C : Curve P} (H : HashFn)
variable (zcfg : Zk.Cfg) (vcfg : Vss.VerifyCfg) (lenGuard : Bool) (cof cofInv threshold ownId ownShare : Nat)
  (ssid : Bytes)

theorem kgRound3_no_culprits (peers : List KgPeer) (res : KgResult)
    (h : kgRound3 C H zcfg vcfg lenGuard cof cofInv threshold ownId ownShare ssid peers = .ok res)
    (hnil : res.culprits = []) :
    ∀ p ∈ peers, ∃ vs, kgCheckPeer C H zcfg vcfg lenGuard cof cofInv threshold ownId ssid p = .ok (.ok vs) := by
  obtain ⟨hall, hc, _⟩ := kgRound3_ok C H zcfg vcfg lenGuard cof cofInv threshold ownId ownShare ssid peers res h
  intro p hp
  obtain ⟨v, hv⟩ := hall p hp
  cases v with
  | ok vs => exact ⟨vs, hv⟩
  | bad why =>
    exfalso
    have : p.idx ∈ res.culprits := by
      rw [hc]
      exact List.mem_map.2 ⟨p, List.mem_filter.2 ⟨hp, by rw [hv]; rfl⟩, rfl⟩
    rw [hnil] at this
    cases this

/-- the share each dealer (`none` = the party itself) gave to the party -/
def kgShareOf : Option KgPeer → Vss.Share
  | none => ⟨threshold, ownId, ownShare⟩
  | some p => ⟨threshold, ownId, p.share⟩

/-- the commitment points each dealer is accepted with (`[]` for a peer that was not accepted) -/
def kgPointsOf (chk : KgPeer → Outcome PeerVerdict) (ownVs : List ECPoint) : Option KgPeer → List ECPoint
  | none => ownVs
  | some p => match chk p with
    | .ok (.ok vs) => vs
    | _ => []

theorem sum_shares (peers : List KgPeer) :
    ((none :: peers.map some).map fun i => (kgShareOf threshold ownId ownShare i).share).sum =
      ownShare + (peers.map (·.share)).sum := by
  rw [List.map_cons, List.sum_cons, List.map_map]
  rfl

theorem kgRound3_consistent (hC : C.Lawful) (peers : List KgPeer) (res : KgResult)
    (h : kgRound3 C H zcfg vcfg lenGuard cof cofInv threshold ownId ownShare ssid peers = .ok res)
    (hnil : res.culprits = []) (ownVs : List ECPoint)
    (hown : Vss.verify C vcfg threshold ⟨threshold, ownId, ownShare⟩ ownVs = .ok true) :
    C.smul res.xi C.base =
      AlgL.pubShare C (AlgL.combined C (none :: peers.map some) fun i c =>
        ((kgPointsOf (kgCheckPeer C H zcfg vcfg lenGuard cof cofInv threshold ownId ssid) ownVs i).map
          (AlgL.liftD C)).getD c C.zero) threshold ownId := by
  have hpass := kgRound3_no_culprits H zcfg vcfg lenGuard cof cofInv threshold ownId ownShare ssid peers res h hnil
  obtain ⟨_, _, hxi⟩ := kgRound3_ok C H zcfg vcfg lenGuard cof cofInv threshold ownId ownShare ssid peers res h
  have key := (C03.verify_accept_implies_consistent hC vcfg (none :: peers.map some) threshold ownId
    (kgShareOf threshold ownId ownShare)
    (kgPointsOf (kgCheckPeer C H zcfg vcfg lenGuard cof cofInv threshold ownId ssid) ownVs)
    (fun i _ => by cases i <;> rfl)
    (by
      intro i hi
      cases i with
      | none => exact hown
      | some p =>
        have hp : p ∈ peers := by
          rcases List.mem_cons.1 hi with h0 | h0
          · cases h0
          · obtain ⟨p', hp', he⟩ := List.mem_map.1 h0
            injection he with he
            subst he
            exact hp'
        obtain ⟨vs, hvs⟩ := hpass p hp
        have hacc := ((kgCheckPeer_ok_iff C H zcfg vcfg lenGuard cof cofInv threshold ownId ssid p vs).1 hvs)
        obtain ⟨_, _, _, _, _, hacc⟩ := hacc
        have e : kgPointsOf (kgCheckPeer C H zcfg vcfg lenGuard cof cofInv threshold ownId ssid) ownVs
            (some p) = vs := by
          simp only [kgPointsOf, hvs]
        rw [e]
        exact hacc.share)).2
  rw [sum_shares] at key
  rw [hxi]
  exact key

end consistent

/-! ### signing round 3 -/
section sg
variable {P : Type} (C : Curve P) (H : HashFn)
variable (zcfg : Zk.Cfg) (blameDecommit errFirst : Bool) (cof cofInv : Nat) (ssid : Bytes)

theorem sgRound3_cons (p : SgPeer) (rest : List SgPeer) :
    sgRound3 C H zcfg blameDecommit errFirst cof cofInv ssid (p :: rest) =
      sgCheckPeer C H zcfg blameDecommit errFirst cof cofInv ssid p >>= fun v =>
        match v with
        | .bad _ blamed => .ok (some (p.idx, blamed))
        | .ok _ => sgRound3 C H zcfg blameDecommit errFirst cof cofInv ssid rest := rfl

theorem sgRound3_cons_ok (p : SgPeer) (rest : List SgPeer) (r : ECPoint)
    (h : sgCheckPeer C H zcfg blameDecommit errFirst cof cofInv ssid p = .ok (.ok r)) :
    sgRound3 C H zcfg blameDecommit errFirst cof cofInv ssid (p :: rest) =
      sgRound3 C H zcfg blameDecommit errFirst cof cofInv ssid rest := by
  rw [sgRound3_cons, h]; rfl

theorem sgRound3_cons_bad (p : SgPeer) (rest : List SgPeer) (why : String) (b : Bool)
    (h : sgCheckPeer C H zcfg blameDecommit errFirst cof cofInv ssid p = .ok (.bad why b)) :
    sgRound3 C H zcfg blameDecommit errFirst cof cofInv ssid (p :: rest) = .ok (some (p.idx, b)) := by
  rw [sgRound3_cons, h]; rfl

/-- a result of `sgRound3` means the first peer returned a verdict -/
theorem sgRound3_cons_ok_inv (p : SgPeer) (rest : List SgPeer) (o : Option (Nat × Bool))
    (h : sgRound3 C H zcfg blameDecommit errFirst cof cofInv ssid (p :: rest) = .ok o) :
    (∃ why b, sgCheckPeer C H zcfg blameDecommit errFirst cof cofInv ssid p = .ok (.bad why b) ∧
      o = some (p.idx, b)) ∨
    (∃ r, sgCheckPeer C H zcfg blameDecommit errFirst cof cofInv ssid p = .ok (.ok r) ∧
      sgRound3 C H zcfg blameDecommit errFirst cof cofInv ssid rest = .ok o) := by
  rw [sgRound3_cons] at h
  cases hc : sgCheckPeer C H zcfg blameDecommit errFirst cof cofInv ssid p with
  | err e => rw [hc] at h; cases h
  | panic e => rw [hc] at h; cases h
  | ok v =>
    rw [hc] at h
    simp only [Outcome.ok_bind] at h
    cases v with
    | ok r => exact Or.inr ⟨r, rfl, h⟩
    | bad why b =>
      injection h with h
      exact Or.inl ⟨why, b, rfl, h.symm⟩

/-- **the round passes iff every peer passes** -/
theorem sgRound3_none_iff (peers : List SgPeer) :
    sgRound3 C H zcfg blameDecommit errFirst cof cofInv ssid peers = .ok none ↔
      ∀ p ∈ peers, ∃ r, sgCheckPeer C H zcfg blameDecommit errFirst cof cofInv ssid p = .ok (.ok r) := by
  induction peers with
  | nil => exact ⟨fun _ p hp => (by cases hp), fun _ => rfl⟩
  | cons p rest ih =>
    constructor
    · intro h
      rcases sgRound3_cons_ok_inv C H zcfg blameDecommit errFirst cof cofInv ssid p rest none h with
        ⟨_, _, _, h2⟩ | ⟨r, h1, h2⟩
      · cases h2
      · intro p' hp'
        rcases List.mem_cons.1 hp' with rfl | hp'
        · exact ⟨r, h1⟩
        · exact ih.1 h2 p' hp'
    · intro h
      obtain ⟨r, hr⟩ := h p (List.mem_cons_self ..)
      rw [sgRound3_cons_ok C H zcfg blameDecommit errFirst cof cofInv ssid p rest r hr]
      exact ih.2 fun p' hp' => h p' (List.mem_cons_of_mem _ hp')

/-- **the reported peer is the first failing one** -/
theorem sgRound3_some_iff (peers : List SgPeer) (i : Nat) (b : Bool) :
    sgRound3 C H zcfg blameDecommit errFirst cof cofInv ssid peers = .ok (some (i, b)) ↔
      ∃ pre p post why, peers = pre ++ p :: post ∧
        (∀ p' ∈ pre, ∃ r, sgCheckPeer C H zcfg blameDecommit errFirst cof cofInv ssid p' = .ok (.ok r)) ∧
        sgCheckPeer C H zcfg blameDecommit errFirst cof cofInv ssid p = .ok (.bad why b) ∧ p.idx = i := by
  induction peers with
  | nil =>
    constructor
    · intro h; cases h
    · rintro ⟨pre, p, post, _, h, _⟩
      cases pre <;> cases h
  | cons q rest ih =>
    constructor
    · intro h
      rcases sgRound3_cons_ok_inv C H zcfg blameDecommit errFirst cof cofInv ssid q rest _ h with
        ⟨why, b', h1, h2⟩ | ⟨r, h1, h2⟩
      · injection h2 with h2
        injection h2 with h3 h4
        subst h4
        exact ⟨[], q, rest, why, rfl, fun _ hp => (by cases hp), h1, h3.symm⟩
      · obtain ⟨pre, p, post, why, hsplit, hpre, hbad, hidx⟩ := ih.1 h2
        refine ⟨q :: pre, p, post, why, by rw [hsplit]; rfl, ?_, hbad, hidx⟩
        intro p' hp'
        rcases List.mem_cons.1 hp' with rfl | hp'
        · exact ⟨r, h1⟩
        · exact hpre p' hp'
    · rintro ⟨pre, p, post, why, hsplit, hpre, hbad, hidx⟩
      cases pre with
      | nil =>
        simp only [List.nil_append] at hsplit
        injection hsplit with h1 h2
        subst h1
        rw [sgRound3_cons_bad C H zcfg blameDecommit errFirst cof cofInv ssid q rest why b hbad, hidx]
      | cons q' pre =>
        simp only [List.cons_append] at hsplit
        injection hsplit with h1 h2
        subst h1
        obtain ⟨r, hr⟩ := hpre q (List.mem_cons_self ..)
        rw [sgRound3_cons_ok C H zcfg blameDecommit errFirst cof cofInv ssid q rest r hr]
        exact ih.2 ⟨pre, p, post, why, h2, fun p' hp' => hpre p' (List.mem_cons_of_mem _ hp'), hbad, hidx⟩

/-! the per-peer check of signing, stage by stage -/
variable (p : SgPeer)

theorem sgCheckPeer_decommit_none
    (h : decommitWith H p.commitment (p.decommitment.map Int.ofNat) = .ok none) :
    sgCheckPeer C H zcfg blameDecommit errFirst cof cofInv ssid p =
      .ok (.bad "de-commitment verify failed" blameDecommit) := by
  simp only [sgCheckPeer, h]

theorem sgCheckPeer_wrong_length (coords : List Int)
    (h : decommitWith H p.commitment (p.decommitment.map Int.ofNat) = .ok (some coords))
    (hl : coords.length ≠ 2) :
    sgCheckPeer C H zcfg blameDecommit errFirst cof cofInv ssid p =
      .ok (.bad "length of de-commitment should be 2" blameDecommit) := by
  simp only [sgCheckPeer, h]
  rw [if_pos (by simp [hl])]

/-- what `sgCheckPeer` does once the nonce point `rj0` is decoded -/
def sgTail (rj0 : ECPoint) : Outcome SgVerdict :=
  clear C cof cofInv rj0 >>= fun rj =>
  match C.ecNew p.alpha.1 p.alpha.2 with
  | none => .ok (.bad "failed to unmarshal Rj proof" true)
  | some al =>
    Zk.schnorrVerify C H zcfg (contextJ ssid p.idx) rj al p.t >>= fun okS =>
    if !okS then .ok (.bad "failed to prove Rj" true) else .ok (.ok rj)

theorem sgCheckPeer_coords (x y : Int)
    (h : decommitWith H p.commitment (p.decommitment.map Int.ofNat) = .ok (some [x, y])) :
    sgCheckPeer C H zcfg blameDecommit errFirst cof cofInv ssid p =
      match C.ecNew x.toNat y.toNat with
      | none => if errFirst then .ok (.bad "NewECPoint(Rj)" true) else .panic "nil-Rj"
      | some rj0 => sgTail C H zcfg cof cofInv ssid p rj0 := by
  simp only [sgCheckPeer, h]
  rfl

theorem sgCheckPeer_off_curve (x y : Int)
    (h : decommitWith H p.commitment (p.decommitment.map Int.ofNat) = .ok (some [x, y]))
    (hn : C.ecNew x.toNat y.toNat = none) :
    sgCheckPeer C H zcfg blameDecommit errFirst cof cofInv ssid p =
      if errFirst then .ok (.bad "NewECPoint(Rj)" true) else .panic "nil-Rj" := by
  rw [sgCheckPeer_coords C H zcfg blameDecommit errFirst cof cofInv ssid p x y h, hn]

theorem sgTail_bad_true (rj0 : ECPoint) (why : String) (b : Bool)
    (h : sgTail C H zcfg cof cofInv ssid p rj0 = .ok (.bad why b)) : b = true := by
  unfold sgTail at h
  cases hc : clear C cof cofInv rj0 with
  | err e => rw [hc] at h; cases h
  | panic e => rw [hc] at h; cases h
  | ok rj =>
    rw [hc] at h
    simp only [Outcome.ok_bind] at h
    cases ha : C.ecNew p.alpha.1 p.alpha.2 with
    | none => rw [ha] at h; injection h with h; injection h with _ h; exact h.symm
    | some al =>
      rw [ha] at h
      simp only at h
      cases hs : Zk.schnorrVerify C H zcfg (contextJ ssid p.idx) rj al p.t with
      | err e => rw [hs] at h; cases h
      | panic e => rw [hs] at h; cases h
      | ok okS =>
        rw [hs] at h
        simp only [Outcome.ok_bind] at h
        cases okS with
        | true => cases h
        | false => injection h with h; injection h with _ h; exact h.symm

/-- **D1 repaired**: with `blameDecommit` and `errFirst` every failure verdict names the sender -/
theorem sgCheckPeer_bad_blamed (why : String) (b : Bool)
    (h : sgCheckPeer C H zcfg true true cof cofInv ssid p = .ok (.bad why b)) : b = true := by
  cases hd : decommitWith H p.commitment (p.decommitment.map Int.ofNat) with
  | err e => simp only [sgCheckPeer, hd] at h; cases h
  | panic e => simp only [sgCheckPeer, hd] at h; cases h
  | ok o =>
    cases o with
    | none =>
      rw [sgCheckPeer_decommit_none C H zcfg true true cof cofInv ssid p hd] at h
      injection h with h; injection h with _ h; exact h.symm
    | some coords =>
      by_cases hl : coords.length = 2
      · match coords, hl with
        | [x, y], _ =>
          rw [sgCheckPeer_coords C H zcfg true true cof cofInv ssid p x y hd] at h
          cases hn : C.ecNew x.toNat y.toNat with
          | none =>
            rw [hn] at h
            simp only [if_true] at h
            injection h with h; injection h with _ h; exact h.symm
          | some rj0 =>
            rw [hn] at h
            exact sgTail_bad_true C H zcfg cof cofInv ssid p rj0 why b h
      · rw [sgCheckPeer_wrong_length C H zcfg true true cof cofInv ssid p coords hd hl] at h
        injection h with h; injection h with _ h; exact h.symm

theorem sgTail_bad_alpha (rj0 rj : ECPoint) (hc : clear C cof cofInv rj0 = .ok rj)
    (ha : C.ecNew p.alpha.1 p.alpha.2 = none) :
    sgTail C H zcfg cof cofInv ssid p rj0 = .ok (.bad "failed to unmarshal Rj proof" true) := by
  unfold sgTail
  rw [hc, ha]
  rfl

theorem sgTail_bad_schnorr (rj0 rj al : ECPoint) (hc : clear C cof cofInv rj0 = .ok rj)
    (ha : C.ecNew p.alpha.1 p.alpha.2 = some al)
    (hs : Zk.schnorrVerify C H zcfg (contextJ ssid p.idx) rj al p.t = .ok false) :
    sgTail C H zcfg cof cofInv ssid p rj0 = .ok (.bad "failed to prove Rj" true) := by
  unfold sgTail
  rw [hc, ha]
  simp only [Outcome.ok_bind, hs]
  rfl

theorem sgTail_pass (rj0 rj al : ECPoint) (hc : clear C cof cofInv rj0 = .ok rj)
    (ha : C.ecNew p.alpha.1 p.alpha.2 = some al)
    (hs : Zk.schnorrVerify C H zcfg (contextJ ssid p.idx) rj al p.t = .ok true) :
    sgTail C H zcfg cof cofInv ssid p rj0 = .ok (.ok rj) := by
  unfold sgTail
  rw [hc, ha]
  simp only [Outcome.ok_bind, hs]
  rfl

/-- **exact acceptance condition of the signing check** -/
theorem sgCheckPeer_ok_iff (rj : ECPoint) :
    sgCheckPeer C H zcfg blameDecommit errFirst cof cofInv ssid p = .ok (.ok rj) ↔
      ∃ x y rj0 al, decommitWith H p.commitment (p.decommitment.map Int.ofNat) = .ok (some [x, y]) ∧
        C.ecNew x.toNat y.toNat = some rj0 ∧ clear C cof cofInv rj0 = .ok rj ∧
        C.ecNew p.alpha.1 p.alpha.2 = some al ∧
        Zk.schnorrVerify C H zcfg (contextJ ssid p.idx) rj al p.t = .ok true := by
  constructor
  · intro h
    cases hd : decommitWith H p.commitment (p.decommitment.map Int.ofNat) with
    | err e => simp only [sgCheckPeer, hd] at h; cases h
    | panic e => simp only [sgCheckPeer, hd] at h; cases h
    | ok o =>
      cases o with
      | none =>
        rw [sgCheckPeer_decommit_none C H zcfg blameDecommit errFirst cof cofInv ssid p hd] at h
        cases h
      | some coords =>
        by_cases hl : coords.length = 2
        · match coords, hl with
          | [x, y], _ =>
            rw [sgCheckPeer_coords C H zcfg blameDecommit errFirst cof cofInv ssid p x y hd] at h
            cases hn : C.ecNew x.toNat y.toNat with
            | none =>
              rw [hn] at h
              cases errFirst <;> cases h
            | some rj0 =>
              rw [hn] at h
              simp only at h
              unfold sgTail at h
              cases hc : clear C cof cofInv rj0 with
              | err e => rw [hc] at h; cases h
              | panic e => rw [hc] at h; cases h
              | ok rj' =>
                rw [hc] at h
                simp only [Outcome.ok_bind] at h
                cases ha : C.ecNew p.alpha.1 p.alpha.2 with
                | none => rw [ha] at h; cases h
                | some al =>
                  rw [ha] at h
                  simp only at h
                  cases hs : Zk.schnorrVerify C H zcfg (contextJ ssid p.idx) rj' al p.t with
                  | err e => rw [hs] at h; cases h
                  | panic e => rw [hs] at h; cases h
                  | ok okS =>
                    rw [hs] at h
                    simp only [Outcome.ok_bind] at h
                    cases okS with
                    | false => cases h
                    | true =>
                      simp only [Bool.not_true, Bool.false_eq_true, if_false] at h
                      injection h with h
                      injection h with h
                      subst h
                      exact ⟨x, y, rj0, al, rfl, hn, hc, rfl, hs⟩
        · rw [sgCheckPeer_wrong_length C H zcfg blameDecommit errFirst cof cofInv ssid p coords hd hl] at h
          cases h
  · rintro ⟨x, y, rj0, al, hd, hn, hc, ha, hs⟩
    rw [sgCheckPeer_coords C H zcfg blameDecommit errFirst cof cofInv ssid p x y hd, hn]
    exact sgTail_pass C H zcfg cof cofInv ssid p rj0 rj al hc ha hs

/-- **the signing check always returns a verdict** on the repaired tree, for a non-empty de-commitment -/
theorem sgCheckPeer_total {C : Curve P} (hC : C.Lawful)
    (hcof : C.toAffine C.zero = none → ∀ p, C.smul C.q p = C.zero)
    (hnz : C.toAffine C.zero = none → cof % C.q ≠ 0 ∧ cofInv % C.q ≠ 0)
    (hd : p.decommitment ≠ []) :
    ∃ v, sgCheckPeer C H Zk.cur blameDecommit true cof cofInv ssid p = .ok v := by
  have hd' : p.decommitment.map Int.ofNat ≠ [] := by
    intro h; exact hd (List.map_eq_nil_iff.1 h)
  rcases decommit_cases H p.commitment _ hd' with hdc | hdc
  · exact ⟨_, sgCheckPeer_decommit_none C H _ _ _ cof cofInv ssid p hdc⟩
  · generalize (p.decommitment.map Int.ofNat).drop 1 = coords at hdc
    by_cases hl : coords.length = 2
    · match coords, hl with
      | [x, y], _ =>
        rw [sgCheckPeer_coords C H _ _ _ cof cofInv ssid p x y hdc]
        cases hn : C.ecNew x.toNat y.toNat with
        | none => exact ⟨_, rfl⟩
        | some rj0 =>
          simp only
          have hon : C.ecIsOnCurve rj0 = true := by
            have := (C17L.ecNew_eq_some_iff C).1 hn
            rw [this.2]; exact this.1
          obtain ⟨rj, hrj⟩ := clear_total hC hcof hnz hon
          cases ha : C.ecNew p.alpha.1 p.alpha.2 with
          | none => exact ⟨_, sgTail_bad_alpha C H _ cof cofInv ssid p rj0 rj hrj ha⟩
          | some al =>
            obtain ⟨b, hb⟩ := schnorrVerify_total hC hcof H (contextJ ssid p.idx) rj al p.t
              (clear_onCurve hC hrj)
            cases b with
            | false => exact ⟨_, sgTail_bad_schnorr C H _ cof cofInv ssid p rj0 rj al hrj ha hb⟩
            | true => exact ⟨_, sgTail_pass C H _ cof cofInv ssid p rj0 rj al hrj ha hb⟩
    · exact ⟨_, sgCheckPeer_wrong_length C H _ _ _ cof cofInv ssid p coords hdc hl⟩

theorem sgRound3_total {C : Curve P} (hC : C.Lawful)
    (hcof : C.toAffine C.zero = none → ∀ p, C.smul C.q p = C.zero)
    (hnz : C.toAffine C.zero = none → cof % C.q ≠ 0 ∧ cofInv % C.q ≠ 0)
    (peers : List SgPeer) (hd : ∀ p ∈ peers, p.decommitment ≠ []) :
    ∃ o, sgRound3 C H Zk.cur blameDecommit true cof cofInv ssid peers = .ok o := by
  induction peers with
  | nil => exact ⟨none, rfl⟩
  | cons p rest ih =>
    obtain ⟨v, hv⟩ := sgCheckPeer_total H blameDecommit cof cofInv ssid p hC hcof hnz
      (hd p (List.mem_cons_self ..))
    cases v with
    | ok r =>
      rw [sgRound3_cons_ok C H _ _ _ cof cofInv ssid p rest r hv]
      exact ih fun p' hp' => hd p' (List.mem_cons_of_mem _ hp')
    | bad why b => exact ⟨_, sgRound3_cons_bad C H _ _ _ cof cofInv ssid p rest why b hv⟩

/-- **an honest signer passes**: nonce `ri`, `Rj = affine(ri·G)`, commitment to `(Rj.x, Rj.y)` with
randomness `rN`, Schnorr proof for `ri` under `ssid ‖ bytes(idx)` with a good coin, `Rj` fixed by cofactor
clearing -/
theorem sgCheckPeer_honest {C : Curve P} (hC : C.Lawful) (idx rN ri : Nat) (Rj : ECPoint) (coin : Nat)
    (hR : C.toAffine (C.smul ri C.base) = some Rj)
    (hclear : clear C cof cofInv Rj = .ok Rj)
    (hgood : C10L.SchnorrGood C H (contextJ ssid idx) (ri : Int) Rj coin) :
    ∃ al t, Zk.schnorrProve C H (contextJ ssid idx) (ri : Int) Rj coin = .ok (al, t) ∧
      sgCheckPeer C H Zk.cur blameDecommit errFirst cof cofInv ssid
        { idx := idx
          commitment := (commitWith H (rN : Int) [(Rj.1 : Int), (Rj.2 : Int)]).1
          decommitment := [rN, Rj.1, Rj.2]
          alpha := al
          t := t } = .ok (.ok Rj) := by
  have hsc := C10.schnorr_complete_nat hC H (contextJ ssid idx) ri Rj coin hR hgood
  cases hp : Zk.schnorrProve C H (contextJ ssid idx) (ri : Int) Rj coin with
  | err e => rw [hp] at hsc; cases hsc
  | panic e => rw [hp] at hsc; cases hsc
  | ok pf =>
    obtain ⟨al, t⟩ := pf
    rw [hp] at hsc
    simp only [Outcome.ok_bind] at hsc
    refine ⟨al, t, rfl, ?_⟩
    have halon := schnorrProve_alpha_onCurve hC H _ _ _ _ al t hp
    have hal : C.ecNew al.1 al.2 = some al := C17L.ecNew_of_onCurve C halon
    rw [sgCheckPeer_ok_iff]
    refine ⟨(Rj.1 : Int), (Rj.2 : Int), Rj, al, ?_, ?_, hclear, hal, hsc⟩
    · exact C16.decommit_returns_secrets H (rN : Int) [(Rj.1 : Int), (Rj.2 : Int)]
    · simp only [Int.toNat_natCast]
      exact C17L.ecNew_of_onCurve C (onCurve_of_toAffine hC hR)

end sg

end TssVerif.C05L
