import TssVerif.Core.Curve
import Mathlib.Data.ZMod.Basic
import Mathlib.GroupTheory.OrderOfElement
import Mathlib.Data.Nat.ModEq
import Mathlib.Tactic.Ring
import Mathlib.Algebra.Group.MinimalAxioms
/-! The algebraic contract of a `Curve P` record (`Curve.Lawful`) and what follows from it:
double-and-add `Curve.smul` is repeated addition, it is additive and multiplicative in the scalar,
scalars act on the base point modulo `q`, and the base point has order exactly `q`.
Two small proved-lawful instances (`zmodCurve`, `zmodCurveW`) show that the contract is satisfiable,
with and without an affine form for the identity. -/
set_option linter.style.haveILetI false
set_option linter.unusedSectionVars false
set_option autoImplicit false
namespace TssVerif
namespace Curve
variable {P : Type} (C : Curve P)

/-- commutative-group laws of `add`, `zero`, `neg` (the part of `Lawful` that makes `smul` meaningful) -/
structure GroupLaws : Prop where
  add_assoc : ∀ a b c, C.add (C.add a b) c = C.add a (C.add b c)
  add_comm : ∀ a b, C.add a b = C.add b a
  zero_add : ∀ a, C.add C.zero a = a
  neg_add : ∀ a, C.add (C.neg a) a = C.zero

/-- Everything the algebra needs to know about a curve record. -/
structure Lawful : Prop where
  add_assoc : ∀ a b c, C.add (C.add a b) c = C.add a (C.add b c)
  add_comm : ∀ a b, C.add a b = C.add b a
  zero_add : ∀ a, C.add C.zero a = a
  neg_add : ∀ a, C.add (C.neg a) a = C.zero
  q_prime : Nat.Prime C.q
  smul_q_base : C.smul C.q C.base = C.zero
  base_ne_zero : C.base ≠ C.zero
  toAffine_inj : ∀ a b, C.toAffine a = C.toAffine b → a = b
  ofAffine_toAffine : ∀ x y a, C.ofAffine x y = some a → C.toAffine a = some (x, y)
  toAffine_ofAffine : ∀ x y a, C.toAffine a = some (x, y) → C.ofAffine x y = some a
  /-- ADDED to the specification: the identity is the only point that may lack affine coordinates.
  (Injectivity of `toAffine` only says that at most one point lacks them.) -/
  toAffine_none : ∀ a, C.toAffine a = none → a = C.zero

variable {C}

theorem Lawful.groupLaws (h : C.Lawful) : C.GroupLaws :=
  ⟨h.add_assoc, h.add_comm, h.zero_add, h.neg_add⟩

/-- `k`-fold repeated addition, the specification of `smul` -/
def iter (C : Curve P) : Nat → P → P
  | 0, _ => C.zero
  | k + 1, a => C.add (C.iter k a) a

/-- the group structure carried by a lawful record; used locally (`letI`) to reach Mathlib -/
@[reducible] def GroupLaws.addCommGroup (h : C.GroupLaws) : AddCommGroup P :=
  letI : Add P := ⟨C.add⟩
  letI : Zero P := ⟨C.zero⟩
  letI : Neg P := ⟨C.neg⟩
  { AddGroup.ofLeftAxioms h.add_assoc h.zero_add h.neg_add with add_comm := h.add_comm }

theorem GroupLaws.iter_eq_nsmul (h : C.GroupLaws) (k : Nat) (a : P) :
    C.iter k a = letI := h.addCommGroup; k • a := by
  letI := h.addCommGroup
  induction k with
  | zero => show C.zero = 0 • a; rw [zero_nsmul]; rfl
  | succ k ih => show C.add (C.iter k a) a = (k + 1) • a; rw [succ_nsmul, ih]; rfl

/-! ### double-and-add -/

/-- value of a bit string read most significant bit first, on top of an accumulator -/
def bitsVal (bs : List Bool) (acc : Nat) : Nat := bs.foldl (fun a b => 2 * a + b.toNat) acc

theorem bitsVal_msb (k m : Nat) (acc : Nat) :
    bitsVal ((List.range m).reverse.map fun i => k.testBit i) acc = acc * 2 ^ m + k % 2 ^ m := by
  induction m generalizing acc with
  | zero => simp [bitsVal, Nat.mod_one]
  | succ m ih =>
    rw [List.range_succ, List.reverse_append, List.reverse_singleton, List.singleton_append,
      List.map_cons]
    show bitsVal _ (2 * acc + (k.testBit m).toNat) = _
    rw [ih, Nat.mod_pow_succ, Nat.toNat_testBit]
    ring

theorem bitsVal_bitsMSB (k : Nat) : bitsVal (bitsMSB k) 0 = k := by
  unfold bitsMSB
  rw [bitsVal_msb, Nat.zero_mul, Nat.zero_add]
  exact Nat.mod_eq_of_lt Nat.lt_log2_self

theorem GroupLaws.smulBits_eq (h : C.GroupLaws) (bs : List Bool) (pt : P) (n : Nat) :
    C.smulBits bs pt (C.iter n pt) = C.iter (bitsVal bs n) pt := by
  letI := h.addCommGroup
  induction bs generalizing n with
  | nil => rfl
  | cons b bs ih =>
    have key : (if b then C.add (C.add (C.iter n pt) (C.iter n pt)) pt
        else C.add (C.iter n pt) (C.iter n pt)) = C.iter (2 * n + b.toNat) pt := by
      rw [h.iter_eq_nsmul, h.iter_eq_nsmul]
      cases b
      · show (n • pt + n • pt : P) = (2 * n + 0) • pt
        rw [Nat.add_zero, two_mul, add_nsmul]
      · show (n • pt + n • pt + pt : P) = (2 * n + 1) • pt
        rw [succ_nsmul, two_mul, add_nsmul]
    show C.smulBits bs pt _ = _
    rw [key, ih]
    rfl

/-- **double-and-add is repeated addition** -/
theorem GroupLaws.smul_eq_iter (h : C.GroupLaws) (k : Nat) (a : P) : C.smul k a = C.iter k a := by
  unfold smul
  split
  · next hk => subst hk; rfl
  · have := h.smulBits_eq (bitsMSB k) a 0
    rw [bitsVal_bitsMSB] at this
    exact this

theorem GroupLaws.smul_eq_nsmul (h : C.GroupLaws) (k : Nat) (a : P) :
    C.smul k a = letI := h.addCommGroup; k • a := by
  rw [h.smul_eq_iter, h.iter_eq_nsmul]

namespace Lawful
variable (h : C.Lawful)
include h

theorem smul_eq_iter (k : Nat) (a : P) : C.smul k a = C.iter k a := h.groupLaws.smul_eq_iter k a

theorem smul_eq_nsmul (k : Nat) (a : P) :
    C.smul k a = letI := h.groupLaws.addCommGroup; k • a := h.groupLaws.smul_eq_nsmul k a

theorem add_zero (a : P) : C.add a C.zero = a := by rw [h.add_comm]; exact h.zero_add a

theorem smul_zero_left (a : P) : C.smul 0 a = C.zero := rfl

theorem smul_one (a : P) : C.smul 1 a = a := by
  rw [h.smul_eq_iter]; exact h.zero_add a

theorem smul_succ (k : Nat) (a : P) : C.smul (k + 1) a = C.add (C.smul k a) a := by
  rw [h.smul_eq_iter, h.smul_eq_iter]; rfl

theorem smul_add (a b : Nat) (p : P) : C.smul (a + b) p = C.add (C.smul a p) (C.smul b p) := by
  letI := h.groupLaws.addCommGroup
  rw [h.smul_eq_nsmul, h.smul_eq_nsmul, h.smul_eq_nsmul]
  exact add_nsmul p a b

theorem smul_mul (a b : Nat) (p : P) : C.smul (a * b) p = C.smul a (C.smul b p) := by
  letI := h.groupLaws.addCommGroup
  rw [h.smul_eq_nsmul, h.smul_eq_nsmul, h.smul_eq_nsmul]
  show (a * b) • p = a • (b • p)
  rw [mul_comm, mul_nsmul]

theorem smul_zero_right (k : Nat) : C.smul k C.zero = C.zero := by
  letI := h.groupLaws.addCommGroup
  rw [h.smul_eq_nsmul]
  exact nsmul_zero k

theorem smul_add_right (k : Nat) (a b : P) :
    C.smul k (C.add a b) = C.add (C.smul k a) (C.smul k b) := by
  letI := h.groupLaws.addCommGroup
  rw [h.smul_eq_nsmul, h.smul_eq_nsmul, h.smul_eq_nsmul]
  exact nsmul_add a b k

theorem q_pos : 0 < C.q := h.q_prime.pos

theorem one_lt_q : 1 < C.q := h.q_prime.one_lt

/-- the base point has order exactly `q` -/
theorem addOrderOf_base :
    (letI := h.groupLaws.addCommGroup; addOrderOf C.base) = C.q := by
  letI := h.groupLaws.addCommGroup
  haveI : Fact C.q.Prime := ⟨h.q_prime⟩
  apply addOrderOf_eq_prime
  · have := h.smul_q_base
    rw [h.smul_eq_nsmul] at this
    exact this
  · exact h.base_ne_zero

/-- `smul a base = smul b base ↔ a ≡ b (mod q)` -/
theorem smul_base_eq_iff (a b : Nat) :
    C.smul a C.base = C.smul b C.base ↔ a ≡ b [MOD C.q] := by
  letI := h.groupLaws.addCommGroup
  rw [h.smul_eq_nsmul, h.smul_eq_nsmul]
  have := nsmul_eq_nsmul_iff_modEq (x := C.base) (m := b) (n := a)
  rw [h.addOrderOf_base] at this
  exact this

theorem smul_base_mod (k : Nat) : C.smul k C.base = C.smul (k % C.q) C.base :=
  (h.smul_base_eq_iff _ _).2 (Nat.mod_modEq k C.q).symm

theorem smul_base_eq_zero_iff (k : Nat) : C.smul k C.base = C.zero ↔ k % C.q = 0 := by
  have := h.smul_base_eq_iff k 0
  rw [h.smul_zero_left] at this
  rw [this, Nat.ModEq, Nat.zero_mod]

/-- a point killed by `q` and by a scalar prime to `q` is the identity -/
theorem eq_zero_of_smul_eq_zero {p : P} (hq : C.smul C.q p = C.zero) {k : Nat}
    (hk : k % C.q ≠ 0) (hkp : C.smul k p = C.zero) : p = C.zero := by
  letI := h.groupLaws.addCommGroup
  rw [h.smul_eq_nsmul] at hq hkp
  have h1 : addOrderOf p ∣ C.q := addOrderOf_dvd_of_nsmul_eq_zero hq
  have h2 : addOrderOf p ∣ k := addOrderOf_dvd_of_nsmul_eq_zero hkp
  rcases (Nat.dvd_prime h.q_prime).1 h1 with h3 | h3
  · exact AddMonoid.addOrderOf_eq_one_iff.1 h3
  · rw [h3] at h2
    exact absurd (Nat.mod_eq_zero_of_dvd h2) hk

/-- a point has no affine form iff it is the identity of a curve whose identity has none -/
theorem toAffine_eq_none_iff (a : P) :
    C.toAffine a = none ↔ a = C.zero ∧ C.toAffine C.zero = none := by
  constructor
  · intro ha
    have := h.toAffine_none a ha
    exact ⟨this, this ▸ ha⟩
  · rintro ⟨rfl, hz⟩; exact hz

theorem toAffine_isSome_of_ne_zero {a : P} (ha : a ≠ C.zero) : ∃ r, C.toAffine a = some r := by
  cases hr : C.toAffine a with
  | none => exact absurd (h.toAffine_none a hr) ha
  | some r => exact ⟨r, rfl⟩

/-- `ofAffine x y = some a ↔ toAffine a = some (x, y)` -/
theorem ofAffine_eq_some_iff (x y : Nat) (a : P) :
    C.ofAffine x y = some a ↔ C.toAffine a = some (x, y) :=
  ⟨h.ofAffine_toAffine x y a, h.toAffine_ofAffine x y a⟩

end Lawful
end Curve

/-! ### Proved-lawful toy instances: the exponent representation of a cyclic group of prime order -/

/-- `ZMod q` as a curve whose identity HAS affine coordinates (like edwards25519):
the point `a` is "`a·G`", its affine form is `(a.val, 0)` -/
def zmodCurve (q : Nat) [Fact q.Prime] : Curve (ZMod q) where
  name := "zmod"
  p := q
  q := q
  zero := 0
  add := (· + ·)
  neg := fun a => -a
  base := 1
  toAffine := fun a => some (a.val, 0)
  ofAffine := fun x y => if x < q ∧ y = 0 then some (x : ZMod q) else none
  beq := fun a b => decide (a = b)

/-- `ZMod q` as a curve whose identity has NO affine coordinates (like secp256k1) -/
def zmodCurveW (q : Nat) [Fact q.Prime] : Curve (ZMod q) where
  name := "zmodW"
  p := q
  q := q
  zero := 0
  add := (· + ·)
  neg := fun a => -a
  base := 1
  toAffine := fun a => if a = 0 then none else some (a.val, 0)
  ofAffine := fun x y => if x < q ∧ y = 0 ∧ (x : ZMod q) ≠ 0 then some (x : ZMod q) else none
  beq := fun a b => decide (a = b)

section
variable (q : Nat) [hq : Fact q.Prime]

theorem zmodCurve_groupLaws : (zmodCurve q).GroupLaws where
  add_assoc := fun a b c => _root_.add_assoc a b c
  add_comm := fun a b => _root_.add_comm a b
  zero_add := fun a => _root_.zero_add a
  neg_add := fun a => neg_add_cancel a

theorem zmodCurveW_groupLaws : (zmodCurveW q).GroupLaws where
  add_assoc := fun a b c => _root_.add_assoc a b c
  add_comm := fun a b => _root_.add_comm a b
  zero_add := fun a => _root_.zero_add a
  neg_add := fun a => neg_add_cancel a

theorem zmodCurve_iter (k : Nat) (a : ZMod q) : (zmodCurve q).iter k a = (k : ZMod q) * a := by
  induction k with
  | zero => simp [Curve.iter, zmodCurve]
  | succ k ih =>
    show (zmodCurve q).iter k a + a = _
    rw [ih]; push_cast; ring

theorem zmodCurveW_iter (k : Nat) (a : ZMod q) : (zmodCurveW q).iter k a = (k : ZMod q) * a := by
  induction k with
  | zero => simp [Curve.iter, zmodCurveW]
  | succ k ih =>
    show (zmodCurveW q).iter k a + a = _
    rw [ih]; push_cast; ring

/-- in the exponent representation scalar multiplication is multiplication -/
theorem zmodCurve_smul (k : Nat) (a : ZMod q) : (zmodCurve q).smul k a = (k : ZMod q) * a := by
  rw [(zmodCurve_groupLaws q).smul_eq_iter, zmodCurve_iter]

theorem zmodCurveW_smul (k : Nat) (a : ZMod q) : (zmodCurveW q).smul k a = (k : ZMod q) * a := by
  rw [(zmodCurveW_groupLaws q).smul_eq_iter, zmodCurveW_iter]

theorem zmodCurve_lawful : (zmodCurve q).Lawful where
  add_assoc := (zmodCurve_groupLaws q).add_assoc
  add_comm := (zmodCurve_groupLaws q).add_comm
  zero_add := (zmodCurve_groupLaws q).zero_add
  neg_add := (zmodCurve_groupLaws q).neg_add
  q_prime := hq.out
  smul_q_base := by
    rw [zmodCurve_smul]
    show ((q : ℕ) : ZMod q) * _ = 0
    rw [ZMod.natCast_self, zero_mul]
  base_ne_zero := by
    haveI : Fact (1 < q) := ⟨hq.out.one_lt⟩
    exact one_ne_zero
  toAffine_inj := fun a b hab => by
    simp only [zmodCurve, Option.some.injEq, Prod.mk.injEq, and_true] at hab
    exact ZMod.val_injective q hab
  ofAffine_toAffine := fun x y a hxy => by
    simp only [zmodCurve] at hxy ⊢
    split at hxy
    · next hc =>
      obtain ⟨hx, rfl⟩ := hc
      injection hxy with hxy
      subst hxy
      rw [ZMod.val_natCast, Nat.mod_eq_of_lt hx]
    · exact absurd hxy (by simp)
  toAffine_ofAffine := fun x y a hxy => by
    haveI : NeZero q := ⟨hq.out.ne_zero⟩
    simp only [zmodCurve, Option.some.injEq, Prod.mk.injEq] at hxy ⊢
    obtain ⟨rfl, rfl⟩ := hxy
    rw [if_pos ⟨ZMod.val_lt a, rfl⟩, ZMod.natCast_zmod_val]
  toAffine_none := fun a ha => by simp [zmodCurve] at ha

theorem zmodCurveW_lawful : (zmodCurveW q).Lawful where
  add_assoc := (zmodCurveW_groupLaws q).add_assoc
  add_comm := (zmodCurveW_groupLaws q).add_comm
  zero_add := (zmodCurveW_groupLaws q).zero_add
  neg_add := (zmodCurveW_groupLaws q).neg_add
  q_prime := hq.out
  smul_q_base := by
    rw [zmodCurveW_smul]
    show ((q : ℕ) : ZMod q) * _ = 0
    rw [ZMod.natCast_self, zero_mul]
  base_ne_zero := by
    haveI : Fact (1 < q) := ⟨hq.out.one_lt⟩
    exact one_ne_zero
  toAffine_inj := fun a b hab => by
    simp only [zmodCurveW] at hab
    by_cases ha : a = 0 <;> by_cases hb : b = 0
    · rw [ha, hb]
    · simp [ha, hb] at hab
    · simp [ha, hb] at hab
    · simp only [ha, hb, if_false, Option.some.injEq, Prod.mk.injEq, and_true] at hab
      exact ZMod.val_injective q hab
  ofAffine_toAffine := fun x y a hxy => by
    simp only [zmodCurveW] at hxy ⊢
    split at hxy
    · next hc =>
      obtain ⟨hx, rfl, hne⟩ := hc
      injection hxy with hxy
      subst hxy
      rw [if_neg hne, ZMod.val_natCast, Nat.mod_eq_of_lt hx]
    · exact absurd hxy (by simp)
  toAffine_ofAffine := fun x y a hxy => by
    haveI : NeZero q := ⟨hq.out.ne_zero⟩
    simp only [zmodCurveW] at hxy ⊢
    by_cases ha : a = 0
    · simp [ha] at hxy
    · simp only [ha, if_false, Option.some.injEq, Prod.mk.injEq] at hxy
      obtain ⟨rfl, rfl⟩ := hxy
      rw [ZMod.natCast_zmod_val, if_pos ⟨ZMod.val_lt a, rfl, ha⟩]
  toAffine_none := fun a ha => by
    simp only [zmodCurveW] at ha
    by_cases h0 : a = 0
    · exact h0
    · simp [h0] at ha

theorem zmodCurve_toAffine_zero : (zmodCurve q).toAffine (zmodCurve q).zero ≠ none := by
  simp [zmodCurve]

theorem zmodCurveW_toAffine_zero : (zmodCurveW q).toAffine (zmodCurveW q).zero = none := by
  simp [zmodCurveW]

end
end TssVerif
