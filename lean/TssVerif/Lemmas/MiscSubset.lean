import Mathlib.Data.List.Perm.Basic
import Mathlib.Data.List.Nodup
/-! Helper lemmas for C20: a small executable model of `BuildLocalSaveDataSubset` (`ecdsa/keygen/save_data.go`)
and of a coin stream consumed by consecutive sessions. -/
set_option autoImplicit false
namespace TssVerif.MiscL

/-- `keysToIndices[key]` of the Go code: the map is filled front to back, so the LAST position wins -/
def lastPos (key : Nat) : List Nat → Option Nat
  | [] => none
  | k :: ks =>
    match lastPos key ks with
    | some j => some (j + 1)
    | none => if k = key then some 0 else none

/-- one re-indexed column entry: `source[keysToIndices[key]]`; `none` = Go panics (key missing, or column too short) -/
def entryBy {α : Type} (keys : List Nat) (cols : List α) (key : Nat) : Option α :=
  (lastPos key keys).bind fun idx => cols[idx]?

/-- `BuildLocalSaveDataSubset` on one column (`Ks`, `NTildej`, `H1j`, `H2j`, `BigXj`, `PaillierPKs` alike):
for each selected key the saved entry at that key's position; `none` = panic -/
def subsetBy {α : Type} (keys : List Nat) (cols : List α) : List Nat → Option (List α)
  | [] => some []
  | s :: sel =>
    match entryBy keys cols s, subsetBy keys cols sel with
    | some a, some r => some (a :: r)
    | _, _ => none

theorem lastPos_some {key : Nat} {keys : List Nat} {idx : Nat} (h : lastPos key keys = some idx) :
    ∃ hlt : idx < keys.length, keys[idx] = key := by
  induction keys generalizing idx with
  | nil => exact absurd h (by simp [lastPos])
  | cons k ks ih =>
    unfold lastPos at h
    cases hl : lastPos key ks with
    | some j =>
      rw [hl] at h
      simp only [Option.some.injEq] at h
      subst h
      obtain ⟨h1, h2⟩ := ih hl
      exact ⟨by simp only [List.length_cons]; omega, by simpa using h2⟩
    | none =>
      rw [hl] at h
      simp only at h
      split at h
      · next hk =>
        simp only [Option.some.injEq] at h
        subst h
        exact ⟨by simp, by simpa using hk⟩
      · exact absurd h (by simp)

theorem lastPos_eq_none_iff (key : Nat) (keys : List Nat) : lastPos key keys = none ↔ key ∉ keys := by
  induction keys with
  | nil => simp [lastPos]
  | cons k ks ih =>
    unfold lastPos
    cases hl : lastPos key ks with
    | some j =>
      have : key ∈ ks := by
        by_contra hn
        rw [ih.2 hn] at hl
        exact absurd hl (by simp)
      simp [this]
    | none =>
      have hn := ih.1 hl
      by_cases hk : k = key
      · simp [hk]
      · simp only [hk, if_false, List.mem_cons, hn, or_false, true_iff]
        exact fun h => hk h.symm

/-- with distinct keys the position is THE position of the key -/
theorem lastPos_of_nodup {keys : List Nat} (hnd : keys.Nodup) {idx : Nat} (hlt : idx < keys.length) :
    lastPos keys[idx] keys = some idx := by
  cases h : lastPos keys[idx] keys with
  | none => exact absurd (List.getElem_mem hlt) ((lastPos_eq_none_iff _ _).1 h)
  | some j =>
    obtain ⟨hj, he⟩ := lastPos_some h
    rw [(hnd.getElem_inj_iff (hi := hj) (hj := hlt)).1 he]

theorem subsetBy_eq_some_iff {α : Type} (keys : List Nat) (cols : List α) (sel : List Nat) (r : List α) :
    subsetBy keys cols sel = some r ↔
      r.length = sel.length ∧ ∀ j (h1 : j < sel.length) (h2 : j < r.length),
        entryBy keys cols sel[j] = some r[j] := by
  induction sel generalizing r with
  | nil =>
    simp only [subsetBy, Option.some.injEq, List.length_nil, List.length_eq_zero_iff]
    constructor
    · rintro rfl; exact ⟨rfl, fun j h1 => absurd h1 (by omega)⟩
    · rintro ⟨h, _⟩; exact h.symm
  | cons s sel ih =>
    unfold subsetBy
    cases he : entryBy keys cols s with
    | none =>
      refine ⟨fun h => absurd h (by simp), ?_⟩
      rintro ⟨hlen, hall⟩
      have h0 := hall 0 (by simp) (by rw [hlen]; simp)
      simp only [List.getElem_cons_zero] at h0
      rw [he] at h0
      exact absurd h0 (by simp)
    | some a =>
      cases hs : subsetBy keys cols sel with
      | none =>
        refine ⟨fun h => absurd h (by simp), ?_⟩
        rintro ⟨hlen, hall⟩
        cases r with
        | nil => simp at hlen
        | cons b r' =>
          have : subsetBy keys cols sel = some r' := by
            rw [ih]
            refine ⟨by simpa using hlen, fun j h1 h2 => ?_⟩
            have := hall (j + 1) (by simp only [List.length_cons]; omega)
              (by simp only [List.length_cons]; omega)
            simpa using this
          rw [hs] at this
          exact absurd this (by simp)
      | some r' =>
        obtain ⟨hl, hall⟩ := (ih r').1 hs
        simp only [Option.some.injEq]
        constructor
        · rintro rfl
          refine ⟨by simp [hl], fun j h1 h2 => ?_⟩
          cases j with
          | zero => simpa using he
          | succ j =>
            simp only [List.getElem_cons_succ]
            exact hall j (by simpa using h1) (by simpa using h2)
        · rintro ⟨hlen, hall'⟩
          cases r with
          | nil => simp at hlen
          | cons b r'' =>
            have hb : a = b := by
              have := hall' 0 (by simp) (by simp)
              simp only [List.getElem_cons_zero] at this
              rw [he] at this
              exact Option.some.inj this
            have hr : subsetBy keys cols sel = some r'' := by
              rw [ih]
              refine ⟨by simpa using hlen, fun j h1 h2 => ?_⟩
              have := hall' (j + 1) (by simp only [List.length_cons]; omega)
                (by simp only [List.length_cons]; omega)
              simpa using this
            rw [hs] at hr
            rw [hb, Option.some.inj hr]

theorem subsetBy_isSome_iff {α : Type} (keys : List Nat) (cols : List α) (sel : List Nat) :
    (subsetBy keys cols sel).isSome ↔ ∀ s ∈ sel, (entryBy keys cols s).isSome := by
  induction sel with
  | nil => simp [subsetBy]
  | cons s sel ih =>
    unfold subsetBy
    cases he : entryBy keys cols s with
    | none => simp [he]
    | some a =>
      cases hs : subsetBy keys cols sel with
      | none =>
        rw [hs] at ih
        simp only [Option.isSome_none, Bool.false_eq_true, false_iff] at ih
        simp only [Option.isSome_none, Bool.false_eq_true, List.mem_cons, forall_eq_or_imp, he,
          Option.isSome_some, true_and, false_iff]
        exact ih
      | some r =>
        rw [hs] at ih
        simp only [Option.isSome_some, true_iff] at ih
        simp only [Option.isSome_some, List.mem_cons, forall_eq_or_imp, he, true_and, true_iff]
        exact ih

theorem entryBy_isSome_iff {α : Type} (keys : List Nat) (cols : List α) (hlen : cols.length = keys.length)
    (key : Nat) : (entryBy keys cols key).isSome ↔ key ∈ keys := by
  unfold entryBy
  cases h : lastPos key keys with
  | none => simpa using (lastPos_eq_none_iff key keys).1 h
  | some idx =>
    obtain ⟨hlt, he⟩ := lastPos_some h
    have : key ∈ keys := he ▸ List.getElem_mem hlt
    simp only [Option.bind_some, this, iff_true]
    rw [List.getElem?_eq_getElem (by omega)]
    rfl

theorem subsetBy_cons_some {α : Type} {keys : List Nat} {cols : List α} {s : Nat} {sel : List Nat}
    {r : List α} (h : subsetBy keys cols (s :: sel) = some r) :
    ∃ a r', entryBy keys cols s = some a ∧ subsetBy keys cols sel = some r' ∧ r = a :: r' := by
  unfold subsetBy at h
  cases he : entryBy keys cols s with
  | none => rw [he] at h; exact absurd h (by simp)
  | some a =>
    cases hs : subsetBy keys cols sel with
    | none => rw [he, hs] at h; exact absurd h (by simp)
    | some r' =>
      rw [he, hs] at h
      exact ⟨a, r', rfl, rfl, (Option.some.inj h).symm⟩

theorem subsetBy_cons_of {α : Type} {keys : List Nat} {cols : List α} {s : Nat} {sel : List Nat}
    {a : α} {r' : List α} (he : entryBy keys cols s = some a) (hs : subsetBy keys cols sel = some r') :
    subsetBy keys cols (s :: sel) = some (a :: r') := by
  unfold subsetBy
  rw [he, hs]

/-- re-ordering the selection re-orders the result the same way (the key ↦ entry association is preserved) -/
theorem subsetBy_perm {α : Type} (keys : List Nat) (cols : List α) {sel sel' : List Nat}
    (hp : sel.Perm sel') : ∀ {r : List α}, subsetBy keys cols sel = some r →
      ∃ r', subsetBy keys cols sel' = some r' ∧ (sel.zip r).Perm (sel'.zip r') := by
  induction hp with
  | nil => intro r h; exact ⟨r, h, List.Perm.refl _⟩
  | cons x _ ih =>
    intro r h
    obtain ⟨a, r1, he, hs, rfl⟩ := subsetBy_cons_some h
    obtain ⟨r2, h2, hz⟩ := ih hs
    exact ⟨a :: r2, subsetBy_cons_of he h2, by simpa using hz.cons (x, a)⟩
  | swap x y l =>
    intro r h
    obtain ⟨b, r1, hey, hs, rfl⟩ := subsetBy_cons_some h
    obtain ⟨a, r2, hex, hs2, rfl⟩ := subsetBy_cons_some hs
    exact ⟨a :: b :: r2, subsetBy_cons_of hex (subsetBy_cons_of hey hs2), by
      simpa using List.Perm.swap (x, a) (y, b) (l.zip r2)⟩
  | trans _ _ ih1 ih2 =>
    intro r h
    obtain ⟨r1, h1, hz1⟩ := ih1 h
    obtain ⟨r2, h2, hz2⟩ := ih2 h1
    exact ⟨r2, h2, hz1.trans hz2⟩

/-! ## coin streams (small list lemma) -/

theorem take_drop_disjoint {α : Type} (cs : List α) (n m : Nat) :
    cs.take n ++ (cs.drop n).take m = cs.take (n + m) ∧
    (∀ i, i < n → (cs.take n)[i]? = cs[i]?) ∧
    (∀ j, j < m → ((cs.drop n).take m)[j]? = cs[n + j]?) ∧
    (cs.Nodup → List.Disjoint (cs.take n) ((cs.drop n).take m)) := by
  refine ⟨?_, ?_, ?_, ?_⟩
  · rw [List.take_add]
  · intro i hi
    rw [List.getElem?_take, if_pos hi]
  · intro j hj
    rw [List.getElem?_take, if_pos hj, List.getElem?_drop]
  · intro hnd
    have h1 : List.Disjoint (cs.take n) (cs.drop n) := by
      have := List.take_append_drop n cs ▸ hnd
      exact (List.nodup_append.1 this).2.2 |> fun h => by
        intro a ha hb
        exact h a ha a hb rfl
    intro a ha hb
    exact h1 ha (List.mem_of_mem_take hb)

end TssVerif.MiscL
